import PromModel.Promql.Lexer
/-
  Property C26, lexer layer: a compositional account of how the PromQL lexer (`lexLoop`) reads text that
  is assembled from pieces (the printer's output).

  `LexSeg st s ts st' ok`: started in lexer state `st` in front of the bytes `s`, the lexer emits the
  tokens `ts`, consumes exactly `s` and is left in state `st'` — whatever follows `s`, provided the first
  byte after `s` (or `none` at the end of input) satisfies the delimiter condition `ok`.  Segments
  compose (`LexSeg.append`); a segment from the initial state that ends in a clean state gives
  `lex s = some ts` (`lex_of_seg`).  One lemma per token class the printer emits.
-/
namespace Prom.Promql

/-! ### byte facts -/

theorem isAlphaB_iff (c : UInt8) :
    isAlphaB c = true ↔ c.toNat = 95 ∨ (97 ≤ c.toNat ∧ c.toNat ≤ 122) ∨ (65 ≤ c.toNat ∧ c.toNat ≤ 90) := by
  simp [isAlphaB, UInt8.le_iff_toNat_le, ← UInt8.toNat_inj, or_assoc]

theorem isDigitB_iff (c : UInt8) : isDigitB c = true ↔ (48 ≤ c.toNat ∧ c.toNat ≤ 57) := by
  simp [isDigitB, UInt8.le_iff_toNat_le]

theorem isAlnumB_iff (c : UInt8) :
    isAlnumB c = true ↔ c.toNat = 95 ∨ (97 ≤ c.toNat ∧ c.toNat ≤ 122) ∨ (65 ≤ c.toNat ∧ c.toNat ≤ 90) ∨
      (48 ≤ c.toNat ∧ c.toNat ≤ 57) := by
  simp [isAlnumB, isAlphaB_iff, isDigitB_iff, or_assoc]

theorem isAlnumB_false_iff (c : UInt8) :
    isAlnumB c = false ↔ ¬(c.toNat = 95 ∨ (97 ≤ c.toNat ∧ c.toNat ≤ 122) ∨ (65 ≤ c.toNat ∧ c.toNat ≤ 90) ∨
      (48 ≤ c.toNat ∧ c.toNat ≤ 57)) := by
  rw [← isAlnumB_iff]; simp

theorem beq_iff_toNat (c d : UInt8) : (c == d) = decide (c.toNat = d.toNat) := by
  rw [Bool.eq_iff_iff]; simp [← UInt8.toNat_inj]

/-! ### list facts -/

theorem takeWhile_append_stop {α : Type} (p : α → Bool) (w rest : List α) (hw : ∀ x ∈ w, p x = true)
    (hr : ∀ c, rest.head? = some c → p c = false) :
    (w ++ rest).takeWhile p = w ∧ (w ++ rest).dropWhile p = rest := by
  induction w with
  | nil =>
    cases rest with
    | nil => simp
    | cons c tl => simp [hr c rfl]
  | cons a w ih =>
    have ha : p a = true := hw a (by simp)
    have := ih (fun x hx => hw x (by simp [hx]))
    simp [ha, this]

/-! ### segments -/

theorem lexLoop_cons (n : Nat) (st : LexState) (c : UInt8) (tl : Bytes) (acc : List Tok) :
    lexLoop (n + 1) st (c :: tl) acc =
      match lexStep st (c :: tl) with
      | none => none
      | some (none, st', s') => lexLoop n st' s' acc
      | some (some t, st', s') => lexLoop n st' s' (t :: acc) := rfl

def LexSeg (st : LexState) (s : Bytes) (ts : List Tok) (st' : LexState) (ok : Option UInt8 → Prop) : Prop :=
  ∃ k, k ≤ s.length ∧ ∀ (n : Nat) (rest : Bytes) (acc : List Tok), ok rest.head? →
    lexLoop (n + k) st (s ++ rest) acc = lexLoop n st' rest (ts.reverse ++ acc)

theorem LexSeg.nil (st : LexState) (ok : Option UInt8 → Prop) : LexSeg st [] [] st ok :=
  ⟨0, Nat.le_refl _, fun _ _ _ _ => rfl⟩

theorem LexSeg.append {st st1 st2 : LexState} {s1 s2 : Bytes} {t1 t2 : List Tok} {ok1 ok2 : Option UInt8 → Prop}
    (h1 : LexSeg st s1 t1 st1 ok1) (h2 : LexSeg st1 s2 t2 st2 ok2)
    (hok : ∀ rest : Bytes, ok2 rest.head? → ok1 (s2 ++ rest).head?) :
    LexSeg st (s1 ++ s2) (t1 ++ t2) st2 ok2 := by
  obtain ⟨k1, hk1, h1⟩ := h1
  obtain ⟨k2, hk2, h2⟩ := h2
  refine ⟨k2 + k1, by simp only [List.length_append]; omega, fun n rest acc hr => ?_⟩
  rw [← Nat.add_assoc, List.append_assoc, h1 (n + k2) (s2 ++ rest) acc (hok rest hr), h2 n rest _ hr]
  simp [List.reverse_append]

theorem LexSeg.weaken {st st' : LexState} {s : Bytes} {ts : List Tok} {ok ok' : Option UInt8 → Prop}
    (h : LexSeg st s ts st' ok) (hw : ∀ x, ok' x → ok x) : LexSeg st s ts st' ok' := by
  obtain ⟨k, hk, h⟩ := h
  exact ⟨k, hk, fun n rest acc hr => h n rest acc (hw _ hr)⟩

theorem LexSeg.step {st st' : LexState} {s : Bytes} {t : Tok} {ok : Option UInt8 → Prop} (hs : s ≠ [])
    (h : ∀ rest : Bytes, ok rest.head? → lexStep st (s ++ rest) = some (some t, st', rest)) :
    LexSeg st s [t] st' ok := by
  cases s with
  | nil => exact absurd rfl hs
  | cons c tl =>
    refine ⟨1, by simp, fun n rest acc hr => ?_⟩
    have := h rest hr
    rw [List.cons_append] at this ⊢
    rw [lexLoop_cons, this]
    rfl

theorem LexSeg.skip {st st' : LexState} {s : Bytes} {ok : Option UInt8 → Prop} (hs : s ≠ [])
    (h : ∀ rest : Bytes, ok rest.head? → lexStep st (s ++ rest) = some (none, st', rest)) :
    LexSeg st s [] st' ok := by
  cases s with
  | nil => exact absurd rfl hs
  | cons c tl =>
    refine ⟨1, by simp, fun n rest acc hr => ?_⟩
    have := h rest hr
    rw [List.cons_append] at this ⊢
    rw [lexLoop_cons, this]
    rfl

/-- A segment from the initial state that covers the whole input and ends in a clean state is a
    successful run of `lex`. -/
theorem lex_of_seg {s : Bytes} {ts : List Tok} {st' : LexState} {ok : Option UInt8 → Prop}
    (h : LexSeg {} s ts st' ok) (hok : ok none) (h1 : st'.braceOpen = false) (h2 : st'.mode = .stmt)
    (h3 : st'.parenDepth = 0) (h4 : st'.bracketOpen = false) : lex s = some ts := by
  obtain ⟨k, hk, h⟩ := h
  have := h (s.length + 1 - k) [] [] hok
  rw [List.append_nil, show s.length + 1 - k + k = s.length + 1 by omega] at this
  unfold lex
  rw [this, show s.length + 1 - k = (s.length - k) + 1 by omega]
  simp [lexLoop, h1, h2, h3, h4]


/-! ### lexer states reached on printer output -/

/-- statement mode, outside braces and brackets, `d` open parentheses -/
def stS (d : Int) (g : Bool) : LexState :=
  { mode := .stmt, braceOpen := false, bracketOpen := false, parenDepth := d, gotDuration := g }

/-- inside `{ … }` -/
def stB (d : Int) (g : Bool) : LexState :=
  { mode := .stmt, braceOpen := true, bracketOpen := false, parenDepth := d, gotDuration := g }

/-- just after `[` (duration-expression mode) -/
def stD (d : Int) (g : Bool) : LexState :=
  { mode := .durexpr, braceOpen := false, bracketOpen := true, parenDepth := d, gotDuration := g }

/-- inside `[ … ]` after the first number -/
def stK (d : Int) : LexState :=
  { mode := .stmt, braceOpen := false, bracketOpen := true, parenDepth := d, gotDuration := true }

def anyB : Option UInt8 → Prop := fun _ => True

/-- the next byte is not a space -/
def noSpaceB : Option UInt8 → Prop := fun x => ∀ c, x = some c → isSpaceB c = false

/-- the next byte does not continue a word (letter, digit, `_`, `:`) -/
def noWordB : Option UInt8 → Prop := fun x => ∀ c, x = some c → (isAlnumB c || c == 58) = false

/-- the next byte does not continue a number (letter, digit, `_`, `.`) -/
def noNumB : Option UInt8 → Prop := fun x => ∀ c, x = some c → isAlnumB c = false ∧ c ≠ 46

theorem skipSpaces_noSpace (rest : Bytes) (h : noSpaceB rest.head?) : skipSpacesB rest = rest := by
  cases rest with
  | nil => rfl
  | cons c tl => simp [skipSpacesB, List.dropWhile, h c rfl]

/-! ### single spaces -/

theorem seg_space_S (d : Int) (g : Bool) : LexSeg (stS d g) [32] [] (stS d g) noSpaceB :=
  LexSeg.skip (by simp) fun rest hr => by
    simp [lexStep, stS, isSpaceB, skipSpaces_noSpace rest hr]

theorem seg_space_B (d : Int) (g : Bool) : LexSeg (stB d g) [32] [] (stB d g) noSpaceB :=
  LexSeg.skip (by simp) fun rest hr => by
    simp [lexStep, stB, isSpaceB, skipSpaces_noSpace rest hr]

theorem seg_space_K (d : Int) : LexSeg (stK d) [32] [] (stK d) noSpaceB :=
  LexSeg.skip (by simp) fun rest hr => by
    simp [lexStep, stK, isSpaceB, skipSpaces_noSpace rest hr]

/-! ### punctuation and operators in statement mode -/

theorem seg_comma (d : Int) (g : Bool) : LexSeg (stS d g) [44] [.comma] (stS d g) anyB :=
  LexSeg.step (by simp) fun rest _ => by simp [lexStep, stS]

theorem seg_at (d : Int) (g : Bool) : LexSeg (stS d g) [64] [.at] (stS d g) anyB :=
  LexSeg.step (by simp) fun rest _ => by simp [lexStep, stS, isSpaceB, isDigitB, isAlphaB]

theorem seg_lparen (d : Int) (g : Bool) : LexSeg (stS d g) [40] [.lparen] (stS (d + 1) g) anyB :=
  LexSeg.step (by simp) fun rest _ => by simp [lexStep, stS, isSpaceB, isDigitB, isAlphaB]

theorem seg_rparen (d : Int) (g : Bool) (hd : 0 ≤ d) : LexSeg (stS (d + 1) g) [41] [.rparen] (stS d g) anyB :=
  LexSeg.step (by simp) fun rest _ => by
    simp [lexStep, stS, isSpaceB, isDigitB, isAlphaB, hd]

theorem seg_lbrace (d : Int) (g : Bool) : LexSeg (stS d g) [123] [.lbrace] (stB d g) anyB :=
  LexSeg.step (by simp) fun rest _ => by simp [lexStep, stS, stB, isSpaceB, isDigitB, isAlphaB]

theorem seg_lbracket (d : Int) (g : Bool) : LexSeg (stS d g) [91] [.lbracket] (stD d g) noSpaceB :=
  LexSeg.step (by simp) fun rest hr => by
    simp [lexStep, stS, stD, isSpaceB, isDigitB, isAlphaB, skipSpaces_noSpace rest hr]

theorem seg_op1 (d : Int) (g : Bool) (op : BinOp) (c : UInt8)
    (h : (op, c) ∈ [(BinOp.add, (43 : UInt8)), (.sub, 45), (.mul, 42), (.div, 47), (.mod, 37), (.pow, 94)]) :
    LexSeg (stS d g) [c] [.op op [c]] (stS d g) anyB :=
  LexSeg.step (by simp) fun rest _ => by
    simp at h
    rcases h with ⟨rfl, rfl⟩ | ⟨rfl, rfl⟩ | ⟨rfl, rfl⟩ | ⟨rfl, rfl⟩ | ⟨rfl, rfl⟩ | ⟨rfl, rfl⟩ <;>
      simp [lexStep, stS, isSpaceB]

theorem seg_op2 (d : Int) (g : Bool) (op : BinOp) (c1 c2 : UInt8)
    (h : (op, c1, c2) ∈ [(BinOp.eqlc, (61 : UInt8), (61 : UInt8)), (.neq, 33, 61), (.lte, 60, 61), (.trimUpper, 60, 47),
      (.gte, 62, 61), (.trimLower, 62, 47)]) :
    LexSeg (stS d g) [c1, c2] [.op op [c1, c2]] (stS d g) anyB :=
  LexSeg.step (by simp) fun rest _ => by
    simp at h
    rcases h with ⟨rfl, rfl, rfl⟩ | ⟨rfl, rfl, rfl⟩ | ⟨rfl, rfl, rfl⟩ | ⟨rfl, rfl, rfl⟩ | ⟨rfl, rfl, rfl⟩ | ⟨rfl, rfl, rfl⟩ <;>
      simp [lexStep, stS, isSpaceB] <;> with_unfolding_all rfl

/-- `<` and `>` must not be followed by `=` or `/`. -/
def noEqSlashB : Option UInt8 → Prop := fun x => x ≠ some 61 ∧ x ≠ some 47

theorem seg_lss (d : Int) (g : Bool) : LexSeg (stS d g) [60] [.op .lss [60]] (stS d g) noEqSlashB :=
  LexSeg.step (by simp) fun rest hr => by
    cases rest with
    | nil => simp [lexStep, stS, isSpaceB]; with_unfolding_all rfl
    | cons c tl =>
      have h1 : c ≠ 61 := fun h => hr.1 (by simp [h])
      have h2 : c ≠ 47 := fun h => hr.2 (by simp [h])
      simp [lexStep, stS, isSpaceB]
      split <;> simp_all <;> with_unfolding_all rfl

theorem seg_gtr (d : Int) (g : Bool) : LexSeg (stS d g) [62] [.op .gtr [62]] (stS d g) noEqSlashB :=
  LexSeg.step (by simp) fun rest hr => by
    cases rest with
    | nil => simp [lexStep, stS, isSpaceB]; with_unfolding_all rfl
    | cons c tl =>
      have h1 : c ≠ 61 := fun h => hr.1 (by simp [h])
      have h2 : c ≠ 47 := fun h => hr.2 (by simp [h])
      simp [lexStep, stS, isSpaceB]
      split <;> simp_all <;> with_unfolding_all rfl


/-! ### words in statement mode -/

/-- a word as the statement lexer reads it: first byte a letter, `_` or `:`, then letters, digits, `_`, `:` -/
def isWordB (w : Bytes) : Bool :=
  match w with
  | [] => false
  | c :: _ => (isAlphaB c || c == 58) && w.all (fun x => isAlnumB x || x == 58)

/-- the token the statement lexer makes of a word (keyword table; `fill*` keywords excluded below) -/
def wordTok (w : Bytes) : Tok :=
  match keywordOf (lowerBs w) w with
  | some t => t
  | none => if w.contains 58 then .metricIdent w else .ident w

def isFillWord (w : Bytes) : Bool :=
  lowerBs w == bs "fill" || lowerBs w == bs "fill_left" || lowerBs w == bs "fill_right"

theorem ite_some_ne {c : Prop} [Decidable c] {a b : Tok} {x : Option Tok} (ha : a ≠ b) (hx : x ≠ some b) :
    (if c then some a else x) ≠ some b := by
  split
  · intro h; exact ha (Option.some.inj h)
  · exact hx

theorem keywordOf_kw_fill (lw w : Bytes) (k : Kw) (t : Bytes) (h : keywordOf lw w = some (.kw k t))
    (hk : k = .fill ∨ k = .fillLeft ∨ k = .fillRight) : lw = bs "fill" ∨ lw = bs "fill_left" ∨ lw = bs "fill_right" := by
  unfold keywordOf at h
  by_cases hc : lw = bs "fill"
  · exact Or.inl hc
  by_cases hc2 : lw = bs "fill_left"
  · exact Or.inr (Or.inl hc2)
  by_cases hc3 : lw = bs "fill_right"
  · exact Or.inr (Or.inr hc3)
  exfalso
  simp only [hc, hc2, hc3, if_false] at h
  revert h
  repeat' apply ite_some_ne
  all_goals first
    | (intro h; injection h with h1 h2; subst h1; simp at hk; done)
    | (intro h; injection h; done)
theorem word_head_chain (c : UInt8) (h : (isAlphaB c || c == 58) = true) :
    (c == 35) = false ∧ (c == 44) = false ∧ isSpaceB c = false ∧ (c == 42) = false ∧ (c == 47) = false ∧
    (c == 37) = false ∧ (c == 43) = false ∧ (c == 45) = false ∧ (c == 94) = false ∧ (c == 61) = false ∧
    (c == 33) = false ∧ (c == 60) = false ∧ (c == 62) = false ∧ isDigitB c = false ∧ (c == 46) = false ∧
    (c == 34) = false ∧ (c == 39) = false ∧ (c == 96) = false := by
  have h' : c.toNat = 95 ∨ (97 ≤ c.toNat ∧ c.toNat ≤ 122) ∨ (65 ≤ c.toNat ∧ c.toNat ≤ 90) ∨ c.toNat = 58 := by
    rcases Bool.or_eq_true _ _ |>.mp h with h | h
    · have := (isAlphaB_iff c).mp h; omega
    · rw [beq_iff_toNat] at h; simp at h; omega
  have hd : isDigitB c = false := by
    rw [Bool.eq_false_iff, Ne, isDigitB_iff]; omega
  have hs : isSpaceB c = false := by
    simp only [isSpaceB, beq_iff_toNat]
    simp
    omega
  have hne : ∀ k : UInt8, c.toNat ≠ k.toNat → (c == k) = false := fun k hk => by
    rw [beq_iff_toNat]; simp [hk]
  refine ⟨hne _ ?_, hne _ ?_, hs, hne _ ?_, hne _ ?_, hne _ ?_, hne _ ?_, hne _ ?_, hne _ ?_, hne _ ?_, hne _ ?_,
    hne _ ?_, hne _ ?_, hd, hne _ ?_, hne _ ?_, hne _ ?_, hne _ ?_⟩ <;> simp <;> omega

theorem lexStep_word (d : Int) (g : Bool) (w rest : Bytes) (hw : isWordB w = true) (hf : isFillWord w = false)
    (hr : noWordB rest.head?) :
    lexStep (stS d g) (w ++ rest) = some (some (wordTok w), stS d g, rest) := by
  cases w with
  | nil => simp [isWordB] at hw
  | cons c tl =>
    simp only [isWordB, Bool.and_eq_true] at hw
    obtain ⟨hc, hall⟩ := hw
    obtain ⟨h1, h2, h3, h4, h5, h6, h7, h8, h9, h10, h11, h12, h13, h14, h15, h16, h17, h18⟩ := word_head_chain c hc
    have htd := takeWhile_append_stop (fun c => isAlnumB c || c == 58) (c :: tl) rest
      (fun x hx => List.all_eq_true.mp hall x hx) (fun x hx => hr x hx)
    rw [List.cons_append] at htd ⊢
    simp only [lexStep, stS, Bool.false_and, Bool.false_eq_true, if_false, h1, h2, h3, h4, h5, h6, h7, h8, h9, h10,
      h11, h12, h13, h14, h15, h16, h17, h18, Bool.false_or, hc, if_true, Bool.not_false,
      show ((LexMode.stmt == LexMode.durexpr) = false) from rfl, htd.1, htd.2, wordTok]
    cases hk : keywordOf (lowerBs (c :: tl)) (c :: tl) with
    | none => simp only []; split <;> rfl
    | some t =>
      cases t with
      | kw k t' =>
        have : (k == Kw.fill || k == Kw.fillLeft || k == Kw.fillRight) = false := by
          rw [Bool.eq_false_iff]
          intro hk'
          have := keywordOf_kw_fill _ _ k t' hk (by simpa [or_assoc] using hk')
          simp [isFillWord] at hf
          rcases this with h | h | h <;> simp [h] at hf
        simp [this]
      | _ => simp

theorem seg_word (d : Int) (g : Bool) (w : Bytes) (hw : isWordB w = true) (hf : isFillWord w = false) :
    LexSeg (stS d g) w [wordTok w] (stS d g) noWordB :=
  LexSeg.step (by cases w <;> simp_all [isWordB]) fun rest hr => lexStep_word d g w rest hw hf hr


/-! ### numbers, durations and strings in statement mode -/

theorem digit_head_chain (c : UInt8) (h : isDigitB c = true) :
    (c == 35) = false ∧ (c == 44) = false ∧ isSpaceB c = false ∧ (c == 42) = false ∧ (c == 47) = false ∧
    (c == 37) = false ∧ (c == 43) = false ∧ (c == 45) = false ∧ (c == 94) = false ∧ (c == 61) = false ∧
    (c == 33) = false ∧ (c == 60) = false ∧ (c == 62) = false := by
  have h' := (isDigitB_iff c).mp h
  have hs : isSpaceB c = false := by
    simp only [isSpaceB, beq_iff_toNat]
    simp
    omega
  have hne : ∀ k : UInt8, c.toNat ≠ k.toNat → (c == k) = false := fun k hk => by
    rw [beq_iff_toNat]; simp [hk]
  refine ⟨hne _ ?_, hne _ ?_, hs, hne _ ?_, hne _ ?_, hne _ ?_, hne _ ?_, hne _ ?_, hne _ ?_, hne _ ?_, hne _ ?_,
    hne _ ?_, hne _ ?_⟩ <;> simp <;> omega

/-- A text starting with a digit is handed to `lexNumberOrDuration` (statement mode). -/
theorem seg_numdur (d : Int) (g : Bool) (t : Bytes) (tok : Tok) (ok : Option UInt8 → Prop)
    (hd : ∃ c tl, t = c :: tl ∧ isDigitB c = true)
    (h : ∀ rest : Bytes, ok rest.head? → lexNumberOrDuration (t ++ rest) = some (tok, rest)) :
    LexSeg (stS d g) t [tok] (stS d g) ok := by
  obtain ⟨c, tl, rfl, hc⟩ := hd
  refine LexSeg.step (by simp) fun rest hr => ?_
  obtain ⟨h1, h2, h3, h4, h5, h6, h7, h8, h9, h10, h11, h12, h13⟩ := digit_head_chain c hc
  have := h rest hr
  rw [List.cons_append] at this ⊢
  simp only [lexStep, stS, Bool.false_and, Bool.false_eq_true, if_false, h1, h2, h3, h4, h5, h6, h7, h8, h9, h10,
    h11, h12, h13, hc, Bool.true_or, if_true, this, Option.map,
    show ((LexMode.stmt == LexMode.durexpr) = false) from rfl]

/-- the same inside brackets after the first number -/
theorem seg_numdur_K (d : Int) (t : Bytes) (tok : Tok) (ok : Option UInt8 → Prop)
    (hd : ∃ c tl, t = c :: tl ∧ isDigitB c = true)
    (h : ∀ rest : Bytes, ok rest.head? → lexNumberOrDuration (t ++ rest) = some (tok, rest)) :
    LexSeg (stK d) t [tok] (stK d) ok := by
  obtain ⟨c, tl, rfl, hc⟩ := hd
  refine LexSeg.step (by simp) fun rest hr => ?_
  obtain ⟨h1, h2, h3, h4, h5, h6, h7, h8, h9, h10, h11, h12, h13⟩ := digit_head_chain c hc
  have := h rest hr
  rw [List.cons_append] at this ⊢
  simp only [lexStep, stK, Bool.false_and, Bool.false_eq_true, if_false, h1, h2, h3, h4, h5, h6, h7, h8, h9, h10,
    h11, h12, h13, hc, Bool.true_or, if_true, this, Option.map,
    show ((LexMode.stmt == LexMode.durexpr) = false) from rfl]

/-- … and just after `[` (duration-expression mode): the number switches back to statement mode. -/
theorem seg_numdur_D (d : Int) (g : Bool) (t : Bytes) (tok : Tok) (ok : Option UInt8 → Prop)
    (hd : ∃ c tl, t = c :: tl ∧ isDigitB c = true)
    (h : ∀ rest : Bytes, ok rest.head? → lexNumberOrDuration (t ++ rest) = some (tok, rest)) :
    LexSeg (stD d g) t [tok] (stK d) ok := by
  obtain ⟨c, tl, rfl, hc⟩ := hd
  refine LexSeg.step (by simp) fun rest hr => ?_
  obtain ⟨h1, h2, h3, h4, h5, h6, h7, h8, h9, h10, h11, h12, h13⟩ := digit_head_chain c hc
  have h' := (isDigitB_iff c).mp hc
  have hne : ∀ k : UInt8, c.toNat ≠ k.toNat → (c == k) = false := fun k hk => by
    rw [beq_iff_toNat]; simp [hk]
  have e1 : (c == 93) = false := hne _ (by simp; omega)
  have e2 : (c == 58) = false := hne _ (by simp; omega)
  have e3 : (c == 40) = false := hne _ (by simp; omega)
  have e4 : (c == 41) = false := hne _ (by simp; omega)
  have hl : lowerB c = c := by
    have : ¬ (65 ≤ c.toNat ∧ c.toNat ≤ 90) := by omega
    simp [lowerB, UInt8.le_iff_toNat_le, this]
  have e5 : isDurKwStart c = false := by
    simp only [isDurKwStart, hl, hne 115 (by simp; omega), hne 114 (by simp; omega), hne 109 (by simp; omega)]
    rfl
  have := h rest hr
  rw [List.cons_append] at this ⊢
  simp only [lexStep, stD, stK, Bool.false_and, Bool.false_eq_true, if_false, h1, h2, h3, h4, h5, h6, h7, h8, h9,
    h10, h11, h12, h13, hc, Bool.true_or, if_true, this, Option.map, e1, e2, e3, e4, e5,
    show ((LexMode.durexpr == LexMode.durexpr) = true) from rfl]

/-- A double-quoted string in statement mode. -/
theorem seg_string (d : Int) (g : Bool) (body : Bytes) (tok : Tok)
    (h : ∀ rest : Bytes, lexStringTok 34 (body ++ rest) = some (tok, rest)) :
    LexSeg (stS d g) (34 :: body) [tok] (stS d g) anyB :=
  LexSeg.step (by simp) fun rest _ => by
    simp [lexStep, stS, isSpaceB, isDigitB, h rest]

/-! ### inside braces -/

theorem seg_string_B (d : Int) (g : Bool) (body : Bytes) (tok : Tok)
    (h : ∀ rest : Bytes, lexStringTok 34 (body ++ rest) = some (tok, rest)) :
    LexSeg (stB d g) (34 :: body) [tok] (stB d g) anyB :=
  LexSeg.step (by simp) fun rest _ => by
    simp [lexStep, stB, isSpaceB, isAlphaB, h rest]

theorem seg_comma_B (d : Int) (g : Bool) : LexSeg (stB d g) [44] [.comma] (stB d g) anyB :=
  LexSeg.step (by simp) fun rest _ => by simp [lexStep, stB, isSpaceB, isAlphaB]

theorem seg_rbrace (d : Int) (g : Bool) : LexSeg (stB d g) [125] [.rbrace] (stS d g) anyB :=
  LexSeg.step (by simp) fun rest _ => by simp [lexStep, stB, stS, isSpaceB, isAlphaB]

/-- the next byte is not `~` -/
def noTildeB : Option UInt8 → Prop := fun x => x ≠ some 126

theorem seg_eql_B (d : Int) (g : Bool) : LexSeg (stB d g) [61] [.eql] (stB d g) noTildeB :=
  LexSeg.step (by simp) fun rest hr => by
    cases rest with
    | nil => simp [lexStep, stB, isSpaceB, isAlphaB]
    | cons c tl =>
      have h1 : c ≠ 126 := fun h => hr (by simp [h])
      simp [lexStep, stB, isSpaceB, isAlphaB]
      split <;> simp_all

theorem seg_neq_B (d : Int) (g : Bool) : LexSeg (stB d g) [33, 61] [.op .neq [33, 61]] (stB d g) anyB :=
  LexSeg.step (by simp) fun rest _ => by
    simp [lexStep, stB, isSpaceB, isAlphaB]; with_unfolding_all rfl

theorem seg_eqlRegex_B (d : Int) (g : Bool) : LexSeg (stB d g) [61, 126] [.eqlRegex] (stB d g) anyB :=
  LexSeg.step (by simp) fun rest _ => by simp [lexStep, stB, isSpaceB, isAlphaB]

theorem seg_neqRegex_B (d : Int) (g : Bool) : LexSeg (stB d g) [33, 126] [.neqRegex] (stB d g) anyB :=
  LexSeg.step (by simp) fun rest _ => by simp [lexStep, stB, isSpaceB, isAlphaB]

/-- the next byte does not continue an identifier -/
def noAlnumB : Option UInt8 → Prop := fun x => ∀ c, x = some c → isAlnumB c = false

/-- A legacy label name inside braces is an IDENTIFIER whatever keyword it spells. -/
theorem seg_ident_B (d : Int) (g : Bool) (w : Bytes) (c : UInt8) (tl : Bytes) (hw : w = c :: tl)
    (hc : isAlphaB c = true) (hall : tl.all isAlnumB = true) :
    LexSeg (stB d g) w [.ident w] (stB d g) noAlnumB := by
  subst hw
  refine LexSeg.step (by simp) fun rest hr => ?_
  have hc' : (isAlphaB c || c == 58) = true := by simp [hc]
  obtain ⟨h1, _, h3, _⟩ := word_head_chain c hc'
  have hall' : ∀ x ∈ c :: tl, isAlnumB x = true := by
    intro x hx
    rcases List.mem_cons.mp hx with rfl | hx
    · simp [isAlnumB, hc]
    · exact List.all_eq_true.mp hall x hx
  have htd := takeWhile_append_stop isAlnumB (c :: tl) rest hall' (fun x hx => hr x hx)
  rw [List.cons_append] at htd ⊢
  simp only [lexStep, stB, Bool.true_and, show ((LexMode.stmt != LexMode.durexpr) = true) from rfl, if_true,
    h1, h3, hc, Bool.false_eq_true, if_false, htd.1, htd.2]

/-! ### closing a bracket -/

theorem seg_rbracket_K (d : Int) : LexSeg (stK d) [93] [.rbracket] (stS d true) anyB :=
  LexSeg.step (by simp) fun rest _ => by simp [lexStep, stK, stS, isSpaceB, isDigitB, isAlphaB]

theorem seg_colon_K (d : Int) : LexSeg (stK d) [58] [.colon] (stK d) anyB :=
  LexSeg.step (by simp) fun rest _ => by simp [lexStep, stK, isSpaceB, isDigitB, isAlphaB]

end Prom.Promql
