import PromModel.Tsdb.HistGauges
/-
  Lemmas for C52's per-series gauge state machine (`PromModel/Tsdb/HistGauges.lean`).
-/
namespace Prom.HistGauges

@[simp] theorem G.add_series (a b : G) : (a + b).series = a.series + b.series := rfl
@[simp] theorem G.add_stale (a b : G) : (a + b).stale = a.stale + b.stale := rfl
@[simp] theorem G.add_hseries (a b : G) : (a + b).hseries = a.hseries + b.hseries := rfl
@[simp] theorem G.add_hbuckets (a b : G) : (a + b).hbuckets = a.hbuckets + b.hbuckets := rfl
@[simp] theorem G.sub_series (a b : G) : (a - b).series = a.series - b.series := rfl
@[simp] theorem G.sub_stale (a b : G) : (a - b).stale = a.stale - b.stale := rfl
@[simp] theorem G.sub_hseries (a b : G) : (a - b).hseries = a.hseries - b.hseries := rfl
@[simp] theorem G.sub_hbuckets (a b : G) : (a - b).hbuckets = a.hbuckets - b.hbuckets := rfl

theorem recount_append (l : List (Option Ser)) (o : Option Ser) :
    recount (l ++ [o]) = recount l + contrib o := by
  induction l with
  | nil => ext <;> simp [recount]
  | cons a r ih => ext <;> simp [recount, ih] <;> omega

/-- Replacing the series at `i` changes the recount by the difference of the contributions. -/
theorem recount_set (l : List (Option Ser)) (i : Nat) (o b : Option Ser) (h : l[i]? = some o) :
    recount (l.set i b) = recount l - contrib o + contrib b := by
  induction l generalizing i with
  | nil => simp at h
  | cons a r ih =>
    cases i with
    | zero =>
      simp at h; subst h
      ext <;> simp [recount] <;> omega
    | succ j =>
      simp at h
      have := ih j h
      ext <;> simp [recount, this] <;> omega

theorem foldl_contrib (l : List (Option Ser)) (g : G) :
    l.foldl (fun g o => g + contrib o) g = g + recount l := by
  induction l generalizing g with
  | nil => ext <;> simp [recount]
  | cons a r ih => rw [List.foldl_cons, ih]; ext <;> simp [recount] <;> omega

/-- The update rule of one site, for a sample that is stored: new gauges = old − old contribution +
    new contribution, provided the sample was not widened in place. -/
theorem bump_store (g : G) (s : Ser) (x : Smp) (hx : x.sb = x.nb) :
    bump g s.last x = g - contrib (some s) + contrib (some (s.store x)) := by
  cases x with
  | mk t kind stale nb sb =>
    simp at hx; subst hx
    cases s with
    | mk maxT last =>
      cases last with
      | mk k st b =>
        cases kind <;> cases k <;> cases st <;> cases stale <;>
          (ext <;> simp [bump, updStale, updNH, contrib, Ser.store, Last.bk] <;> (try split) <;> (try simp_all) <;> (try omega))

theorem convert_noWiden (s : Ser) (x : Smp) (hx : x.sb = x.nb) : (convert s x).sb = (convert s x).nb := by
  unfold convert; split <;> simp [hx]

/-- One guarded sample keeps "gauges − contribution of this series" fixed. -/
theorem sampleAt_spec (s : Ser) (g : G) (x : Smp) (hx : x.sb = x.nb) :
    (sampleAt s g x).2 = g - contrib (some s) + contrib (some (sampleAt s g x).1) := by
  unfold sampleAt
  simp only
  split
  · exact bump_store g s (convert s x) (convert_noWiden s x hx)
  · ext <;> simp <;> omega

end Prom.HistGauges
