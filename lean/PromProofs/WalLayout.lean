import PromProofs.WalFrame
/-
  C13 helper lemmas for the page layout: everything the writer puts into a segment is a sequence of
  pages of exactly `ps` bytes, each consisting of whole fragments followed by zero padding only.
-/
namespace Prom.Wal

/-- A concatenation of whole data fragments. -/
inductive Frames (crc : Crc) : Bytes → Prop
  | nil : Frames crc []
  | cons (typ : UInt8) (part rest : Bytes) : DataTyp typ → Frames crc rest →
      Frames crc (frame crc typ part ++ rest)

/-- A page: whole fragments, then nothing but zeros. -/
def PageOK (crc : Crc) (p : Bytes) : Prop := ∃ fs k, Frames crc fs ∧ p = fs ++ zeros k

/-- A byte string made of full pages. -/
def PagesOK (ps : Nat) (crc : Crc) (seg : Bytes) : Prop :=
  ∃ pages : List Bytes, seg = pages.flatten ∧ ∀ p ∈ pages, p.length = ps ∧ PageOK crc p

theorem Frames.append {crc : Crc} {a b : Bytes} (ha : Frames crc a) (hb : Frames crc b) :
    Frames crc (a ++ b) := by
  induction ha with
  | nil => simpa using hb
  | cons typ part rest hty _ ih => rw [List.append_assoc]; exact Frames.cons typ part _ hty ih

theorem Frames.single {crc : Crc} {typ : UInt8} (part : Bytes) (h : DataTyp typ) :
    Frames crc (frame crc typ part) := by
  simpa using Frames.cons typ part [] h Frames.nil

theorem PagesOK.nil (ps : Nat) (crc : Crc) : PagesOK ps crc [] := ⟨[], rfl, by simp⟩

theorem PagesOK.append {ps : Nat} {crc : Crc} {a b : Bytes} (ha : PagesOK ps crc a) (hb : PagesOK ps crc b) :
    PagesOK ps crc (a ++ b) := by
  obtain ⟨pa, rfl, h1⟩ := ha
  obtain ⟨pb, rfl, h2⟩ := hb
  refine ⟨pa ++ pb, by simp, ?_⟩
  intro p hp
  rcases List.mem_append.mp hp with hp | hp
  · exact h1 p hp
  · exact h2 p hp

theorem PagesOK.single {ps : Nat} {crc : Crc} {p : Bytes} (hl : p.length = ps) (h : PageOK crc p) :
    PagesOK ps crc p := ⟨[p], by simp, by simpa using ⟨hl, h⟩⟩

theorem PagesOK.length_mod {ps : Nat} {crc : Crc} {seg : Bytes} (h : PagesOK ps crc seg) :
    seg.length % ps = 0 := by
  obtain ⟨pages, rfl, hp⟩ := h
  induction pages with
  | nil => simp
  | cons p ps' ih =>
    have h1 := (hp p (by simp)).1
    have h2 := ih (fun q hq => hp q (by simp [hq]))
    simp only [List.flatten_cons, List.length_append, h1]
    rw [Nat.add_mod, h2]; simp

/-- Layout of the bytes of one record appended to a partial page `tail` made of whole fragments:
    full pages followed by a new partial page of whole fragments in which a header still fits. -/
theorem frag_layout (ps : Nat) (crc : Crc) (h8 : 8 ≤ ps) :
    ∀ (fuel i : Nat) (enc tail : Bytes),
      tail.length + 7 ≤ ps → Frames crc tail →
      2 * enc.length + (if ps - tail.length - 7 = 0 then 1 else 0) + 1 ≤ fuel →
      ∃ full tail', tail ++ fragBytes ps crc fuel i tail.length enc = full ++ tail' ∧
        PagesOK ps crc full ∧ tail'.length + 7 ≤ ps ∧ Frames crc tail' := by
  intro fuel
  induction fuel with
  | zero => intro i enc tail _ _ hf; omega
  | succ fuel ih =>
    intro i enc tail ha hfr hf
    by_cases hfit : enc.length ≤ ps - tail.length - 7
    · rw [fragBytes_fit ps crc fuel i tail.length enc hfit]
      have hty : DataTyp (if i = 0 then recFull else recLast) := by
        by_cases h : i = 0 <;> simp [h, DataTyp]
      have hfs : Frames crc (tail ++ frame crc (if i = 0 then recFull else recLast) enc) :=
        hfr.append (Frames.single enc hty)
      have hlen : (tail ++ frame crc (if i = 0 then recFull else recLast) enc).length =
          tail.length + 7 + enc.length := by simp [frame_length]; omega
      by_cases hpad : ps - (tail.length + 7 + enc.length) < 7
      · -- the page is completed (padded if 1..6 bytes are left)
        simp only [hpad, if_true]
        refine ⟨tail ++ frame crc (if i = 0 then recFull else recLast) enc ++
            zeros (ps - (tail.length + 7 + enc.length)), [], by simp, ?_, by simp; omega, Frames.nil⟩
        refine PagesOK.single ?_ ⟨_, _, hfs, rfl⟩
        rw [List.length_append, hlen]; simp [zeros]; omega
      · simp only [hpad, if_false]
        refine ⟨[], tail ++ frame crc (if i = 0 then recFull else recLast) enc, by simp [zeros],
          PagesOK.nil ps crc, by rw [hlen]; omega, hfs⟩
    · have hno : ps - tail.length - 7 < enc.length := by omega
      rw [fragBytes_nofit ps crc fuel i tail.length enc ha hno]
      have hty : DataTyp (if i = 0 then recFirst else recMiddle) := by
        by_cases h : i = 0 <;> simp [h, DataTyp]
      have hfs : Frames crc (tail ++ frame crc (if i = 0 then recFirst else recMiddle)
          (enc.take (ps - tail.length - 7))) := hfr.append (Frames.single _ hty)
      have hlen : (tail ++ frame crc (if i = 0 then recFirst else recMiddle)
          (enc.take (ps - tail.length - 7))).length = ps := by
        simp [frame_length, List.length_take]; omega
      have hfuel : 2 * (enc.drop (ps - tail.length - 7)).length +
          (if ps - ([] : Bytes).length - 7 = 0 then 1 else 0) + 1 ≤ fuel := by
        have h0 : ¬ (ps - ([] : Bytes).length - 7 = 0) := by simp; omega
        simp only [h0, if_false, List.length_drop]
        by_cases hr : ps - tail.length - 7 = 0
        · simp [hr] at hf ⊢; omega
        · simp [hr] at hf; omega
      obtain ⟨full, tail', e, hfull, ht', hfr'⟩ := ih (i + 1) (enc.drop (ps - tail.length - 7)) []
        (by simp; omega) Frames.nil hfuel
      simp only [List.length_nil, List.nil_append] at e
      refine ⟨tail ++ frame crc (if i = 0 then recFirst else recMiddle) (enc.take (ps - tail.length - 7))
          ++ full, tail', ?_, ?_, ht', hfr'⟩
      · rw [← List.append_assoc, List.append_assoc _ full, ← e]
      · exact (PagesOK.single hlen ⟨_, 0, hfs, by simp [zeros]⟩).append hfull


/-- Layout invariant of the writer state. -/
def LInv (ps : Nat) (crc : Crc) (st : WState) : Prop :=
  (∀ seg ∈ st.done, PagesOK ps crc seg) ∧
  ∃ full tail, st.cur = full ++ tail ∧ PagesOK ps crc full ∧ tail.length + 7 ≤ ps ∧ Frames crc tail

theorem LInv.init (ps : Nat) (crc : Crc) (h8 : 8 ≤ ps) : LInv ps crc WState.init :=
  ⟨by simp [WState.init], [], [], rfl, PagesOK.nil ps crc, by simp; omega, Frames.nil⟩

theorem cur_mod {ps : Nat} {crc : Crc} {full tail : Bytes} (hf : PagesOK ps crc full)
    (ht : tail.length + 7 ≤ ps) : (full ++ tail).length % ps = tail.length := by
  rw [List.length_append, Nat.add_mod, hf.length_mod, Nat.zero_add, Nat.mod_mod]
  exact Nat.mod_eq_of_lt (by omega)

/-- Terminating a page-structured segment (`flushPage(true)` when the page holds data). -/
theorem closed_pages {ps : Nat} {crc : Crc} {full tail : Bytes} (hf : PagesOK ps crc full)
    (ht : tail.length + 7 ≤ ps) (hfr : Frames crc tail) :
    PagesOK ps crc (full ++ tail ++ zeros (if tail.length > 0 then ps - tail.length else 0)) := by
  by_cases hz : tail.length > 0
  · simp only [hz, if_true, List.append_assoc]
    refine hf.append (PagesOK.single ?_ ⟨tail, _, hfr, rfl⟩)
    simp [zeros]; omega
  · have : tail = [] := List.eq_nil_of_length_eq_zero (by omega)
    subst this
    simpa [zeros] using hf

theorem LInv.logRec {ps : Nat} {crc : Crc} (pps : Nat) (h8 : 8 ≤ ps) {st : WState}
    (h : LInv ps crc st) (rec : Bytes) : LInv ps crc (logRec ps pps crc st rec) := by
  obtain ⟨hdone, full, tail, hcur, hfull, ht, hfr⟩ := h
  have hmod : st.cur.length % ps = tail.length := by rw [hcur]; exact cur_mod hfull ht
  unfold Wal.logRec logStep applyStep
  by_cases hcut : (rec.length : Int) > leftInSegment ps pps st.cur.length
  · simp only [hcut, if_true]
    have hfuel : 2 * rec.length + (if ps - ([] : Bytes).length - 7 = 0 then 1 else 0) + 1 ≤ fragFuel rec := by
      unfold fragFuel; split <;> omega
    obtain ⟨full', tail', e, hfull', ht', hfr'⟩ :=
      frag_layout ps crc h8 (fragFuel rec) 0 rec [] (by simp; omega) Frames.nil hfuel
    simp only [List.length_nil, List.nil_append] at e
    refine ⟨?_, full', tail', e, hfull', ht', hfr'⟩
    intro seg hseg
    rcases List.mem_append.mp hseg with hseg | hseg
    · exact hdone seg hseg
    · simp only [List.mem_singleton] at hseg
      subst hseg
      rw [hmod, hcur]
      exact closed_pages hfull ht hfr
  · simp only [hcut, if_false]
    rw [hmod]
    have hfuel : 2 * rec.length + (if ps - tail.length - 7 = 0 then 1 else 0) + 1 ≤ fragFuel rec := by
      unfold fragFuel; split <;> omega
    obtain ⟨full', tail', e, hfull', ht', hfr'⟩ :=
      frag_layout ps crc h8 (fragFuel rec) 0 rec tail ht hfr hfuel
    refine ⟨hdone, full ++ full', tail', ?_, hfull.append hfull', ht', hfr'⟩
    show st.cur ++ _ = _
    rw [hcur, List.append_assoc, e, List.append_assoc]

theorem LInv.logAll {ps : Nat} {crc : Crc} (pps : Nat) (h8 : 8 ≤ ps) (batches : List (List Bytes)) :
    LInv ps crc (logAll ps pps crc batches) := by
  have hb : ∀ (batch : List Bytes) (st : WState), LInv ps crc st → LInv ps crc (logBatch ps pps crc st batch) := by
    intro batch
    induction batch with
    | nil => intro st h; simpa [logBatch] using h
    | cons r rs ih => intro st h; simpa [logBatch] using ih _ (LInv.logRec pps h8 h r)
  have hbs : ∀ (bs : List (List Bytes)) (st : WState), LInv ps crc st →
      LInv ps crc (bs.foldl (logBatch ps pps crc) st) := by
    intro bs
    induction bs with
    | nil => intro st h; simpa using h
    | cons b bs ih => intro st h; simpa using ih _ (hb b st h)
  exact hbs batches _ (LInv.init ps crc h8)

theorem LInv.segments {ps : Nat} {crc : Crc} {st : WState} (h : LInv ps crc st) :
    ∀ seg ∈ segments ps st, PagesOK ps crc seg := by
  obtain ⟨hdone, full, tail, hcur, hfull, ht, hfr⟩ := h
  intro seg hseg
  rcases List.mem_append.mp hseg with hseg | hseg
  · exact hdone seg hseg
  · simp only [List.mem_singleton] at hseg
    subst hseg
    have hmod : st.cur.length % ps = tail.length := by rw [hcur]; exact cur_mod hfull ht
    unfold closePad
    rw [hmod]
    have := closed_pages hfull ht hfr
    by_cases hz : tail.length > 0
    · simp only [hz, if_true] at this ⊢; rw [hcur]; exact this
    · simp only [hz, if_false] at this ⊢; rw [hcur]; simpa [zeros] using this

end Prom.Wal
