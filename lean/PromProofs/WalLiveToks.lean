import PromProofs.WalLive
/-
  C13: a page-structured byte string (`PagesOK`, the layout invariant of the writer) that the `Reader`
  reads to the end without error has the token structure `LToks` the LiveReader simulation needs, with
  the Reader's records.
-/
namespace Prom.Wal

/-- Reading one data fragment, whatever `validateRecord` says. -/
theorem rstep_frame' (ps : Nat) (crc : Crc) (st : RState) (typ : UInt8) (part rest : Bytes)
    (hty : DataTyp typ) (hlen : part.length ≤ ps - 7) (h16 : part.length < 65536) :
    rstep ps crc st (frame crc typ part ++ rest) =
      match validateRecord typ st.i with
      | some e => .done (.err e (st.total + 7 + part.length))
      | none =>
        if typ = recLast ∨ typ = recFull then
          .emit (st.buf ++ part) ⟨st.total + 7 + part.length, 0, [], typ⟩ rest
        else .cont ⟨st.total + 7 + part.length, st.i + 1, st.buf ++ part, typ⟩ rest := by
  cases hv : validateRecord typ st.i with
  | none => exact rstep_frame ps crc st typ part rest hty hlen h16 hv
  | some e =>
    have hmask : typ &&& recTypeMask = typ := dataTyp_mask hty
    have hne : typ ≠ recPageTerm := dataTyp_ne_zero hty
    have hrd := rd16_be16 part.length h16
    simp only [frame, be16, be32, List.cons_append, List.nil_append, rstep, hmask, hne, if_false]
    simp only [hrd, hdrSize, List.length_cons, List.length_append]
    have h1 : ¬ (part.length + rest.length + 1 + 1 + 1 + 1 + 1 + 1 = 0) := by omega
    have h2 : ¬ (part.length + rest.length + 1 + 1 + 1 + 1 + 1 + 1 < 6) := by omega
    have h3 : ¬ (part.length > ps - 7) := by omega
    have h4 : ¬ (part.length > 0 ∧ part.length + rest.length = 0) := by omega
    have h5 : ¬ (part.length + rest.length < part.length) := by omega
    simp only [h1, h2, h3, h4, h5, if_false, List.take_left' rfl, ne_eq,
      not_true_eq_false, hv]

/-- Page padding from any in-page offset `a` (a whole page of zeros for `a = 0`). -/
theorem rstep_zeros_gen (ps : Nat) (crc : Crc) (st : RState) (rest : Bytes) (a : Nat)
    (ha : st.total % ps = a) (hlt : a < ps) :
    rstep ps crc st (zeros (ps - a) ++ rest) =
      .cont { st with total := st.total + (ps - a), typ := recPageTerm } rest := by
  obtain ⟨n, hn⟩ : ∃ n, ps - a = n + 1 := ⟨ps - a - 1, by omega⟩
  have hz : (0 : UInt8) &&& recTypeMask = recPageTerm := by decide
  simp only [hn, zeros, List.replicate_succ, List.cons_append, rstep, hz, if_true]
  by_cases h1 : n = 0
  · subst h1
    have : (st.total + 1) % ps = 0 := mod_add_eq ha (by omega)
    simp [this]
  · have hm : (st.total + 1) % ps = a + 1 := mod_add_lt ha (by omega)
    have hk : ps - (a + 1) = n := by omega
    have hne : ¬ (n = ps) := by omega
    simp only [hm, hk, hne, if_false, List.length_append, List.length_replicate]
    have h2 : ¬ (n + rest.length = 0) := by omega
    have h3 : ¬ (n + rest.length < n) := by omega
    have htake : List.take n (List.replicate n (0 : UInt8) ++ rest) = List.replicate n 0 :=
      List.take_left' (by simp)
    have hdrop : List.drop n (List.replicate n (0 : UInt8) ++ rest) = rest :=
      List.drop_left' (by simp)
    simp [h1, h3, htake, hdrop, List.any_replicate]
    omega

theorem validate_none_zero {typ : UInt8} {i : Nat} (h : validateRecord typ i = none)
    (ht : typ = recFull ∨ typ = recFirst) : i = 0 := by
  rcases ht with ht | ht <;> subst ht <;> by_cases hi : i = 0 <;> simp_all [validateRecord] <;>
    exact absurd h (by decide)

theorem validate_none_pos {typ : UInt8} {i : Nat} (h : validateRecord typ i = none)
    (ht : typ = recLast ∨ typ = recMiddle) : i ≠ 0 := by
  rcases ht with ht | ht <;> subst ht <;> by_cases hi : i = 0 <;> simp_all [validateRecord] <;>
    exact absurd h (by decide)

/-- The `Reader` state and the LiveReader's `(index, rec)` describe the same position in a record. -/
def Sync (rst : RState) (off idx : Nat) (pre : Bytes) : Prop :=
  rst.total = off ∧ rst.i = idx ∧ (idx = 0 → rst.buf = []) ∧ (idx ≠ 0 → rst.buf = pre)

theorem rloop_of_done {ps : Nat} {crc : Crc} {st : RState} {s : Bytes} {status : Status}
    (h : rstep ps crc st s = .done status) : rloop ps crc st s = ([], status) := by
  rw [rloop]; simp [h]

theorem page_mod {ps pstart a : Nat} (hp : pstart % ps = 0) (ha : a < ps) : (pstart + a) % ps = a := by
  rw [Nat.add_mod, hp, Nat.zero_add, Nat.mod_mod, Nat.mod_eq_of_lt ha]

theorem frames_toks {ps : Nat} {crc : Crc} (hmax : ps ≤ 65542) {fs : Bytes} (hfs : Frames crc fs) :
    ∀ (pstart a idx : Nat) (pre : Bytes) (rst : RState) (tail : Bytes) (k : Nat) (out : List Bytes) (e : Nat),
      pstart % ps = 0 → (a + fs.length + k = ps ∨ (k = 0 ∧ tail = [] ∧ a + fs.length ≤ ps)) →
      Sync rst (pstart + a) idx pre →
      (∀ rst' idx' pre' out', Sync rst' (pstart + ps) idx' pre' → rloop ps crc rst' tail = (out', .eof e) →
        LToks ps crc (pstart + ps) idx' pre' tail out') →
      rloop ps crc rst (fs ++ (zeros k ++ tail)) = (out, .eof e) →
      LToks ps crc (pstart + a) idx pre (fs ++ (zeros k ++ tail)) out := by
  induction hfs with
  | nil =>
    intro pstart a idx pre rst tail k out e hp hpage hsync htail hr
    simp only [List.length_nil, Nat.add_zero, List.nil_append] at *
    rcases hpage with hpage | ⟨hk0, htl, _⟩
    · by_cases hk : k = 0
      · subst hk
        simp only [zeros, List.replicate_zero, List.nil_append, Nat.add_zero] at *
        subst hpage
        exact htail rst idx pre out hsync hr
      · have hlt : a < ps := by omega
        have hm : (pstart + a) % ps = a := page_mod hp hlt
        have hk' : k = ps - a := by omega
        have hstep := rstep_zeros_gen ps crc rst tail a (by rw [hsync.1]; exact hm) hlt
        rw [← hk'] at hstep
        rw [rloop_of_cont hstep (by simp [zeros]; omega)] at hr
        refine LToks.pad (pstart + a) idx pre k tail out (by omega) (by rw [hm]; exact hk') ?_
        have hend : pstart + a + k = pstart + ps := by omega
        rw [hend]
        exact htail ⟨rst.total + k, rst.i, rst.buf, recPageTerm⟩ idx pre out
          ⟨by show rst.total + k = _; rw [hsync.1, hend], hsync.2.1, hsync.2.2.1, hsync.2.2.2⟩ hr
    · -- an open last page: nothing follows the fragments
      subst hk0 htl
      simp only [zeros, List.replicate_zero, List.append_nil] at hr ⊢
      rw [rloop_nil] at hr
      have : out = [] := (congrArg Prod.fst hr).symm
      subst this
      exact LToks.nil _ idx pre
  | cons typ part rest' hty _ ih =>
    intro pstart a idx pre rst tail k out e hp hpage hsync htail hr
    simp only [List.length_append, frame_length] at hpage
    have hle : a + (7 + part.length + rest'.length) + k ≤ ps := by
      rcases hpage with h | ⟨h1, _, h3⟩ <;> omega
    have hpage' : a + (part.length + 7) + rest'.length + k = ps ∨
        (k = 0 ∧ tail = [] ∧ a + (part.length + 7) + rest'.length ≤ ps) := by
      rcases hpage with h | ⟨h1, h2, h3⟩
      · exact Or.inl (by omega)
      · exact Or.inr ⟨h1, h2, by omega⟩
    have hstep := rstep_frame' ps crc rst typ part (rest' ++ (zeros k ++ tail)) hty (by omega) (by omega)
    rw [List.append_assoc] at hr ⊢
    have hm : (pstart + a) % ps = a := page_mod hp (by omega)
    have hfit : (pstart + a) % ps + 7 + part.length ≤ ps := by rw [hm]; omega
    obtain ⟨s1, s2, s3, s4⟩ := hsync
    cases hv : validateRecord typ rst.i with
    | some err =>
      rw [hv] at hstep
      rw [rloop_of_done hstep] at hr
      simp at hr
    | none =>
      rw [hv] at hstep
      have hvi : validateRecord typ idx = none := by rw [← s2]; exact hv
      by_cases hfin : typ = recLast ∨ typ = recFull
      · simp only [hfin, if_true] at hstep
        rw [rloop_of_emit hstep (by simp [frame_length]; omega)] at hr
        have hr1 : (rst.buf ++ part) :: (rloop ps crc ⟨rst.total + 7 + part.length, 0, [], typ⟩
            (rest' ++ (zeros k ++ tail))).1 = out := congrArg Prod.fst hr
        have hr2 : rloop ps crc ⟨rst.total + 7 + part.length, 0, [], typ⟩ (rest' ++ (zeros k ++ tail)) =
            ((rloop ps crc ⟨rst.total + 7 + part.length, 0, [], typ⟩ (rest' ++ (zeros k ++ tail))).1, .eof e) := by
          have := congrArg Prod.snd hr
          simp only at this
          rw [← this]
        have hbuf : rst.buf ++ part = (if typ = recFull then [] else pre) ++ part := by
          rcases hfin with h | h
          · have hne : typ ≠ recFull := by subst h; decide
            have := validate_none_pos hvi (Or.inl h)
            simp [hne, s4 this]
          · have := validate_none_zero hvi (Or.inl h)
            simp [h, s3 this]
        rw [← hr1, hbuf]
        refine LToks.fin (pstart + a) idx pre typ part _ _ hfin hvi hfit ?_
        rw [Nat.add_assoc]
        exact ih pstart (a + (part.length + 7)) 0 _ _ tail k _ e hp hpage'
          ⟨by show rst.total + 7 + part.length = _; omega, rfl, fun _ => rfl, fun h => absurd rfl h⟩ htail hr2
      · simp only [hfin, if_false] at hstep
        rw [rloop_of_cont hstep (by simp [frame_length]; omega)] at hr
        have hcont : typ = recFirst ∨ typ = recMiddle := by
          rcases hty with h | h | h | h
          · exact absurd (Or.inr h) hfin
          · exact Or.inl h
          · exact Or.inr h
          · exact absurd (Or.inl h) hfin
        have hbuf : rst.buf ++ part = (if typ = recFirst then [] else pre) ++ part := by
          rcases hcont with h | h
          · have := validate_none_zero hvi (Or.inr h)
            simp [h, s3 this]
          · have hne : typ ≠ recFirst := by subst h; decide
            have := validate_none_pos hvi (Or.inr h)
            simp [hne, s4 this]
        refine LToks.cont (pstart + a) idx pre typ part _ out hcont hvi hfit ?_
        rw [Nat.add_assoc]
        exact ih pstart (a + (part.length + 7)) (idx + 1) _ _ tail k out e hp hpage'
          ⟨by show rst.total + 7 + part.length = _; omega, by show rst.i + 1 = _; omega,
            fun h => absurd h (by omega), fun _ => hbuf⟩ htail hr

/-- Whole pages followed by an open last page (whole fragments, no padding yet). -/
theorem pages_toks {ps : Nat} {crc : Crc} (hmax : ps ≤ 65542) (last : Bytes) (hlast : Frames crc last)
    (hll : last.length ≤ ps) :
    ∀ (pages : List Bytes), (∀ p ∈ pages, p.length = ps ∧ PageOK crc p) →
      ∀ (pstart idx : Nat) (pre : Bytes) (rst : RState) (out : List Bytes) (e : Nat),
        pstart % ps = 0 → Sync rst pstart idx pre →
        rloop ps crc rst (pages.flatten ++ last) = (out, .eof e) →
        LToks ps crc pstart idx pre (pages.flatten ++ last) out := by
  intro pages
  induction pages with
  | nil =>
    intro _ pstart idx pre rst out e hp hsync hr
    rw [List.flatten_nil, List.nil_append] at hr ⊢
    have := frames_toks hmax hlast pstart 0 idx pre rst [] 0 out e hp
      (Or.inr ⟨rfl, rfl, by omega⟩) (by simpa using hsync) (fun _ _ _ _ _ h => by
        rw [rloop_nil] at h
        have : _ = [] := (congrArg Prod.fst h).symm
        subst this
        exact LToks.nil _ _ _) (by simpa [zeros] using hr)
    simpa [zeros] using this
  | cons p pages ih =>
    intro hall pstart idx pre rst out e hp hsync hr
    obtain ⟨hlen, fs, k, hfs, rfl⟩ := hall p (by simp)
    have hrest := fun q hq => hall q (List.mem_cons_of_mem _ hq)
    rw [List.flatten_cons, List.append_assoc, List.append_assoc] at hr ⊢
    have hl : fs.length + k = ps := by simpa [zeros] using hlen
    have := frames_toks hmax hfs pstart 0 idx pre rst (pages.flatten ++ last) k out e hp
      (Or.inl (by omega)) (by simpa using hsync)
      (fun rst' idx' pre' out' hs' hr' =>
        ih hrest (pstart + ps) idx' pre' rst' out' e (by rw [Nat.add_mod, hp]; simp) hs' hr') hr
    simpa using this

/-- A page-structured file, possibly with an open last page, that the `Reader` reads to the end has
    the LiveReader token structure, with the `Reader`'s records. -/
theorem ltoks_of_open {ps : Nat} {crc : Crc} (hmax : ps ≤ 65542) {full last : Bytes}
    {out : List Bytes} {e : Nat} (hF : PagesOK ps crc full) (hlast : Frames crc last)
    (hll : last.length ≤ ps)
    (hr : rloop ps crc RState.init (full ++ last) = (out, .eof e)) :
    LToks ps crc 0 0 [] (full ++ last) out := by
  obtain ⟨pages, rfl, hall⟩ := hF
  exact pages_toks hmax last hlast hll pages hall 0 0 [] RState.init out e (Nat.zero_mod _)
    ⟨rfl, rfl, fun _ => rfl, fun h => absurd rfl h⟩ hr

theorem ltoks_of_pages {ps : Nat} {crc : Crc} (hmax : ps ≤ 65542) {F : Bytes}
    {out : List Bytes} {e : Nat} (hF : PagesOK ps crc F)
    (hr : rloop ps crc RState.init F = (out, .eof e)) : LToks ps crc 0 0 [] F out := by
  have := ltoks_of_open (full := F) (last := []) hmax hF Frames.nil (Nat.zero_le _) (by simpa using hr)
  simpa using this

end Prom.Wal
