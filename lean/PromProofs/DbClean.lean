import PromProofs.DbCompact
/-
  C01 refinement: the compaction loop `Db.compact` and `Db.cleanTombstones`.
-/
namespace Prom.Db
open Prom.Intervals

theorem compactGo_preserves {r : Ref} : ∀ (fuel : Nat) (d : Db), Good d r → d.app = none →
    Good (Db.compact.go fuel d) r ∧ (Db.compact.go fuel d).app = none
  | 0, d, hG, happ => ⟨hG, happ⟩
  | fuel + 1, d, hG, happ => by
    unfold Db.compact.go
    split
    · have := compactHeadOnce_preserves hG happ
      exact compactGo_preserves fuel _ this.1 this.2
    · exact ⟨hG, happ⟩

/-- (c) `DB.Compact` (all head compactions) preserves the refinement relation when no appender is open. -/
theorem compact_preserves {d : Db} {r : Ref} (hG : Good d r) (happ : d.app = none) :
    Good d.compact r ∧ d.compact.app = none :=
  compactGo_preserves 64 d hG happ

/-! ### CleanTombstones -/

def cleanSeries (s : BSeries) : Option BSeries :=
  let xs := s.smps.filter (visible s.tombs)
  if xs.isEmpty then none else some { s with smps := xs, tombs := [] }

def cleanBlock (b : Block) : Option Block :=
  if b.series.all (·.tombs.isEmpty) then some b else
  let ser := b.series.filterMap cleanSeries
  if ser.isEmpty then none else some { b with series := ser }

theorem cleanTombstones_eq (d : Db) : d.cleanTombstones = { d with blocks := d.blocks.filterMap cleanBlock } := rfl

theorem mem_cleanSeries {ser : List BSeries} {s' : BSeries} :
    s' ∈ ser.filterMap cleanSeries ↔ ∃ s ∈ ser, s.smps.filter (visible s.tombs) ≠ [] ∧
      s' = { s with smps := s.smps.filter (visible s.tombs), tombs := [] } := by
  rw [List.mem_filterMap]
  constructor
  · rintro ⟨s, hs, h⟩
    refine ⟨s, hs, ?_⟩
    unfold cleanSeries at h
    simp only at h
    split at h
    · simp at h
    · rename_i hne
      simp only [Option.some.injEq] at h
      exact ⟨by simpa using hne, h.symm⟩
  · rintro ⟨s, hs, hne, rfl⟩
    refine ⟨s, hs, ?_⟩
    unfold cleanSeries
    simp only
    rw [if_neg (by simpa using hne)]

theorem cleanBlock_cases {b b' : Block} (h : cleanBlock b = some b') :
    b' = b ∨ (b'.mint = b.mint ∧ b'.maxt = b.maxt ∧ b'.series = b.series.filterMap cleanSeries) := by
  unfold cleanBlock at h
  split at h
  · left; simp only [Option.some.injEq] at h; exact h.symm
  · simp only at h
    split at h
    · simp at h
    · right; simp only [Option.some.injEq] at h; subst h; exact ⟨rfl, rfl, rfl⟩

/-- Every series of a cleaned block comes from a series of the original block. -/
theorem clean_sub {d : Db} {b' : Block} (hb' : b' ∈ d.cleanTombstones.blocks) {s' : BSeries} (hs' : s' ∈ b'.series) :
    ∃ b ∈ d.blocks, b'.mint = b.mint ∧ b'.maxt = b.maxt ∧ ∃ s ∈ b.series, s'.idx = s.idx ∧
      (s' = s ∨ (s'.smps = s.smps.filter (visible s.tombs) ∧ s'.tombs = [])) := by
  rw [cleanTombstones_eq] at hb'
  simp only [List.mem_filterMap] at hb'
  obtain ⟨b, hb, hbb⟩ := hb'
  rcases cleanBlock_cases hbb with rfl | ⟨h1, h2, h3⟩
  · exact ⟨b', hb, rfl, rfl, s', hs', rfl, Or.inl rfl⟩
  · rw [h3] at hs'
    obtain ⟨s, hs, _, rfl⟩ := mem_cleanSeries.1 hs'
    exact ⟨b, hb, h1, h2, s, hs, rfl, Or.inr ⟨rfl, rfl⟩⟩

/-- Every visible block sample survives cleaning. -/
theorem clean_sup {d : Db} {b : Block} (hb : b ∈ d.blocks) {s : BSeries} (hs : s ∈ b.series) {x : Smp}
    (hx : x ∈ s.smps) (hv : visible s.tombs x = true) :
    ∃ b' ∈ d.cleanTombstones.blocks, ∃ s' ∈ b'.series, s'.idx = s.idx ∧ x ∈ s'.smps ∧ visible s'.tombs x = true := by
  rw [cleanTombstones_eq]
  simp only [List.mem_filterMap]
  by_cases hall : b.series.all (·.tombs.isEmpty) = true
  · refine ⟨b, ⟨b, hb, ?_⟩, s, hs, rfl, hx, hv⟩
    unfold cleanBlock; rw [if_pos hall]
  · have hxf : x ∈ s.smps.filter (visible s.tombs) := by
      rw [List.mem_filter]; exact ⟨hx, hv⟩
    have hs' : ({ s with smps := s.smps.filter (visible s.tombs), tombs := [] } : BSeries) ∈ b.series.filterMap cleanSeries :=
      mem_cleanSeries.2 ⟨s, hs, List.ne_nil_of_mem hxf, rfl⟩
    refine ⟨{ b with series := b.series.filterMap cleanSeries }, ⟨b, hb, ?_⟩, _, hs', rfl, hxf, visible_nil x⟩
    unfold cleanBlock
    rw [if_neg hall]
    simp only
    rw [if_neg]
    have := List.ne_nil_of_mem hs'
    simpa using this

theorem clean_blkAll {d : Db} {P : Smp → Prop} (h : d.blkAll P) : d.cleanTombstones.blkAll P := by
  intro b' hb' s' hs' x hx
  obtain ⟨b, hb, _, _, s, hs, _, hc⟩ := clean_sub hb' hs'
  rcases hc with rfl | ⟨h1, _⟩
  · exact h b hb s' hs x hx
  · rw [h1, List.mem_filter] at hx
    exact h b hb s hs x hx.1

/-- (e) `CleanTombstones` preserves the refinement relation. -/
theorem cleantomb_preserves {d : Db} {r : Ref} (hG : Good d r) : Good d.cleanTombstones r := by
  have hI := hG.inv
  have hS := hG.sim
  refine ⟨⟨?_, ?_⟩, hG.lastOk.congr rfl (fun p h => h), ⟨hS.sinc, ?_, hS.app⟩, hG.ooo, hG.cr⟩
  · refine
      { idxNodup := hI.idxNodup, physInc := hI.physInc, physNe := hI.physNe, physLo := hI.physLo,
        physHi := hI.physHi, physMax := hI.physMax, tombHi := hI.tombHi, blkInc := ?_, blkRange := ?_,
        blkLtMinT := clean_blkAll hI.blkLtMinT, blkLtMinValid := clean_blkAll hI.blkLtMinValid,
        blkLtMaxT := clean_blkAll hI.blkLtMaxT, blkMax := clean_blkAll hI.blkMax }
    · intro b' hb' s' hs'
      obtain ⟨b, hb, _, _, s, hs, _, hc⟩ := clean_sub hb' hs'
      rcases hc with rfl | ⟨h1, _⟩
      · exact hI.blkInc b hb s' hs
      · rw [h1]; exact (hI.blkInc b hb s hs).filter _
    · intro b' hb' s' hs' x hx
      obtain ⟨b, hb, e1, e2, s, hs, _, hc⟩ := clean_sub hb' hs'
      rw [e1, e2]
      rcases hc with rfl | ⟨h1, _⟩
      · exact hI.blkRange b hb s' hs x hx
      · rw [h1, List.mem_filter] at hx
        exact hI.blkRange b hb s hs x hx.1
  · intro a ha
    have hA := hI.appInv a ha
    exact ⟨hA.initBatch, fun h => clean_blkAll (hA.blkLt h), hA.batchGe⟩
  · intro i x
    rw [← hS.mem i x]
    unfold Db.mem
    constructor
    · rintro (h | ⟨b', hb', s', hs', hi, hx, hv⟩)
      · exact Or.inl h
      · right
        obtain ⟨b, hb, _, _, s, hs, hidx, hc⟩ := clean_sub hb' hs'
        rcases hc with rfl | ⟨h1, _⟩
        · exact ⟨b, hb, s', hs, hi, hx, hv⟩
        · rw [h1, List.mem_filter] at hx
          exact ⟨b, hb, s, hs, hidx ▸ hi, hx.1, hx.2⟩
    · rintro (h | ⟨b, hb, s, hs, hi, hx, hv⟩)
      · exact Or.inl h
      · right
        obtain ⟨b', hb', s', hs', hidx, hx', hv'⟩ := clean_sup hb hs hx hv
        exact ⟨b', hb', s', hs', hidx ▸ hi, hx', hv'⟩

end Prom.Db
