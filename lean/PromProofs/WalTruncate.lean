import PromProofs.WalRoundtrip
/-
  D13 (deepening of C13) — reading a log that was cut at an arbitrary byte, and one damaged payload byte.

  `readAll` reads through `segmentBufReader`, which zero-pads a segment whose length is not a multiple of
  the page size.  A cut inside a fragment is therefore completed by zeros.  The exact truth proved here:
  the records returned are a prefix `recs.take j` of the records written, followed by at most ONE extra
  record of the form `q ++ zeros m` with `q` a prefix of the next written record `recs[j]`.

  The locality lemmas (`StepLocal` … `rloop_take_pad`) and the payload-damage lemmas are ports of the
  lemmas proved for property C04 (namespace `Prom.Damage` there).
-/
namespace Prom.Wal

/-! ### Locality of one reader step -/

/-- What a successful step does, independently of what follows the consumed bytes `c`. -/
def StepLocal (ps : Nat) (crc : Crc) (st : RState) (s : Bytes) : Prop :=
  match rstep ps crc st s with
  | .done _ => True
  | .cont st' rest => ∃ c, c ≠ [] ∧ s = c ++ rest ∧ st'.total = st.total + c.length ∧
      ∀ X, rstep ps crc st (c ++ X) = .cont st' X
  | .emit rec st' rest => ∃ c, c ≠ [] ∧ s = c ++ rest ∧ st'.total = st.total + c.length ∧
      rec = st.buf ++ c.drop 7 ∧ ∀ X, rstep ps crc st (c ++ X) = .emit rec st' X

theorem take_append_of_le {α} (l X : List α) (k : Nat) (h : k ≤ l.length) :
    (l.take k ++ X).take k = l.take k := by
  rw [List.take_append_of_le_length (by simp [List.length_take]; omega)]
  rw [List.take_take]; simp

theorem drop_append_of_le {α} (l X : List α) (k : Nat) (h : k ≤ l.length) :
    (l.take k ++ X).drop k = X := by
  have hl : (l.take k).length = k := by simp [List.length_take]; omega
  rw [List.drop_append_of_le_length (by omega)]
  rw [List.drop_of_length_le (by omega)]; simp

theorem list_ge6 {α} (l : List α) (h : ¬ l.length < 6) :
    ∃ a b c d e f r, l = a :: b :: c :: d :: e :: f :: r := by
  match l, h with
  | a :: b :: c :: d :: e :: f :: r, _ => exact ⟨a, b, c, d, e, f, r, rfl⟩
  | [], h => simp at h
  | [_], h => simp at h
  | [_, _], h => simp at h
  | [_, _, _], h => simp at h
  | [_, _, _, _], h => simp at h
  | [_, _, _, _, _], h => simp at h

theorem rstep_local (ps : Nat) (crc : Crc) (st : RState) (s : Bytes) : StepLocal ps crc st s := by
  unfold StepLocal
  cases s with
  | nil => simp [rstep]
  | cons h0 s1 =>
    by_cases hpt : (h0 &&& recTypeMask) = recPageTerm
    · -- page terminator
      by_cases hk : ps - (st.total + 1) % ps = ps
      · have e : ∀ Y : Bytes, rstep ps crc st (h0 :: Y) =
            .cont { st with total := st.total + 1, typ := h0 &&& recTypeMask } Y := by
          intro Y; simp [rstep, hpt, hk]
        rw [e s1]
        exact ⟨[h0], by simp, by simp, by simp, fun X => by simpa using e X⟩
      · by_cases h0l : s1.length = 0
        · simp [rstep, hpt, hk, h0l]
        · by_cases hlt : s1.length < ps - (st.total + 1) % ps
          · simp [rstep, hpt, hk, h0l, hlt]
          · by_cases hany : (s1.take (ps - (st.total + 1) % ps)).any (· ≠ 0)
            · simp only [rstep, hpt, hk, h0l, hlt, hany, if_true, if_false]
            · have hkpos : 0 < ps - (st.total + 1) % ps := by
                rcases Nat.eq_zero_or_pos ps with h | h
                · subst h; simp at hk
                · have := Nat.mod_lt (st.total + 1) h; omega
              have hle : ps - (st.total + 1) % ps ≤ s1.length := by omega
              have e : ∀ Y : Bytes, rstep ps crc st (h0 :: (s1.take (ps - (st.total + 1) % ps) ++ Y)) =
                  .cont { st with total := st.total + 1 + (ps - (st.total + 1) % ps), typ := h0 &&& recTypeMask } Y := by
                intro Y
                have hlen : (s1.take (ps - (st.total + 1) % ps) ++ Y).length =
                    ps - (st.total + 1) % ps + Y.length := by simp [List.length_take]; omega
                have h1 : ¬ ((s1.take (ps - (st.total + 1) % ps) ++ Y).length = 0) := by omega
                have h2 : ¬ ((s1.take (ps - (st.total + 1) % ps) ++ Y).length < ps - (st.total + 1) % ps) := by omega
                simp only [rstep, hpt, hk, h1, h2, if_true, if_false, take_append_of_le _ _ _ hle,
                  drop_append_of_le _ _ _ hle, hany]
                simp
              have hs : h0 :: s1 = h0 :: (s1.take (ps - (st.total + 1) % ps) ++ s1.drop (ps - (st.total + 1) % ps)) := by
                rw [List.take_append_drop]
              have e1 := e (s1.drop (ps - (st.total + 1) % ps))
              rw [← hs] at e1
              rw [e1]
              exact ⟨h0 :: s1.take (ps - (st.total + 1) % ps), by simp, by simp,
                by simp [List.length_take]; omega, fun X => by simpa using e X⟩
    · -- data fragment
      by_cases h0l : s1.length = 0
      · simp [rstep, hpt, h0l]
      · by_cases h6 : s1.length < 6
        · simp [rstep, hpt, h0l, h6]
        · obtain ⟨l1, l0, c3, c2, c1, c0, s2, rfl⟩ := list_ge6 s1 h6
          have hl : ¬ ((l1 :: l0 :: c3 :: c2 :: c1 :: c0 :: s2).length = 0) := by simp
          have hl6 : ¬ ((l1 :: l0 :: c3 :: c2 :: c1 :: c0 :: s2).length < 6) := by simp
          by_cases hsz : rd16 l1 l0 > ps - hdrSize
          · simp only [rstep, hpt, hl, hl6, hsz, if_true, if_false]
          · by_cases he : rd16 l1 l0 > 0 ∧ s2.length = 0
            · simp only [rstep, hpt, hl, hl6, hsz, he, if_true, if_false, and_self]
            · by_cases hds : s2.length < rd16 l1 l0
              · simp only [rstep, hpt, hl, hl6, hsz, he, hds, if_true, if_false]
              · by_cases hcrc' : ¬ be32 (crc (s2.take (rd16 l1 l0))) = [c3, c2, c1, c0]
                · simp only [rstep, hpt, hl, hl6, hsz, he, hds, hcrc', ne_eq, not_false_eq_true, if_true, if_false]
                · have hcrc : be32 (crc (s2.take (rd16 l1 l0))) = [c3, c2, c1, c0] := Classical.not_not.mp hcrc'
                  have hle : rd16 l1 l0 ≤ s2.length := by omega
                  -- the step on the consumed bytes followed by anything
                  have key : ∀ Y : Bytes,
                      rstep ps crc st (h0 :: l1 :: l0 :: c3 :: c2 :: c1 :: c0 :: (s2.take (rd16 l1 l0) ++ Y)) =
                      (match validateRecord (h0 &&& recTypeMask) st.i with
                        | some e => StepR.done (.err e (st.total + 1 + 6 + rd16 l1 l0))
                        | none =>
                          if (h0 &&& recTypeMask) = recLast ∨ (h0 &&& recTypeMask) = recFull then
                            if h0 &&& snappyMask = snappyMask ∨ h0 &&& zstdMask = zstdMask then
                              StepR.done (.err .compressed (st.total + 1 + 6 + rd16 l1 l0))
                            else StepR.emit (st.buf ++ s2.take (rd16 l1 l0))
                              ⟨st.total + 1 + 6 + rd16 l1 l0, 0, [], h0 &&& recTypeMask⟩ Y
                          else StepR.cont ⟨st.total + 1 + 6 + rd16 l1 l0, st.i + 1,
                            st.buf ++ s2.take (rd16 l1 l0), h0 &&& recTypeMask⟩ Y) := by
                    intro Y
                    have hlen : (s2.take (rd16 l1 l0) ++ Y).length = rd16 l1 l0 + Y.length := by
                      simp [List.length_take]; omega
                    have g1 : ¬ ((l1 :: l0 :: c3 :: c2 :: c1 :: c0 :: (s2.take (rd16 l1 l0) ++ Y)).length = 0) := by simp
                    have g2 : ¬ ((l1 :: l0 :: c3 :: c2 :: c1 :: c0 :: (s2.take (rd16 l1 l0) ++ Y)).length < 6) := by simp
                    have g3 : ¬ (rd16 l1 l0 > 0 ∧ (s2.take (rd16 l1 l0) ++ Y).length = 0) := by omega
                    have g4 : ¬ ((s2.take (rd16 l1 l0) ++ Y).length < rd16 l1 l0) := by omega
                    simp only [rstep, hpt, g1, g2, hsz, g3, g4, if_false, take_append_of_le _ _ _ hle,
                      drop_append_of_le _ _ _ hle, hcrc, ne_eq, not_true_eq_false]
                    cases validateRecord (h0 &&& recTypeMask) st.i <;> rfl
                  have hs : h0 :: l1 :: l0 :: c3 :: c2 :: c1 :: c0 :: s2 =
                      h0 :: l1 :: l0 :: c3 :: c2 :: c1 :: c0 :: (s2.take (rd16 l1 l0) ++ s2.drop (rd16 l1 l0)) := by
                    rw [List.take_append_drop]
                  have k1 := key (s2.drop (rd16 l1 l0))
                  rw [← hs] at k1
                  rw [k1]
                  cases hv : validateRecord (h0 &&& recTypeMask) st.i with
                  | some e => simp
                  | none =>
                    by_cases hfin : (h0 &&& recTypeMask) = recLast ∨ (h0 &&& recTypeMask) = recFull
                    · by_cases hcomp : h0 &&& snappyMask = snappyMask ∨ h0 &&& zstdMask = zstdMask
                      · simp [hfin, hcomp]
                      · simp only [hfin, hcomp, if_true, if_false]
                        refine ⟨h0 :: l1 :: l0 :: c3 :: c2 :: c1 :: c0 :: s2.take (rd16 l1 l0), by simp,
                          by simp, by simp [List.length_take]; omega, by simp, fun X => ?_⟩
                        have := key X
                        simp only [hv, hfin, hcomp, if_true, if_false] at this
                        simpa using this
                    · simp only [hfin, if_false]
                      refine ⟨h0 :: l1 :: l0 :: c3 :: c2 :: c1 :: c0 :: s2.take (rd16 l1 l0), by simp,
                        by simp, by simp [List.length_take]; omega, fun X => ?_⟩
                      have := key X
                      simp only [hv, hfin, if_false] at this
                      simpa using this


/-! ### Truncation: a prefix of the stream gives a prefix of the records -/

theorem rloop_done {ps : Nat} {crc : Crc} {st : RState} {s : Bytes} {status : Status}
    (h : rstep ps crc st s = .done status) : rloop ps crc st s = ([], status) := by
  rw [rloop]; simp [h]

/-- The plain `Reader` on the first `n` bytes of any stream returns a prefix of what it returns on the
    whole stream (for every reader state, every checksum function, well-formed stream or not). -/
theorem rloop_take_prefix (ps : Nat) (crc : Crc) :
    ∀ (m : Nat) (s : Bytes), s.length ≤ m → ∀ (st : RState) (n : Nat),
      (rloop ps crc st (s.take n)).1 <+: (rloop ps crc st s).1 := by
  intro m
  induction m with
  | zero =>
    intro s hs st n
    have : s = [] := List.eq_nil_of_length_eq_zero (by omega)
    subst this; simp
  | succ m ih =>
    intro s hs st n
    have hloc := rstep_local ps crc st (s.take n)
    unfold StepLocal at hloc
    have hsplit : s = s.take n ++ s.drop n := (List.take_append_drop n s).symm
    cases hr : rstep ps crc st (s.take n) with
    | done status => rw [rloop_done hr]; exact List.nil_prefix
    | cont st' rest =>
      rw [hr] at hloc
      obtain ⟨c, hc, hcs, htot, hX⟩ := hloc
      have hclen : 0 < c.length := List.length_pos_iff.mpr hc
      have hfull : rstep ps crc st s = .cont st' (rest ++ s.drop n) := by
        have := hX (rest ++ s.drop n)
        rwa [← List.append_assoc, ← hcs, ← hsplit] at this
      have hl1 : rest.length < (s.take n).length := by rw [hcs]; simp; omega
      have hl2 : (rest ++ s.drop n).length < s.length := by
        have : s.length = (s.take n).length + (s.drop n).length := by rw [← List.length_append, ← hsplit]
        rw [List.length_append]; omega
      rw [rloop_of_cont hr hl1, rloop_of_cont hfull hl2]
      have := ih (rest ++ s.drop n) (by omega) st' rest.length
      rwa [List.take_left' rfl] at this
    | emit rec st' rest =>
      rw [hr] at hloc
      obtain ⟨c, hc, hcs, htot, _, hX⟩ := hloc
      have hclen : 0 < c.length := List.length_pos_iff.mpr hc
      have hfull : rstep ps crc st s = .emit rec st' (rest ++ s.drop n) := by
        have := hX (rest ++ s.drop n)
        rwa [← List.append_assoc, ← hcs, ← hsplit] at this
      have hl1 : rest.length < (s.take n).length := by rw [hcs]; simp; omega
      have hl2 : (rest ++ s.drop n).length < s.length := by
        have : s.length = (s.take n).length + (s.drop n).length := by rw [← List.length_append, ← hsplit]
        rw [List.length_append]; omega
      rw [rloop_of_emit hr hl1, rloop_of_emit hfull hl2]
      have := ih (rest ++ s.drop n) (by omega) st' rest.length
      rw [List.take_left' rfl] at this
      exact List.cons_prefix_cons.mpr ⟨rfl, this⟩

/-! ### Truncation followed by zero padding (the `segmentBufReader` of `Head.Init`) -/

/-- Reading nothing but zeros never returns a record. -/
theorem rloop_zeros_nil (ps : Nat) (crc : Crc) : ∀ (k : Nat) (st : RState), (rloop ps crc st (zeros k)).1 = [] := by
  intro k
  induction k using Nat.strongRecOn with
  | _ k ih =>
    intro st
    cases k with
    | zero => simp [zeros, rloop_nil]
    | succ k =>
      have hz : (0 : UInt8) &&& recTypeMask = recPageTerm := by decide
      have hs : zeros (k + 1) = (0 : UInt8) :: zeros k := by simp [zeros, List.replicate_succ]
      cases hr : rstep ps crc st (zeros (k + 1)) with
      | done status => rw [rloop_done hr]
      | emit rec st' rest =>
        exfalso
        rw [hs] at hr
        simp only [rstep, hz, if_true] at hr
        split at hr <;> try split at hr
        all_goals (try split at hr)
        all_goals (try split at hr)
        all_goals simp at hr
      | cont st' rest =>
        have hloc := rstep_local ps crc st (zeros (k + 1))
        unfold StepLocal at hloc
        rw [hr] at hloc
        obtain ⟨c, hc, hcs, _, _⟩ := hloc
        have hclen : 0 < c.length := List.length_pos_iff.mpr hc
        have hlen : (zeros (k + 1)).length = c.length + rest.length := by rw [hcs]; simp
        have hrest : rest = zeros rest.length := by
          have : rest = (zeros (k + 1)).drop c.length := by rw [hcs]; simp
          rw [this]; simp [zeros]
        have hl : rest.length < (zeros (k + 1)).length := by omega
        rw [rloop_of_cont hr hl, hrest]
        exact ih rest.length (by simp [zeros] at hlen; omega) st'

/-- The reader of `Head.Init` on a file cut at `n` bytes and zero padded: a prefix of what the whole stream
    gives, followed by at most one extra record (the fragment straddling the cut, completed by zeros). -/
theorem rloop_take_pad (ps : Nat) (crc : Crc) :
    ∀ (m : Nat) (s : Bytes), s.length ≤ m → ∀ (st : RState) (n k : Nat), n ≤ s.length →
      ∃ pre extra, (rloop ps crc st (s.take n ++ zeros k)).1 = pre ++ extra ∧
        pre <+: (rloop ps crc st s).1 ∧ extra.length ≤ 1 := by
  intro m
  induction m with
  | zero =>
    intro s hs st n k hn
    have : s = [] := List.eq_nil_of_length_eq_zero (by omega)
    subst this
    exact ⟨[], [], by simp [rloop_zeros_nil], List.nil_prefix, by simp⟩
  | succ m ih =>
    intro s hs st n k hn
    have hloc := rstep_local ps crc st (s.take n ++ zeros k)
    unfold StepLocal at hloc
    have htl : (s.take n).length = n := by simp [List.length_take]; omega
    cases hr : rstep ps crc st (s.take n ++ zeros k) with
    | done status => exact ⟨[], [], by rw [rloop_done hr]; rfl, List.nil_prefix, by simp⟩
    | cont st' rest =>
      rw [hr] at hloc
      obtain ⟨c, hc, hcs, htot, hX⟩ := hloc
      have hclen : 0 < c.length := List.length_pos_iff.mpr hc
      have hl1 : rest.length < (s.take n ++ zeros k).length := by rw [hcs]; simp; omega
      rw [rloop_of_cont hr hl1]
      by_cases hcn : c.length ≤ n
      · -- the step lies inside the real bytes: the same step on the whole stream
        have hc1 : c = s.take c.length := by
          have h1 : (c ++ rest).take c.length = c := List.take_left' rfl
          rw [← hcs, List.take_append_of_le_length (by omega), List.take_take, Nat.min_eq_left hcn] at h1
          exact h1.symm
        have hcd : c ++ s.drop c.length = s := by
          have := List.take_append_drop c.length s
          rwa [← hc1] at this
        have hrest : rest = (s.drop c.length).take (n - c.length) ++ zeros k := by
          have := congrArg (List.drop c.length) hcs
          rw [List.drop_left' rfl, List.drop_append_of_le_length (by omega), List.drop_take] at this
          exact this.symm
        have hfull : rstep ps crc st s = .cont st' (s.drop c.length) := by
          have := hX (s.drop c.length)
          rwa [hcd] at this
        have hl2 : (s.drop c.length).length < s.length := by simp; omega
        rw [rloop_of_cont hfull hl2, hrest]
        exact ih (s.drop c.length) (by simp; omega) st' (n - c.length) k (by simp; omega)
      · -- the step straddles the cut: only zeros remain
        have hrest : rest = zeros rest.length := by
          have h1 : (c ++ rest).drop c.length = rest := List.drop_left' rfl
          obtain ⟨j, hj⟩ : ∃ j, c.length = (s.take n).length + j := ⟨c.length - n, by omega⟩
          rw [← hcs, hj, List.drop_append] at h1
          rw [← h1]; simp [zeros]
        exact ⟨[], [], by rw [hrest, rloop_zeros_nil]; rfl, List.nil_prefix, by simp⟩
    | emit rec st' rest =>
      rw [hr] at hloc
      obtain ⟨c, hc, hcs, htot, _, hX⟩ := hloc
      have hclen : 0 < c.length := List.length_pos_iff.mpr hc
      have hl1 : rest.length < (s.take n ++ zeros k).length := by rw [hcs]; simp; omega
      rw [rloop_of_emit hr hl1]
      by_cases hcn : c.length ≤ n
      · have hc1 : c = s.take c.length := by
          have h1 : (c ++ rest).take c.length = c := List.take_left' rfl
          rw [← hcs, List.take_append_of_le_length (by omega), List.take_take, Nat.min_eq_left hcn] at h1
          exact h1.symm
        have hcd : c ++ s.drop c.length = s := by
          have := List.take_append_drop c.length s
          rwa [← hc1] at this
        have hrest : rest = (s.drop c.length).take (n - c.length) ++ zeros k := by
          have := congrArg (List.drop c.length) hcs
          rw [List.drop_left' rfl, List.drop_append_of_le_length (by omega), List.drop_take] at this
          exact this.symm
        have hfull : rstep ps crc st s = .emit rec st' (s.drop c.length) := by
          have := hX (s.drop c.length)
          rwa [hcd] at this
        have hl2 : (s.drop c.length).length < s.length := by simp; omega
        rw [rloop_of_emit hfull hl2, hrest]
        obtain ⟨pre, extra, e, hp, hx⟩ := ih (s.drop c.length) (by simp; omega) st' (n - c.length) k (by simp; omega)
        exact ⟨rec :: pre, extra, by simp [e], List.cons_prefix_cons.mpr ⟨rfl, hp⟩, hx⟩
      · have hrest : rest = zeros rest.length := by
          have h1 : (c ++ rest).drop c.length = rest := List.drop_left' rfl
          obtain ⟨j, hj⟩ : ∃ j, c.length = (s.take n).length + j := ⟨c.length - n, by omega⟩
          rw [← hcs, hj, List.drop_append] at h1
          rw [← h1]; simp [zeros]
        exact ⟨[], [rec], by rw [hrest, rloop_zeros_nil]; rfl, List.nil_prefix, by simp⟩
/-! ### The log directory cut at a byte -/

/-- The log directory cut in segment `k` at byte `len`: earlier segments whole, later ones gone. -/
def truncSegs (segs : List Bytes) (k len : Nat) : List Bytes := segs.take k ++ [(segs.getD k []).take len]

theorem segPad_eq_append (ps : Nat) (seg : Bytes) : ∃ z, segPad ps seg = seg ++ zeros z := by
  unfold segPad
  by_cases h : seg.length % ps ≠ 0
  · exact ⟨_, by rw [if_pos h]⟩
  · exact ⟨0, by rw [if_neg h]; simp [zeros]⟩

theorem map_segPad_aligned {ps : Nat} : ∀ (l : List Bytes), (∀ s ∈ l, s.length % ps = 0) →
    l.map (segPad ps) = l := by
  intro l h
  conv => rhs; rw [← List.map_id l]
  apply List.map_congr_left
  intro s hs
  exact segPad_aligned (h s hs)

/-- Cutting a directory of page-aligned segments: the padded stream is a prefix of the whole stream
    followed by zeros. -/
theorem segStream_truncSegs (ps : Nat) (segs : List Bytes) (hal : ∀ s ∈ segs, s.length % ps = 0)
    (k len : Nat) (hk : k < segs.length) :
    ∃ n z, n ≤ segs.flatten.length ∧
      segStream ps (truncSegs segs k len) = segs.flatten.take n ++ zeros z := by
  obtain ⟨A, sk, B, hs, hA⟩ : ∃ A sk B, segs = A ++ sk :: B ∧ A.length = k :=
    ⟨segs.take k, segs[k], segs.drop (k + 1), by rw [List.getElem_cons_drop, List.take_append_drop],
      by simp [List.length_take]; omega⟩
  subst hs
  have htake : (A ++ sk :: B).take k = A := by rw [← hA]; exact List.take_left' rfl
  have hget : (A ++ sk :: B).getD k [] = sk := by simp [List.getD, ← hA]
  have halk : ∀ s ∈ A, s.length % ps = 0 := fun s hs => hal s (by simp [hs])
  obtain ⟨z, hz⟩ := segPad_eq_append ps (sk.take len)
  refine ⟨A.flatten.length + min len sk.length, z, ?_, ?_⟩
  · simp only [List.flatten_append, List.flatten_cons, List.length_append]
    have := Nat.min_le_right len sk.length
    omega
  · unfold segStream truncSegs
    rw [htake, hget, List.map_append, map_segPad_aligned _ halk]
    simp only [List.map_cons, List.map_nil, List.flatten_append, List.flatten_cons, List.flatten_nil,
      List.append_nil, hz]
    rw [List.take_append, List.take_of_length_le (Nat.le_add_right _ _)]
    simp only [Nat.add_sub_cancel_left]
    rw [List.take_append_of_le_length (Nat.min_le_right _ _), ← List.take_eq_take_min, List.append_assoc]
/-- The closed log as one stream: page-aligned segments, the stream reads back as the records logged. -/
theorem written_stream (ps pps : Nat) (crc : Crc) (h8 : 8 ≤ ps) (hmax : ps ≤ 65542)
    (batches : List (List Bytes)) :
    (∀ s ∈ segments ps (logAll ps pps crc batches), s.length % ps = 0) ∧
    segStream ps (segments ps (logAll ps pps crc batches)) =
      (segments ps (logAll ps pps crc batches)).flatten ∧
    Reads ps crc 0 (segments ps (logAll ps pps crc batches)).flatten 0 batches.flatten := by
  obtain ⟨sr, hseg, hsr, hrecs⟩ := (Inv.logAll pps h8 hmax batches (crc := crc)).segments
  rw [hseg]
  refine ⟨?_, segStream_aligned sr hsr, ?_⟩
  · intro s hs
    obtain ⟨p, hp, rfl⟩ := List.mem_map.mp hs
    exact (hsr p hp).end_mod
  · rw [← hrecs]; exact Reads.flatten sr hsr

/-- **(a) Plain reader, log cut at any byte**: a prefix of the records written, whole records only. -/
theorem plain_truncate_prefix (ps pps : Nat) (crc : Crc) (h8 : 8 ≤ ps) (hmax : ps ≤ 65542)
    (batches : List (List Bytes)) (n : Nat) :
    (rloop ps crc RState.init
      ((segStream ps (segments ps (logAll ps pps crc batches))).take n)).1 <+: batches.flatten := by
  obtain ⟨_, hst, hr⟩ := written_stream ps pps crc h8 hmax batches
  have h := rloop_take_prefix ps crc _ (segStream ps (segments ps (logAll ps pps crc batches)))
    (Nat.le_refl _) RState.init n
  rw [hst] at h ⊢
  rwa [hr.rloop_eq] at h

/-- **(b) Zero-padding reader (`segmentBufReader`), directory cut in segment `k` at byte `len`**: a prefix
    of the records written followed by at most one extra record. -/
theorem readAll_truncSegs_one_extra (ps pps : Nat) (crc : Crc) (h8 : 8 ≤ ps) (hmax : ps ≤ 65542)
    (batches : List (List Bytes)) (k len : Nat)
    (hk : k < (segments ps (logAll ps pps crc batches)).length) :
    ∃ pre extra, (readAll ps crc (truncSegs (segments ps (logAll ps pps crc batches)) k len)).1 = pre ++ extra ∧
      pre <+: batches.flatten ∧ extra.length ≤ 1 := by
  obtain ⟨hal, _, hr⟩ := written_stream ps pps crc h8 hmax batches
  obtain ⟨n, z, hn, hs⟩ := segStream_truncSegs ps _ hal k len hk
  unfold readAll
  rw [hs]
  have h := rloop_take_pad ps crc _ (segments ps (logAll ps pps crc batches)).flatten (Nat.le_refl _)
    RState.init n z hn
  rwa [hr.rloop_eq] at h

/-! ### One damaged byte inside a checksummed payload -/

theorem be32_inj (a b : UInt32) (h : be32 a = be32 b) : a = b := by
  simp only [be32, List.cons.injEq, and_true] at h
  obtain ⟨h3, h2, h1, h0⟩ := h
  have e3 := congrArg UInt8.toNat h3
  have e2 := congrArg UInt8.toNat h2
  have e1 := congrArg UInt8.toNat h1
  have e0 := congrArg UInt8.toNat h0
  simp [UInt32.toNat_toUInt8, UInt32.toNat_shiftRight, Nat.shiftRight_eq_div_pow] at e3 e2 e1 e0
  apply UInt32.toNat_inj.mp
  have ha := a.toNat_lt
  have hb := b.toNat_lt
  omega

/-- A fragment whose payload `d` was replaced by `d'` on disk; the header (type, length, checksum of the
    original payload) is intact. -/
def damagedFrame (crc : Crc) (typ : UInt8) (d d' : Bytes) : Bytes :=
  typ :: (be16 d.length ++ be32 (crc d) ++ d')

/-- The reader stops at such a fragment with a checksum error as soon as the checksums differ. -/
theorem rstep_damaged (ps : Nat) (crc : Crc) (st : RState) (typ : UInt8) (d d' rest : Bytes)
    (hty : DataTyp typ) (hlen : d.length ≤ ps - 7) (h16 : d.length < 65536)
    (hl : d'.length = d.length) (hne : crc d' ≠ crc d) :
    rstep ps crc st (damagedFrame crc typ d d' ++ rest) = .done (.err .crc (st.total + 7 + d.length)) := by
  have hmask : typ &&& recTypeMask = typ := by
    rcases hty with h | h | h | h <;> subst h <;> decide
  have hne0 : typ ≠ recPageTerm := by
    rcases hty with h | h | h | h <;> subst h <;> decide
  have hrd := rd16_be16 d.length h16
  have hcrc : be32 (crc d') ≠ be32 (crc d) := fun h => hne (be32_inj _ _ h)
  simp only [damagedFrame, be16, be32, List.cons_append, List.nil_append, rstep, hmask, hne0, if_false]
  simp only [hrd, hdrSize, List.length_cons, List.length_append]
  have h1 : ¬ (d'.length + rest.length + 1 + 1 + 1 + 1 + 1 + 1 = 0) := by omega
  have h2 : ¬ (d'.length + rest.length + 1 + 1 + 1 + 1 + 1 + 1 < 6) := by omega
  have h3 : ¬ (d.length > ps - 7) := by omega
  have h4 : ¬ (d.length > 0 ∧ d'.length + rest.length = 0) := by omega
  have h5 : ¬ (d'.length + rest.length < d.length) := by omega
  have ht : List.take d.length (d' ++ rest) = d' := by rw [← hl]; exact List.take_left' rfl
  simp only [be32] at hcrc
  simp only [h1, h2, h3, h4, h5, if_false, ht, ne_eq, hcrc, not_false_eq_true, if_true]

/-- `d'` is `d` with exactly one byte changed. -/
def OneByteDiff (d d' : Bytes) : Prop :=
  d'.length = d.length ∧ ∃ i, i < d.length ∧ d[i]? ≠ d'[i]? ∧ ∀ j, j ≠ i → d[j]? = d'[j]?

/-- Explicit hypothesis on the checksum (true of CRC-32C for payloads up to far beyond a page; NOT proved
    here): one damaged byte changes it. -/
def CrcDetects1 (crc : Crc) : Prop := ∀ d d', OneByteDiff d d' → crc d' ≠ crc d

/-- **Payload damage.** Let the undamaged read stand, after the bytes `A`, in state `st` having returned
    `out` (`hA`: whatever follows `A`), in front of a fragment of type `typ` with payload `d`.  If one
    byte of the payload is damaged on disk (header intact), the read returns exactly `out` — the records
    before the damaged fragment — and stops with a checksum error at the end of that fragment; nothing
    after it is returned, and `out` is a prefix of what the undamaged log returns. -/
theorem payload_damage_prefix (ps : Nat) (crc : Crc) (hdet : CrcDetects1 crc)
    (A B d d' : Bytes) (typ : UInt8) (st : RState) (out : List Bytes)
    (hA : ∀ X, rloop ps crc RState.init (A ++ X) = prep out (rloop ps crc st X))
    (hty : DataTyp typ) (hlen : d.length ≤ ps - 7) (h16 : d.length < 65536) (hd : OneByteDiff d d') :
    rloop ps crc RState.init (A ++ (damagedFrame crc typ d d' ++ B)) =
        (out, .err .crc (st.total + 7 + d.length)) ∧
      out <+: (rloop ps crc RState.init (A ++ (frame crc typ d ++ B))).1 := by
  constructor
  · rw [hA, rloop_done (rstep_damaged ps crc st typ d d' B hty hlen h16 hd.1 (hdet d d' hd))]
    simp [prep]
  · rw [hA]; simp [prep]

/-- **Payload damage behind whole records.**  `A` = the bytes of any whole records `out` as the writer laid
    them out (C13's `Reads`, the invariant of every log prefix), followed by a fragment with one damaged
    payload byte: exactly `out` is returned, then a checksum error at the end of that fragment. -/
theorem payload_damage_after_records (ps : Nat) (crc : Crc) (hdet : CrcDetects1 crc)
    (A B d d' : Bytes) (typ : UInt8) (a : Nat) (out : List Bytes) (hA : Reads ps crc 0 A a out)
    (hty : DataTyp typ) (hlen : d.length ≤ ps - 7) (h16 : d.length < 65536) (hd : OneByteDiff d d') :
    rloop ps crc RState.init (A ++ (damagedFrame crc typ d d' ++ B)) =
      (out, .err .crc (A.length + 7 + d.length)) := by
  obtain ⟨ty', _, _, e⟩ := hA 0 0 (damagedFrame crc typ d d' ++ B) (Nat.zero_mod _) nonTorn_zero
  rw [RState.init, e,
    rloop_done (rstep_damaged ps crc ⟨0 + A.length, 0, [], ty'⟩ typ d d' B hty hlen h16 hd.1 (hdet d d' hd))]
  simp [prep]


/-! ### Cut fragments completed by zeros -/

theorem frame_drop7 (crc : Crc) (typ : UInt8) (part : Bytes) : (frame crc typ part).drop 7 = part := by
  simp [frame, be16, be32]

theorem zeros_append (a b : Nat) : zeros a ++ zeros b = zeros (a + b) := by
  simp [zeros, List.replicate_append_replicate]

theorem cut_drop_zeros (l : Bytes) (c z n : Nat) (hc : c ≤ l.length) (h : c ≤ n) :
    (l.take c ++ zeros z).drop n = zeros (z - (n - c)) := by
  have hl : (l.take c).length = c := by simp [List.length_take]; omega
  rw [List.drop_append, List.drop_of_length_le (by omega), hl]
  simp [zeros]

theorem cut_take_zeros (l : Bytes) (c z n : Nat) (hc : c ≤ l.length) (h : c ≤ n) :
    (l.take c ++ zeros z).take n = l.take c ++ zeros (min (n - c) z) := by
  have hl : (l.take c).length = c := by simp [List.length_take]; omega
  rw [List.take_append, List.take_of_length_le (by omega), hl]
  simp [zeros]

/-- A prefix of `x ++ zeros` that lies inside `x`. -/
theorem cut_prefix_inside (l : Bytes) (c z : Nat) (cs rest : Bytes) (hc : c ≤ l.length)
    (h : l.take c ++ zeros z = cs ++ rest) (hle : cs.length ≤ c) : l = cs ++ l.drop cs.length := by
  have h1 : (cs ++ rest).take cs.length = cs := List.take_left' rfl
  rw [← h, List.take_append_of_le_length (by simp [List.length_take]; omega), List.take_take,
    Nat.min_eq_left hle] at h1
  conv => lhs; rw [← List.take_append_drop cs.length l, h1]

/-- **(ii) One fragment cut short and completed by zeros**: nothing, or one record made of the buffered
    bytes, a prefix of the payload, and zeros. -/
theorem rloop_frame_cut (ps : Nat) (crc : Crc) (st : RState) (typ : UInt8) (part : Bytes)
    (hty : DataTyp typ) (hlen : part.length ≤ ps - 7) (h16 : part.length < 65536)
    (hv : validateRecord typ st.i = none) (c z : Nat) (hc : c < 7 + part.length) :
    (rloop ps crc st ((frame crc typ part).take c ++ zeros z)).1 = [] ∨
      ∃ x m, (rloop ps crc st ((frame crc typ part).take c ++ zeros z)).1 =
        [st.buf ++ part.take x ++ zeros m] := by
  have hfl := frame_length crc typ part
  have hcl : c ≤ (frame crc typ part).length := by omega
  have hfull := rstep_frame ps crc st typ part [] hty hlen h16 hv
  rw [List.append_nil] at hfull
  have hloc := rstep_local ps crc st ((frame crc typ part).take c ++ zeros z)
  unfold StepLocal at hloc
  cases hr : rstep ps crc st ((frame crc typ part).take c ++ zeros z) with
  | done status => left; rw [rloop_done hr]
  | cont st' rest =>
    rw [hr] at hloc
    obtain ⟨cs, hcs0, hcs, htot, hX⟩ := hloc
    have hclen : 0 < cs.length := List.length_pos_iff.mpr hcs0
    have hgt : c < cs.length := by
      apply Nat.lt_of_not_le
      intro hle
      have e := cut_prefix_inside _ c z cs rest hcl hcs hle
      have h2 := hX ((frame crc typ part).drop cs.length)
      rw [← e, hfull] at h2
      split at h2
      · cases h2
      · simp only [StepR.cont.injEq] at h2
        rw [← h2.1] at htot
        simp at htot; omega
    have hrest : rest = zeros (z - (cs.length - c)) := by
      have h1 : (cs ++ rest).drop cs.length = rest := List.drop_left' rfl
      rw [← hcs, cut_drop_zeros _ c z _ hcl (by omega)] at h1
      exact h1.symm
    left
    rw [rloop_of_cont hr (by rw [hcs]; simp; omega), hrest, rloop_zeros_nil]
  | emit rec st' rest =>
    rw [hr] at hloc
    obtain ⟨cs, hcs0, hcs, htot, hrec, hX⟩ := hloc
    have hclen : 0 < cs.length := List.length_pos_iff.mpr hcs0
    have hgt : c < cs.length := by
      apply Nat.lt_of_not_le
      intro hle
      have e := cut_prefix_inside _ c z cs rest hcl hcs hle
      have h2 := hX ((frame crc typ part).drop cs.length)
      rw [← e, hfull] at h2
      split at h2
      · simp only [StepR.emit.injEq] at h2
        rw [← h2.2.1] at htot
        simp at htot; omega
      · cases h2
    have hrest : rest = zeros (z - (cs.length - c)) := by
      have h1 : (cs ++ rest).drop cs.length = rest := List.drop_left' rfl
      rw [← hcs, cut_drop_zeros _ c z _ hcl (by omega)] at h1
      exact h1.symm
    obtain ⟨m', hcsv⟩ : ∃ m', cs = (frame crc typ part).take c ++ zeros m' := by
      have h1 : (cs ++ rest).take cs.length = cs := List.take_left' rfl
      rw [← hcs, cut_take_zeros _ c z _ hcl (by omega)] at h1
      exact ⟨_, h1.symm⟩
    have hxl : ((frame crc typ part).take c).length = c := by simp [List.length_take]; omega
    right
    refine ⟨c - 7, m' - (7 - c), ?_⟩
    rw [rloop_of_emit hr (by rw [hcs]; simp; omega), hrest, rloop_zeros_nil, hrec]
    congr 1
    rw [List.append_assoc]
    congr 1
    rw [hcsv, List.drop_append, List.drop_take, frame_drop7, hxl]
    simp [zeros]

/-- **(iii) The bytes of one record cut short and completed by zeros**: from a reader state in step with
    the writer, nothing is returned, or one record `b ++ (prefix of enc) ++ zeros`. -/
theorem frag_cut (ps : Nat) (crc : Crc) (h8 : 8 ≤ ps) (hmax : ps ≤ 65542) :
    ∀ (fuel i alloc : Nat) (enc b : Bytes) (t : Nat) (ty : UInt8),
      t % ps = alloc → alloc + 7 ≤ ps →
      2 * enc.length + (if ps - alloc - 7 = 0 then 1 else 0) + 1 ≤ fuel → ∀ (c z : Nat),
      (rloop ps crc ⟨t, i, b, ty⟩ ((fragBytes ps crc fuel i alloc enc).take c ++ zeros z)).1 = [] ∨
      ∃ x m, (rloop ps crc ⟨t, i, b, ty⟩ ((fragBytes ps crc fuel i alloc enc).take c ++ zeros z)).1 =
        [b ++ enc.take x ++ zeros m] := by
  intro fuel
  induction fuel with
  | zero => intro i alloc enc b t ty _ _ hf; omega
  | succ fuel ih =>
    intro i alloc enc b t ty ht ha hf c z
    by_cases hfit : enc.length ≤ ps - alloc - 7
    · -- final fragment
      rw [fragBytes_fit ps crc fuel i alloc enc hfit]
      have hty : DataTyp (if i = 0 then recFull else recLast) := by
        by_cases h : i = 0 <;> simp [h, DataTyp]
      have hfin : ((if i = 0 then recFull else recLast) = recLast ∨
          (if i = 0 then recFull else recLast) = recFull) := by
        by_cases h : i = 0 <;> simp [h]
      by_cases hc : c < 7 + enc.length
      · rw [List.take_append_of_le_length (by rw [frame_length]; omega)]
        exact rloop_frame_cut ps crc ⟨t, i, b, ty⟩ _ enc hty (by omega) (by omega) (validate_final i) c z hc
      · right
        refine ⟨enc.length, 0, ?_⟩
        rw [List.take_append, List.take_of_length_le (by rw [frame_length]; omega)]
        obtain ⟨k, hk⟩ : ∃ k, List.take (c - (frame crc (if i = 0 then recFull else recLast) enc).length)
            (zeros (if ps - (alloc + 7 + enc.length) < 7 then ps - (alloc + 7 + enc.length) else 0)) ++ zeros z
              = zeros k := ⟨_, by simp only [zeros, List.take_replicate, List.replicate_append_replicate]; rfl⟩
        rw [List.append_assoc, hk]
        have hstep := rstep_frame ps crc ⟨t, i, b, ty⟩ _ enc (zeros k) hty (by omega) (by omega) (validate_final i)
        simp only [hfin, if_true] at hstep
        rw [rloop_of_emit hstep (by simp [frame_length]; omega), rloop_zeros_nil]
        simp [zeros]
    · -- non-final fragment filling the page
      have hno : ps - alloc - 7 < enc.length := by omega
      rw [fragBytes_nofit ps crc fuel i alloc enc ha hno]
      have hty : DataTyp (if i = 0 then recFirst else recMiddle) := by
        by_cases h : i = 0 <;> simp [h, DataTyp]
      have hfin : ¬ ((if i = 0 then recFirst else recMiddle) = recLast ∨
          (if i = 0 then recFirst else recMiddle) = recFull) := by
        by_cases h : i = 0 <;> simp [h] <;> decide
      have hlen : (enc.take (ps - alloc - 7)).length = ps - alloc - 7 := by
        simp [List.length_take]; omega
      by_cases hc : c < 7 + (enc.take (ps - alloc - 7)).length
      · rw [List.take_append_of_le_length (by rw [frame_length]; omega)]
        rcases rloop_frame_cut ps crc ⟨t, i, b, ty⟩ _ (enc.take (ps - alloc - 7)) hty (by omega) (by omega)
          (validate_nonfinal i) c z hc with h | ⟨x, m, h⟩
        · exact Or.inl h
        · exact Or.inr ⟨min x (ps - alloc - 7), m, by rw [h, List.take_take]⟩
      · rw [List.take_append, List.take_of_length_le (by rw [frame_length]; omega), List.append_assoc]
        have hstep := rstep_frame ps crc ⟨t, i, b, ty⟩ _ (enc.take (ps - alloc - 7))
          (List.take (c - (frame crc (if i = 0 then recFirst else recMiddle) (enc.take (ps - alloc - 7))).length)
            (fragBytes ps crc fuel (i + 1) 0 (enc.drop (ps - alloc - 7))) ++ zeros z)
          hty (by omega) (by omega) (validate_nonfinal i)
        simp only [hfin, if_false] at hstep
        rw [rloop_of_cont hstep (by simp only [List.length_append, frame_length]; omega)]
        have ht' : (t + 7 + (enc.take (ps - alloc - 7)).length) % ps = 0 := by
          rw [hlen, Nat.add_assoc]; exact mod_add_eq ht (by omega)
        have hfuel : 2 * (enc.drop (ps - alloc - 7)).length + (if ps - 0 - 7 = 0 then 1 else 0) + 1 ≤ fuel := by
          have h0 : ¬ (ps - 0 - 7 = 0) := by omega
          simp only [h0, if_false, List.length_drop]
          by_cases hr : ps - alloc - 7 = 0
          · simp [hr] at hf ⊢; omega
          · simp [hr] at hf; omega
        rcases ih (i + 1) 0 (enc.drop (ps - alloc - 7)) (b ++ enc.take (ps - alloc - 7))
          (t + 7 + (enc.take (ps - alloc - 7)).length) (if i = 0 then recFirst else recMiddle) ht' (by omega) hfuel
          (c - (frame crc (if i = 0 then recFirst else recMiddle) (enc.take (ps - alloc - 7))).length) z
          with h | ⟨x, m, h⟩
        · exact Or.inl h
        · refine Or.inr ⟨ps - alloc - 7 + x, m, ?_⟩
          show (rloop ps crc ⟨t + 7 + (enc.take (ps - alloc - 7)).length, i + 1, b ++ enc.take (ps - alloc - 7), _⟩ _).1 = _
          rw [h, List.take_add]
          simp [List.append_assoc]

/-! ### The exact shape of what a cut log reads as -/

/-- `out` = a prefix `recs.take j` of the records written, followed by nothing or by ONE extra record
    `q ++ zeros m` where `q` is a prefix of the next record written, `recs[j]`. -/
def CutShape (out recs : List Bytes) : Prop :=
  ∃ j extra, out = recs.take j ++ extra ∧
    (extra = [] ∨ ∃ r q m, recs[j]? = some r ∧ q <+: r ∧ extra = [q ++ zeros m])

theorem CutShape.mono_right {out o1 : List Bytes} (o2 : List Bytes) (h : CutShape out o1) :
    CutShape out (o1 ++ o2) := by
  obtain ⟨j, extra, e, h⟩ := h
  rcases h with h | ⟨r, q, m, hr, hq, hx⟩
  · refine ⟨min j o1.length, extra, ?_, Or.inl h⟩
    rw [List.take_append_of_le_length (Nat.min_le_right _ _), ← List.take_eq_take_min]; exact e
  · have hj : j < o1.length := (List.getElem?_eq_some_iff.mp hr).1
    refine ⟨j, extra, ?_, Or.inr ⟨r, q, m, ?_, hq, hx⟩⟩
    · rw [List.take_append_of_le_length (by omega)]; exact e
    · rw [List.getElem?_append_left hj]; exact hr

theorem CutShape.cons_left {out o2 : List Bytes} (o1 : List Bytes) (h : CutShape out o2) :
    CutShape (o1 ++ out) (o1 ++ o2) := by
  obtain ⟨j, extra, e, h⟩ := h
  refine ⟨o1.length + j, extra, ?_, ?_⟩
  · rw [List.take_append, List.take_of_length_le (Nat.le_add_right _ _), Nat.add_sub_cancel_left, e,
      List.append_assoc]
  · rcases h with h | ⟨r, q, m, hr, hq, hx⟩
    · exact Or.inl h
    · refine Or.inr ⟨r, q, m, ?_, hq, hx⟩
      rw [List.getElem?_append_right (Nat.le_add_right _ _), Nat.add_sub_cancel_left]; exact hr

theorem CutShape.nil (recs : List Bytes) : CutShape [] recs := ⟨0, [], by simp, Or.inl rfl⟩

theorem CutShape.refl (recs : List Bytes) : CutShape recs recs :=
  ⟨recs.length, [], by simp, Or.inl rfl⟩

/-- `Cut a d out`: the chunk `d` (which reads as `out`, see `Reads`) cut at ANY byte `c` and followed by
    any number of zeros reads, from a between-records state at in-page offset `a`, as a `CutShape` of `out`. -/
def Cut (ps : Nat) (crc : Crc) (a : Nat) (d : Bytes) (out : List Bytes) : Prop :=
  ∀ (t : Nat) (ty : UInt8) (c z : Nat), t % ps = a → NonTorn ty →
    CutShape (rloop ps crc ⟨t, 0, [], ty⟩ (d.take c ++ zeros z)).1 out

theorem Cut.nil (ps : Nat) (crc : Crc) (a : Nat) : Cut ps crc a [] [] := by
  intro t ty c z _ _
  simp only [List.take_nil, List.nil_append, rloop_zeros_nil]
  exact CutShape.nil _

theorem Cut.zeros (ps : Nat) (crc : Crc) (a k : Nat) : Cut ps crc a (zeros k) [] := by
  intro t ty c z _ _
  have : (Wal.zeros k).take c ++ Wal.zeros z = Wal.zeros (min c k + z) := by
    simp only [Wal.zeros, List.take_replicate, List.replicate_append_replicate]
  rw [this, rloop_zeros_nil]
  exact CutShape.nil _

theorem Cut.append {ps : Nat} {crc : Crc} {a b : Nat} {d1 d2 : Bytes} {o1 o2 : List Bytes}
    (h1 : Reads ps crc a d1 b o1) (c1 : Cut ps crc a d1 o1) (c2 : Cut ps crc b d2 o2) :
    Cut ps crc a (d1 ++ d2) (o1 ++ o2) := by
  intro t ty n z ht hty
  by_cases hn : n ≤ d1.length
  · rw [List.take_append_of_le_length hn]
    exact (c1 t ty n z ht hty).mono_right o2
  · rw [List.take_append, List.take_of_length_le (by omega), List.append_assoc]
    obtain ⟨ty1, hty1, hb, e1⟩ := h1 t ty (d2.take (n - d1.length) ++ Wal.zeros z) ht hty
    rw [e1]
    exact (c2 (t + d1.length) ty1 (n - d1.length) z hb hty1).cons_left o1

theorem Cut.frag {ps : Nat} (crc : Crc) (h8 : 8 ≤ ps) (hmax : ps ≤ 65542) {a : Nat} (ha : a + 7 ≤ ps)
    (rec : Bytes) : Cut ps crc a (fragBytes ps crc (fragFuel rec) 0 a rec) [rec] := by
  intro t ty c z ht _
  have hfuel : 2 * rec.length + (if ps - a - 7 = 0 then 1 else 0) + 1 ≤ fragFuel rec := by
    unfold fragFuel; split <;> omega
  rcases frag_cut ps crc h8 hmax (fragFuel rec) 0 a rec [] t ty ht ha hfuel c z with h | ⟨x, m, h⟩
  · rw [h]; exact CutShape.nil _
  · rw [h]
    exact ⟨0, [rec.take x ++ Wal.zeros m], by simp, Or.inr ⟨rec, rec.take x, m, by simp, List.take_prefix _ _, rfl⟩⟩

/-! ### Lifting a property of chunks to the whole written log

  `Inv` (PromProofs/WalRoundtrip.lean) shows that the log is built from chunks — the bytes of one record,
  runs of page padding — each of which `Reads` back.  Any further property `Q a d out` of chunks that holds
  of those basic chunks and is preserved by concatenation therefore holds of the whole stream. -/

structure ChunkClosed (ps : Nat) (crc : Crc) (Q : Nat → Bytes → List Bytes → Prop) : Prop where
  nil : ∀ a, Q a [] []
  zeros : ∀ {a}, 0 < a → a < ps → Q a (zeros (ps - a)) []
  append : ∀ {a b c d1 d2 o1 o2}, Reads ps crc a d1 b o1 → Q a d1 o1 → Reads ps crc b d2 c o2 → Q b d2 o2 →
    Q a (d1 ++ d2) (o1 ++ o2)
  frag : ∀ {a}, a + 7 ≤ ps → ∀ rec, Q a (fragBytes ps crc (fragFuel rec) 0 a rec) [rec]

/-- A chunk that reads back whole and has property `Q`. -/
def QReads (ps : Nat) (crc : Crc) (Q : Nat → Bytes → List Bytes → Prop)
    (a : Nat) (d : Bytes) (a' : Nat) (out : List Bytes) : Prop :=
  Reads ps crc a d a' out ∧ Q a d out

section
variable {ps : Nat} {crc : Crc} {Q : Nat → Bytes → List Bytes → Prop}

theorem QReads.nil (hQ : ChunkClosed ps crc Q) (a : Nat) : QReads ps crc Q a [] a [] :=
  ⟨Reads.nil ps crc a, hQ.nil a⟩

theorem QReads.zeros (hQ : ChunkClosed ps crc Q) {a : Nat} (hpos : 0 < a) (hlt : a < ps) :
    QReads ps crc Q a (zeros (ps - a)) 0 [] :=
  ⟨Reads.zeros crc hpos hlt, hQ.zeros hpos hlt⟩

theorem QReads.append (hQ : ChunkClosed ps crc Q) {a b c : Nat} {d1 d2 : Bytes} {o1 o2 : List Bytes}
    (h1 : QReads ps crc Q a d1 b o1) (h2 : QReads ps crc Q b d2 c o2) :
    QReads ps crc Q a (d1 ++ d2) c (o1 ++ o2) :=
  ⟨Reads.append h1.1 h2.1, hQ.append h1.1 h1.2 h2.1 h2.2⟩

theorem QReads.frag (hQ : ChunkClosed ps crc Q) (h8 : 8 ≤ ps) (hmax : ps ≤ 65542) {a : Nat} (ha : a + 7 ≤ ps)
    (rec : Bytes) :
    ∃ a', a' + 7 ≤ ps ∧ QReads ps crc Q a (fragBytes ps crc (fragFuel rec) 0 a rec) a' [rec] := by
  obtain ⟨a', ha', hr⟩ := Reads.frag crc h8 hmax ha rec
  exact ⟨a', ha', hr, hQ.frag ha rec⟩

theorem QReads.flatten (hQ : ChunkClosed ps crc Q) :
    ∀ (sr : List (Bytes × List Bytes)), (∀ p ∈ sr, QReads ps crc Q 0 p.1 0 p.2) →
      QReads ps crc Q 0 (sr.map Prod.fst).flatten 0 (sr.map Prod.snd).flatten := by
  intro sr
  induction sr with
  | nil => intro _; simpa using QReads.nil hQ 0
  | cons p sr ih =>
    intro h
    have h1 := h p (by simp)
    have h2 := ih (fun q hq => h q (by simp [hq]))
    simpa using QReads.append hQ h1 h2

/-- Writer invariant (as `Inv`, with `QReads` instead of `Reads`). -/
def QInv (ps : Nat) (crc : Crc) (Q : Nat → Bytes → List Bytes → Prop) (st : WState) (recs : List Bytes) : Prop :=
  ∃ (sr : List (Bytes × List Bytes)) (rsCur : List Bytes) (a : Nat),
    st.done = sr.map Prod.fst ∧ (∀ p ∈ sr, QReads ps crc Q 0 p.1 0 p.2) ∧
    a + 7 ≤ ps ∧ QReads ps crc Q 0 st.cur a rsCur ∧
    (sr.map Prod.snd).flatten ++ rsCur = recs

theorem QInv.init (hQ : ChunkClosed ps crc Q) (h8 : 8 ≤ ps) : QInv ps crc Q WState.init [] :=
  ⟨[], [], 0, rfl, by simp, by omega, QReads.nil hQ 0, rfl⟩

theorem QInv.logRec (hQ : ChunkClosed ps crc Q) (pps : Nat) (h8 : 8 ≤ ps) (hmax : ps ≤ 65542)
    {st : WState} {recs : List Bytes} (h : QInv ps crc Q st recs) (rec : Bytes) :
    QInv ps crc Q (logRec ps pps crc st rec) (recs ++ [rec]) := by
  obtain ⟨sr, rsCur, a, hdone, hsr, ha, hcur, hrecs⟩ := h
  have hmod : st.cur.length % ps = a := hcur.1.end_mod
  unfold Wal.logRec logStep applyStep
  by_cases hcut : (rec.length : Int) > leftInSegment ps pps st.cur.length
  · -- new segment
    simp only [hcut, if_true]
    obtain ⟨a', ha', hfrag⟩ := QReads.frag hQ h8 hmax (a := 0) (by omega) rec
    have hclosed : QReads ps crc Q 0 (st.cur ++ Wal.zeros (if st.cur.length % ps > 0 then ps - st.cur.length % ps else 0)) 0 rsCur := by
      rw [hmod]
      by_cases hz : a > 0
      · simp only [hz, if_true]
        have := QReads.append hQ hcur (QReads.zeros hQ hz (by omega))
        simpa using this
      · have : a = 0 := by omega
        subst this
        simpa [Wal.zeros] using hcur
    refine ⟨sr ++ [(st.cur ++ Wal.zeros (if st.cur.length % ps > 0 then ps - st.cur.length % ps else 0), rsCur)],
      [rec], a', ?_, ?_, ha', hfrag, ?_⟩
    · simp [hdone]
    · intro p hp
      rcases List.mem_append.mp hp with hp | hp
      · exact hsr p hp
      · simp at hp; subst hp; exact hclosed
    · simp [← hrecs]
  · simp only [hcut, if_false]
    obtain ⟨a', ha', hfrag⟩ := QReads.frag hQ h8 hmax ha rec
    rw [hmod]
    exact ⟨sr, rsCur ++ [rec], a', hdone, hsr, ha', QReads.append hQ hcur hfrag, by simp [← hrecs]⟩

theorem QInv.logBatch (hQ : ChunkClosed ps crc Q) (pps : Nat) (h8 : 8 ≤ ps) (hmax : ps ≤ 65542)
    (batch : List Bytes) : ∀ {st : WState} {recs : List Bytes}, QInv ps crc Q st recs →
    QInv ps crc Q (logBatch ps pps crc st batch) (recs ++ batch) := by
  induction batch with
  | nil => intro st recs h; simpa [Wal.logBatch] using h
  | cons r rs ih =>
    intro st recs h
    have := ih (QInv.logRec hQ pps h8 hmax h r)
    simpa [Wal.logBatch, List.append_assoc] using this

theorem QInv.logBatches (hQ : ChunkClosed ps crc Q) (pps : Nat) (h8 : 8 ≤ ps) (hmax : ps ≤ 65542)
    (batches : List (List Bytes)) : ∀ {st : WState} {recs : List Bytes}, QInv ps crc Q st recs →
    QInv ps crc Q (batches.foldl (Wal.logBatch ps pps crc) st) (recs ++ batches.flatten) := by
  induction batches with
  | nil => intro st recs h; simpa using h
  | cons b bs ih =>
    intro st recs h
    have := ih (QInv.logBatch hQ pps h8 hmax b h)
    simpa [List.append_assoc] using this

theorem QInv.logAll (hQ : ChunkClosed ps crc Q) (pps : Nat) (h8 : 8 ≤ ps) (hmax : ps ≤ 65542)
    (batches : List (List Bytes)) : QInv ps crc Q (logAll ps pps crc batches) batches.flatten := by
  simpa [Wal.logAll] using QInv.logBatches hQ pps h8 hmax batches (QInv.init hQ h8)

theorem QInv.segments (hQ : ChunkClosed ps crc Q) {st : WState} {recs : List Bytes}
    (h : QInv ps crc Q st recs) :
    ∃ sr : List (Bytes × List Bytes), segments ps st = sr.map Prod.fst ∧
      (∀ p ∈ sr, QReads ps crc Q 0 p.1 0 p.2) ∧ (sr.map Prod.snd).flatten = recs := by
  obtain ⟨sr, rsCur, a, hdone, hsr, ha, hcur, hrecs⟩ := h
  have hmod : st.cur.length % ps = a := hcur.1.end_mod
  have hclosed : QReads ps crc Q 0 (closePad ps st.cur) 0 rsCur := by
    unfold closePad; rw [hmod]
    by_cases hz : a > 0
    · simp only [hz, if_true]
      simpa using QReads.append hQ hcur (QReads.zeros hQ hz (by omega))
    · have : a = 0 := by omega
      subst this; simpa using hcur
  refine ⟨sr ++ [(closePad ps st.cur, rsCur)], by simp [Wal.segments, hdone], ?_, by simp [← hrecs]⟩
  intro p hp
  rcases List.mem_append.mp hp with hp | hp
  · exact hsr p hp
  · simp at hp; subst hp; exact hclosed

/-- **Every chunk-closed property holds of the whole stream of a closed log.** -/
theorem written_stream_closed (hQ : ChunkClosed ps crc Q) (pps : Nat) (h8 : 8 ≤ ps) (hmax : ps ≤ 65542)
    (batches : List (List Bytes)) :
    Q 0 (segments ps (logAll ps pps crc batches)).flatten batches.flatten := by
  obtain ⟨sr, hseg, hsr, hrecs⟩ := (QInv.logAll hQ pps h8 hmax batches).segments hQ
  rw [hseg, ← hrecs]
  exact (QReads.flatten hQ sr hsr).2

end

theorem cut_closed (ps : Nat) (crc : Crc) (h8 : 8 ≤ ps) (hmax : ps ≤ 65542) :
    ChunkClosed ps crc (Cut ps crc) where
  nil := Cut.nil ps crc
  zeros := fun {a} _ _ => Cut.zeros ps crc a (ps - a)
  append := fun h1 c1 _ c2 => Cut.append h1 c1 c2
  frag := fun ha rec => Cut.frag crc h8 hmax ha rec

/-- The whole stream of a closed log is well behaved under every cut. -/
theorem written_stream_cut (ps pps : Nat) (crc : Crc) (h8 : 8 ≤ ps) (hmax : ps ≤ 65542)
    (batches : List (List Bytes)) :
    Cut ps crc 0 (segments ps (logAll ps pps crc batches)).flatten batches.flatten :=
  written_stream_closed (cut_closed ps crc h8 hmax) pps h8 hmax batches

/-- **The stream of a closed log cut at any byte `n` and followed by any number of zeros** reads as a
    prefix of the records written plus at most one extra record `q ++ zeros m`, `q` a prefix of the next
    record written. -/
theorem stream_cut_shape (ps pps : Nat) (crc : Crc) (h8 : 8 ≤ ps) (hmax : ps ≤ 65542)
    (batches : List (List Bytes)) (n z : Nat) :
    CutShape (rloop ps crc RState.init
      ((segStream ps (segments ps (logAll ps pps crc batches))).take n ++ zeros z)).1 batches.flatten := by
  obtain ⟨_, hst, _⟩ := written_stream ps pps crc h8 hmax batches
  rw [hst]
  exact written_stream_cut ps pps crc h8 hmax batches 0 0 n z (Nat.zero_mod _) nonTorn_zero

/-- **Milestone 2: the log directory cut in segment `k` at byte `len`, read through the zero-padding
    `segmentBufReader`**: exactly a prefix `recs.take j` of the records written, followed by nothing or by
    one extra record `q ++ zeros m` with `q` a prefix of the next record written `recs[j]`. -/
theorem readAll_truncSegs (ps pps : Nat) (crc : Crc) (h8 : 8 ≤ ps) (hmax : ps ≤ 65542)
    (batches : List (List Bytes)) (k len : Nat)
    (hk : k < (segments ps (logAll ps pps crc batches)).length) :
    ∃ j extra, (readAll ps crc (truncSegs (segments ps (logAll ps pps crc batches)) k len)).1 =
        batches.flatten.take j ++ extra ∧
      (extra = [] ∨ ∃ r q m, batches.flatten[j]? = some r ∧ q <+: r ∧ extra = [q ++ zeros m]) := by
  obtain ⟨hal, _, _⟩ := written_stream ps pps crc h8 hmax batches
  obtain ⟨n, z, _, hs⟩ := segStream_truncSegs ps _ hal k len hk
  unfold readAll
  rw [hs]
  exact written_stream_cut ps pps crc h8 hmax batches 0 0 n z (Nat.zero_mod _) nonTorn_zero

/-! ### Witnesses: the extra record exists (for every checksum with `crc [] = 0`, as CRC-32C) -/

theorem crc32c_nil : crc32c [] = 0 := by decide

theorem frame_empty (crc : Crc) (hc : crc [] = 0) (typ : UInt8) : frame crc typ [] = typ :: zeros 6 := by
  simp [frame, hc, be16, be32, zeros]

/-- One record `[5,6,7]` (16-byte pages); the segment file cut after its first byte reads through the
    zero-padding reader as one EMPTY record that was never written, without any error
    (`readAll_truncSegs` with `j = 0`, `q = []`, `m = 0`). -/
theorem padded_truncation_phantom_witness (crc : Crc) (hc : crc [] = 0) :
    segments 16 (logAll 16 1 crc [[[5, 6, 7]]]) = [frame crc recFull [5, 6, 7] ++ zeros 6] ∧
    readAll 16 crc (truncSegs [frame crc recFull [5, 6, 7] ++ zeros 6] 0 1) = ([[]], .eof 16) ∧
    ([] : Bytes) ∉ [[(5 : UInt8), 6, 7]] := by
  refine ⟨?_, ?_, by decide⟩
  · simp [segments, logAll, logBatch, logRec, logStep, applyStep, leftInSegment, WState.init, fragFuel,
      fragBytes, closePad, hdrSize, frame, be16, be32, zeros]
  · have hs : segStream 16 (truncSegs [frame crc recFull [5, 6, 7] ++ zeros 6] 0 1) =
        frame crc recFull [] ++ (zeros (16 - 7) ++ []) := by
      rw [frame_empty crc hc]
      simp [segStream, truncSegs, segPad, frame, zeros]
    unfold readAll
    rw [hs]
    have e1 := rstep_frame 16 crc RState.init recFull [] (zeros (16 - 7) ++ []) (Or.inl rfl)
      (by simp) (by simp) (by decide)
    simp only [or_true, if_true] at e1
    have e2 := rstep_zeros 16 crc ⟨RState.init.total + 7 + ([] : Bytes).length, 0, [], recFull⟩ [] 7
      (by decide) (by decide) (by decide)
    rw [rloop_of_emit e1 (by simp [frame_length]), rloop_of_cont e2 (by simp [zeros]), rloop_nil]
    rfl

/-- One 12-byte record over two 16-byte pages (`first` 9 bytes, `last` 3 bytes); the segment file cut one
    byte into the header of the `last` fragment reads, without error, as the 9-byte record `[1..9]` — a
    record that was never written (`readAll_truncSegs` with `j = 0`, `q = [1..9]`, `m = 0`). -/
theorem padded_truncation_mangled_witness (crc : Crc) (hc : crc [] = 0) :
    segments 16 (logAll 16 2 crc [[[1, 2, 3, 4, 5, 6, 7, 8, 9, 10, 11, 12]]]) =
      [frame crc recFirst [1, 2, 3, 4, 5, 6, 7, 8, 9] ++ (frame crc recLast [10, 11, 12] ++ zeros 6)] ∧
    readAll 16 crc (truncSegs
      [frame crc recFirst [1, 2, 3, 4, 5, 6, 7, 8, 9] ++ (frame crc recLast [10, 11, 12] ++ zeros 6)] 0 17) =
      ([[1, 2, 3, 4, 5, 6, 7, 8, 9]], .eof 32) := by
  refine ⟨?_, ?_⟩
  · simp [segments, logAll, logBatch, logRec, logStep, applyStep, leftInSegment, WState.init, fragFuel,
      fragBytes, closePad, hdrSize, frame, be16, be32, zeros]
  · have hs : segStream 16 (truncSegs
          [frame crc recFirst [1, 2, 3, 4, 5, 6, 7, 8, 9] ++ (frame crc recLast [10, 11, 12] ++ zeros 6)] 0 17) =
        frame crc recFirst [1, 2, 3, 4, 5, 6, 7, 8, 9] ++ (frame crc recLast [] ++ (zeros (16 - 7) ++ [])) := by
      rw [frame_empty crc hc]
      simp [segStream, truncSegs, segPad, frame, be16, be32, zeros]
    unfold readAll
    rw [hs]
    have e1 := rstep_frame 16 crc RState.init recFirst [1, 2, 3, 4, 5, 6, 7, 8, 9]
      (frame crc recLast [] ++ (zeros (16 - 7) ++ [])) (Or.inr (Or.inl rfl)) (by simp) (by simp) (by decide)
    have hnf : ¬ (recFirst = recLast ∨ recFirst = recFull) := by decide
    simp only [hnf, if_false] at e1
    have e2 := rstep_frame 16 crc
      ⟨RState.init.total + 7 + ([1, 2, 3, 4, 5, 6, 7, 8, 9] : Bytes).length, RState.init.i + 1,
        RState.init.buf ++ [1, 2, 3, 4, 5, 6, 7, 8, 9], recFirst⟩ recLast []
      (zeros (16 - 7) ++ []) (Or.inr (Or.inr (Or.inr rfl))) (by simp) (by simp) (by decide)
    simp only [true_or, if_true] at e2
    have e3 := rstep_zeros 16 crc
      ⟨RState.init.total + 7 + ([1, 2, 3, 4, 5, 6, 7, 8, 9] : Bytes).length + 7 + ([] : Bytes).length, 0, [], recLast⟩
      [] 7 (by decide) (by decide) (by decide)
    rw [rloop_of_cont e1 (by simp [frame_length]), rloop_of_emit e2 (by simp [frame_length]),
      rloop_of_cont e3 (by simp [zeros]), rloop_nil]
    rfl

/-- The plain (unpadded) reader returns nothing on the same cut (`plain_truncate_prefix`). -/
theorem plain_truncation_mangled_witness (crc : Crc) :
    (rloop 16 crc RState.init ((frame crc recFirst [1, 2, 3, 4, 5, 6, 7, 8, 9] ++
      (frame crc recLast [10, 11, 12] ++ zeros 6)).take 17)).1 = [] := by
  have hs : (frame crc recFirst [1, 2, 3, 4, 5, 6, 7, 8, 9] ++
      (frame crc recLast [10, 11, 12] ++ zeros 6)).take 17 =
      frame crc recFirst [1, 2, 3, 4, 5, 6, 7, 8, 9] ++ [recLast] := by
    simp [frame, be16, be32, zeros]
  rw [hs]
  have e1 := rstep_frame 16 crc RState.init recFirst [1, 2, 3, 4, 5, 6, 7, 8, 9] [recLast]
    (Or.inr (Or.inl rfl)) (by simp) (by simp) (by decide)
  have hnf : ¬ (recFirst = recLast ∨ recFirst = recFull) := by decide
  simp only [hnf, if_false] at e1
  rw [rloop_of_cont e1 (by simp [frame_length])]
  rw [rloop_done (status := .eof 17) (by rfl)]

/-! ### Payload damage in a written log: every fragment is covered

  The stream of a closed log is a concatenation of fragments and runs of zeros (`Item`s); every fragment of
  that tiling stands at a step boundary of the intact read, so one damaged payload byte in ANY fragment is
  reported as a checksum error at the end of that fragment, after exactly the records completed before it. -/

inductive Item
  | pad (n : Nat)
  | frag (typ : UInt8) (p : Bytes)

def Item.bytes (crc : Crc) : Item → Bytes
  | .pad n => zeros n
  | .frag typ p => frame crc typ p

def itemsBytes (crc : Crc) (l : List Item) : Bytes := (l.map (Item.bytes crc)).flatten

theorem itemsBytes_append (crc : Crc) (l1 l2 : List Item) :
    itemsBytes crc (l1 ++ l2) = itemsBytes crc l1 ++ itemsBytes crc l2 := by
  simp [itemsBytes]

theorem itemsBytes_cons (crc : Crc) (x : Item) (l : List Item) :
    itemsBytes crc (x :: l) = x.bytes crc ++ itemsBytes crc l := by
  simp [itemsBytes]

/-- The fragments and paddings written by the fragment loop of `WL.log` (mirrors `fragBytes`). -/
def fragItems (ps : Nat) : Nat → Nat → Nat → Bytes → List Item
  | 0, _, _, _ => []
  | fuel + 1, i, alloc, enc =>
    let l := min enc.length (ps - alloc - hdrSize)
    let part := enc.take l
    let typ :=
      if i = 0 ∧ l = enc.length then recFull
      else if l = enc.length then recLast
      else if i = 0 then recFirst
      else recMiddle
    let alloc1 := alloc + hdrSize + l
    let pad := if ps - alloc1 < hdrSize then ps - alloc1 else 0
    let alloc2 := if ps - alloc1 < hdrSize then 0 else alloc1
    let enc' := enc.drop l
    .frag typ part :: .pad pad ::
      (if enc'.isEmpty then [] else fragItems ps fuel (i + 1) alloc2 enc')

theorem fragItems_bytes (ps : Nat) (crc : Crc) : ∀ (fuel i alloc : Nat) (enc : Bytes),
    itemsBytes crc (fragItems ps fuel i alloc enc) = fragBytes ps crc fuel i alloc enc := by
  intro fuel
  induction fuel with
  | zero => intro i alloc enc; rfl
  | succ fuel ih =>
    intro i alloc enc
    simp only [fragItems, fragBytes, itemsBytes_cons, Item.bytes]
    by_cases hE : (List.drop (min enc.length (ps - alloc - hdrSize)) enc).isEmpty = true
    · rw [if_pos hE, if_pos hE]; simp [itemsBytes]
    · rw [if_neg hE, if_neg hE, ih]; simp

theorem fragItems_fit (ps : Nat) (fuel i alloc : Nat) (enc : Bytes)
    (hfit : enc.length ≤ ps - alloc - 7) :
    fragItems ps (fuel + 1) i alloc enc =
      [.frag (if i = 0 then recFull else recLast) enc,
        .pad (if ps - (alloc + 7 + enc.length) < 7 then ps - (alloc + 7 + enc.length) else 0)] := by
  have hl : min enc.length (ps - alloc - 7) = enc.length := Nat.min_eq_left hfit
  simp only [fragItems, hdrSize, hl, List.take_length, List.drop_length, List.isEmpty_nil, if_true,
    and_true]

theorem fragItems_nofit (ps : Nat) (fuel i alloc : Nat) (enc : Bytes)
    (ha : alloc + 7 ≤ ps) (hno : ps - alloc - 7 < enc.length) :
    fragItems ps (fuel + 1) i alloc enc =
      .frag (if i = 0 then recFirst else recMiddle) (enc.take (ps - alloc - 7)) :: .pad 0 ::
        fragItems ps fuel (i + 1) 0 (enc.drop (ps - alloc - 7)) := by
  have hl : min enc.length (ps - alloc - 7) = ps - alloc - 7 := Nat.min_eq_right (by omega)
  have hne : ¬ (ps - alloc - 7 = enc.length) := by omega
  have h1 : alloc + 7 + (ps - alloc - 7) = ps := by omega
  have hd : (enc.drop (ps - alloc - 7)).isEmpty = false := by
    cases h : enc.drop (ps - alloc - 7) with
    | nil => have := congrArg List.length h; simp at this; omega
    | cons _ _ => rfl
  simp only [fragItems, hdrSize, hl, hne, and_false, if_false, h1, Nat.sub_self, hd]
  simp

/-- Every fragment of one record's bytes stands at a step boundary of the reader. -/
theorem frag_tiled (ps : Nat) (crc : Crc) (h8 : 8 ≤ ps) (hmax : ps ≤ 65542) :
    ∀ (fuel i alloc : Nat) (enc b : Bytes) (t : Nat) (ty : UInt8),
      t % ps = alloc → alloc + 7 ≤ ps →
      2 * enc.length + (if ps - alloc - 7 = 0 then 1 else 0) + 1 ≤ fuel →
      ∀ (I1 : List Item) (typ : UInt8) (p : Bytes) (I2 : List Item),
        fragItems ps fuel i alloc enc = I1 ++ Item.frag typ p :: I2 →
        DataTyp typ ∧ p.length ≤ ps - 7 ∧
        ∃ st : RState, st.total = t + (itemsBytes crc I1).length ∧
          ∀ X, rloop ps crc ⟨t, i, b, ty⟩ (itemsBytes crc I1 ++ X) = rloop ps crc st X := by
  intro fuel
  induction fuel with
  | zero => intro i alloc enc b t ty _ _ hf; omega
  | succ fuel ih =>
    intro i alloc enc b t ty ht ha hf I1 typ p I2 hsplit
    by_cases hfit : enc.length ≤ ps - alloc - 7
    · rw [fragItems_fit ps fuel i alloc enc hfit] at hsplit
      have hty : DataTyp (if i = 0 then recFull else recLast) := by
        by_cases h : i = 0 <;> simp [h, DataTyp]
      match I1, hsplit with
      | [], hsplit =>
        simp only [List.nil_append, List.cons.injEq, Item.frag.injEq] at hsplit
        obtain ⟨⟨h1, h2⟩, _⟩ := hsplit
        subst h1; subst h2
        exact ⟨hty, by omega, ⟨t, i, b, ty⟩, by simp [itemsBytes], fun X => by simp [itemsBytes]⟩
      | [_], hsplit => simp at hsplit
      | _ :: _ :: I1'', hsplit => simp at hsplit
    · have hno : ps - alloc - 7 < enc.length := by omega
      rw [fragItems_nofit ps fuel i alloc enc ha hno] at hsplit
      have hty : DataTyp (if i = 0 then recFirst else recMiddle) := by
        by_cases h : i = 0 <;> simp [h, DataTyp]
      have hfin : ¬ ((if i = 0 then recFirst else recMiddle) = recLast ∨
          (if i = 0 then recFirst else recMiddle) = recFull) := by
        by_cases h : i = 0 <;> simp [h] <;> decide
      have hlen : (enc.take (ps - alloc - 7)).length = ps - alloc - 7 := by
        simp [List.length_take]; omega
      match I1, hsplit with
      | [], hsplit =>
        simp only [List.nil_append, List.cons.injEq, Item.frag.injEq] at hsplit
        obtain ⟨⟨h1, h2⟩, _⟩ := hsplit
        subst h1; subst h2
        exact ⟨hty, by omega, ⟨t, i, b, ty⟩, by simp [itemsBytes], fun X => by simp [itemsBytes]⟩
      | [_], hsplit => simp at hsplit
      | x :: y :: I1'', hsplit =>
        simp only [List.cons_append, List.cons.injEq] at hsplit
        obtain ⟨hx, hy, hrest⟩ := hsplit
        subst hx; subst hy
        have ht' : (t + 7 + (enc.take (ps - alloc - 7)).length) % ps = 0 := by
          rw [hlen, Nat.add_assoc]; exact mod_add_eq ht (by omega)
        have hfuel : 2 * (enc.drop (ps - alloc - 7)).length + (if ps - 0 - 7 = 0 then 1 else 0) + 1 ≤ fuel := by
          have h0 : ¬ (ps - 0 - 7 = 0) := by omega
          simp only [h0, if_false, List.length_drop]
          by_cases hr : ps - alloc - 7 = 0
          · simp [hr] at hf ⊢; omega
          · simp [hr] at hf; omega
        obtain ⟨h1, h2, st, hst, hX⟩ := ih (i + 1) 0 (enc.drop (ps - alloc - 7))
          (b ++ enc.take (ps - alloc - 7)) (t + 7 + (enc.take (ps - alloc - 7)).length)
          (if i = 0 then recFirst else recMiddle) ht' (by omega) hfuel I1'' typ p I2 hrest
        refine ⟨h1, h2, st, ?_, fun X => ?_⟩
        · rw [hst]
          simp only [itemsBytes_cons, Item.bytes, List.length_append, frame_length, zeros,
            List.length_replicate]
          omega
        · have hstep := rstep_frame ps crc ⟨t, i, b, ty⟩ _ (enc.take (ps - alloc - 7))
            (itemsBytes crc I1'' ++ X) hty (by omega) (by omega) (validate_nonfinal i)
          simp only [hfin, if_false] at hstep
          have e : itemsBytes crc (Item.frag (if i = 0 then recFirst else recMiddle) (enc.take (ps - alloc - 7))
              :: Item.pad 0 :: I1'') ++ X =
              frame crc (if i = 0 then recFirst else recMiddle) (enc.take (ps - alloc - 7)) ++
                (itemsBytes crc I1'' ++ X) := by
            simp [itemsBytes_cons, Item.bytes, zeros]
          rw [e, rloop_of_cont hstep (by simp only [List.length_append, frame_length]; omega)]
          exact hX X

/-- `Boundary A out`: the intact read, after consuming exactly `A` (whatever follows), has returned the
    records `out` and stands at offset `|A|` in front of what follows. -/
def Boundary (ps : Nat) (crc : Crc) (A : Bytes) (out : List Bytes) : Prop :=
  ∀ X, ∃ st : RState, st.total = A.length ∧
    rloop ps crc RState.init (A ++ X) = prep out (rloop ps crc st X)

/-- `Tiled a d out`: the chunk `d` is a concatenation of fragments and zero runs, and every fragment of that
    tiling stands at a step boundary of a reader that starts the chunk between records at in-page offset
    `a`, having returned by then a prefix `o` of the chunk's records `out`. -/
def Tiled (ps : Nat) (crc : Crc) (a : Nat) (d : Bytes) (out : List Bytes) : Prop :=
  ∃ items : List Item, d = itemsBytes crc items ∧
    ∀ (I1 : List Item) (typ : UInt8) (p : Bytes) (I2 : List Item), items = I1 ++ Item.frag typ p :: I2 →
      ∀ (t : Nat), t % ps = a →
        DataTyp typ ∧ p.length ≤ ps - 7 ∧
        ∃ o : List Bytes, o <+: out ∧ ∀ (ty : UInt8), NonTorn ty → ∀ X, ∃ st : RState,
          st.total = t + (itemsBytes crc I1).length ∧
          rloop ps crc ⟨t, 0, [], ty⟩ (itemsBytes crc I1 ++ X) = prep o (rloop ps crc st X)

theorem Tiled.nil (ps : Nat) (crc : Crc) (a : Nat) : Tiled ps crc a [] [] :=
  ⟨[], rfl, fun I1 typ p I2 h => by simp at h⟩

theorem Tiled.zeros (ps : Nat) (crc : Crc) (a k : Nat) : Tiled ps crc a (zeros k) [] := by
  refine ⟨[.pad k], by simp [itemsBytes, Item.bytes], fun I1 typ p I2 h => ?_⟩
  match I1, h with
  | [], h => simp at h
  | _ :: _, h => simp at h

theorem Tiled.append {ps : Nat} {crc : Crc} {a b : Nat} {d1 d2 : Bytes} {o1 o2 : List Bytes}
    (h1 : Reads ps crc a d1 b o1) (c1 : Tiled ps crc a d1 o1) (c2 : Tiled ps crc b d2 o2) :
    Tiled ps crc a (d1 ++ d2) (o1 ++ o2) := by
  obtain ⟨it1, e1, f1⟩ := c1
  obtain ⟨it2, e2, f2⟩ := c2
  refine ⟨it1 ++ it2, by rw [itemsBytes_append, e1, e2], ?_⟩
  intro I1 typ p I2 hsplit t ht
  -- the fragment lies in the second chunk
  have second : ∀ a' : List Item, I1 = it1 ++ a' → it2 = a' ++ Item.frag typ p :: I2 →
      DataTyp typ ∧ p.length ≤ ps - 7 ∧
        ∃ o : List Bytes, o <+: o1 ++ o2 ∧ ∀ (ty : UInt8), NonTorn ty → ∀ X, ∃ st : RState,
          st.total = t + (itemsBytes crc I1).length ∧
          rloop ps crc ⟨t, 0, [], ty⟩ (itemsBytes crc I1 ++ X) = prep o (rloop ps crc st X) := by
    intro a' hI1 hit2
    obtain ⟨_, _, hb, _⟩ := h1 t 0 [] ht nonTorn_zero
    obtain ⟨hd, hl, o, ho, hX⟩ := f2 a' typ p I2 hit2 (t + d1.length) hb
    refine ⟨hd, hl, o1 ++ o, (List.prefix_append_right_inj o1).mpr ho, fun ty hty X => ?_⟩
    obtain ⟨ty1, hty1, _, er⟩ := h1 t ty (itemsBytes crc a' ++ X) ht hty
    obtain ⟨st, hst, hr⟩ := hX ty1 hty1 X
    refine ⟨st, ?_, ?_⟩
    · rw [hst, hI1, itemsBytes_append, ← e1, List.length_append]; omega
    · rw [hI1, itemsBytes_append, ← e1, List.append_assoc, er, hr]
      simp [prep]
  rcases List.append_eq_append_iff.mp hsplit with ⟨a', hI1, hit2⟩ | ⟨c', hit1, hc'⟩
  · exact second a' hI1 hit2
  · match c', hit1, hc' with
    | [], hit1, hc' =>
      exact second [] (by simpa using hit1.symm) (by simpa using hc'.symm)
    | x :: c'', hit1, hc' =>
      simp only [List.cons_append, List.cons.injEq] at hc'
      obtain ⟨hx, _⟩ := hc'
      subst hx
      obtain ⟨hd, hl, o, ho, hX⟩ := f1 I1 typ p c'' hit1 t ht
      exact ⟨hd, hl, o, ho.trans (List.prefix_append o1 o2), hX⟩

theorem Tiled.frag {ps : Nat} (crc : Crc) (h8 : 8 ≤ ps) (hmax : ps ≤ 65542) {a : Nat} (ha : a + 7 ≤ ps)
    (rec : Bytes) : Tiled ps crc a (fragBytes ps crc (fragFuel rec) 0 a rec) [rec] := by
  refine ⟨fragItems ps (fragFuel rec) 0 a rec, (fragItems_bytes ps crc _ _ _ _).symm, ?_⟩
  intro I1 typ p I2 hsplit t ht
  have hfuel : 2 * rec.length + (if ps - a - 7 = 0 then 1 else 0) + 1 ≤ fragFuel rec := by
    unfold fragFuel; split <;> omega
  obtain ⟨hd, hl, _⟩ := frag_tiled ps crc h8 hmax (fragFuel rec) 0 a rec [] t 0 ht ha hfuel I1 typ p I2 hsplit
  refine ⟨hd, hl, [], List.nil_prefix, fun ty _ X => ?_⟩
  obtain ⟨_, _, st, hst, hX⟩ :=
    frag_tiled ps crc h8 hmax (fragFuel rec) 0 a rec [] t ty ht ha hfuel I1 typ p I2 hsplit
  exact ⟨st, hst, by rw [hX X]; simp [prep]⟩

theorem tiled_closed (ps : Nat) (crc : Crc) (h8 : 8 ≤ ps) (hmax : ps ≤ 65542) :
    ChunkClosed ps crc (Tiled ps crc) where
  nil := Tiled.nil ps crc
  zeros := fun {a} _ _ => Tiled.zeros ps crc a (ps - a)
  append := fun h1 c1 _ c2 => Tiled.append h1 c1 c2
  frag := fun ha rec => Tiled.frag crc h8 hmax ha rec

/-- **Completeness: every fragment of a written log stands at a step boundary of the intact read.**  The
    stream of a closed log is a concatenation `items` of fragments (`type len16 crc32 payload`) and zero
    runs; for every fragment of it, the bytes before it are a `Boundary` at which the intact read has
    returned a prefix `o` of the records written. -/
theorem written_fragments_at_boundaries (ps pps : Nat) (crc : Crc) (h8 : 8 ≤ ps) (hmax : ps ≤ 65542)
    (batches : List (List Bytes)) :
    ∃ items : List Item,
      segStream ps (segments ps (logAll ps pps crc batches)) = itemsBytes crc items ∧
      ∀ (I1 : List Item) (typ : UInt8) (p : Bytes) (I2 : List Item), items = I1 ++ Item.frag typ p :: I2 →
        DataTyp typ ∧ p.length ≤ ps - 7 ∧
        ∃ o, o <+: batches.flatten ∧ Boundary ps crc (itemsBytes crc I1) o := by
  obtain ⟨_, hst, _⟩ := written_stream ps pps crc h8 hmax batches
  obtain ⟨items, e, f⟩ := written_stream_closed (tiled_closed ps crc h8 hmax) pps h8 hmax batches
  refine ⟨items, by rw [hst, e], fun I1 typ p I2 hsplit => ?_⟩
  obtain ⟨hd, hl, o, ho, hX⟩ := f I1 typ p I2 hsplit 0 (Nat.zero_mod _)
  refine ⟨hd, hl, o, ho, fun X => ?_⟩
  obtain ⟨st, hst, hr⟩ := hX 0 nonTorn_zero X
  exact ⟨st, by simpa using hst, hr⟩

/-- **Payload damage at a boundary.**  If the bytes `A` are a boundary of the intact read with records `out`
    and a fragment with payload `d` follows, one damaged payload byte makes the read return exactly `out`
    and stop with a checksum error at the end of that fragment. -/
theorem payload_damage_boundary (ps : Nat) (crc : Crc) (hmax : ps ≤ 65542) (hdet : CrcDetects1 crc)
    (A B d d' : Bytes) (typ : UInt8) (out : List Bytes) (hA : Boundary ps crc A out)
    (hty : DataTyp typ) (hlen : d.length ≤ ps - 7) (hd : OneByteDiff d d') :
    rloop ps crc RState.init (A ++ (damagedFrame crc typ d d' ++ B)) =
      (out, .err .crc (A.length + 7 + d.length)) := by
  obtain ⟨st, hst, hr⟩ := hA (damagedFrame crc typ d d' ++ B)
  rw [hr, rloop_done (rstep_damaged ps crc st typ d d' B hty hlen (by omega) hd.1 (hdet d d' hd)), hst]
  simp [prep]

/-- **One damaged payload byte anywhere in a written log.**  The stream of a closed log is a concatenation
    of fragments and zero runs such that for EVERY fragment (payload `p`) and every `p'` differing from `p`
    in one byte, the read of the damaged stream returns a prefix `o` of the records written — the same `o`
    the intact read has returned when it reaches that fragment — and stops with a checksum error at the end
    of the damaged fragment.  Hypothesis on the checksum: `CrcDetects1` (one changed byte changes it). -/
theorem payload_damage_written (ps pps : Nat) (crc : Crc) (h8 : 8 ≤ ps) (hmax : ps ≤ 65542)
    (hdet : CrcDetects1 crc) (batches : List (List Bytes)) :
    ∃ items : List Item,
      segStream ps (segments ps (logAll ps pps crc batches)) = itemsBytes crc items ∧
      ∀ (I1 : List Item) (typ : UInt8) (p : Bytes) (I2 : List Item), items = I1 ++ Item.frag typ p :: I2 →
        ∃ o, o <+: batches.flatten ∧ Boundary ps crc (itemsBytes crc I1) o ∧
          ∀ p', OneByteDiff p p' →
            rloop ps crc RState.init (itemsBytes crc I1 ++ (damagedFrame crc typ p p' ++ itemsBytes crc I2)) =
              (o, .err .crc ((itemsBytes crc I1).length + 7 + p.length)) := by
  obtain ⟨items, hs, f⟩ := written_fragments_at_boundaries ps pps crc h8 hmax batches
  refine ⟨items, hs, fun I1 typ p I2 hsplit => ?_⟩
  obtain ⟨hd, hl, o, ho, hb⟩ := f I1 typ p I2 hsplit
  exact ⟨o, ho, hb, fun p' hp' =>
    payload_damage_boundary ps crc hmax hdet _ _ p p' typ o hb hd hl hp'⟩


end Prom.Wal
