import PromProofs.WalRoundtrip
/-
  D13 (deepening of C13) — reading a log that was cut at an arbitrary byte, and one damaged payload byte.

  `readAll` reads through `segmentBufReader`, which zero-pads a segment whose length is not a multiple of
  the page size.  A cut inside a fragment is therefore completed by zeros.  The exact truth proved here:
  the records returned are a prefix `recs.take j` of the records written, followed by at most ONE extra
  record of the form `q ++ zeros m` with `q` a prefix of the next written record `recs[j]`.

  The locality lemmas (`StepLocal` … `rloop_take_pad`) and the payload-damage lemmas are ports of the
  lemmas proved for property C04 (namespace `Prom.Damage` there).
-/
namespace Prom.Wal

/-! ### Locality of one reader step -/

/-- What a successful step does, independently of what follows the consumed bytes `c`. -/
def StepLocal (ps : Nat) (crc : Crc) (st : RState) (s : Bytes) : Prop :=
  match rstep ps crc st s with
  | .done _ => True
  | .cont st' rest => ∃ c, c ≠ [] ∧ s = c ++ rest ∧ st'.total = st.total + c.length ∧
      ∀ X, rstep ps crc st (c ++ X) = .cont st' X
  | .emit rec st' rest => ∃ c, c ≠ [] ∧ s = c ++ rest ∧ st'.total = st.total + c.length ∧
      rec = st.buf ++ c.drop 7 ∧ ∀ X, rstep ps crc st (c ++ X) = .emit rec st' X

theorem take_append_of_le {α} (l X : List α) (k : Nat) (h : k ≤ l.length) :
    (l.take k ++ X).take k = l.take k := by
  rw [List.take_append_of_le_length (by simp [List.length_take]; omega)]
  rw [List.take_take]; simp

theorem drop_append_of_le {α} (l X : List α) (k : Nat) (h : k ≤ l.length) :
    (l.take k ++ X).drop k = X := by
  have hl : (l.take k).length = k := by simp [List.length_take]; omega
  rw [List.drop_append_of_le_length (by omega)]
  rw [List.drop_of_length_le (by omega)]; simp

theorem list_ge6 {α} (l : List α) (h : ¬ l.length < 6) :
    ∃ a b c d e f r, l = a :: b :: c :: d :: e :: f :: r := by
  match l, h with
  | a :: b :: c :: d :: e :: f :: r, _ => exact ⟨a, b, c, d, e, f, r, rfl⟩
  | [], h => simp at h
  | [_], h => simp at h
  | [_, _], h => simp at h
  | [_, _, _], h => simp at h
  | [_, _, _, _], h => simp at h
  | [_, _, _, _, _], h => simp at h

theorem rstep_local (ps : Nat) (crc : Crc) (st : RState) (s : Bytes) : StepLocal ps crc st s := by
  unfold StepLocal
  cases s with
  | nil => simp [rstep]
  | cons h0 s1 =>
    by_cases hpt : (h0 &&& recTypeMask) = recPageTerm
    · -- page terminator
      by_cases hk : ps - (st.total + 1) % ps = ps
      · have e : ∀ Y : Bytes, rstep ps crc st (h0 :: Y) =
            .cont { st with total := st.total + 1, typ := h0 &&& recTypeMask } Y := by
          intro Y; simp [rstep, hpt, hk]
        rw [e s1]
        exact ⟨[h0], by simp, by simp, by simp, fun X => by simpa using e X⟩
      · by_cases h0l : s1.length = 0
        · simp [rstep, hpt, hk, h0l]
        · by_cases hlt : s1.length < ps - (st.total + 1) % ps
          · simp [rstep, hpt, hk, h0l, hlt]
          · by_cases hany : (s1.take (ps - (st.total + 1) % ps)).any (· ≠ 0)
            · simp only [rstep, hpt, hk, h0l, hlt, hany, if_true, if_false]
            · have hkpos : 0 < ps - (st.total + 1) % ps := by
                rcases Nat.eq_zero_or_pos ps with h | h
                · subst h; simp at hk
                · have := Nat.mod_lt (st.total + 1) h; omega
              have hle : ps - (st.total + 1) % ps ≤ s1.length := by omega
              have e : ∀ Y : Bytes, rstep ps crc st (h0 :: (s1.take (ps - (st.total + 1) % ps) ++ Y)) =
                  .cont { st with total := st.total + 1 + (ps - (st.total + 1) % ps), typ := h0 &&& recTypeMask } Y := by
                intro Y
                have hlen : (s1.take (ps - (st.total + 1) % ps) ++ Y).length =
                    ps - (st.total + 1) % ps + Y.length := by simp [List.length_take]; omega
                have h1 : ¬ ((s1.take (ps - (st.total + 1) % ps) ++ Y).length = 0) := by omega
                have h2 : ¬ ((s1.take (ps - (st.total + 1) % ps) ++ Y).length < ps - (st.total + 1) % ps) := by omega
                simp only [rstep, hpt, hk, h1, h2, if_true, if_false, take_append_of_le _ _ _ hle,
                  drop_append_of_le _ _ _ hle, hany]
                simp
              have hs : h0 :: s1 = h0 :: (s1.take (ps - (st.total + 1) % ps) ++ s1.drop (ps - (st.total + 1) % ps)) := by
                rw [List.take_append_drop]
              have e1 := e (s1.drop (ps - (st.total + 1) % ps))
              rw [← hs] at e1
              rw [e1]
              exact ⟨h0 :: s1.take (ps - (st.total + 1) % ps), by simp, by simp,
                by simp [List.length_take]; omega, fun X => by simpa using e X⟩
    · -- data fragment
      by_cases h0l : s1.length = 0
      · simp [rstep, hpt, h0l]
      · by_cases h6 : s1.length < 6
        · simp [rstep, hpt, h0l, h6]
        · obtain ⟨l1, l0, c3, c2, c1, c0, s2, rfl⟩ := list_ge6 s1 h6
          have hl : ¬ ((l1 :: l0 :: c3 :: c2 :: c1 :: c0 :: s2).length = 0) := by simp
          have hl6 : ¬ ((l1 :: l0 :: c3 :: c2 :: c1 :: c0 :: s2).length < 6) := by simp
          by_cases hsz : rd16 l1 l0 > ps - hdrSize
          · simp only [rstep, hpt, hl, hl6, hsz, if_true, if_false]
          · by_cases he : rd16 l1 l0 > 0 ∧ s2.length = 0
            · simp only [rstep, hpt, hl, hl6, hsz, he, if_true, if_false, and_self]
            · by_cases hds : s2.length < rd16 l1 l0
              · simp only [rstep, hpt, hl, hl6, hsz, he, hds, if_true, if_false]
              · by_cases hcrc' : ¬ be32 (crc (s2.take (rd16 l1 l0))) = [c3, c2, c1, c0]
                · simp only [rstep, hpt, hl, hl6, hsz, he, hds, hcrc', ne_eq, not_false_eq_true, if_true, if_false]
                · have hcrc : be32 (crc (s2.take (rd16 l1 l0))) = [c3, c2, c1, c0] := Classical.not_not.mp hcrc'
                  have hle : rd16 l1 l0 ≤ s2.length := by omega
                  -- the step on the consumed bytes followed by anything
                  have key : ∀ Y : Bytes,
                      rstep ps crc st (h0 :: l1 :: l0 :: c3 :: c2 :: c1 :: c0 :: (s2.take (rd16 l1 l0) ++ Y)) =
                      (match validateRecord (h0 &&& recTypeMask) st.i with
                        | some e => StepR.done (.err e (st.total + 1 + 6 + rd16 l1 l0))
                        | none =>
                          if (h0 &&& recTypeMask) = recLast ∨ (h0 &&& recTypeMask) = recFull then
                            if h0 &&& snappyMask = snappyMask ∨ h0 &&& zstdMask = zstdMask then
                              StepR.done (.err .compressed (st.total + 1 + 6 + rd16 l1 l0))
                            else StepR.emit (st.buf ++ s2.take (rd16 l1 l0))
                              ⟨st.total + 1 + 6 + rd16 l1 l0, 0, [], h0 &&& recTypeMask⟩ Y
                          else StepR.cont ⟨st.total + 1 + 6 + rd16 l1 l0, st.i + 1,
                            st.buf ++ s2.take (rd16 l1 l0), h0 &&& recTypeMask⟩ Y) := by
                    intro Y
                    have hlen : (s2.take (rd16 l1 l0) ++ Y).length = rd16 l1 l0 + Y.length := by
                      simp [List.length_take]; omega
                    have g1 : ¬ ((l1 :: l0 :: c3 :: c2 :: c1 :: c0 :: (s2.take (rd16 l1 l0) ++ Y)).length = 0) := by simp
                    have g2 : ¬ ((l1 :: l0 :: c3 :: c2 :: c1 :: c0 :: (s2.take (rd16 l1 l0) ++ Y)).length < 6) := by simp
                    have g3 : ¬ (rd16 l1 l0 > 0 ∧ (s2.take (rd16 l1 l0) ++ Y).length = 0) := by omega
                    have g4 : ¬ ((s2.take (rd16 l1 l0) ++ Y).length < rd16 l1 l0) := by omega
                    simp only [rstep, hpt, g1, g2, hsz, g3, g4, if_false, take_append_of_le _ _ _ hle,
                      drop_append_of_le _ _ _ hle, hcrc, ne_eq, not_true_eq_false]
                    cases validateRecord (h0 &&& recTypeMask) st.i <;> rfl
                  have hs : h0 :: l1 :: l0 :: c3 :: c2 :: c1 :: c0 :: s2 =
                      h0 :: l1 :: l0 :: c3 :: c2 :: c1 :: c0 :: (s2.take (rd16 l1 l0) ++ s2.drop (rd16 l1 l0)) := by
                    rw [List.take_append_drop]
                  have k1 := key (s2.drop (rd16 l1 l0))
                  rw [← hs] at k1
                  rw [k1]
                  cases hv : validateRecord (h0 &&& recTypeMask) st.i with
                  | some e => simp
                  | none =>
                    by_cases hfin : (h0 &&& recTypeMask) = recLast ∨ (h0 &&& recTypeMask) = recFull
                    · by_cases hcomp : h0 &&& snappyMask = snappyMask ∨ h0 &&& zstdMask = zstdMask
                      · simp [hfin, hcomp]
                      · simp only [hfin, hcomp, if_true, if_false]
                        refine ⟨h0 :: l1 :: l0 :: c3 :: c2 :: c1 :: c0 :: s2.take (rd16 l1 l0), by simp,
                          by simp, by simp [List.length_take]; omega, by simp, fun X => ?_⟩
                        have := key X
                        simp only [hv, hfin, hcomp, if_true, if_false] at this
                        simpa using this
                    · simp only [hfin, if_false]
                      refine ⟨h0 :: l1 :: l0 :: c3 :: c2 :: c1 :: c0 :: s2.take (rd16 l1 l0), by simp,
                        by simp, by simp [List.length_take]; omega, fun X => ?_⟩
                      have := key X
                      simp only [hv, hfin, if_false] at this
                      simpa using this


/-! ### Truncation: a prefix of the stream gives a prefix of the records -/

theorem rloop_done {ps : Nat} {crc : Crc} {st : RState} {s : Bytes} {status : Status}
    (h : rstep ps crc st s = .done status) : rloop ps crc st s = ([], status) := by
  rw [rloop]; simp [h]

/-- The plain `Reader` on the first `n` bytes of any stream returns a prefix of what it returns on the
    whole stream (for every reader state, every checksum function, well-formed stream or not). -/
theorem rloop_take_prefix (ps : Nat) (crc : Crc) :
    ∀ (m : Nat) (s : Bytes), s.length ≤ m → ∀ (st : RState) (n : Nat),
      (rloop ps crc st (s.take n)).1 <+: (rloop ps crc st s).1 := by
  intro m
  induction m with
  | zero =>
    intro s hs st n
    have : s = [] := List.eq_nil_of_length_eq_zero (by omega)
    subst this; simp
  | succ m ih =>
    intro s hs st n
    have hloc := rstep_local ps crc st (s.take n)
    unfold StepLocal at hloc
    have hsplit : s = s.take n ++ s.drop n := (List.take_append_drop n s).symm
    cases hr : rstep ps crc st (s.take n) with
    | done status => rw [rloop_done hr]; exact List.nil_prefix
    | cont st' rest =>
      rw [hr] at hloc
      obtain ⟨c, hc, hcs, htot, hX⟩ := hloc
      have hclen : 0 < c.length := List.length_pos_iff.mpr hc
      have hfull : rstep ps crc st s = .cont st' (rest ++ s.drop n) := by
        have := hX (rest ++ s.drop n)
        rwa [← List.append_assoc, ← hcs, ← hsplit] at this
      have hl1 : rest.length < (s.take n).length := by rw [hcs]; simp; omega
      have hl2 : (rest ++ s.drop n).length < s.length := by
        have : s.length = (s.take n).length + (s.drop n).length := by rw [← List.length_append, ← hsplit]
        rw [List.length_append]; omega
      rw [rloop_of_cont hr hl1, rloop_of_cont hfull hl2]
      have := ih (rest ++ s.drop n) (by omega) st' rest.length
      rwa [List.take_left' rfl] at this
    | emit rec st' rest =>
      rw [hr] at hloc
      obtain ⟨c, hc, hcs, htot, _, hX⟩ := hloc
      have hclen : 0 < c.length := List.length_pos_iff.mpr hc
      have hfull : rstep ps crc st s = .emit rec st' (rest ++ s.drop n) := by
        have := hX (rest ++ s.drop n)
        rwa [← List.append_assoc, ← hcs, ← hsplit] at this
      have hl1 : rest.length < (s.take n).length := by rw [hcs]; simp; omega
      have hl2 : (rest ++ s.drop n).length < s.length := by
        have : s.length = (s.take n).length + (s.drop n).length := by rw [← List.length_append, ← hsplit]
        rw [List.length_append]; omega
      rw [rloop_of_emit hr hl1, rloop_of_emit hfull hl2]
      have := ih (rest ++ s.drop n) (by omega) st' rest.length
      rw [List.take_left' rfl] at this
      exact List.cons_prefix_cons.mpr ⟨rfl, this⟩

/-! ### Truncation followed by zero padding (the `segmentBufReader` of `Head.Init`) -/

/-- Reading nothing but zeros never returns a record. -/
theorem rloop_zeros_nil (ps : Nat) (crc : Crc) : ∀ (k : Nat) (st : RState), (rloop ps crc st (zeros k)).1 = [] := by
  intro k
  induction k using Nat.strongRecOn with
  | _ k ih =>
    intro st
    cases k with
    | zero => simp [zeros, rloop_nil]
    | succ k =>
      have hz : (0 : UInt8) &&& recTypeMask = recPageTerm := by decide
      have hs : zeros (k + 1) = (0 : UInt8) :: zeros k := by simp [zeros, List.replicate_succ]
      cases hr : rstep ps crc st (zeros (k + 1)) with
      | done status => rw [rloop_done hr]
      | emit rec st' rest =>
        exfalso
        rw [hs] at hr
        simp only [rstep, hz, if_true] at hr
        split at hr <;> try split at hr
        all_goals (try split at hr)
        all_goals (try split at hr)
        all_goals simp at hr
      | cont st' rest =>
        have hloc := rstep_local ps crc st (zeros (k + 1))
        unfold StepLocal at hloc
        rw [hr] at hloc
        obtain ⟨c, hc, hcs, _, _⟩ := hloc
        have hclen : 0 < c.length := List.length_pos_iff.mpr hc
        have hlen : (zeros (k + 1)).length = c.length + rest.length := by rw [hcs]; simp
        have hrest : rest = zeros rest.length := by
          have : rest = (zeros (k + 1)).drop c.length := by rw [hcs]; simp
          rw [this]; simp [zeros]
        have hl : rest.length < (zeros (k + 1)).length := by omega
        rw [rloop_of_cont hr hl, hrest]
        exact ih rest.length (by simp [zeros] at hlen; omega) st'

/-- The reader of `Head.Init` on a file cut at `n` bytes and zero padded: a prefix of what the whole stream
    gives, followed by at most one extra record (the fragment straddling the cut, completed by zeros). -/
theorem rloop_take_pad (ps : Nat) (crc : Crc) :
    ∀ (m : Nat) (s : Bytes), s.length ≤ m → ∀ (st : RState) (n k : Nat), n ≤ s.length →
      ∃ pre extra, (rloop ps crc st (s.take n ++ zeros k)).1 = pre ++ extra ∧
        pre <+: (rloop ps crc st s).1 ∧ extra.length ≤ 1 := by
  intro m
  induction m with
  | zero =>
    intro s hs st n k hn
    have : s = [] := List.eq_nil_of_length_eq_zero (by omega)
    subst this
    exact ⟨[], [], by simp [rloop_zeros_nil], List.nil_prefix, by simp⟩
  | succ m ih =>
    intro s hs st n k hn
    have hloc := rstep_local ps crc st (s.take n ++ zeros k)
    unfold StepLocal at hloc
    have htl : (s.take n).length = n := by simp [List.length_take]; omega
    cases hr : rstep ps crc st (s.take n ++ zeros k) with
    | done status => exact ⟨[], [], by rw [rloop_done hr]; rfl, List.nil_prefix, by simp⟩
    | cont st' rest =>
      rw [hr] at hloc
      obtain ⟨c, hc, hcs, htot, hX⟩ := hloc
      have hclen : 0 < c.length := List.length_pos_iff.mpr hc
      have hl1 : rest.length < (s.take n ++ zeros k).length := by rw [hcs]; simp; omega
      rw [rloop_of_cont hr hl1]
      by_cases hcn : c.length ≤ n
      · -- the step lies inside the real bytes: the same step on the whole stream
        have hc1 : c = s.take c.length := by
          have h1 : (c ++ rest).take c.length = c := List.take_left' rfl
          rw [← hcs, List.take_append_of_le_length (by omega), List.take_take, Nat.min_eq_left hcn] at h1
          exact h1.symm
        have hcd : c ++ s.drop c.length = s := by
          have := List.take_append_drop c.length s
          rwa [← hc1] at this
        have hrest : rest = (s.drop c.length).take (n - c.length) ++ zeros k := by
          have := congrArg (List.drop c.length) hcs
          rw [List.drop_left' rfl, List.drop_append_of_le_length (by omega), List.drop_take] at this
          exact this.symm
        have hfull : rstep ps crc st s = .cont st' (s.drop c.length) := by
          have := hX (s.drop c.length)
          rwa [hcd] at this
        have hl2 : (s.drop c.length).length < s.length := by simp; omega
        rw [rloop_of_cont hfull hl2, hrest]
        exact ih (s.drop c.length) (by simp; omega) st' (n - c.length) k (by simp; omega)
      · -- the step straddles the cut: only zeros remain
        have hrest : rest = zeros rest.length := by
          have h1 : (c ++ rest).drop c.length = rest := List.drop_left' rfl
          obtain ⟨j, hj⟩ : ∃ j, c.length = (s.take n).length + j := ⟨c.length - n, by omega⟩
          rw [← hcs, hj, List.drop_append] at h1
          rw [← h1]; simp [zeros]
        exact ⟨[], [], by rw [hrest, rloop_zeros_nil]; rfl, List.nil_prefix, by simp⟩
    | emit rec st' rest =>
      rw [hr] at hloc
      obtain ⟨c, hc, hcs, htot, _, hX⟩ := hloc
      have hclen : 0 < c.length := List.length_pos_iff.mpr hc
      have hl1 : rest.length < (s.take n ++ zeros k).length := by rw [hcs]; simp; omega
      rw [rloop_of_emit hr hl1]
      by_cases hcn : c.length ≤ n
      · have hc1 : c = s.take c.length := by
          have h1 : (c ++ rest).take c.length = c := List.take_left' rfl
          rw [← hcs, List.take_append_of_le_length (by omega), List.take_take, Nat.min_eq_left hcn] at h1
          exact h1.symm
        have hcd : c ++ s.drop c.length = s := by
          have := List.take_append_drop c.length s
          rwa [← hc1] at this
        have hrest : rest = (s.drop c.length).take (n - c.length) ++ zeros k := by
          have := congrArg (List.drop c.length) hcs
          rw [List.drop_left' rfl, List.drop_append_of_le_length (by omega), List.drop_take] at this
          exact this.symm
        have hfull : rstep ps crc st s = .emit rec st' (s.drop c.length) := by
          have := hX (s.drop c.length)
          rwa [hcd] at this
        have hl2 : (s.drop c.length).length < s.length := by simp; omega
        rw [rloop_of_emit hfull hl2, hrest]
        obtain ⟨pre, extra, e, hp, hx⟩ := ih (s.drop c.length) (by simp; omega) st' (n - c.length) k (by simp; omega)
        exact ⟨rec :: pre, extra, by simp [e], List.cons_prefix_cons.mpr ⟨rfl, hp⟩, hx⟩
      · have hrest : rest = zeros rest.length := by
          have h1 : (c ++ rest).drop c.length = rest := List.drop_left' rfl
          obtain ⟨j, hj⟩ : ∃ j, c.length = (s.take n).length + j := ⟨c.length - n, by omega⟩
          rw [← hcs, hj, List.drop_append] at h1
          rw [← h1]; simp [zeros]
        exact ⟨[], [rec], by rw [hrest, rloop_zeros_nil]; rfl, List.nil_prefix, by simp⟩
/-! ### The log directory cut at a byte -/

/-- The log directory cut in segment `k` at byte `len`: earlier segments whole, later ones gone. -/
def truncSegs (segs : List Bytes) (k len : Nat) : List Bytes := segs.take k ++ [(segs.getD k []).take len]

theorem segPad_eq_append (ps : Nat) (seg : Bytes) : ∃ z, segPad ps seg = seg ++ zeros z := by
  unfold segPad
  by_cases h : seg.length % ps ≠ 0
  · exact ⟨_, by rw [if_pos h]⟩
  · exact ⟨0, by rw [if_neg h]; simp [zeros]⟩

theorem map_segPad_aligned {ps : Nat} : ∀ (l : List Bytes), (∀ s ∈ l, s.length % ps = 0) →
    l.map (segPad ps) = l := by
  intro l h
  conv => rhs; rw [← List.map_id l]
  apply List.map_congr_left
  intro s hs
  exact segPad_aligned (h s hs)

/-- Cutting a directory of page-aligned segments: the padded stream is a prefix of the whole stream
    followed by zeros. -/
theorem segStream_truncSegs (ps : Nat) (segs : List Bytes) (hal : ∀ s ∈ segs, s.length % ps = 0)
    (k len : Nat) (hk : k < segs.length) :
    ∃ n z, n ≤ segs.flatten.length ∧
      segStream ps (truncSegs segs k len) = segs.flatten.take n ++ zeros z := by
  obtain ⟨A, sk, B, hs, hA⟩ : ∃ A sk B, segs = A ++ sk :: B ∧ A.length = k :=
    ⟨segs.take k, segs[k], segs.drop (k + 1), by rw [List.getElem_cons_drop, List.take_append_drop],
      by simp [List.length_take]; omega⟩
  subst hs
  have htake : (A ++ sk :: B).take k = A := by rw [← hA]; exact List.take_left' rfl
  have hget : (A ++ sk :: B).getD k [] = sk := by simp [List.getD, ← hA]
  have halk : ∀ s ∈ A, s.length % ps = 0 := fun s hs => hal s (by simp [hs])
  obtain ⟨z, hz⟩ := segPad_eq_append ps (sk.take len)
  refine ⟨A.flatten.length + min len sk.length, z, ?_, ?_⟩
  · simp only [List.flatten_append, List.flatten_cons, List.length_append]
    have := Nat.min_le_right len sk.length
    omega
  · unfold segStream truncSegs
    rw [htake, hget, List.map_append, map_segPad_aligned _ halk]
    simp only [List.map_cons, List.map_nil, List.flatten_append, List.flatten_cons, List.flatten_nil,
      List.append_nil, hz]
    rw [List.take_append, List.take_of_length_le (Nat.le_add_right _ _)]
    simp only [Nat.add_sub_cancel_left]
    rw [List.take_append_of_le_length (Nat.min_le_right _ _), ← List.take_eq_take_min, List.append_assoc]
/-- The closed log as one stream: page-aligned segments, the stream reads back as the records logged. -/
theorem written_stream (ps pps : Nat) (crc : Crc) (h8 : 8 ≤ ps) (hmax : ps ≤ 65542)
    (batches : List (List Bytes)) :
    (∀ s ∈ segments ps (logAll ps pps crc batches), s.length % ps = 0) ∧
    segStream ps (segments ps (logAll ps pps crc batches)) =
      (segments ps (logAll ps pps crc batches)).flatten ∧
    Reads ps crc 0 (segments ps (logAll ps pps crc batches)).flatten 0 batches.flatten := by
  obtain ⟨sr, hseg, hsr, hrecs⟩ := (Inv.logAll pps h8 hmax batches (crc := crc)).segments
  rw [hseg]
  refine ⟨?_, segStream_aligned sr hsr, ?_⟩
  · intro s hs
    obtain ⟨p, hp, rfl⟩ := List.mem_map.mp hs
    exact (hsr p hp).end_mod
  · rw [← hrecs]; exact Reads.flatten sr hsr

/-- **(a) Plain reader, log cut at any byte**: a prefix of the records written, whole records only. -/
theorem plain_truncate_prefix (ps pps : Nat) (crc : Crc) (h8 : 8 ≤ ps) (hmax : ps ≤ 65542)
    (batches : List (List Bytes)) (n : Nat) :
    (rloop ps crc RState.init
      ((segStream ps (segments ps (logAll ps pps crc batches))).take n)).1 <+: batches.flatten := by
  obtain ⟨_, hst, hr⟩ := written_stream ps pps crc h8 hmax batches
  have h := rloop_take_prefix ps crc _ (segStream ps (segments ps (logAll ps pps crc batches)))
    (Nat.le_refl _) RState.init n
  rw [hst] at h ⊢
  rwa [hr.rloop_eq] at h

/-- **(b) Zero-padding reader (`segmentBufReader`), directory cut in segment `k` at byte `len`**: a prefix
    of the records written followed by at most one extra record. -/
theorem readAll_truncSegs_one_extra (ps pps : Nat) (crc : Crc) (h8 : 8 ≤ ps) (hmax : ps ≤ 65542)
    (batches : List (List Bytes)) (k len : Nat)
    (hk : k < (segments ps (logAll ps pps crc batches)).length) :
    ∃ pre extra, (readAll ps crc (truncSegs (segments ps (logAll ps pps crc batches)) k len)).1 = pre ++ extra ∧
      pre <+: batches.flatten ∧ extra.length ≤ 1 := by
  obtain ⟨hal, _, hr⟩ := written_stream ps pps crc h8 hmax batches
  obtain ⟨n, z, hn, hs⟩ := segStream_truncSegs ps _ hal k len hk
  unfold readAll
  rw [hs]
  have h := rloop_take_pad ps crc _ (segments ps (logAll ps pps crc batches)).flatten (Nat.le_refl _)
    RState.init n z hn
  rwa [hr.rloop_eq] at h

/-! ### One damaged byte inside a checksummed payload -/

theorem be32_inj (a b : UInt32) (h : be32 a = be32 b) : a = b := by
  simp only [be32, List.cons.injEq, and_true] at h
  obtain ⟨h3, h2, h1, h0⟩ := h
  have e3 := congrArg UInt8.toNat h3
  have e2 := congrArg UInt8.toNat h2
  have e1 := congrArg UInt8.toNat h1
  have e0 := congrArg UInt8.toNat h0
  simp [UInt32.toNat_toUInt8, UInt32.toNat_shiftRight, Nat.shiftRight_eq_div_pow] at e3 e2 e1 e0
  apply UInt32.toNat_inj.mp
  have ha := a.toNat_lt
  have hb := b.toNat_lt
  omega

/-- A fragment whose payload `d` was replaced by `d'` on disk; the header (type, length, checksum of the
    original payload) is intact. -/
def damagedFrame (crc : Crc) (typ : UInt8) (d d' : Bytes) : Bytes :=
  typ :: (be16 d.length ++ be32 (crc d) ++ d')

/-- The reader stops at such a fragment with a checksum error as soon as the checksums differ. -/
theorem rstep_damaged (ps : Nat) (crc : Crc) (st : RState) (typ : UInt8) (d d' rest : Bytes)
    (hty : DataTyp typ) (hlen : d.length ≤ ps - 7) (h16 : d.length < 65536)
    (hl : d'.length = d.length) (hne : crc d' ≠ crc d) :
    rstep ps crc st (damagedFrame crc typ d d' ++ rest) = .done (.err .crc (st.total + 7 + d.length)) := by
  have hmask : typ &&& recTypeMask = typ := by
    rcases hty with h | h | h | h <;> subst h <;> decide
  have hne0 : typ ≠ recPageTerm := by
    rcases hty with h | h | h | h <;> subst h <;> decide
  have hrd := rd16_be16 d.length h16
  have hcrc : be32 (crc d') ≠ be32 (crc d) := fun h => hne (be32_inj _ _ h)
  simp only [damagedFrame, be16, be32, List.cons_append, List.nil_append, rstep, hmask, hne0, if_false]
  simp only [hrd, hdrSize, List.length_cons, List.length_append]
  have h1 : ¬ (d'.length + rest.length + 1 + 1 + 1 + 1 + 1 + 1 = 0) := by omega
  have h2 : ¬ (d'.length + rest.length + 1 + 1 + 1 + 1 + 1 + 1 < 6) := by omega
  have h3 : ¬ (d.length > ps - 7) := by omega
  have h4 : ¬ (d.length > 0 ∧ d'.length + rest.length = 0) := by omega
  have h5 : ¬ (d'.length + rest.length < d.length) := by omega
  have ht : List.take d.length (d' ++ rest) = d' := by rw [← hl]; exact List.take_left' rfl
  simp only [be32] at hcrc
  simp only [h1, h2, h3, h4, h5, if_false, ht, ne_eq, hcrc, not_false_eq_true, if_true]

/-- `d'` is `d` with exactly one byte changed. -/
def OneByteDiff (d d' : Bytes) : Prop :=
  d'.length = d.length ∧ ∃ i, i < d.length ∧ d[i]? ≠ d'[i]? ∧ ∀ j, j ≠ i → d[j]? = d'[j]?

/-- Explicit hypothesis on the checksum (true of CRC-32C for payloads up to far beyond a page; NOT proved
    here): one damaged byte changes it. -/
def CrcDetects1 (crc : Crc) : Prop := ∀ d d', OneByteDiff d d' → crc d' ≠ crc d

/-- **Payload damage.** Let the undamaged read stand, after the bytes `A`, in state `st` having returned
    `out` (`hA`: whatever follows `A`), in front of a fragment of type `typ` with payload `d`.  If one
    byte of the payload is damaged on disk (header intact), the read returns exactly `out` — the records
    before the damaged fragment — and stops with a checksum error at the end of that fragment; nothing
    after it is returned, and `out` is a prefix of what the undamaged log returns. -/
theorem payload_damage_prefix (ps : Nat) (crc : Crc) (hdet : CrcDetects1 crc)
    (A B d d' : Bytes) (typ : UInt8) (st : RState) (out : List Bytes)
    (hA : ∀ X, rloop ps crc RState.init (A ++ X) = prep out (rloop ps crc st X))
    (hty : DataTyp typ) (hlen : d.length ≤ ps - 7) (h16 : d.length < 65536) (hd : OneByteDiff d d') :
    rloop ps crc RState.init (A ++ (damagedFrame crc typ d d' ++ B)) =
        (out, .err .crc (st.total + 7 + d.length)) ∧
      out <+: (rloop ps crc RState.init (A ++ (frame crc typ d ++ B))).1 := by
  constructor
  · rw [hA, rloop_done (rstep_damaged ps crc st typ d d' B hty hlen h16 hd.1 (hdet d d' hd))]
    simp [prep]
  · rw [hA]; simp [prep]

/-- **Payload damage behind whole records.**  `A` = the bytes of any whole records `out` as the writer laid
    them out (C13's `Reads`, the invariant of every log prefix), followed by a fragment with one damaged
    payload byte: exactly `out` is returned, then a checksum error at the end of that fragment. -/
theorem payload_damage_after_records (ps : Nat) (crc : Crc) (hdet : CrcDetects1 crc)
    (A B d d' : Bytes) (typ : UInt8) (a : Nat) (out : List Bytes) (hA : Reads ps crc 0 A a out)
    (hty : DataTyp typ) (hlen : d.length ≤ ps - 7) (h16 : d.length < 65536) (hd : OneByteDiff d d') :
    rloop ps crc RState.init (A ++ (damagedFrame crc typ d d' ++ B)) =
      (out, .err .crc (A.length + 7 + d.length)) := by
  obtain ⟨ty', _, _, e⟩ := hA 0 0 (damagedFrame crc typ d d' ++ B) (Nat.zero_mod _) nonTorn_zero
  rw [RState.init, e,
    rloop_done (rstep_damaged ps crc ⟨0 + A.length, 0, [], ty'⟩ typ d d' B hty hlen h16 hd.1 (hdet d d' hd))]
  simp [prep]


end Prom.Wal
