import PromModel.Labels.StableHash
import PromProofs.StableHash
/-
  Helper lemmas for C18: filtering commutes with the stable insertion sort and with the de-duplicating
  merge of sorted series sets (when the predicate respects the order's equivalence); order laws of
  `labels.Compare`; the sharded `Select` of the storage model is the filtered unsharded `Select`.
-/
namespace Prom.StableHash
open Std

/-! ## order laws of `compareLabels` -/

instance : TransCmp cmpBytes := inferInstanceAs <| TransCmp (List.compareLex (compare : UInt8 → UInt8 → Ordering))
instance : LawfulEqCmp cmpBytes := inferInstanceAs <| LawfulEqCmp (List.compareLex (compare : UInt8 → UInt8 → Ordering))

theorem cmpLabel_eq_lex :
    cmpLabel = compareLex (fun a b => cmpBytes a.name b.name) (fun a b => cmpBytes a.value b.value) := rfl

instance : TransCmp (fun a b : Label => cmpBytes a.name b.name) where
  eq_swap := OrientedCmp.eq_swap (cmp := cmpBytes)
  isLE_trans := TransCmp.isLE_trans (cmp := cmpBytes)

instance : TransCmp (fun a b : Label => cmpBytes a.value b.value) where
  eq_swap := OrientedCmp.eq_swap (cmp := cmpBytes)
  isLE_trans := TransCmp.isLE_trans (cmp := cmpBytes)

instance : TransCmp cmpLabel := by rw [cmpLabel_eq_lex]; infer_instance

instance : LawfulEqCmp cmpLabel where
  compare_self {a} := by simp [cmpLabel, ReflCmp.compare_self]
  eq_of_compare {a b} h := by
    simp only [cmpLabel, Ordering.then_eq_eq, LawfulEqCmp.compare_eq_iff_eq] at h
    cases a; cases b; simp_all

instance : TransCmp compareLabels := inferInstanceAs <| TransCmp (List.compareLex cmpLabel)
instance : LawfulEqCmp compareLabels := inferInstanceAs <| LawfulEqCmp (List.compareLex cmpLabel)

/-! ## insertion sort -/

section SortSec
variable {α : Type} (cmp : α → α → Ordering)

/-- sorted (non-strictly) -/
def Sorted (l : List α) : Prop := l.Pairwise fun a b => cmp a b ≠ .gt

theorem mem_insertBy (a x : α) (l : List α) : x ∈ insertBy cmp a l ↔ x = a ∨ x ∈ l := by
  induction l with
  | nil => simp [insertBy]
  | cons b bs ih =>
    simp only [insertBy]
    split
    · simp only [List.mem_cons, ih]; grind
    · simp

theorem insertBy_of_le_all (a : α) (l : List α) (h : ∀ c ∈ l, cmp a c ≠ .gt) : insertBy cmp a l = a :: l := by
  cases l with
  | nil => rfl
  | cons b bs =>
    have := h b List.mem_cons_self
    simp [insertBy, this]

variable [TransCmp cmp]

theorem le_trans' {a b c : α} (h1 : cmp a b ≠ .gt) (h2 : cmp b c ≠ .gt) : cmp a c ≠ .gt := by
  have h1' : (cmp a b).isLE := by cases h : cmp a b <;> simp_all
  have h2' : (cmp b c).isLE := by cases h : cmp b c <;> simp_all
  have := TransCmp.isLE_trans h1' h2'
  cases h : cmp a c <;> simp_all

theorem sorted_insertBy (a : α) (l : List α) (h : Sorted cmp l) : Sorted cmp (insertBy cmp a l) := by
  induction l with
  | nil => simp [insertBy, Sorted]
  | cons b bs ih =>
    have hb := List.pairwise_cons.mp h
    simp only [insertBy]
    split
    · rename_i hgt
      have hgt' : cmp a b = .gt := by simpa using hgt
      refine List.pairwise_cons.mpr ⟨?_, ih hb.2⟩
      intro x hx
      rcases (mem_insertBy cmp a x bs).mp hx with rfl | hx
      · rw [OrientedCmp.gt_iff_lt.mp hgt']; simp
      · exact hb.1 x hx
    · rename_i hgt
      have hle : cmp a b ≠ .gt := by simpa using hgt
      refine List.pairwise_cons.mpr ⟨?_, h⟩
      intro x hx
      rcases List.mem_cons.mp hx with rfl | hx
      · exact hle
      · exact le_trans' cmp hle (hb.1 x hx)

theorem sorted_sortBy (l : List α) : Sorted cmp (sortBy cmp l) := by
  induction l with
  | nil => simp [sortBy, Sorted]
  | cons a as ih => exact sorted_insertBy cmp a _ ih

theorem sorted_filter (p : α → Bool) (l : List α) (h : Sorted cmp l) : Sorted cmp (l.filter p) :=
  List.Pairwise.filter p h

theorem filter_insertBy (p : α → Bool) (a : α) (l : List α) (hs : Sorted cmp l) :
    (insertBy cmp a l).filter p = if p a then insertBy cmp a (l.filter p) else l.filter p := by
  induction l with
  | nil => by_cases h : p a <;> simp [insertBy, h]
  | cons b bs ih =>
    have hb := List.pairwise_cons.mp hs
    by_cases hgt : (cmp a b == .gt) = true
    · simp only [insertBy, if_pos hgt]
      by_cases hpb : p b = true
      · rw [List.filter_cons_of_pos hpb, ih hb.2, List.filter_cons_of_pos hpb]
        by_cases ha : p a = true
        · simp only [ha, if_true, insertBy, if_pos hgt]
        · simp only [ha]; rfl
      · rw [List.filter_cons_of_neg hpb, ih hb.2, List.filter_cons_of_neg hpb]
    · simp only [insertBy, if_neg hgt]
      have hle : cmp a b ≠ .gt := by simpa using hgt
      by_cases ha : p a = true
      · simp only [ha, if_true, List.filter_cons_of_pos ha]
        rw [insertBy_of_le_all]
        intro c hc
        rcases List.mem_cons.mp (List.mem_filter.mp hc).1 with rfl | hc'
        · exact hle
        · exact le_trans' cmp hle (hb.1 c hc')
      · simp only [ha, List.filter_cons_of_neg ha]; rfl

theorem filter_sortBy (p : α → Bool) (l : List α) : (sortBy cmp l).filter p = sortBy cmp (l.filter p) := by
  induction l with
  | nil => rfl
  | cons a as ih =>
    show (insertBy cmp a (sortBy cmp as)).filter p = _
    rw [filter_insertBy cmp p a _ (sorted_sortBy cmp as), ih]
    by_cases ha : p a = true
    · simp only [ha, if_true, List.filter_cons_of_pos ha]; rfl
    · simp only [ha, List.filter_cons_of_neg ha]; rfl

/-! ## de-duplicating merge -/

theorem mergeDedup_nil_right (l : List α) : mergeDedup cmp l [] = l := by
  cases l <;> simp [mergeDedup]

theorem mergeDedup_cons_lt (x : α) (l zs : List α) (h : ∀ z ∈ zs, cmp x z = .lt) :
    mergeDedup cmp (x :: l) zs = x :: mergeDedup cmp l zs := by
  cases zs with
  | nil => simp [mergeDedup, mergeDedup_nil_right]
  | cons z zs => simp [mergeDedup, h z List.mem_cons_self]

theorem mergeDedup_cons_gt (y : α) (l zs : List α) (h : ∀ z ∈ zs, cmp z y = .gt) :
    mergeDedup cmp zs (y :: l) = y :: mergeDedup cmp zs l := by
  cases zs with
  | nil => simp [mergeDedup]
  | cons z zs => simp [mergeDedup, h z List.mem_cons_self]

theorem lt_of_lt_of_le' {a b c : α} (h1 : cmp a b = .lt) (h2 : cmp b c ≠ .gt) : cmp a c = .lt := by
  have h2' : (cmp b c).isLE := by cases h : cmp b c <;> simp_all
  exact TransCmp.lt_of_lt_of_isLE h1 h2'

/-- Filtering commutes with the merge of two sorted series sets, provided the predicate cannot tell
    apart series the order considers equal (a shard predicate: it depends on the labels only). -/
theorem filter_mergeDedup (p : α → Bool) (hp : ∀ a b, cmp a b = .eq → p a = p b) (xs ys : List α)
    (hx : Sorted cmp xs) (hy : Sorted cmp ys) :
    (mergeDedup cmp xs ys).filter p = mergeDedup cmp (xs.filter p) (ys.filter p) := by
  fun_induction mergeDedup cmp xs ys with
  | case1 ys => simp [mergeDedup]
  | case2 xs hne => simp [mergeDedup_nil_right]
  | case3 x xs y ys hlt ih =>
    have hx' := List.pairwise_cons.mp hx
    have hy' := List.pairwise_cons.mp hy
    by_cases hpx : p x = true
    · rw [List.filter_cons_of_pos hpx, ih hx'.2 hy, List.filter_cons_of_pos hpx, mergeDedup_cons_lt]
      intro z hz
      rcases List.mem_cons.mp (List.mem_filter.mp hz).1 with rfl | hz'
      · exact hlt
      · exact lt_of_lt_of_le' cmp hlt (hy'.1 z hz')
    · rw [List.filter_cons_of_neg hpx, ih hx'.2 hy, List.filter_cons_of_neg hpx]
  | case4 x xs y ys hgt ih =>
    have hx' := List.pairwise_cons.mp hx
    have hy' := List.pairwise_cons.mp hy
    by_cases hpy : p y = true
    · rw [List.filter_cons_of_pos hpy, ih hx hy'.2, List.filter_cons_of_pos hpy, mergeDedup_cons_gt]
      intro z hz
      rcases List.mem_cons.mp (List.mem_filter.mp hz).1 with rfl | hz'
      · exact hgt
      · have hyx : cmp y x = .lt := OrientedCmp.gt_iff_lt.mp hgt
        exact OrientedCmp.gt_iff_lt.mpr (lt_of_lt_of_le' cmp hyx (hx'.1 z hz'))
    · rw [List.filter_cons_of_neg hpy, ih hx hy'.2, List.filter_cons_of_neg hpy]
  | case5 x xs y ys heq ih =>
    have hx' := List.pairwise_cons.mp hx
    have hy' := List.pairwise_cons.mp hy
    have hxy := hp x y heq
    by_cases hpx : p x = true
    · have hpy : p y = true := hxy ▸ hpx
      rw [List.filter_cons_of_pos hpx, ih hx'.2 hy'.2, List.filter_cons_of_pos hpx, List.filter_cons_of_pos hpy]
      simp [mergeDedup, heq]
    · have hpy : ¬ p y = true := hxy ▸ hpx
      rw [List.filter_cons_of_neg hpx, ih hx'.2 hy'.2, List.filter_cons_of_neg hpx, List.filter_cons_of_neg hpy]

end SortSec

/-! ## the storage model -/

/-- sharding is enabled and every head series caches the stable hash of its own labels -/
def HeadWF (h : Head) : Prop := h.enableSharding = true ∧ ∀ s ∈ h.series, s.shardHash = stableHashGo s.lset

theorem headWF_empty : HeadWF ⟨true, []⟩ := ⟨rfl, by simp⟩

theorem headWF_getOrCreate (h : Head) (ls : Labels) (hw : HeadWF h) : HeadWF (h.getOrCreate ls) := by
  unfold Head.getOrCreate
  split
  · exact hw
  · refine ⟨hw.1, ?_⟩
    intro s hs
    rcases List.mem_append.mp hs with hs | hs
    · exact hw.2 s hs
    · simp only [List.mem_singleton] at hs
      subst hs
      simp [hw.1]

theorem headWF_foldl (l : List Labels) (h : Head) (hw : HeadWF h) : HeadWF (l.foldl Head.getOrCreate h) := by
  induction l generalizing h with
  | nil => exact hw
  | cons a as ih => exact ih _ (headWF_getOrCreate h a hw)

/-- the shard predicate on label sets -/
def inShard (i n : UInt64) (ls : Labels) : Bool := shardOf (stableHash ls) n == i

theorem head_select_unsharded (h : Head) (m : Matcher) :
    h.select m none = .ok (sortBy compareLabels ((h.series.filter fun s => m.matches s.lset).map (·.lset))) := rfl

theorem head_select_sharded (h : Head) (hw : HeadWF h) (m : Matcher) (i n : UInt64) (hn : 0 < n) :
    h.select m (some ⟨i, n⟩) =
      .ok ((sortBy compareLabels ((h.series.filter fun s => m.matches s.lset).map (·.lset))).filter (inShard i n)) := by
  simp only [Head.select, hn, if_true, hw.1, Bool.not_true, Bool.false_eq_true, if_false]
  rw [filter_sortBy, List.filter_map]
  have : shardedPostings (·.shardHash) (h.series.filter fun s => m.matches s.lset) i n =
      (h.series.filter fun s => m.matches s.lset).filter (inShard i n ∘ (·.lset)) := by
    simp only [shardedPostings]
    apply List.filter_congr
    intro s hs
    have := hw.2 s (List.mem_filter.mp hs).1
    simp [inShard, this, stableHashGo_eq]
  rw [this]

theorem block_select_sharded (b : Block) (m : Matcher) (i n : UInt64) (hn : 0 < n) :
    b.select m (some ⟨i, n⟩) = (b.select m none).filter (inShard i n) := by
  simp only [Block.select, hn, if_true, shardedPostings]
  apply List.filter_congr
  intro s _
  simp [inShard, stableHashGo_eq]

theorem sorted_block_select (b : Block) (hb : Sorted compareLabels b.series) (m : Matcher) :
    Sorted compareLabels (b.select m none) := by
  simp only [Block.select]
  exact sorted_filter compareLabels _ _ hb

/-- every block of the database holds its series sorted by labels -/
def BlockWF (db : Db) : Prop := ∀ b, db.block = some b → Sorted compareLabels b.series

theorem db_select_sharded (db : Db) (hh : HeadWF db.head) (hb : BlockWF db) (w : Where) (m : Matcher)
    (i n : UInt64) (hn : 0 < n) :
    ∃ all, db.select w m none = .ok all ∧ db.select w m (some ⟨i, n⟩) = .ok (all.filter (inShard i n)) := by
  have hblk : ∃ blk, Sorted compareLabels blk ∧ db.blockSelect m none = blk ∧
      db.blockSelect m (some ⟨i, n⟩) = blk.filter (inShard i n) := by
    unfold Db.blockSelect
    cases hdb : db.block with
    | none => exact ⟨[], by simp [Sorted], rfl, rfl⟩
    | some b => exact ⟨_, sorted_block_select b (hb b hdb) m, rfl, block_select_sharded b m i n hn⟩
  obtain ⟨blk, hs, h1, h2⟩ := hblk
  cases w with
  | block => exact ⟨blk, by simp [Db.select, h1], by simp [Db.select, h2]⟩
  | head => exact ⟨_, by simp only [Db.select]; exact head_select_unsharded _ m,
      by simp only [Db.select]; exact head_select_sharded _ hh m i n hn⟩
  | both =>
    refine ⟨mergeDedup compareLabels blk (sortBy compareLabels ((db.head.series.filter fun s => m.matches s.lset).map (·.lset))), ?_, ?_⟩
    · simp only [Db.select, h1, head_select_unsharded]; rfl
    · simp only [Db.select, h2, head_select_sharded _ hh m i n hn]
      rw [filter_mergeDedup compareLabels (inShard i n) _ _ _ hs (sorted_sortBy compareLabels _)]
      · rfl
      · intro a b hab
        rw [LawfulEqCmp.eq_of_compare hab]

end Prom.StableHash
