import PromProofs.ChunkXorSim
import PromModel.Tsdb.ChunkXor2
/-
  C10: leaf lemmas for the XOR2 chunk (value codes, packed delta-of-delta, joint control prefix).
-/
namespace Prom.ChunkXor2
open Prom.Bits Prom.Varbit Prom.ChunkXor

/-! ### the window payload is the classic XOR payload behind different prefixes -/

theorem xorWrite_eq_winWrite (δ l t : Nat) (h0 : δ ≠ 0) :
    xorWrite δ l t = (true :: (winWrite δ l t).1 :: (winWrite δ l t).2.1, (winWrite δ l t).2.2) := by
  unfold xorWrite winWrite
  rw [if_neg h0]
  dsimp only
  split <;> rfl

theorem xorRead_eq_winRead (b : Bool) (base l t : Nat) (r : Bits) :
    xorRead base l t (true :: b :: r) = winRead b base l t r := by
  cases b <;> rfl

/-- Reading the window payload gives the new value back; the windows stay related. -/
theorem winRead_winWrite (base v' el et dl dt : Nat) (rest : Bits)
    (hb : base < 2 ^ 64) (hv' : v' < 2 ^ 64) (h0 : v' ^^^ base ≠ 0) (hrel : WinRel el et dl dt) :
    ∃ dl' dt', winRead (winWrite (v' ^^^ base) el et).1 base dl dt ((winWrite (v' ^^^ base) el et).2.1 ++ rest)
        = some (v', dl', dt', rest) ∧
      WinRel (winWrite (v' ^^^ base) el et).2.2.1 (winWrite (v' ^^^ base) el et).2.2.2 dl' dt' := by
  obtain ⟨dl', dt', h1, h2⟩ := xorRead_xorWrite base v' el et dl dt rest hb hv' hrel
  rw [xorWrite_eq_winWrite _ _ _ h0] at h1 h2
  refine ⟨dl', dt', ?_, h2⟩
  rw [← xorRead_eq_winRead]
  simpa using h1

theorem baseOf_lt {av v : Nat} (ha : av < 2 ^ 64) (hv : v < 2 ^ 64) : baseOf av v < 2 ^ 64 := by
  unfold baseOf; split <;> assumption

/-- `decodeValue` undoes `writeVDelta`. -/
theorem decodeValue_writeVDelta (base v' el et dl dt : Nat) (rest : Bits)
    (hb : base < 2 ^ 64) (hv' : v' < 2 ^ 64) (hrel : WinRel el et dl dt) :
    ∃ dl' dt', decodeValue base dl dt ((writeVDelta base el et v').1 ++ rest)
        = some (v', baseOf base v', dl', dt', rest) ∧
      WinRel (writeVDelta base el et v').2.1 (writeVDelta base el et v').2.2 dl' dt' := by
  unfold writeVDelta
  split
  · next hs => exact ⟨dl, dt, by simp [decodeValue, baseOf, hs], hrel⟩
  · next hs =>
    split
    · next hz =>
      have := eq_of_xor_eq_zero hz
      subst this
      exact ⟨dl, dt, by simp [decodeValue, baseOf, hs], hrel⟩
    · next hz =>
      obtain ⟨dl', dt', h1, h2⟩ := winRead_winWrite base v' el et dl dt rest hb hv' hz hrel
      refine ⟨dl', dt', ?_, h2⟩
      dsimp only
      cases hw : (winWrite (v' ^^^ base) el et).1
      · rw [hw] at h1
        simp [decodeValue, h1, baseOf, hs]
      · rw [hw] at h1
        simp [decodeValue, h1, baseOf, hs]

/-- `decodeValueKnownNonZero` undoes `writeVDeltaKnownNonZero`. -/
theorem decodeValueNN_writeVDeltaNN (base v' el et dl dt : Nat) (rest : Bits)
    (hb : base < 2 ^ 64) (hv' : v' < 2 ^ 64) (h0 : v' ^^^ base ≠ 0) (hs : v' ≠ staleNaN)
    (hrel : WinRel el et dl dt) :
    ∃ dl' dt', decodeValueNN base dl dt ((writeVDeltaNN (v' ^^^ base) el et).1 ++ rest)
        = some (v', baseOf base v', dl', dt', rest) ∧
      WinRel (writeVDeltaNN (v' ^^^ base) el et).2.1 (writeVDeltaNN (v' ^^^ base) el et).2.2 dl' dt' := by
  obtain ⟨dl', dt', h1, h2⟩ := winRead_winWrite base v' el et dl dt rest hb hv' h0 hrel
  refine ⟨dl', dt', ?_, h2⟩
  simp [writeVDeltaNN, decodeValueNN, h1, baseOf, hs]

/-! ### packed delta-of-delta -/

theorem readDod2_13 (dod : Int) (td : Nat) (rest : Bits) (h : -4096 ≤ dod ∧ dod ≤ 4095) :
    readDod2 13 td (natToBits (toU dod) 13 ++ rest) = some ((td + toU dod) % two64, rest) := by
  unfold readDod2
  rw [readBits_natToBits]
  have : (if 13 < 64 ∧ toU dod % 2 ^ 13 ≥ 2 ^ (13 - 1) then toU dod % 2 ^ 13 + two64 - 2 ^ 13 else toU dod % 2 ^ 13)
      = toU dod := by
    unfold toU two64; split <;> omega
  simp only [this]

theorem readDod2_20 (dod : Int) (td : Nat) (rest : Bits) (h : -524288 ≤ dod ∧ dod ≤ 524287) :
    readDod2 20 td (natToBits (toU dod) 20 ++ rest) = some ((td + toU dod) % two64, rest) := by
  unfold readDod2
  rw [readBits_natToBits]
  have : (if 20 < 64 ∧ toU dod % 2 ^ 20 ≥ 2 ^ (20 - 1) then toU dod % 2 ^ 20 + two64 - 2 ^ 20 else toU dod % 2 ^ 20)
      = toU dod := by
    unfold toU two64; split <;> omega
  simp only [this]

theorem readDod2_64 (dod : Int) (td : Nat) (rest : Bits) :
    readDod2 64 td (natToBits (toU dod) 64 ++ rest) = some ((td + toU dod) % two64, rest) := by
  unfold readDod2
  rw [readBits_natToBits_lt rest (toU_lt dod)]
  simp

/-- Control prefix + delta-of-delta: what `decTV` sees for a `dod ≠ 0` code. -/
theorem dodBits2_read (dod : Int) (td : Nat) (rest : Bits) :
    ∃ k w, (k = 2 ∨ k = 3 ∨ k = 4) ∧ w = (if k = 2 then 13 else if k = 3 then 20 else 64) ∧
      ∃ body, readPrefix 5 (dodBits2 dod ++ rest) = some (k, body) ∧
        readDod2 w td body = some ((td + toU dod) % two64, rest) := by
  unfold dodBits2
  split
  · next h => exact ⟨2, 13, by simp, by simp, _, by simp [readPrefix], readDod2_13 dod td rest h⟩
  · split
    · next h => exact ⟨3, 20, by simp, by simp, _, by simp [readPrefix], readDod2_20 dod td rest h⟩
    · exact ⟨4, 64, by simp, by simp, _, by simp [readPrefix], readDod2_64 dod td rest⟩

end Prom.ChunkXor2
