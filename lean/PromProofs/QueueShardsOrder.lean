import PromProofs.QueueShardsConserve
/-
  C40 helper: the ordering invariant.  `Ordered log` (log newest first): every entry either repeats an
  earlier entry (a retried batch) or carries a larger WAL position than every earlier entry of the same series.
-/
namespace Prom.QueueShards

def Ordered : List Sample → Prop
  | [] => True
  | y :: older => Ordered older ∧ (y ∈ older ∨ ∀ x, x ∈ older → x.ref = y.ref → x.id < y.id)

def IdsInc (l : List Sample) : Prop := l.Pairwise (fun a b => a.id < b.id)

/-- Delivering a batch (oldest first) whose elements are each either already in the log or newer than
    everything of their series in the log keeps the log ordered. -/
theorem ordered_deliver (B : List Sample) : ∀ (rc : List Sample), Ordered rc → IdsInc B →
    (∀ y, y ∈ B → y ∈ rc ∨ ∀ x, x ∈ rc → x.ref = y.ref → x.id < y.id) → Ordered (B.reverse ++ rc) := by
  induction B with
  | nil => intro rc h _ _; simpa using h
  | cons b bs ih =>
    intro rc h hinc hB
    have hb := hB b List.mem_cons_self
    have hinc' : IdsInc bs := (List.pairwise_cons.mp hinc).2
    have hlt : ∀ y, y ∈ bs → b.id < y.id := (List.pairwise_cons.mp hinc).1
    have : (b :: bs).reverse ++ rc = bs.reverse ++ (b :: rc) := by simp
    rw [this]
    apply ih (b :: rc) ⟨h, hb⟩ hinc'
    intro y hy
    rcases hB y (List.mem_cons_of_mem _ hy) with h1 | h1
    · exact Or.inl (List.mem_cons_of_mem _ h1)
    · right
      intro x hx hr
      rcases List.mem_cons.mp hx with h2 | h2
      · subst h2; exact hlt y hy
      · exact h1 x h2 hr

structure InvC' (n nextId : Nat) (sh : Nat → Shard) (rc : List Sample) : Prop where
  inc : ∀ i, i < n → IdsInc (sh i).pipe
  lt_next : ∀ i, i < n → ∀ y, y ∈ (sh i).pipe → y.id < nextId
  rc_lt_next : ∀ x, x ∈ rc → x.id < nextId
  rest_after : ∀ i, i < n → ∀ y, y ∈ (sh i).rest → ∀ x, x ∈ rc → x.ref = y.ref → x.id < y.id
  infl : ∀ i, i < n → ∀ y, y ∈ (sh i).inflight → y ∈ rc ∨ ∀ x, x ∈ rc → x.ref = y.ref → x.id < y.id
  place : ∀ i, i < n → ∀ y, y ∈ (sh i).pipe → y.ref % n = i
  ordered : Ordered rc

def InvC (s : St) : Prop := InvC' s.n s.nextId s.shards s.received

theorem invC_init (mss cc n : Nat) : InvC (init mss cc n) := by
  refine ⟨?_, ?_, ?_, ?_, ?_, ?_, ?_⟩ <;> simp [init, freshShards, Shard.pipe, Shard.rest, IdsInc, Ordered]

theorem invC_mono {n nx nx' : Nat} {sh : Nat → Shard} {rc : List Sample} (h : InvC' n nx sh rc) (hle : nx ≤ nx') :
    InvC' n nx' sh rc :=
  ⟨h.inc, fun i hi y hy => Nat.lt_of_lt_of_le (h.lt_next i hi y hy) hle,
   fun x hx => Nat.lt_of_lt_of_le (h.rc_lt_next x hx) hle, h.rest_after, h.infl, h.place, h.ordered⟩

/-- Replace shard `i`, log unchanged. -/
theorem invC_upd {n nx : Nat} {sh : Nat → Shard} {rc : List Sample} (h : InvC' n nx sh rc) (i : Nat) (sh' : Shard)
    (hinc : IdsInc sh'.pipe) (hlt : ∀ y, y ∈ sh'.pipe → y.id < nx)
    (hrest : ∀ y, y ∈ sh'.rest → ∀ x, x ∈ rc → x.ref = y.ref → x.id < y.id)
    (hinfl : ∀ y, y ∈ sh'.inflight → y ∈ rc ∨ ∀ x, x ∈ rc → x.ref = y.ref → x.id < y.id)
    (hplace : ∀ y, y ∈ sh'.pipe → y.ref % n = i) : InvC' n nx (upd sh i sh') rc := by
  refine ⟨?_, ?_, h.rc_lt_next, ?_, ?_, ?_, h.ordered⟩
  · intro j hj
    by_cases hji : j = i
    · subst hji; simpa using hinc
    · rw [upd_other _ _ _ _ hji]; exact h.inc j hj
  · intro j hj y hy
    by_cases hji : j = i
    · subst hji; simp only [upd_same] at hy; exact hlt y hy
    · rw [upd_other _ _ _ _ hji] at hy; exact h.lt_next j hj y hy
  · intro j hj y hy
    by_cases hji : j = i
    · subst hji; simp only [upd_same] at hy; exact hrest y hy
    · rw [upd_other _ _ _ _ hji] at hy; exact h.rest_after j hj y hy
  · intro j hj y hy
    by_cases hji : j = i
    · subst hji; simp only [upd_same] at hy; exact hinfl y hy
    · rw [upd_other _ _ _ _ hji] at hy; exact h.infl j hj y hy
  · intro j hj y hy
    by_cases hji : j = i
    · subst hji; simp only [upd_same] at hy; exact hplace y hy
    · rw [upd_other _ _ _ _ hji] at hy; exact h.place j hj y hy

theorem mem_pipe_of_inflight {sh : Shard} {y : Sample} (h : y ∈ sh.inflight) : y ∈ sh.pipe :=
  List.mem_append_left _ h

theorem mem_pipe_of_rest {sh : Shard} {y : Sample} (h : y ∈ sh.rest) : y ∈ sh.pipe :=
  List.mem_append_right _ h

/-- The batch in flight of shard `i` reaches the endpoint; the shard keeps it in flight (`keep`) or not. -/
theorem invC_deliver {n nx : Nat} {sh : Nat → Shard} {rc : List Sample} (h : InvC' n nx sh rc) (i : Nat) (hi : i < n)
    (sh' : Shard) (hrest : sh'.rest = (sh i).rest)
    (hinf : sh'.inflight = [] ∨ sh'.inflight = (sh i).inflight) :
    InvC' n nx (upd sh i sh') ((sh i).inflight.reverse ++ rc) := by
  have hB_inc : IdsInc (sh i).inflight := (List.pairwise_append.mp (h.inc i hi)).1
  have hB_rest : ∀ x, x ∈ (sh i).inflight → ∀ y, y ∈ (sh i).rest → x.id < y.id :=
    fun x hx y hy => (List.pairwise_append.mp (h.inc i hi)).2.2 x hx y hy
  have hpipe' : ∀ y, y ∈ sh'.pipe → y ∈ (sh i).pipe := by
    intro y hy
    rcases List.mem_append.mp hy with h1 | h1
    · rcases hinf with h2 | h2
      · rw [h2] at h1; cases h1
      · rw [h2] at h1; exact mem_pipe_of_inflight h1
    · rw [hrest] at h1; exact mem_pipe_of_rest h1
  have hinc' : IdsInc sh'.pipe := by
    rcases hinf with h2 | h2
    · have : sh'.pipe = (sh i).rest := by simp [Shard.pipe, h2, hrest]
      rw [this]; exact (List.pairwise_append.mp (h.inc i hi)).2.1
    · have : sh'.pipe = (sh i).pipe := by simp [Shard.pipe, h2, hrest]
      rw [this]; exact h.inc i hi
  refine ⟨?_, ?_, ?_, ?_, ?_, ?_, ?_⟩
  · intro j hj
    by_cases hji : j = i
    · subst hji; simpa using hinc'
    · rw [upd_other _ _ _ _ hji]; exact h.inc j hj
  · intro j hj y hy
    by_cases hji : j = i
    · subst hji; simp only [upd_same] at hy; exact h.lt_next j hj y (hpipe' y hy)
    · rw [upd_other _ _ _ _ hji] at hy; exact h.lt_next j hj y hy
  · intro x hx
    rcases List.mem_append.mp hx with h1 | h1
    · exact h.lt_next i hi x (mem_pipe_of_inflight (List.mem_reverse.mp h1))
    · exact h.rc_lt_next x h1
  · intro j hj y hy x hx hr
    rcases List.mem_append.mp hx with h1 | h1
    · have hxB := List.mem_reverse.mp h1
      by_cases hji : j = i
      · subst hji; simp only [upd_same] at hy; rw [hrest] at hy; exact hB_rest x hxB y hy
      · rw [upd_other _ _ _ _ hji] at hy
        have e1 := h.place i hi x (mem_pipe_of_inflight hxB)
        have e2 := h.place j hj y (mem_pipe_of_rest hy)
        rw [hr] at e1; exact absurd (e2.symm.trans e1) hji
    · by_cases hji : j = i
      · subst hji; simp only [upd_same] at hy; rw [hrest] at hy; exact h.rest_after j hj y hy x h1 hr
      · rw [upd_other _ _ _ _ hji] at hy; exact h.rest_after j hj y hy x h1 hr
  · intro j hj y hy
    by_cases hji : j = i
    · subst hji
      simp only [upd_same] at hy
      rcases hinf with h2 | h2
      · rw [h2] at hy; cases hy
      · rw [h2] at hy; exact Or.inl (List.mem_append_left _ (List.mem_reverse.mpr hy))
    · rw [upd_other _ _ _ _ hji] at hy
      rcases h.infl j hj y hy with h3 | h3
      · exact Or.inl (List.mem_append_right _ h3)
      · right
        intro x hx hr
        rcases List.mem_append.mp hx with h1 | h1
        · have hxB := List.mem_reverse.mp h1
          have e1 := h.place i hi x (mem_pipe_of_inflight hxB)
          have e2 := h.place j hj y (mem_pipe_of_inflight hy)
          rw [hr] at e1; exact absurd (e2.symm.trans e1) hji
        · exact h3 x h1 hr
  · intro j hj y hy
    by_cases hji : j = i
    · subst hji; simp only [upd_same] at hy; exact h.place j hj y (hpipe' y hy)
    · rw [upd_other _ _ _ _ hji] at hy; exact h.place j hj y hy
  · exact ordered_deliver _ rc h.ordered hB_inc (h.infl i hi)

theorem step_invC (s : St) (a : Act) (hA : InvA s) (h : InvC s) (hen : enabled s a = true) : InvC (apply s a) := by
  unfold InvC at *
  cases a with
  | storeSeries ref keep => cases keep <;> exact h
  | seriesReset refs => exact h
  | append ref id old =>
    simp only [enabled, St.admits, Bool.and_eq_true, Bool.or_eq_true, decide_eq_true_eq,
      Bool.not_eq_eq_eq_not, Bool.not_true] at hen
    obtain ⟨hid, hen⟩ := hen
    have hm := invC_mono h (Nat.le_succ_of_le hid)
    simp only [apply]
    split
    · exact hm
    · split
      · split <;> exact hm
      · rename_i hold hk
        have hk' : s.kept.contains ref = true := by simpa using hk
        have hold' : old = false := by simpa using hold
        rcases hen with hen | ⟨⟨hn, _⟩, _⟩
        · rw [hold', hk'] at hen; exact absurd hen (by decide)
        · have hlt : ref % s.n < s.n := Nat.mod_lt _ hn
          refine invC_upd hm _ _ ?_ ?_ ?_ ?_ ?_
          · rw [push_pipe]
            refine List.pairwise_append.mpr ⟨h.inc _ hlt, by simp, ?_⟩
            intro a ha b hb
            simp at hb; subst hb
            exact Nat.lt_of_lt_of_le (h.lt_next _ hlt a ha) hid
          · intro y hy
            rw [push_pipe] at hy
            rcases List.mem_append.mp hy with h1 | h1
            · exact hm.lt_next _ hlt y h1
            · simp at h1; subst h1; exact Nat.lt_succ_self _
          · intro y hy x hx hr
            rw [push_rest] at hy
            rcases List.mem_append.mp hy with h1 | h1
            · exact h.rest_after _ hlt y h1 x hx hr
            · simp at h1; subst h1; exact Nat.lt_of_lt_of_le (h.rc_lt_next x hx) hid
          · intro y hy
            rw [push_inflight] at hy
            exact h.infl _ hlt y hy
          · intro y hy
            rw [push_pipe] at hy
            rcases List.mem_append.mp hy with h1 | h1
            · exact h.place _ hlt y h1
            · simp at h1; subst h1; rfl
  | recv i =>
    simp only [enabled, Bool.and_eq_true, decide_eq_true_eq, Bool.not_eq_true', List.isEmpty_iff] at hen
    obtain ⟨⟨⟨hi, _⟩, hin⟩, _⟩ := hen
    simp only [apply]
    split
    · rename_i b rest hch
      have hp : ∀ sh' : Shard, sh'.part = (s.shards i).part → sh'.chan = rest → sh'.inflight = b →
          InvC' s.n s.nextId (upd s.shards i sh') s.received := by
        intro sh' e1 e2 e3
        have hpipe : sh'.pipe = (s.shards i).pipe := by simp [Shard.pipe, Shard.rest, e1, e2, e3, hch, hin]
        have hrestsub : ∀ y, y ∈ sh'.rest → y ∈ (s.shards i).rest := by
          intro y hy; simp only [Shard.rest, e1, e2, hch, List.flatten_cons, List.mem_append] at hy ⊢
          rcases hy with h1 | h1
          · exact Or.inl (Or.inr h1)
          · exact Or.inr h1
        have hinfsub : ∀ y, y ∈ sh'.inflight → y ∈ (s.shards i).rest := by
          intro y hy; rw [e3] at hy
          simp only [Shard.rest, hch, List.flatten_cons, List.mem_append]
          exact Or.inl (Or.inl hy)
        refine invC_upd h i sh' (hpipe ▸ h.inc i hi) (fun y hy => h.lt_next i hi y (hpipe ▸ hy))
          (fun y hy => h.rest_after i hi y (hrestsub y hy))
          (fun y hy => Or.inr (h.rest_after i hi y (hinfsub y hy)))
          (fun y hy => h.place i hi y (hpipe ▸ hy))
      exact hp _ rfl rfl rfl
    · exact h
  | timer i =>
    simp only [enabled, Bool.and_eq_true, decide_eq_true_eq, Bool.not_eq_true', List.isEmpty_iff] at hen
    obtain ⟨⟨hi, _⟩, hin⟩ := hen
    simp only [apply]
    split
    · rename_i b rest hch
      have hp : ∀ sh' : Shard, sh'.part = (s.shards i).part → sh'.chan = rest → sh'.inflight = b →
          InvC' s.n s.nextId (upd s.shards i sh') s.received := by
        intro sh' e1 e2 e3
        have hpipe : sh'.pipe = (s.shards i).pipe := by simp [Shard.pipe, Shard.rest, e1, e2, e3, hch, hin]
        have hrestsub : ∀ y, y ∈ sh'.rest → y ∈ (s.shards i).rest := by
          intro y hy; simp only [Shard.rest, e1, e2, hch, List.flatten_cons, List.mem_append] at hy ⊢
          rcases hy with h1 | h1
          · exact Or.inl (Or.inr h1)
          · exact Or.inr h1
        have hinfsub : ∀ y, y ∈ sh'.inflight → y ∈ (s.shards i).rest := by
          intro y hy; rw [e3] at hy
          simp only [Shard.rest, hch, List.flatten_cons, List.mem_append]
          exact Or.inl (Or.inl hy)
        refine invC_upd h i sh' (hpipe ▸ h.inc i hi) (fun y hy => h.lt_next i hi y (hpipe ▸ hy))
          (fun y hy => h.rest_after i hi y (hrestsub y hy))
          (fun y hy => Or.inr (h.rest_after i hi y (hinfsub y hy)))
          (fun y hy => h.place i hi y (hpipe ▸ hy))
      exact hp _ rfl rfl rfl
    · rename_i hch
      have hp : ∀ sh' : Shard, sh'.part = [] → sh'.chan = (s.shards i).chan → sh'.inflight = (s.shards i).part →
          InvC' s.n s.nextId (upd s.shards i sh') s.received := by
        intro sh' e1 e2 e3
        have hpipe : sh'.pipe = (s.shards i).pipe := by simp [Shard.pipe, Shard.rest, e1, e2, e3, hch, hin]
        have hrestsub : ∀ y, y ∈ sh'.rest → False := by
          intro y hy; simp [Shard.rest, e1, e2, hch] at hy
        have hinfsub : ∀ y, y ∈ sh'.inflight → y ∈ (s.shards i).rest := by
          intro y hy; rw [e3] at hy
          simp only [Shard.rest, List.mem_append]
          exact Or.inr hy
        refine invC_upd h i sh' (hpipe ▸ h.inc i hi) (fun y hy => h.lt_next i hi y (hpipe ▸ hy))
          (fun y hy => (hrestsub y hy).elim)
          (fun y hy => Or.inr (h.rest_after i hi y (hinfsub y hy)))
          (fun y hy => h.place i hi y (hpipe ▸ hy))
      exact hp _ rfl rfl rfl
  | sendOk i =>
    simp only [enabled, Bool.and_eq_true, decide_eq_true_eq, Bool.not_eq_true'] at hen
    obtain ⟨⟨⟨hi, _⟩, _⟩, _⟩ := hen
    simp only [apply]
    exact invC_deliver h i hi _ rfl (Or.inl rfl)
  | sendRecov i reached =>
    simp only [enabled, Bool.and_eq_true, decide_eq_true_eq, Bool.not_eq_true'] at hen
    obtain ⟨⟨⟨hi, _⟩, _⟩, _⟩ := hen
    simp only [apply]
    cases reached with
    | false => exact h
    | true =>
      simp only [if_true]
      exact invC_deliver h i hi _ rfl (Or.inr rfl)
  | sendUnrecov i =>
    simp only [enabled, Bool.and_eq_true, decide_eq_true_eq, Bool.not_eq_true'] at hen
    obtain ⟨⟨⟨hi, _⟩, _⟩, _⟩ := hen
    simp only [apply]
    have hp : ∀ sh' : Shard, sh'.rest = (s.shards i).rest → sh'.inflight = [] →
        InvC' s.n s.nextId (upd s.shards i sh') s.received := by
      intro sh' e1 e2
      have hpipe : sh'.pipe = (s.shards i).rest := by simp [Shard.pipe, e1, e2]
      refine invC_upd h i sh' ?_ ?_ ?_ ?_ ?_
      · rw [hpipe]; exact (List.pairwise_append.mp (h.inc i hi)).2.1
      · intro y hy; rw [hpipe] at hy; exact h.lt_next i hi y (mem_pipe_of_rest hy)
      · intro y hy; rw [e1] at hy; exact h.rest_after i hi y hy
      · intro y hy; rw [e2] at hy; cases hy
      · intro y hy; rw [hpipe] at hy; exact h.place i hi y (mem_pipe_of_rest hy)
    exact hp _ rfl rfl
  | softStop => exact h
  | flush i =>
    simp only [enabled, Bool.and_eq_true, decide_eq_true_eq, Bool.not_eq_true'] at hen
    obtain ⟨⟨⟨⟨hi, _⟩, _⟩, _⟩, _⟩ := hen
    simp only [apply]
    have hp : ∀ sh' : Shard, sh'.rest = (s.shards i).rest → sh'.inflight = (s.shards i).inflight →
        InvC' s.n s.nextId (upd s.shards i sh') s.received := by
      intro sh' e1 e2
      have hpipe : sh'.pipe = (s.shards i).pipe := by simp [Shard.pipe, e1, e2]
      refine invC_upd h i sh' (hpipe ▸ h.inc i hi) (fun y hy => h.lt_next i hi y (hpipe ▸ hy))
        (fun y hy => h.rest_after i hi y (e1 ▸ hy)) (fun y hy => h.infl i hi y (e2 ▸ hy))
        (fun y hy => h.place i hi y (hpipe ▸ hy))
    refine hp _ ?_ rfl
    by_cases hpe : (s.shards i).part = []
    · simp [Shard.rest, hpe]
    · simp [Shard.rest, hpe]
  | exit i =>
    simp only [enabled, Bool.and_eq_true, decide_eq_true_eq, Bool.not_eq_true'] at hen
    obtain ⟨⟨⟨⟨hi, _⟩, _⟩, _⟩, _⟩ := hen
    simp only [apply]
    exact invC_upd h i _ (h.inc i hi) (h.lt_next i hi) (h.rest_after i hi) (h.infl i hi) (h.place i hi)
  | hardStop => exact h
  | hardExit i =>
    simp only [apply]
    refine invC_upd h i _ ?_ ?_ ?_ ?_ ?_ <;> simp [Shard.pipe, Shard.rest, IdsInc]
  | start n =>
    simp only [apply]
    refine ⟨?_, ?_, h.rc_lt_next, ?_, ?_, ?_, h.ordered⟩ <;> simp [freshShards, Shard.pipe, Shard.rest, IdsInc]

/-! ### no duplicates while no request is stored and then answered with an error -/

structure InvD' (n : Nat) (sh : Nat → Shard) (rc : List Sample) : Prop where
  nodup : rc.Nodup
  fresh : ∀ i, i < n → ∀ y, y ∈ (sh i).pipe → y ∉ rc

def InvD (s : St) : Prop := InvD' s.n s.shards s.received

theorem invD_init (mss cc n : Nat) : InvD (init mss cc n) := by
  refine ⟨?_, ?_⟩ <;> simp [init, freshShards, Shard.pipe, Shard.rest]

theorem invD_upd {n : Nat} {sh : Nat → Shard} {rc : List Sample} (h : InvD' n sh rc) (i : Nat) (sh' : Shard)
    (hf : ∀ y, y ∈ sh'.pipe → y ∉ rc) : InvD' n (upd sh i sh') rc := by
  refine ⟨h.nodup, ?_⟩
  intro j hj y hy
  by_cases hji : j = i
  · subst hji; simp only [upd_same] at hy; exact hf y hy
  · rw [upd_other _ _ _ _ hji] at hy; exact h.fresh j hj y hy

theorem nodup_of_idsInc {l : List Sample} (h : IdsInc l) : l.Nodup := by
  unfold IdsInc at h
  unfold List.Nodup
  refine List.Pairwise.imp ?_ h
  intro a b hab e
  subst e
  exact Nat.lt_irrefl _ hab

theorem step_invD (s : St) (a : Act) (hq : ∀ i, a ≠ .sendRecov i true) (hC : InvC s) (h : InvD s)
    (hen : enabled s a = true) : InvD (apply s a) := by
  unfold InvD at *
  unfold InvC at hC
  cases a with
  | storeSeries ref keep => cases keep <;> exact h
  | seriesReset refs => exact h
  | append ref id old =>
    simp only [enabled, St.admits, Bool.and_eq_true, Bool.or_eq_true, decide_eq_true_eq,
      Bool.not_eq_eq_eq_not, Bool.not_true] at hen
    obtain ⟨hid, hen⟩ := hen
    simp only [apply]
    split
    · exact h
    · split
      · split <;> exact h
      · rename_i hold hk
        have hk' : s.kept.contains ref = true := by simpa using hk
        have hold' : old = false := by simpa using hold
        rcases hen with hen | ⟨⟨hn, _⟩, _⟩
        · rw [hold', hk'] at hen; exact absurd hen (by decide)
        · have hlt : ref % s.n < s.n := Nat.mod_lt _ hn
          refine invD_upd h _ _ ?_
          intro y hy hrc
          rw [push_pipe] at hy
          rcases List.mem_append.mp hy with h1 | h1
          · exact h.fresh _ hlt y h1 hrc
          · simp at h1; subst h1
            have := hC.rc_lt_next _ hrc
            simp at this; omega
  | recv i =>
    simp only [enabled, Bool.and_eq_true, decide_eq_true_eq, Bool.not_eq_true', List.isEmpty_iff] at hen
    obtain ⟨⟨⟨hi, _⟩, hin⟩, _⟩ := hen
    simp only [apply]
    split
    · rename_i b rest hch
      refine invD_upd h i _ ?_
      intro y hy
      have : y ∈ (s.shards i).pipe := by
        simp only [Shard.pipe, Shard.rest, hch, hin, List.flatten_cons, List.mem_append, List.nil_append] at hy ⊢
        rcases hy with h1 | h1 | h1
        · exact Or.inl (Or.inl h1)
        · exact Or.inl (Or.inr h1)
        · exact Or.inr h1
      exact h.fresh i hi y this
    · exact h
  | timer i =>
    simp only [enabled, Bool.and_eq_true, decide_eq_true_eq, Bool.not_eq_true', List.isEmpty_iff] at hen
    obtain ⟨⟨hi, _⟩, hin⟩ := hen
    simp only [apply]
    split
    · rename_i b rest hch
      refine invD_upd h i _ ?_
      intro y hy
      have : y ∈ (s.shards i).pipe := by
        simp only [Shard.pipe, Shard.rest, hch, hin, List.flatten_cons, List.mem_append, List.nil_append] at hy ⊢
        rcases hy with h1 | h1 | h1
        · exact Or.inl (Or.inl h1)
        · exact Or.inl (Or.inr h1)
        · exact Or.inr h1
      exact h.fresh i hi y this
    · rename_i hch
      refine invD_upd h i _ ?_
      intro y hy
      have : y ∈ (s.shards i).pipe := by
        simp only [Shard.pipe, Shard.rest, hch, hin, List.flatten_nil, List.mem_append, List.nil_append,
          List.append_nil] at hy ⊢
        exact hy
      exact h.fresh i hi y this
  | sendOk i =>
    simp only [enabled, Bool.and_eq_true, decide_eq_true_eq, Bool.not_eq_true'] at hen
    obtain ⟨⟨⟨hi, _⟩, _⟩, _⟩ := hen
    simp only [apply]
    have hinc := hC.inc i hi
    have hB_inc : IdsInc (s.shards i).inflight := (List.pairwise_append.mp hinc).1
    have hB_rest : ∀ x, x ∈ (s.shards i).inflight → ∀ y, y ∈ (s.shards i).rest → x.id < y.id :=
      fun x hx y hy => (List.pairwise_append.mp hinc).2.2 x hx y hy
    refine ⟨?_, ?_⟩
    · refine List.nodup_append.mpr ⟨(by
        have hn := nodup_of_idsInc hB_inc
        unfold List.Nodup at hn ⊢
        rw [List.pairwise_reverse]
        exact List.Pairwise.imp (fun hab => Ne.symm hab) hn), h.nodup, ?_⟩
      intro a ha b hb e
      subst e
      exact h.fresh i hi a (mem_pipe_of_inflight (List.mem_reverse.mp ha)) hb
    · intro j hj y hy hrc
      rcases List.mem_append.mp hrc with h1 | h1
      · have hyB := List.mem_reverse.mp h1
        by_cases hji : j = i
        · subst hji
          simp only [upd_same, Shard.pipe, List.nil_append] at hy
          exact Nat.lt_irrefl _ (hB_rest y hyB y hy)
        · rw [upd_other _ _ _ _ hji] at hy
          have e1 := hC.place i hi y (mem_pipe_of_inflight hyB)
          have e2 := hC.place j hj y hy
          exact hji (e2.symm.trans e1)
      · by_cases hji : j = i
        · subst hji
          simp only [upd_same, Shard.pipe, List.nil_append] at hy
          exact h.fresh j hj y (mem_pipe_of_rest hy) h1
        · rw [upd_other _ _ _ _ hji] at hy
          exact h.fresh j hj y hy h1
  | sendRecov i reached =>
    cases reached with
    | false => exact h
    | true => exact absurd rfl (hq i)
  | sendUnrecov i =>
    simp only [enabled, Bool.and_eq_true, decide_eq_true_eq, Bool.not_eq_true'] at hen
    obtain ⟨⟨⟨hi, _⟩, _⟩, _⟩ := hen
    simp only [apply]
    refine invD_upd h i _ ?_
    intro y hy
    simp only [Shard.pipe, List.nil_append] at hy
    exact h.fresh i hi y (mem_pipe_of_rest hy)
  | softStop => exact h
  | flush i =>
    simp only [enabled, Bool.and_eq_true, decide_eq_true_eq, Bool.not_eq_true'] at hen
    obtain ⟨⟨⟨⟨hi, _⟩, _⟩, _⟩, _⟩ := hen
    simp only [apply]
    refine invD_upd h i _ ?_
    intro y hy
    have : y ∈ (s.shards i).pipe := by
      by_cases hpe : (s.shards i).part = []
      · simpa [Shard.pipe, Shard.rest, hpe] using hy
      · simpa [Shard.pipe, Shard.rest, hpe] using hy
    exact h.fresh i hi y this
  | exit i =>
    simp only [enabled, Bool.and_eq_true, decide_eq_true_eq, Bool.not_eq_true'] at hen
    obtain ⟨⟨⟨⟨hi, _⟩, _⟩, _⟩, _⟩ := hen
    simp only [apply]
    exact invD_upd h i _ (h.fresh i hi)
  | hardStop => exact h
  | hardExit i =>
    simp only [apply]
    refine invD_upd h i _ ?_
    intro y hy; simp [Shard.pipe, Shard.rest] at hy
  | start n =>
    simp only [apply]
    refine ⟨h.nodup, ?_⟩
    intro j _ y hy; simp [freshShards, Shard.pipe, Shard.rest] at hy

end Prom.QueueShards
