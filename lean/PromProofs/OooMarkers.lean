import PromModel.Tsdb.OooMarkers
/-
  Helper lemmas for the out-of-order marker clause of C04 (PromProps/C04.lean): the replay of the WBL written by
  `run` mirrors the writer, chunk by chunk, for every marker predicate that is honoured exactly for the
  surviving chunks; `honourReal (lastRef kept)` is such a predicate when `kept` is a prefix of the chunks
  in reference order.
-/
namespace Prom.OooMarkers

theorem Ref.lt_iff (a b : Ref) : a.lt b = true ↔ a.1 < b.1 ∨ (a.1 = b.1 ∧ a.2 < b.2) := by
  simp [Ref.lt]

theorem honourReal_iff (last m : Ref) :
    honourReal last m = true ↔ ¬ (last.1 < m.1 ∨ (m.1 = last.1 ∧ last.2 < m.2)) := by
  simp [honourReal]
  omega

/-- The marker predicate "reference 0, or the chunk survived". -/
def honourSurv (surv : Ref → Bool) (m : Ref) : Bool := m == (0, 0) || surv m

/-! ### Replay mirrors the writer -/

theorem replay_append (cap : Nat) (hn : Ref → Bool) (a b : List WRec) :
    replay cap hn (a ++ b) = b.foldl (rStep cap hn) (replay cap hn a) := by
  simp [replay, List.foldl_append]

structure Mirror (cap : Nat) (surv : Ref → Bool) (w : Writer) : Prop where
  next_pos : 1 ≤ w.next.1
  head : (replay cap (honourSurv surv) w.wbl).head = w.head
  remapped : (replay cap (honourSurv surv) w.wbl).remapped =
    (w.disk.filter fun c => !surv c.ref).filterMap (·.ooo)

theorem Mirror.init (cap : Nat) (surv : Ref → Bool) : Mirror cap surv {} := by
  constructor <;> simp [replay]

theorem Mirror.next {cap : Nat} {surv : Ref → Bool} {w : Writer} (h : Mirror cap surv w) (op : Op) :
    Mirror cap surv (step cap w op) := by
  obtain ⟨hp, hh, hr⟩ := h
  cases op with
  | insert x =>
    unfold Prom.OooMarkers.step
    by_cases h0 : w.head = []
    · simp only [h0, if_true]
      refine ⟨hp, ?_, ?_⟩
      · rw [replay_append]
        simp [rStep, honourSurv, rInsert]
      · rw [replay_append]
        simp [rStep, honourSurv, rInsert, hr]
    · simp only [h0, if_false]
      by_cases hc : w.head.length = cap
      · simp only [hc, if_true]
        have hne : (w.next == ((0, 0) : Ref)) = false := by
          apply beq_false_of_ne
          intro e
          rw [e] at hp
          simp at hp
        refine ⟨hp, ?_, ?_⟩
        · rw [replay_append]
          cases hs : surv w.next <;>
            simp [rStep, honourSurv, rInsert, hne, hs, hh, h0, hc]
        · rw [replay_append]
          cases hs : surv w.next <;>
            simp [rStep, honourSurv, rInsert, hne, hs, hh, h0, hc, hr, List.filter_append, List.filterMap_append]
      · simp only [hc, if_false]
        refine ⟨hp, ?_, ?_⟩
        · rw [replay_append]
          simp [rStep, rInsert, hh, h0, hc]
        · rw [replay_append]
          simp [rStep, rInsert, hh, h0, hc, hr]
  | other len =>
    unfold Prom.OooMarkers.step
    refine ⟨hp, hh, ?_⟩
    simp only [hr, List.filter_append, List.filterMap_append]
    cases hs : surv w.next <;> simp [List.filter, hs]
  | newFile =>
    unfold Prom.OooMarkers.step
    exact ⟨by simp, hh, hr⟩

theorem Mirror.fold {cap : Nat} {surv : Ref → Bool} (ops : List Op) {w : Writer} (h : Mirror cap surv w) :
    Mirror cap surv (ops.foldl (step cap) w) := by
  induction ops generalizing w with
  | nil => exact h
  | cons op ops ih => exact ih (h.next op)

theorem mirror_run (cap : Nat) (surv : Ref → Bool) (ops : List Op) : Mirror cap surv (run cap ops) :=
  Mirror.fold ops (Mirror.init cap surv)

/-! ### What was inserted is in the chunks written and the head chunk -/

def Writer.content (w : Writer) : List Nat := (w.disk.filterMap (·.ooo)).flatten ++ w.head

theorem content_step (cap : Nat) (w : Writer) (op : Op) (x : Nat) :
    x ∈ (step cap w op).content ↔ x ∈ w.content ∨ Op.insert x = op := by
  cases op with
  | insert y =>
    unfold Prom.OooMarkers.step
    by_cases h0 : w.head = []
    · simp [h0, Writer.content]
    · by_cases hc : w.head.length = cap
      · simp [h0, hc, Writer.content, List.filterMap_append, or_assoc]
      · simp [h0, hc, Writer.content, or_assoc]
  | other len => simp [Prom.OooMarkers.step, Writer.content, List.filterMap_append]
  | newFile => simp [Prom.OooMarkers.step, Writer.content]

theorem content_foldl (cap : Nat) (ops : List Op) (w : Writer) (x : Nat) :
    x ∈ (ops.foldl (step cap) w).content ↔ x ∈ w.content ∨ x ∈ inserted ops := by
  induction ops generalizing w with
  | nil => simp [inserted]
  | cons op ops ih =>
    rw [List.foldl_cons, ih, content_step]
    have : x ∈ inserted (op :: ops) ↔ Op.insert x = op ∨ x ∈ inserted ops := by
      cases op <;> simp [inserted, eq_comm]
    rw [this]
    constructor
    · rintro ((h | h) | h) <;> simp [h]
    · rintro (h | h | h) <;> simp [h]

theorem content_run (cap : Nat) (ops : List Op) (x : Nat) :
    x ∈ (run cap ops).content ↔ x ∈ inserted ops := by
  unfold run
  rw [content_foldl]
  simp [Writer.content]

/-! ### References grow; markers point at chunks written -/

structure Sorted (w : Writer) : Prop where
  next_pos : 1 ≤ w.next.1
  below : ∀ c ∈ w.disk, c.ref.lt w.next = true
  pos : ∀ c ∈ w.disk, 1 ≤ c.ref.1
  pairwise : w.disk.Pairwise fun a b => a.ref.lt b.ref = true
  markers : ∀ m, WRec.marker m ∈ w.wbl → m = (0, 0) ∨ ∃ c ∈ w.disk, c.ref = m

theorem Sorted.init : Sorted {} := by
  constructor <;> simp

theorem Sorted.next {cap : Nat} {w : Writer} (h : Sorted w) (op : Op) : Sorted (step cap w op) := by
  obtain ⟨hp, hb, hpos, hpw, hm⟩ := h
  have grow : ∀ (n : Nat) (c : Chunk), c.ref.lt w.next = true → c.ref.lt (w.next.1, w.next.2 + chunkSize n) = true := by
    intro n c hc
    rw [Ref.lt_iff] at hc ⊢
    simp only
    omega
  have self : ∀ n : Nat, w.next.lt (w.next.1, w.next.2 + chunkSize n) = true := by
    intro n
    rw [Ref.lt_iff]
    refine Or.inr ⟨rfl, ?_⟩
    show w.next.2 < w.next.2 + chunkSize n
    unfold chunkSize
    omega
  have app : ∀ o, (w.disk ++ [(⟨w.next, o⟩ : Chunk)]).Pairwise fun a b : Chunk => a.ref.lt b.ref = true := by
    intro o
    rw [List.pairwise_append]
    refine ⟨hpw, by simp, ?_⟩
    intro a ha b hb'
    simp at hb'
    subst hb'
    exact hb a ha
  cases op with
  | insert x =>
    unfold Prom.OooMarkers.step
    by_cases h0 : w.head = []
    · simp only [h0, if_true]
      refine ⟨hp, hb, hpos, hpw, ?_⟩
      intro m hmem
      simp at hmem
      rcases hmem with hmem | hmem
      · exact hm m hmem
      · exact Or.inl hmem
    · simp only [h0, if_false]
      by_cases hc : w.head.length = cap
      · simp only [hc, if_true]
        refine ⟨hp, ?_, ?_, app _, ?_⟩
        · intro c hcm
          simp at hcm
          rcases hcm with hcm | hcm
          · exact grow _ c (hb c hcm)
          · subst hcm; exact self _
        · intro c hcm
          simp at hcm
          rcases hcm with hcm | hcm
          · exact hpos c hcm
          · subst hcm; exact hp
        · intro m hmem
          simp at hmem
          rcases hmem with hmem | hmem
          · rcases hm m hmem with h1 | ⟨c, hc1, hc2⟩
            · exact Or.inl h1
            · exact Or.inr ⟨c, by simp [hc1], hc2⟩
          · exact Or.inr ⟨⟨w.next, some w.head⟩, by simp, hmem.symm⟩
      · simp only [hc, if_false]
        refine ⟨hp, hb, hpos, hpw, ?_⟩
        intro m hmem
        simp at hmem
        exact hm m hmem
  | other len =>
    unfold Prom.OooMarkers.step
    refine ⟨hp, ?_, ?_, app _, ?_⟩
    · intro c hcm
      simp at hcm
      rcases hcm with hcm | hcm
      · exact grow _ c (hb c hcm)
      · subst hcm; exact self _
    · intro c hcm
      simp at hcm
      rcases hcm with hcm | hcm
      · exact hpos c hcm
      · subst hcm; exact hp
    · intro m hmem
      rcases hm m hmem with h1 | ⟨c, hc1, hc2⟩
      · exact Or.inl h1
      · exact Or.inr ⟨c, by simp [hc1], hc2⟩
  | newFile =>
    unfold Prom.OooMarkers.step
    refine ⟨by simp, ?_, hpos, hpw, hm⟩
    intro c hcm
    have := hb c hcm
    rw [Ref.lt_iff] at this ⊢
    simp only
    omega

theorem Sorted.fold {cap : Nat} (ops : List Op) {w : Writer} (h : Sorted w) :
    Sorted (ops.foldl (step cap) w) := by
  induction ops generalizing w with
  | nil => exact h
  | cons op ops ih => exact ih (h.next op)

theorem sorted_run (cap : Nat) (ops : List Op) : Sorted (run cap ops) := Sorted.fold ops Sorted.init

/-! ### `lastMmapRef` against a prefix of the chunks -/

theorem pairwise_getLast {α : Type} {R : α → α → Prop} {l : List α} (h : l.Pairwise R) {x y : α}
    (hy : l.getLast? = some y) (hx : x ∈ l) : x = y ∨ R x y := by
  obtain ⟨init, rfl⟩ : ∃ init, l = init ++ [y] := List.getLast?_eq_some_iff.mp hy
  rw [List.pairwise_append] at h
  simp at hx
  rcases hx with hx | hx
  · exact Or.inr (h.2.2 x hx y (by simp))
  · exact Or.inl hx

/-- For chunks in reference order, kept up to `cutoff`: the comparison of `loadWBL` against the last kept chunk
    honours exactly the markers of the kept chunks. -/
theorem honourReal_prefix {disk : List Chunk} (hpw : disk.Pairwise fun a b => a.ref.lt b.ref = true)
    (hpos : ∀ c ∈ disk, 1 ≤ c.ref.1) (cutoff : Ref) {c : Chunk} (hc : c ∈ disk) :
    honourReal (lastRef (keepBefore cutoff disk)) c.ref = c.ref.lt cutoff := by
  have hkpw : (keepBefore cutoff disk).Pairwise fun a b => a.ref.lt b.ref = true := hpw.filter _
  cases hl : (keepBefore cutoff disk).getLast? with
  | none =>
    have hnil : keepBefore cutoff disk = [] := List.getLast?_eq_none_iff.mp hl
    have hnot : c.ref.lt cutoff = false := by
      cases hlt : c.ref.lt cutoff with
      | false => rfl
      | true =>
        have : c ∈ keepBefore cutoff disk := by simp [keepBefore, hc, hlt]
        rw [hnil] at this
        simp at this
    have h1 := hpos c hc
    rw [hnot]
    simp only [lastRef, hl, Option.map_none, Option.getD_none]
    cases hh : honourReal (0, 0) c.ref with
    | false => rfl
    | true =>
      rw [honourReal_iff] at hh
      simp only at hh
      omega
  | some y =>
    have hy : y ∈ keepBefore cutoff disk := List.mem_of_getLast? hl
    have hycut : y.ref.lt cutoff = true := by
      simp [keepBefore] at hy
      exact hy.2
    simp only [lastRef, hl, Option.map_some, Option.getD_some]
    cases hlt : c.ref.lt cutoff with
    | true =>
      have hck : c ∈ keepBefore cutoff disk := by simp [keepBefore, hc, hlt]
      rw [honourReal_iff]
      rcases pairwise_getLast hkpw hl hck with h | h
      · subst h; omega
      · rw [Ref.lt_iff] at h; omega
    | false =>
      cases hh : honourReal y.ref c.ref with
      | false => rfl
      | true =>
        exfalso
        rw [honourReal_iff] at hh
        rw [Ref.lt_iff] at hycut
        have hlt' : ¬ (c.ref.1 < cutoff.1 ∨ (c.ref.1 = cutoff.1 ∧ c.ref.2 < cutoff.2)) := by
          rw [← Ref.lt_iff, hlt]; simp
        omega

/-! ### Replay depends on the marker predicate only through the markers present -/

theorem foldl_rStep_congr (cap : Nat) (h1 h2 : Ref → Bool) (wbl : List WRec)
    (h : ∀ m, WRec.marker m ∈ wbl → h1 m = h2 m) (r : Replay) :
    wbl.foldl (rStep cap h1) r = wbl.foldl (rStep cap h2) r := by
  induction wbl generalizing r with
  | nil => rfl
  | cons rec rest ih =>
    have hrec : rStep cap h1 r rec = rStep cap h2 r rec := by
      cases rec with
      | samples xs => rfl
      | marker m => simp [rStep, h m (by simp)]
    rw [List.foldl_cons, List.foldl_cons, hrec]
    exact ih (fun m hm => h m (by simp [hm])) _

end Prom.OooMarkers
