import PromModel.Tsdb.HistLayout
import PromProofs.HistIdx
import PromProofs.HistIdxBoth
/-
  The insert lists of `expandSpansBothWays` have strictly increasing positions.
-/
namespace Prom.Hist

/-- finished inserts (newest first) have strictly decreasing positions, all below `p` -/
def InsBelow (f : List Insert) (p : Nat) : Prop :=
  (f.map (·.pos)).Pairwise (· > ·) ∧ ∀ x ∈ f, x.pos < p

theorem InsBelow.mono {f : List Insert} {p : Nat} (h : InsBelow f p) : InsBelow f (p + 1) :=
  ⟨h.1, fun x hx => Nat.lt_succ_of_lt (h.2 x hx)⟩

theorem InsBelow.push {f : List Insert} {p : Nat} (h : InsBelow f p) (n : Nat) (bi : Int) :
    InsBelow (⟨p, n, bi⟩ :: f) (p + 1) := by
  constructor
  · simp only [List.map_cons, List.pairwise_cons, List.mem_map]
    refine ⟨?_, h.1⟩
    rintro q ⟨x, hx, rfl⟩
    exact h.2 x hx
  · intro x hx
    simp only [List.mem_cons] at hx
    rcases hx with rfl | hx
    · exact Nat.lt_succ_self _
    · exact Nat.lt_succ_of_lt (h.2 x hx)

theorem BW.insBelow_flushF (s : BW) (h : InsBelow s.f s.fPos) : InsBelow s.flushF.f (s.fPos + 1) := by
  unfold BW.flushF; split
  · exact h.push _ _
  · exact h.mono

theorem BW.insBelow_flushB (s : BW) (h : InsBelow s.b s.bPos) : InsBelow s.flushB.b (s.bPos + 1) := by
  unfold BW.flushB; split
  · exact h.push _ _
  · exact h.mono

theorem bothGo_sorted (A B : List Int) (s : BW) (hf : InsBelow s.f s.fPos) (hb : InsBelow s.b s.bPos) :
    ((bothGo A B s).f.map (·.pos)).Pairwise (· > ·) ∧ ((bothGo A B s).b.map (·.pos)).Pairwise (· > ·) := by
  fun_induction bothGo A B s with
  | case1 a bv b s s1 ih =>
    exact ih (by simpa [s1] using s.insBelow_flushF hf)
      (by simpa [s1] using s.flushF.insBelow_flushB (by simpa using hb))
  | case2 av a bv b s hne hlt s1 ih =>
    exact ih (by simpa [s1] using BW.insBelow_flushF { s with bNum := s.bNum + 1 } hf)
      (by simpa [s1] using hb)
  | case3 av a bv b s hne hlt s1 ih =>
    exact ih (by simpa [s1] using hf)
      (by simpa [s1] using BW.insBelow_flushB { s with fNum := s.fNum + 1 } hb)
  | case4 av a s ih => exact ih (by simpa using hf) (by simpa using hb)
  | case5 bv b s ih => exact ih (by simpa using hf) (by simpa using hb)
  | case6 s =>
    constructor
    · simpa using (s.insBelow_flushF hf).1
    · exact (s.flushF.insBelow_flushB (by simpa using hb)).1

/-- the insert lists of `expandSpansBothWays` have strictly increasing positions -/
theorem expandBoth_pos_sorted (a b : List Span) :
    ((expandBoth a b).1.map (·.pos)).Pairwise (· < ·) ∧ ((expandBoth a b).2.1.map (·.pos)).Pairwise (· < ·) := by
  have h0 : InsBelow [] 0 := ⟨by simp, by simp⟩
  have h := bothGo_sorted (idxs a) (idxs b) BW.init h0 h0
  constructor
  · have := h.1
    simp only [expandBoth, List.map_reverse, List.pairwise_reverse]
    exact this
  · have := h.2
    simp only [expandBoth, List.map_reverse, List.pairwise_reverse]
    exact this

end Prom.Hist
