import PromModel.Prelude.GoHeap
/-
  Go's container/heap (as transcribed in `Prom.GoHeap`) implements the abstract priority-queue
  contract: `push`/`pop` preserve the contents as a multiset and the heap shape, and `pop` returns an
  element that no remaining element is smaller than.
-/
namespace Prom.GoHeap
variable {α : Type}

/-- what the proofs need of the "less" test: asymmetric, and `≤ := ¬ >` is transitive -/
structure StrictWeak (lt : α → α → Bool) : Prop where
  asymm : ∀ a b, lt a b = true → lt b a = false
  trans : ∀ a b c, lt b a = false → lt c b = false → lt c a = false

theorem StrictWeak.irrefl {lt : α → α → Bool} (sw : StrictWeak lt) (a : α) : lt a a = false := by
  cases h : lt a a with
  | false => rfl
  | true => have := sw.asymm a a h; simp_all

/-- the first `n` slots form a binary min-heap: no child is smaller than its parent -/
def IsHeap (lt : α → α → Bool) (a : Array α) (n : Nat) : Prop :=
  ∀ k (hk : k < a.size), 0 < k → k < n → lt a[k] (a[(k - 1) / 2]'(by omega)) = false

@[simp] theorem size_up (lt : α → α → Bool) : ∀ fuel (a : Array α) j, (up lt fuel a j).size = a.size := by
  intro fuel
  induction fuel with
  | zero => intros; rfl
  | succ f ih =>
    intro a j
    simp only [up]
    split
    · rfl
    · split
      · split
        · rw [ih]; simp
        · rfl
      · rfl

@[simp] theorem size_down (lt : α → α → Bool) : ∀ fuel (a : Array α) i n, (down lt fuel a i n).size = a.size := by
  intro fuel
  induction fuel with
  | zero => intros; rfl
  | succ f ih =>
    intro a i n
    simp only [down]
    split
    · split
      · split
        · rw [ih]; simp
        · rfl
      · rfl
    · rfl

theorem perm_up (lt : α → α → Bool) : ∀ fuel (a : Array α) j, (up lt fuel a j).Perm a := by
  intro fuel
  induction fuel with
  | zero => intros; exact .rfl
  | succ f ih =>
    intro a j
    simp only [up]
    split
    · exact .rfl
    · split
      · split
        · exact (ih _ _).trans (Array.swap_perm _ _)
        · exact .rfl
      · exact .rfl

theorem perm_down (lt : α → α → Bool) : ∀ fuel (a : Array α) i n, (down lt fuel a i n).Perm a := by
  intro fuel
  induction fuel with
  | zero => intros; exact .rfl
  | succ f ih =>
    intro a i n
    simp only [down]
    split
    · split
      · split
        · exact (ih _ _ _).trans (Array.swap_perm _ _)
        · exact .rfl
      · exact .rfl
    · exact .rfl

/-- `up` repairs a heap that is broken only between `j` and its parent. -/
theorem up_spec {lt : α → α → Bool} (sw : StrictWeak lt) : ∀ fuel (a : Array α) j, j < fuel → (hj : j < a.size) →
    (∀ k (hk : k < a.size), 0 < k → k ≠ j → lt a[k] (a[(k - 1) / 2]'(by omega)) = false) →
    (∀ k (hk : k < a.size), 0 < k → (k - 1) / 2 = j → 0 < j → lt a[k] (a[(j - 1) / 2]'(by omega)) = false) →
    IsHeap lt (up lt fuel a j) a.size := by
  intro fuel
  induction fuel with
  | zero => intro a j h; omega
  | succ f ih =>
    intro a j hf hj h1 h2
    simp only [up]
    split
    · -- j = 0
      rename_i h0
      intro k hk hk0 _
      exact h1 k hk hk0 (by omega)
    · rename_i hne
      have hi : (j - 1) / 2 < a.size := by omega
      rw [dif_pos ⟨hj, hi⟩]
      split
      · rename_i hlt
        have hsz : (a.swap ((j - 1) / 2) j hi hj).size = a.size := by simp
        have := ih (a.swap ((j - 1) / 2) j hi hj) ((j - 1) / 2) (by omega) (by simp; omega) ?_ ?_
        · rw [hsz] at this; exact this
        · intro k hk hk0 hkne
          have hk' : k < a.size := by simpa using hk
          simp only [Array.getElem_swap]
          by_cases hkj : k = j
          · subst hkj
            simp [Ne.symm hne]
            exact sw.asymm _ _ hlt
          · by_cases hpk : (k - 1) / 2 = j
            · -- k is a child of j
              have : k ≠ (j - 1) / 2 := by omega
              simp [hkne, hkj, hpk, Ne.symm hne]
              have := h2 k hk' hk0 hpk (by omega)
              simpa using this
            · by_cases hpi : (k - 1) / 2 = (j - 1) / 2
              · -- sibling of j
                simp [hkne, hkj, hpi]
                have hk1 := h1 k hk' hk0 hkj
                simp only [hpi] at hk1
                exact sw.trans _ _ _ (sw.asymm _ _ hlt) hk1
              · simp [hkne, hkj, hpi, hpk]
                exact h1 k hk' hk0 hkj
        · intro k hk hk0 hpk hi0
          have hk' : k < a.size := by simpa using hk
          have hpp : (((j - 1) / 2 - 1) / 2) ≠ (j - 1) / 2 := by omega
          have hpp' : (((j - 1) / 2 - 1) / 2) ≠ j := by omega
          have hki : k ≠ (j - 1) / 2 := by omega
          simp only [Array.getElem_swap]
          simp [hpp, hpp', hki]
          have hgi := h1 ((j - 1) / 2) hi hi0 (by omega)
          by_cases hkj : k = j
          · subst hkj; simpa using hgi
          · simp [hkj]
            have hk1 := h1 k hk' hk0 hkj
            simp only [hpk] at hk1
            exact sw.trans _ _ _ hgi hk1
      · rename_i hnlt
        intro k hk hk0 _
        by_cases hkj : k = j
        · subst hkj; simpa using hnlt
        · exact h1 k hk hk0 hkj

theorem isHeap_push {lt : α → α → Bool} (sw : StrictWeak lt) (a : Array α) (x : α)
    (h : IsHeap lt a a.size) : IsHeap lt (push lt a x) (push lt a x).size := by
  unfold push
  have := up_spec sw (a.size + 1) (a.push x) a.size (by omega) (by simp) ?_ ?_
  · simpa using this
  · intro k hk hk0 hkne
    have hk' : k < a.size := by simp at hk; omega
    have := h k hk' hk0 hk'
    simpa [Array.getElem_push, hk', show (k - 1) / 2 < a.size by omega] using this
  · intro k hk hk0 hpk _
    simp at hk; omega

theorem perm_push (lt : α → α → Bool) (a : Array α) (x : α) : (push lt a x).Perm (a.push x) :=
  perm_up _ _ _ _

theorem child_spec {lt : α → α → Bool} (sw : StrictWeak lt) (a : Array α) (i n : Nat)
    (h1 : 2 * i + 1 < n) (hn : n ≤ a.size) :
    (child lt a i n = 2 * i + 1 ∨ child lt a i n = 2 * i + 2) ∧ child lt a i n < n ∧
    ∀ k (hk : k < a.size), k < n → 0 < k → (k - 1) / 2 = i →
      lt a[k] (a[child lt a i n]'(by unfold child; split <;> (try split) <;> omega)) = false := by
  unfold child
  split
  · rename_i h2
    split
    · rename_i hlt
      refine ⟨Or.inr rfl, h2.1, ?_⟩
      intro k hk hkn hk0 hp
      have : k = 2 * i + 1 ∨ k = 2 * i + 2 := by omega
      rcases this with rfl | rfl
      · exact sw.asymm _ _ hlt
      · exact sw.irrefl _
    · rename_i hnlt
      refine ⟨Or.inl rfl, h1, ?_⟩
      intro k hk hkn hk0 hp
      have : k = 2 * i + 1 ∨ k = 2 * i + 2 := by omega
      rcases this with rfl | rfl
      · exact sw.irrefl _
      · simpa using hnlt
  · rename_i h2
    refine ⟨Or.inl rfl, h1, ?_⟩
    intro k hk hkn hk0 hp
    have : k = 2 * i + 1 := by omega
    subst this
    exact sw.irrefl _

/-- `down` repairs a heap (on the first `n` slots) that is broken only between `i` and its children,
    and leaves the slots from `n` on untouched. -/
theorem down_spec {lt : α → α → Bool} (sw : StrictWeak lt) : ∀ fuel (a : Array α) i n, n ≤ i + fuel → n ≤ a.size → (hi : i < a.size) →
    (∀ k (hk : k < a.size), k < n → 0 < k → (k - 1) / 2 ≠ i → lt a[k] (a[(k - 1) / 2]'(by omega)) = false) →
    (∀ k (hk : k < a.size), k < n → 0 < k → (k - 1) / 2 = i → 0 < i → lt a[k] (a[(i - 1) / 2]'(by omega)) = false) →
    IsHeap lt (down lt fuel a i n) n ∧
    ∀ m (hm : m < a.size), n ≤ m → (down lt fuel a i n)[m]'(by simpa using hm) = a[m] := by
  intro fuel
  induction fuel with
  | zero =>
    intro a i n hf hn hi h1 h2
    refine ⟨?_, fun m hm _ => rfl⟩
    intro k hk hk0 hkn
    exact h1 k hk hkn hk0 (by omega)
  | succ f ih =>
    intro a i n hf hn hi h1 h2
    simp only [down]
    split
    · rename_i hc
      obtain ⟨hcv, hcn, hcmin⟩ := child_spec sw a i n hc.1 hn
      have hcs : child lt a i n < a.size := by omega
      have his : i < a.size := hi
      simp only [dif_pos (show child lt a i n < a.size ∧ i < a.size from ⟨hcs, his⟩)]
      split
      · rename_i hlt
        have hic : i ≠ child lt a i n := by omega
        have := ih (a.swap i (child lt a i n) his hcs) (child lt a i n) n (by omega) (by simpa using hn) (by simpa using hcs) ?_ ?_
        · refine ⟨this.1, ?_⟩
          intro m hm hnm
          rw [this.2 m (by simpa using hm) hnm]
          simp only [Array.getElem_swap]
          have : m ≠ i := by omega
          have : m ≠ child lt a i n := by omega
          simp [*]
        · intro k hk hkn hk0 hpk
          have hk' : k < a.size := by simpa using hk
          simp only [Array.getElem_swap]
          by_cases hkc : k = child lt a i n
          · have hp : (k - 1) / 2 = i := by omega
            simp [hkc, Ne.symm hic, hp ▸ hkc ▸ hp]
            have : (child lt a i n - 1) / 2 = i := by omega
            simp [this]
            exact sw.asymm _ _ hlt
          · by_cases hki : k = i
            · subst hki
              have hpi : (k - 1) / 2 ≠ k := by omega
              have hpc : (k - 1) / 2 ≠ child lt a k n := by omega
              simp [hkc, hpi, hpc]
              have := h2 (child lt a k n) hcs hcn (by omega) (by omega) hk0
              simpa using this
            · by_cases hp : (k - 1) / 2 = i
              · simp [hkc, hki, hp]
                exact hcmin k hk' hkn hk0 hp
              · simp [hkc, hki, hp, hpk]
                exact h1 k hk' hkn hk0 hp
        · intro k hk hkn hk0 hpk hc0
          have hk' : k < a.size := by simpa using hk
          have hpc : (child lt a i n - 1) / 2 = i := by omega
          have hki : k ≠ i := by omega
          have hkc : k ≠ child lt a i n := by omega
          simp only [Array.getElem_swap]
          simp [hpc, hki, hkc]
          have := h1 k hk' hkn hk0 (by omega)
          simpa [hpk] using this
      · rename_i hnlt
        refine ⟨?_, fun m hm _ => rfl⟩
        intro k hk hk0 hkn
        by_cases hp : (k - 1) / 2 = i
        · have hkc := hcmin k hk hkn hk0 hp
          simp only [hp]
          exact sw.trans _ _ _ (by simpa using hnlt) hkc
        · exact h1 k hk hkn hk0 hp
    · rename_i hc
      refine ⟨?_, fun m hm _ => rfl⟩
      intro k hk hk0 hkn
      exact h1 k hk hkn hk0 (by omega)

theorem root_min {lt : α → α → Bool} (sw : StrictWeak lt) (a : Array α) (h : IsHeap lt a a.size) :
    ∀ k (hk : k < a.size), lt a[k] (a[0]'(by omega)) = false := by
  intro k
  induction k using Nat.strongRecOn with
  | _ k ih =>
    intro hk
    by_cases hk0 : k = 0
    · subst hk0; exact sw.irrefl _
    · have h1 := h k hk (by omega) hk
      have h2 := ih ((k - 1) / 2) (by omega) (by omega)
      exact sw.trans _ _ _ h2 h1

/-- `heap.Pop` on a non-empty heap returns the root, which no element is smaller than; the rest is
    a heap holding exactly the other elements. -/
theorem pop_spec {lt : α → α → Bool} (sw : StrictWeak lt) (a : Array α) (h : IsHeap lt a a.size)
    (hpos : 0 < a.size) :
    ∃ a', pop lt a = some (a[0], a') ∧ IsHeap lt a' a'.size ∧ (a'.push a[0]).Perm a ∧
      ∀ y ∈ a, lt y a[0] = false := by
  have hmin : ∀ y ∈ a, lt y a[0] = false := by
    intro y hy
    obtain ⟨k, hk, rfl⟩ := Array.getElem_of_mem hy
    exact root_min sw a h k hk
  unfold pop
  rw [dif_pos hpos]
  have hd := down_spec sw (a.size + 1) (a.swap 0 (a.size - 1) hpos (by omega)) 0 (a.size - 1)
    (by omega) (by simp) (by simpa using hpos) ?_ ?_
  · obtain ⟨hh, hfix⟩ := hd
    have hlast := hfix (a.size - 1) (by simp; omega) (Nat.le_refl _)
    simp only [Array.getElem_swap] at hlast
    have hback : (down lt (a.size + 1) (a.swap 0 (a.size - 1) hpos (by omega)) 0 (a.size - 1)).back? = some a[0] := by
      rw [Array.back?_eq_getElem?]
      simp only [size_down, Array.size_swap]
      rw [Array.getElem?_eq_getElem (by simp; omega)]
      rw [hlast]
      by_cases h0 : a.size - 1 = 0 <;> simp [h0]
    simp only [hback]
    refine ⟨_, rfl, ?_, ?_, hmin⟩
    · intro k hk hk0 hkn
      simp only [Array.size_pop, size_down, Array.size_swap] at hk hkn
      have := hh k (by simp; omega) hk0 hk
      simpa [Array.getElem_pop] using this
    · have hp := (perm_down lt (a.size + 1) (a.swap 0 (a.size - 1) hpos (by omega)) 0 (a.size - 1)).trans
        (Array.swap_perm hpos (by omega))
      refine Array.Perm.trans ?_ hp
      have := Array.back?_eq_some_iff.mp hback
      obtain ⟨ys, hys⟩ := this
      rw [hys]; simp
  · intro k hk hkn hk0 hp
    have hk' : k < a.size := by simpa using hk
    simp only [Array.getElem_swap]
    have : k ≠ 0 := by omega
    have : k ≠ a.size - 1 := by omega
    have : (k - 1) / 2 ≠ 0 := hp
    have : (k - 1) / 2 ≠ a.size - 1 := by omega
    simp [*]
    exact h k hk' hk0 hk'
  · intro k hk hkn hk0 hp h0
    omega

end Prom.GoHeap
