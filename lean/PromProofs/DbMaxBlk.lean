import PromProofs.DbWal
/-
  `maxBlk` (largest block maxt, `MinInt64` without blocks) and replay independence of the base.
-/
namespace Prom.Db
open Prom.Intervals

theorem maxBlk_fold_le (bs : List Block) (m M : Int) :
    bs.foldl (fun m b => max m b.maxt) m ≤ M ↔ m ≤ M ∧ ∀ b ∈ bs, b.maxt ≤ M := by
  induction bs generalizing m with
  | nil => simp
  | cons b bs ih =>
    rw [List.foldl_cons, ih]
    simp only [List.mem_cons, forall_eq_or_imp]
    constructor
    · rintro ⟨h1, h2⟩; exact ⟨by omega, by omega, h2⟩
    · rintro ⟨h1, h2, h3⟩; exact ⟨by omega, h3⟩

theorem maxBlk_le_iff (bs : List Block) (M : Int) :
    maxBlk bs ≤ M ↔ MinI64 ≤ M ∧ ∀ b ∈ bs, b.maxt ≤ M := maxBlk_fold_le bs MinI64 M

theorem maxBlk_ge (bs : List Block) : MinI64 ≤ maxBlk bs :=
  ((maxBlk_le_iff bs (maxBlk bs)).1 (Int.le_refl _)).1

theorem le_maxBlk {bs : List Block} {b : Block} (hb : b ∈ bs) : b.maxt ≤ maxBlk bs :=
  ((maxBlk_le_iff bs (maxBlk bs)).1 (Int.le_refl _)).2 b hb

theorem maxBlk_nil : maxBlk [] = MinI64 := rfl

/-- `maxBlk` depends only on the set of block maxts. -/
theorem maxBlk_mono {bs bs' : List Block} (h : ∀ b' ∈ bs', ∃ b ∈ bs, b'.maxt = b.maxt) :
    maxBlk bs' ≤ maxBlk bs := by
  rw [maxBlk_le_iff]
  refine ⟨maxBlk_ge bs, ?_⟩
  intro b' hb'
  obtain ⟨b, hb, e⟩ := h b' hb'
  rw [e]; exact le_maxBlk hb

theorem maxBlk_append_one (bs : List Block) (b : Block) :
    maxBlk (bs ++ [b]) = max (maxBlk bs) b.maxt := by
  unfold maxBlk
  rw [List.foldl_append]
  rfl

end Prom.Db
