import PromModel.Remote.WriteHandler

/-
  Helper lemmas for PromProps/C41.lean: the append loops of the receiver never touch stored samples and
  never lose a collected error; strictly increasing fresh samples are all accepted and all stored.
-/
namespace Prom.RW
open Prom Prom.Admit

theorem get_append_empty (st : Store) (k n : String) : Store.get (st ++ [(k, ({} : Series))]) n = Store.get st n := by
  induction st with
  | nil => simp only [List.nil_append, Store.get]; split <;> rfl
  | cons p rest ih =>
    obtain ⟨m, s⟩ := p
    simp only [List.cons_append, Store.get]
    rw [ih]

theorem ensure_get (st : Store) (k n : String) : (ensure st k).get n = st.get n := by
  unfold ensure
  split
  · rfl
  · exact get_append_empty st k n

theorem mat_store (h : Head) (a : App) (t : Int) : (a.mat h t).1.store = h.store := by
  unfold App.mat
  split
  · rfl
  · split <;> rfl

/-- invariant kept by every step of the loops -/
def Keeps (r r' : Run) : Prop :=
  (∀ n, r'.head.store.get n = r.head.store.get n) ∧ (r.errs ≠ [] → r'.errs ≠ [])

theorem Keeps.refl (r : Run) : Keeps r r := ⟨fun _ => rfl, id⟩
theorem Keeps.trans {a b c : Run} (h1 : Keeps a b) (h2 : Keeps b c) : Keeps a c :=
  ⟨fun n => (h2.1 n).trans (h1.1 n), fun h => h2.2 (h1.2 h)⟩

theorem append_store (h : Head) (a : App) (key : String) (x : Sample) (inv : Bool) (n : String) :
    (App.append h a key x inv).1.store.get n = h.store.get n := by
  simp only [App.append]
  repeat' split
  all_goals simp [mat_store, ensure_get]

theorem appendSTG_store (fixed : Bool) (h : Head) (a : App) (key : String) (t st : Int) (z : Sample)
    (n : String) :
    (App.appendSTG fixed h a key t st z).1.store.get n = h.store.get n := by
  simp only [App.appendSTG]
  repeat' split
  all_goals simp [mat_store, ensure_get]

theorem appendST_store (h : Head) (a : App) (key : String) (t st : Int) (z : Sample) (n : String) :
    (App.appendST h a key t st z).1.store.get n = h.store.get n :=
  appendSTG_store _ h a key t st z n

theorem appendEx_store (h : Head) (a : App) (ring : Exemplars.Ring) (key : String) (b1 b2 : Bool) (e : ExIn)
    (lbl : String) (n : String) :
    (App.appendEx h a ring key b1 b2 e lbl).1.store.get n = h.store.get n := by
  simp only [App.appendEx]
  repeat' split
  all_goals simp [mat_store]

theorem ne_nil_append {α : Type} (l : List α) (x : α) : l ++ [x] ≠ [] := by simp

theorem v2Samples_keeps (fl : Flags) (key : String) (xs : List Smp) (r : Run) :
    Keeps r (v2Samples fl key xs r) := by
  induction xs generalizing r with
  | nil => exact Keeps.refl r
  | cons s rest ih =>
    simp only [v2Samples]
    generalize hres : App.append _ _ key _ _ = res
    have h1 : ∀ n, res.1.store.get n = r.head.store.get n := by
      intro n; rw [← hres, append_store]
      split
      · exact appendST_store _ _ _ _ _ _ n
      · rfl
    obtain ⟨h1', a1, o⟩ := res
    cases o with
    | none => dsimp only; (refine Keeps.trans ?_ (ih _); exact ⟨h1, id⟩)
    | some e =>
      cases e <;> dsimp only <;> first
        | exact ⟨h1, fun _ => by simp⟩
        | (refine Keeps.trans ?_ (ih _); exact ⟨h1, fun _ => ne_nil_append _ _⟩)

theorem v2Hists_keeps (fl : Flags) (key : String) (xs : List HSmp) (r : Run) :
    Keeps r (v2Hists fl key xs r) := by
  induction xs generalizing r with
  | nil => exact Keeps.refl r
  | cons s rest ih =>
    simp only [v2Hists]
    generalize hres : App.append _ _ key _ _ = res
    have h1 : ∀ n, res.1.store.get n = r.head.store.get n := by
      intro n; rw [← hres, append_store]
      split
      · exact appendST_store _ _ _ _ _ _ n
      · rfl
    obtain ⟨h1', a1, o⟩ := res
    cases o with
    | none => dsimp only; (refine Keeps.trans ?_ (ih _); exact ⟨h1, id⟩)
    | some e =>
      cases e <;> dsimp only <;> first
        | exact ⟨h1, fun _ => by simp⟩
        | (refine Keeps.trans ?_ (ih _); exact ⟨h1, fun _ => ne_nil_append _ _⟩)

theorem v2Exs_keeps (key : String) (he : Bool) (xs : List ExIn) (r : Run) :
    Keeps r (v2Exs key he xs r) := by
  induction xs generalizing r with
  | nil => exact Keeps.refl r
  | cons e rest ih =>
    unfold v2Exs
    cases hl : e.lbl with
    | none => dsimp only; (refine Keeps.trans ?_ (ih _); exact ⟨fun _ => rfl, fun _ => ne_nil_append _ _⟩)
    | some lbl =>
      dsimp only
      generalize hres : App.appendEx r.head r.app r.ring key r.ref (!he) e lbl = res
      have h1 : ∀ n, res.1.store.get n = r.head.store.get n := by
        intro n; rw [← hres, appendEx_store]
      obtain ⟨h1', a1, o⟩ := res
      cases o with
      | counted => dsimp only; (refine Keeps.trans ?_ (ih _); exact ⟨h1, id⟩)
      | countedNoRef => dsimp only; (refine Keeps.trans ?_ (ih _); exact ⟨h1, id⟩)
      | oooEx => dsimp only; (refine Keeps.trans ?_ (ih _); exact ⟨h1, fun _ => ne_nil_append _ _⟩)
      | swallowed => dsimp only; (refine Keeps.trans ?_ (ih _); exact ⟨h1, id⟩)

theorem v2Series_keeps (fl : Flags) (s : SeriesD) (r : Run) : Keeps r (v2Series fl s r) := by
  unfold v2Series
  cases s.bad with
  | some b => exact ⟨fun _ => rfl, fun _ => ne_nil_append _ _⟩
  | none =>
    simp only
    have k1 : Keeps r (v2Samples fl s.key s.samples { r with ref := false }) :=
      Keeps.trans ⟨fun _ => rfl, id⟩ (v2Samples_keeps fl s.key s.samples _)
    split
    · exact k1
    · have k2 := Keeps.trans k1 (v2Hists_keeps fl s.key s.hists _)
      split
      · exact k2
      · exact Keeps.trans k2 (v2Exs_keeps _ _ _ _)

theorem coreV2_keeps (fl : Flags) (req : List SeriesD) (r : Run) : Keeps r (coreV2 fl req r) := by
  induction req generalizing r with
  | nil => exact Keeps.refl r
  | cons s rest ih =>
    unfold coreV2
    simp only
    split
    · exact v2Series_keeps fl s r
    · exact Keeps.trans (v2Series_keeps fl s r) (ih _)

theorem coreV2_store (fl : Flags) (req : List SeriesD) (r : Run) (n : String) :
    (coreV2 fl req r).head.store.get n = r.head.store.get n := (coreV2_keeps fl req r).1 n

theorem coreV2_errs_ne (fl : Flags) (req : List SeriesD) (r : Run) (h : r.errs ≠ []) :
    (coreV2 fl req r).errs ≠ [] := (coreV2_keeps fl req r).2 h

/-! ### v1 -/

theorem v1Samples_store (key : String) (xs : List Smp) (r : Run) (n : String) :
    (v1Samples key xs r).head.store.get n = r.head.store.get n := by
  induction xs generalizing r with
  | nil => rfl
  | cons s rest ih =>
    unfold v1Samples
    generalize hres : App.append r.head r.app key ⟨s.t, .f, s.v⟩ false = res
    have h1 : res.1.store.get n = r.head.store.get n := by rw [← hres, append_store]
    obtain ⟨h1', a1, o⟩ := res
    cases o with
    | none => dsimp only; rw [ih]; exact h1
    | some e => exact h1

theorem v1Hists_store (key : String) (xs : List HSmp) (r : Run) (n : String) :
    (v1Hists key xs r).head.store.get n = r.head.store.get n := by
  induction xs generalizing r with
  | nil => rfl
  | cons s rest ih =>
    unfold v1Hists
    simp only
    generalize hres : App.append r.head r.app key ⟨s.t, (if s.h.isFloat then Kind.fh else Kind.h), (intern r.hists s.tok).2⟩
      s.h.validate.isSome = res
    have h1 : res.1.store.get n = r.head.store.get n := by rw [← hres, append_store]
    obtain ⟨h1', a1, o⟩ := res
    cases o with
    | none => dsimp only; rw [ih]; exact h1
    | some e => exact h1

theorem v1Exs_store (key : String) (he : Bool) (xs : List ExIn) (r : Run) (n : String) :
    (v1Exs key he xs r).head.store.get n = r.head.store.get n := by
  induction xs generalizing r with
  | nil => rfl
  | cons e rest ih =>
    unfold v1Exs
    generalize hres : App.appendEx r.head r.app r.ring key false (!he) e (e.lbl.getD "-") = res
    have h1 : res.1.store.get n = r.head.store.get n := by rw [← hres, appendEx_store]
    obtain ⟨h1', a1, o⟩ := res
    cases o <;> (dsimp only; rw [ih]; exact h1)

theorem v1Series_store (s : SeriesD) (r : Run) (n : String) :
    (v1Series s r).head.store.get n = r.head.store.get n := by
  unfold v1Series
  cases s.bad with
  | some b => rfl
  | none =>
    simp only
    split
    · exact v1Samples_store _ _ _ n
    · rw [v1Hists_store, v1Exs_store, v1Samples_store]

theorem coreV1_store (req : List SeriesD) (r : Run) (n : String) :
    (coreV1 req r).head.store.get n = r.head.store.get n := by
  induction req generalizing r with
  | nil => rfl
  | cons s rest ih =>
    unfold coreV1
    simp only
    split
    · exact v1Series_store s r n
    · rw [ih, v1Series_store]


/-! ### the commit stores every fresh, strictly increasing sample -/

/-- every sample is inside the window and strictly newer than its predecessor (the first one: than the
    newest in-order sample of the series, if any) -/
def FreshFor (w : Window) : View → List Sample → Prop
  | _, [] => True
  | v, x :: rest => x.t ≥ w.minValid ∧ (v.hasHead = false ∨ x.t > v.maxT) ∧
      FreshFor w ⟨true, x.t, x.kind, x.v⟩ rest

theorem get_set_same' (st : Store) (n : String) (s : Series) : (st.set n s).get n = s := by
  induction st with
  | nil => simp [Store.set, Store.get]
  | cons p rest ih =>
    obtain ⟨m, s'⟩ := p
    by_cases h : m = n
    · simp [Store.set, Store.get, h]
    · simp [Store.set, Store.get, h, ih]

theorem get_set_other' (st : Store) (n m : String) (s : Series) (hne : m ≠ n) :
    (st.set n s).get m = st.get m := by
  induction st with
  | nil => simp [Store.set, Store.get, Ne.symm hne]
  | cons p rest ih =>
    obtain ⟨k, s'⟩ := p
    by_cases h : k = n
    · subst h; simp [Store.set, Store.get, Ne.symm hne]
    · by_cases h2 : k = m
      · subst h2; simp [Store.set, Store.get, h]
      · simp [Store.set, Store.get, h, h2, ih]

theorem commitOne_fresh (w : Window) (cap : Nat) (s : Series) (x : Sample)
    (h1 : x.t ≥ w.minValid) (h2 : s.view.hasHead = false ∨ x.t > s.view.maxT) :
    (commitOne w cap s x).1.inorder = x :: s.inorder ∧ (commitOne w cap s x).1.view = ⟨true, x.t, x.kind, x.v⟩ ∧
    (commitOne w cap s x).2 = some x.t := by
  unfold commitOne
  have ha : appendable x.kind x.t x.v s.view w = .ok .inOrder := by
    unfold appendable
    rcases h2 with h2 | h2
    · simp [h1, h2]
    · by_cases hh : s.view.hasHead = true
      · simp [h1, h2, hh]
      · simp [h1, hh]
  rw [ha]
  cases hs : s.inorder with
  | nil => simp [Series.appendInOrder, hs, Series.view]
  | cons y ys =>
    have hv : s.view.hasHead = true ∧ s.view.maxT = y.t := by simp [Series.view, hs]
    have : ¬ y.t ≥ x.t := by
      rcases h2 with h2 | h2
      · rw [hv.1] at h2; exact absurd h2 (by decide)
      · rw [hv.2] at h2; omega
    simp [Series.appendInOrder, hs, this, Series.view]

theorem commitList_fresh (w : Window) (cap : Nat) (key : String) (xs : List Sample) (acc : CommitAcc)
    (h : FreshFor w (acc.store.get key).view xs) :
    ((commitList w cap (xs.map fun x => (key, x)) acc).store.get key).inorder
        = xs.reverse ++ (acc.store.get key).inorder ∧
    (∀ m, m ≠ key → (commitList w cap (xs.map fun x => (key, x)) acc).store.get m = acc.store.get m) := by
  induction xs generalizing acc with
  | nil => simp [commitList]
  | cons x rest ih =>
    obtain ⟨h1, h2, h3⟩ := h
    obtain ⟨c1, c2, _⟩ := commitOne_fresh w cap (acc.store.get key) x h1 h2
    simp only [List.map_cons, commitList]
    have hg : (acc.apply w cap key x).store.get key = (commitOne w cap (acc.store.get key) x).1 := by
      simp [CommitAcc.apply, get_set_same']
    have ho : ∀ m, m ≠ key → (acc.apply w cap key x).store.get m = acc.store.get m := by
      intro m hm; simp [CommitAcc.apply, get_set_other' _ _ _ _ hm]
    have := ih (acc.apply w cap key x) (by rw [hg, c2]; exact h3)
    refine ⟨?_, fun m hm => by rw [this.2 m hm, ho m hm]⟩
    rw [this.1, hg, c1]; simp

end Prom.RW
