import PromProofs.ReadOnlyQuery
import PromProofs.ReadOnlyReplay
import PromProofs.ReadOnlyCut
/-
  C53, state level: on a directory whose blocks satisfy `BlocksOk`, the read-only open answers every
  query like the read-write open, and FlushWAL writes exactly the read-write head.
-/
namespace Prom.Db
open Prom.Intervals

theorem rwBase_series (d : Db) : d.rwBase.series = [] := by unfold Db.rwBase; split <;> rfl
theorem rwBase_wal (d : Db) : d.rwBase.wal = d.wal := by unfold Db.rwBase; split <;> rfl
theorem rwBase_blocks (d : Db) : d.rwBase.blocks = d.blocks := by unfold Db.rwBase; split <;> rfl

theorem rwBase_minValid (d : Db) : d.rwBase.minValid = d.rwCut := by
  unfold Db.rwBase
  split
  · rename_i h
    have : d.blocks = [] := by simpa using h
    simp [Db.rwCut, this]
  · rfl

theorem ro_series_eq (d : Db) (h : BlocksOk d) :
    (initHead d.openReadOnly.headBase d.openReadOnly.maxBlockTime).series = d.reopen.series := by
  rw [Db.reopen_eq_initHead, roCut_eq_rwCut d h]
  exact initHead_series_congr _ _ _ (by rw [rwBase_series]; rfl) (by rw [rwBase_wal]; rfl)

theorem ro_eq_rw_state (d : Db) (h : BlocksOk d) (a b : Int) :
    d.openReadOnly.query a b = d.reopen.query a b := by
  have hcut := roCut_eq_rwCut d h
  unfold RoView.query RoView.queryable
  split
  · -- the WAL is loaded: same series, same blocks, both heads lie at or above their own minT
    apply query_eq_of_series_eq
    · exact ro_series_eq d h
    · rw [Db.reopen_eq_initHead, initHead_blocks _ _ (rwBase_series d), rwBase_blocks]
      exact initHead_blocks _ _ rfl
    · exact initHead_samples_ge_minT _ _ rfl (Int.le_refl _)
    · rw [Db.reopen_eq_initHead]
      exact initHead_samples_ge_minT _ _ (rwBase_series d) (by rw [rwBase_minValid]; exact Int.le_refl _)
  · -- the query ends below the cutoff: no WAL on the read-only side, and the read-write head starts
    -- at or above the cutoff
    rename_i hlt
    rw [Db.query_eq, Db.query_eq]
    have hmin : d.rwCut ≤ d.reopen.minT := by
      rw [Db.reopen_eq_initHead, ← rwBase_minValid]
      exact initHead_minT_ge _ _ (rwBase_series d)
    have h1 : Db.headPart { cfg := d.openReadOnly.disk.cfg, blocks := d.openReadOnly.disk.blocks, wal := d.openReadOnly.disk.wal } a b = [] := by
      unfold Db.headPart; split <;> rfl
    have h2 : d.reopen.headPart a b = [] := by
      unfold Db.headPart
      rw [if_neg]
      rw [hcut] at hlt
      omega
    have hb : Db.blockParts { cfg := d.openReadOnly.disk.cfg, blocks := d.openReadOnly.disk.blocks, wal := d.openReadOnly.disk.wal } a b = d.reopen.blockParts a b := by
      unfold Db.blockParts
      rw [Db.reopen_eq_initHead, initHead_blocks _ _ (rwBase_series d), rwBase_blocks]
      rfl
    rw [h1, h2, hb]

theorem headRows_congr (d1 d2 : Db) (h : d1.series = d2.series) : d1.headRows = d2.headRows := by
  unfold Db.headRows
  rw [h]
  congr 1
  funext i
  rw [getSeries_congr d1 d2 h]

theorem flush_eq_head_state (d : Db) (h : BlocksOk d) : d.openReadOnly.flushRows = d.rwHeadRows :=
  headRows_congr _ _ (ro_series_eq d h)

end Prom.Db
