import PromProofs.HistChunk
import PromProofs.HistSpansEnc
/-
  `AppendHistogram`/`AppendFloatHistogram` (all four outcomes) preserve the chunk invariant `CInv`
  (C11 append_roundtrip, C12 hint soundness).
-/
namespace Prom.Hist

/-! ## from `StepOk` (what `appendable` checked) to the judge's `noReset` -/

theorem lookup_filter_absent (p : Int × Int → Bool) (k : Int) : ∀ (Q : List (Int × Int)), (∀ q ∈ Q, q.1 ≠ k) →
    lookup (Q.filter p) k = 0
  | [], _ => rfl
  | x :: Q, h => by
    have hx : x.1 ≠ k := h x (by simp)
    have ih := lookup_filter_absent p k Q (fun q hq => h q (by simp [hq]))
    rw [List.filter_cons]
    split
    · have hb : (x.1 == k) = false := by simpa using hx
      simp only [lookup, List.find?_cons, hb] at ih ⊢
      exact ih
    · exact ih

theorem lookup_filter_mem (p : Int × Int → Bool) : ∀ (Q : List (Int × Int)), (Q.map (·.1)).Pairwise (· ≠ ·) →
    ∀ q0 ∈ Q, lookup (Q.filter p) q0.1 = if p q0 then q0.2 else 0
  | [], _, q0, h => by simp at h
  | x :: Q, hd, q0, h => by
    simp only [List.map_cons, List.pairwise_cons] at hd
    rcases List.mem_cons.1 h with rfl | h
    · rw [List.filter_cons]
      split
      · simp [lookup]
      · apply lookup_filter_absent
        intro q hq; exact fun e => hd.1 q.1 (List.mem_map.2 ⟨q, hq, rfl⟩) e.symm
    · have hne : x.1 ≠ q0.1 := hd.1 q0.1 (List.mem_map.2 ⟨q0, h, rfl⟩)
      have ih := lookup_filter_mem p Q hd.2 q0 h
      rw [List.filter_cons]
      split
      · have hb : (x.1 == q0.1) = false := by simpa using hne
        simp only [lookup, List.find?_cons, hb] at ih ⊢
        exact ih
      · exact ih

theorem vGt_zero (float : Bool) (x y : Int) (hy : vZero float y = true) : vGt float x 0 = vGt float x y := by
  cases float with
  | false => simp [vZero] at hy; subst hy; rfl
  | true =>
    simp only [vZero, fEq, if_true, Bool.and_eq_true, Bool.not_eq_true', decide_eq_true_eq] at hy
    show (!fIsNaN 0 && !fIsNaN x.toNat && decide (fKey 0 < fKey x.toNat)) =
      (!fIsNaN y.toNat && !fIsNaN x.toNat && decide (fKey y.toNat < fKey x.toNat))
    rw [hy.1.1, hy.1.2, hy.2]

theorem mapLe_of_PairsLe (float : Bool) (P Q : List (Int × Int)) (h : PairsLe float P Q)
    (hd : (Q.map (·.1)).Pairwise (· ≠ ·)) :
    mapLe float (P.filter fun p => !vZero float p.2) (Q.filter fun p => !vZero float p.2) = true := by
  simp only [mapLe, List.all_eq_true, List.mem_filter, Bool.not_eq_true', and_imp]
  intro e he hnz
  rcases h e he with ⟨q, hq, hk, hle⟩ | hz
  · rw [← hk, lookup_filter_mem _ Q hd q hq]
    cases hqz : vZero float q.2 with
    | false => simpa using hle
    | true => simp only [Bool.not_true, Bool.false_eq_true, if_false]; rw [vGt_zero float e.2 q.2 hqz]; exact hle
  · simp [hnz] at hz

theorem pairwise_ne_of_lt (l : List Int) (h : l.Pairwise (· < ·)) : l.Pairwise (· ≠ ·) :=
  h.imp (fun hab => by omega)

/-- `appendable` said ok for a valid histogram with the chunk's key: no reset from the chunk's last sample in
    the sense of the judge's predicate -/
theorem noReset_of_StepOk (c : Chunk) (h : Hist) (s0 : Stored) (hl0 : c.last = s0) (st : StepOk c h)
    (hfl : h.float = c.float) (hzt : h.zt = c.zt) (hcu : h.custom = c.custom) (hwf : WF h) :
    noReset (c.histOf s0) h = true := by
  have hlive : s0.sum ≠ staleBits := by rw [← hl0]; exact st.lastNotStale
  have hp := mapLe_of_PairsLe c.float _ _ st.pos (by
    rw [List.map_fst_zip (by rw [absVals_length, hwf.pLen]; exact Nat.le_refl _)]
    exact pairwise_ne_of_lt _ hwf.pSorted)
  have hn := mapLe_of_PairsLe c.float _ _ st.neg (by
    rw [List.map_fst_zip (by rw [absVals_length, hwf.nLen]; exact Nat.le_refl _)]
    exact pairwise_ne_of_lt _ hwf.nSorted)
  have hc := st.count; have hz := st.zcount
  rw [hl0] at hp hn hc hz
  simp only [noReset, Chunk.histOf, hlive, if_false, Hist.stale, sameKey, Hist.sem, bucketMap, hfl]
  simp [st.schema, hzt, hcu, hc, hz, hp, hn]

/-! ## the decisions of `appendable` / `appendableGauge` -/

theorem appendable_ok_facts (c : Chunk) (h : Hist) (pf nf pb nb : List Insert)
    (hs : h.stale = false) (hok : c.appendable h = .ok (.ok pf nf pb nb)) :
    ¬ (c.num > 0 ∧ c.hdr = .gauge) ∧
    expandCounter c.float c.pSpans h.pSpans c.last.pB h.pB = .ok (some (pf, pb)) ∧
    expandCounter c.float c.nSpans h.nSpans c.last.nB h.nB = .ok (some (nf, nb)) := by
  unfold Chunk.appendable at hok
  simp only [hs] at hok
  split at hok; · simp at hok
  rename_i hg
  split at hok; · simp at hok
  simp at hok
  split at hok; · simp at hok
  split at hok; · simp at hok
  split at hok; · simp at hok
  split at hok; · simp at hok
  split at hok; · simp at hok
  split at hok
  · simp at hok
  · simp at hok
  · rename_i pf' pb' hp
    split at hok
    · simp at hok
    · simp at hok
    · rename_i nf' nb' hn
      simp at hok
      obtain ⟨rfl, rfl, rfl, rfl⟩ := hok
      exact ⟨hg, hp, hn⟩

theorem appendable_stale (c : Chunk) (h : Hist) (hs : h.stale = true) (d : Dec) (hok : c.appendable h = .ok d) :
    (∃ hdr, d = .no hdr) ∨ d = .ok [] [] [] [] := by
  unfold Chunk.appendable at hok
  simp only [hs] at hok
  split at hok; · simp at hok; exact Or.inl ⟨_, hok.symm⟩
  split at hok; · simp at hok; exact Or.inl ⟨_, hok.symm⟩
  simp at hok
  exact Or.inr hok.symm

theorem appendable_stale_ne_error (c : Chunk) (h : Hist) (hs : h.stale = true) (e : Err) :
    c.appendable h ≠ .error e := by
  unfold Chunk.appendable
  simp only [hs]
  split; · simp
  split; · simp
  simp

theorem appendableGauge_some (c : Chunk) (h : Hist) (g : GDec) (hs : h.stale = false)
    (hok : c.appendableGauge h = some g) :
    ¬ (c.num > 0 ∧ c.hdr ≠ .gauge) ∧ c.last.sum ≠ staleBits ∧ h.schema = c.schema ∧ fEq h.zt c.zt = true ∧
    (h.schema = customSchema → boundsMatch h.custom c.custom = true) ∧
    g = ⟨(expandBoth c.pSpans h.pSpans).1, (expandBoth c.nSpans h.nSpans).1, (expandBoth c.pSpans h.pSpans).2.1,
      (expandBoth c.nSpans h.nSpans).2.1, (expandBoth c.pSpans h.pSpans).2.2, (expandBoth c.nSpans h.nSpans).2.2⟩ := by
  unfold Chunk.appendableGauge at hok
  simp only [hs] at hok
  split at hok; · simp at hok
  rename_i hg
  simp at hok
  exact ⟨hg, hok.1, hok.2.1.1, hok.2.1.2, hok.2.2.1, hok.2.2.2.symm⟩

theorem appendableGauge_stale (c : Chunk) (h : Hist) (g : GDec) (hs : h.stale = true)
    (hok : c.appendableGauge h = some g) : g = ⟨[], [], [], [], [], []⟩ := by
  unfold Chunk.appendableGauge at hok
  simp only [hs] at hok
  split at hok; · simp at hok
  simp at hok
  exact hok.symm

/-! ## normal forms of the pieces of `appendHist` -/

theorem recodeHistogram_ok (h' : Hist) (pb nb : List Insert) (h1 : Hist) (hr : recodeHistogram h' pb nb = .ok h1) :
    ∃ pB1 nB1, applyIns h'.float h'.pB (countSpans h'.pSpans) pb = .ok pB1 ∧
      applyIns h'.float h'.nB (countSpans h'.nSpans) nb = .ok nB1 ∧ h1 = { h' with pB := pB1, nB := nB1 } := by
  have e : recodeHistogram h' pb nb =
      (applyIns h'.float h'.pB (countSpans h'.pSpans) pb >>= fun pB =>
        applyIns h'.float h'.nB (countSpans h'.nSpans) nb >>= fun nB => pure { h' with pB := pB, nB := nB }) := by
    simp only [recodeHistogram, applyIns]
    cases pb.isEmpty <;> cases nb.isEmpty <;> rfl
  rw [e] at hr
  cases hp : applyIns h'.float h'.pB (countSpans h'.pSpans) pb with
  | error e => simp [hp, bind, Except.bind] at hr
  | ok pB1 =>
    cases hn : applyIns h'.float h'.nB (countSpans h'.nSpans) nb with
    | error e => simp [hp, hn, bind, Except.bind] at hr
    | ok nB1 =>
      simp [hp, hn, bind, Except.bind, pure, Except.pure] at hr
      exact ⟨pB1, nB1, rfl, rfl, hr.symm⟩

theorem applyIns_nil (float : Bool) (xs : List Int) (n : Nat) : applyIns float xs n [] = .ok xs := rfl

theorem isEmpty_false_iff {α : Type} (l : List α) : l.isEmpty = false ↔ l ≠ [] := by cases l <;> simp

/-- the chunk part of an accepted append -/
theorem appendTail_ok (c : Chunk) (t : Int) (h1 : Hist) (pf nf : List Insert) (r : AppRes)
    (hr : (if (!pf.isEmpty || !nf.isEmpty) = true then
            (c.recode pf nf h1.pSpans h1.nSpans >>= fun c1 => pure ⟨.recoded, c1.appendRaw t h1, h1⟩)
          else pure ⟨.same, c.appendRaw t h1, h1⟩ : Except Err AppRes) = .ok r) :
    r.h = h1 ∧ r.out ≠ .newChunk ∧
      ((pf = [] ∧ nf = [] ∧ r.chunk = c.appendRaw t h1) ∨
        ∃ c1, c.recode pf nf h1.pSpans h1.nSpans = .ok c1 ∧ r.chunk = c1.appendRaw t h1) := by
  split at hr
  · cases hc : c.recode pf nf h1.pSpans h1.nSpans with
    | error e => simp [hc, bind, Except.bind] at hr
    | ok c1 =>
      simp [hc, bind, Except.bind, pure, Except.pure] at hr
      subst hr
      exact ⟨rfl, by simp, Or.inr ⟨c1, rfl, rfl⟩⟩
  · rename_i hcond
    simp [pure, Except.pure] at hr
    subst hr
    have : pf = [] ∧ nf = [] := by
      cases pf <;> cases nf <;> simp_all
    exact ⟨rfl, by simp, Or.inl ⟨this.1, this.2, rfl⟩⟩

/-- the chunk part of `appendHist` after the histogram has been recoded backwards to `h1` -/
def appendTail (c : Chunk) (t : Int) (pf nf : List Insert) (h1 : Hist) : Except Err AppRes :=
  if (!pf.isEmpty || !nf.isEmpty) = true then
    (c.recode pf nf h1.pSpans h1.nSpans >>= fun c1 => pure ⟨.recoded, c1.appendRaw t h1, h1⟩)
  else pure ⟨.same, c.appendRaw t h1, h1⟩

theorem bind_ok {α β : Type} (X : Except Err α) (f : α → Except Err β) (r : β) (h : (X >>= f) = .ok r) :
    ∃ a, X = .ok a ∧ f a = .ok r := by
  cases X with
  | error e => simp [bind, Except.bind] at h
  | ok a => exact ⟨a, rfl, h⟩

theorem key_of_rep (c : Chunk) (s0 : Stored) (th0 : Int × Hist) (hr : Rep c s0 th0) (hs : th0.2.stale = false) :
    s0.sum ≠ staleBits ∧ c.schema = th0.2.schema ∧ c.zt = th0.2.zt ∧ c.custom = th0.2.custom ∧
      (c.histOf s0).sem = th0.2.sem := by
  obtain ⟨hlive, hsem, _, _⟩ := hr.2.2 hs
  have h1 := congrArg Sem.schema hsem
  have h2 := congrArg Sem.zt hsem
  have h3 := congrArg Sem.custom hsem
  simp [Chunk.histOf, hlive, Hist.sem] at h1 h2 h3
  exact ⟨hlive, h1, h2, h3, hsem⟩

/-- facts shared by the counter and the gauge path once the decision was "append" for a live histogram -/
theorem accept_key (c : Chunk) (l : List (Int × Hist)) (inv : CInv c l) (hne : c.rev ≠ []) (h : Hist) (hwf : WF h)
    (hlast : c.last.sum ≠ staleBits) (hsch : h.schema = c.schema) (hzt : fEq h.zt c.zt = true)
    (hcu : h.schema = customSchema → boundsMatch h.custom c.custom = true) :
    ∃ s0 th0 l0, l = th0 :: l0 ∧ c.last = s0 ∧ th0.2.stale = false ∧ (c.histOf s0).sem = th0.2.sem ∧
      h.zt = c.zt ∧ h.custom = c.custom := by
  obtain ⟨s0, r0, hrev⟩ := List.exists_cons_of_ne_nil hne
  have hl0 : c.last = s0 := c.last_eq s0 r0 hrev
  cases l with
  | nil => have := inv.rep; rw [hrev] at this; exact this.elim
  | cons th0 l0 =>
    have hrep := inv.rep
    rw [hrev] at hrep
    have hth0 : th0.2.stale = false := by
      cases hs : th0.2.stale with
      | false => rfl
      | true => have := hrep.1.2.1 hs; rw [hl0] at hlast; exact absurd this hlast
    obtain ⟨_, ksch, kzt, kcu, ksem⟩ := key_of_rep c s0 th0 hrep.1 hth0
    have w0 : WF th0.2 := inv.wf th0 (by simp) hth0
    refine ⟨s0, th0, l0, rfl, hl0, hth0, ksem, ?_, ?_⟩
    · exact fEq_eq _ _ hwf.zt (by rw [kzt]; exact w0.zt) hzt
    · by_cases hc : h.schema = customSchema
      · exact boundsMatch_eq _ _ hwf.custom (by rw [kcu]; exact w0.custom) (hcu hc)
      · rw [hwf.customNil hc, kcu, w0.customNil (by rw [← ksch, ← hsch]; exact hc)]

theorem hist_eta (h : Hist) : h = { h with pSpans := h.pSpans, nSpans := h.nSpans, pB := h.pB, nB := h.nB } := rfl

/-- **counter path, live histogram accepted** -/
theorem appendHist_counter_live (c : Chunk) (l : List (Int × Hist)) (inv : CInv c l) (hne : c.rev ≠ [])
    (t : Int) (h : Hist) (hns : h.stale = false) (hwf : WF h) (hfl : h.float = c.float) (hg : h.hint ≠ .gauge)
    (pf nf pb nb : List Insert) (hok : c.appendable h = .ok (.ok pf nf pb nb)) (r : AppRes)
    (hr : appendHist none c t h = .ok r) :
    r.out ≠ .newChunk ∧ CInv r.chunk ((t, h) :: l) ∧ r.h.sem = h.sem ∧
      SpanSrc c.pSpans h.pSpans r.chunk.pSpans ∧ SpanSrc c.nSpans h.nSpans r.chunk.nSpans := by
  obtain ⟨hng, hep, hen⟩ := appendable_ok_facts c h pf nf pb nb hns hok
  obtain ⟨pp, ppi, _, _⟩ := expandCounter_plan _ _ _ _ _ _ _ hep
  obtain ⟨pn, pni, _, _⟩ := expandCounter_plan _ _ _ _ _ _ _ hen
  have st := appendable_ok_no_reset c h pf nf pb nb hns hok
  obtain ⟨s0, th0, l0, rfl, hl0, hth0, ksem, hzt, hcu⟩ :=
    accept_key c l inv hne h hwf st.lastNotStale st.schema st.zt st.custom
  have hnum : c.num ≠ 0 := by simpa [Chunk.num] using hne
  have hgauge : (c.hdr == Hdr.gauge) = false := by
    have : c.hdr ≠ .gauge := fun e => hng ⟨Nat.pos_of_ne_zero hnum, e⟩
    simpa using this
  have hadj : ∀ th ∈ (th0 :: l0).head?, (c.hdr == .gauge) = false → noReset th.2 h = true := by
    intro th hth _
    simp at hth; subst hth
    rw [← noReset_sem (c.histOf s0) th0.2 h h ksem rfl]
    exact noReset_of_StepOk c h s0 hl0 st hfl hzt hcu hwf
  -- unfold the append
  unfold appendHist at hr
  split at hr; · simp at hr
  simp only [hok] at hr
  have hr' : (if (!pb.isEmpty || !nb.isEmpty) = true then
      ((if (pf.isEmpty && nf.isEmpty) = true then
          recodeHistogram { h with pSpans := c.pSpans, nSpans := c.nSpans } pb nb
        else recodeHistogram { h with pSpans := adjustForInserts h.pSpans pb,
                                      nSpans := adjustForInserts h.nSpans nb } pb nb) >>= appendTail c t pf nf)
      else (pure h >>= appendTail c t pf nf)) = .ok r := hr
  clear hr
  have finish : ∀ (S1 S2 : List Span) (pB1 nB1 : List Int) (h1 : Hist),
      idxs S1 = mergeU (idxs c.pSpans) (idxs h.pSpans) → idxs S2 = mergeU (idxs c.nSpans) (idxs h.nSpans) →
      applyIns h.float h.pB (countSpans S1) pb = .ok pB1 → applyIns h.float h.nB (countSpans S2) nb = .ok nB1 →
      h1 = { h with pSpans := S1, nSpans := S2, pB := pB1, nB := nB1 } → appendTail c t pf nf h1 = .ok r →
      SpanSrc c.pSpans h.pSpans S1 → SpanSrc c.nSpans h.nSpans S2 →
      r.out ≠ .newChunk ∧ CInv r.chunk ((t, h) :: th0 :: l0) ∧ r.h.sem = h.sem ∧
        SpanSrc c.pSpans h.pSpans r.chunk.pSpans ∧ SpanSrc c.nSpans h.nSpans r.chunk.nSpans := by
    intro S1 S2 pB1 nB1 h1 hS1 hS2 hp1 hn1 hh1 htail hsrc1 hsrc2
    obtain ⟨rh, rout, rch⟩ := appendTail_ok c t h1 pf nf r htail
    have hS : h1.pSpans = S1 ∧ h1.nSpans = S2 := by subst hh1; exact ⟨rfl, rfl⟩
    rw [hS.1, hS.2] at rch
    have := CInv.step c _ inv t h hns hwf hfl st.lastNotStale hne st.schema hzt hcu pf nf pb nb pp pn S1 S2 hS1 hS2
      pB1 nB1 hp1 hn1 hadj h1 hh1 r.chunk rch
    refine ⟨rout, this.1, by rw [rh]; exact this.2.1, ?_, ?_⟩
    · rcases this.2.2 with ⟨e, _⟩ | ⟨e, _⟩
      · rw [e]; exact Or.inl rfl
      · rw [e]; exact hsrc1
    · rcases this.2.2 with ⟨_, e⟩ | ⟨_, e⟩
      · rw [e]; exact Or.inl rfl
      · rw [e]; exact hsrc2
  by_cases hb : pb = [] ∧ nb = []
  · obtain ⟨rfl, rfl⟩ := hb
    simp only [List.isEmpty_nil, Bool.not_true, Bool.or_self, Bool.false_eq_true, if_false] at hr'
    exact finish h.pSpans h.nSpans h.pB h.nB h (pp.merge_of_b_nil rfl).symm (pn.merge_of_b_nil rfl).symm
      rfl rfl (hist_eta h) hr' (Or.inr (Or.inl rfl)) (Or.inr (Or.inl rfl))
  · have hcond : (!pb.isEmpty || !nb.isEmpty) = true := by
      cases pb <;> cases nb <;> simp_all
    rw [if_pos hcond] at hr'
    obtain ⟨h1, hX, htail⟩ := bind_ok _ _ _ hr'
    by_cases hf : pf = [] ∧ nf = []
    · obtain ⟨rfl, rfl⟩ := hf
      simp only [List.isEmpty_nil, Bool.and_self, if_true] at hX
      obtain ⟨pB1, nB1, hp1, hn1, hh1⟩ := recodeHistogram_ok _ pb nb h1 hX
      exact finish c.pSpans c.nSpans pB1 nB1 h1 (pp.merge_of_f_nil rfl).symm (pn.merge_of_f_nil rfl).symm
        hp1 hn1 hh1 htail (Or.inl rfl) (Or.inl rfl)
    · have hcond2 : (pf.isEmpty && nf.isEmpty) = false := by
        cases pf <;> cases nf <;> simp_all
      rw [hcond2] at hX
      simp only [Bool.false_eq_true, if_false] at hX
      obtain ⟨pB1, nB1, hp1, hn1, hh1⟩ := recodeHistogram_ok _ pb nb h1 hX
      have src : ∀ (cS hS : List Span) (ins : List Insert),
          idxs (adjustForInserts hS ins) = mergeU (idxs cS) (idxs hS) → SpanSrc cS hS (adjustForInserts hS ins) := by
        intro cS hS ins hi
        by_cases he : ins = []
        · subst he; exact Or.inr (Or.inl (by simp [adjustForInserts]))
        · exact Or.inr (Or.inr ⟨adjustForInserts_lenPos hS ins he, hi⟩)
      have i1 := adjustForInserts_idxs c.pSpans h.pSpans pf pb pp ppi inv.pS hwf.pSorted
      have i2 := adjustForInserts_idxs c.nSpans h.nSpans nf nb pn pni inv.nS hwf.nSorted
      exact finish _ _ pB1 nB1 h1 i1 i2 hp1 hn1 hh1 htail (src _ _ _ i1) (src _ _ _ i2)

/-- **gauge path, live histogram accepted** -/
theorem appendHist_gauge_live (c : Chunk) (l : List (Int × Hist)) (inv : CInv c l) (hne : c.rev ≠ [])
    (t : Int) (h : Hist) (hns : h.stale = false) (hwf : WF h) (hfl : h.float = c.float) (hg : h.hint = .gauge)
    (g : GDec) (hok : c.appendableGauge h = some g) (r : AppRes)
    (hr : appendHist none c t h = .ok r) :
    r.out ≠ .newChunk ∧ CInv r.chunk ((t, h) :: l) ∧ r.h.sem = h.sem ∧
      SpanSrc c.pSpans h.pSpans r.chunk.pSpans ∧ SpanSrc c.nSpans h.nSpans r.chunk.nSpans := by
  obtain ⟨hng, hlast, hsch, hzt0, hcu0, rfl⟩ := appendableGauge_some c h g hns hok
  obtain ⟨pp, hpM⟩ := expandBoth_plan c.pSpans h.pSpans
  obtain ⟨pn, hnM⟩ := expandBoth_plan c.nSpans h.nSpans
  obtain ⟨s0, th0, l0, rfl, hl0, hth0, ksem, hzt, hcu⟩ := accept_key c l inv hne h hwf hlast hsch hzt0 hcu0
  have hnum : c.num ≠ 0 := by simpa [Chunk.num] using hne
  have hgauge : (c.hdr == Hdr.gauge) = true := by
    have : c.hdr = .gauge := by
      by_cases e : c.hdr = .gauge
      · exact e
      · exact absurd ⟨Nat.pos_of_ne_zero hnum, e⟩ hng
    simpa using this
  have hadj : ∀ th ∈ (th0 :: l0).head?, (c.hdr == .gauge) = false → noReset th.2 h = true := by
    intro th _ hf; rw [hgauge] at hf; cases hf
  unfold appendHist at hr
  split at hr; · simp at hr
  rw [if_neg (fun hx => hx hg)] at hr
  simp only [hok] at hr
  generalize hpf : (expandBoth c.pSpans h.pSpans).1 = pf at *
  generalize hpb : (expandBoth c.pSpans h.pSpans).2.1 = pb at *
  generalize hpMM : (expandBoth c.pSpans h.pSpans).2.2 = pM at *
  generalize hnf : (expandBoth c.nSpans h.nSpans).1 = nf at *
  generalize hnb : (expandBoth c.nSpans h.nSpans).2.1 = nb at *
  generalize hnMM : (expandBoth c.nSpans h.nSpans).2.2 = nM at *
  have hr' : (if pb.length + nb.length > 0 then
      (recodeHistogram { h with pSpans := pM, nSpans := nM } pb nb >>= appendTail c t pf nf)
      else (pure h >>= appendTail c t pf nf)) = .ok r := hr
  clear hr
  have finish : ∀ (S1 S2 : List Span) (pB1 nB1 : List Int) (h1 : Hist),
      idxs S1 = mergeU (idxs c.pSpans) (idxs h.pSpans) → idxs S2 = mergeU (idxs c.nSpans) (idxs h.nSpans) →
      applyIns h.float h.pB (countSpans S1) pb = .ok pB1 → applyIns h.float h.nB (countSpans S2) nb = .ok nB1 →
      h1 = { h with pSpans := S1, nSpans := S2, pB := pB1, nB := nB1 } → appendTail c t pf nf h1 = .ok r →
      SpanSrc c.pSpans h.pSpans S1 → SpanSrc c.nSpans h.nSpans S2 →
      r.out ≠ .newChunk ∧ CInv r.chunk ((t, h) :: th0 :: l0) ∧ r.h.sem = h.sem ∧
        SpanSrc c.pSpans h.pSpans r.chunk.pSpans ∧ SpanSrc c.nSpans h.nSpans r.chunk.nSpans := by
    intro S1 S2 pB1 nB1 h1 hS1 hS2 hp1 hn1 hh1 htail hsrc1 hsrc2
    obtain ⟨rh, rout, rch⟩ := appendTail_ok c t h1 pf nf r htail
    have hS : h1.pSpans = S1 ∧ h1.nSpans = S2 := by subst hh1; exact ⟨rfl, rfl⟩
    rw [hS.1, hS.2] at rch
    have := CInv.step c _ inv t h hns hwf hfl hlast hne hsch hzt hcu pf nf pb nb pp pn S1 S2 hS1 hS2
      pB1 nB1 hp1 hn1 hadj h1 hh1 r.chunk rch
    refine ⟨rout, this.1, by rw [rh]; exact this.2.1, ?_, ?_⟩
    · rcases this.2.2 with ⟨e, _⟩ | ⟨e, _⟩
      · rw [e]; exact Or.inl rfl
      · rw [e]; exact hsrc1
    · rcases this.2.2 with ⟨_, e⟩ | ⟨_, e⟩
      · rw [e]; exact Or.inl rfl
      · rw [e]; exact hsrc2
  by_cases hb : pb = [] ∧ nb = []
  · obtain ⟨rfl, rfl⟩ := hb
    simp only [List.length_nil, Nat.add_zero, Nat.lt_irrefl, gt_iff_lt, if_false] at hr'
    exact finish h.pSpans h.nSpans h.pB h.nB h (pp.merge_of_b_nil rfl).symm (pn.merge_of_b_nil rfl).symm
      rfl rfl (hist_eta h) hr' (Or.inr (Or.inl rfl)) (Or.inr (Or.inl rfl))
  · have hcond : pb.length + nb.length > 0 := by
      cases pb <;> cases nb <;> simp_all <;> omega
    rw [if_pos hcond] at hr'
    obtain ⟨h1, hX, htail⟩ := bind_ok _ _ _ hr'
    obtain ⟨pB1, nB1, hp1, hn1, hh1⟩ := recodeHistogram_ok _ pb nb h1 hX
    exact finish pM nM pB1 nB1 h1 hpM hnM hp1 hn1 hh1 htail
      (Or.inr (Or.inr ⟨by rw [← hpMM]; exact expandBoth_lenPos _ _, hpM⟩))
      (Or.inr (Or.inr ⟨by rw [← hnMM]; exact expandBoth_lenPos _ _, hnM⟩))

/-- a staleness marker accepted into a non-empty chunk -/
theorem CInv.step_stale (c : Chunk) (l : List (Int × Hist)) (inv : CInv c l) (hne : c.rev ≠ []) (t : Int) (h : Hist)
    (hs : h.stale = true) (hfl : h.float = c.float) : CInv (c.appendRaw t h) ((t, h) :: l) := by
  rw [appendRaw_cons_stale c hne t h hs]
  have hsum : h.sum = staleBits := by simpa [Hist.stale] using hs
  refine ⟨⟨⟨rfl, fun _ => hsum, fun h' => by simp [hs] at h'⟩, inv.rep⟩, inv.pS, inv.nS, ?_, ?_, ?_, ?_, ?_,
    fun hf => ⟨⟨by simp, by simp⟩, inv.vals hf⟩⟩
  rotate_left 3
  · intro s hs' hst
    rcases List.mem_cons.1 hs' with rfl | hs'
    · exact ⟨rfl, rfl, rfl, rfl⟩
    · exact inv.staleForm s hs' hst
  · intro s hs' hst
    obtain ⟨s0, r0, hrev⟩ := List.exists_cons_of_ne_nil hne
    have : c.rev.getLast? = some s := by
      rw [hrev] at hs' ⊢
      simpa [List.getLast?_cons_cons] using hs'
    exact inv.staleFirst s this hst
  · intro p hp; rcases List.mem_cons.1 hp with rfl | hp
    · exact fun h' => by simp [hs] at h'
    · exact inv.wf p hp
  · intro p hp; rcases List.mem_cons.1 hp with rfl | hp
    · exact hfl
    · exact inv.flt p hp
  · cases l with
    | nil => simp [AdjOk]
    | cons th0 l0 => exact ⟨fun _ => hs, fun _ h' => by simp [hs] at h', inv.adj⟩

/-- the first sample of a chunk: stored as given, whatever the previous chunk was -/
theorem appendHist_empty (prev : Option Chunk) (c : Chunk) (he : c.rev = []) (t : Int) (h : Hist) (r : AppRes)
    (hr : appendHist prev c t h = .ok r) : r.h = h ∧ ∃ hdr, r.chunk = { c.appendRaw t h with hdr := hdr } := by
  have hnum : c.num = 0 := by simp [Chunk.num, he]
  unfold appendHist at hr
  simp only [hnum, if_true] at hr
  split at hr; · simp at hr
  split at hr
  · cases hr; exact ⟨rfl, _, rfl⟩
  split at hr
  · cases hr; exact ⟨rfl, _, rfl⟩
  split at hr
  · cases hr; exact ⟨rfl, (c.appendRaw t h).hdr, rfl⟩
  · split at hr
    · cases hr; exact ⟨rfl, (c.appendRaw t h).hdr, rfl⟩
    · split at hr
      · simp at hr
      · cases hr; exact ⟨rfl, _, rfl⟩
      · cases hr; exact ⟨rfl, _, rfl⟩

/-- layout of a chunk that was just started by `h`: the histogram's spans, or none for a staleness marker -/
def FreshSpans (h : Hist) (c : Chunk) : Prop :=
  (c.pSpans = h.pSpans ∧ c.nSpans = h.nSpans) ∨ (c.pSpans = [] ∧ c.nSpans = [])

theorem freshSpans_appendRaw (c0 : Chunk) (he : c0.rev = []) (t : Int) (h : Hist) :
    ∀ {hdr : Hdr}, FreshSpans h { c0.appendRaw t h with hdr := hdr } := by
  intro hdr
  cases hs : h.stale with
  | true => rw [appendRaw_nil_stale c0 he t h hs]; exact Or.inr ⟨rfl, rfl⟩
  | false => rw [appendRaw_nil c0 he t h hs]; exact Or.inl ⟨rfl, rfl⟩

theorem appendRaw_spans_cons (c : Chunk) (hne : c.rev ≠ []) (t : Int) (h : Hist) :
    (c.appendRaw t h).pSpans = c.pSpans ∧ (c.appendRaw t h).nSpans = c.nSpans := by
  cases hs : h.stale with
  | true => rw [appendRaw_cons_stale c hne t h hs]; exact ⟨rfl, rfl⟩
  | false => rw [appendRaw_cons c hne t h hs]; exact ⟨rfl, rfl⟩

/-- **One `AppendHistogram`/`AppendFloatHistogram` call** on a chunk satisfying the invariant: either the sample
    went into the chunk (possibly recoding it and/or the histogram) and the invariant holds for the extended
    list, or a fresh chunk holding exactly this sample was started.  In both cases the caller's histogram
    means what it meant. -/
theorem appendHist_step' (prev : Option Chunk) (c : Chunk) (l : List (Int × Hist)) (inv : CInv c l)
    (t : Int) (h : Hist) (hwf : WFs h) (hfl : h.float = c.float) (r : AppRes)
    (hr : appendHist prev c t h = .ok r) (hprev : c.rev ≠ [] → prev = none) :
    (h.stale = true → r.h = h) ∧ (h.stale = false → r.h.sem = h.sem) ∧
    ((r.out ≠ .newChunk ∧ c.rev ≠ [] ∧ CInv r.chunk ((t, h) :: l)) ∨
     ((r.out = .newChunk ∨ c.rev = []) ∧ r.h = h ∧ CInv r.chunk [(t, h)])) ∧
    ((SpanSrc c.pSpans h.pSpans r.chunk.pSpans ∧ SpanSrc c.nSpans h.nSpans r.chunk.nSpans) ∨ FreshSpans h r.chunk) := by
  by_cases he : c.rev = []
  · obtain ⟨rh, hdr, rc⟩ := appendHist_empty prev c he t h r hr
    refine ⟨fun _ => rh, fun _ => by rw [rh], Or.inr ⟨Or.inr he, rh, ?_⟩, Or.inr ?_⟩
    · rw [rc]; exact CInv.first c he t h hwf hfl hdr
    · rw [rc]; exact freshSpans_appendRaw c he t h
  · have hp := hprev he; subst hp
    have hnum : c.num ≠ 0 := by simpa [Chunk.num] using he
    have newc : ∀ hdr, CInv (({ Chunk.empty h.float with hdr := hdr } : Chunk).appendRaw t h) [(t, h)] := by
      intro hdr
      exact CInv.first { Chunk.empty h.float with hdr := hdr } rfl t h hwf rfl hdr
    have newf : ∀ hdr, FreshSpans h (({ Chunk.empty h.float with hdr := hdr } : Chunk).appendRaw t h) := by
      intro hdr
      exact freshSpans_appendRaw { Chunk.empty h.float with hdr := hdr } rfl t h
    have stalef : SpanSrc c.pSpans h.pSpans (c.appendRaw t h).pSpans ∧
        SpanSrc c.nSpans h.nSpans (c.appendRaw t h).nSpans := by
      have := appendRaw_spans_cons c he t h
      exact ⟨Or.inl this.1, Or.inl this.2⟩
    by_cases hg : h.hint = .gauge
    · -- gauge path
      cases hok : c.appendableGauge h with
      | none =>
        unfold appendHist at hr
        split at hr; · simp at hr
        rw [if_neg (fun hx => hx hg)] at hr
        simp only [hok] at hr
        cases hr
        exact ⟨fun _ => rfl, fun _ => rfl, Or.inr ⟨Or.inl rfl, rfl, newc _⟩, Or.inr (newf _)⟩
      | some g =>
        cases hs : h.stale with
        | false =>
          obtain ⟨ro, ri, rs, sp⟩ := appendHist_gauge_live c l inv he t h hs (hwf hs) hfl hg g hok r hr
          exact ⟨fun h' => by simp at h', fun _ => rs, Or.inl ⟨ro, he, ri⟩, Or.inl sp⟩
        | true =>
          have hgs := appendableGauge_stale c h g hs hok
          subst hgs
          unfold appendHist at hr
          split at hr; · simp at hr
          rw [if_neg (fun hx => hx hg)] at hr
          simp only [hok] at hr
          simp [pure, Except.pure, bind, Except.bind] at hr
          subst hr
          exact ⟨fun _ => rfl, fun h' => by simp at h', Or.inl ⟨by simp, he, CInv.step_stale c l inv he t h hs hfl⟩,
            Or.inl stalef⟩
    · -- counter path
      cases hok : c.appendable h with
      | error e =>
        unfold appendHist at hr
        split at hr; · simp at hr
        simp [hok] at hr
      | ok d =>
        cases d with
        | no hdr =>
          unfold appendHist at hr
          split at hr; · simp at hr
          simp only [hok] at hr
          cases hr
          exact ⟨fun _ => rfl, fun _ => rfl, Or.inr ⟨Or.inl rfl, rfl, newc _⟩, Or.inr (newf _)⟩
        | ok pf nf pb nb =>
          cases hs : h.stale with
          | false =>
            obtain ⟨ro, ri, rs, sp⟩ := appendHist_counter_live c l inv he t h hs (hwf hs) hfl hg pf nf pb nb hok r hr
            exact ⟨fun h' => by simp at h', fun _ => rs, Or.inl ⟨ro, he, ri⟩, Or.inl sp⟩
          | true =>
            rcases appendable_stale c h hs _ hok with ⟨hdr, hd⟩ | hd
            · cases hd
            · cases hd
              unfold appendHist at hr
              split at hr; · simp at hr
              simp only [hok] at hr
              simp [pure, Except.pure, bind, Except.bind] at hr
              subst hr
              exact ⟨fun _ => rfl, fun h' => by simp at h', Or.inl ⟨by simp, he, CInv.step_stale c l inv he t h hs hfl⟩,
            Or.inl stalef⟩

theorem appendHist_step (prev : Option Chunk) (c : Chunk) (l : List (Int × Hist)) (inv : CInv c l)
    (t : Int) (h : Hist) (hwf : WFs h) (hfl : h.float = c.float) (r : AppRes)
    (hr : appendHist prev c t h = .ok r) (hprev : c.rev ≠ [] → prev = none) :
    (h.stale = true → r.h = h) ∧ (h.stale = false → r.h.sem = h.sem) ∧
    ((r.out ≠ .newChunk ∧ c.rev ≠ [] ∧ CInv r.chunk ((t, h) :: l)) ∨
     ((r.out = .newChunk ∨ c.rev = []) ∧ r.h = h ∧ CInv r.chunk [(t, h)])) := by
  obtain ⟨a, b, c', _⟩ := appendHist_step' prev c l inv t h hwf hfl r hr hprev
  exact ⟨a, b, c'⟩

end Prom.Hist
