import PromModel.Promql.Quantile
/-
  Helper lemmas for C32, part 1: pure rational arithmetic of the linear interpolation and the
  piecewise-linear quantile function over index functions `u` (upper bounds) and `c` (counts).
  Core Lean only.
-/
namespace Prom.Quantile

theorem rat_div_nonneg {r c : Rat} (hr : 0 ≤ r) (hc : 0 < c) : 0 ≤ r / c := by
  rw [Rat.div_def]
  exact Rat.mul_nonneg hr (Rat.le_of_lt (Rat.inv_pos.mpr hc))

theorem rat_div_le_one {r c : Rat} (hrc : r ≤ c) (hc : 0 < c) : r / c ≤ 1 := by
  apply Rat.not_lt.mp
  intro h
  have := (Rat.lt_div_iff hc).mp h
  grind

theorem rat_div_mono {r1 r2 c : Rat} (h : r1 ≤ r2) (hc : 0 < c) : r1 / c ≤ r2 / c := by
  rw [Rat.div_def, Rat.div_def]
  exact Rat.mul_le_mul_of_nonneg_right h (Rat.le_of_lt (Rat.inv_pos.mpr hc))

theorem interp_bounds {s e t : Rat} (hse : s ≤ e) (h0 : 0 ≤ t) (h1 : t ≤ 1) :
    s ≤ s + (e - s) * t ∧ s + (e - s) * t ≤ e := by
  have hw : 0 ≤ e - s := by grind
  have a := Rat.mul_nonneg hw h0
  have b := Rat.mul_le_mul_of_nonneg_left h1 hw
  constructor <;> grind

theorem interp_mono {s e t1 t2 : Rat} (hse : s ≤ e) (h : t1 ≤ t2) :
    s + (e - s) * t1 ≤ s + (e - s) * t2 := by
  have hw : 0 ≤ e - s := by grind
  have b := Rat.mul_le_mul_of_nonneg_left h hw
  grind

end Prom.Quantile

namespace Prom.Quantile

/-- `a ≤ b`, where a NaN on either side is admitted (NaN results are characterised separately). -/
def XR.leOrNaN (a b : XR) : Prop := a = .nan ∨ b = .nan ∨ XR.le a b = true

@[simp] theorem XR.add_fin (a b : Rat) : XR.add (.fin a) (.fin b) = .fin (a + b) := rfl
@[simp] theorem XR.sub_fin (a b : Rat) : XR.sub (.fin a) (.fin b) = .fin (a - b) := rfl
@[simp] theorem XR.mul_fin (a b : Rat) : XR.mul (.fin a) (.fin b) = .fin (a * b) := rfl
theorem XR.div_fin (a b : Rat) (h : b ≠ 0) : XR.div (.fin a) (.fin b) = .fin (a / b) := by
  simp [XR.div, h]
@[simp] theorem XR.div_zero_zero : XR.div (.fin 0) (.fin 0) = .nan := by
  simp [XR.div, XR.sgnInf]
@[simp] theorem XR.mul_fin_nan (a : Rat) : XR.mul (.fin a) .nan = .nan := rfl
@[simp] theorem XR.add_fin_nan (a : Rat) : XR.add (.fin a) .nan = .nan := rfl
@[simp] theorem XR.lt_fin (a b : Rat) : XR.lt (.fin a) (.fin b) = decide (a < b) := rfl
@[simp] theorem XR.beq_fin (a b : Rat) : XR.beq (.fin a) (.fin b) = decide (a = b) := rfl
@[simp] theorem XR.le_fin (a b : Rat) : XR.le (.fin a) (.fin b) = decide (a ≤ b) := by
  simp only [XR.le, XR.lt_fin, XR.beq_fin]
  by_cases h1 : a < b <;> by_cases h2 : a = b <;> simp [h1, h2] <;> grind

/-- Numeric shape of the bucket list after sorting, coalescing and the monotonicity fix-up:
    `n ≥ 2` buckets, bounds `u 0 ≤ … ≤ u (n-2)` (the last bound, +Inf, is never read), counts
    `0 ≤ c 0 ≤ … ≤ c (n-1)`. -/
structure Num (n : Nat) (u c : Nat → Rat) : Prop where
  n2 : 2 ≤ n
  umono : ∀ i j, i ≤ j → j + 1 < n → u i ≤ u j
  cmono : ∀ i j, i ≤ j → j < n → c i ≤ c j
  c0 : 0 ≤ c 0

/-- `k` is what `sort.Search(n-1, i ↦ c i ≥ ρ)` returns. -/
def Sel (n : Nat) (c : Nat → Rat) (ρ : Rat) (k : Nat) : Prop :=
  k ≤ n - 1 ∧ (k = 0 ∨ c (k - 1) < ρ) ∧ (k = n - 1 ∨ ρ ≤ c k)

/-- lower / upper bound of the bucket `k` as `BucketQuantile` sees it -/
def loB (n : Nat) (u : Nat → Rat) (k : Nat) : Rat :=
  if k = n - 1 then u (n - 2) else if k = 0 then (if u 0 ≤ 0 then u 0 else 0) else u (k - 1)
def hiB (n : Nat) (u : Nat → Rat) (k : Nat) : Rat := if k = n - 1 then u (n - 2) else u k

/-- the `switch` at the end of `BucketQuantile`, on index functions -/
def valQ (n : Nat) (u c : Nat → Rat) (ρ : Rat) (k : Nat) : XR :=
  if k = n - 1 then .fin (u (n - 2))
  else if k = 0 ∧ u 0 ≤ 0 then .fin (u 0)
  else
    XR.add (.fin (if k > 0 then u (k - 1) else 0))
      (XR.mul (.fin (u k - (if k > 0 then u (k - 1) else 0)))
        (XR.div (.fin (if k > 0 then ρ - c (k - 1) else ρ)) (.fin (if k > 0 then c k - c (k - 1) else c k))))

theorem valQ_bounds {n : Nat} {u c : Nat → Rat} (N : Num n u c) {ρ : Rat} (hρ : 0 ≤ ρ) {k : Nat}
    (S : Sel n c ρ k) :
    valQ n u c ρ k = .nan ∨ ∃ v, valQ n u c ρ k = .fin v ∧ loB n u k ≤ v ∧ v ≤ hiB n u k := by
  obtain ⟨hk, hlo, hhi⟩ := S
  unfold valQ loB hiB
  by_cases h1 : k = n - 1
  · right; exact ⟨u (n - 2), by simp [h1], by simp [h1], by simp [h1]⟩
  · have hkn : k + 1 < n := by have := N.n2; omega
    by_cases h2 : k = 0 ∧ u 0 ≤ 0
    · obtain ⟨hk0, hu⟩ := h2
      subst hk0
      right; exact ⟨u 0, by simp [h1, hu], by simp [h1, hu], by simp [h1]⟩
    · have hρk : ρ ≤ c k := by grind
      by_cases hk0 : k > 0
      · have hprev : c (k - 1) < ρ := by grind
        have hcnt : 0 < c k - c (k - 1) := by grind
        have hne : c k - c (k - 1) ≠ 0 := by grind
        have hs : u (k - 1) ≤ u k := N.umono (k - 1) k (by omega) hkn
        have t0 := rat_div_nonneg (r := ρ - c (k - 1)) (by grind) hcnt
        have t1 := rat_div_le_one (r := ρ - c (k - 1)) (c := c k - c (k - 1)) (by grind) hcnt
        have b := interp_bounds hs t0 t1
        right
        refine ⟨u (k - 1) + (u k - u (k - 1)) * ((ρ - c (k - 1)) / (c k - c (k - 1))), ?_, ?_, ?_⟩
        · simp [h1, h2, hk0, XR.div_fin _ _ hne]
        · have : ¬ k = 0 := by omega
          simp [h1, this]; exact b.1
        · simp [h1]; exact b.2
      · have hk0' : k = 0 := by omega
        subst hk0'
        have hu0 : 0 < u 0 := by grind
        have hnu : ¬ u 0 ≤ 0 := by grind
        by_cases hc0 : c 0 = 0
        · left
          have : ρ = 0 := by grind
          simp [h1, hnu, hc0, this]
        · have hcnt : 0 < c 0 := by have := N.c0; grind
          have t0 := rat_div_nonneg hρ hcnt
          have t1 := rat_div_le_one hρk hcnt
          have b := interp_bounds (Rat.le_of_lt hu0) t0 t1
          right
          refine ⟨0 + (u 0 - 0) * (ρ / c 0), ?_, ?_, ?_⟩
          · simp [h1, hnu, XR.div_fin _ _ hc0]
          · simp [h1, hnu]; exact b.1
          · simp [h1]; exact b.2

theorem hiB_le_loB {n : Nat} {u c : Nat → Rat} (N : Num n u c) {k1 k2 : Nat} (h : k1 < k2) (h2 : k2 ≤ n - 1) :
    hiB n u k1 ≤ loB n u k2 := by
  have := N.n2
  unfold hiB loB
  have h1 : ¬ k1 = n - 1 := by omega
  simp only [h1, if_false]
  by_cases e : k2 = n - 1
  · simp only [e, if_true]; exact N.umono k1 (n - 2) (by omega) (by omega)
  · have : ¬ k2 = 0 := by omega
    simp only [e, this, if_false]; exact N.umono k1 (k2 - 1) (by omega) (by omega)

theorem sel_mono {n : Nat} {u c : Nat → Rat} (N : Num n u c) {ρ1 ρ2 : Rat} (h : ρ1 ≤ ρ2) {k1 k2 : Nat}
    (S1 : Sel n c ρ1 k1) (S2 : Sel n c ρ2 k2) : k1 ≤ k2 := by
  apply Nat.le_of_not_lt
  intro hlt
  obtain ⟨hk1, hlo1, _⟩ := S1
  obtain ⟨_, _, hhi2⟩ := S2
  have a : c (k1 - 1) < ρ1 := by
    rcases hlo1 with h0 | h0
    · omega
    · exact h0
  have b : ρ2 ≤ c k2 := by
    rcases hhi2 with h0 | h0
    · omega
    · exact h0
  have := N.cmono k2 (k1 - 1) (by omega) (by have := N.n2; omega)
  grind

theorem valQ_mono {n : Nat} {u c : Nat → Rat} (N : Num n u c) {ρ1 ρ2 : Rat} (h0 : 0 ≤ ρ1) (h : ρ1 ≤ ρ2)
    {k1 k2 : Nat} (S1 : Sel n c ρ1 k1) (S2 : Sel n c ρ2 k2) :
    XR.leOrNaN (valQ n u c ρ1 k1) (valQ n u c ρ2 k2) := by
  have hk := sel_mono N h S1 S2
  have B1 := valQ_bounds N h0 S1
  have B2 := valQ_bounds N (by grind : 0 ≤ ρ2) S2
  rcases B1 with e1 | ⟨v1, e1, l1, h1⟩
  · left; exact e1
  rcases B2 with e2 | ⟨v2, e2, l2, h2⟩
  · right; left; exact e2
  right; right
  rw [e1, e2, XR.le_fin]
  simp only [decide_eq_true_eq]
  by_cases hlt : k1 < k2
  · have := hiB_le_loB N hlt S2.1
    grind
  · have hkk : k1 = k2 := by omega
    subst hkk
    -- same bucket: the interpolation is monotone in the rank
    obtain ⟨hk1, hlo, hhi⟩ := S1
    unfold valQ at e1 e2
    by_cases c1 : k1 = n - 1
    · simp [c1] at e1 e2; grind
    · have hkn : k1 + 1 < n := by have := N.n2; omega
      by_cases c2 : k1 = 0 ∧ u 0 ≤ 0
      · simp [c1, c2] at e1 e2; grind
      · simp only [c1, c2, if_false] at e1 e2
        have hρk : ρ2 ≤ c k1 := by have := S2.2.2; grind
        by_cases hk0 : k1 > 0
        · have hprev : c (k1 - 1) < ρ1 := by grind
          have hcnt : 0 < c k1 - c (k1 - 1) := by grind
          have hne : c k1 - c (k1 - 1) ≠ 0 := by grind
          have hs : u (k1 - 1) ≤ u k1 := N.umono (k1 - 1) k1 (by omega) hkn
          simp [hk0, XR.div_fin _ _ hne] at e1 e2
          have m := rat_div_mono (r1 := ρ1 - c (k1 - 1)) (r2 := ρ2 - c (k1 - 1)) (by grind) hcnt
          have := interp_mono hs m
          grind
        · have hk0' : k1 = 0 := by omega
          subst hk0'
          have hu0 : 0 < u 0 := by grind
          by_cases hc0 : c 0 = 0
          · have : ρ1 = 0 := by grind
            simp [hc0, this] at e1
          · have hcnt : 0 < c 0 := by have := N.c0; grind
            simp [XR.div_fin _ _ hc0] at e1 e2
            have m := rat_div_mono h hcnt
            have := interp_mono (Rat.le_of_lt hu0) m
            grind

/-- `BucketQuantile` is a number — not NaN — as soon as the rank is positive or the lowest bucket is non-empty
    (the only NaN of the interpolation is 0/0 at rank 0 in an empty lowest bucket, F-C32-2). -/
theorem valQ_fin_of {n : Nat} {u c : Nat → Rat} (N : Num n u c) {ρ : Rat} {k : Nat}
    (S : Sel n c ρ k) (hpos : 0 < ρ ∨ 0 < c 0) : ∃ v, valQ n u c ρ k = .fin v := by
  obtain ⟨hk, hlo, hhi⟩ := S
  unfold valQ
  by_cases h1 : k = n - 1
  · rw [if_pos h1]; exact ⟨_, rfl⟩
  · have hkn : k + 1 < n := by have := N.n2; omega
    by_cases h2 : k = 0 ∧ u 0 ≤ 0
    · rw [if_neg h1, if_pos h2]; exact ⟨_, rfl⟩
    · have hρk : ρ ≤ c k := by grind
      by_cases hk0 : k > 0
      · have hprev : c (k - 1) < ρ := by grind
        have hne : c k - c (k - 1) ≠ 0 := by grind
        rw [if_neg h1, if_neg h2]
        simp only [hk0, ↓reduceIte, XR.div_fin _ _ hne, XR.mul_fin, XR.add_fin]
        exact ⟨_, rfl⟩
      · have hk0' : k = 0 := by omega
        subst hk0'
        have hnu : ¬ u 0 ≤ 0 := by grind
        have hc0 : c 0 ≠ 0 := by grind
        rw [if_neg h1, if_neg h2]
        simp only [gt_iff_lt, Nat.lt_irrefl, ↓reduceIte, XR.div_fin _ _ hc0, XR.mul_fin, XR.add_fin]
        exact ⟨_, rfl⟩

end Prom.Quantile
