import PromModel.Tsdb.Merge
import PromProofs.GoHeap
import PromProofs.Merge
import PromProofs.MergeTotal
/-
  C19: the compacting chunk merger (`compactChunkIterator`): output chunks ordered and disjoint, every
  input timestamp present, every output sample an input sample (up to the counter-reset hint that
  reading through the chain resets).
-/
namespace Prom.Merge
open Prom.GoHeap

/-- well-formed chunk: non-empty, samples strictly increasing, inside the meta range, above `MinInt64` -/
structure ChunkOK (c : Chunk) : Prop where
  ne : c.samples ≠ []
  sorted : SortedL c.samples
  within : ∀ s ∈ c.samples, c.mint ≤ s.t ∧ s.t ≤ c.maxt
  gt : ∀ s ∈ c.samples, MinI64 < s.t

theorem ChunkOK.le {c : Chunk} (h : ChunkOK c) : c.mint ≤ c.maxt := by
  cases hs : c.samples with
  | nil => exact (h.ne hs).elim
  | cons s r => have := h.within s (by simp [hs]); omega

/-- chunks ordered by time and disjoint -/
def ChunksOrd (cs : List Chunk) : Prop := cs.Pairwise (fun a b => a.maxt < b.mint)

def CIt.live (it : CIt) : List Chunk := it.cur.toList ++ it.rest

structure CIt.OK (it : CIt) : Prop where
  ok : ∀ c ∈ it.live, ChunkOK c
  ord : ChunksOrd it.live

/-- all chunks still to be handed out -/
def heapC (h : Array CIt) : List Chunk := h.toList.flatMap CIt.live

theorem sw_ltCIt : StrictWeak ltCIt where
  asymm a b h := by
    simp only [ltCIt] at *
    split at h <;> split <;> simp_all <;> omega
  trans a b c h1 h2 := by
    simp only [ltCIt] at *
    split at h1 <;> split at h2 <;> split <;> simp_all <;> omega

theorem ltCIt_false {a b : CIt} (h : ltCIt a b = false) : b.at.mint ≤ a.at.mint := by
  simp only [ltCIt] at h
  split at h <;> simp_all <;> omega

structure HOKc (h : Array CIt) : Prop where
  heap : IsHeap ltCIt h h.size
  mem : ∀ x ∈ h, x.OK ∧ ∃ c, x.cur = some c

theorem HOKc_empty : HOKc #[] := ⟨isHeap_empty _, by simp⟩

theorem heapC_perm {a b : Array CIt} (hp : a.Perm b) : (heapC a).Perm (heapC b) :=
  List.Perm.flatMap_right _ (Array.perm_iff_toList_perm.1 hp)

theorem heapC_push (h : Array CIt) (x : CIt) : (heapC (push ltCIt h x)).Perm (heapC h ++ x.live) := by
  have := heapC_perm (perm_push ltCIt h x)
  simpa [heapC] using this

theorem HOKc_push (h : Array CIt) (x : CIt) (hh : HOKc h) (hx : x.OK) (c : Chunk) (hc : x.cur = some c) :
    HOKc (push ltCIt h x) := by
  refine ⟨isHeap_push sw_ltCIt h x hh.heap, ?_⟩
  intro y hy
  rcases (mem_heap_push _ _ _ _).1 hy with hy | rfl
  · exact hh.mem y hy
  · exact ⟨hx, c, hc⟩

theorem mem_heapC {h : Array CIt} {p : Chunk} : p ∈ heapC h ↔ ∃ x ∈ h, p ∈ x.live := by
  simp [heapC, List.mem_flatMap]

/-- `pushIfNext`: the rest of the iterator joins the heap -/
theorem pushIfNext_spec (h : Array CIt) (it : CIt) (hh : HOKc h)
    (hok : ∀ c ∈ it.rest, ChunkOK c) (hord : ChunksOrd it.rest) :
    HOKc (pushIfNext h it) ∧ (heapC (pushIfNext h it)).Perm (heapC h ++ it.rest) := by
  unfold pushIfNext CIt.next
  cases hr : it.rest with
  | nil => exact ⟨hh, by simp⟩
  | cons c r =>
    simp only
    have hx : CIt.OK { it with cur := some c, rest := r } := by
      refine ⟨?_, ?_⟩
      · intro x hx; apply hok; rw [hr]; simpa [CIt.live] using hx
      · show ChunksOrd _
        rw [hr] at hord; simpa [CIt.live] using hord
    refine ⟨HOKc_push h _ hh hx c rfl, ?_⟩
    have := heapC_push h { it with cur := some c, rest := r }
    simpa [CIt.live] using this

theorem pop_cor0 (h : Array CIt) (h0 : h.size = 0) : pop ltCIt h = none := by
  unfold pop; simp [h0]

theorem chunk_ext {a b : Chunk} (h1 : a.mint = b.mint) (h2 : a.maxt = b.maxt) (h3 : a.samples = b.samples) :
    a = b := by
  cases a; cases b; simp_all

theorem at_of_cur {x : CIt} {c : Chunk} (h : x.cur = some c) : x.at = c := by simp [CIt.at, h]

theorem clive_of_cur {x : CIt} {c : Chunk} (h : x.cur = some c) : x.live = c :: x.rest := by simp [CIt.live, h]

/-- every pending chunk starts at or after the root chunk of the heap -/
theorem heap_min_mint (h : Array CIt) (hh : HOKc h) (hpos : 0 < h.size) :
    ∀ p ∈ heapC h, h[0].at.mint ≤ p.mint := by
  intro p hp
  obtain ⟨x, hx, hpx⟩ := mem_heapC.1 hp
  obtain ⟨k, hk, rfl⟩ := Array.getElem_of_mem hx
  have hmin := ltCIt_false (root_min sw_ltCIt h hh.heap k hk)
  obtain ⟨hok, c, hc⟩ := hh.mem _ hx
  rw [at_of_cur hc] at hmin
  rw [clive_of_cur hc] at hpx
  rcases List.mem_cons.1 hpx with rfl | hpr
  · exact hmin
  · have hord : ChunksOrd (c :: h[k].rest) := by rw [← clive_of_cur hc]; exact hok.ord
    have := (List.pairwise_cons.1 hord).1 p hpr
    have := (hok.ok c (by rw [clive_of_cur hc]; simp)).le
    omega

theorem overlapLoop_spec : ∀ (fuel : Nat) (h : Array CIt) (ov : List Chunk) (oMax : Int) (prev : Chunk),
    HOKc h → (heapC h).length < fuel →
    ∃ popped news, (overlapLoop fuel h ov oMax prev).2 = ov ++ news ∧ HOKc (overlapLoop fuel h ov oMax prev).1 ∧
      (heapC h).Perm (popped ++ heapC (overlapLoop fuel h ov oMax prev).1) ∧
      (∀ c ∈ news, c ∈ popped) ∧ (∀ p ∈ popped, p = prev ∨ p ∈ news) ∧
      (∀ p ∈ heapC (overlapLoop fuel h ov oMax prev).1, oMax < p.mint ∧ ∀ c ∈ news, c.maxt < p.mint) := by
  intro fuel
  induction fuel with
  | zero => intro h ov oMax prev _ hf; omega
  | succ f ih =>
    intro h ov oMax prev hh hf
    unfold overlapLoop
    by_cases h0 : h.size = 0
    · have : h = #[] := Array.eq_empty_of_size_eq_zero h0
      subst this
      exact ⟨[], [], by simp, hh, by simp, by simp, by simp, by simp [heapC]⟩
    · have hpos : 0 < h.size := by omega
      have htop : h[0]? = some h[0] := by simp [hpos]
      rw [htop]
      simp only
      by_cases hgt : h[0].at.mint > oMax
      · rw [if_pos hgt]
        refine ⟨[], [], by simp, hh, by simp, by simp, by simp, ?_⟩
        intro p hp
        have := heap_min_mint h hh hpos p hp
        exact ⟨by omega, by simp⟩
      · rw [if_neg hgt]
        obtain ⟨x, h', hpop, htop', hheap', hperm, hmem, _⟩ := pop_cor2 sw_ltCIt h hh.heap h0
        have hx0 : x = h[0] := by rw [htop] at htop'; exact (Option.some.inj htop').symm
        subst hx0
        rw [hpop]
        simp only
        have hxh : h[0] ∈ h := (hmem _).2 (Or.inl rfl)
        obtain ⟨hxok, c, hc⟩ := hh.mem _ hxh
        have hat := at_of_cur hc
        have hlive := clive_of_cur hc
        have hh' : HOKc h' := ⟨hheap', fun y hy => hh.mem y ((hmem y).2 (Or.inr hy))⟩
        have hrok : ∀ c' ∈ h[0].rest, ChunkOK c' := fun c' hc' => hxok.ok c' (by rw [hlive]; exact List.mem_cons_of_mem _ hc')
        have hrord : ChunksOrd h[0].rest := by
          have : ChunksOrd (c :: h[0].rest) := by rw [← hlive]; exact hxok.ord
          exact (List.pairwise_cons.1 this).2
        obtain ⟨hh2, hperm2⟩ := pushIfNext_spec h' h[0] hh' hrok hrord
        have hpermh : (heapC h).Perm (c :: (heapC h' ++ h[0].rest)) := by
          have h1 := (heapC_perm hperm).symm
          have h2 : heapC (h'.push h[0]) = heapC h' ++ (c :: h[0].rest) := by simp [heapC, hlive]
          rw [h2] at h1
          exact h1.trans List.perm_middle
        have hlen : (heapC (pushIfNext h' h[0])).length < f := by
          have := hpermh.length_eq
          have := hperm2.length_eq
          simp only [List.length_cons, List.length_append] at *
          omega
        rw [hat]
        by_cases hdup : c.mint = prev.mint ∧ c.maxt = prev.maxt ∧ c.samples = prev.samples
        · simp only [hdup, and_self, if_true]
          have hcp : c = prev := chunk_ext hdup.1 hdup.2.1 hdup.2.2
          obtain ⟨popped, news, e1, e2, e3, e4, e5, e6⟩ := ih (pushIfNext h' h[0]) ov oMax prev hh2 hlen
          refine ⟨c :: popped, news, e1, e2, ?_, fun c' hc' => List.mem_cons_of_mem _ (e4 c' hc'), ?_, e6⟩
          · refine hpermh.trans ?_
            exact List.Perm.cons _ (hperm2.symm.trans e3)
          · intro p hp
            rcases List.mem_cons.1 hp with rfl | hp
            · exact Or.inl hcp
            · exact e5 p hp
        · rw [if_neg hdup, if_neg hdup, if_neg hdup]
          obtain ⟨popped, news, e1, e2, e3, e4, e5, e6⟩ := ih (pushIfNext h' h[0]) (ov ++ [c])
            (if c.maxt > oMax then c.maxt else oMax) c hh2 hlen
          refine ⟨c :: popped, c :: news, by rw [e1]; simp, e2, ?_, ?_, ?_, ?_⟩
          · refine hpermh.trans ?_
            exact List.Perm.cons _ (hperm2.symm.trans e3)
          · intro c' hc'
            rcases List.mem_cons.1 hc' with rfl | hc'
            · simp
            · exact List.mem_cons_of_mem _ (e4 c' hc')
          · intro p hp
            rcases List.mem_cons.1 hp with rfl | hp
            · exact Or.inr (by simp)
            · rcases e5 p hp with rfl | h1
              · exact Or.inr (by simp)
              · exact Or.inr (List.mem_cons_of_mem _ h1)
          · intro p hp
            obtain ⟨a1, a2⟩ := e6 p hp
            refine ⟨by split at a1 <;> omega, ?_⟩
            intro c' hc'
            rcases List.mem_cons.1 hc' with rfl | hc'
            · split at a1 <;> omega
            · exact a2 c' hc'

/-! ## the re-encoder -/

theorem encodeAux_spec : ∀ (xs cur : List Sample) (acc : List Chunk),
    ∃ segs : List (List Sample), (∀ seg ∈ segs, seg ≠ []) ∧ segs.flatten = cur.reverse ++ xs ∧
      encodeAux xs cur acc = acc.reverse ++ segs.map Chunk.ofSamples := by
  intro xs
  induction xs with
  | nil =>
    intro cur acc
    unfold encodeAux
    cases cur with
    | nil => exact ⟨[], by simp, by simp, by simp⟩
    | cons p r =>
      refine ⟨[(p :: r).reverse], by simp, by simp, by simp⟩
  | cons s tl ih =>
    intro cur acc
    unfold encodeAux
    cases cur with
    | nil =>
      obtain ⟨segs, a, b, c⟩ := ih [s] acc
      exact ⟨segs, a, by simpa using b, c⟩
    | cons p r =>
      simp only
      split
      · obtain ⟨segs, a, b, c⟩ := ih [s] (Chunk.ofSamples (p :: r).reverse :: acc)
        refine ⟨(p :: r).reverse :: segs, ?_, ?_, ?_⟩
        · intro seg hseg
          rcases List.mem_cons.1 hseg with rfl | hseg
          · simp
          · exact a seg hseg
        · simp only [List.flatten_cons, b]; simp
        · rw [c]; simp
      · obtain ⟨segs, a, b, c⟩ := ih (s :: p :: r) acc
        exact ⟨segs, a, by rw [b]; simp, c⟩

theorem ofSamples_spec (seg : List Sample) (hne : seg ≠ []) (hs : SortedL seg) (hgt : ∀ x ∈ seg, MinI64 < x.t) :
    ChunkOK (Chunk.ofSamples seg) ∧ (Chunk.ofSamples seg).samples = seg ∧
      (∃ a ∈ seg, (Chunk.ofSamples seg).mint = a.t) ∧ ∃ b ∈ seg, (Chunk.ofSamples seg).maxt = b.t := by
  cases seg with
  | nil => exact (hne rfl).elim
  | cons s r =>
    have hlast : ∃ b, (s :: r).getLast? = some b ∧ b ∈ s :: r := by
      refine ⟨_, List.getLast?_eq_some_getLast (by simp), List.getLast_mem _⟩
    obtain ⟨b, hb, hbm⟩ := hlast
    have hmax : (Chunk.ofSamples (s :: r)).maxt = b.t := by simp [Chunk.ofSamples, hb]
    have hmin : (Chunk.ofSamples (s :: r)).mint = s.t := rfl
    have hsr := List.pairwise_cons.1 hs
    have hble : ∀ x ∈ s :: r, x.t ≤ b.t := by
      -- the last element is the largest
      have : ∀ (l : List Sample), SortedL l → ∀ b, l.getLast? = some b → ∀ x ∈ l, x.t ≤ b.t := by
        intro l
        induction l with
        | nil => intro _ b h; simp at h
        | cons a l ih =>
          intro hsl b hb x hx
          have hsl' := List.pairwise_cons.1 hsl
          cases l with
          | nil =>
            simp at hb hx; subst hb; subst hx; omega
          | cons a' l' =>
            rw [List.getLast?_cons_cons] at hb
            rcases List.mem_cons.1 hx with rfl | hx
            · have h1 := ih hsl'.2 b hb a' (by simp)
              have h2 := hsl'.1 a' (by simp)
              omega
            · exact ih hsl'.2 b hb x hx
      exact this _ hs b hb
    refine ⟨⟨by simp [Chunk.ofSamples], hs, ?_, hgt⟩, rfl, ⟨s, by simp, hmin⟩, ⟨b, hbm, hmax⟩⟩
    intro x hx
    change x ∈ s :: r at hx
    rw [hmin, hmax]
    refine ⟨?_, hble x hx⟩
    rcases List.mem_cons.1 hx with rfl | hx
    · omega
    · have := hsr.1 x hx; omega

theorem ofSamples_range (seg : List Sample) (hne : seg ≠ []) (hs : SortedL seg) :
    (Chunk.ofSamples seg).samples = seg ∧ (∃ a ∈ seg, (Chunk.ofSamples seg).mint = a.t) ∧
      (∃ b ∈ seg, (Chunk.ofSamples seg).maxt = b.t) ∧
      ∀ x ∈ seg, (Chunk.ofSamples seg).mint ≤ x.t ∧ x.t ≤ (Chunk.ofSamples seg).maxt := by
  -- shift all timestamps? no: re-use `ofSamples_spec` on the same list; its `gt` hypothesis is only
  -- needed for `ChunkOK.gt`, so prove the range facts directly from the definition
  cases seg with
  | nil => exact (hne rfl).elim
  | cons s r =>
    obtain ⟨b, hb, hbm⟩ : ∃ b, (s :: r).getLast? = some b ∧ b ∈ s :: r :=
      ⟨_, List.getLast?_eq_some_getLast (by simp), List.getLast_mem _⟩
    have hmax : (Chunk.ofSamples (s :: r)).maxt = b.t := by simp [Chunk.ofSamples, hb]
    have hmin : (Chunk.ofSamples (s :: r)).mint = s.t := rfl
    have hsr := List.pairwise_cons.1 hs
    have hlast : ∀ (l : List Sample), SortedL l → ∀ b, l.getLast? = some b → ∀ x ∈ l, x.t ≤ b.t := by
      intro l
      induction l with
      | nil => intro _ b h; simp at h
      | cons a l ih =>
        intro hsl b hb x hx
        have hsl' := List.pairwise_cons.1 hsl
        cases l with
        | nil => simp at hb hx; subst hb; subst hx; omega
        | cons a' l' =>
          rw [List.getLast?_cons_cons] at hb
          rcases List.mem_cons.1 hx with rfl | hx
          · have h1 := ih hsl'.2 b hb a' (by simp)
            have h2 := hsl'.1 a' (by simp)
            omega
          · exact ih hsl'.2 b hb x hx
    refine ⟨rfl, ⟨s, by simp, hmin⟩, ⟨b, hbm, hmax⟩, ?_⟩
    intro x hx
    rw [hmin, hmax]
    refine ⟨?_, hlast _ hs b hb x hx⟩
    rcases List.mem_cons.1 hx with rfl | hx
    · omega
    · have := hsr.1 x hx; omega

/-- re-encoding a strictly increasing sample list: well-formed, ordered, disjoint chunks holding
    exactly that list -/
theorem encodeChunks_spec (xs : List Sample) (hs : SortedL xs) (hgt : ∀ x ∈ xs, MinI64 < x.t) :
    (∀ c ∈ encodeChunks xs, ChunkOK c ∧ (∃ a ∈ c.samples, c.mint = a.t) ∧ ∃ b ∈ c.samples, c.maxt = b.t) ∧
      ChunksOrd (encodeChunks xs) ∧ (encodeChunks xs).flatMap (·.samples) = xs := by
  obtain ⟨segs, hne, hflat, henc⟩ := encodeAux_spec xs [] []
  simp only [List.reverse_nil, List.nil_append] at hflat henc
  have henc' : encodeChunks xs = segs.map Chunk.ofSamples := henc
  rw [henc']
  have hpw := List.pairwise_flatten.1 (hflat ▸ hs : SortedL segs.flatten)
  have hsegmem : ∀ seg ∈ segs, ∀ x ∈ seg, x ∈ xs := by
    intro seg hseg x hx; rw [← hflat]; exact List.mem_flatten.2 ⟨seg, hseg, hx⟩
  have hspec : ∀ seg ∈ segs, _ := fun seg hseg =>
    ofSamples_spec seg (hne seg hseg) (hpw.1 seg hseg) (fun x hx => hgt x (hsegmem seg hseg x hx))
  refine ⟨?_, ?_, ?_⟩
  · intro c hc
    obtain ⟨seg, hseg, rfl⟩ := List.mem_map.1 hc
    obtain ⟨h1, h2, h3, h4⟩ := hspec seg hseg
    rw [h2]
    exact ⟨h1, h3, h4⟩
  · unfold ChunksOrd
    rw [List.pairwise_map]
    refine List.Pairwise.imp_of_mem ?_ hpw.2
    intro s1 s2 h1 h2 hr
    obtain ⟨_, _, _, b, hb, hbt⟩ := hspec s1 h1
    obtain ⟨_, _, ⟨a, ha, hat⟩, _⟩ := hspec s2 h2
    rw [hbt, hat]
    exact hr b hb a ha
  · rw [← hflat]
    clear hflat henc henc' hpw hsegmem
    induction segs with
    | nil => rfl
    | cons seg segs ih =>
      have h1 := (hspec seg (by simp)).2.1
      simp only [List.map_cons, List.flatMap_cons, List.flatten_cons, h1]
      rw [ih (fun s hs' => hne s (by simp [hs'])) (fun s hs' => hspec s (by simp [hs']))]

/-! ## the vertical merge, as the re-encoder reads it -/

/-- `x` is `y` up to the counter-reset hint that `AtHistogram` may reset (only for histograms whose
    hint is not "gauge") -/
def Hm (x y : Sample) : Prop :=
  x = y ∨ (y.kind ≠ .float ∧ y.payload % 4 ≠ 3 ∧ x = { y with payload := y.payload / 4 * 4 })

theorem Hm.t {x y : Sample} (h : Hm x y) : x.t = y.t := by
  rcases h with rfl | ⟨_, _, rfl⟩ <;> rfl

theorem Hm.refl (x : Sample) : Hm x x := Or.inl rfl

theorem Hm.trans {x y z : Sample} (h1 : Hm x y) (h2 : Hm y z) : Hm x z := by
  rcases h1 with rfl | ⟨k1, p1, rfl⟩
  · exact h2
  · rcases h2 with rfl | ⟨k2, p2, rfl⟩
    · exact Or.inr ⟨k1, p1, rfl⟩
    · refine Or.inr ⟨k2, p2, ?_⟩
      show Sample.mk _ _ _ = Sample.mk _ _ _
      simp only [Sample.mk.injEq, true_and]
      omega

theorem atSample_hm (c : Chain) (s : Sample) : Hm (c.atSample s) s := by
  unfold Chain.atSample
  split
  · rename_i h
    exact Or.inr ⟨h.1, h.2.2, rfl⟩
  · exact Or.inl rfl

theorem drainAux_hm : ∀ (fuel : Nat) (c : Chain) (raw out r o : List Sample),
    (∀ x ∈ out, ∃ y ∈ raw, Hm x y) → out.map (·.t) = raw.map (·.t) →
    Chain.drainAux fuel c raw out = some (r, o) →
    (∀ x ∈ o, ∃ y ∈ r, Hm x y) ∧ o.map (·.t) = r.map (·.t) := by
  intro fuel
  induction fuel with
  | zero => intro c raw out r o _ _ h; simp [Chain.drainAux] at h
  | succ f ih =>
    intro c raw out r o h1 h2 h
    unfold Chain.drainAux at h
    cases hn : c.next with
    | mk c' res =>
      rw [hn] at h
      cases res with
      | val s =>
        simp only at h
        refine ih c' (s :: raw) (c'.atSample s :: out) r o ?_ ?_ h
        · intro x hx
          rcases List.mem_cons.1 hx with rfl | hx
          · exact ⟨s, by simp, atSample_hm c' s⟩
          · obtain ⟨y, hy, hxy⟩ := h1 x hx
            exact ⟨y, List.mem_cons_of_mem _ hy, hxy⟩
        · simp only [List.map_cons, h2, (atSample_hm c' s).t]
      | fin =>
        simp only [Option.some.injEq, Prod.mk.injEq] at h
        obtain ⟨rfl, rfl⟩ := h
        refine ⟨?_, by simp [List.map_reverse, h2]⟩
        intro x hx
        obtain ⟨y, hy, hxy⟩ := h1 x (by simpa using hx)
        exact ⟨y, by simpa using hy, hxy⟩
      | err => simp at h
      | panic => simp at h

/-- what `chainMerge` returns for sorted inputs above `MinInt64` -/
theorem chainMerge_spec (inputs : List (List Sample)) (hin : ∀ l ∈ inputs, SortedL l ∧ ∀ s ∈ l, MinI64 < s.t)
    (merged : List Sample) (h : chainMerge inputs = some merged) :
    SortedL merged ∧ (∀ x ∈ merged, ∃ l ∈ inputs, ∃ y ∈ l, Hm x y) ∧
      (∀ l ∈ inputs, ∀ p ∈ l, p.t ∈ merged.map (·.t)) ∧ ∀ x ∈ merged, MinI64 < x.t := by
  unfold chainMerge at h
  cases hd : (Chain.ofLists (inputs.map fun l => (l, false))).drain with
  | none => rw [hd] at h; simp at h
  | some ro =>
    obtain ⟨raw, out⟩ := ro
    rw [hd] at h
    simp only [Option.map_some, Option.some.injEq] at h
    subst h
    have hf := ofLists_fresh inputs hin
    have hrest := ofLists_rest inputs
    unfold Chain.drain at hd
    obtain ⟨a, b, c⟩ := drain_fresh _ (fun it hit => (hf.its it hit).1) _ raw out hd
    obtain ⟨d, e⟩ := drainAux_hm _ _ [] [] raw out (by simp) rfl hd
    have hrawin : ∀ y ∈ raw, ∃ l ∈ inputs, y ∈ l := by
      intro y hy
      obtain ⟨it, hit, hyr⟩ := b y hy
      exact ⟨it.rest, by rw [← hrest]; exact List.mem_map_of_mem hit, hyr⟩
    refine ⟨?_, ?_, ?_, ?_⟩
    · have : (raw.map (·.t)).Pairwise (· < ·) := by rw [List.pairwise_map]; exact a
      rw [← e, List.pairwise_map] at this
      exact this
    · intro x hx
      obtain ⟨y, hy, hxy⟩ := d x hx
      obtain ⟨l, hl, hyl⟩ := hrawin y hy
      exact ⟨l, hl, y, hyl, hxy⟩
    · intro l hl p hp
      rw [← hrest] at hl
      obtain ⟨it, hit, rfl⟩ := List.mem_map.1 hl
      show p.t ∈ List.map (·.t) out
      rw [e]
      exact c it hit p hp
    · intro x hx
      obtain ⟨y, hy, hxy⟩ := d x hx
      obtain ⟨l, hl, hyl⟩ := hrawin y hy
      rw [hxy.t]
      exact (hin l hl).2 y hyl

/-! ## one `Next` of the compacting iterator -/

def smp (cs : List Chunk) : List Sample := cs.flatMap (·.samples)

theorem mem_smp {cs : List Chunk} {x : Sample} : x ∈ smp cs ↔ ∃ c ∈ cs, x ∈ c.samples := by
  simp [smp, List.mem_flatMap]

theorem chunkFuel_gt (h : Array CIt) : (heapC h).length < chunkFuel h := by
  have hgen : ∀ (l : List CIt) (n : Nat),
      n + (l.flatMap CIt.live).length ≤ l.foldl (fun n it => n + it.rest.length + 1) n := by
    intro l
    induction l with
    | nil => intro n; simp
    | cons x l ih =>
      intro n
      simp only [List.foldl_cons, List.flatMap_cons, List.length_append]
      have := ih (n + x.rest.length + 1)
      have hx : x.live.length ≤ x.rest.length + 1 := by
        simp only [CIt.live, List.length_append]
        cases x.cur <;> simp <;> omega
      omega
  have := hgen h.toList 1
  simp only [chunkFuel, heapC]
  omega

/-- what one successful `Next` guarantees: `P` pending before, `e` emitted, `P'` pending after -/
structure CNPost (P : List Chunk) (e : Chunk) (P' : List Chunk) : Prop where
  eok : ChunkOK e
  lt : ∀ p ∈ P', e.maxt < p.mint
  lb : ∀ p' ∈ e :: P', ∃ p ∈ P, p.mint ≤ p'.mint
  sub : ∀ x ∈ smp (e :: P'), ∃ y ∈ smp P, Hm x y
  cov : ∀ y ∈ smp P, y.t ∈ (smp (e :: P')).map (·.t)

def CNextPost (h : Array CIt) : Array CIt × CRes → Prop
  | (h', .chunk e) => HOKc h' ∧ CNPost (heapC h) e (heapC h')
  | (_, .fin) => heapC h = []
  | _ => True

theorem compactNext_spec (h : Array CIt) (hh : HOKc h) : CNextPost h (compactNext chainMerge h) := by
  unfold compactNext
  by_cases h0 : h.size = 0
  · rw [pop_cor0 h h0]
    have : h = #[] := Array.eq_empty_of_size_eq_zero h0
    subst this
    simp [CNextPost, heapC]
  · have hpos : 0 < h.size := by omega
    obtain ⟨x, h1, hpop, htop', hheap1, hperm, hmem, _⟩ := pop_cor2 sw_ltCIt h hh.heap h0
    have hx0 : x = h[0] := by
      have htop : h[0]? = some h[0] := by simp [hpos]
      rw [htop] at htop'; exact (Option.some.inj htop').symm
    rw [hpop]
    simp only
    have hxh : x ∈ h := (hmem _).2 (Or.inl rfl)
    obtain ⟨hxok, c0, hc⟩ := hh.mem _ hxh
    have hat := at_of_cur hc
    have hlive := clive_of_cur hc
    rw [hat]
    have hh1 : HOKc h1 := ⟨hheap1, fun y hy => hh.mem y ((hmem y).2 (Or.inr hy))⟩
    have hrok : ∀ c' ∈ x.rest, ChunkOK c' := fun c' hc' => hxok.ok c' (by rw [hlive]; exact List.mem_cons_of_mem _ hc')
    have hrord : ChunksOrd x.rest := by
      have : ChunksOrd (c0 :: x.rest) := by rw [← hlive]; exact hxok.ord
      exact (List.pairwise_cons.1 this).2
    have hc0ok : ChunkOK c0 := hxok.ok c0 (by rw [hlive]; simp)
    obtain ⟨hh2, hperm2⟩ := pushIfNext_spec h1 x hh1 hrok hrord
    have hpermh : (heapC h).Perm (c0 :: heapC (pushIfNext h1 x)) := by
      have e1 := (heapC_perm hperm).symm
      have e2 : heapC (h1.push x) = heapC h1 ++ (c0 :: x.rest) := by simp [heapC, hlive]
      rw [e2] at e1
      exact (e1.trans List.perm_middle).trans (List.Perm.cons _ hperm2.symm)
    have hminP : ∀ p ∈ heapC h, c0.mint ≤ p.mint := by
      intro p hp
      have := heap_min_mint h hh hpos p hp
      rw [← hx0, hat] at this
      exact this
    obtain ⟨popped, news, e1, hh3, e3, e4, e5, e6⟩ :=
      overlapLoop_spec (chunkFuel (pushIfNext h1 x)) (pushIfNext h1 x) [] c0.maxt c0 hh2 (chunkFuel_gt _)
    cases hol : overlapLoop (chunkFuel (pushIfNext h1 x)) (pushIfNext h1 x) [] c0.maxt c0 with
    | mk h3 ov =>
      rw [hol] at e1 hh3 e3 e6
      simp only [List.nil_append] at e1 hh3 e3 e6
      subst e1
      simp only
      have hmemP : ∀ q, q ∈ heapC h ↔ q = c0 ∨ q ∈ popped ∨ q ∈ heapC h3 := by
        intro q
        rw [hpermh.mem_iff, List.mem_cons, e3.mem_iff, List.mem_append]
      have hgrp : ∀ g ∈ ov ++ [c0], g ∈ heapC h := by
        intro g hg
        rcases List.mem_append.1 hg with hg | hg
        · exact (hmemP g).2 (Or.inr (Or.inl (e4 g hg)))
        · simp at hg; subst hg; exact (hmemP _).2 (Or.inl rfl)
      have hpoppedgrp : ∀ q ∈ popped, q ∈ ov ++ [c0] := by
        intro q hq
        rcases e5 q hq with rfl | hq'
        · simp
        · exact List.mem_append_left _ hq'
      have hgrpok : ∀ g ∈ ov ++ [c0], ChunkOK g := by
        intro g hg
        obtain ⟨y, hy, hgy⟩ := mem_heapC.1 (hgrp g hg)
        exact (hh.mem y hy).1.ok g hgy
      have hgrplt : ∀ g ∈ ov ++ [c0], ∀ p ∈ heapC h3, g.maxt < p.mint := by
        intro g hg p hp
        rcases List.mem_append.1 hg with hg | hg
        · exact (e6 p hp).2 g hg
        · simp at hg; subst hg; exact (e6 p hp).1
      by_cases hov : ov.isEmpty = true
      · rw [if_pos hov]
        have hnil : ov = [] := by simpa using hov
        subst hnil
        refine ⟨hh3, hc0ok, fun p hp => (e6 p hp).1, ?_, ?_, ?_⟩
        · intro p' hp'
          refine ⟨p', ?_, Int.le_refl _⟩
          rcases List.mem_cons.1 hp' with rfl | hp'
          · exact (hmemP _).2 (Or.inl rfl)
          · exact (hmemP _).2 (Or.inr (Or.inr hp'))
        · intro s hs
          obtain ⟨q, hq, hsq⟩ := mem_smp.1 hs
          refine ⟨s, mem_smp.2 ⟨q, ?_, hsq⟩, Hm.refl s⟩
          rcases List.mem_cons.1 hq with rfl | hq
          · exact (hmemP _).2 (Or.inl rfl)
          · exact (hmemP _).2 (Or.inr (Or.inr hq))
        · intro y hy
          obtain ⟨q, hq, hyq⟩ := mem_smp.1 hy
          refine List.mem_map.2 ⟨y, mem_smp.2 ?_, rfl⟩
          rcases (hmemP q).1 hq with rfl | hq | hq
          · exact ⟨_, by simp, hyq⟩
          · have := hpoppedgrp q hq
            simp at this; subst this
            exact ⟨_, by simp, hyq⟩
          · exact ⟨q, List.mem_cons_of_mem _ hq, hyq⟩
      · rw [if_neg hov]
        cases hm : chainMerge ((ov ++ [c0]).map (·.samples)) with
        | none => trivial
        | some merged =>
          simp only
          obtain ⟨m1, m2, m3, m4⟩ := chainMerge_spec _ (by
            intro l hl
            obtain ⟨g, hg, rfl⟩ := List.mem_map.1 hl
            exact ⟨(hgrpok g hg).sorted, (hgrpok g hg).gt⟩) merged hm
          obtain ⟨n1, n2, n3⟩ := encodeChunks_spec merged m1 m4
          cases henc : encodeChunks merged with
          | nil => trivial
          | cons c rest =>
            rw [henc] at n1 n2 n3
            simp only
            -- every encoded chunk comes from the group
            have hencfrom : ∀ q ∈ c :: rest, ∀ s ∈ q.samples, ∃ g ∈ ov ++ [c0], ∃ y ∈ g.samples, Hm s y := by
              intro q hq s hs
              have hsm : s ∈ merged := by
                rw [← n3]; exact List.mem_flatMap.2 ⟨q, hq, hs⟩
              obtain ⟨l, hl, y, hy, hsy⟩ := m2 s hsm
              obtain ⟨g, hg, rfl⟩ := List.mem_map.1 hl
              exact ⟨g, hg, y, hy, hsy⟩
            have hpend : ∃ h4, (if rest.isEmpty = true then h3 else push ltCIt h3 ⟨0, some (rest.headD c), rest.drop 1⟩) = h4 ∧
                HOKc h4 ∧ ∀ q, q ∈ heapC h4 ↔ q ∈ heapC h3 ∨ q ∈ rest := by
              cases rest with
              | nil => exact ⟨h3, rfl, hh3, by simp⟩
              | cons r0 rest' =>
                refine ⟨_, rfl, ?_, ?_⟩
                · simp only [List.isEmpty_cons, Bool.false_eq_true, if_false]
                  refine HOKc_push h3 _ hh3 ⟨?_, ?_⟩ r0 rfl
                  · intro q hq
                    have : q ∈ r0 :: rest' := by simpa [CIt.live] using hq
                    exact (n1 q (List.mem_cons_of_mem _ this)).1
                  · show ChunksOrd _
                    have := (List.pairwise_cons.1 n2).2
                    simpa [CIt.live, ChunksOrd] using this
                · intro q
                  simp only [List.isEmpty_cons, Bool.false_eq_true, if_false]
                  rw [(heapC_push h3 _).mem_iff]
                  simp [CIt.live]
            obtain ⟨h4, hh4eq, hh4, hmem4⟩ := hpend
            rw [hh4eq]
            refine ⟨hh4, (n1 c (by simp)).1, ?_, ?_, ?_, ?_⟩
            · intro p hp
              rcases (hmem4 p).1 hp with hp | hp
              · obtain ⟨_, _, b, hb, hbt⟩ := n1 c (by simp)
                obtain ⟨g, hg, y, hy, hby⟩ := hencfrom c (by simp) b hb
                have := hgrplt g hg p hp
                have := ((hgrpok g hg).within y hy).2
                rw [hbt, hby.t]; omega
              · exact (List.pairwise_cons.1 n2).1 p hp
            · intro p' hp'
              have hcase : p' ∈ c :: rest ∨ p' ∈ heapC h3 := by
                rcases List.mem_cons.1 hp' with rfl | hp'
                · exact Or.inl (by simp)
                · rcases (hmem4 p').1 hp' with hp' | hp'
                  · exact Or.inr hp'
                  · exact Or.inl (List.mem_cons_of_mem _ hp')
              rcases hcase with hq | hq
              · obtain ⟨_, ⟨a, ha, hat'⟩, _⟩ := n1 p' hq
                obtain ⟨g, hg, y, hy, hay⟩ := hencfrom p' hq a ha
                refine ⟨g, hgrp g hg, ?_⟩
                have := ((hgrpok g hg).within y hy).1
                rw [hat', hay.t]; exact this
              · exact ⟨p', (hmemP _).2 (Or.inr (Or.inr hq)), Int.le_refl _⟩
            · intro s hs
              obtain ⟨q, hq, hsq⟩ := mem_smp.1 hs
              have hcase : q ∈ c :: rest ∨ q ∈ heapC h3 := by
                rcases List.mem_cons.1 hq with rfl | hq
                · exact Or.inl (by simp)
                · rcases (hmem4 q).1 hq with hq | hq
                  · exact Or.inr hq
                  · exact Or.inl (List.mem_cons_of_mem _ hq)
              rcases hcase with hq | hq
              · obtain ⟨g, hg, y, hy, hsy⟩ := hencfrom q hq s hsq
                exact ⟨y, mem_smp.2 ⟨g, hgrp g hg, hy⟩, hsy⟩
              · exact ⟨s, mem_smp.2 ⟨q, (hmemP _).2 (Or.inr (Or.inr hq)), hsq⟩, Hm.refl s⟩
            · intro y hy
              obtain ⟨q, hq, hyq⟩ := mem_smp.1 hy
              have hcase : q ∈ ov ++ [c0] ∨ q ∈ heapC h3 := by
                rcases (hmemP q).1 hq with rfl | hq | hq
                · exact Or.inl (by simp)
                · exact Or.inl (hpoppedgrp q hq)
                · exact Or.inr hq
              rcases hcase with hq | hq
              · have := m3 q.samples (List.mem_map.2 ⟨q, hq, rfl⟩) y hyq
                obtain ⟨s, hs, hst⟩ := List.mem_map.1 this
                rw [← n3] at hs
                obtain ⟨q', hq', hsq'⟩ := List.mem_flatMap.1 hs
                refine List.mem_map.2 ⟨s, mem_smp.2 ⟨q', ?_, hsq'⟩, hst⟩
                rcases List.mem_cons.1 hq' with rfl | hq'
                · simp
                · exact List.mem_cons_of_mem _ ((hmem4 q').2 (Or.inr hq'))
              · exact List.mem_map.2 ⟨y, mem_smp.2 ⟨q, List.mem_cons_of_mem _ ((hmem4 q).2 (Or.inl hq)), hyq⟩, rfl⟩

/-! ## draining the compacting iterator -/

structure DrainPost (P es : List Chunk) : Prop where
  ok : ∀ e ∈ es, ChunkOK e
  ord : ChunksOrd es
  lb : ∀ e ∈ es, ∃ p ∈ P, p.mint ≤ e.mint
  sub : ∀ x ∈ smp es, ∃ y ∈ smp P, Hm x y
  cov : ∀ y ∈ smp P, y.t ∈ (smp es).map (·.t)

theorem smp_cons (e : Chunk) (es : List Chunk) : smp (e :: es) = e.samples ++ smp es := by
  simp [smp]

theorem compactDrain_spec : ∀ (fuel : Nat) (h : Array CIt) (acc out : List Chunk), HOKc h →
    compactDrain chainMerge fuel h acc = (out, .fin) →
    ∃ es, out = acc.reverse ++ es ∧ DrainPost (heapC h) es := by
  intro fuel
  induction fuel with
  | zero => intro h acc out _ hd; simp [compactDrain] at hd
  | succ f ih =>
    intro h acc out hh hd
    have hn := compactNext_spec h hh
    unfold compactDrain at hd
    cases hnx : compactNext chainMerge h with
    | mk h' r =>
      rw [hnx] at hd hn
      cases r with
      | chunk e =>
        simp only at hd
        obtain ⟨hh', hp⟩ := hn
        obtain ⟨es, he, hpost⟩ := ih h' (e :: acc) out hh' hd
        refine ⟨e :: es, by rw [he]; simp, ?_, ?_, ?_, ?_, ?_⟩
        · intro e' he'
          rcases List.mem_cons.1 he' with rfl | he'
          · exact hp.eok
          · exact hpost.ok e' he'
        · refine List.pairwise_cons.2 ⟨?_, hpost.ord⟩
          intro e' he'
          obtain ⟨p', hp', hle⟩ := hpost.lb e' he'
          have := hp.lt p' hp'
          omega
        · intro e' he'
          rcases List.mem_cons.1 he' with rfl | he'
          · exact hp.lb _ (by simp)
          · obtain ⟨p', hp', hle⟩ := hpost.lb e' he'
            obtain ⟨p, hpP, hle2⟩ := hp.lb p' (List.mem_cons_of_mem _ hp')
            exact ⟨p, hpP, by omega⟩
        · intro x hx
          rw [smp_cons] at hx
          rcases List.mem_append.1 hx with hx | hx
          · exact hp.sub x (by rw [smp_cons]; exact List.mem_append_left _ hx)
          · obtain ⟨y', hy', hxy'⟩ := hpost.sub x hx
            obtain ⟨y, hy, hy'y⟩ := hp.sub y' (by rw [smp_cons]; exact List.mem_append_right _ hy')
            exact ⟨y, hy, hxy'.trans hy'y⟩
        · intro y hy
          obtain ⟨s, hs, hst⟩ := List.mem_map.1 (hp.cov y hy)
          rw [smp_cons] at hs
          rw [smp_cons, List.map_append, List.mem_append]
          rcases List.mem_append.1 hs with hs | hs
          · exact Or.inl (List.mem_map.2 ⟨s, hs, hst⟩)
          · have := hpost.cov s hs
            rw [hst] at this
            exact Or.inr this
      | fin =>
        simp only [Prod.mk.injEq, and_true] at hd
        have hnil : heapC h = [] := hn
        refine ⟨[], by simp [hd], ?_, ?_, ?_, ?_, ?_⟩
        · simp
        · exact List.Pairwise.nil
        · simp
        · simp [smp]
        · rw [hnil]; simp [smp]
      | err => simp at hd
      | panic => simp at hd

theorem foldl_pushIfNext_spec : ∀ (its : List CIt) (h0 : Array CIt), HOKc h0 →
    (∀ it ∈ its, (∀ c ∈ it.rest, ChunkOK c) ∧ ChunksOrd it.rest) →
    HOKc (its.foldl pushIfNext h0) ∧ (heapC (its.foldl pushIfNext h0)).Perm (heapC h0 ++ its.flatMap (·.rest)) := by
  intro its
  induction its with
  | nil => intro h0 hh _; exact ⟨hh, by simp⟩
  | cons it tl ih =>
    intro h0 hh hall
    obtain ⟨a, b⟩ := pushIfNext_spec h0 it hh (hall it (by simp)).1 (hall it (by simp)).2
    obtain ⟨c, d⟩ := ih (pushIfNext h0 it) a (fun x hx => hall x (by simp [hx]))
    refine ⟨c, d.trans ?_⟩
    simp only [List.flatMap_cons, ← List.append_assoc]
    exact List.Perm.append_right _ b

theorem czip_rest (series : List (List Chunk)) :
    (series.zipIdx.map fun (cs, i) => CIt.ofList i cs).map (·.rest) = series := by
  rw [List.map_map]
  have : ((fun x : CIt => x.rest) ∘ fun (x : List Chunk × Nat) => CIt.ofList x.2 x.1) = Prod.fst := by
    funext x; rfl
  rw [this, List.zipIdx_map_fst]

/-- The compacting merger over well-formed chunk series (each: chunks well-formed, time-ordered,
    disjoint): if it ends normally, the chunks it produced are well-formed, ordered and disjoint, every
    sample in them is an input sample (up to a reset counter-reset hint) and every input timestamp is
    present. -/
theorem compactAll_spec (series : List (List Chunk))
    (hwf : ∀ cs ∈ series, (∀ c ∈ cs, ChunkOK c) ∧ ChunksOrd cs) (out : List Chunk)
    (h : compactAll series = (out, .fin)) : DrainPost series.flatten out := by
  unfold compactAll at h
  simp only at h
  have hrest := czip_rest series
  have hall : ∀ it ∈ (series.zipIdx.map fun (cs, i) => CIt.ofList i cs),
      (∀ c ∈ it.rest, ChunkOK c) ∧ ChunksOrd it.rest := by
    intro it hit
    have : it.rest ∈ series := by rw [← hrest]; exact List.mem_map_of_mem hit
    exact hwf _ this
  obtain ⟨hh, hperm⟩ := foldl_pushIfNext_spec _ #[] HOKc_empty hall
  have hflat : (series.zipIdx.map fun (cs, i) => CIt.ofList i cs).flatMap (·.rest) = series.flatten := by
    rw [List.flatMap_def, hrest]
  have h0 : heapC (#[] : Array CIt) = [] := by simp [heapC]
  rw [hflat, h0, List.nil_append] at hperm
  obtain ⟨es, he, hpost⟩ := compactDrain_spec _ _ [] out hh h
  simp only [List.reverse_nil, List.nil_append] at he
  subst he
  have hmem : ∀ q, q ∈ heapC ((series.zipIdx.map fun (cs, i) => CIt.ofList i cs).foldl pushIfNext #[]) ↔ q ∈ series.flatten :=
    fun q => hperm.mem_iff
  have hsmp : ∀ y, y ∈ smp (heapC ((series.zipIdx.map fun (cs, i) => CIt.ofList i cs).foldl pushIfNext #[])) ↔ y ∈ smp series.flatten := by
    intro y
    rw [mem_smp, mem_smp]
    constructor
    · rintro ⟨c, hc, hy⟩; exact ⟨c, (hmem c).1 hc, hy⟩
    · rintro ⟨c, hc, hy⟩; exact ⟨c, (hmem c).2 hc, hy⟩
  refine ⟨hpost.ok, hpost.ord, ?_, ?_, ?_⟩
  · intro e he
    obtain ⟨p, hp, hle⟩ := hpost.lb e he
    exact ⟨p, (hmem p).1 hp, hle⟩
  · intro x hx
    obtain ⟨y, hy, hxy⟩ := hpost.sub x hx
    exact ⟨y, (hsmp y).1 hy, hxy⟩
  · intro y hy
    exact hpost.cov y ((hsmp y).2 hy)

theorem strict_ext : ∀ (l1 l2 : List Int), l1.Pairwise (· < ·) → l2.Pairwise (· < ·) →
    (∀ t, t ∈ l1 ↔ t ∈ l2) → l1 = l2
  | [], [], _, _, _ => rfl
  | [], b :: _, _, _, h => by have := (h b).2 (by simp); simp at this
  | a :: _, [], _, _, h => by have := (h a).1 (by simp); simp at this
  | a :: l1, b :: l2, h1, h2, h => by
    have h1' := List.pairwise_cons.1 h1
    have h2' := List.pairwise_cons.1 h2
    have hab : a = b := by
      have ha := (h a).1 (by simp)
      have hb := (h b).2 (by simp)
      rcases List.mem_cons.1 ha with ha | ha
      · exact ha
      · rcases List.mem_cons.1 hb with hb | hb
        · exact hb.symm
        · have := h1'.1 b hb; have := h2'.1 a ha; omega
    subst hab
    congr 1
    apply strict_ext l1 l2 h1'.2 h2'.2
    intro t
    constructor
    · intro ht
      rcases List.mem_cons.1 ((h t).1 (List.mem_cons_of_mem _ ht)) with rfl | h3
      · have := h1'.1 _ ht; omega
      · exact h3
    · intro ht
      rcases List.mem_cons.1 ((h t).2 (List.mem_cons_of_mem _ ht)) with rfl | h3
      · have := h2'.1 _ ht; omega
      · exact h3

/-- samples of well-formed, ordered, disjoint chunks are strictly increasing -/
theorem smp_sorted (es : List Chunk) (hok : ∀ e ∈ es, ChunkOK e) (hord : ChunksOrd es) : SortedL (smp es) := by
  unfold SortedL smp
  rw [List.pairwise_flatMap]
  refine ⟨fun e he => (hok e he).sorted, ?_⟩
  refine List.Pairwise.imp_of_mem ?_ hord
  intro a b ha hb hab x hx y hy
  have := ((hok a ha).within x hx).2
  have := ((hok b hb).within y hy).1
  omega

end Prom.Merge
