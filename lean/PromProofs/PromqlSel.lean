import PromProofs.PromqlLex
import PromProofs.PromqlLexString
import PromProofs.PromqlFrag
/-
  Property C26: the core of a vector selector — metric name and `{matchers}` — as printed by
  `selectorCoreText` is lexed (`selCore_lex`) and parsed back (`selCore_parses`) to the same selector
  with its matchers in printed (sorted) order.
-/
namespace Prom.Promql

/-! ### definitions -/

def MatcherOK (m : Matcher) : Prop :=
  hasRC m.name = false ∧ hasRC m.value = false ∧
    ((m.typ = .re ∨ m.typ = .nre) → (regexInfo m.value).isSome = true)

def matchOpTok : MatchType → Tok
  | .eq => .eql | .ne => .op .neq [33, 61] | .re => .eqlRegex | .nre => .neqRegex

def matcherToks (m : Matcher) : List Tok :=
  [if matcherShouldQuote m.name then .string (quote m.name) else .ident m.name, matchOpTok m.typ,
    .string (quote m.value)]

/-- `m1,m2,…` -/
def matcherListToks : List Matcher → List Tok
  | [] => []
  | [m] => matcherToks m
  | m :: ms => matcherToks m ++ .comma :: matcherListToks ms

/-- `{m1,m2,…}` (nothing at all for the empty list) -/
def bracedToks : List Matcher → List Tok
  | [] => []
  | m :: ms => .lbrace :: (matcherListToks (m :: ms) ++ [.rbrace])

def NameOK (name : Bytes) : Prop :=
  isWordB name = true ∧ isFillWord name = false ∧ metricIdentOf (wordTok name) = some name

def selCoreToks (name : Bytes) (ms : List Matcher) : List Tok :=
  (if name.isEmpty then [] else [wordTok name]) ++ bracedToks (sortMs (keptMs name ms))

def SelOK (name : Bytes) (ms : List Matcher) : Prop :=
  SelWT name ms ∧ (name ≠ [] → NameOK name) ∧ (∀ m ∈ keptMs name ms, MatcherOK m)

/-- what may follow the selector core in a token list (not `{`, `(`, `by`, `without`) -/
def SelFollow : List Tok → Prop
  | .lbrace :: _ => False
  | .lparen :: _ => False
  | .kw .by _ :: _ => False
  | .kw .without _ :: _ => False
  | _ => True

/-! ### printed order = sorted by text -/

namespace Sel

theorem insertSorted_map_text (x : Matcher) (ys : List Matcher) :
    insertSorted x.text (ys.map Matcher.text) = (insertM x ys).map Matcher.text := by
  induction ys with
  | nil => rfl
  | cons y ys ih =>
    simp only [List.map_cons, insertSorted, insertM]
    split
    · rfl
    · rw [ih]; rfl

end Sel

/-- printed order of matchers = matchers sorted by text -/
theorem sortStrings_map_text (ms : List Matcher) :
    sortStrings (ms.map Matcher.text) = (sortMs ms).map Matcher.text := by
  induction ms with
  | nil => rfl
  | cons m ms ih =>
    show insertSorted m.text (sortStrings (ms.map Matcher.text)) = (insertM m (sortMs ms)).map Matcher.text
    rw [ih, Sel.insertSorted_map_text]

namespace Sel

/-! ### `sortMs` is a permutation; `keptMs` on well-typed selectors -/

theorem insertM_perm (x : Matcher) (ys : List Matcher) : (insertM x ys).Perm (x :: ys) := by
  induction ys with
  | nil => simp [insertM]
  | cons y ys ih =>
    simp only [insertM]
    split
    · exact List.Perm.refl _
    · exact ((List.Perm.cons y ih).trans (List.Perm.swap x y ys))

theorem sortMs_perm (xs : List Matcher) : (sortMs xs).Perm xs := by
  induction xs with
  | nil => simp [sortMs]
  | cons x xs ih =>
    have : sortMs (x :: xs) = insertM x (sortMs xs) := rfl
    rw [this]
    exact (insertM_perm x _).trans (List.Perm.cons x ih)

theorem mem_sortMs {x : Matcher} {xs : List Matcher} : x ∈ sortMs xs ↔ x ∈ xs :=
  (sortMs_perm xs).mem_iff

theorem sortMs_ne_nil {xs : List Matcher} (h : xs ≠ []) : sortMs xs ≠ [] := by
  intro h'
  have := (sortMs_perm xs).length_eq
  rw [h'] at this
  exact h (List.eq_nil_of_length_eq_zero this.symm)

theorem keptMs_nil (ms : List Matcher) : keptMs [] ms = ms := by
  unfold keptMs
  apply List.filter_eq_self.mpr
  intro m _
  cases hv : m.value <;> simp

theorem keptMs_name {name : Bytes} (hn : name ≠ []) {ms0 : List Matcher}
    (h0 : ∀ m ∈ ms0, m.name ≠ metricNameB) : keptMs name (ms0 ++ [nameMatcher name]) = ms0 := by
  unfold keptMs
  rw [List.filter_append]
  have h1 : ms0.filter (fun m => !(m.name == metricNameB && m.typ == .eq && m.value == name && !m.value.isEmpty)) = ms0 := by
    apply List.filter_eq_self.mpr
    intro m hm
    have := h0 m hm
    simp [this]
  rw [h1]
  simp [nameMatcher, hn]

/-! ### parser side -/

theorem matchOpOf_tok (t : MatchType) : matchOpOf (matchOpTok t) = some t := by
  cases t <;> rfl

theorem mkMatcher_ok (m : Matcher) (h : MatcherOK m) : mkMatcher m.typ m.name m.value = some m := by
  obtain ⟨t, n, v⟩ := m
  cases t
  · rfl
  · rfl
  · have := h.2.2 (Or.inl rfl)
    simp only [] at this
    simp [mkMatcher, this]
  · have := h.2.2 (Or.inr rfl)
    simp only [] at this
    simp [mkMatcher, this]

/-- the last matcher and the closing brace -/
theorem parseMatchers_last (fuel : Nat) (acc : List Matcher) (m : Matcher) (R : List Tok) (h : MatcherOK m) :
    parseMatchers (fuel + 1) acc (matcherToks m ++ .rbrace :: R) = some ((m :: acc).reverse, R) := by
  have hk := mkMatcher_ok m h
  obtain ⟨t, n, v⟩ := m
  simp only [] at hk
  cases hq : matcherShouldQuote n <;>
    simp [parseMatchers, matcherToks, hq, matchOpOf_tok, quote_unquote, hk]

/-- a matcher followed by a comma and something that is not `}` -/
theorem parseMatchers_more (fuel : Nat) (acc : List Matcher) (m : Matcher) (x : Tok) (R : List Tok)
    (h : MatcherOK m) (hx : x ≠ .rbrace) :
    parseMatchers (fuel + 1) acc (matcherToks m ++ .comma :: x :: R) = parseMatchers fuel (m :: acc) (x :: R) := by
  have hk := mkMatcher_ok m h
  obtain ⟨t, n, v⟩ := m
  simp only [] at hk
  cases hq : matcherShouldQuote n <;>
    simp [parseMatchers, matcherToks, hq, matchOpOf_tok, quote_unquote, hk] <;>
    (split <;> simp_all)

def nameTok (m : Matcher) : Tok :=
  if matcherShouldQuote m.name then .string (quote m.name) else .ident m.name

theorem nameTok_ne_rbrace (m : Matcher) : nameTok m ≠ .rbrace := by
  unfold nameTok
  split <;> exact Tok.noConfusion

theorem matcherToks_eq (m : Matcher) : matcherToks m = [nameTok m, matchOpTok m.typ, .string (quote m.value)] := rfl

theorem matcherListToks_cons2 (m m' : Matcher) (ms : List Matcher) :
    matcherListToks (m :: m' :: ms) = matcherToks m ++ .comma :: matcherListToks (m' :: ms) := rfl

theorem matcherListToks_head (m : Matcher) (ms : List Matcher) :
    ∃ tl, matcherListToks (m :: ms) = nameTok m :: tl := by
  cases ms with
  | nil => exact ⟨_, rfl⟩
  | cons m' ms => exact ⟨_, rfl⟩

theorem matcherListToks_length (m : Matcher) (ms : List Matcher) :
    ms.length < (matcherListToks (m :: ms)).length := by
  induction ms generalizing m with
  | nil => simp [matcherListToks, matcherToks]
  | cons m' ms ih =>
    rw [matcherListToks_cons2]
    have := ih m'
    simp only [List.length_append, List.length_cons]
    omega

/-- `m1,m2,…}` read by `parseMatchers` -/
theorem parseMatchers_list (R : List Tok) : ∀ (ms : List Matcher) (m : Matcher) (fuel : Nat) (acc : List Matcher),
    (∀ x ∈ m :: ms, MatcherOK x) → ms.length < fuel →
    parseMatchers fuel acc (matcherListToks (m :: ms) ++ .rbrace :: R) = some (acc.reverse ++ m :: ms, R)
  | [], m, fuel + 1, acc, hok, _ => by
    show parseMatchers (fuel + 1) acc (matcherToks m ++ .rbrace :: R) = _
    rw [parseMatchers_last fuel acc m R (hok m (by simp))]
    simp
  | m' :: ms, m, fuel + 1, acc, hok, hf => by
    obtain ⟨tl, htl⟩ := matcherListToks_head m' ms
    have ih := parseMatchers_list R ms m' fuel (m :: acc) (fun x hx => hok x (by simp [hx]))
      (by simp only [List.length_cons] at hf; omega)
    rw [matcherListToks_cons2, List.append_assoc, List.cons_append, htl, List.cons_append,
      parseMatchers_more fuel acc m _ _ (hok m (by simp)) (nameTok_ne_rbrace m'),
      ← List.cons_append, ← htl, ih]
    simp

/-- `{m1,m2,…}` read by `parseLabelMatchers` -/
theorem parseLabelMatchers_braced (m : Matcher) (ms : List Matcher) (R : List Tok)
    (hok : ∀ x ∈ m :: ms, MatcherOK x) :
    parseLabelMatchers (bracedToks (m :: ms) ++ R) = some (m :: ms, R) := by
  obtain ⟨tl, htl⟩ := matcherListToks_head m ms
  have hlen := matcherListToks_length m ms
  have h1 : bracedToks (m :: ms) ++ R = .lbrace :: (matcherListToks (m :: ms) ++ .rbrace :: R) := by
    simp [bracedToks]
  have h2 := parseMatchers_list R ms m ((matcherListToks (m :: ms) ++ .rbrace :: R).length + 1) [] hok
    (by simp only [List.length_append, List.length_cons]; omega)
  rw [h1]
  rw [htl] at h2 ⊢
  rw [List.cons_append] at h2 ⊢
  unfold parseLabelMatchers
  split
  · next heq =>
    simp only [List.cons.injEq, true_and] at heq
    exact absurd heq.1 (nameTok_ne_rbrace m)
  · next heq =>
    injection heq with _ h; subst h; simpa using h2
  · next hne =>
    exact (hne _ rfl).elim

/-- a metric identifier followed by `{` starts a vector selector with matchers -/
theorem parsePrimary_metric_braces (o : Opts) (f : Nat) (t : Tok) (name : Bytes) (r : List Tok)
    (hm : metricIdentOf t = some name) :
    parsePrimary o (f + 1) (t :: .lbrace :: r) =
      (parseLabelMatchers (.lbrace :: r)).bind fun p =>
          some (.vs name (p.1 ++ [⟨.eq, metricNameB, name⟩]) 0 .nil .none .none, p.2) := by
  simp only [parsePrimary]
  cases t with
  | ident s =>
    simp only [metricIdentOf, Option.some.injEq] at hm
    subst hm
    simp only [isCallHead, metricIdentOf]
    rfl
  | metricIdent s =>
    simp only [metricIdentOf, Option.some.injEq] at hm
    subst hm
    simp only [isCallHead, metricIdentOf]
    rfl
  | op b s =>
    cases b <;> simp only [metricIdentOf, Option.some.injEq, reduceCtorEq] at hm <;> subst hm <;>
      simp only [isCallHead, metricIdentOf] <;> rfl
  | kw k s =>
    cases k <;> simp only [metricIdentOf, Option.some.injEq, reduceCtorEq] at hm <;> subst hm <;>
      simp only [isCallHead, metricIdentOf] <;> rfl
  | _ => simp [metricIdentOf] at hm

/-- a metric identifier followed by none of `{`, `(`, `by`, `without` is a bare vector selector -/
theorem parsePrimary_metric_plain (o : Opts) (f : Nat) (t : Tok) (name : Bytes) (R : List Tok)
    (hm : metricIdentOf t = some name)
    (h1 : ∀ r, R ≠ .lparen :: r) (h2 : ∀ w r, R ≠ .kw .by w :: r) (h3 : ∀ w r, R ≠ .kw .without w :: r)
    (h4 : ∀ r, R ≠ .lbrace :: r) :
    parsePrimary o (f + 1) (t :: R) =
      some (.vs name [⟨.eq, metricNameB, name⟩] 0 .nil .none .none, R) := by
  simp only [parsePrimary]
  cases t with
  | ident s =>
    simp only [metricIdentOf, Option.some.injEq] at hm
    subst hm
    simp only [isCallHead, metricIdentOf]
    repeat' split
    all_goals simp_all
  | metricIdent s =>
    simp only [metricIdentOf, Option.some.injEq] at hm
    subst hm
    simp only [isCallHead, metricIdentOf]
    repeat' split
    all_goals simp_all
  | op b s =>
    cases b <;> simp only [metricIdentOf, Option.some.injEq, reduceCtorEq] at hm <;> subst hm <;>
      simp only [isCallHead, metricIdentOf] <;> (repeat' split) <;> simp_all
  | kw k s =>
    cases k <;> simp only [metricIdentOf, Option.some.injEq, reduceCtorEq] at hm <;> subst hm <;>
      simp only [isCallHead, metricIdentOf] <;> (repeat' split) <;> simp_all
  | _ => simp [metricIdentOf] at hm

theorem parsePrimary_braces (o : Opts) (f : Nat) (r : List Tok) :
    parsePrimary o (f + 1) (.lbrace :: r) =
      (parseLabelMatchers (.lbrace :: r)).bind fun p => some (.vs [] p.1 0 .nil .none .none, p.2) := by
  simp only [parsePrimary]
  rfl

theorem follow_ne_lparen {R : List Tok} (h : SelFollow R) (r : List Tok) : R ≠ .lparen :: r := by
  intro e; subst e; exact h

theorem follow_ne_lbrace {R : List Tok} (h : SelFollow R) (r : List Tok) : R ≠ .lbrace :: r := by
  intro e; subst e; exact h

theorem follow_ne_by {R : List Tok} (h : SelFollow R) (w : Bytes) (r : List Tok) : R ≠ .kw .by w :: r := by
  intro e; subst e; exact h

theorem follow_ne_without {R : List Tok} (h : SelFollow R) (w : Bytes) (r : List Tok) :
    R ≠ .kw .without w :: r := by
  intro e; subst e; exact h

theorem bracedToks_cons (m : Matcher) (ms : List Matcher) (R : List Tok) :
    bracedToks (m :: ms) ++ R = .lbrace :: ((matcherListToks (m :: ms) ++ [.rbrace]) ++ R) := rfl

/-- the facts about a well-typed selector used below -/
theorem selOK_cases {name : Bytes} {ms : List Matcher} (h : SelOK name ms) :
    (name = [] ∧ keptMs name ms = ms ∧ ms ≠ []) ∨
    (name ≠ [] ∧ NameOK name ∧ ∃ ms0, ms = ms0 ++ [nameMatcher name] ∧ keptMs name ms = ms0) := by
  obtain ⟨hwt, hname, _⟩ := h
  by_cases hn : name = []
  · subst hn
    refine Or.inl ⟨rfl, keptMs_nil ms, ?_⟩
    intro e
    have := hwt.2 rfl
    rw [e] at this
    simp at this
  · obtain ⟨ms0, rfl, h0⟩ := hwt.1 hn
    exact Or.inr ⟨hn, hname hn, ms0, rfl, keptMs_name hn h0⟩

theorem sorted_ok {name : Bytes} {ms : List Matcher} (h : SelOK name ms) :
    ∀ x ∈ sortMs (keptMs name ms), MatcherOK x :=
  fun x hx => h.2.2 x (mem_sortMs.mp hx)

end Sel

open Sel in
/-- parser side -/
theorem selCore_parses (o : Opts) (name : Bytes) (ms : List Matcher) (h : SelOK name ms) (f : Nat) (R : List Tok)
    (hR : SelFollow R) :
    parsePrimary o (f + 1) (selCoreToks name ms ++ R) = some (.vs name (normMs name ms) 0 .nil .none .none, R) := by
  have hok := sorted_ok h
  rcases selOK_cases h with ⟨rfl, hk, hne⟩ | ⟨hn, ⟨_, _, hmi⟩, ms0, rfl, hk⟩
  · have hs : sortMs (keptMs [] ms) ≠ [] := by rw [hk]; exact sortMs_ne_nil hne
    unfold selCoreToks normMs
    simp only [List.isEmpty_nil, if_true, List.nil_append]
    cases hsm : sortMs (keptMs [] ms) with
    | nil => exact absurd hsm hs
    | cons m ms' =>
      rw [hsm] at hok
      rw [bracedToks_cons, parsePrimary_braces, ← bracedToks_cons, parseLabelMatchers_braced m ms' R hok]
      rfl
  · have hne : name.isEmpty = false := by cases name <;> simp_all
    unfold selCoreToks normMs
    simp only [hne, Bool.false_eq_true, if_false]
    cases hsm : sortMs (keptMs name (ms0 ++ [nameMatcher name])) with
    | nil =>
      show parsePrimary o (f + 1) (wordTok name :: R) = _
      rw [parsePrimary_metric_plain o f _ name R hmi (follow_ne_lparen hR) (follow_ne_by hR)
        (follow_ne_without hR) (follow_ne_lbrace hR)]
      rfl
    | cons m ms' =>
      rw [hsm] at hok
      rw [List.append_assoc, bracedToks_cons]
      show parsePrimary o (f + 1) (wordTok name :: .lbrace :: _) = _
      rw [parsePrimary_metric_braces o f _ name _ hmi, ← bracedToks_cons,
        parseLabelMatchers_braced m ms' R hok]
      rfl

namespace Sel

/-! ### lexer side -/

def mtB : MatchType → Bytes
  | .eq => [61] | .ne => [33, 61] | .re => [61, 126] | .nre => [33, 126]

theorem text_eq_mtB (t : MatchType) : t.text = mtB t := by
  cases t <;> with_unfolding_all rfl

theorem bs_comma : bs "," = [44] := by with_unfolding_all rfl

theorem seg_quote_B (d : Int) (g : Bool) (s : Bytes) (h : hasRC s = false) :
    LexSeg (stB d g) (quote s) [.string (quote s)] (stB d g) anyB :=
  seg_string_B d g (quoteBody s.length s ++ [34]) _ (fun rest => by
    rw [List.append_assoc]
    exact lexStringTok_quote s rest h)

theorem seg_op (d : Int) (g : Bool) (t : MatchType) :
    LexSeg (stB d g) (mtB t) [matchOpTok t] (stB d g) noTildeB := by
  cases t with
  | eq => exact seg_eql_B d g
  | ne => exact (seg_neq_B d g).weaken (fun _ _ => trivial)
  | re => exact (seg_eqlRegex_B d g).weaken (fun _ _ => trivial)
  | nre => exact (seg_neqRegex_B d g).weaken (fun _ _ => trivial)

theorem mtB_head (t : MatchType) (rest : Bytes) : noAlnumB (mtB t ++ rest).head? := by
  cases t <;> (intro c h; cases h; decide)

theorem seg_name (d : Int) (g : Bool) (m : Matcher) (hm : MatcherOK m) :
    LexSeg (stB d g) (if matcherShouldQuote m.name then quote m.name else m.name) [nameTok m] (stB d g)
      noAlnumB := by
  unfold nameTok
  cases hq : matcherShouldQuote m.name with
  | true =>
    simp only [if_true]
    exact (seg_quote_B d g m.name hm.1).weaken (fun _ _ => trivial)
  | false =>
    simp only [Bool.false_eq_true, if_false]
    cases hn : m.name with
    | nil => rw [hn] at hq; simp [matcherShouldQuote] at hq
    | cons c tl =>
      rw [hn] at hq
      simp only [matcherShouldQuote, Bool.not_eq_false', Bool.and_eq_true] at hq
      exact seg_ident_B d g (c :: tl) c tl rfl hq.1 hq.2

theorem seg_matcher (d : Int) (g : Bool) (m : Matcher) (hm : MatcherOK m) :
    LexSeg (stB d g) m.text (matcherToks m) (stB d g) anyB := by
  unfold Matcher.text
  rw [text_eq_mtB]
  exact ((seg_name d g m hm).append (seg_op d g m.typ) (fun rest _ => mtB_head _ _)).append
    (seg_quote_B d g m.value hm.2.1) (fun rest _ h => by
      have : (quote m.value ++ rest).head? = some 34 := rfl
      rw [this] at h
      cases h)

theorem intercalate_one (sep x : Bytes) : List.intercalate sep [x] = x := by
  simp [List.intercalate, List.intersperse]

theorem intercalate_cons2 (sep x y : Bytes) (l : List Bytes) :
    List.intercalate sep (x :: y :: l) = x ++ (sep ++ List.intercalate sep (y :: l)) := by
  simp [List.intercalate, List.intersperse]

theorem seg_matcherList (d : Int) (g : Bool) : ∀ (ms : List Matcher) (m : Matcher),
    (∀ x ∈ m :: ms, MatcherOK x) →
    LexSeg (stB d g) (List.intercalate [44] ((m :: ms).map Matcher.text)) (matcherListToks (m :: ms))
      (stB d g) anyB
  | [], m, h => by
    rw [List.map_cons, List.map_nil, intercalate_one]
    exact seg_matcher d g m (h m (by simp))
  | m' :: ms, m, h => by
    rw [List.map_cons, List.map_cons, intercalate_cons2, matcherListToks_cons2, ← List.map_cons]
    exact (seg_matcher d g m (h m (by simp))).append
      ((seg_comma_B d g).append (seg_matcherList d g ms m' (fun x hx => h x (by simp [hx])))
        (fun _ _ => trivial))
      (fun _ _ => trivial)

theorem seg_braced (d : Int) (g : Bool) (m : Matcher) (ms : List Matcher) (h : ∀ x ∈ m :: ms, MatcherOK x) :
    LexSeg (stS d g) (123 :: (List.intercalate [44] ((m :: ms).map Matcher.text) ++ [125]))
      (bracedToks (m :: ms)) (stS d g) anyB :=
  (seg_lbrace d g).append ((seg_matcherList d g ms m h).append (seg_rbrace d g) (fun _ _ => trivial))
    (fun _ _ => trivial)

theorem selectorCoreText_eq (name : Bytes) (ms : List Matcher) :
    selectorCoreText name ms =
      name ++ (if ((sortMs (keptMs name ms)).map Matcher.text).isEmpty then []
        else 123 :: (List.intercalate [44] ((sortMs (keptMs name ms)).map Matcher.text) ++ [125])) := by
  unfold selectorCoreText keptMs
  simp only [sortStrings_map_text, bs_comma]

end Sel

open Sel in
/-- lexer side -/
theorem selCore_lex (d : Int) (g : Bool) (name : Bytes) (ms : List Matcher) (h : SelOK name ms) :
    LexSeg (stS d g) (selectorCoreText name ms) (selCoreToks name ms) (stS d g) noWordB := by
  have hok := sorted_ok h
  rw [selectorCoreText_eq]
  unfold selCoreToks
  rcases selOK_cases h with ⟨rfl, hk, hne⟩ | ⟨hn, ⟨hw, hf, _⟩, ms0, rfl, hk⟩
  · have hs : sortMs (keptMs [] ms) ≠ [] := by rw [hk]; exact sortMs_ne_nil hne
    cases hsm : sortMs (keptMs [] ms) with
    | nil => exact absurd hsm hs
    | cons m ms' =>
      rw [hsm] at hok
      simp only [List.isEmpty_nil, if_true, List.nil_append, List.map_cons, List.isEmpty_cons,
        Bool.false_eq_true, if_false]
      rw [← List.map_cons]
      exact (seg_braced d g m ms' hok).weaken (fun _ _ => trivial)
  · have hne : name.isEmpty = false := by cases name <;> simp_all
    simp only [hne, Bool.false_eq_true, if_false]
    have hword := seg_word d g name hw hf
    cases hsm : sortMs (keptMs name (ms0 ++ [nameMatcher name])) with
    | nil =>
      simp only [List.map_nil, List.isEmpty_nil, if_true]
      exact hword.append (LexSeg.nil _ noWordB) (fun rest hr => hr)
    | cons m ms' =>
      rw [hsm] at hok
      simp only [List.map_cons, List.isEmpty_cons, Bool.false_eq_true, if_false]
      rw [← List.map_cons]
      exact hword.append ((seg_braced d g m ms' hok).weaken (fun _ _ => trivial))
        (fun rest _ c hc => by cases hc; decide)

end Prom.Promql
