import PromModel.Tsdb.BlockIndex
import PromProofs.Enc
/-
  Lemmas for C24: slicing of concatenated files, the 5-byte uvarint window, BE32 injectivity,
  the label / chunk-meta loops of the series entry codec.
-/
namespace Prom.BlockIndex
open Prom.Enc

/-! ### slices of `a ++ b ++ c` -/

theorem slice_mid {α} (a b c : List α) (i j : Nat) (hi : i = a.length) (hj : j = b.length) :
    ((a ++ b ++ c).drop i).take j = b := by
  subst hi hj
  rw [List.append_assoc, List.drop_left, List.take_left]

theorem drop_mid {α} (a b : List α) (i : Nat) (hi : i = a.length) : (a ++ b).drop i = b := by
  subst hi; exact List.drop_left

/-! ### BE32 -/

theorem getBE32_putBE32 {n : Nat} (h : n < 4294967296) (rest : Bytes) :
    getBE32 (putBE32 n ++ rest) = .ok (n, rest) := by
  simp only [putBE32, List.cons_append, List.nil_append, getBE32, byteAt_toNat]
  congr 2
  omega

theorem putBE32_length (n : Nat) : (putBE32 n).length = 4 := rfl

theorem putBE32_inj {a b : Nat} (ha : a < 4294967296) (hb : b < 4294967296)
    (h : putBE32 a = putBE32 b) : a = b := by
  have h1 := getBE32_putBE32 ha []
  have h2 := getBE32_putBE32 hb []
  rw [h] at h1
  rw [h1] at h2
  cases h2; rfl

theorem crcBytes_length (crc : Crc) (b : Bytes) : (crcBytes crc b).length = 4 := rfl

theorem crcBytes_ne (crc : Crc) {a b : Bytes} (h : crc a ≠ crc b) : crcBytes crc a ≠ crcBytes crc b := by
  intro he
  apply h
  have := putBE32_inj (by have := (crc a).toNat_lt; omega) (by have := (crc b).toNat_lt; omega) he
  exact UInt32.toNat_inj.mp this

theorem be32At_put (pre rest : Bytes) (n : Nat) (h : n < 4294967296) :
    be32At (pre ++ (putBE32 n ++ rest)) pre.length = n := by
  unfold be32At
  rw [List.drop_left, getBE32_putBE32 h]

/-! ### uvarint length and the 5-byte window -/

theorem putUvarintAux_length_le : ∀ (f k n : Nat), n < 128 ^ (k + 1) → (putUvarintAux f n).length ≤ k + 1 := by
  intro f
  induction f with
  | zero => intro k n _; simp [putUvarintAux]
  | succ f ih =>
    intro k n h
    unfold putUvarintAux
    split
    · simp
    · rename_i hn
      cases k with
      | zero => simp at h; omega
      | succ k =>
        have : n / 128 < 128 ^ (k + 1) := by
          have e : 128 ^ (k + 1 + 1) = 128 * 128 ^ (k + 1) := by rw [Nat.pow_succ]; omega
          omega
        have := ih k (n / 128) this
        simp only [List.length_cons]
        omega

theorem putUvarint_length_le5 {n : Nat} (h : n < 34359738368) : (putUvarint n).length ≤ 5 :=
  putUvarintAux_length_le 9 4 n (by simpa using h)

theorem putUvarint_length_pos (n : Nat) : 0 < (putUvarint n).length :=
  List.length_pos_iff.mpr (putUvarint_ne_nil n)

/-- The reader looks at 5 bytes only; for a length below 2^35 that window holds the whole uvarint. -/
theorem uvarintN_window {n : Nat} (h : n < 34359738368) (rest : Bytes) :
    uvarintN ((putUvarint n ++ rest).take 5) = some (n, (putUvarint n).length) := by
  have hl := putUvarint_length_le5 h
  rw [List.take_append, List.take_of_length_le hl]
  unfold uvarintN
  rw [getUvarint_putUvarint (by unfold U64; omega)]
  simp

/-! ### `uv` / `sv` on encoded values -/

theorem uv_put {n : Nat} (h : U64 n) (rest : Bytes) : uv (putUvarint n ++ rest) = .ok (n, rest) := by
  unfold uv; rw [decUvarint_put h]; rfl

theorem sv_put {x : Int} (h : I64 x) (rest : Bytes) : sv (putVarint x ++ rest) = .ok (x, rest) := by
  unfold sv; rw [decVarint_put h]; rfl

theorem ustr_put {s : Bytes} (h : s.length < 9223372036854775808) (rest : Bytes) :
    ustr (putUvarintStr s ++ rest) = .ok (s, rest) := by
  unfold ustr; rw [decUvarintStr_put h]; rfl

theorem toI64_small {n : Nat} (h : n < 9223372036854775808) : toI64 n = n := by
  unfold toI64; simp only; split <;> omega

theorem toU64_wrap64 (x : Int) : toU64 (wrap64 x) = toU64 x := by
  unfold wrap64; exact toU64_toI64 (toU64_lt x)

theorem wrap64_delta {t b : Int} (h : I64 t) : wrap64 (toI64 (toU64 (t - b)) + b) = t := by
  have := time_delta_roundtrip b h
  unfold wrap64 at this ⊢
  rw [Int.add_comm]; exact this

/-! ### labels -/

def LabelsWF (lookup : Lookup) (get : Nat → Bytes) (ls : List (Nat × Nat)) : Prop :=
  ∀ p ∈ ls, p.1 < 4294967296 ∧ p.2 < 4294967296 ∧ lookup p.1 = .ok (get p.1) ∧ lookup p.2 = .ok (get p.2)

theorem decLabels_enc (lookup : Lookup) (get : Nat → Bytes) :
    ∀ (ls : List (Nat × Nat)) (rest : Bytes), LabelsWF lookup get ls →
      decLabels lookup ls.length (ls.flatMap encLabel ++ rest) =
        .ok (ls.map (fun p => (get p.1, get p.2)), rest) := by
  intro ls
  induction ls with
  | nil => intro rest _; simp [decLabels]
  | cons p ls ih =>
    intro rest h
    obtain ⟨h1, h2, h3, h4⟩ := h p (by simp)
    simp only [List.length_cons, List.flatMap_cons, encLabel, List.append_assoc, decLabels]
    rw [uv_put (by unfold U64; omega)]
    simp only
    rw [uv_put (by unfold U64; omega)]
    simp only
    rw [Nat.mod_eq_of_lt h1, Nat.mod_eq_of_lt h2, h3, h4]
    simp only
    have := ih rest (fun q hq => h q (by simp [hq]))
    rw [this]
    simp

/-! ### chunk metas -/

def ChunkWF (c : ChunkMeta) : Prop := I64 c.mint ∧ I64 c.maxt ∧ U64 c.ref

theorem decChunksTail_enc : ∀ (cs : List ChunkMeta) (t0 r0 : Int) (rest : Bytes),
    (∀ c ∈ cs, ChunkWF c) →
      decChunksTail cs.length t0 r0 (encChunksTail t0 r0 cs ++ rest) = .ok cs := by
  intro cs
  induction cs with
  | nil => intro t0 r0 rest _; simp [decChunksTail]
  | cons c cs ih =>
    intro t0 r0 rest h
    obtain ⟨h1, h2, h3⟩ := h c (by simp)
    simp only [List.length_cons, encChunksTail, List.append_assoc, decChunksTail]
    rw [uv_put (toU64_lt _)]
    simp only
    rw [uv_put (toU64_lt _)]
    simp only
    rw [sv_put (wrap64_I64 _)]
    simp only
    have e1 : wrap64 (toI64 (toU64 (c.mint - t0)) + t0) = c.mint := wrap64_delta h1
    have e2 : wrap64 (toI64 (toU64 (c.maxt - c.mint)) + c.mint) = c.maxt := wrap64_delta h2
    have e3 : wrap64 (r0 + wrap64 (toI64 c.ref - r0)) = toI64 c.ref :=
      time_delta_roundtrip r0 (toI64_I64 _)
    rw [e1, e2, e3, ih c.maxt (toI64 c.ref) rest (fun q hq => h q (by simp [hq]))]
    simp only [toU64_toI64 h3]

theorem decChunks_enc (cs : List ChunkMeta) (rest : Bytes) (hlen : cs.length < 9223372036854775808)
    (h : ∀ c ∈ cs, ChunkWF c) :
    decChunks (putUvarint cs.length ++ encChunks cs ++ rest) = .ok cs := by
  unfold decChunks
  rw [List.append_assoc, uv_put (by unfold U64; omega)]
  simp only
  cases cs with
  | nil => simp [toI64]
  | cons c cs =>
    obtain ⟨h1, h2, h3⟩ := h c (by simp)
    have hk : toI64 (c :: cs).length = ((c :: cs).length : Nat) := toI64_small hlen
    rw [hk, if_neg (by simp; omega)]
    simp only [encChunks, List.append_assoc]
    rw [sv_put h1]
    simp only
    rw [uv_put (toU64_lt _)]
    simp only
    rw [uv_put h3]
    simp only
    have e2 : wrap64 (toI64 (toU64 (c.maxt - c.mint)) + c.mint) = c.maxt := wrap64_delta h2
    have e4 : (((c :: cs).length : Nat) - 1 : Int).toNat = cs.length := by simp
    rw [e2, e4, decChunksTail_enc cs c.maxt (toI64 c.ref) rest (fun q hq => h q (by simp [hq]))]


/-- the record with arbitrary covered bytes and checksum bytes -/
theorem readChunkAt_frame (crc : Crc) (pre post cov sum : Bytes) (l : Nat) (hl : l < 34359738368)
    (hc : cov.length = 1 + l) (hs : sum.length = 4) :
    readChunkAt crc (pre ++ (putUvarint l ++ cov ++ sum) ++ post) pre.length =
      if crcBytes crc cov ≠ sum then .error .checksum else
      match cov with
      | [] => .error .panic
      | e :: data => if validEnc e then .ok (e, data) else .error .badEncoding := by
  cases cov with
  | nil => simp at hc; omega
  | cons e data =>
  unfold readChunkAt
  have hp := putUvarint_length_pos l
  have h5 := putUvarint_length_le5 hl
  rw [if_neg (by simp only [List.length_append]; omega)]
  have e1 : List.drop pre.length (pre ++ (putUvarint l ++ e :: data ++ sum) ++ post)
      = putUvarint l ++ (e :: data ++ sum ++ post) := by
    rw [List.append_assoc, List.drop_left]; simp [List.append_assoc]
  rw [e1, uvarintN_window hl]
  simp only
  rw [if_neg (by simp only [List.length_append]; omega)]
  have e2 : (List.drop (pre.length + (putUvarint l).length) (pre ++ (putUvarint l ++ e :: data ++ sum) ++ post)).take (1 + l) = e :: data := by
    have : pre ++ (putUvarint l ++ e :: data ++ sum) ++ post = (pre ++ putUvarint l) ++ (e :: data) ++ (sum ++ post) := by
      simp [List.append_assoc]
    rw [this]
    exact slice_mid _ _ _ _ _ (by simp) hc.symm
  have e3 : (List.drop (pre.length + (putUvarint l).length + 1 + l) (pre ++ (putUvarint l ++ e :: data ++ sum) ++ post)).take 4 = sum := by
    have : pre ++ (putUvarint l ++ e :: data ++ sum) ++ post = (pre ++ putUvarint l ++ (e :: data)) ++ sum ++ post := by
      simp [List.append_assoc]
    rw [this]
    exact slice_mid _ _ _ _ _ (by simp only [List.length_append, List.length_cons] at hc ⊢; omega) hs.symm
  rw [e2, e3]


/-- `NewDecbufUvarintAt` on `uvarint(len) | body | 4 bytes`, whatever the 4 bytes are. -/
theorem decbufUvarintAt_frame (crc : Crc) (pre post body sum : Bytes) (l : Nat) (hl : l < 34359738368)
    (hb : body.length = l) (hs : sum.length = 4) :
    decbufUvarintAt crc (pre ++ (putUvarint l ++ body ++ sum) ++ post) pre.length =
      if crcBytes crc body ≠ sum then .error .checksum else .ok body := by
  unfold decbufUvarintAt
  have hp := putUvarint_length_pos l
  have h5 := putUvarint_length_le5 hl
  rw [if_neg (by simp only [List.length_append]; omega)]
  have e1 : List.drop pre.length (pre ++ (putUvarint l ++ body ++ sum) ++ post)
      = putUvarint l ++ (body ++ sum ++ post) := by
    rw [List.append_assoc, List.drop_left]; simp [List.append_assoc]
  rw [e1, uvarintN_window hl]
  simp only
  rw [if_neg (by simp only [List.length_append]; omega)]
  have e2 : (List.drop (pre.length + (putUvarint l).length) (pre ++ (putUvarint l ++ body ++ sum) ++ post)).take l = body := by
    have : pre ++ (putUvarint l ++ body ++ sum) ++ post = (pre ++ putUvarint l) ++ body ++ (sum ++ post) := by
      simp [List.append_assoc]
    rw [this]
    exact slice_mid _ _ _ _ _ (by simp) hb.symm
  have e3 : (List.drop (pre.length + (putUvarint l).length + l) (pre ++ (putUvarint l ++ body ++ sum) ++ post)).take 4 = sum := by
    have : pre ++ (putUvarint l ++ body ++ sum) ++ post = (pre ++ putUvarint l ++ body) ++ sum ++ post := by
      simp [List.append_assoc]
    rw [this]
    exact slice_mid _ _ _ _ _ (by simp only [List.length_append]; omega) hs.symm
  rw [e2, e3]

/-- `NewDecbufAt` on `BE32(len) | content | 4 bytes`. -/
theorem decbufAt_frame (crc : Crc) (pre post content sum : Bytes) (l : Nat) (hl : l < 4294967296)
    (hb : content.length = l) (hs : sum.length = 4) (hpre : pre.length < 9223372036854775808) :
    decbufAt crc true (pre ++ (putBE32 l ++ content ++ sum) ++ post) pre.length =
      if crcBytes crc content ≠ sum then .error .checksum else .ok content := by
  unfold decbufAt
  rw [if_neg (by unfold two63; omega)]
  rw [if_neg (by simp only [List.length_append, putBE32_length]; omega)]
  have e0 : pre ++ (putBE32 l ++ content ++ sum) ++ post = pre ++ (putBE32 l ++ (content ++ sum ++ post)) := by
    simp [List.append_assoc]
  have e1 : be32At (pre ++ (putBE32 l ++ content ++ sum) ++ post) pre.length = l := by
    rw [e0]; exact be32At_put _ _ _ hl
  simp only [e1]
  rw [if_neg (by simp only [List.length_append, putBE32_length]; omega)]
  have e2 : (List.drop (pre.length + 4) (pre ++ (putBE32 l ++ content ++ sum) ++ post)).take l = content := by
    have : pre ++ (putBE32 l ++ content ++ sum) ++ post = (pre ++ putBE32 l) ++ content ++ (sum ++ post) := by
      simp [List.append_assoc]
    rw [this]
    exact slice_mid _ _ _ _ _ (by simp [putBE32_length]) hb.symm
  have e3 : (List.drop (pre.length + 4 + l) (pre ++ (putBE32 l ++ content ++ sum) ++ post)).take 4 = sum := by
    have : pre ++ (putBE32 l ++ content ++ sum) ++ post = (pre ++ putBE32 l ++ content) ++ sum ++ post := by
      simp [List.append_assoc]
    rw [this]
    exact slice_mid _ _ _ _ _ (by simp only [List.length_append, putBE32_length]; omega) hs.symm
  rw [e2, e3]
  simp

/-- `NewTOCFromByteSlice` on a file ending in `48 bytes | 4 bytes`. -/
theorem readToc_frame (crc : Crc) (pre content sum : Bytes) (hc : content.length = 48) (hs : sum.length = 4) :
    readToc crc (pre ++ (content ++ sum)) =
      if crcBytes crc content ≠ sum then .error .checksum else decTocContent content := by
  unfold readToc tocLen
  rw [if_neg (by simp only [List.length_append]; omega)]
  have e1 : List.drop ((pre ++ (content ++ sum)).length - 52) (pre ++ (content ++ sum)) = content ++ sum := by
    apply drop_mid; simp only [List.length_append]; omega
  simp only [e1]
  rw [List.take_left' hc, List.drop_left' hc]

theorem putBE64_lengthN (n : Nat) : (putBE64 n).length = 8 := rfl

theorem tocContent_length (t : Toc) : (tocContent t).length = 48 := rfl

def TocWF (t : Toc) : Prop :=
  U64 t.symbols ∧ U64 t.series ∧ U64 t.labelIndices ∧ U64 t.labelIndicesTable ∧ U64 t.postings ∧ U64 t.postingsTable

theorem decTocContent_enc (t : Toc) (h : TocWF t) : decTocContent (tocContent t) = .ok t := by
  obtain ⟨h1, h2, h3, h4, h5, h6⟩ := h
  unfold decTocContent tocContent
  simp only [List.append_assoc]
  rw [getBE64_putBE64 h1]; simp only
  rw [getBE64_putBE64 h2]; simp only
  rw [getBE64_putBE64 h3]; simp only
  rw [getBE64_putBE64 h4]; simp only
  rw [getBE64_putBE64 h5]; simp only
  have := getBE64_putBE64 h6 []
  rw [List.append_nil] at this
  rw [this]

/-! ### strings of the symbol table -/

theorem readStrs_enc : ∀ (ss : List Bytes) (rest : Bytes), (∀ s ∈ ss, s.length < 9223372036854775808) →
    readStrs ss.length (ss.flatMap putUvarintStr ++ rest) = .ok ss := by
  intro ss
  induction ss with
  | nil => intro rest _; simp [readStrs]
  | cons s ss ih =>
    intro rest h
    simp only [List.length_cons, List.flatMap_cons, List.append_assoc, readStrs]
    rw [ustr_put (h s (by simp))]
    simp only
    rw [ih rest (fun q hq => h q (by simp [hq]))]

/-- a list with position `i` changed, as a split -/
theorem set_split {α} (l : List α) (i : Nat) (y : α) (h : i < l.length) :
    l = l.take i ++ l[i] :: l.drop (i + 1) ∧ l.set i y = l.take i ++ y :: l.drop (i + 1) := by
  constructor
  · rw [List.getElem_cons_drop h, List.take_append_drop]
  · rw [List.set_eq_take_append_cons_drop, if_pos h]

/-! ### a checksum satisfying `CrcDetects1` -/

def sumCrc : Crc := fun bs => UInt32.ofNat (bs.foldl (fun a b => a + b.toNat) 0)

theorem foldl_sum (xs : Bytes) : ∀ init : Nat, xs.foldl (fun a b => a + b.toNat) init = init + xs.foldl (fun a b => a + b.toNat) 0 := by
  induction xs with
  | nil => intro i; simp
  | cons x xs ih => intro i; simp only [List.foldl_cons]; rw [ih (i + x.toNat), ih (0 + x.toNat)]; omega

/-- The hypothesis of the damage theorems is satisfiable: the byte sum modulo 2^32 detects every
    single-byte change. -/
theorem sumCrc_detects1 : CrcDetects1 sumCrc := by
  intro pre post a b hab h
  unfold sumCrc at h
  have h' := congrArg UInt32.toNat h
  simp only [UInt32.toNat_ofNat', List.foldl_append, List.foldl_cons] at h'
  rw [foldl_sum post, foldl_sum post (_ + b.toNat)] at h'
  have ha := a.toNat_lt
  have hb := b.toNat_lt
  have : a.toNat ≠ b.toNat := fun e => hab (UInt8.toNat_inj.mp e)
  omega

/-! ### postings lists and the offset table -/

theorem flatMap_putBE32_length (ids : List Nat) : (ids.flatMap putBE32).length = 4 * ids.length := by
  induction ids with
  | nil => rfl
  | cons i ids ih => simp only [List.flatMap_cons, List.length_append, putBE32_length, ih, List.length_cons]; omega

theorem readBE32s_enc : ∀ (ids : List Nat) (rest : Bytes), (∀ i ∈ ids, i < 4294967296) →
    readBE32s ids.length (ids.flatMap putBE32 ++ rest) = ids := by
  intro ids
  induction ids with
  | nil => intro rest _; rfl
  | cons i ids ih =>
    intro rest h
    simp only [List.length_cons, List.flatMap_cons, List.append_assoc, readBE32s]
    rw [getBE32_putBE32 (h i (by simp))]
    simp only
    rw [ih rest (fun q hq => h q (by simp [hq]))]

def EntryWF (e : TableEntry) : Prop :=
  e.name.length < 9223372036854775808 ∧ e.value.length < 9223372036854775808 ∧ U64 e.off

theorem putUvarint_two : putUvarint 2 = [2] := rfl

theorem readTableEntries_enc : ∀ (es : List TableEntry) (rest : Bytes), (∀ e ∈ es, EntryWF e) →
    readTableEntries es.length (es.flatMap encTableEntry ++ rest) = .ok es := by
  intro es
  induction es with
  | nil => intro rest _; simp [readTableEntries]
  | cons e es ih =>
    intro rest h
    obtain ⟨h1, h2, h3⟩ := h e (by simp)
    simp only [List.length_cons, List.flatMap_cons, encTableEntry, List.append_assoc, putUvarint_two,
      List.cons_append, List.nil_append]
    unfold readTableEntries
    have : uv (2 :: (putUvarintStr e.name ++ (putUvarintStr e.value ++ (putUvarint e.off ++ (es.flatMap encTableEntry ++ rest)))))
        = .ok (2, putUvarintStr e.name ++ (putUvarintStr e.value ++ (putUvarint e.off ++ (es.flatMap encTableEntry ++ rest)))) := by
      have := uv_put (n := 2) (by unfold U64; decide) (putUvarintStr e.name ++ (putUvarintStr e.value ++ (putUvarint e.off ++ (es.flatMap encTableEntry ++ rest))))
      rw [putUvarint_two] at this
      exact this
    rw [this]
    simp only
    rw [if_neg (by decide), ustr_put h1]
    simp only
    rw [ustr_put h2]
    simp only
    rw [uv_put h3]
    simp only
    rw [ih rest (fun q hq => h q (by simp [hq]))]

/-! ### layout of the whole index file -/

theorem padLen16_aligned (pos : Nat) : (pos + padLen 16 pos) % 16 = 0 := by
  unfold padLen; omega

theorem placeSeries_ids_length (crc : Crc) : ∀ (ss : List Series) (pos : Nat),
    (placeSeries crc pos ss).2.length = ss.length := by
  intro ss
  induction ss with
  | nil => intro pos; rfl
  | cons s ss ih => intro pos; simp [placeSeries, ih]

/-- Every entry sits in the series section at 16 × its id. -/
theorem placeSeries_spec (crc : Crc) : ∀ (ss : List Series) (pos k : Nat) (s : Series) (id : Nat),
    ss[k]? = some s → (placeSeries crc pos ss).2[k]? = some id →
    ∃ a b, (placeSeries crc pos ss).1 = a ++ seriesEntry crc s ++ b ∧ pos + a.length = id * 16 := by
  intro ss
  induction ss with
  | nil => intro pos k s id h; simp at h
  | cons s0 ss ih =>
    intro pos k s id hs hid
    cases k with
    | zero =>
      simp only [List.getElem?_cons_zero, Option.some.injEq] at hs
      subst hs
      simp only [placeSeries, List.getElem?_cons_zero, Option.some.injEq] at hid
      refine ⟨zeros (padLen 16 pos), (placeSeries crc (pos + padLen 16 pos + (seriesEntry crc s0).length) ss).1, ?_, ?_⟩
      · simp [placeSeries]
      · have := padLen16_aligned pos
        simp only [zeros, List.length_replicate]
        omega
    | succ k =>
      simp only [List.getElem?_cons_succ] at hs
      simp only [placeSeries, List.getElem?_cons_succ] at hid
      obtain ⟨a, b, hab, hlen⟩ := ih _ k s id hs hid
      refine ⟨zeros (padLen 16 pos) ++ seriesEntry crc s0 ++ a, b, ?_, ?_⟩
      · simp only [placeSeries, hab, List.append_assoc]
      · simp only [List.length_append, zeros, List.length_replicate] at hlen ⊢
        omega

/-- What `writeIndex` puts between the series section and the TOC: padding, postings lists,
    postings offset table. -/
def indexMid (crc : Crc) (syms : List Bytes) (series : List Series) : Bytes :=
  let p1 := indexHeader.length + (symbolTable crc syms).length
  let ps := placeSeries crc p1 series
  let p2 := p1 + ps.1.length
  let pad := padLen 4 p2
  let pstart := p2 + pad
  let pp := placePostings crc 0 (allPLists syms series ps.2)
  zeros pad ++ pp.1 ++ offsetTable crc (pp.2.map fun e => { e with off := e.off + pstart })

theorem writeIndex_bytes (crc : Crc) (syms : List Bytes) (series : List Series) :
    (writeIndex crc syms series).bytes =
      indexHeader ++ symbolTable crc syms ++
        (placeSeries crc (indexHeader.length + (symbolTable crc syms).length) series).1 ++
        indexMid crc syms series ++ encToc crc (writeIndex crc syms series).toc := by
  simp only [writeIndex, indexMid, List.append_assoc]

/-! ### postings placement, the reader's table, distinct keys -/

theorem padLen4_aligned (pos : Nat) : (pos + padLen 4 pos) % 4 = 0 := by
  unfold padLen; omega

theorem placePostings_length (crc : Crc) : ∀ (ps : List PList) (pos : Nat),
    (placePostings crc pos ps).2.length = ps.length := by
  intro ps
  induction ps with
  | nil => intro pos; rfl
  | cons p ps ih => intro pos; simp [placePostings, ih]

/-- Every postings list sits in the postings section at the offset recorded for it. -/
theorem placePostings_spec (crc : Crc) : ∀ (ps : List PList) (pos k : Nat) (p : PList),
    ps[k]? = some p →
    ∃ e a b, (placePostings crc pos ps).2[k]? = some e ∧ e.name = p.name ∧ e.value = p.value ∧
      (placePostings crc pos ps).1 = a ++ postingsList crc p.ids ++ b ∧ pos + a.length = e.off := by
  intro ps
  induction ps with
  | nil => intro pos k p h; simp at h
  | cons p0 ps ih =>
    intro pos k p hp
    cases k with
    | zero =>
      simp only [List.getElem?_cons_zero, Option.some.injEq] at hp
      subst hp
      refine ⟨⟨p0.name, p0.value, pos + padLen 4 pos⟩, zeros (padLen 4 pos),
        (placePostings crc (pos + padLen 4 pos + (postingsList crc p0.ids).length) ps).1, ?_, rfl, rfl, ?_, ?_⟩
      · simp [placePostings]
      · simp [placePostings]
      · simp [zeros]
    | succ k =>
      simp only [List.getElem?_cons_succ] at hp
      obtain ⟨e, a, b, he, hn, hv, hab, hoff⟩ := ih (pos + padLen 4 pos + (postingsList crc p0.ids).length) k p hp
      refine ⟨e, zeros (padLen 4 pos) ++ postingsList crc p0.ids ++ a, b, ?_, hn, hv, ?_, ?_⟩
      · simp only [placePostings, List.getElem?_cons_succ]; exact he
      · simp only [placePostings, hab, List.append_assoc]
      · simp only [List.length_append, zeros, List.length_replicate] at hoff ⊢
        omega

/-! ### `sortUniq` -/

theorem mem_insertUniq {x y : Nat} : ∀ {l : List Nat}, y ∈ insertUniq x l → y = x ∨ y ∈ l := by
  intro l
  induction l with
  | nil => intro h; simp [insertUniq] at h; exact Or.inl h
  | cons z zs ih =>
    intro h
    unfold insertUniq at h
    split at h
    · simp at h; rcases h with h | h | h
      · exact Or.inl h
      · exact Or.inr (by simp [h])
      · exact Or.inr (by simp [h])
    · split at h
      · exact Or.inr h
      · simp at h; rcases h with h | h
        · exact Or.inr (by simp [h])
        · rcases ih h with h | h
          · exact Or.inl h
          · exact Or.inr (by simp [h])

theorem mem_sortUniq {y : Nat} : ∀ {l : List Nat}, y ∈ sortUniq l → y ∈ l := by
  intro l
  induction l with
  | nil => intro h; simp [sortUniq] at h
  | cons x xs ih =>
    intro h
    unfold sortUniq at h
    simp only [List.foldr_cons] at h
    rcases mem_insertUniq h with h | h
    · simp [h]
    · exact List.mem_cons_of_mem _ (ih h)


/-- offsets and names of the placed entries -/
theorem placePostings_mem (crc : Crc) : ∀ (ps : List PList) (pos : Nat) (e : TableEntry),
    e ∈ (placePostings crc pos ps).2 →
    e.off ≤ pos + (placePostings crc pos ps).1.length ∧ ∃ p ∈ ps, e.name = p.name ∧ e.value = p.value := by
  intro ps
  induction ps with
  | nil => intro pos e h; simp [placePostings] at h
  | cons p0 ps ih =>
    intro pos e h
    simp only [placePostings, List.mem_cons] at h
    rcases h with h | h
    · subst h
      refine ⟨?_, p0, by simp, rfl, rfl⟩
      simp only [placePostings, List.length_append, zeros, List.length_replicate]; omega
    · obtain ⟨h1, p, hp, hn, hv⟩ := ih _ e h
      refine ⟨?_, p, by simp [hp], hn, hv⟩
      simp only [placePostings, List.length_append, zeros, List.length_replicate] at h1 ⊢; omega

theorem encTableEntry_length_pos (e : TableEntry) : 0 < (encTableEntry e).length := by
  unfold encTableEntry
  simp only [List.length_append]
  have := putUvarint_length_pos 2
  omega

theorem flatMap_enc_length_ge (es : List TableEntry) : es.length ≤ (es.flatMap encTableEntry).length := by
  induction es with
  | nil => simp
  | cons e es ih =>
    have := encTableEntry_length_pos e
    simp only [List.flatMap_cons, List.length_append, List.length_cons]; omega

def pstartOf (crc : Crc) (syms : List Bytes) (series : List Series) : Nat :=
  let p2 := indexHeader.length + (symbolTable crc syms).length +
    (placeSeries crc (indexHeader.length + (symbolTable crc syms).length) series).1.length
  p2 + padLen 4 p2

def ppOf (crc : Crc) (syms : List Bytes) (series : List Series) : Bytes × List TableEntry :=
  placePostings crc 0 (allPLists syms series
    (placeSeries crc (indexHeader.length + (symbolTable crc syms).length) series).2)

def tableOf (crc : Crc) (syms : List Bytes) (series : List Series) : List TableEntry :=
  (ppOf crc syms series).2.map fun e => { e with off := e.off + pstartOf crc syms series }

/-- the file up to the postings offset table -/
def beforeTable (crc : Crc) (syms : List Bytes) (series : List Series) : Bytes :=
  indexHeader ++ symbolTable crc syms ++
    (placeSeries crc (indexHeader.length + (symbolTable crc syms).length) series).1 ++
    zeros (padLen 4 (indexHeader.length + (symbolTable crc syms).length +
      (placeSeries crc (indexHeader.length + (symbolTable crc syms).length) series).1.length)) ++
    (ppOf crc syms series).1

theorem writeIndex_bytes2 (crc : Crc) (syms : List Bytes) (series : List Series) :
    (writeIndex crc syms series).bytes =
      beforeTable crc syms series ++ offsetTable crc (tableOf crc syms series) ++
        encToc crc (writeIndex crc syms series).toc := by
  simp only [writeIndex, beforeTable, tableOf, ppOf, pstartOf, List.append_assoc]

theorem beforeTable_length (crc : Crc) (syms : List Bytes) (series : List Series) :
    (beforeTable crc syms series).length = (writeIndex crc syms series).toc.postingsTable := by
  simp only [writeIndex, beforeTable, ppOf, List.length_append, zeros, List.length_replicate]

theorem pstartOf_add (crc : Crc) (syms : List Bytes) (series : List Series) :
    pstartOf crc syms series + (ppOf crc syms series).1.length = (beforeTable crc syms series).length := by
  simp only [beforeTable, pstartOf, List.length_append, zeros, List.length_replicate]

theorem find?_unique_index {α} (P : α → Bool) : ∀ (l : List α) (k : Nat) (x : α),
    l[k]? = some x → P x = true → (∀ j y, l[j]? = some y → P y = true → j = k) → l.find? P = some x := by
  intro l
  induction l with
  | nil => intro k x h; simp at h
  | cons y ys ih =>
    intro k x hk hP huniq
    by_cases hy : P y = true
    · have := huniq 0 y (by simp) hy
      subst this
      simp only [List.getElem?_cons_zero, Option.some.injEq] at hk
      subst hk
      simp [List.find?, hy]
    · cases k with
      | zero =>
        simp only [List.getElem?_cons_zero, Option.some.injEq] at hk
        subst hk
        exact absurd hP hy
      | succ k =>
        simp only [List.getElem?_cons_succ] at hk
        have hy' : P y = false := by simpa using hy
        simp only [List.find?, hy']
        apply ih k x hk hP
        intro j z hj hz
        have := huniq (j + 1) z (by simpa using hj) hz
        omega


theorem placeSeries_ids_bound (crc : Crc) : ∀ (ss : List Series) (pos : Nat) (id : Nat),
    id ∈ (placeSeries crc pos ss).2 → id * 16 ≤ pos + (placeSeries crc pos ss).1.length := by
  intro ss
  induction ss with
  | nil => intro pos id h; simp [placeSeries] at h
  | cons s ss ih =>
    intro pos id h
    simp only [placeSeries, List.mem_cons] at h
    rcases h with h | h
    · subst h
      simp only [placeSeries, List.length_append, zeros, List.length_replicate]
      have := Nat.div_mul_le_self (pos + padLen 16 pos) 16
      omega
    · have := ih _ id h
      simp only [placeSeries, List.length_append, zeros, List.length_replicate] at this ⊢
      omega

theorem idsWith_subset (placed : List (Nat × Series)) (n v id : Nat) (h : id ∈ idsWith placed n v) :
    id ∈ placed.map (·.1) := by
  unfold idsWith at h
  simp only [List.mem_flatMap, List.mem_map] at h
  obtain ⟨p, hp, _, _, rfl⟩ := h
  exact List.mem_map.mpr ⟨p, hp, rfl⟩

theorem allPLists_ids_subset (syms : List Bytes) (series : List Series) (ids : List Nat) (p : PList)
    (hp : p ∈ allPLists syms series ids) (id : Nat) (hid : id ∈ p.ids) : id ∈ ids := by
  unfold allPLists at hp
  simp only [List.mem_cons, List.mem_flatMap, List.mem_map] at hp
  rcases hp with hp | ⟨n, _, v, _, hv⟩
  · subst hp; exact hid
  · subst hv
    have := idsWith_subset _ n v id hid
    simp only [List.mem_map] at this
    obtain ⟨q, hq, rfl⟩ := this
    exact (List.of_mem_zip hq).1

theorem insertUniq_sorted (x : Nat) : ∀ (l : List Nat), l.Pairwise (· < ·) → (insertUniq x l).Pairwise (· < ·) := by
  intro l
  induction l with
  | nil => intro _; simp [insertUniq]
  | cons z zs ih =>
    intro h
    rw [List.pairwise_cons] at h
    unfold insertUniq
    split
    · rename_i hxz
      rw [List.pairwise_cons]
      refine ⟨?_, List.pairwise_cons.mpr h⟩
      intro a ha
      simp only [List.mem_cons] at ha
      rcases ha with ha | ha
      · omega
      · have := h.1 a ha; omega
    · split
      · exact List.pairwise_cons.mpr h
      · rename_i h1 h2
        rw [List.pairwise_cons]
        refine ⟨?_, ih h.2⟩
        intro a ha
        rcases mem_insertUniq ha with ha | ha
        · omega
        · exact h.1 a ha

theorem sortUniq_sorted (xs : List Nat) : (sortUniq xs).Pairwise (· < ·) := by
  induction xs with
  | nil => simp [sortUniq]
  | cons x xs ih =>
    unfold sortUniq
    simp only [List.foldr_cons]
    exact insertUniq_sorted x _ ih

theorem strOf_inj (syms : List Bytes) (hnd : syms.Nodup) (i j : Nat) (hi : i < syms.length) (hj : j < syms.length)
    (h : strOf syms i = strOf syms j) : i = j := by
  unfold strOf at h
  rw [List.getElem?_eq_getElem hi, List.getElem?_eq_getElem hj] at h
  simp only [Option.getD_some] at h
  have : syms[i]? = syms[j]? := by
    rw [List.getElem?_eq_getElem hi, List.getElem?_eq_getElem hj, h]
  exact (List.getElem?_inj hi hnd).mp this

/-! ### label values and label names of the reader's table -/

/-- names and values in the reader's table are those of the postings lists, in order -/
theorem tableOf_keys (crc : Crc) (syms : List Bytes) (series : List Series) :
    (tableOf crc syms series).map (fun e => (e.name, e.value)) =
      (allPLists syms series (writeIndex crc syms series).ids).map (fun p => (p.name, p.value)) := by
  apply List.ext_getElem?
  intro k
  simp only [List.getElem?_map, tableOf, ppOf]
  have hids : (writeIndex crc syms series).ids =
      (placeSeries crc (indexHeader.length + (symbolTable crc syms).length) series).2 := rfl
  rw [hids]
  cases hp : (allPLists syms series (placeSeries crc (indexHeader.length + (symbolTable crc syms).length) series).2)[k]? with
  | none =>
    have hlen := placePostings_length crc (allPLists syms series
      (placeSeries crc (indexHeader.length + (symbolTable crc syms).length) series).2) 0
    have : (placePostings crc 0 (allPLists syms series
      (placeSeries crc (indexHeader.length + (symbolTable crc syms).length) series).2)).2[k]? = none := by
      rw [List.getElem?_eq_none_iff] at hp ⊢; omega
    rw [this]; rfl
  | some p =>
    obtain ⟨e, _, _, he, hn, hv, _, _⟩ := placePostings_spec crc _ 0 k p hp
    rw [he]
    simp [hn, hv]

theorem bytesLt_irrefl : ∀ (a : Bytes), bytesLt a a = false := by
  intro a
  induction a with
  | nil => rfl
  | cons x xs ih => simp [bytesLt, ih]

theorem insertBytes_dup (x : Bytes) (ys : List Bytes) : insertBytes x (x :: ys) = x :: ys := by
  simp [insertBytes, bytesLt_irrefl]

/-- keys of the postings lists after the all-postings entry -/
def restKeys (syms : List Bytes) (series : List Series) : List (Bytes × Bytes) :=
  (namesOf series).flatMap fun n => (valuesOf series n).map fun v => (strOf syms n, strOf syms v)

theorem allPLists_keys (syms : List Bytes) (series : List Series) (ids : List Nat) :
    (allPLists syms series ids).map (fun p => (p.name, p.value)) = ([], []) :: restKeys syms series := by
  unfold allPLists restKeys
  simp only [List.map_cons, List.map_flatMap, List.map_map]
  rfl

/-- filtering the keys of sorted names by one of them keeps exactly its block -/
theorem filter_keys (syms : List Bytes) (f : Nat → List Nat) (hnd : syms.Nodup) :
    ∀ (names : List Nat) (n : Nat), names.Pairwise (· < ·) → (∀ m ∈ names, m < syms.length) → n ∈ names →
    ((names.flatMap fun m => (f m).map fun v => (strOf syms m, strOf syms v)).filter
        (fun k => decide (k.1 = strOf syms n))).map (·.2) = (f n).map (strOf syms) := by
  intro names
  induction names with
  | nil => intro n _ _ h; simp at h
  | cons m ms ih =>
    intro n hs hv hn
    rw [List.pairwise_cons] at hs
    simp only [List.flatMap_cons, List.filter_append, List.map_append]
    by_cases hmn : m = n
    · subst hmn
      have h1 : ((f m).map fun v => (strOf syms m, strOf syms v)).filter (fun k => decide (k.1 = strOf syms m))
          = (f m).map fun v => (strOf syms m, strOf syms v) := by
        rw [List.filter_eq_self]; intro a ha; simp only [List.mem_map] at ha; obtain ⟨_, _, rfl⟩ := ha; simp
      have h2 : (ms.flatMap fun m' => (f m').map fun v => (strOf syms m', strOf syms v)).filter
          (fun k => decide (k.1 = strOf syms m)) = [] := by
        rw [List.filter_eq_nil_iff]
        intro a ha
        simp only [List.mem_flatMap, List.mem_map] at ha
        obtain ⟨m', hm', _, _, rfl⟩ := ha
        simp only [decide_eq_true_eq]
        intro hc
        have := strOf_inj syms hnd m' m (hv m' (by simp [hm'])) (hv m (by simp)) hc
        have := hs.1 m' hm'
        omega
      rw [h1, h2]; simp
    · have hn' : n ∈ ms := by simpa [Ne.symm hmn] using hn
      have h1 : ((f m).map fun v => (strOf syms m, strOf syms v)).filter (fun k => decide (k.1 = strOf syms n)) = [] := by
        rw [List.filter_eq_nil_iff]
        intro a ha
        simp only [List.mem_map] at ha
        obtain ⟨_, _, rfl⟩ := ha
        simp only [decide_eq_true_eq]
        intro hc
        exact hmn (strOf_inj syms hnd m n (hv m (by simp)) (hv n (by simp [hn'])) hc)
      rw [h1]
      simp only [List.map_nil, List.nil_append]
      exact ih n hs.2 (fun m' hm' => hv m' (by simp [hm'])) hn'


theorem mem_insertUniq_self (x : Nat) : ∀ (l : List Nat), x ∈ insertUniq x l := by
  intro l
  induction l with
  | nil => simp [insertUniq]
  | cons y ys ih =>
    unfold insertUniq
    split
    · simp
    · split
      · rename_i h; simp [h]
      · simp [ih]

theorem mem_insertUniq_of_mem (x y : Nat) : ∀ (l : List Nat), y ∈ l → y ∈ insertUniq x l := by
  intro l
  induction l with
  | nil => intro h; simp at h
  | cons z zs ih =>
    intro h
    unfold insertUniq
    split
    · simp only [List.mem_cons] at h ⊢; exact Or.inr h
    · split
      · exact h
      · simp only [List.mem_cons] at h ⊢
        rcases h with h | h
        · exact Or.inl h
        · exact Or.inr (ih h)

theorem mem_sortUniq_of_mem (y : Nat) : ∀ (l : List Nat), y ∈ l → y ∈ sortUniq l := by
  intro l
  induction l with
  | nil => intro h; simp at h
  | cons x xs ih =>
    intro h
    unfold sortUniq
    simp only [List.foldr_cons]
    simp only [List.mem_cons] at h
    rcases h with h | h
    · subst h; exact mem_insertUniq_self _ _
    · exact mem_insertUniq_of_mem _ _ _ (ih h)

/-- a name in use has at least one value -/
theorem valuesOf_ne_nil (series : List Series) (n : Nat) (hn : n ∈ namesOf series) : valuesOf series n ≠ [] := by
  unfold namesOf at hn
  have := mem_sortUniq hn
  simp only [List.mem_flatMap, List.mem_map] at this
  obtain ⟨s, hs, p, hp, rfl⟩ := this
  have : p.2 ∈ valuesOf series p.1 := by
    unfold valuesOf
    apply mem_sortUniq_of_mem
    simp only [List.mem_flatMap, List.mem_map, List.mem_filter]
    exact ⟨s, hs, p, ⟨hp, by simp⟩, rfl⟩
  intro hc; rw [hc] at this; simp at this

theorem insertBytes_lt_head (x : Bytes) (tail : List Bytes) (h : ∀ y ∈ tail.head?, bytesLt x y = true) :
    insertBytes x tail = x :: tail := by
  cases tail with
  | nil => rfl
  | cons y ys => simp [insertBytes, h y (by simp)]

theorem foldr_const_block {α} (x : Bytes) (tail : List Bytes) (h : ∀ y ∈ tail.head?, bytesLt x y = true) :
    ∀ (l : List α), l ≠ [] → (l.map fun _ => x).foldr insertBytes tail = x :: tail := by
  intro l
  induction l with
  | nil => intro h; exact absurd rfl h
  | cons a as ih =>
    intro _
    simp only [List.map_cons, List.foldr_cons]
    cases as with
    | nil => simp only [List.map_nil, List.foldr_nil]; exact insertBytes_lt_head x tail h
    | cons b bs => rw [ih (by simp)]; exact insertBytes_dup x tail

/-- sorted blocks of repeated names fold to the names -/
theorem foldr_insertBytes_blocks {α} (f : Nat → Bytes) (g : Nat → List α) :
    ∀ (names : List Nat), (names.map f).Pairwise (fun a b => bytesLt a b = true) → (∀ n ∈ names, g n ≠ []) →
    (names.flatMap fun n => (g n).map fun _ => f n).foldr insertBytes [] = names.map f := by
  intro names
  induction names with
  | nil => intro _ _; rfl
  | cons n ns ih =>
    intro hs hg
    simp only [List.map_cons, List.pairwise_cons] at hs
    simp only [List.flatMap_cons, List.foldr_append, List.map_cons]
    rw [ih hs.2 (fun m hm => hg m (by simp [hm]))]
    apply foldr_const_block
    · intro y hy
      cases hns : ns.map f with
      | nil => rw [hns] at hy; simp at hy
      | cons z zs =>
        rw [hns] at hy
        simp only [List.head?_cons, Option.mem_def, Option.some.injEq] at hy
        subst hy
        exact hs.1 z (by rw [hns]; simp)
    · exact hg n (by simp)

/-! ### the chunk writer -/

theorem appendLast_length : ∀ (segs : List Bytes) (b : Bytes), segs ≠ [] → (appendLast segs b).length = segs.length := by
  intro segs
  induction segs with
  | nil => intro b h; exact absurd rfl h
  | cons x xs ih =>
    intro b _
    cases xs with
    | nil => rfl
    | cons y r => simp only [appendLast, List.length_cons]; rw [ih b (by simp)]; rfl

/-- every segment keeps its content as a prefix -/
theorem appendLast_prefix : ∀ (segs : List Bytes) (b : Bytes) (k : Nat) (s : Bytes), segs[k]? = some s →
    ∃ post, (appendLast segs b)[k]? = some (s ++ post) := by
  intro segs
  induction segs with
  | nil => intro b k s h; simp at h
  | cons x xs ih =>
    intro b k s h
    cases xs with
    | nil =>
      cases k with
      | zero => simp at h; subst h; exact ⟨b, by simp [appendLast]⟩
      | succ k => simp at h
    | cons y r =>
      cases k with
      | zero => simp at h; subst h; exact ⟨[], by simp [appendLast]⟩
      | succ k =>
        simp only [List.getElem?_cons_succ] at h
        obtain ⟨post, hp⟩ := ih b k s h
        exact ⟨post, by simp only [appendLast, List.getElem?_cons_succ]; exact hp⟩

/-- the last segment gets the new bytes -/
theorem appendLast_last : ∀ (segs : List Bytes) (b : Bytes) (last : Bytes), segs[segs.length - 1]? = some last →
    (appendLast segs b)[segs.length - 1]? = some (last ++ b) := by
  intro segs
  induction segs with
  | nil => intro b last h; simp at h
  | cons x xs ih =>
    intro b last h
    cases xs with
    | nil => simp at h; subst h; simp [appendLast]
    | cons y r =>
      simp only [List.length_cons, Nat.add_sub_cancel] at h ⊢
      rw [List.getElem?_cons_succ] at h
      have := ih b last (by simpa using h)
      simp only [appendLast, List.getElem?_cons_succ]
      simpa using this

/-- The record of chunk `c` lies in segment `ref >> 32` at offset `ref & 0xffffffff`. -/
def Stored (crc : Crc) (segs : List Bytes) (ref : Nat) (c : Chunk) : Prop :=
  ∃ sgm pre post, segs[sgm]? = some (pre ++ chunkRecord crc c.1 c.2 ++ post) ∧
    ref = sgm * 4294967296 + pre.length ∧ c.2.length < maxChunkLen

/-- writer invariant: there is a current segment and `w.n` is its length -/
def CWInv (w : CW) : Prop := ∃ last, w.segs[w.segs.length - 1]? = some last ∧ last.length = w.n

theorem stored_appendLast (crc : Crc) (segs : List Bytes) (b : Bytes) (ref : Nat) (c : Chunk)
    (h : Stored crc segs ref c) : Stored crc (appendLast segs b) ref c := by
  obtain ⟨sgm, pre, post, hs, hr, hl⟩ := h
  obtain ⟨post', hp⟩ := appendLast_prefix segs b sgm _ hs
  exact ⟨sgm, pre, post ++ post', by rw [hp]; simp [List.append_assoc], hr, hl⟩

theorem writeBatch_spec (crc : Crc) : ∀ (cs : List Chunk) (w w' : CW) (refs : List Nat),
    CWInv w → CW.writeBatch crc w cs = .ok (w', refs) →
    CWInv w' ∧ w'.segSize = w.segSize ∧ w'.segs.length = w.segs.length ∧
    (∀ ref c, Stored crc w.segs ref c → Stored crc w'.segs ref c) ∧
    refs.length = cs.length ∧
    ∀ (i : Nat) (c : Chunk) (ref : Nat), cs[i]? = some c → refs[i]? = some ref → Stored crc w'.segs ref c := by
  intro cs
  induction cs with
  | nil =>
    intro w w' refs hinv h
    simp only [CW.writeBatch, Except.ok.injEq, Prod.mk.injEq] at h
    obtain ⟨rfl, rfl⟩ := h
    exact ⟨hinv, rfl, rfl, fun _ _ h => h, rfl, by intro i c ref hc; simp at hc⟩
  | cons c cs ih =>
    intro w w' refs hinv h
    unfold CW.writeBatch at h
    split at h
    · cases h
    · rename_i hlen
      simp only at h
      obtain ⟨last, hlast, hn⟩ := hinv
      have hne : w.segs ≠ [] := by
        intro he; rw [he] at hlast; simp at hlast
      -- state after the record
      have hinv1 : CWInv (⟨w.segSize, w.n + (chunkRecord crc c.1 c.2).length, appendLast w.segs (chunkRecord crc c.1 c.2)⟩ : CW) := by
        refine ⟨last ++ chunkRecord crc c.1 c.2, ?_, ?_⟩
        · simp only [appendLast_length _ _ hne]
          exact appendLast_last _ _ _ hlast
        · simp only [List.length_append]; omega
      cases hrec : CW.writeBatch crc (⟨w.segSize, w.n + (chunkRecord crc c.1 c.2).length, appendLast w.segs (chunkRecord crc c.1 c.2)⟩ : CW) cs with
      | error e => rw [hrec] at h; cases h
      | ok r =>
        obtain ⟨w1, refs1⟩ := r
        rw [hrec] at h
        simp only [Except.ok.injEq, Prod.mk.injEq] at h
        obtain ⟨rfl, rfl⟩ := h
        obtain ⟨i1, i2, i3, i4, i5, i6⟩ := ih _ _ _ hinv1 hrec
        have hstored0 : Stored crc (appendLast w.segs (chunkRecord crc c.1 c.2))
            ((w.segs.length - 1) * 4294967296 + w.n) c := by
          refine ⟨w.segs.length - 1, last, [], ?_, by rw [hn], by omega⟩
          rw [appendLast_last _ _ _ hlast]; simp
        refine ⟨i1, i2, ?_, ?_, by simp [i5], ?_⟩
        · rw [i3]; exact appendLast_length _ _ hne
        · intro ref c' hs; exact i4 ref c' (stored_appendLast crc _ _ ref c' hs)
        · intro i c' ref hc hr
          cases i with
          | zero =>
            simp only [List.getElem?_cons_zero, Option.some.injEq] at hc hr
            subst hc hr
            exact i4 _ _ hstored0
          | succ i =>
            simp only [List.getElem?_cons_succ] at hc hr
            exact i6 i c' ref hc hr


theorem cut_inv (w : CW) : CWInv w.cut := by
  refine ⟨segmentHeader, ?_, rfl⟩
  simp [CW.cut]

theorem stored_cut (crc : Crc) (w : CW) (ref : Nat) (c : Chunk) (h : Stored crc w.segs ref c) :
    Stored crc w.cut.segs ref c := by
  obtain ⟨sgm, pre, post, hs, hr, hl⟩ := h
  refine ⟨sgm, pre, post, ?_, hr, hl⟩
  have hlt : sgm < w.segs.length := (List.getElem?_eq_some_iff.mp hs).1
  simp only [CW.cut]
  rw [List.getElem?_append_left hlt]; exact hs

theorem writeBatches_spec (crc : Crc) : ∀ (bs : List (List Chunk)) (w w' : CW) (refs : List Nat),
    CWInv w → CW.writeBatches crc w bs = .ok (w', refs) →
    CWInv w' ∧ (∀ ref c, Stored crc w.segs ref c → Stored crc w'.segs ref c) ∧
    refs.length = bs.flatten.length ∧
    ∀ (i : Nat) (c : Chunk) (ref : Nat), bs.flatten[i]? = some c → refs[i]? = some ref → Stored crc w'.segs ref c := by
  intro bs
  induction bs with
  | nil =>
    intro w w' refs hinv h
    simp only [CW.writeBatches, Except.ok.injEq, Prod.mk.injEq] at h
    obtain ⟨rfl, rfl⟩ := h
    exact ⟨hinv, fun _ _ h => h, rfl, by intro i c ref hc; simp at hc⟩
  | cons b rest ih =>
    intro w w' refs hinv h
    cases rest with
    | nil =>
      simp only [CW.writeBatches] at h
      obtain ⟨i1, _, _, i4, i5, i6⟩ := writeBatch_spec crc b w w' refs hinv h
      exact ⟨i1, i4, by simp [i5], by simpa using i6⟩
    | cons b2 rest =>
      simp only [CW.writeBatches] at h
      cases h1 : CW.writeBatch crc w b with
      | error e => rw [h1] at h; cases h
      | ok r1 =>
        obtain ⟨w1, refs1⟩ := r1
        rw [h1] at h
        simp only at h
        cases h2 : CW.writeBatches crc w1.cut (b2 :: rest) with
        | error e => rw [h2] at h; cases h
        | ok r2 =>
          obtain ⟨w2, refs2⟩ := r2
          rw [h2] at h
          simp only [Except.ok.injEq, Prod.mk.injEq] at h
          obtain ⟨rfl, rfl⟩ := h
          obtain ⟨_, _, _, a4, a5, a6⟩ := writeBatch_spec crc b w w1 refs1 hinv h1
          obtain ⟨b1, b4, b5, b6⟩ := ih w1.cut _ refs2 (cut_inv w1) h2
          refine ⟨b1, ?_, ?_, ?_⟩
          · intro ref c hs; exact b4 ref c (stored_cut crc w1 ref c (a4 ref c hs))
          · simp only [List.flatten_cons, List.length_append] at b5 ⊢; omega
          · intro i c ref hc hr
            simp only [List.flatten_cons] at hc
            by_cases hi : i < b.length
            · rw [List.getElem?_append_left hi] at hc
              rw [List.getElem?_append_left (by omega)] at hr
              exact b4 ref c (stored_cut crc w1 ref c (a6 i c ref hc hr))
            · rw [List.getElem?_append_right (by omega)] at hc
              rw [List.getElem?_append_right (by omega), a5] at hr
              exact b6 (i - b.length) c ref (by simpa using hc) hr

theorem splitBatches_flatten (segSize wn : Nat) : ∀ (cs : List Chunk) (i bsz : Nat) (fb : Bool) (cur : List Chunk)
    (done : List (List Chunk)),
    (splitBatches segSize wn cs i bsz fb cur done).flatten = done.reverse.flatten ++ cur.reverse ++ cs := by
  intro cs
  induction cs with
  | nil => intro i bsz fb cur done; simp [splitBatches]
  | cons c cs ih =>
    intro i bsz fb cur done
    unfold splitBatches
    simp only
    repeat' split
    all_goals (rw [ih]; simp)

/-- `WriteChunks`: every chunk of the call is stored under the reference assigned to it, and what
    was stored before stays stored (segments only grow, new segments are appended). -/
theorem writeChunks_spec (crc : Crc) (w w' : CW) (chks : List Chunk) (refs : List Nat)
    (hinv : w.n ≠ 0 → CWInv w) (h : w.writeChunks crc chks = .ok (w', refs)) :
    CWInv w' ∧ (∀ ref c, Stored crc w.segs ref c → Stored crc w'.segs ref c) ∧
    refs.length = chks.length ∧
    ∀ (i : Nat) (c : Chunk) (ref : Nat), chks[i]? = some c → refs[i]? = some ref → Stored crc w'.segs ref c := by
  unfold CW.writeChunks at h
  simp only at h
  have hflat := splitBatches_flatten w.segSize w.n chks 0 0 true [] []
  simp only [List.reverse_nil, List.flatten_nil, List.nil_append] at hflat
  by_cases hn : w.n = 0
  · rw [if_pos hn] at h
    obtain ⟨b1, b4, b5, b6⟩ := writeBatches_spec crc _ w.cut w' refs (cut_inv w) h
    rw [hflat] at b5 b6
    exact ⟨b1, fun ref c hs => b4 ref c (stored_cut crc w ref c hs), b5, b6⟩
  · rw [if_neg hn] at h
    obtain ⟨b1, b4, b5, b6⟩ := writeBatches_spec crc _ w w' refs (hinv hn) h
    rw [hflat] at b5 b6
    exact ⟨b1, b4, b5, b6⟩

end Prom.BlockIndex
