import PromProofs.LabelSetBuilder
/-
  Helper lemmas for C39: Compare is the lexicographic order; Get/Has early exit is sound on sorted sets.
-/
namespace Prom.Labels

/-! ### Compare -/

theorem compare_refl (a : LabelSet) : compare a a = 0 := by
  induction a with
  | nil => rfl
  | cons x xs ih => obtain ⟨n, v⟩ := x; simp [compare, ih]

theorem compare_antisymm (a b : LabelSet) : compare b a = -(compare a b) := by
  induction a generalizing b with
  | nil => cases b <;> simp [compare]
  | cons x xs ih =>
    cases b with
    | nil => simp [compare]
    | cons y ys =>
      obtain ⟨an, av⟩ := x; obtain ⟨bn, bv⟩ := y
      simp only [compare]
      by_cases hn : an = bn
      · subst hn
        by_cases hv : av = bv
        · subst hv; simp [ih]
        · have hv' : ¬ bv = av := fun e => hv e.symm
          simp only [ne_eq, not_true_eq_false, if_false, hv, hv', not_false_eq_true, if_true]
          rcases slt_total hv with h | h
          · simp [h, slt_asymm h]
          · simp [h, slt_asymm h]
      · have hn' : ¬ bn = an := fun e => hn e.symm
        simp only [ne_eq, hn, hn', not_false_eq_true, if_true]
        rcases slt_total hn with h | h
        · simp [h, slt_asymm h]
        · simp [h, slt_asymm h]

theorem compare_eq_zero_iff (a b : LabelSet) : compare a b = 0 ↔ a = b := by
  induction a generalizing b with
  | nil => cases b <;> simp [compare]
  | cons x xs ih =>
    cases b with
    | nil => simp [compare]
    | cons y ys =>
      obtain ⟨an, av⟩ := x; obtain ⟨bn, bv⟩ := y
      simp only [compare]
      by_cases hn : an = bn
      · subst hn
        by_cases hv : av = bv
        · subst hv; simp [ih]
        · simp only [ne_eq, not_true_eq_false, if_false, hv, not_false_eq_true, if_true]
          constructor
          · intro h; split at h <;> simp at h
          · intro h; simp at h; exact absurd h.1 hv
      · simp only [ne_eq, hn, not_false_eq_true, if_true]
        constructor
        · intro h; split at h <;> simp at h
        · intro h; simp at h; exact absurd h.1.1 hn

theorem compare_values (a b : LabelSet) : compare a b = -1 ∨ compare a b = 0 ∨ compare a b = 1 := by
  induction a generalizing b with
  | nil => cases b <;> simp [compare]
  | cons x xs ih =>
    cases b with
    | nil => simp [compare]
    | cons y ys =>
      obtain ⟨an, av⟩ := x; obtain ⟨bn, bv⟩ := y
      simp only [compare]
      split
      · split <;> simp
      · split
        · split <;> simp
        · exact ih ys

/-- flattened byte strings name₁, value₁, name₂, value₂, … -/
def flatB (ls : LabelSet) : List (List UInt8) := ls.flatMap fun l => [sbytes l.1, sbytes l.2]

theorem compare_lt_iff (a b : LabelSet) : compare a b = -1 ↔ flatB a < flatB b := by
  induction a generalizing b with
  | nil => cases b <;> simp [compare, flatB]
  | cons x xs ih =>
    cases b with
    | nil => simp [compare, flatB]
    | cons y ys =>
      obtain ⟨an, av⟩ := x; obtain ⟨bn, bv⟩ := y
      have hflat : ∀ (n v : String) (r : LabelSet), flatB ((n, v) :: r) = sbytes n :: sbytes v :: flatB r := by
        intro n v r; simp [flatB]
      simp only [compare, hflat, List.cons_lt_cons_iff]
      by_cases hn : an = bn
      · subst hn
        by_cases hv : av = bv
        · subst hv
          simp only [ne_eq, not_true_eq_false, if_false, ih, true_and]
          have := List.lt_irrefl (sbytes an); have := List.lt_irrefl (sbytes av)
          simp [*]
        · have hb : sbytes av ≠ sbytes bv := fun e => hv (sbytes_inj e)
          have := List.lt_irrefl (sbytes an)
          simp only [ne_eq, not_true_eq_false, if_false, hv, not_false_eq_true, if_true, this, false_or,
            true_and, hb, false_and, or_false]
          by_cases h : slt av bv = true
          · simp [h, slt_iff.mp h]
          · have : ¬ sbytes av < sbytes bv := fun e => h (slt_iff.mpr e)
            simp [h, this]
      · have hb : sbytes an ≠ sbytes bn := fun e => hn (sbytes_inj e)
        simp only [ne_eq, hn, not_false_eq_true, if_true, hb, false_and, or_false]
        by_cases h : slt an bn = true
        · simp [h, slt_iff.mp h]
        · have : ¬ sbytes an < sbytes bn := fun e => h (slt_iff.mpr e)
          simp [h, this]

/-! ### Get / Has -/

theorem firstByte_lt {a b : String} {x y : UInt8} (ha : firstByte a = some x) (hb : firstByte b = some y)
    (h : x < y) : slt a b = true := by
  unfold firstByte at ha hb
  rw [slt_iff]
  cases hA : sbytes a with
  | nil => rw [hA] at ha; cases ha
  | cons p ps =>
    cases hB : sbytes b with
    | nil => rw [hB] at hb; cases hb
    | cons q qs =>
      rw [hA] at ha; rw [hB] at hb
      simp only [List.head?_cons, Option.some.injEq] at ha hb
      subst ha; subst hb
      exact List.cons_lt_cons_iff.mpr (Or.inl h)

theorem find?_none_of_lt {ls : LabelSet} {k : String} (h : ∀ c ∈ ls, slt k c.1 = true) :
    ls.find? (·.1 = k) = none := by
  rw [List.find?_eq_none]
  intro c hc e
  simp only [decide_eq_true_eq] at e
  have := h c hc; rw [e, slt_irrefl] at this; cases this

/-- On a strictly sorted set without empty names, every build's scan returns the first label
    with that name. -/
theorem findEarly_sorted (fl : Flavor) {ls : LabelSet} (hs : Sorted ls) (he : ∀ l ∈ ls, l.1 ≠ "")
    {name : String} {nb : UInt8} (hnb : firstByte name = some nb) :
    findEarly fl name nb ls = .ok (ls.find? (·.1 = name)) := by
  induction ls with
  | nil => simp [findEarly]
  | cons x xs ih =>
    obtain ⟨n, v⟩ := x
    have hx := List.pairwise_cons.mp hs
    have ih' := ih hx.2 (fun l hl => he l (List.mem_cons_of_mem _ hl))
    have hne : n ≠ "" := he (n, v) List.mem_cons_self
    -- the label name has a first byte
    obtain ⟨fb, hfb⟩ : ∃ fb, firstByte n = some fb := by
      unfold firstByte
      cases hB : sbytes n with
      | nil =>
        exfalso; apply hne; apply sbytes_inj; rw [hB]; rfl
      | cons p ps => exact ⟨p, rfl⟩
    have hgt : fb > nb → xs.find? (·.1 = name) = none ∧ n ≠ name := by
      intro hlt
      have h1 : slt name n = true := firstByte_lt hnb hfb hlt
      refine ⟨find?_none_of_lt (fun c hc => slt_trans h1 (hx.1 c hc)), ?_⟩
      intro e; rw [e, slt_irrefl] at h1; cases h1
    have heq : n = name → fb = nb := by
      intro e; rw [e, hnb] at hfb; exact (Option.some.inj hfb).symm
    simp only [List.find?_cons]
    cases fl with
    | slice =>
      simp only [findEarly]
      by_cases hn : n = name <;> simp [hn, ih']
    | string =>
      simp only [findEarly, hfb]
      by_cases hn : n = name
      · simp [hn, heq hn]
      · by_cases hb : fb = nb
        · simp [hn, hb, ih']
        · by_cases hg : fb > nb
          · simp [hn, hb, hg, (hgt hg).1]
          · simp [hn, hb, hg, ih']
    | dedupe =>
      simp only [findEarly, hfb]
      by_cases hn : n = name
      · simp [hn]
      · by_cases hg : fb > nb
        · simp [hn, hg, (hgt hg).1]
        · simp [hn, hg, ih']

end Prom.Labels
