import PromProofs.HistHint
import PromModel.Suites.HintSuite
/-
  C12: the literal `_full` statements of PromProps/C12.lean (which quantify over ALL `Hist` values and, for the
  merge, over all source lists) are false.  Concrete, kernel-checked counter-examples:

  * `hint_sound_merge_full_witness_aux`  — one source with a duplicate timestamp: the chain iterator drops the
    second sample of the pair, the NotCounterReset of the third one now refers to the first.
  * `hint_sound_query_full_witness_aux`, `hint_sound_chunk_full_witness_aux` — an integer histogram whose spans
    enumerate the same bucket index twice (`[⟨0,1⟩,⟨-1,1⟩]` ↦ indices `[0,0]`; `Validate` rejects the negative
    offset), appended twice.  The appender compares position-wise (equal, no reset), the judge's `lookup` finds the
    first bucket 0 (value 1) for the second one (value 5) and sees a decrease.  So `idxs` strictly increasing
    (`WF.pSorted`/`nSorted`) cannot be dropped from `hint_sound_chunk`/`hint_sound_query`.
  * `hint_sound_chunk_full_flavour_witness_aux` — three histograms that are each valid (`WFs`) for their own
    flavour, but of mixed flavours: a refused float histogram turns the fold's chunk into a float chunk
    (`Chunk.empty h.float`), the integer-flagged histogram pushed into it afterwards is recoded backward with
    `deltas = !h.float = true` although the chunk holds absolute values: bucket 2 becomes 2.0+2.0 as bit
    patterns = 2^63 = -0.0, an empty bucket for the reader.  So the single-flavour hypothesis of
    `hint_sound_chunk` cannot be dropped either (Go's types exclude the situation; `Series.append` cuts on a
    flavour change, which is why `hint_sound_query` does not need it).
-/
namespace Prom.HistWitness
open Prom.Hist

/-! ### merge -/

def mk (hint : Hint) (c : Nat) : Hist :=
  { float := false, hint, schema := 0, zt := 0, count := c, zcount := c, sum := 0, pSpans := [], nSpans := [],
    pB := [], nB := [], custom := [] }

theorem hint_sound_merge_full_witness_aux :
    ∃ (srcs : List (List (Int × Prom.Hist.Hist))) (out : List (Int × Prom.Hist.Hist)),
      (∀ s ∈ srcs, Prom.Hist.hintsSound s = true) ∧ Prom.HintSuite.mergeRead srcs = some out ∧
      Prom.Hist.hintsSound out = false :=
  ⟨[[(1, mk .unknown 5), (1, mk .unknown 1), (2, mk .notReset 2)]], [(1, mk .unknown 5), (2, mk .notReset 2)],
    by decide, by decide, by decide⟩

/-! ### duplicate bucket indices -/

/-- spans `[⟨0,1⟩,⟨-1,1⟩]` enumerate bucket 0 twice (absolute values 1 and 5) -/
def dup : Hist :=
  { float := false, hint := .unknown, schema := 0, zt := 0, count := 6, zcount := 0, sum := 0,
    pSpans := [⟨0, 1⟩, ⟨-1, 1⟩], nSpans := [], pB := [1, 4], nB := [], custom := [] }

def dupChunk : Chunk :=
  { float := false, hdr := .unknown, schema := 0, zt := 0, custom := [], pSpans := [⟨0, 1⟩, ⟨-1, 1⟩], nSpans := [],
    rev := [⟨2, 6, 0, 0, [1, 4], []⟩, ⟨1, 6, 0, 0, [1, 4], []⟩] }

theorem dup_idxs : idxs dup.pSpans = [0, 0] := by decide

theorem hint_sound_query_full_witness_aux :
    ∃ (samples : List (Int × Hist)) (cuts : List Bool) (s : Series),
      (samples.zip cuts).foldlM (fun (st : Series) (p : (Int × Hist) × Bool) =>
        (st.append p.2 p.1.1 p.1.2).map (·.1)) Series.empty = .ok s ∧
      hintsSound s.read = false := by
  refine ⟨[(1, dup), (2, dup)], [false, false], ⟨[], some dupChunk⟩, ?_, by decide⟩
  simp [dup, dupChunk, Series.append, Series.empty, appendHist, Chunk.empty, Chunk.num, Chunk.appendRaw, Hist.stale,
    staleBits, Chunk.appendable, Chunk.last, cLt, fEq, fIsNaN, fKey, customSchema, expandCounter, pairs, idxs,
    idxsFrom, runIdx, absVals, prefixSums, prefixFrom, expandGo, CW.init, CW.finish, CW.advA, CW.advB, vGt,
    bind, Except.bind, pure, Except.pure, Except.map]

theorem hint_sound_chunk_full_witness_aux :
    ∃ (samples : List (Int × Hist)) (c : Chunk),
      samples.foldlM (fun (st : Chunk) (p : Int × Hist) => (appendHist none st p.1 p.2).map (·.chunk))
        (Chunk.empty false) = .ok c ∧
      hintsSound c.read = false := by
  refine ⟨[(1, dup), (2, dup)], dupChunk, ?_, by decide⟩
  simp [dup, dupChunk, appendHist, Chunk.empty, Chunk.num, Chunk.appendRaw, Hist.stale,
    staleBits, Chunk.appendable, Chunk.last, cLt, fEq, fIsNaN, fKey, customSchema, expandCounter, pairs, idxs,
    idxsFrom, runIdx, absVals, prefixSums, prefixFrom, expandGo, CW.init, CW.finish, CW.advA, CW.advB, vGt,
    bind, Except.bind, pure, Except.pure, Except.map]

/-! ### mixed flavours in one chunk fold -/

/-- bits of 2.0 and 4.0 -/
def b2 : Nat := 0x4000000000000000
def b4 : Nat := 0x4010000000000000

def hA : Hist :=
  { float := false, hint := .unknown, schema := 0, zt := 0, count := 1, zcount := 0, sum := 0,
    pSpans := [], nSpans := [], pB := [], nB := [], custom := [] }
/-- float histogram, explicit reset: buckets 0,1,2 = 2.0, 0.0, 2.0 -/
def hF : Hist :=
  { float := true, hint := .reset, schema := 0, zt := 0, count := b4, zcount := 0, sum := 0,
    pSpans := [⟨0, 3⟩], nSpans := [], pB := [b2, 0, b2], nB := [], custom := [] }
/-- integer-flagged histogram with buckets 0 and 2 -/
def hG : Hist :=
  { float := false, hint := .unknown, schema := 0, zt := 0, count := b4, zcount := 0, sum := 0,
    pSpans := [⟨0, 1⟩, ⟨1, 1⟩], nSpans := [], pB := [b2, b2], nB := [], custom := [] }

def mixChunk : Chunk :=
  { float := true, hdr := .reset, schema := 0, zt := 0, custom := [], pSpans := [⟨0, 3⟩], nSpans := [],
    rev := [⟨3, b4, 0, 0, [b2, -b2, 2 ^ 63], []⟩, ⟨2, b4, 0, 0, [b2, 0, b2], []⟩] }

theorem mix_wf : ∀ p ∈ [((1 : Int), hA), (2, hF), (3, hG)], WFs p.2 := by
  intro p hp _
  simp only [List.mem_cons, List.not_mem_nil, or_false] at hp
  rcases hp with rfl | rfl | rfl <;>
    exact ⟨by decide, by decide, by decide, by decide, by decide, by decide, by decide⟩

theorem hint_sound_chunk_full_flavour_witness_aux :
    ∃ (samples : List (Int × Hist)) (c : Chunk),
      (∀ p ∈ samples, WFs p.2) ∧
      samples.foldlM (fun (st : Chunk) (p : Int × Hist) => (appendHist none st p.1 p.2).map (·.chunk))
        (Chunk.empty false) = .ok c ∧
      hintsSound c.read = false := by
  refine ⟨[(1, hA), (2, hF), (3, hG)], mixChunk, mix_wf, ?_, by decide⟩
  simp [hA, hF, hG, mixChunk, b2, b4, appendHist, Chunk.empty, Chunk.num, Chunk.appendRaw, Hist.stale,
    staleBits, Chunk.appendable, Chunk.last, cLt, fEq, fLt, fIsNaN, fKey, customSchema, expandCounter, pairs, idxs,
    idxsFrom, runIdx, absVals, prefixSums, expandGo, CW.init, CW.finish, CW.advA, CW.advB,
    CW.addB, addInsert, vGt, vZero, recodeHistogram, Prom.Hist.insert, insertLoop, takeAt, leftover, countSpans,
    bind, Except.bind, pure, Except.pure, Except.map]

end Prom.HistWitness
