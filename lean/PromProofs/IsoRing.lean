import PromModel.Tsdb.Isolation
/-
  C05 helper lemmas: the transcribed `txRing` (slice + first + count with modular positions) refines a
  plain list of ids (`TxRing.contents`): `add` appends, `cleanupAppendIDsBelow` drops the leading ids below
  the bound, and the loop of `memSeries.iterator` walks that list.
-/
namespace Prom.Iso
namespace TxRing

/-- Well-formed ring: `count ≤ cap` and `first` is a valid position (0 for the empty slice). -/
def WF (r : TxRing) : Prop := r.count ≤ r.ids.length ∧ r.first < max 1 r.ids.length

theorem wf_empty : WF {} := by simp [WF]

/-! ### arithmetic helpers -/

theorem mod_wrap (a len : Nat) (h : a < 2 * len) :
    a % len = if a < len then a else a - len := by
  split
  · exact Nat.mod_eq_of_lt ‹_›
  · rw [Nat.mod_eq_sub_mod (by omega)]
    exact Nat.mod_eq_of_lt (by omega)

theorem succ_mod_wrap (j len : Nat) (h : 0 < len) :
    (if j % len + 1 = len then 0 else j % len + 1) = (j + 1) % len := by
  have hlt := Nat.mod_lt j h
  rw [Nat.add_mod]
  split
  · rename_i e
    by_cases h1 : len = 1
    · subst h1; omega
    · rw [Nat.mod_eq_of_lt (a := 1) (by omega), e, Nat.mod_self]
  · rename_i e
    by_cases h1 : len = 1
    · subst h1; omega
    · rw [Nat.mod_eq_of_lt (a := 1) (by omega), Nat.mod_eq_of_lt (a := j % len + 1) (by omega)]

/-! ### segments of an index function -/

def ringSeg (f : Nat → Nat) : Nat → Nat → List Nat
  | _, 0 => []
  | s, n + 1 => f s :: ringSeg f (s + 1) n

theorem ringSeg_eq_map (f : Nat → Nat) (s n : Nat) :
    (List.range n).map (fun i => f (s + i)) = ringSeg f s n := by
  induction n generalizing s with
  | zero => simp [ringSeg]
  | succ n ih =>
    rw [List.range_succ_eq_map, List.map_cons, List.map_map, ringSeg, ← ih (s + 1)]
    simp only [Nat.add_zero, List.cons.injEq, true_and]
    apply List.map_congr_left
    intro i _
    simp only [Function.comp, Nat.succ_eq_add_one]
    congr 1
    omega

theorem ringSeg_congr (f g : Nat → Nat) (s t n : Nat) (h : ∀ i, i < n → f (s + i) = g (t + i)) :
    ringSeg f s n = ringSeg g t n := by
  induction n generalizing s t with
  | zero => simp [ringSeg]
  | succ n ih =>
    simp only [ringSeg]
    have h0 := h 0 (by omega)
    simp only [Nat.add_zero] at h0
    rw [h0, ih (s + 1) (t + 1)]
    intro i hi
    have := h (i + 1) (by omega)
    rw [show s + 1 + i = s + (i + 1) by omega, show t + 1 + i = t + (i + 1) by omega]
    exact this

theorem ringSeg_take (f : Nat → Nat) (s n m : Nat) (h : n ≤ m) : (ringSeg f s m).take n = ringSeg f s n := by
  induction n generalizing s m with
  | zero => simp [ringSeg]
  | succ n ih =>
    cases m with
    | zero => omega
    | succ m => simp only [ringSeg, List.take_succ_cons, ih (s + 1) m (by omega)]

def ringFn (ids : List Nat) : Nat → Nat := fun j => ids.getD (j % ids.length) 0

theorem contents_eq_ringSeg (r : TxRing) : r.contents = ringSeg (ringFn r.ids) r.first r.count := by
  unfold contents
  exact ringSeg_eq_map (ringFn r.ids) r.first r.count

theorem cleanupGo_spec (ids : List Nat) (b : Nat) (hlen : 0 < ids.length) (fuel pos j count : Nat)
    (hpos : pos = j % ids.length) (hf : count ≤ fuel) :
    ∃ k, cleanupGo ids b fuel pos j count = (j + k, count - k) ∧ k ≤ count ∧
      ringSeg (ringFn ids) (j + k) (count - k) =
        (ringSeg (ringFn ids) j count).dropWhile (fun x => decide (x < b)) := by
  induction fuel generalizing pos j count with
  | zero =>
    have : count = 0 := by omega
    subst this
    exact ⟨0, by simp [cleanupGo, ringSeg]⟩
  | succ fuel ih =>
    cases count with
    | zero => exact ⟨0, by simp [cleanupGo, ringSeg]⟩
    | succ c =>
      have hfj : ringFn ids j = ids.getD pos 0 := by simp only [ringFn, ← hpos]
      have ih' := ih (if pos + 1 = ids.length then 0 else pos + 1) (j + 1) c
          (by rw [hpos]; exact succ_mod_wrap j ids.length hlen) (by omega)
      simp only [cleanupGo, ringSeg, hfj, Nat.add_one_ne_zero, if_false, Nat.add_sub_cancel]
      generalize ids.getD pos 0 = x at hfj ⊢
      by_cases hb : b ≤ x
      · refine ⟨0, by simp only [hb, if_true, Nat.add_zero, Nat.sub_zero], by omega, ?_⟩
        have : ¬ x < b := by omega
        simp [ringSeg, this, hfj]
      · obtain ⟨k, h1, h2, h3⟩ := ih'
        refine ⟨k + 1, ?_, by omega, ?_⟩
        · simp only [hb, if_false]
          rw [h1]
          simp only [Prod.mk.injEq]
          omega
        · have : x < b := by omega
          rw [show j + (k + 1) = j + 1 + k by omega, show c + 1 - (k + 1) = c - k by omega, h3]
          simp [this]

theorem ringFn_mod (ids : List Nat) (j : Nat) : ringFn ids (j % ids.length) = ringFn ids j := by
  simp [ringFn]

theorem ringSeg_ringFn_mod (ids : List Nat) (j n : Nat) :
    ringSeg (ringFn ids) (j % ids.length) n = ringSeg (ringFn ids) j n := by
  apply ringSeg_congr
  intro i _
  simp only [ringFn]
  rw [Nat.mod_add_mod]

theorem cleanup_spec (r : TxRing) (b : Nat) (h : WF r) :
    WF (r.cleanup b) ∧ (r.cleanup b).contents = r.contents.dropWhile (fun x => decide (x < b)) := by
  unfold cleanup
  by_cases hl : r.ids.length = 0
  · simp only [hl, if_true]
    refine ⟨h, ?_⟩
    have : r.count = 0 := by have := h.1; omega
    simp [contents, this]
  · simp only [hl, if_false]
    have hlen : 0 < r.ids.length := by omega
    obtain ⟨k, h1, h2, h3⟩ := cleanupGo_spec r.ids b hlen r.count r.first r.first r.count
      (by have := h.2; rw [Nat.mod_eq_of_lt]; omega) (Nat.le_refl _)
    rw [h1]
    constructor
    · constructor
      · show r.count - k ≤ r.ids.length
        have := h.1; omega
      · show (r.first + k) % r.ids.length < max 1 r.ids.length
        have := Nat.mod_lt (r.first + k) hlen
        omega
    · rw [contents_eq_ringSeg, contents_eq_ringSeg]
      show ringSeg (ringFn r.ids) ((r.first + k) % r.ids.length) (r.count - k) = _
      rw [ringSeg_ringFn_mod, h3]

theorem stopLoop_ringSeg (ids : List Nat) (vis : Nat → Bool) (num : Nat) (hlen : 0 < ids.length)
    (n pos j : Nat) (hpos : pos = j % ids.length) :
    stopLoop ids vis num n pos =
      (if ((ringSeg (ringFn ids) j n).takeWhile vis).length = n then num
       else num - (n - ((ringSeg (ringFn ids) j n).takeWhile vis).length)) := by
  induction n generalizing pos j with
  | zero => simp [stopLoop, ringSeg]
  | succ n ih =>
    have hf : ringFn ids j = ids.getD pos 0 := by simp only [ringFn, ← hpos]
    simp only [stopLoop, ringSeg, List.takeWhile_cons, hf]
    clear hf
    generalize ids.getD pos 0 = x
    by_cases hv : vis x = true
    · simp only [hv, if_true, List.length_cons]
      rw [ih _ (j + 1) (by rw [hpos]; exact succ_mod_wrap j ids.length hlen)]
      by_cases he : (List.takeWhile vis (ringSeg (ringFn ids) (j + 1) n)).length = n
      · simp [he]
      · simp only [he, if_false, Nat.add_right_cancel_iff]
        congr 1
        omega
    · simp [hv]

theorem contents_snoc (r r' : TxRing) (id : Nat) (hc : r'.count = r.count + 1)
    (h1 : ∀ i, i < r.count → r'.ids.getD ((r'.first + i) % r'.ids.length) 0
                              = r.ids.getD ((r.first + i) % r.ids.length) 0)
    (h2 : r'.ids.getD ((r'.first + r.count) % r'.ids.length) 0 = id) :
    r'.contents = r.contents ++ [id] := by
  unfold contents
  rw [hc, List.range_succ, List.map_append]
  congr 1
  · apply List.map_congr_left
    intro i hi
    exact h1 i (List.mem_range.mp hi)
  · simp only [List.map_cons, List.map_nil, h2]

theorem rot_getD (ids : List Nat) (first m i : Nat) (hf : first ≤ ids.length) (hi : i < ids.length) :
    (ids.drop first ++ ids.take first ++ List.replicate m 0).getD i 0
      = ids.getD ((first + i) % ids.length) 0 := by
  have hlt : i < (ids.drop first ++ ids.take first).length := by
    simp only [List.length_append, List.length_drop, List.length_take]; omega
  rw [mod_wrap (first + i) ids.length (by omega)]
  rw [List.getD_eq_getElem?_getD, List.getD_eq_getElem?_getD, List.getElem?_append_left hlt]
  by_cases h : first + i < ids.length
  · rw [if_pos h, List.getElem?_append_left (by simp only [List.length_drop]; omega), List.getElem?_drop]
  · rw [if_neg h, List.getElem?_append_right (by simp only [List.length_drop]; omega), List.getElem?_take,
      if_pos (by simp only [List.length_drop]; omega)]
    congr 2
    simp only [List.length_drop]
    omega

theorem add_spec (r : TxRing) (id : Nat) (h : WF r) :
    WF (r.add id) ∧ (r.add id).contents = r.contents ++ [id] := by
  obtain ⟨hc, hf⟩ := h
  by_cases hfull : r.count = r.ids.length
  · have hf' : r.first ≤ r.ids.length := by omega
    obtain ⟨m, hm⟩ : ∃ m, m = (if r.count * 2 = 0 then 4 else r.count * 2)
        - (r.ids.drop r.first ++ r.ids.take r.first).length := ⟨_, rfl⟩
    have hm2 : r.count + 1 ≤ r.ids.length + m := by
      rw [hm]; simp only [List.length_append, List.length_drop, List.length_take]
      split <;> omega
    have hadd : r.add id =
        { ids := (r.ids.drop r.first ++ r.ids.take r.first ++ List.replicate m 0).set
            ((0 + r.count) % (r.ids.drop r.first ++ r.ids.take r.first ++ List.replicate m 0).length) id,
          first := 0, count := r.count + 1 } := by
      simp only [add, if_pos hfull, hm]
    have hget : ∀ i, i < r.ids.length →
        (r.ids.drop r.first ++ r.ids.take r.first ++ List.replicate m 0).getD i 0
          = r.ids.getD ((r.first + i) % r.ids.length) 0 :=
      fun i hi => rot_getD r.ids r.first m i hf' hi
    have hblen : (r.ids.drop r.first ++ r.ids.take r.first ++ List.replicate m 0).length
        = r.ids.length + m := by
      simp only [List.length_append, List.length_drop, List.length_take, List.length_replicate]; omega
    generalize (r.ids.drop r.first ++ r.ids.take r.first ++ List.replicate m 0) = B at hadd hget hblen
    rw [hadd, hblen, Nat.zero_add, Nat.mod_eq_of_lt (by omega)]
    refine ⟨⟨?_, ?_⟩, ?_⟩
    · show r.count + 1 ≤ (B.set _ id).length
      rw [List.length_set]; omega
    · show 0 < max 1 (B.set _ id).length
      omega
    · apply contents_snoc
      · rfl
      · intro i hi
        show (B.set _ id).getD ((0 + i) % (B.set _ id).length) 0 = _
        rw [List.length_set, hblen, Nat.zero_add, Nat.mod_eq_of_lt (by omega), ← hget i (by omega),
          List.getD_eq_getElem?_getD, List.getD_eq_getElem?_getD, List.getElem?_set_ne (by omega)]
      · show (B.set _ id).getD ((0 + r.count) % (B.set _ id).length) 0 = _
        rw [List.length_set, hblen, Nat.zero_add, Nat.mod_eq_of_lt (by omega),
          List.getD_eq_getElem?_getD, List.getElem?_set_self (by omega)]
        rfl
  · have hlen : 0 < r.ids.length := by omega
    have hf' : r.first < r.ids.length := by omega
    have hadd : r.add id = { r with ids := r.ids.set ((r.first + r.count) % r.ids.length) id, count := r.count + 1 } := by
      simp only [add, hfull, if_false]
    rw [hadd]
    have hp : (r.first + r.count) % r.ids.length < r.ids.length := Nat.mod_lt _ hlen
    refine ⟨⟨?_, ?_⟩, ?_⟩
    · show r.count + 1 ≤ (r.ids.set _ id).length
      rw [List.length_set]; omega
    · show r.first < max 1 (r.ids.set _ id).length
      rw [List.length_set]; omega
    · apply contents_snoc
      · rfl
      · intro i hi
        show (r.ids.set _ id).getD ((r.first + i) % (r.ids.set _ id).length) 0 = _
        rw [List.length_set, List.getD_eq_getElem?_getD, List.getD_eq_getElem?_getD, List.getElem?_set_ne]
        rw [mod_wrap (r.first + i) _ (by omega), mod_wrap (r.first + r.count) _ (by omega)]
        split <;> split <;> omega
      · show (r.ids.set _ id).getD ((r.first + r.count) % (r.ids.set _ id).length) 0 = _
        rw [List.length_set, List.getD_eq_getElem?_getD, List.getElem?_set_self hp]
        rfl

theorem add_wf (r : TxRing) (id : Nat) (h : WF r) : WF (r.add id) := (add_spec r id h).1

theorem add_contents (r : TxRing) (id : Nat) (h : WF r) : (r.add id).contents = r.contents ++ [id] :=
  (add_spec r id h).2

theorem cleanup_wf (r : TxRing) (b : Nat) (h : WF r) : WF (r.cleanup b) := (cleanup_spec r b h).1

theorem cleanup_contents (r : TxRing) (b : Nat) (h : WF r) :
    (r.cleanup b).contents = r.contents.dropWhile (fun x => decide (x < b)) :=
  (cleanup_spec r b h).2

theorem contents_length (r : TxRing) : r.contents.length = r.count := by simp [contents]

end TxRing

/-- The loop of `memSeries.iterator` over the first `n` ring entries: it stops at the first id that is not
    visible; `k` = number of leading visible ids among the first `n`. -/
theorem stopLoop_spec (r : TxRing) (vis : Nat → Bool) (num n : Nat) (h : r.WF) (hn : n ≤ r.count) :
    stopLoop r.ids vis num n r.first =
      (if ((r.contents.take n).takeWhile vis).length = n then num
       else num - (n - ((r.contents.take n).takeWhile vis).length)) := by
  by_cases hl : r.ids.length = 0
  · have hc : r.count = 0 := by have := h.1; omega
    have hn0 : n = 0 := by omega
    subst hn0
    simp [stopLoop]
  · rw [TxRing.contents_eq_ringSeg, TxRing.ringSeg_take _ _ _ _ hn]
    exact TxRing.stopLoop_ringSeg r.ids vis num (by omega) n r.first r.first
      (by have := h.2; rw [Nat.mod_eq_of_lt]; omega)

end Prom.Iso
