import PromProofs.QuantileFractionExt
/-
  Helper lemmas for C32, part 9: `HistogramFraction(-Inf, HistogramQuantile(q))` = q — the two functions
  describe the same distribution — whenever they use the same bucket bounds (`adjLo/adjHi` of the quantile
  = `aLo/aHi` of the fraction) and the buckets have positive width.
-/
namespace Prom.Quantile
open FOps

theorem rankT_cons_lo (fb : XR → XR → XR → XR) (h : NHist XR) (v a : Rat) (b : RB) (bs : List RB)
    (c1 : v ≤ aLo h b) : rankT fb h v a (b :: bs) = a := by
  simp [rankT, rankW, c1]

theorem rankT_cons_in (fb : XR → XR → XR → XR) (h : NHist XR) (v a : Rat) (b : RB) (bs : List RB)
    (c1 : ¬ v ≤ aLo h b) (c2 : v < aHi h b) : rankT fb h v a (b :: bs) = a + b.c * inB fb h b v := by
  simp [rankT, rankW, c1, c2]

theorem rankT_cons_rec (fb : XR → XR → XR → XR) (h : NHist XR) (v a : Rat) (b : RB) (bs : List RB)
    (c1 : ¬ v ≤ aLo h b) (c2 : ¬ v < aHi h b) : rankT fb h v a (b :: bs) = rankT fb h v (a + b.c) bs := by
  simp only [rankT, rankW, c1, c2, if_false, total]
  congr 1; grind

theorem rankT_nil (fb : XR → XR → XR → XR) (h : NHist XR) (v a : Rat) : rankT fb h v a [] = a := by
  simp only [rankT, rankW, Option.getD_none, total]; grind

/-- the cumulative count at a point of bucket `b` (preceded by `pre`): at its lower edge, inside, at its upper edge -/
theorem rankT_at (fb : XR → XR → XR → XR) (h : NHist XR) (v : Rat) (b : RB) (rem : List RB) :
    ∀ (pre : List RB) (a : Rat), (∀ x ∈ pre ++ b :: rem, x.l ≤ x.u ∧ aLo h x < aHi h x) →
      (pre ++ b :: rem).Pairwise (fun x y => x.u ≤ y.l) → aLo h b ≤ v → v ≤ aHi h b →
      rankT fb h v a (pre ++ b :: rem) =
        if v = aLo h b then a + total pre
        else if v = aHi h b then a + total pre + b.c
        else a + total pre + b.c * inB fb h b v := by
  intro pre
  induction pre with
  | nil =>
    intro a ok PW h1 h2
    obtain ⟨hb, hw⟩ := ok b (by simp)
    simp only [List.nil_append, total]
    by_cases e1 : v = aLo h b
    · rw [if_pos e1, rankT_cons_lo fb h v a b rem (by grind)]; grind
    · rw [if_neg e1]
      by_cases e2 : v = aHi h b
      · rw [if_pos e2, rankT_cons_rec fb h v a b rem (by grind) (by grind)]
        cases rem with
        | nil => rw [rankT_nil]; grind
        | cons y ys =>
          have hy := (ok y (by simp)).1
          have hsep : b.u ≤ y.l := (List.pairwise_cons.mp PW).1 y (by simp)
          obtain ⟨_, _, b3⟩ := a_bounds h b hb
          obtain ⟨y1, _, _⟩ := a_bounds h y hy
          rw [rankT_cons_lo fb h v (a + b.c) y ys (by grind)]; grind
      · rw [if_neg e2, rankT_cons_in fb h v a b rem (by grind) (by grind)]; grind
  | cons x xs ih =>
    intro a ok PW h1 h2
    obtain ⟨hx, hwx⟩ := ok x (by simp)
    obtain ⟨hb, _⟩ := ok b (by simp)
    have hsep : x.u ≤ b.l := (List.pairwise_cons.mp PW).1 b (by simp)
    obtain ⟨_, _, x3⟩ := a_bounds h x hx
    obtain ⟨b1, _, _⟩ := a_bounds h b hb
    rw [List.cons_append, rankT_cons_rec fb h v a x _ (by grind) (by grind)]
    rw [ih (a + x.c) (fun y hy => ok y (by simp [hy])) (List.pairwise_cons.mp PW).2 h1 h2]
    simp only [total]
    split
    · grind
    · split <;> grind

theorem rat_mul_div_cancel {w f : Rat} (hw : w ≠ 0) : (w * f) / w = f := by
  rw [Rat.div_def, Rat.mul_comm w f, Rat.mul_assoc, Rat.mul_inv_cancel w hw, Rat.mul_one]

/-- `HistogramFraction(-Inf, HistogramQuantile(q)) = q` -/
theorem fraction_of_quantile_core (interp fb : XR → XR → XR → XR) (fixed : Bool) {h : NHist XR} {L : List RB} {N : Rat}
    (R : RHist h L N) (hs : fixed = true ∨ h.sum ≠ .nan) (PW : L.Pairwise (fun a b => a.u ≤ b.l))
    (FBm : ∀ l u v1 v2 : Rat, l < v1 → v1 ≤ v2 → v2 < u → ∃ f1 f2, fb (.fin l) (.fin u) (.fin v1) = .fin f1 ∧
        fb (.fin l) (.fin u) (.fin v2) = .fin f2 ∧ 0 ≤ f1 ∧ f1 ≤ f2 ∧ f2 ≤ 1)
    (II : ∀ l u f : Rat, l < u → 0 ≤ f → f ≤ 1 → ∃ v, interp (.fin l) (.fin u) (.fin f) = .fin v ∧
        (f = 0 → v = l) ∧ (f = 1 → v = u) ∧ (0 < f → f < 1 → l < v ∧ v < u ∧ fb (.fin l) (.fin u) (.fin v) = .fin f))
    (W : ∀ b ∈ L, aLo h b < aHi h b) (AG : ∀ b ∈ L, adjLo h b = aLo h b ∧ adjHi h b = aHi h b)
    (q : Rat) (h0 : 0 ≤ q) (h1 : q ≤ 1) :
    ∃ v, evalR interp (histogramQuantileWith fixed (.fin q) h) = .fin v ∧
      histogramFraction fb .ninf (.fin v) h = .fin q := by
  obtain ⟨pre, b, rem, P, e⟩ := hq_eval fixed R hs q h0 h1
  have hbL : b ∈ L := by rw [P.split]; simp
  obtain ⟨hb, hc⟩ := R.ok b hbL
  obtain ⟨f0, f1⟩ := pick_frac P
  obtain ⟨g1, g2⟩ := AG b hbL
  have hw := W b hbL
  have hN0 : N ≠ 0 := by have := R.pos; grind
  have hcne : b.c ≠ 0 := by have := P.cpos; grind
  -- the quantile value and its position in the bucket
  have key : ∃ v, evalR interp (hqOut h b ((q * N - total pre) / b.c)) = .fin v ∧ aLo h b ≤ v ∧ v ≤ aHi h b ∧
      ((q * N - total pre) / b.c = 0 → v = aLo h b) ∧ ((q * N - total pre) / b.c = 1 → v = aHi h b) ∧
      (0 < (q * N - total pre) / b.c → (q * N - total pre) / b.c < 1 →
        aLo h b < v ∧ v < aHi h b ∧ inB fb h b v = (q * N - total pre) / b.c) := by
    generalize (q * N - total pre) / b.c = f at f0 f1
    unfold hqOut
    rw [g1, g2]
    by_cases lin : (h.custom || (decide (aLo h b ≤ 0) && decide (0 ≤ aHi h b))) = true
    · rw [if_pos lin]
      have hwne : aHi h b - aLo h b ≠ 0 := by grind
      have ib := interp_bounds (Rat.le_of_lt hw) f0 f1
      have lin' : (h.custom || (decide (b.l ≤ 0) && decide (0 ≤ b.u))) = true := by
        obtain ⟨a1, _, a3⟩ := a_bounds h b hb
        cases hcu : h.custom
        · simp only [hcu, Bool.false_or, Bool.and_eq_true, decide_eq_true_eq] at lin ⊢
          constructor <;> grind
        · simp
      refine ⟨_, rfl, ib.1, ib.2, ?_, ?_, ?_⟩
      · intro hf; rw [hf]; grind
      · intro hf; rw [hf]; grind
      · intro p1 p2
        have m1 : 0 < (aHi h b - aLo h b) * f := Rat.mul_pos (by grind) p1
        have m2 : (aHi h b - aLo h b) * f < (aHi h b - aLo h b) * 1 :=
          Rat.mul_lt_mul_of_pos_left p2 (by grind)
        refine ⟨by grind, by grind, ?_⟩
        unfold inB
        rw [if_pos lin']
        have : aLo h b + (aHi h b - aLo h b) * f - aLo h b = (aHi h b - aLo h b) * f := by grind
        rw [this, rat_mul_div_cancel hwne]
    · rw [if_neg lin]
      have lin' : ¬ (h.custom || (decide (b.l ≤ 0) && decide (0 ≤ b.u))) = true := by
        obtain ⟨a1, _, a3⟩ := a_bounds h b hb
        intro hh
        apply lin
        cases hcu : h.custom
        · simp only [hcu, Bool.false_or, Bool.and_eq_true, decide_eq_true_eq] at hh ⊢
          unfold aLo aHi
          constructor
          · split <;> grind
          · split <;> grind
        · simp
      have hz : (decide (b.l ≤ 0) && decide (0 ≤ b.u)) = false := by
        cases hh : (decide (b.l ≤ 0) && decide (0 ≤ b.u))
        · rfl
        · simp [hh] at lin'
      obtain ⟨e1, e2⟩ := a_nonzero h b hz
      obtain ⟨v, hv, p0, p1, pin⟩ := II (aLo h b) (aHi h b) f hw f0 f1
      have hvb : aLo h b ≤ v ∧ v ≤ aHi h b := by
        by_cases c0 : f = 0
        · have := p0 c0; grind
        · by_cases c1 : f = 1
          · have := p1 c1; grind
          · have := pin (by grind) (by grind); grind
      refine ⟨v, hv, hvb.1, hvb.2, p0, p1, ?_⟩
      intro q1 q2
      obtain ⟨r1, r2, r3⟩ := pin q1 q2
      refine ⟨r1, r2, ?_⟩
      unfold inB
      rw [if_neg lin', ← e1, ← e2, r3]
      rfl
  obtain ⟨v, ev, k1, k2, k3, k4, k5⟩ := key
  refine ⟨v, by rw [e]; exact ev, ?_⟩
  -- the rank of that value is q·N
  have okW : ∀ x ∈ pre ++ b :: rem, x.l ≤ x.u ∧ aLo h x < aHi h x := by
    intro x hx
    rw [← P.split] at hx
    exact ⟨(R.ok x hx).1, W x hx⟩
  have PW' := PW
  rw [P.split] at PW'
  have hr := rankT_at fb h v b rem pre 0 okW PW' k1 k2
  rw [← P.split] at hr
  have hrank : rankT fb h v 0 L = q * N := by
    rw [hr]
    have fdef : (q * N - total pre) / b.c * b.c = q * N - total pre := by
      rw [Rat.div_def, Rat.mul_assoc, Rat.inv_mul_cancel b.c hcne, Rat.mul_one]
    by_cases c0 : (q * N - total pre) / b.c = 0
    · have := k3 c0
      rw [if_pos this]
      rw [c0] at fdef; grind
    · by_cases c1 : (q * N - total pre) / b.c = 1
      · have hv1 := k4 c1
        have : ¬ v = aLo h b := by grind
        rw [if_neg this, if_pos hv1]
        rw [c1] at fdef; grind
      · obtain ⟨s1, s2, s3⟩ := k5 (by grind) (by grind)
        have n1 : ¬ v = aLo h b := by grind
        have n2 : ¬ v = aHi h b := by grind
        rw [if_neg n1, if_neg n2, s3]
        grind
  have hne : L ≠ [] := by rw [P.split]; simp
  have hninf : rankX fb h .ninf L = 0 := by
    cases L with
    | nil => exact absurd rfl hne
    | cons y ys => rfl
  rw [hf_valX fb R FBm .ninf (.fin v) (by simp) (by simp) (by simp [XR.le, XR.lt])]
  rw [rankX_fin, hrank, hninf]
  congr 1
  have : q * N - 0 = N * q := by grind
  rw [this, rat_mul_div_cancel hN0]

/-- a sufficient condition for the two functions to use the same bounds: buckets have positive width, and a bucket
    whose closed range contains 0 belongs to a non-custom histogram and contains 0 in its interior -/
theorem agree_of (h : NHist XR) (b : RB)
    (H : b.l < b.u ∧ (b.l ≤ 0 → 0 ≤ b.u → h.custom = false ∧ b.l < 0 ∧ 0 < b.u)) :
    aLo h b < aHi h b ∧ adjLo h b = aLo h b ∧ adjHi h b = aHi h b := by
  obtain ⟨hw, hz⟩ := H
  unfold adjLo adjHi aLo aHi
  generalize (decide (h.nNeg = 0) && decide (h.nPos > 0)) = A
  generalize (decide (h.nPos = 0) && decide (h.nNeg > 0)) = B
  by_cases c1 : b.l ≤ 0
  · by_cases c2 : 0 ≤ b.u
    · obtain ⟨hcu, z1, z2⟩ := hz c1 c2
      cases A <;> cases B <;> simp [hcu, c1, c2, z1, z2] <;> grind
    · have n1 : ¬ 0 < b.u := by grind
      simp [c1, c2, n1]; exact hw
  · have n1 : ¬ b.l < 0 := by grind
    simp [c1, n1]; exact hw

end Prom.Quantile
