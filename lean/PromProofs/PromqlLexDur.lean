import PromProofs.PromqlDuration
import PromModel.Promql.Lexer
/-
  C26, durations and the lexer: the text printed by `model.Duration.String` (`fmtDurationMs`),
  followed by a non-alphanumeric byte (or the end of input), is lexed by `lexNumberOrDuration` as a
  single DURATION token carrying exactly that text (`lexNumberOrDuration_fmtDuration`).
-/
namespace Prom.Promql

/-! ### byte classes -/

theorem LexDur_decDigits_eq : decDigits = [48, 49, 50, 51, 52, 53, 54, 55, 56, 57] := by
  have h : "0123456789".toByteArray = ⟨#[48, 49, 50, 51, 52, 53, 54, 55, 56, 57]⟩ := by rfl
  simp [decDigits, bs, String.toUTF8, h, ByteArray.toList, ByteArray.toList.loop, ByteArray.size,
    ByteArray.get!]

theorem bs_smhdw : bs "smhdw" = [115, 109, 104, 100, 119] := by
  have h : "smhdw".toByteArray = ⟨#[115, 109, 104, 100, 119]⟩ := by rfl
  simp [bs, String.toUTF8, h, ByteArray.toList, ByteArray.toList.loop, ByteArray.size,
    ByteArray.get!]

theorem bs_smhdwy : bs "smhdwy" = [115, 109, 104, 100, 119, 121] := by
  have h : "smhdwy".toByteArray = ⟨#[115, 109, 104, 100, 119, 121]⟩ := by rfl
  simp [bs, String.toUTF8, h, ByteArray.toList, ByteArray.toList.loop, ByteArray.size,
    ByteArray.get!]

theorem LexDur_inSet_decDigits (c : UInt8) : inSet decDigits c = isDigitB c := by
  rw [LexDur_decDigits_eq, Bool.eq_iff_iff]
  simp [inSet, isDigitB, UInt8.le_iff_toNat_le, ← UInt8.toNat_inj]
  omega

theorem LexDur_inSet_decDigits_fun : inSet decDigits = isDigitB := funext LexDur_inSet_decDigits

/-- `c` is not one of the characters the `scanNumber` loop continues on. -/
def NumStop (c : UInt8) : Prop :=
  (isDigitB c || c == 46 || c == 95 || c == 101 || c == 69) = false

theorem NumStop.not_digit {c : UInt8} (h : NumStop c) : isDigitB c = false := by
  unfold NumStop at h
  simp only [Bool.or_eq_false_iff] at h
  exact h.1.1.1.1

theorem NumStop.ne_dot {c : UInt8} (h : NumStop c) : c ≠ 46 := by
  unfold NumStop at h
  simp only [Bool.or_eq_false_iff, beq_eq_false_iff_ne] at h
  exact h.1.1.1.2

theorem digit_numchar (c : UInt8) (h : isDigitB c = true) :
    (c == 46) = false ∧ (c == 95) = false ∧ (c == 101) = false ∧ (c == 69) = false := by
  simp [isDigitB, UInt8.le_iff_toNat_le, ← UInt8.toNat_inj] at h ⊢
  omega

theorem digit_ne_dot (c : UInt8) (h : isDigitB c = true) : c ≠ 46 := by
  have := (digit_numchar c h).1
  simpa using this

theorem digit_ne_x (c : UInt8) (h : isDigitB c = true) : c ≠ 120 ∧ c ≠ 88 := by
  simp [isDigitB, UInt8.le_iff_toNat_le, ← UInt8.toNat_inj] at h ⊢
  omega

/-- The text is empty or starts with a non-alphanumeric byte (the hypothesis on what follows). -/
def NonAlnumStart (rest : Bytes) : Prop := ∀ c, rest.head? = some c → isAlnumB c = false

/-- The text does not start with the byte `s`. -/
def NotS (t : Bytes) : Prop := ∀ t', t ≠ 115 :: t'

theorem NonAlnumStart.notS {rest : Bytes} (h : NonAlnumStart rest) : NotS rest := by
  intro t' he
  have := h 115 (by rw [he]; rfl)
  exact absurd this (by decide)

theorem notS_of_digitStart (c : UInt8) (t more : Bytes) (h : DigitStart (c :: t)) :
    NotS ((c :: t) ++ more) := by
  intro t' he
  simp only [List.cons_append, List.cons.injEq] at he
  have := h c t rfl
  rw [he.1] at this
  exact absurd this (by decide)

theorem notS_append (text rest : Bytes) (h : DigitStart text) (hrest : NonAlnumStart rest) :
    NotS (text ++ rest) := by
  cases text with
  | nil => simpa using hrest.notS
  | cons c t => exact notS_of_digitStart c t rest h

/-! ### `scanNumber` on a digit run followed by a unit letter -/

theorem LexDur_scanNumLoop_digits (fuel : Nat) (acc ds : Bytes) (c : UInt8) (more : Bytes)
    (hds : ds.all isDigitB = true) (hc : NumStop c) (hf : ds.length < fuel) :
    scanNumLoop false fuel false false acc (ds ++ c :: more) = (true, ds.reverse ++ acc, c :: more) := by
  have hstop : ∀ f a, scanNumLoop false (f + 1) false false a (c :: more) = (true, a, c :: more) := by
    intro f a
    unfold NumStop at hc
    simp only [scanNumLoop, Bool.false_eq_true, if_false, LexDur_inSet_decDigits, hc, Bool.not_false,
      if_true]
  cases ds with
  | nil =>
    obtain ⟨f, rfl⟩ : ∃ f, fuel = f + 1 := ⟨fuel - 1, by simp at hf; omega⟩
    simpa using hstop f acc
  | cons d ds =>
    obtain ⟨f, rfl⟩ : ∃ f, fuel = (f + 1) + 1 := ⟨fuel - 2, by simp at hf; omega⟩
    have hc' : ∀ x t', c :: more = x :: t' → isDigitB x = false := by
      intro x t' h
      simp only [List.cons.injEq] at h
      rw [← h.1]; exact hc.not_digit
    have htw := takeWhile_app (d :: ds) (c :: more) hds hc'
    simp only [List.all_cons, Bool.and_eq_true] at hds
    obtain ⟨h1, h2, h3, h4⟩ := digit_numchar d hds.1
    rw [List.cons_append] at htw ⊢
    rw [scanNumLoop.eq_def]
    simp only [Bool.false_eq_true, if_false, LexDur_inSet_decDigits, hds.1, h1, h2, h3, h4, Bool.or_false,
      Bool.not_true, Bool.false_and, LexDur_inSet_decDigits_fun]
    rw [htw.1, htw.2]
    exact hstop f _

/-- the optional `0x` prefix of `scanNumber`. -/
def snPrefix (s : Bytes) : Bool × Bytes × Bytes :=
  match s with
  | 48 :: x :: tl =>
    if x == 120 || x == 88 then
      (match tl with
       | 95 :: tl' => (true, [95, x, 48], tl')
       | _ => (true, [x, 48], tl))
    else (false, [48], x :: tl)
  | 48 :: [] => (false, [48], [])
  | _ => (false, [], s)

def snDot (acc0 s0 : Bytes) : Bytes × Bytes :=
  match s0 with
  | 46 :: tl => ([46] ++ acc0, tl)
  | _ => (acc0, s0)

def snFirst (digits acc1 s1 : Bytes) : Bytes × Bytes :=
  match s1 with
  | c :: tl => if inSet digits c then (c :: acc1, tl) else (acc1, s1)
  | [] => (acc1, s1)

def snFinal (r : Bool × Bytes × Bytes) : Bool × Bytes × Bytes :=
  let (ok, acc3, s3) := r
  if !ok then (false, acc3, s3)
  else if acc3.isEmpty then (false, acc3, s3)
  else match s3 with
    | c :: _ => if isAlnumB c then (false, acc3, s3) else (true, acc3, s3)
    | [] => (true, acc3, s3)

def snRest (hex : Bool) (acc0 s0 : Bytes) : Bool × Bytes × Bytes :=
  match snDot acc0 s0 with
  | (acc1, s1) =>
    match snFirst (if hex then hexDigits else decDigits) acc1 s1 with
    | (acc2, s2) => snFinal (scanNumLoop hex (s2.length + 1) false false acc2 s2)

/-- `scanNumber` cut into its stages. -/
theorem LexDur_scanNumber_eq (s : Bytes) : scanNumber s =
    (match snPrefix s with
     | (hex, acc0, s0) => snRest hex acc0 s0) := rfl

theorem snPrefix_ne48 (d : UInt8) (t : Bytes) (hd0 : d ≠ 48) :
    snPrefix (d :: t) = (false, [], d :: t) := by
  unfold snPrefix
  split
  · rename_i h; simp only [List.cons.injEq] at h; exact absurd h.1 hd0
  · rename_i h; simp only [List.cons.injEq] at h; exact absurd h.1 hd0
  · rfl

theorem snPrefix_48 (x : UInt8) (t : Bytes) (h1 : x ≠ 120) (h2 : x ≠ 88) :
    snPrefix (48 :: x :: t) = (false, [48], x :: t) := by
  simp [snPrefix, h1, h2]

theorem snDot_ne (acc0 : Bytes) (d : UInt8) (t : Bytes) (hd : d ≠ 46) :
    snDot acc0 (d :: t) = (acc0, d :: t) := by
  unfold snDot
  split
  · rename_i h; simp only [List.cons.injEq] at h; exact absurd h.1 hd
  · rfl

theorem snFinal_alnum (acc : Bytes) (c : UInt8) (more : Bytes) (hacc : acc ≠ [])
    (hal : isAlnumB c = true) : snFinal (true, acc, c :: more) = (false, acc, c :: more) := by
  have : acc.isEmpty = false := by cases acc <;> simp_all
  simp [snFinal, this, hal]

/-- After the prefix: a (possibly empty) digit run, then a letter that is not a number character. -/
theorem snRest_digits (acc0 ds : Bytes) (c : UInt8) (more : Bytes)
    (hds : ds.all isDigitB = true) (hc : NumStop c) (hal : isAlnumB c = true)
    (hne : ds.reverse ++ acc0 ≠ []) :
    snRest false acc0 (ds ++ c :: more) = (false, ds.reverse ++ acc0, c :: more) := by
  unfold snRest
  cases ds with
  | nil =>
    rw [List.nil_append, snDot_ne _ _ _ hc.ne_dot]
    simp only [Bool.false_eq_true, if_false]
    have h1 : snFirst decDigits acc0 (c :: more) = (acc0, c :: more) := by
      simp [snFirst, LexDur_inSet_decDigits, hc.not_digit]
    rw [h1]
    simp only []
    have := LexDur_scanNumLoop_digits ((c :: more).length + 1) acc0 [] c more (by simp) hc (by simp)
    rw [List.nil_append] at this
    rw [this]
    exact snFinal_alnum _ c more hne hal
  | cons d ds =>
    have hd : isDigitB d = true := by
      simp only [List.all_cons, Bool.and_eq_true] at hds; exact hds.1
    have hds' : ds.all isDigitB = true := by
      simp only [List.all_cons, Bool.and_eq_true] at hds; exact hds.2
    rw [List.cons_append, snDot_ne _ _ _ (digit_ne_dot d hd)]
    simp only [Bool.false_eq_true, if_false]
    have h1 : snFirst decDigits acc0 (d :: (ds ++ c :: more)) = (d :: acc0, ds ++ c :: more) := by
      simp [snFirst, LexDur_inSet_decDigits, hd]
    rw [h1]
    simp only []
    rw [LexDur_scanNumLoop_digits _ (d :: acc0) ds c more hds' hc
      (by simp only [List.length_append, List.length_cons]; omega)]
    have he : ds.reverse ++ d :: acc0 = (d :: ds).reverse ++ acc0 := by simp
    rw [he]
    exact snFinal_alnum _ c more hne hal

theorem scanNumber_digits (d : UInt8) (ds : Bytes) (c : UInt8) (more : Bytes)
    (hd0 : d ≠ 48) (hds : (d :: ds).all isDigitB = true) (hc : NumStop c)
    (hal : isAlnumB c = true) :
    scanNumber ((d :: ds) ++ c :: more) = (false, (d :: ds).reverse, c :: more) := by
  rw [LexDur_scanNumber_eq, List.cons_append, snPrefix_ne48 _ _ hd0]
  simp only []
  have := snRest_digits [] (d :: ds) c more hds hc hal (by simp)
  rw [List.cons_append, List.append_nil] at this
  exact this

theorem scanNumber_zero (c : UInt8) (more : Bytes) (hc : NumStop c) (hal : isAlnumB c = true)
    (h1 : c ≠ 120) (h2 : c ≠ 88) :
    scanNumber (48 :: c :: more) = (false, [48], c :: more) := by
  rw [LexDur_scanNumber_eq, snPrefix_48 _ _ h1 h2]
  simp only []
  have := snRest_digits [48] [] c more (by simp) hc hal (by simp)
  simpa using this

/-! ### units -/

/-- unit letters accepted by the repetition `durTail`. -/
def TailByte (c : UInt8) : Prop := c = 119 ∨ c = 100 ∨ c = 104 ∨ c = 109 ∨ c = 115

/-- units that may follow the first component. -/
def TailUnit (u : Bytes) : Prop := (∃ c, TailByte c ∧ u = [c]) ∨ u = [109, 115]

/-- units that may be the first component. -/
def FirstUnit (u : Bytes) : Prop := u = [121] ∨ TailUnit u

theorem TailByte.mem {c : UInt8} (h : TailByte c) : inSet (bs "smhdw") c = true := by
  rw [bs_smhdw]
  rcases h with rfl | rfl | rfl | rfl | rfl <;> decide

theorem TailByte.memY {c : UInt8} (h : TailByte c) : inSet (bs "smhdwy") c = true := by
  rw [bs_smhdwy]
  rcases h with rfl | rfl | rfl | rfl | rfl <;> decide

theorem TailByte.facts {c : UInt8} (h : TailByte c) :
    NumStop c ∧ isAlnumB c = true ∧ c ≠ 120 ∧ c ≠ 88 := by
  unfold NumStop
  rcases h with rfl | rfl | rfl | rfl | rfl <;> decide

theorem FirstUnit.head {u : Bytes} (h : FirstUnit u) :
    ∃ c t, u = c :: t ∧ NumStop c ∧ isAlnumB c = true := by
  rcases h with rfl | ⟨c, hc, rfl⟩ | rfl
  · exact ⟨121, [], rfl, by unfold NumStop; decide, by decide⟩
  · exact ⟨c, [], rfl, hc.facts.1, hc.facts.2.1⟩
  · exact ⟨109, [115], rfl, by unfold NumStop; decide, by decide⟩

theorem TailUnit.length_pos {u : Bytes} (h : TailUnit u) : 0 < u.length := by
  rcases h with ⟨c, _, rfl⟩ | rfl <;> simp

/-! ### `durTail` -/

theorem durTail_stop (fuel : Nat) (acc rest : Bytes) (hrest : NonAlnumStart rest) :
    durTail (fuel + 1) acc rest = some (acc, rest) := by
  cases rest with
  | nil => simp [durTail]
  | cons c t =>
    have hal : isAlnumB c = false := hrest c rfl
    have hd : isDigitB c = false := by
      unfold isAlnumB at hal
      simp only [Bool.or_eq_false_iff] at hal
      exact hal.2
    simp [durTail, hal, hd]

theorem durTail_digits (fuel : Nat) (acc ds : Bytes) (c : UInt8) (tl : Bytes) (hne : ds ≠ [])
    (hds : ds.all isDigitB = true) (hc : isDigitB c = false) (hin : inSet (bs "smhdw") c = true) :
    durTail (fuel + 1) acc (ds ++ c :: tl) =
      (match tl with
       | 115 :: tl' => durTail fuel ([115, c] ++ ds.reverse ++ acc) tl'
       | _ => durTail fuel (c :: (ds.reverse ++ acc)) tl) := by
  have hc' : ∀ x t', c :: tl = x :: t' → isDigitB x = false := by
    intro x t' h
    simp only [List.cons.injEq] at h
    rw [← h.1]; exact hc
  have htw := takeWhile_app ds (c :: tl) hds hc'
  cases ds with
  | nil => exact absurd rfl hne
  | cons d ds =>
    simp only [List.all_cons, Bool.and_eq_true] at hds
    rw [List.cons_append] at htw ⊢
    rw [durTail.eq_def]
    simp only [hds.1, if_true, htw.1, htw.2, hin]
    rfl

theorem durTail_step1 (fuel : Nat) (acc ds : Bytes) (c : UInt8) (tl : Bytes) (hne : ds ≠ [])
    (hds : ds.all isDigitB = true) (hc : TailByte c) (htl : NotS tl) :
    durTail (fuel + 1) acc (ds ++ c :: tl) = durTail fuel (c :: (ds.reverse ++ acc)) tl := by
  have hd : isDigitB c = false := hc.facts.1.not_digit
  rw [durTail_digits fuel acc ds c tl hne hds hd hc.mem]
  split
  · exact absurd rfl (htl _)
  · rfl

theorem durTail_step2 (fuel : Nat) (acc ds : Bytes) (tl : Bytes) (hne : ds ≠ [])
    (hds : ds.all isDigitB = true) :
    durTail (fuel + 1) acc (ds ++ 109 :: 115 :: tl) =
      durTail fuel ([115, 109] ++ ds.reverse ++ acc) tl := by
  rw [durTail_digits fuel acc ds 109 (115 :: tl) hne hds (by decide)
    (TailByte.mem (Or.inr (Or.inr (Or.inr (Or.inl rfl)))))]
  rfl

theorem durTail_step (fuel : Nat) (acc ds u more : Bytes) (hne : ds ≠ [])
    (hds : ds.all isDigitB = true) (hu : TailUnit u) (hmore : NotS more) :
    durTail (fuel + 1) acc (ds ++ (u ++ more)) = durTail fuel (u.reverse ++ (ds.reverse ++ acc)) more := by
  rcases hu with ⟨c, hc, rfl⟩ | rfl
  · exact durTail_step1 fuel acc ds c more hne hds hc hmore
  · have := durTail_step2 fuel acc ds more hne hds
    simpa using this

/-! ### `acceptRemainingDuration` -/

theorem acceptRem_step1 (acc : Bytes) (c : UInt8) (tl : Bytes) (hin : inSet (bs "smhdwy") c = true)
    (htl : NotS tl) :
    acceptRemainingDuration acc (c :: tl) = durTail (tl.length + 1) (c :: acc) tl := by
  unfold acceptRemainingDuration
  simp only [hin, if_true]
  split
  · exact absurd rfl (htl _)
  · rfl

theorem acceptRem_step2 (acc : Bytes) (tl : Bytes) :
    acceptRemainingDuration acc (109 :: 115 :: tl) = durTail (tl.length + 1) ([115, 109] ++ acc) tl := by
  have hin : inSet (bs "smhdwy") 109 = true :=
    TailByte.memY (Or.inr (Or.inr (Or.inr (Or.inl rfl))))
  unfold acceptRemainingDuration
  simp only [hin, if_true]

theorem acceptRem_step (acc u more : Bytes) (hu : FirstUnit u) (hmore : NotS more) :
    acceptRemainingDuration acc (u ++ more) = durTail (more.length + 1) (u.reverse ++ acc) more := by
  rcases hu with rfl | ⟨c, hc, rfl⟩ | rfl
  · exact acceptRem_step1 acc 121 more (by rw [bs_smhdwy]; decide) hmore
  · exact acceptRem_step1 acc c more hc.memY hmore
  · have := acceptRem_step2 acc more
    simpa using this

/-! ### the first component -/

theorem ofNat_digit_ne48 (d : Nat) (h0 : 0 < d) (h : d < 10) : UInt8.ofNat (48 + d) ≠ 48 := by
  have : ∀ d : Fin 10, 0 < d.val → UInt8.ofNat (48 + d.val) ≠ 48 := by decide
  exact this ⟨d, h⟩ h0

theorem natDigitsAux_head (fuel n : Nat) (acc : Bytes) (hn : 0 < n) (hf : n < fuel) :
    ∃ d t, natDigitsAux fuel n acc = d :: t ∧ d ≠ 48 := by
  induction fuel generalizing n acc with
  | zero => omega
  | succ fuel ih =>
    unfold natDigitsAux
    split
    · rename_i h10
      exact ⟨_, _, rfl, ofNat_digit_ne48 n hn h10⟩
    · exact ih (n / 10) _ (by omega) (by omega)

theorem natDigits_head (v : Nat) (hv : 0 < v) : ∃ d t, natDigits v = d :: t ∧ d ≠ 48 :=
  natDigitsAux_head (v + 1) v [] hv (by omega)

theorem lexNum_first (v : Nat) (hv : 0 < v) (u more : Bytes) (hu : FirstUnit u) (hmore : NotS more) :
    lexNumberOrDuration (natDigits v ++ (u ++ more)) =
      (match durTail (more.length + 1) (u.reverse ++ (natDigits v).reverse) more with
       | some (acc', rest') => some (.duration acc'.reverse, rest')
       | none => none) := by
  obtain ⟨d, ds, hnd, hd0⟩ := natDigits_head v hv
  obtain ⟨c, t, rfl, hc, hal⟩ := hu.head
  have hall := natDigits_all v
  rw [hnd] at hall ⊢
  have hsc := scanNumber_digits d ds c (t ++ more) hd0 hall hc hal
  have har := acceptRem_step (d :: ds).reverse (c :: t) more hu hmore
  rw [List.cons_append] at har
  unfold lexNumberOrDuration
  rw [show (c :: t) ++ more = c :: (t ++ more) from rfl, hsc]
  simp only [Bool.false_eq_true, if_false]
  rw [har]
  rfl

/-! ### the printed steps -/

theorem notS_runSteps (L : List Step) (r : Nat) (rest : Bytes) (hrest : NonAlnumStart rest) :
    NotS ((runSteps L (r, [])).2 ++ rest) :=
  notS_append _ rest (digitStart_runSteps L r) hrest

theorem durTail_runSteps (L : List Step) (hL : ∀ x ∈ L, TailUnit x.1) (rest : Bytes)
    (hrest : NonAlnumStart rest) :
    ∀ (r fuel : Nat) (acc : Bytes), (runSteps L (r, [])).2.length < fuel →
      durTail fuel acc ((runSteps L (r, [])).2 ++ rest)
        = some ((runSteps L (r, [])).2.reverse ++ acc, rest) := by
  induction L with
  | nil =>
    intro r fuel acc hf
    obtain ⟨f, rfl⟩ : ∃ f, fuel = f + 1 := ⟨fuel - 1, by omega⟩
    simpa [runSteps] using durTail_stop f acc rest hrest
  | cons x L ih =>
    intro r fuel acc hf
    obtain ⟨u, m, e⟩ := x
    have hu : TailUnit u := hL (u, m, e) (List.mem_cons_self ..)
    have hL' : ∀ x ∈ L, TailUnit x.1 := fun x hx => hL x (List.mem_cons_of_mem _ hx)
    rcases runSteps_cons_cases u m e L r with h | ⟨v, hv, hle, h⟩
    · rw [h] at hf ⊢
      exact ih hL' r fuel acc hf
    · rw [h] at hf ⊢
      simp only [List.length_append] at hf
      have hl1 := List.length_pos_iff.mpr (natDigits_ne_nil v)
      have hl2 := hu.length_pos
      obtain ⟨f, rfl⟩ : ∃ f, fuel = f + 1 := ⟨fuel - 1, by omega⟩
      simp only [List.append_assoc]
      rw [durTail_step f acc (natDigits v) u _ (natDigits_ne_nil v) (natDigits_all v) hu
        (notS_runSteps L _ rest hrest)]
      rw [ih hL' (r - v * m) f _ (by omega)]
      simp [List.reverse_append, List.append_assoc]

theorem lex_runSteps (L : List Step) (rest : Bytes) (hrest : NonAlnumStart rest) :
    ∀ (r : Nat), (∀ x ∈ L, FirstUnit x.1) → (∀ x ∈ L.tail, TailUnit x.1) →
      (runSteps L (r, [])).2 ≠ [] →
      lexNumberOrDuration ((runSteps L (r, [])).2 ++ rest)
        = some (.duration (runSteps L (r, [])).2, rest) := by
  induction L with
  | nil => intro r _ _ hne; exact absurd rfl hne
  | cons x L ih =>
    intro r hF hT hne
    obtain ⟨u, m, e⟩ := x
    have hu : FirstUnit u := hF (u, m, e) (List.mem_cons_self ..)
    have hT' : ∀ x ∈ L, TailUnit x.1 := hT
    rcases runSteps_cons_cases u m e L r with h | ⟨v, hv, hle, h⟩
    · rw [h] at hne ⊢
      exact ih r (fun x hx => Or.inr (hT' x hx)) (fun x hx => hT' x (List.mem_of_mem_tail hx)) hne
    · rw [h]
      simp only [List.append_assoc]
      rw [lexNum_first v hv u _ hu (notS_runSteps L _ rest hrest)]
      rw [durTail_runSteps L hT' rest hrest (r - v * m) _ _ (by simp only [List.length_append]; omega)]
      simp [List.reverse_append, List.append_assoc]

theorem stepsL_first : ∀ x ∈ stepsL, FirstUnit x.1 := by
  rw [stepsL_eq]
  intro x hx
  simp only [List.mem_cons, List.not_mem_nil, or_false] at hx
  rcases hx with rfl | rfl | rfl | rfl | rfl | rfl | rfl
  · exact Or.inl rfl
  · exact Or.inr (Or.inl ⟨119, Or.inl rfl, rfl⟩)
  · exact Or.inr (Or.inl ⟨100, Or.inr (Or.inl rfl), rfl⟩)
  · exact Or.inr (Or.inl ⟨104, Or.inr (Or.inr (Or.inl rfl)), rfl⟩)
  · exact Or.inr (Or.inl ⟨109, Or.inr (Or.inr (Or.inr (Or.inl rfl))), rfl⟩)
  · exact Or.inr (Or.inl ⟨115, Or.inr (Or.inr (Or.inr (Or.inr rfl))), rfl⟩)
  · exact Or.inr (Or.inr rfl)

theorem stepsL_tail : ∀ x ∈ stepsL.tail, TailUnit x.1 := by
  rw [stepsL_eq]
  intro x hx
  simp only [List.tail_cons, List.mem_cons, List.not_mem_nil, or_false] at hx
  rcases hx with rfl | rfl | rfl | rfl | rfl | rfl
  · exact Or.inl ⟨119, Or.inl rfl, rfl⟩
  · exact Or.inl ⟨100, Or.inr (Or.inl rfl), rfl⟩
  · exact Or.inl ⟨104, Or.inr (Or.inr (Or.inl rfl)), rfl⟩
  · exact Or.inl ⟨109, Or.inr (Or.inr (Or.inr (Or.inl rfl))), rfl⟩
  · exact Or.inl ⟨115, Or.inr (Or.inr (Or.inr (Or.inr rfl))), rfl⟩
  · exact Or.inr rfl

theorem runSteps_stepsL_ne_nil (ms : Nat) (hms : ms ≠ 0) : (runSteps stepsL (ms, [])).2 ≠ [] := by
  intro hnil
  have hfst := runSteps_stepsL_fst ms
  rcases runSteps_text_cases stepsL stepsL_units_ne_nil ms with ⟨_, h2⟩ | h2
  · omega
  · rw [hnil] at h2; simp at h2

/-! ### main results -/

/-- The printed duration always starts with a digit (what makes the lexer dispatch to
    `lexNumberOrDuration`). -/
theorem fmtDurationMs_head_digit (ms : Nat) :
    ∃ c tl, fmtDurationMs ms = c :: tl ∧ isDigitB c = true := by
  rw [fmtDurationMs_eq]
  split
  · exact ⟨48, [115], bs_0s, by decide⟩
  · rename_i hms
    cases htxt : (runSteps stepsL (ms, [])).2 with
    | nil => exact absurd htxt (runSteps_stepsL_ne_nil ms hms)
    | cons c tl => exact ⟨c, tl, rfl, digitStart_runSteps stepsL ms c tl htxt⟩

/-- `Duration.String` output followed by a non-alphanumeric byte (or the end of input) lexes as
    one DURATION token with exactly that text. -/
theorem lexNumberOrDuration_fmtDuration (ms : Nat) (rest : Bytes)
    (hrest : ∀ c, rest.head? = some c → isAlnumB c = false) :
    lexNumberOrDuration (fmtDurationMs ms ++ rest) = some (.duration (fmtDurationMs ms), rest) := by
  have hrest' : NonAlnumStart rest := hrest
  rw [fmtDurationMs_eq]
  split
  · rw [bs_0s]
    have hsc := scanNumber_zero 115 rest (by unfold NumStop; decide) (by decide) (by decide)
      (by decide)
    have har := acceptRem_step1 [48] 115 rest (by rw [bs_smhdwy]; decide) hrest'.notS
    unfold lexNumberOrDuration
    simp only [List.cons_append, List.nil_append]
    rw [hsc]
    simp only [Bool.false_eq_true, if_false]
    rw [har, durTail_stop _ _ rest hrest']
    rfl
  · rename_i hms
    exact lex_runSteps stepsL rest hrest' ms stepsL_first stepsL_tail
      (runSteps_stepsL_ne_nil ms hms)

end Prom.Promql
