import PromProofs.IsoRead
/-
  C05 helper lemmas: every series-level action (append, cut, m-map, cleanup) preserves `Series.WF`, and
  what each does to the samples that are no longer tracked by the ring.
-/
namespace Prom.Iso

theorem sum_bump_last (l : List Nat) (h : l ≠ []) : (l.dropLast ++ [l.getLastD 0 + 1]).sum = l.sum + 1 := by
  induction l with
  | nil => exact absurd rfl h
  | cons a rest ih =>
    cases rest with
    | nil => simp
    | cons b rest' =>
      have := ih (by simp)
      simp only [List.dropLast_cons_cons, List.cons_append, List.sum_cons, List.getLastD_cons] at *
      omega

theorem dropWhile_eq_drop {α} (p : α → Bool) (l : List α) : l.dropWhile p = l.drop (l.takeWhile p).length := by
  induction l with
  | nil => rfl
  | cons a rest ih =>
    simp only [List.dropWhile_cons, List.takeWhile_cons]
    split <;> simp [ih]

theorem mem_takeWhile_pos {α} (p : α → Bool) (l : List α) (x : α) (h : x ∈ l.takeWhile p) : p x = true := by
  induction l with
  | nil => simp at h
  | cons a rest ih =>
    simp only [List.takeWhile_cons] at h
    split at h
    · rcases List.mem_cons.mp h with h | h
      · subst h; assumption
      · exact ih h
    · simp at h

theorem takeWhile_length_le {α} (p : α → Bool) (l : List α) : (l.takeWhile p).length ≤ l.length := by
  induction l with
  | nil => simp
  | cons a rest ih => simp only [List.takeWhile_cons]; split <;> simp <;> omega

theorem Series.append_layout_sum (s : Series) (x : Sample) : (s.append x).layout.sum = s.layout.sum + 1 := by
  unfold Series.append Series.layout
  simp only [List.sum_append]
  by_cases h : s.hd.isEmpty
  · have : s.hd = [] := by simpa using h
    simp [this]
  · have hne : s.hd ≠ [] := by simpa using h
    have := sum_bump_last s.hd hne
    simp only [h, List.sum_append] at *
    simp only [Bool.false_eq_true, ↓reduceIte]
    omega

theorem Series.append_wf (s : Series) (x : Sample) (h : s.WF) (hid : 0 < x.id) : (s.append x).WF := by
  have hl := s.append_layout_sum x
  have hc := h.count
  have hr : (s.append x).ring = s.ring.add x.id := by simp [Series.append, hid]
  have hs : (s.append x).samples = s.samples ++ [x] := rfl
  have hcount : (s.ring.add x.id).count = s.ring.count + 1 := by
    have := TxRing.contents_length (s.ring.add x.id)
    rw [TxRing.add_contents _ _ h.ring] at this
    simp [TxRing.contents_length] at this
    omega
  refine ⟨?_, ?_, ?_, ?_⟩
  · rw [hr]; exact TxRing.add_wf _ _ h.ring
  · rw [hl, hs, h.layout]; simp
  · rw [hr, hs, hcount]; simp; exact hc
  · rw [hr, hs, TxRing.add_contents _ _ h.ring, hcount, h.tracks]
    have : (s.samples ++ [x]).length - (s.ring.count + 1) = s.samples.length - s.ring.count := by simp
    rw [this, List.drop_append_of_le_length (by omega)]
    simp

theorem Series.append_untracked (s : Series) (x : Sample) (h : s.WF) (hid : 0 < x.id) :
    (s.append x).untracked = s.untracked := by
  have hr : (s.append x).ring = s.ring.add x.id := by simp [Series.append, hid]
  have hcount : (s.ring.add x.id).count = s.ring.count + 1 := by
    have := TxRing.contents_length (s.ring.add x.id)
    rw [TxRing.add_contents _ _ h.ring] at this
    simp [TxRing.contents_length] at this
    omega
  have hs : (s.append x).samples = s.samples ++ [x] := rfl
  unfold Series.untracked
  rw [hr, hcount, hs]
  have : (s.samples ++ [x]).length - (s.ring.count + 1) = s.samples.length - s.ring.count := by simp
  rw [this, List.take_append_of_le_length (by omega)]

theorem Series.cut_wf (s : Series) (h : s.WF) : s.cut.WF := by
  refine ⟨h.ring, ?_, h.count, h.tracks⟩
  have := h.layout
  simp only [Series.cut, Series.layout, List.sum_append] at *
  simpa using this

theorem dropLast_sum_add_last (l : List Nat) : l.dropLast.sum + l.getLastD 0 = l.sum := by
  induction l with
  | nil => rfl
  | cons a rest ih =>
    cases rest with
    | nil => simp
    | cons b rest' =>
      simp only [List.dropLast_cons_cons, List.sum_cons, List.getLastD_cons] at *
      omega

theorem Series.mmap_wf (s : Series) (h : s.WF) : s.mmapChunks.WF := by
  unfold Series.mmapChunks
  split
  · exact h
  · refine ⟨h.ring, ?_, h.count, h.tracks⟩
    have := h.layout
    have h2 := dropLast_sum_add_last s.hd
    simp only [Series.layout, List.sum_append, List.sum_cons, List.sum_nil] at *
    omega

theorem Series.cleanup_wf (s : Series) (b : Nat) (h : s.WF) : (s.cleanup b).WF := by
  have hc := TxRing.cleanup_contents s.ring b h.ring
  have hlen := TxRing.contents_length (s.ring.cleanup b)
  have hlen0 := TxRing.contents_length s.ring
  have hcnt := h.count
  rw [hc, dropWhile_eq_drop] at hlen
  have hk := takeWhile_length_le (fun x => decide (x < b)) s.ring.contents
  simp only [List.length_drop] at hlen
  refine ⟨TxRing.cleanup_wf _ _ h.ring, h.layout, ?_, ?_⟩
  · show (s.ring.cleanup b).count ≤ s.samples.length
    omega
  · show (s.ring.cleanup b).contents = (s.samples.drop (s.samples.length - (s.ring.cleanup b).count)).map (·.id)
    rw [hc, dropWhile_eq_drop, h.tracks, ← List.map_drop, List.drop_drop]
    congr 2
    rw [h.tracks] at hlen hk hlen0
    omega

theorem Series.cleanup_untracked (s : Series) (b : Nat) (h : s.WF) :
    ∀ x ∈ (s.cleanup b).untracked, x ∈ s.untracked ∨ x.id < b := by
  intro x hx
  have hc := TxRing.cleanup_contents s.ring b h.ring
  have hlen := TxRing.contents_length (s.ring.cleanup b)
  have hlen0 := TxRing.contents_length s.ring
  rw [hc, dropWhile_eq_drop] at hlen
  simp only [List.length_drop] at hlen
  -- k = number of ids trimmed
  have hk := takeWhile_length_le (fun x => decide (x < b)) s.ring.contents
  unfold Series.untracked at hx ⊢
  have hsplit : s.samples.take (s.samples.length - (s.ring.cleanup b).count)
      = s.samples.take (s.samples.length - s.ring.count)
        ++ ((s.samples.drop (s.samples.length - s.ring.count)).take ((s.ring.contents.takeWhile fun x => decide (x < b)).length)) := by
    have hcnt := h.count
    have : s.samples.length - (s.ring.cleanup b).count
        = (s.samples.length - s.ring.count) + (s.ring.contents.takeWhile fun x => decide (x < b)).length := by omega
    rw [this, List.take_add]
  have hx' : x ∈ s.samples.take (s.samples.length - (s.ring.cleanup b).count) := hx
  rw [hsplit, List.mem_append] at hx'
  rcases hx' with hx' | hx'
  · exact Or.inl hx'
  · right
    -- the trimmed samples are exactly those whose ids form the leading run `< b` of the ring
    have htr := h.tracks
    have : x.id ∈ (s.ring.contents.takeWhile fun x => decide (x < b)) := by
      rw [htr, List.takeWhile_map]
      rw [htr, List.takeWhile_map, List.length_map] at hx'
      have hsub : (List.drop (s.samples.length - s.ring.count) s.samples).take
          ((List.drop (s.samples.length - s.ring.count) s.samples).takeWhile ((fun x => decide (x < b)) ∘ fun x => x.id)).length
          = (List.drop (s.samples.length - s.ring.count) s.samples).takeWhile ((fun x => decide (x < b)) ∘ fun x => x.id) := by
        generalize (List.drop (s.samples.length - s.ring.count) s.samples) = l
        induction l with
        | nil => rfl
        | cons a rest ih => simp only [List.takeWhile_cons]; split <;> simp [ih]
      rw [hsub] at hx'
      exact List.mem_map_of_mem hx'
    have := mem_takeWhile_pos _ _ _ this
    simpa using this

end Prom.Iso
