import PromProofs.LabelSetSort
/-
  Helper lemmas for C39: `Builder` refines an abstract finite map.
-/
namespace Prom.Labels

/-! ### lookup lemmas -/

theorem lookup_nil (k : String) : lookup [] k = none := rfl

theorem lookup_cons (l : Label) (ls : LabelSet) (k : String) :
    lookup (l :: ls) k = if l.1 = k then some l.2 else lookup ls k := by
  unfold lookup
  simp only [List.find?_cons]
  by_cases h : l.1 = k <;> simp [h]

theorem lookup_append (a b : LabelSet) (k : String) :
    lookup (a ++ b) k = (lookup a k).or (lookup b k) := by
  induction a with
  | nil => simp [lookup_nil]
  | cons x xs ih =>
    simp only [List.cons_append, lookup_cons]
    split <;> simp [ih]

theorem lookup_eq_none_iff (ls : LabelSet) (k : String) : lookup ls k = none ↔ k ∉ names ls := by
  induction ls with
  | nil => simp [lookup_nil, names]
  | cons x xs ih =>
    simp only [lookup_cons, names, List.map_cons, List.mem_cons, not_or]
    by_cases h : x.1 = k
    · simp [h]
    · simp only [h, if_false]
      rw [ih]; simp only [names]
      constructor
      · intro h2; exact ⟨fun e => h e.symm, h2⟩
      · intro h2; exact h2.2

theorem lookup_filter_name (p : String → Bool) (ls : LabelSet) (k : String) :
    lookup (ls.filter (fun l => p l.1)) k = if p k then lookup ls k else none := by
  induction ls with
  | nil => simp [lookup_nil]
  | cons x xs ih =>
    simp only [List.filter_cons]
    grind [lookup_cons]

theorem lookup_mem {ls : LabelSet} {k v : String} (h : lookup ls k = some v) : (k, v) ∈ ls := by
  induction ls with
  | nil => simp [lookup_nil] at h
  | cons x xs ih =>
    rw [lookup_cons] at h
    by_cases hx : x.1 = k
    · simp only [hx, if_true, Option.some.injEq] at h
      have : x = (k, v) := by cases x; simp_all
      simp [this]
    · simp only [hx, if_false] at h
      exact List.mem_cons_of_mem _ (ih h)

theorem lookup_perm_nodup {a b : LabelSet} (h : a.Perm b) (hn : (names a).Nodup) (k : String) :
    lookup a k = lookup b k := by
  unfold lookup; rw [find?_perm_nodup h hn k]

theorem lookup_none_of_lt {ls : LabelSet} {k : String}
    (h : ∀ c ∈ ls, slt k c.1 = true) : lookup ls k = none := by
  rw [lookup_eq_none_iff]
  intro hm
  simp only [names, List.mem_map] at hm
  obtain ⟨c, hc, hcn⟩ := hm
  have := h c hc
  rw [hcn, slt_irrefl] at this; cases this

/-- Two strictly sorted sets with the same lookups are the same list. -/
theorem sorted_ext {a b : LabelSet} (ha : Sorted a) (hb : Sorted b)
    (h : ∀ k, lookup a k = lookup b k) : a = b := by
  induction a generalizing b with
  | nil =>
    cases b with
    | nil => rfl
    | cons y ys => have := h y.1; simp [lookup_cons, lookup_nil] at this
  | cons x xs ih =>
    cases b with
    | nil => have := h x.1; simp [lookup_cons, lookup_nil] at this
    | cons y ys =>
      have hx := List.pairwise_cons.mp ha
      have hy := List.pairwise_cons.mp hb
      have nx : lookup xs x.1 = none := lookup_none_of_lt hx.1
      have ny : lookup ys y.1 = none := lookup_none_of_lt hy.1
      -- heads have the same name: otherwise the smaller one is missing on the other side
      have hname : x.1 = y.1 := by
        apply Classical.byContradiction; intro hne
        rcases slt_total hne with hlt | hlt
        · have h1 := h x.1
          have : lookup ys x.1 = none :=
            lookup_none_of_lt (fun c hc => slt_trans hlt (hy.1 c hc))
          simp only [lookup_cons, if_true, this] at h1
          have hne' : ¬ y.1 = x.1 := fun e => hne e.symm
          simp [hne'] at h1
        · have h1 := h y.1
          have : lookup xs y.1 = none :=
            lookup_none_of_lt (fun c hc => slt_trans hlt (hx.1 c hc))
          simp only [lookup_cons, if_true, this] at h1
          simp [hne] at h1
      have hval : x.2 = y.2 := by
        have h1 := h x.1
        simp only [lookup_cons, if_true, hname] at h1
        simpa using h1
      have hxy : x = y := Prod.ext hname hval
      subst hxy
      congr 1
      apply ih hx.2 hy.2
      intro k
      have h1 := h k
      simp only [lookup_cons] at h1
      by_cases hk : x.1 = k
      · subst hk; rw [nx, ny]
      · simpa [hk] using h1

/-! ### the abstract map -/

inductive BOp
  | set (n v : String)
  | del (ns : List String)
  | keep (ns : List String)

def Builder.step (b : Builder) : BOp → Builder
  | .set n v => b.set n v
  | .del ns => b.delAll ns
  | .keep ns => b.keep ns

/-- Abstract builder state: a map name ↦ value plus "was set through the builder". -/
structure AMap where
  val : String → Option String
  added : String → Bool

def AMap.delOne (m : AMap) (n : String) : AMap :=
  ⟨fun k => if k = n then none else m.val k, fun k => if k = n then false else m.added k⟩

def AMap.step (m : AMap) : BOp → AMap
  | .set n v =>
    if v = "" then m.delOne n
    else ⟨fun k => if k = n then some v else m.val k, fun k => if k = n then true else m.added k⟩
  | .del ns => ns.foldl AMap.delOne m
  | .keep ns => ⟨fun k => if m.added k || ns.contains k then m.val k else none, m.added⟩

/-- The map a label set denotes (`Reset`): empty values are absent. -/
def AMap.ofSet (ls : LabelSet) : AMap :=
  ⟨fun k => (lookup ls k).filter (· ≠ ""), fun _ => false⟩

def Builder.abs (b : Builder) : AMap :=
  ⟨fun k => (lookup b.add k).or (if b.del.contains k then none else lookup b.base k),
   fun k => b.add.any (·.1 = k)⟩

theorem AMap.ext' {m1 m2 : AMap} (h1 : ∀ k, m1.val k = m2.val k) (h2 : ∀ k, m1.added k = m2.added k) :
    m1 = m2 := by
  cases m1; cases m2; simp only [AMap.mk.injEq]; exact ⟨funext h1, funext h2⟩

theorem lookup_filter_ne (ls : LabelSet) (n k : String) :
    lookup (ls.filter (·.1 ≠ n)) k = if k = n then none else lookup ls k := by
  have := lookup_filter_name (fun x => x ≠ n) ls k
  simp only [ne_eq, decide_not] at this ⊢
  rw [this]
  by_cases h : k = n <;> simp [h]

theorem any_filter_ne (ls : LabelSet) (n k : String) :
    (ls.filter (·.1 ≠ n)).any (·.1 = k) = if k = n then false else ls.any (·.1 = k) := by
  induction ls with
  | nil => simp
  | cons x xs ih =>
    simp only [List.filter_cons]
    grind [List.any_cons]

theorem abs_delOne (b : Builder) (n : String) : (b.delOne n).abs = b.abs.delOne n := by
  apply AMap.ext'
  · intro k
    simp only [Builder.abs, Builder.delOne, AMap.delOne, lookup_filter_ne, List.contains_append,
      List.contains_cons, List.contains_nil, Bool.or_false]
    by_cases hk : k = n
    · simp [hk]
    · have : (k == n) = false := by simp [hk]
      simp [hk, this]
  · intro k
    simp only [Builder.abs, Builder.delOne, AMap.delOne, any_filter_ne]

theorem abs_delAll (b : Builder) (ns : List String) : (b.delAll ns).abs = ns.foldl AMap.delOne b.abs := by
  unfold Builder.delAll
  induction ns generalizing b with
  | nil => rfl
  | cons n ns ih => simp only [List.foldl_cons]; rw [ih, abs_delOne]

theorem lookup_map_set (ls : LabelSet) (n v k : String) :
    lookup (ls.map (fun l => if l.1 = n then (n, v) else l)) k
      = if k = n then (if ls.any (·.1 = n) then some v else none) else lookup ls k := by
  induction ls with
  | nil => simp [lookup_nil]
  | cons x xs ih =>
    simp only [List.map_cons, lookup_cons, ih, List.any_cons]
    grind

theorem any_map_set (ls : LabelSet) (n v k : String) :
    (ls.map (fun l => if l.1 = n then (n, v) else l)).any (·.1 = k) = ls.any (·.1 = k) := by
  induction ls with
  | nil => rfl
  | cons x xs ih =>
    simp only [List.map_cons, List.any_cons, ih]
    grind

theorem any_name_iff (ls : LabelSet) (k : String) : ls.any (·.1 = k) = true ↔ k ∈ names ls := by
  simp [names, List.any_eq_true]

theorem lookup_none_of_any_false {ls : LabelSet} {k : String} (h : ls.any (·.1 = k) = false) :
    lookup ls k = none := by
  rw [lookup_eq_none_iff]; intro hm
  rw [(any_name_iff _ _).mpr hm] at h; cases h

theorem any_true_of_lookup {ls : LabelSet} {k v : String} (h : lookup ls k = some v) :
    ls.any (·.1 = k) = true := by
  cases h2 : ls.any (·.1 = k) with
  | true => rfl
  | false => rw [lookup_none_of_any_false h2] at h; cases h

theorem abs_set (b : Builder) (n v : String) : (b.set n v).abs = b.abs.step (.set n v) := by
  unfold Builder.set AMap.step
  by_cases hv : v = ""
  · simp only [hv, if_true]; exact abs_delOne b n
  · simp only [hv, if_false]
    cases hany : b.add.any (·.1 = n) with
    | true =>
      simp only [if_true]
      apply AMap.ext'
      · intro k
        simp only [Builder.abs, lookup_map_set, hany, if_true]
        by_cases hk : k = n <;> simp [hk]
      · intro k
        simp only [Builder.abs, any_map_set]
        by_cases hk : k = n
        · subst hk; simp [hany]
        · simp [hk]
    | false =>
      simp only [Bool.false_eq_true, if_false]
      have hnone : lookup b.add n = none := lookup_none_of_any_false hany
      apply AMap.ext'
      · intro k
        simp only [Builder.abs, lookup_append, lookup_cons, lookup_nil]
        by_cases hk : k = n
        · subst hk; simp [hnone]
        · have : ¬ n = k := fun e => hk e.symm
          simp only [this, if_false, hk]
          cases lookup b.add k <;> simp
      · intro k
        simp only [Builder.abs, List.any_append, List.any_cons, List.any_nil, Bool.or_false]
        by_cases hk : k = n
        · subst hk; simp
        · have : ¬ n = k := fun e => hk e.symm
          simp [hk, this]

theorem keepDel_contains (base : LabelSet) (ns : List String) (k : String) :
    ((base.filter (fun l => !ns.contains l.1)).map (·.1)).contains k
      = (base.any (·.1 = k) && !ns.contains k) := by
  induction base with
  | nil => simp
  | cons x xs ih =>
    simp only [List.filter_cons]
    grind [List.any_cons, List.contains_cons]

theorem abs_keep (b : Builder) (ns : List String) : (b.keep ns).abs = b.abs.step (.keep ns) := by
  unfold Builder.keep AMap.step
  apply AMap.ext'
  · intro k
    simp only [Builder.abs, List.contains_append, keepDel_contains]
    cases hadd : lookup b.add k with
    | some v => simp [any_true_of_lookup hadd]
    | none =>
      have hany : b.add.any (·.1 = k) = false := by
        cases hany : b.add.any (·.1 = k) with
        | false => rfl
        | true =>
          have := (any_name_iff _ _).mp hany
          exact absurd this ((lookup_eq_none_iff _ _).mp hadd)
      simp only [hany]
      cases hb : b.base.any (·.1 = k) with
      | false => simp [lookup_none_of_any_false hb]
      | true => cases hd : b.del.contains k <;> cases hns : ns.contains k <;> simp
  · intro k; rfl

theorem abs_step (b : Builder) (op : BOp) : (b.step op).abs = b.abs.step op := by
  cases op with
  | set n v => exact abs_set b n v
  | del ns => exact abs_delAll b ns
  | keep ns => exact abs_keep b ns

theorem abs_foldl (b : Builder) (ops : List BOp) :
    (ops.foldl Builder.step b).abs = ops.foldl AMap.step b.abs := by
  induction ops generalizing b with
  | nil => rfl
  | cons op ops ih => simp only [List.foldl_cons]; rw [ih, abs_step]

/-! ### invariant and the result of `Labels()` -/

structure Builder.Inv (b : Builder) : Prop where
  base_sorted : Sorted b.base
  add_nodup : (names b.add).Nodup
  add_nonempty : ∀ l ∈ b.add, l.2 ≠ ""
  empties_deleted : ∀ l ∈ b.base, l.2 = "" → b.del.contains l.1 = true

theorem inv_reset {base : LabelSet} (h : Sorted base) : (Builder.reset base).Inv := by
  refine ⟨h, by simp [Builder.reset, names], by simp [Builder.reset], ?_⟩
  intro l hl he
  simp only [Builder.reset, List.contains_eq_mem, List.mem_filterMap, decide_eq_true_eq]
  exact ⟨l, hl, by simp [he]⟩

theorem names_filter_sublist (ls : LabelSet) (p : Label → Bool) :
    (names (ls.filter p)).Sublist (names ls) := List.Sublist.map _ List.filter_sublist

theorem inv_delOne {b : Builder} (h : b.Inv) (n : String) : (b.delOne n).Inv := by
  refine ⟨h.base_sorted, ?_, ?_, ?_⟩
  · exact List.Nodup.sublist (names_filter_sublist _ _) h.add_nodup
  · intro l hl; exact h.add_nonempty l (List.mem_filter.mp hl).1
  · intro l hl he
    have := h.empties_deleted l hl he
    simp only [Builder.delOne, List.contains_append, this, Bool.true_or]

theorem names_map_set (ls : LabelSet) (n v : String) :
    names (ls.map (fun l => if l.1 = n then (n, v) else l)) = names ls := by
  induction ls with
  | nil => rfl
  | cons x xs ih =>
    simp only [names, List.map_cons] at ih ⊢
    rw [ih]; by_cases hx : x.1 = n <;> simp [hx]

theorem inv_step {b : Builder} (h : b.Inv) (op : BOp) : (b.step op).Inv := by
  cases op with
  | set n v =>
    simp only [Builder.step, Builder.set]
    by_cases hv : v = ""
    · simp only [hv, if_true]; exact inv_delOne h n
    · simp only [hv, if_false]
      cases hany : b.add.any (·.1 = n) with
      | true =>
        simp only [if_true]
        refine ⟨h.base_sorted, ?_, ?_, h.empties_deleted⟩
        · simp only [names_map_set]; exact h.add_nodup
        · intro l hl
          simp only [List.mem_map] at hl
          obtain ⟨c, hc, rfl⟩ := hl
          by_cases hcn : c.1 = n
          · simp [hcn, hv]
          · simp only [hcn, if_false]; exact h.add_nonempty c hc
      | false =>
        simp only [Bool.false_eq_true, if_false]
        refine ⟨h.base_sorted, ?_, ?_, h.empties_deleted⟩
        · simp only [names, List.map_append, List.map_cons, List.map_nil]
          have hn : n ∉ names b.add := fun hm => by
            rw [(any_name_iff _ _).mpr hm] at hany; cases hany
          have := h.add_nodup
          simp only [names] at hn this
          rw [List.nodup_append]
          refine ⟨this, by simp, ?_⟩
          intro a ha c hc
          simp only [List.mem_cons, List.not_mem_nil, or_false] at hc
          subst hc; intro e; subst e; exact hn ha
        · intro l hl
          rcases List.mem_append.mp hl with hl | hl
          · exact h.add_nonempty l hl
          · simp only [List.mem_cons, List.not_mem_nil, or_false] at hl; subst hl; exact hv
  | del ns =>
    simp only [Builder.step, Builder.delAll]
    induction ns generalizing b with
    | nil => exact h
    | cons n ns ih => simp only [List.foldl_cons]; exact ih (inv_delOne h n)
  | keep ns =>
    refine ⟨h.base_sorted, h.add_nodup, h.add_nonempty, ?_⟩
    intro l hl he
    have := h.empties_deleted l hl he
    simp only [Builder.step, Builder.keep, List.contains_append, this, Bool.true_or]

theorem inv_foldl {b : Builder} (h : b.Inv) (ops : List BOp) : (ops.foldl Builder.step b).Inv := by
  induction ops generalizing b with
  | nil => exact h
  | cons op ops ih => exact ih (inv_step h op)

/-- surviving base labels -/
def Builder.res (b : Builder) : LabelSet :=
  b.base.filter (fun l => !b.del.contains l.1 && !b.add.any (·.1 = l.1))

theorem Sorted.filter {ls : LabelSet} (h : Sorted ls) (p : Label → Bool) : Sorted (ls.filter p) :=
  List.Pairwise.sublist List.filter_sublist h

theorem res_add_nodup {b : Builder} (h : b.Inv) : (names (b.res ++ b.add)).Nodup := by
  simp only [names, List.map_append]
  rw [List.nodup_append]
  refine ⟨(h.base_sorted.filter _).nodup, h.add_nodup, ?_⟩
  intro a ha c hc e
  subst e
  simp only [Builder.res, List.mem_map, List.mem_filter, Bool.and_eq_true, Bool.not_eq_true'] at ha
  obtain ⟨l, ⟨_, _, hl⟩, rfl⟩ := ha
  have : b.add.any (·.1 = l.1) = true := (any_name_iff _ _).mpr hc
  rw [this] at hl; cases hl

theorem lookup_res (b : Builder) (k : String) :
    lookup b.res k = if !b.del.contains k && !b.add.any (·.1 = k) then lookup b.base k else none :=
  lookup_filter_name (fun n => !b.del.contains n && !b.add.any (·.1 = n)) b.base k

theorem labels_eq (b : Builder) :
    b.labels = if b.del.isEmpty && b.add.isEmpty then b.base
               else if b.add.isEmpty then b.res else sortByName (b.res ++ b.add) := by
  simp only [Builder.labels, Builder.labelsF, Builder.res]
  split <;> rfl

theorem labels_lookup {b : Builder} (h : b.Inv) (k : String) : lookup b.labels k = b.abs.val k := by
  rw [labels_eq]
  simp only [Builder.abs]
  split
  · rename_i h1
    simp only [Bool.and_eq_true, List.isEmpty_iff] at h1
    simp [h1.1, h1.2, lookup_nil]
  · split
    · rename_i h2
      simp only [List.isEmpty_iff] at h2
      rw [lookup_res]
      simp only [h2, lookup_nil, List.any_nil, Bool.not_false, Bool.and_true, Option.none_or]
      cases b.del.contains k <;> simp
    · rw [lookup_perm_nodup (sortByName_perm _) ((names_perm (sortByName_perm _)).nodup_iff.mpr (res_add_nodup h))]
      rw [lookup_append, lookup_res]
      cases hadd : lookup b.add k with
      | some v => simp [any_true_of_lookup hadd]
      | none =>
        have hany : b.add.any (·.1 = k) = false := by
          cases hany : b.add.any (·.1 = k) with
          | false => rfl
          | true => exact absurd ((any_name_iff _ _).mp hany) ((lookup_eq_none_iff _ _).mp hadd)
        simp only [hany, Bool.not_false, Bool.and_true, Option.or_none, Option.none_or]
        cases b.del.contains k <;> simp

theorem res_nonempty {b : Builder} (h : b.Inv) : ∀ l ∈ b.res, l.2 ≠ "" := by
  intro l hl he
  simp only [Builder.res, List.mem_filter, Bool.and_eq_true, Bool.not_eq_true'] at hl
  have := h.empties_deleted l hl.1 he
  rw [this] at hl; cases hl.2.1

theorem labels_sorted {b : Builder} (h : b.Inv) : Sorted b.labels := by
  rw [labels_eq]
  split
  · exact h.base_sorted
  · split
    · exact h.base_sorted.filter _
    · exact sortByName_sorted (res_add_nodup h)

theorem labels_nonempty {b : Builder} (h : b.Inv) : ∀ l ∈ b.labels, l.2 ≠ "" := by
  rw [labels_eq]
  split
  · rename_i h1
    simp only [Bool.and_eq_true, List.isEmpty_iff] at h1
    intro l hl he
    have := h.empties_deleted l hl he
    simp [h1.1] at this
  · split
    · exact res_nonempty h
    · intro l hl
      have := (sortByName_perm _).mem_iff.mp hl
      rcases List.mem_append.mp this with hl | hl
      · exact res_nonempty h l hl
      · exact h.add_nonempty l hl

theorem canonicalB_iff (ls : LabelSet) : canonicalB ls = true ↔ Sorted ls ∧ ∀ l ∈ ls, l.2 ≠ "" := by
  simp [canonicalB, sortedB_iff, noEmptyValuesB]

end Prom.Labels
