import PromModel.Tsdb.HistLayout
import PromProofs.HistIdx
/-
  What the insert lists of `expandGo` (`expandIntSpansAndBuckets`/`expandFloatSpansAndBuckets`) denote:
  the unit inserts given by `specF`.
-/
namespace Prom.Hist

/-! ## unfolding equations of `specF` -/

theorem specF_nil_left (k : Nat) (B : List Int) : specF k [] B = B.map fun b => (k, b) := by
  rw [specF]

theorem specF_nil_right (k : Nat) (A : List Int) : specF k A [] = [] := by
  cases A <;> simp [specF]

theorem specF_cons_eq (k : Nat) (a : Int) (A B : List Int) :
    specF k (a :: A) (a :: B) = specF (k + 1) A B := by
  rw [specF]; simp

theorem specF_cons_lt (k : Nat) (a b : Int) (A B : List Int) (h : a < b) :
    specF k (a :: A) (b :: B) = specF (k + 1) A (b :: B) := by
  have hne : ¬ a = b := by omega
  rw [specF]; simp [h, hne]

theorem specF_cons_gt (k : Nat) (a b : Int) (A B : List Int) (h : b < a) :
    specF k (a :: A) (b :: B) = (k, b) :: specF k (a :: A) B := by
  have hne : ¬ a = b := by omega
  have hlt : ¬ a < b := by omega
  rw [specF]; simp [hlt, hne]

theorem specF_nil_cons (k : Nat) (b : Int) (B : List Int) :
    specF k [] (b :: B) = (k, b) :: specF k [] B := by
  simp [specF_nil_left]

/-! ## `posOf` / `insertIdxs` of the pending-insert view -/

/-- the insert list with the pending insert `i` flushed -/
def curOf (ins : List Insert) (i : Insert) : List Insert :=
  (if i.num > 0 then i :: ins else ins).reverse

theorem CW.curA_eq (s : CW) : s.curA = curOf s.aIns s.aI := rfl
theorem CW.curB_eq (s : CW) : s.curB = curOf s.bIns s.bI := rfl

theorem runIdx_succ (b : Int) (n : Nat) : runIdx b (n + 1) = runIdx b n ++ [b + (n : Int)] := by
  induction n generalizing b with
  | zero => simp [runIdx]
  | succ n ih =>
    rw [runIdx, ih (b + 1)]
    simp only [runIdx, List.cons_append]
    congr 2
    simp only [List.cons.injEq, and_true]
    omega

theorem posOf_curOf (ins : List Insert) (i : Insert) :
    posOf (curOf ins i) = posOf ins.reverse ++ List.replicate i.num i.pos := by
  unfold curOf
  split
  · simp [posOf]
  · have h0 : i.num = 0 := by omega
    simp [posOf, h0]

theorem insertIdxs_curOf (ins : List Insert) (i : Insert) :
    insertIdxs (curOf ins i) = insertIdxs ins.reverse ++ runIdx i.bucketIdx i.num := by
  unfold curOf
  split
  · simp [insertIdxs]
  · have h0 : i.num = 0 := by omega
    simp [insertIdxs, h0, runIdx]

theorem AllPos_curOf (ins : List Insert) (i : Insert) (h : AllPos ins) : AllPos (curOf ins i) := by
  unfold curOf
  intro x hx
  split at hx
  · simp at hx
    rcases hx with hx | hx
    · exact h x hx
    · subst hx; assumption
  · simp at hx
    exact h x hx

/-! ## `addInsert` -/

theorem addInsert_spec (ins : List Insert) (i : Insert) (idx : Int) (h : AllPos ins) :
    AllPos (addInsert ins i idx).1 ∧ (addInsert ins i idx).2.pos = i.pos ∧
    posOf (curOf (addInsert ins i idx).1 (addInsert ins i idx).2) = posOf (curOf ins i) ++ [i.pos] ∧
    insertIdxs (curOf (addInsert ins i idx).1 (addInsert ins i idx).2) = insertIdxs (curOf ins i) ++ [idx] := by
  simp only [posOf_curOf, insertIdxs_curOf]
  unfold addInsert
  split
  · rename_i h0
    simp [h, h0, runIdx]
  · rename_i h0
    split
    · rename_i h1
      refine ⟨?_, rfl, ?_, ?_⟩
      · intro x hx
        simp at hx
        rcases hx with hx | hx
        · subst hx; omega
        · exact h x hx
      · simp [posOf]
      · simp [insertIdxs, runIdx]
    · rename_i h1
      have h1' : i.bucketIdx + (i.num : Int) = idx := by
        simpa using h1
      refine ⟨h, rfl, ?_, ?_⟩
      · simp [List.replicate_succ']
      · simp [runIdx_succ, h1']

/-! ## state transitions -/

theorem CW.advA_spec (s : CW) (h : AllPos s.aIns) :
    AllPos s.advA.aIns ∧ s.advA.aI.pos = s.aI.pos + 1 ∧
    posOf s.advA.curA = posOf s.curA ∧ insertIdxs s.advA.curA = insertIdxs s.curA ∧
    s.advA.bIns = s.bIns ∧ s.advA.bI = s.bI ∧ s.advA.curB = s.curB := by
  simp only [CW.curA_eq, CW.curB_eq, posOf_curOf, insertIdxs_curOf]
  unfold CW.advA
  by_cases h0 : s.aI.num > 0
  · simp only [h0, if_true]
    refine ⟨?_, by trivial, ?_, ?_, by trivial, by trivial, by trivial⟩
    · intro x hx
      simp at hx
      rcases hx with hx | hx
      · subst hx; exact h0
      · exact h x hx
    · simp [posOf]
    · simp [insertIdxs, runIdx]
  · have h1 : s.aI.num = 0 := by omega
    simp [h1, runIdx]
    exact h

theorem CW.advB_spec (s : CW) (h : AllPos s.bIns) :
    AllPos s.advB.bIns ∧ s.advB.bI.pos = s.bI.pos + 1 ∧
    posOf s.advB.curB = posOf s.curB ∧ insertIdxs s.advB.curB = insertIdxs s.curB ∧
    s.advB.aIns = s.aIns ∧ s.advB.aI = s.aI ∧ s.advB.curA = s.curA := by
  simp only [CW.curA_eq, CW.curB_eq, posOf_curOf, insertIdxs_curOf]
  unfold CW.advB
  by_cases h0 : s.bI.num > 0
  · simp only [h0, if_true]
    refine ⟨?_, by trivial, ?_, ?_, by trivial, by trivial, by trivial⟩
    · intro x hx
      simp at hx
      rcases hx with hx | hx
      · subst hx; exact h0
      · exact h x hx
    · simp [posOf]
    · simp [insertIdxs, runIdx]
  · have h1 : s.bI.num = 0 := by omega
    simp [h1, runIdx]
    exact h

theorem CW.addA_spec (s : CW) (idx : Int) (h : AllPos s.aIns) :
    AllPos (s.addA idx).aIns ∧ (s.addA idx).aI.pos = s.aI.pos ∧
    posOf (s.addA idx).curA = posOf s.curA ++ [s.aI.pos] ∧
    insertIdxs (s.addA idx).curA = insertIdxs s.curA ++ [idx] ∧
    (s.addA idx).bIns = s.bIns ∧ (s.addA idx).bI = s.bI ∧ (s.addA idx).curB = s.curB := by
  have := addInsert_spec s.aIns s.aI idx h
  simp only [CW.curA_eq]
  exact ⟨this.1, this.2.1, this.2.2.1, this.2.2.2, rfl, rfl, rfl⟩

theorem CW.addB_spec (s : CW) (idx : Int) (h : AllPos s.bIns) :
    AllPos (s.addB idx).bIns ∧ (s.addB idx).bI.pos = s.bI.pos ∧
    posOf (s.addB idx).curB = posOf s.curB ++ [s.bI.pos] ∧
    insertIdxs (s.addB idx).curB = insertIdxs s.curB ++ [idx] ∧
    (s.addB idx).aIns = s.aIns ∧ (s.addB idx).aI = s.aI ∧ (s.addB idx).curA = s.curA := by
  have := addInsert_spec s.bIns s.bI idx h
  simp only [CW.curB_eq]
  exact ⟨this.1, this.2.1, this.2.2.1, this.2.2.2, rfl, rfl, rfl⟩

/-! ## the loop -/

/-- what the insert lists of `expandGo` denote: unit inserts (position, bucket index) given by `specF` -/
theorem expandGo_spec (float : Bool) (pa pb : List (Int × Int)) (s : CW) (r : List Insert × List Insert)
    (h : expandGo float pa pb s = some r) (hA : AllPos s.aIns) (hB : AllPos s.bIns) :
    AllPos r.1 ∧ AllPos r.2 ∧
    posOf r.1 = posOf s.curA ++ (specF s.aI.pos (pa.map (·.1)) (pb.map (·.1))).map (·.1) ∧
    insertIdxs r.1 = insertIdxs s.curA ++ (specF s.aI.pos (pa.map (·.1)) (pb.map (·.1))).map (·.2) ∧
    posOf r.2 = posOf s.curB ++ (specF s.bI.pos (pb.map (·.1)) (pa.map (·.1))).map (·.1) ∧
    insertIdxs r.2 = insertIdxs s.curB ++ (specF s.bI.pos (pb.map (·.1)) (pa.map (·.1))).map (·.2) := by
  fun_induction expandGo float pa pb s with
  | case1 ac a bi bc b s hgt => simp at h
  | case2 ac a bi bc b s hgt ih =>
    obtain ⟨a1, a2, a3, a4, a5, a6, a7⟩ := s.advA_spec hA
    obtain ⟨b1, b2, b3, b4, b5, b6, b7⟩ := s.advA.advB_spec (a5 ▸ hB)
    have ih := ih h (b5 ▸ a1) b1
    simp only [b2, b3, b4, b6, b7, a2, a3, a4, a6, a7] at ih
    simpa only [List.map_cons, specF_cons_eq] using ih
  | case3 ai ac a bi bc b s hne hlt hz ih =>
    obtain ⟨a1, a2, a3, a4, a5, a6, a7⟩ := s.addB_spec ai hB
    obtain ⟨b1, b2, b3, b4, b5, b6, b7⟩ := (s.addB ai).advA_spec (a5 ▸ hA)
    have ih := ih h b1 (b5 ▸ a1)
    simp only [b2, b3, b4, b6, b7, a2, a3, a4, a6, a7] at ih
    simpa [specF_cons_lt _ _ _ _ _ hlt, specF_cons_gt _ _ _ _ _ hlt] using ih
  | case4 ai ac a bi bc b s hne hlt hz => simp at h
  | case5 ai ac a bi bc b s hne hlt ih =>
    have hgt : bi < ai := by omega
    obtain ⟨a1, a2, a3, a4, a5, a6, a7⟩ := s.addA_spec bi hA
    obtain ⟨b1, b2, b3, b4, b5, b6, b7⟩ := (s.addA bi).advB_spec (a5 ▸ hB)
    have ih := ih h (b5 ▸ a1) b1
    simp only [b2, b3, b4, b6, b7, a2, a3, a4, a6, a7] at ih
    simpa [specF_cons_lt _ _ _ _ _ hgt, specF_cons_gt _ _ _ _ _ hgt] using ih
  | case6 ai ac a s hz ih =>
    obtain ⟨a1, a2, a3, a4, a5, a6, a7⟩ := s.addB_spec ai hB
    obtain ⟨b1, b2, b3, b4, b5, b6, b7⟩ := (s.addB ai).advA_spec (a5 ▸ hA)
    have ih := ih h b1 (b5 ▸ a1)
    simp only [b2, b3, b4, b6, b7, a2, a3, a4, a6, a7] at ih
    simpa [specF_nil_right, specF_nil_cons] using ih
  | case7 ai ac a s hz => simp at h
  | case8 bi bc b s ih =>
    obtain ⟨a1, a2, a3, a4, a5, a6, a7⟩ := s.addA_spec bi hA
    obtain ⟨b1, b2, b3, b4, b5, b6, b7⟩ := (s.addA bi).advB_spec (a5 ▸ hB)
    have ih := ih h (b5 ▸ a1) b1
    simp only [b2, b3, b4, b6, b7, a2, a3, a4, a6, a7] at ih
    simpa [specF_nil_right, specF_nil_cons] using ih
  | case9 s =>
    simp only [Option.some.injEq] at h
    subst h
    have e1 : s.finish.1 = s.curA := rfl
    have e2 : s.finish.2 = s.curB := rfl
    rw [e1, e2]
    refine ⟨AllPos_curOf _ _ hA, AllPos_curOf _ _ hB, ?_, ?_, ?_, ?_⟩ <;> simp [specF_nil_left]

theorem expandGo_init_spec (float : Bool) (pa pb : List (Int × Int)) (r : List Insert × List Insert)
    (h : expandGo float pa pb CW.init = some r) :
    AllPos r.1 ∧ AllPos r.2 ∧
    posOf r.1 = (specF 0 (pa.map (·.1)) (pb.map (·.1))).map (·.1) ∧
    insertIdxs r.1 = (specF 0 (pa.map (·.1)) (pb.map (·.1))).map (·.2) ∧
    posOf r.2 = (specF 0 (pb.map (·.1)) (pa.map (·.1))).map (·.1) ∧
    insertIdxs r.2 = (specF 0 (pb.map (·.1)) (pa.map (·.1))).map (·.2) := by
  have hA : AllPos CW.init.aIns := by intro x hx; simp [CW.init] at hx
  have hB : AllPos CW.init.bIns := by intro x hx; simp [CW.init] at hx
  have := expandGo_spec float pa pb CW.init r h hA hB
  simpa [CW.init, CW.curA, CW.curB, posOf, insertIdxs] using this

end Prom.Hist
