import PromProofs.QuantileFractionMono
/-
  Helper lemmas for C32, part 8: `HistogramFraction` with bounds in the extended reals (−Inf / +Inf
  allowed, the usual `histogram_fraction(-Inf, x, …)` / `(x, +Inf, …)` shapes).
-/
namespace Prom.Quantile
open FOps

theorem walkOpt_ninf (fb : XR → XR → XR → XR) (h : NHist XR) (b : RB) (bs : List RB) (a : Rat) :
    walkOpt fb h .ninf (.fin a) ((b :: bs).map RB.toN) = some (.fin a) := by
  simp only [List.map_cons, walkOpt]
  rw [hfB_eval]
  simp [stepOpt, XR.le, XR.lt]

theorem walkOpt_pinf (fb : XR → XR → XR → XR) (h : NHist XR) :
    ∀ (L : List RB) (a : Rat), walkOpt fb h .pinf (.fin a) (L.map RB.toN) = none := by
  intro L
  induction L with
  | nil => intro a; simp [walkOpt]
  | cons b bs ih =>
    intro a
    simp only [List.map_cons, walkOpt]
    rw [hfB_eval]
    simp only [stepOpt, fops_le, fops_lt, fops_add, XR.add_fin]
    simp only [XR.le, XR.lt, XR.beq, Bool.or_false, Bool.and_false, Bool.false_eq_true, if_false]
    exact ih (a + b.c)

/-- the walk of one bound in the extended reals -/
def walkR (fb : XR → XR → XR → XR) (h : NHist XR) (x : XR) (a : Rat) (L : List RB) : Option Rat :=
  match x with
  | .fin v => rankW fb h v a L
  | .ninf => (match L with | [] => none | _ :: _ => some a)
  | _ => none

theorem walkOpt_evalX (fb : XR → XR → XR → XR) (h : NHist XR) (x : XR) (hx : x ≠ .nan) (L : List RB) (a : Rat)
    (ok : ∀ b ∈ L, b.l ≤ b.u)
    (FB : ∀ v, ∀ b ∈ L, b.l < v → v < b.u → ∃ f, fb (.fin b.l) (.fin b.u) (.fin v) = .fin f) :
    walkOpt fb h x (.fin a) (L.map RB.toN) = (walkR fb h x a L).map XR.fin := by
  cases x with
  | nan => exact absurd rfl hx
  | fin v => exact walkOpt_eval fb h v L a ok (FB v)
  | pinf => rw [walkOpt_pinf]; rfl
  | ninf =>
    cases L with
    | nil => simp [walkOpt, walkR]
    | cons b bs => rw [walkOpt_ninf]; rfl

/-- cumulative count at an extended-real bound -/
def rankX (fb : XR → XR → XR → XR) (h : NHist XR) (x : XR) (L : List RB) : Rat :=
  (walkR fb h x 0 L).getD (0 + total L)

theorem rankX_fin (fb : XR → XR → XR → XR) (h : NHist XR) (v : Rat) (L : List RB) :
    rankX fb h (.fin v) L = rankT fb h v 0 L := rfl

theorem rankX_mono (fb : XR → XR → XR → XR) (h : NHist XR)
    (FBm : ∀ l u v1 v2 : Rat, l < v1 → v1 ≤ v2 → v2 < u → ∃ f1 f2, fb (.fin l) (.fin u) (.fin v1) = .fin f1 ∧
        fb (.fin l) (.fin u) (.fin v2) = .fin f2 ∧ 0 ≤ f1 ∧ f1 ≤ f2 ∧ f2 ≤ 1)
    (L : List RB) (ok : ∀ b ∈ L, b.l ≤ b.u ∧ 0 ≤ b.c) (x y : XR) (hx : x ≠ .nan) (hy : y ≠ .nan)
    (hxy : XR.le x y = true) :
    0 ≤ rankX fb h x L ∧ rankX fb h x L ≤ rankX fb h y L ∧ rankX fb h y L ≤ 0 + total L := by
  have tn := total_nonneg L (fun b hb => (ok b hb).2)
  have hn : rankX fb h .ninf L = 0 ∨ rankX fb h .ninf L = 0 + total L := by
    cases L with
    | nil => right; rfl
    | cons b bs => left; rfl
  have hn0 : 0 ≤ rankX fb h .ninf L ∧ rankX fb h .ninf L ≤ 0 + total L := by
    rcases hn with e | e <;> rw [e] <;> constructor <;> grind
  have hp : rankX fb h .pinf L = 0 + total L := rfl
  have hnle : ∀ v, rankX fb h .ninf L ≤ rankT fb h v 0 L := by
    intro v
    have := (rankT_mono fb h FBm v v Rat.le_refl L 0 ok)
    cases L with
    | nil => simp only [rankX, walkR, rankT, rankW]; exact Rat.le_refl
    | cons b bs => show (0 : Rat) ≤ _; exact this.1
  cases x with
  | nan => exact absurd rfl hx
  | fin v =>
    cases y with
    | nan => exact absurd rfl hy
    | fin w =>
      have hvw : v ≤ w := by simpa using hxy
      have := rankT_mono fb h FBm v w hvw L 0 ok
      exact ⟨this.1, this.2.1, this.2.2⟩
    | pinf =>
      have := rankT_mono fb h FBm v v Rat.le_refl L 0 ok
      rw [hp, rankX_fin]
      exact ⟨this.1, this.2.2, Rat.le_refl⟩
    | ninf => simp [XR.le, XR.lt, XR.beq] at hxy
  | pinf =>
    cases y with
    | nan => exact absurd rfl hy
    | fin w => simp [XR.le, XR.lt, XR.beq] at hxy
    | pinf => rw [hp]; exact ⟨by grind, Rat.le_refl, Rat.le_refl⟩
    | ninf => simp [XR.le, XR.lt, XR.beq] at hxy
  | ninf =>
    cases y with
    | nan => exact absurd rfl hy
    | fin w =>
      have := rankT_mono fb h FBm w w Rat.le_refl L 0 ok
      rw [rankX_fin]
      exact ⟨hn0.1, hnle w, this.2.2⟩
    | pinf => rw [hp]; exact ⟨hn0.1, hn0.2, Rat.le_refl⟩
    | ninf => exact ⟨hn0.1, Rat.le_refl, hn0.2⟩

theorem XR.isNaN_of_ne {x : XR} (h : x ≠ .nan) : XR.isNaN x = false := by
  cases x <;> simp_all [XR.isNaN]

theorem XR.le_refl' {x : XR} (h : x ≠ .nan) : XR.le x x = true := by
  cases x <;> simp_all [XR.le, XR.lt, XR.beq]

theorem XR.le_trans' {x y z : XR} (h1 : XR.le x y = true) (h2 : XR.le y z = true) : XR.le x z = true := by
  cases x <;> cases y <;> cases z <;> simp [XR.le, XR.lt, XR.beq] at h1 h2 ⊢
  grind

/-- `HistogramFraction(lo, up, h)` for bounds in the extended reals -/
theorem hf_valX (fb : XR → XR → XR → XR) {h : NHist XR} {L : List RB} {N : Rat} (R : RHist h L N)
    (FBm : ∀ l u v1 v2 : Rat, l < v1 → v1 ≤ v2 → v2 < u → ∃ f1 f2, fb (.fin l) (.fin u) (.fin v1) = .fin f1 ∧
        fb (.fin l) (.fin u) (.fin v2) = .fin f2 ∧ 0 ≤ f1 ∧ f1 ≤ f2 ∧ f2 ≤ 1)
    (lo up : XR) (hlo : lo ≠ .nan) (hup : up ≠ .nan) (hlu : XR.le lo up = true) :
    histogramFraction fb lo up h = .fin ((rankX fb h up L - rankX fb h lo L) / N) := by
  have hcount : (if XR.isNaN h.sum = true then sumCounts (XR.fin 0) h.fwd else XR.fin N) = XR.fin N := by
    split
    · rw [R.fwd, sumCounts_map, R.tot]; congr 1; grind
    · rfl
  have hN0 : N ≠ 0 := by have := R.pos; grind
  have okl : ∀ b ∈ L, b.l ≤ b.u := fun b hb => (R.ok b hb).1
  have FB : ∀ v, ∀ b ∈ L, b.l < v → v < b.u → ∃ f, fb (.fin b.l) (.fin b.u) (.fin v) = .fin f := by
    intro v b _ h1 h2
    obtain ⟨f, _, hf, _⟩ := FBm b.l b.u v v h1 Rat.le_refl h2
    exact ⟨f, hf⟩
  have ht : (0 : Rat) + total L = N := by rw [R.tot]; grind
  unfold histogramFraction
  simp only [fops_beq, fops_zero, R.count, XR.beq_fin, hN0, decide_false, fops_isNaN, XR.isNaN_of_ne hlo,
    XR.isNaN_of_ne hup, Bool.or_false, Bool.false_eq_true, if_false, fops_le, hcount]
  by_cases heq : XR.le up lo = true
  · have a := (rankX_mono fb h FBm L R.ok lo up hlo hup hlu).2.1
    have b := (rankX_mono fb h FBm L R.ok up lo hup hlo heq).2.1
    have : rankX fb h up L - rankX fb h lo L = 0 := by grind
    simp [heq, this, Rat.div_def]
  · simp only [heq, Bool.false_eq_true, ↓reduceIte]
    obtain ⟨s1, s2⟩ := hfLoop_split fb h lo up h.fwd (.fin 0) (.fin 0) (.fin 0) false false
    simp only [Bool.false_eq_true, if_false, R.fwd] at s1 s2
    rw [walkOpt_evalX fb h lo hlo L 0 okl FB] at s1
    rw [walkOpt_evalX fb h up hup L 0 okl FB] at s2
    have b1 : ∀ x, walkR fb h lo 0 L = some x → x ≤ N := by
      intro x hx
      have := (rankX_mono fb h FBm L R.ok lo lo hlo hlo (XR.le_refl' hlo)).2.2
      simp only [rankX, hx, Option.getD_some] at this
      grind
    have b2 : ∀ x, walkR fb h up 0 L = some x → x ≤ N := by
      intro x hx
      have := (rankX_mono fb h FBm L R.ok up up hup hup (XR.le_refl' hup)).2.2
      simp only [rankX, hx, Option.getD_some] at this
      grind
    have f1 := final_rank _ N _ s1 b1
    have f2 := final_rank_up _ N _ s2 b2
    simp only [R.fwd, fops_lt] at f1 f2 ⊢
    rw [f1, f2]
    simp only [fops_div, fops_sub, XR.sub_fin, XR.div_fin _ _ hN0, rankX, ht]

/-- fraction ∈ [0,1] and monotone under interval nesting, bounds in the extended reals -/
theorem fraction_coreX (fb : XR → XR → XR → XR) {h : NHist XR} {L : List RB} {N : Rat} (R : RHist h L N)
    (FBm : ∀ l u v1 v2 : Rat, l < v1 → v1 ≤ v2 → v2 < u → ∃ f1 f2, fb (.fin l) (.fin u) (.fin v1) = .fin f1 ∧
        fb (.fin l) (.fin u) (.fin v2) = .fin f2 ∧ 0 ≤ f1 ∧ f1 ≤ f2 ∧ f2 ≤ 1)
    (lo1 up1 lo2 up2 : XR) (n1 : lo1 ≠ .nan) (n2 : up1 ≠ .nan) (n3 : lo2 ≠ .nan) (n4 : up2 ≠ .nan)
    (h1 : XR.le lo2 lo1 = true) (h2 : XR.le lo1 up1 = true) (h3 : XR.le up1 up2 = true) :
    ∃ f1 f2, histogramFraction fb lo1 up1 h = .fin f1 ∧ histogramFraction fb lo2 up2 h = .fin f2 ∧
      0 ≤ f1 ∧ f1 ≤ f2 ∧ f2 ≤ 1 := by
  have h4 : XR.le lo2 up2 = true := XR.le_trans' (XR.le_trans' h1 h2) h3
  have ht : (0 : Rat) + total L = N := by rw [R.tot]; grind
  refine ⟨_, _, hf_valX fb R FBm lo1 up1 n1 n2 h2, hf_valX fb R FBm lo2 up2 n3 n4 h4, ?_, ?_, ?_⟩
  · have := (rankX_mono fb h FBm L R.ok lo1 up1 n1 n2 h2).2.1
    exact rat_div_nonneg (by grind) R.pos
  · have a := (rankX_mono fb h FBm L R.ok up1 up2 n2 n4 h3).2.1
    have b := (rankX_mono fb h FBm L R.ok lo2 lo1 n3 n1 h1).2.1
    exact rat_div_mono (by grind) R.pos
  · have a := (rankX_mono fb h FBm L R.ok lo2 up2 n3 n4 h4)
    exact rat_div_le_one (by grind) R.pos

end Prom.Quantile
