import PromModel.Remote.ReadCodec
/-
  Helper lemmas for C42 (remote read): range trimming, frame cutting, merging of adjacent frames,
  the float/histogram split of the sampled response, insertion sort, external labels.
-/
namespace Prom.ReadCodecProofs
open Prom.Merge (Sample Kind Labels)
open Prom.ReadCodec

/-! ### range trimming -/

theorem trimWalk_all_gt (mint maxt : Int) (xs : List Sample) (h : ∀ s ∈ xs, s.t > maxt) :
    xs.filter (fun s => decide (mint ≤ s.t ∧ s.t ≤ maxt)) = [] := by
  apply List.filter_eq_nil_iff.mpr
  intro s hs
  have := h s hs
  simp; omega

theorem trimWalk_eq_filter (mint maxt : Int) (xs : List Sample) (hs : xs.Pairwise (fun a b => a.t ≤ b.t)) :
    trimWalk mint maxt xs = xs.filter (fun s => decide (mint ≤ s.t ∧ s.t ≤ maxt)) := by
  induction xs with
  | nil => simp [trimWalk]
  | cons x r ih =>
    have hr := (List.pairwise_cons.mp hs).2
    have hx := (List.pairwise_cons.mp hs).1
    unfold trimWalk
    split
    · rename_i hgt
      symm
      apply trimWalk_all_gt
      intro s hs'
      rcases List.mem_cons.mp hs' with h | h
      · subst h; exact hgt
      · have := hx s h; omega
    · rename_i hle
      split
      · rename_i hge
        rw [List.filter_cons_of_pos (by simp; omega), ih hr]
      · rename_i hlt
        rw [List.filter_cons_of_neg (by simp; omega), ih hr]

/-! ### frames -/

theorem framesAux_flatten (m : Int) : ∀ (cs : List RChunk) (left : Int) (acc : List RChunk), cs ≠ [] →
    (framesAux m left acc cs).flatten = acc.reverse ++ cs := by
  intro cs
  induction cs with
  | nil => intro _ _ h; exact absurd rfl h
  | cons c rest ih =>
    intro left acc _
    cases rest with
    | nil => simp [framesAux]
    | cons d rest' =>
      unfold framesAux
      simp only
      split
      · rw [ih _ _ (by simp)]; simp
      · rw [List.flatten_cons, ih _ _ (by simp)]; simp

theorem framesAux_ne_nil (m : Int) : ∀ (cs : List RChunk) (left : Int) (acc : List RChunk), cs ≠ [] →
    framesAux m left acc cs ≠ [] := by
  intro cs
  induction cs with
  | nil => intro _ _ h; exact absurd rfl h
  | cons c rest ih =>
    intro left acc _
    cases rest with
    | nil => simp [framesAux]
    | cons d rest' =>
      unfold framesAux
      simp only
      split
      · exact ih _ _ (by simp)
      · simp



/-- adjacent series carry different label sets (after the external labels were attached) -/
def AdjDistinct (ext : Labels) : List ChunkSeries → Prop
  | a :: b :: rest => mergeLabels a.labels ext ≠ mergeLabels b.labels ext ∧ AdjDistinct ext (b :: rest)
  | _ => True

theorem mergeAdj_cons_nil (f : Frame) (rest : List Frame) (h : mergeAdj rest = []) :
    mergeAdj (f :: rest) = [f] := by
  rw [mergeAdj, h]

theorem mergeAdj_cons_cons (f g : Frame) (rest gs : List Frame) (h : mergeAdj rest = g :: gs) :
    mergeAdj (f :: rest) =
      if f.labels = g.labels then ⟨f.labels, f.chunks ++ g.chunks⟩ :: gs else f :: g :: gs := by
  rw [mergeAdj, h]

theorem mergeAdj_same_labels (l : Labels) (rest : List Frame)
    (hrest : ∀ g ∈ (mergeAdj rest).head?, g.labels ≠ l) :
    ∀ (css : List (List RChunk)), css ≠ [] →
      mergeAdj (css.map (fun cs => (⟨l, cs⟩ : Frame)) ++ rest) = ⟨l, css.flatten⟩ :: mergeAdj rest := by
  intro css
  induction css with
  | nil => intro h; exact absurd rfl h
  | cons cs more ih =>
    intro _
    cases more with
    | nil =>
      simp only [List.map_cons, List.map_nil, List.cons_append, List.nil_append, List.flatten_cons, List.flatten_nil, List.append_nil]
      cases hm : mergeAdj rest with
      | nil => rw [mergeAdj_cons_nil _ _ hm]
      | cons g gs =>
        have : g.labels ≠ l := hrest g (by simp [hm])
        rw [mergeAdj_cons_cons _ _ _ _ hm]
        simp [Ne.symm this]
    | cons cs' more' =>
      have ih' := ih (by simp)
      simp only [List.map_cons, List.cons_append] at ih' ⊢
      rw [mergeAdj_cons_cons _ _ _ _ ih']
      simp

theorem mergeAdj_stream (ext : Labels) (m : Int) : ∀ (ss : List ChunkSeries),
    (∀ s ∈ ss, s.chunks ≠ []) → AdjDistinct ext ss →
    mergeAdj (stream ext m ss) = ss.map (fun s => (⟨mergeLabels s.labels ext, s.chunks⟩ : Frame)) := by
  intro ss
  induction ss with
  | nil => intro _ _; simp [stream, mergeAdj]
  | cons s rest ih =>
    intro hne hadj
    have hne' : ∀ s ∈ rest, s.chunks ≠ [] := fun x hx => hne x (List.mem_cons_of_mem _ hx)
    have hadj' : AdjDistinct ext rest := by
      cases rest with
      | nil => trivial
      | cons b r => exact hadj.2
    have ihr := ih hne' hadj'
    have hs : s.chunks ≠ [] := hne s (List.mem_cons_self ..)
    unfold stream at ihr ⊢
    rw [List.flatMap_cons]
    have hse : streamSeries ext m s = (framesAux (maxDataLength m (mergeLabels s.labels ext))
        (maxDataLength m (mergeLabels s.labels ext)) [] s.chunks).map fun cs => (⟨mergeLabels s.labels ext, cs⟩ : Frame) := rfl
    rw [hse, mergeAdj_same_labels]
    · rw [ihr, framesAux_flatten _ _ _ _ hs]; simp
    · intro g hg
      rw [ihr] at hg
      cases rest with
      | nil => simp at hg
      | cons b r =>
        simp at hg
        subst hg
        exact Ne.symm hadj.1
    · exact framesAux_ne_nil _ _ _ _ hs


/-! ### sampled path -/

theorem splitHists_mem (xs : List Sample) : ∀ h ∈ splitHists xs, ∃ s ∈ xs, s.t = h.t := by
  induction xs with
  | nil => simp [splitHists]
  | cons x r ih =>
    intro h hh
    unfold splitHists at hh
    split at hh
    · obtain ⟨s, hs, e⟩ := ih h hh; exact ⟨s, List.mem_cons_of_mem _ hs, e⟩
    · rcases List.mem_cons.mp hh with e | e
      · exact ⟨x, List.mem_cons_self .., by rw [e]⟩
      · obtain ⟨s, hs, e⟩ := ih h e; exact ⟨s, List.mem_cons_of_mem _ hs, e⟩
    · rcases List.mem_cons.mp hh with e | e
      · exact ⟨x, List.mem_cons_self .., by rw [e]⟩
      · obtain ⟨s, hs, e⟩ := ih h e; exact ⟨s, List.mem_cons_of_mem _ hs, e⟩

theorem splitFloats_mem (xs : List Sample) : ∀ f ∈ splitFloats xs, ∃ s ∈ xs, s.t = f.t := by
  induction xs with
  | nil => simp [splitFloats]
  | cons x r ih =>
    intro f hf
    unfold splitFloats at hf
    split at hf
    · rcases List.mem_cons.mp hf with e | e
      · exact ⟨x, List.mem_cons_self .., by rw [e]⟩
      · obtain ⟨s, hs, e⟩ := ih f e; exact ⟨s, List.mem_cons_of_mem _ hs, e⟩
    · obtain ⟨s, hs, e⟩ := ih f hf; exact ⟨s, List.mem_cons_of_mem _ hs, e⟩

theorem interleave_float_first (f : PF) (fr : List PF) (hs : List PH) (h : ∀ x ∈ hs, f.t < x.t) :
    interleave (f :: fr) hs = f.sample :: interleave fr hs := by
  cases hs with
  | nil => rw [interleave]
  | cons x hr => rw [interleave]; simp [h x (List.mem_cons_self ..)]

theorem interleave_hist_first (x : PH) (hr : List PH) (fs : List PF) (h : ∀ f ∈ fs, x.t < f.t) :
    interleave fs (x :: hr) = x.sample :: interleave fs hr := by
  cases fs with
  | nil => rw [interleave]
  | cons f fr =>
    have := h f (List.mem_cons_self ..)
    rw [interleave]
    have h1 : ¬ f.t < x.t := by omega
    simp [h1, this]

theorem interleave_split (xs : List Sample) (hs : xs.Pairwise (fun a b => a.t < b.t)) :
    interleave (splitFloats xs) (splitHists xs) = xs := by
  induction xs with
  | nil => simp [splitFloats, splitHists, interleave]
  | cons x r ih =>
    have hr := (List.pairwise_cons.mp hs).2
    have hx := (List.pairwise_cons.mp hs).1
    obtain ⟨t, k, p⟩ := x
    cases k with
    | float =>
      simp only [splitFloats, splitHists]
      rw [interleave_float_first, ih hr]
      · rfl
      · intro h hh
        obtain ⟨s, hs', e⟩ := splitHists_mem r h hh
        have := hx s hs'; simp at this; simp; omega
    | hist =>
      simp only [splitFloats, splitHists]
      rw [interleave_hist_first, ih hr]
      · rfl
      · intro f hf
        obtain ⟨s, hs', e⟩ := splitFloats_mem r f hf
        have := hx s hs'; simp at this; simp; omega
    | fhist =>
      simp only [splitFloats, splitHists]
      rw [interleave_hist_first, ih hr]
      · rfl
      · intro f hf
        obtain ⟨s, hs', e⟩ := splitFloats_mem r f hf
        have := hx s hs'; simp at this; simp; omega

theorem wireFloat_id (xs : List Sample) (h : ∀ s ∈ xs, s.kind = .float → s.payload ≠ negZeroBits) :
    (splitFloats xs).map wireFloat = splitFloats xs := by
  induction xs with
  | nil => simp [splitFloats]
  | cons x r ih =>
    have ihr := ih (fun s hs => h s (List.mem_cons_of_mem _ hs))
    unfold splitFloats
    split
    · rename_i hk
      have := h x (List.mem_cons_self ..) hk
      simp [wireFloat, this, ihr]
    · exact ihr

def total (ss : List Series) : Nat := (ss.map (·.samples.length)).sum

theorem toQueryResultAux_ok (limit : Int) : ∀ (ss : List Series) (n : Nat),
    (limit ≤ 0 ∨ ((n + total ss : Nat) : Int) ≤ limit) →
    toQueryResultAux limit n ss = .ok (ss.map fun s => ⟨s.labels, splitFloats s.samples, splitHists s.samples⟩) := by
  intro ss
  induction ss with
  | nil => intro n _; simp [toQueryResultAux]
  | cons s rest ih =>
    intro n h
    unfold toQueryResultAux
    simp only [total, List.map_cons, List.sum_cons] at h
    have hno : ¬ (limit > 0 ∧ ((n + s.samples.length : Nat) : Int) > limit) := by
      rcases h with h | h
      · omega
      · have : (total rest : Int) ≥ 0 := by omega
        simp only [total] at this
        omega
    simp only [hno, if_false]
    rw [ih (n + s.samples.length)]
    · simp
    · rcases h with h | h
      · exact Or.inl h
      · right; simp only [total]; omega

/-- insertion sort leaves a list alone whose adjacent elements are in order -/
def AdjSorted (key : α → Labels) : List α → Prop
  | a :: b :: rest => Labels.compare (key a) (key b) = .lt ∧ AdjSorted key (b :: rest)
  | _ => True

theorem sortBy_id (key : α → Labels) : ∀ (xs : List α), AdjSorted key xs → sortBy key xs = xs := by
  intro xs
  induction xs with
  | nil => intro _; rfl
  | cons x r ih =>
    intro h
    cases r with
    | nil => simp [sortBy, insertBy]
    | cons y r' =>
      have := ih h.2
      unfold sortBy
      rw [this]
      simp [insertBy, h.1]

/-! ### external labels -/

theorem strip_mergeF (nms : List String) : ∀ (fuel : Nat) (ls ext : Labels),
    (∀ l ∈ ls, l.1 ∉ nms) → (∀ e ∈ ext, e.1 ∈ nms) →
    stripNames nms (mergeLabelsF fuel ls ext) = ls := by
  intro fuel ls ext
  fun_induction mergeLabelsF fuel ls ext with
  | case1 p s =>
    intro hl he
    simp only [stripNames, List.filter_append]
    rw [List.filter_eq_self.mpr (fun l hm => by simp [hl l hm]), List.filter_eq_nil_iff.mpr (fun e hm => by simp [he e hm])]
    simp
  | case2 _ s =>
    intro _ he
    simp only [stripNames]
    apply List.filter_eq_nil_iff.mpr
    intro e hm; simp [he e hm]
  | case3 _ p pr =>
    intro hl _
    simp only [stripNames]
    apply List.filter_eq_self.mpr
    intro l hm; simp [hl l hm]
  | case4 fuel p pr s sr hlt ih =>
    intro hl he
    have hp := hl p (List.mem_cons_self ..)
    have := ih (fun l hm => hl l (List.mem_cons_of_mem _ hm)) he
    simp only [stripNames] at this ⊢
    rw [List.filter_cons_of_pos (by simp [hp]), this]
  | case5 fuel p pr s sr _ hlt ih =>
    intro hl he
    have hs := he s (List.mem_cons_self ..)
    have := ih hl (fun e hm => he e (List.mem_cons_of_mem _ hm))
    simp only [stripNames] at this ⊢
    rw [List.filter_cons_of_neg (by simp [hs]), this]
  | case6 fuel p pr s sr _ _ ih =>
    intro hl he
    have hp := hl p (List.mem_cons_self ..)
    have := ih (fun l hm => hl l (List.mem_cons_of_mem _ hm)) (fun e hm => he e (List.mem_cons_of_mem _ hm))
    simp only [stripNames] at this ⊢
    rw [List.filter_cons_of_pos (by simp [hp]), this]

theorem strip_merge (nms : List String) (ls ext : Labels)
    (hl : ∀ l ∈ ls, l.1 ∉ nms) (he : ∀ e ∈ ext, e.1 ∈ nms) :
    stripNames nms (mergeLabels ls ext) = ls := strip_mergeF nms _ ls ext hl he

end Prom.ReadCodecProofs
