import PromProofs.NhcbExBuf
/-
  Reference semantics of the classic-histogram → NHCB conversion over an inner entry stream: the stream
  is cut into maximal groups of classic-histogram series (same base name, same labels without `le`, under
  a `# TYPE … histogram` line of that name); every group yields one converted histogram where it ends,
  everything else is handed on.  The reference keeps the *list of series* of the open group and converts
  it as a whole (`Grp.out`); the parser model (`Prom.Nhcb.step`) works incrementally on its TempHistogram,
  exemplar buffer and remembered labels/timestamps.  `WF` is the well-formedness predicate under which
  PromProps/C36.lean proves that the two agree.
-/
namespace Prom.Nhcb

/-- What one collated classic series contributes to the histogram. -/
inductive Upd
  | bucket (le v : Nat)
  | count (v : Nat)
  | sum (v : Nat)
  deriving DecidableEq, Repr

def Upd.apply : Upd → Temp → Temp
  | .bucket le v, h => h.setBucketCount le v
  | .count v, h => h.setCount v
  | .sum v, h => h.setSum v

/-- Is the series (labels `ls`, value `v`) a classic-histogram series of the family announced by the
    last TYPE line (`typ`, `bName`)?  (`name_bucket` with a parsable `le`, `name_count`, `name_sum`.) -/
def classify (typ bName : String) (ls : Labels) (v : Nat) : Option Upd :=
  if typ ≠ hHistogram then none
  else if (baseName (ls.get hName)).2 ≠ hexStr bName then none
  else
    match (baseName (ls.get hName)).1 with
    | .bucket =>
      if !ls.has hLe then none
      else
        match (hexDec? (ls.get hLe)).bind parseFloat? with
        | some le => some (.bucket le v)
        | none => none
    | .count => some (.count v)
    | .sum => some (.sum v)
    | .none => none

/-- the start timestamp a consumer can see (`StartTimestamp()` is only asked for with `parseST`) -/
def stOf (cfg : Cfg) (st : Int) : Int := if cfg.parseST then st else 0

/-- An open group: the classic histogram being collated. -/
structure Grp where
  name : String          -- base name of the family
  key : Labels           -- labels without `__name__` and `le`
  base : Labels          -- labels of the converted histogram
  ts : Option Int        -- timestamp of the first series
  st : Int               -- start timestamp of the first series
  upds : List Upd        -- the series, in arrival order
  exs : List String      -- their exemplars, in arrival order
  deriving DecidableEq, Repr

/-- the TempHistogram after all series of the group -/
def Grp.temp (g : Grp) : Temp := g.upds.foldl (fun h u => u.apply h) {}

/-- the converted histogram; `none` = Convert or Validate fails -/
def Grp.conv (g : Grp) : Option Conv :=
  match g.temp.convert with
  | some c => if c.valid then some c else none
  | none => none

def Grp.out (g : Grp) : List Out :=
  match g.conv with
  | some c => [.nhcb (metricString g.base) g.base g.ts g.st g.exs c]
  | none => []

inductive RMode
  | idle
  | group (g : Grp)
  | inhibit (name : String) (key : Labels)
  deriving DecidableEq, Repr

structure RSt where
  typ : String := "-"
  bName : String := "-"
  mode : RMode := .idle
  deriving DecidableEq, Repr

/-- does the series with labels `ls` continue the metric `(name, key)`? -/
def sameAs (typ name : String) (key : Labels) (ls : Labels) : Bool :=
  typ = hHistogram && name = (baseName (ls.get hName)).2 && key = ls.without [hLe]

/-- the converted histogram handed out when whatever is open ends -/
def RMode.close : RMode → List Out
  | .group g => g.out
  | _ => []

/-- the mode after a TYPE/HELP/UNIT/comment entry: an open group has ended, an inhibition persists -/
def RMode.afterMeta : RMode → RMode
  | .inhibit n k => .inhibit n k
  | _ => .idle

/-- a series that does not continue the open group / the inhibited metric -/
def refFresh (cfg : Cfg) (r : RSt) (b : String) (ls : Labels) (v : Nat) (ts : Option Int) (st : Int) (ex : List String) :
    List Out × RSt :=
  match classify r.typ r.bName ls v with
  | some u =>
    (if cfg.keep then [.series b ls v ts st ex] else [],
     { r with mode := .group { name := (baseName (ls.get hName)).2, key := ls.without [hLe],
                               base := metricBase ls (baseName (ls.get hName)).2, ts := ts, st := stOf cfg st,
                               upds := [u], exs := ex } })
  | none => ([.series b ls v ts st ex], { r with mode := .idle })

/-- a series that continues the open group `g` -/
def refSame (cfg : Cfg) (r : RSt) (g : Grp) (b : String) (ls : Labels) (v : Nat) (ts : Option Int) (st : Int) (ex : List String) :
    List Out × RSt :=
  match classify r.typ r.bName ls v with
  | some u =>
    (if cfg.keep then [.series b ls v ts st ex] else [],
     { r with mode := .group { g with upds := g.upds ++ [u], exs := g.exs ++ ex } })
  | none => ([.series b ls v ts st ex], r)

def refStep (cfg : Cfg) (r : RSt) : Entry → List Out × RSt
  | .series b ls v ts st ex =>
    match r.mode with
    | .idle => refFresh cfg r b ls v ts st ex
    | .inhibit n k =>
      if sameAs r.typ n k ls then ([.series b ls v ts st ex], r)
      else refFresh cfg r b ls v ts st ex
    | .group g =>
      if sameAs r.typ g.name g.key ls then refSame cfg r g b ls v ts st ex
      else
        (g.out ++ (refFresh cfg r b ls v ts st ex).1, (refFresh cfg r b ls v ts st ex).2)
  | .hist b ls ts st ex h =>
    ([.hist b ls ts st ex h], { r with mode := .inhibit (hexStr (ls.get hName)) (ls.without []) })
  | .typ name typ =>
    (r.mode.close ++ [.typ name typ],
     { typ := typ, bName := name, mode := r.mode.afterMeta })
  | .help name text =>
    (r.mode.close ++ [.help name text], { r with mode := r.mode.afterMeta })
  | .unit name text =>
    (r.mode.close ++ [.unit name text], { r with mode := r.mode.afterMeta })
  | .comment text =>
    (r.mode.close ++ [.comment text], { r with mode := r.mode.afterMeta })
  | .err => ([.err], r)

def refRun (cfg : Cfg) : RSt → List Entry → List (List Out)
  | r, [] => [r.mode.close]
  | _, .err :: rest => [Out.err] :: (rest.map fun _ => []) ++ [[]]
  | r, e :: rest => (refStep cfg r e).1 :: refRun cfg (refStep cfg r e).2 rest

def refTransform (cfg : Cfg) (es : List Entry) : List Out := (refRun cfg {} es).flatten

/-! ### well-formedness -/

/-- the open group (if any) converts: its series form a valid classic histogram -/
def RMode.closes : RMode → Bool
  | .group g => g.conv.isSome
  | _ => true

/-- conditions on a collated series: with keep-classic it carries no exemplars (C36-F1), and its exemplars
    overwrite a reused buffer slot completely (C36-F4) -/
def wfMember (cfg : Cfg) (ex : List String) : Bool :=
  (!cfg.keep || ex.isEmpty) && (!cfg.partialEx || ex.all exHasTs)

def wfFresh (cfg : Cfg) (r : RSt) (ls : Labels) (v : Nat) (ex : List String) : Bool :=
  match classify r.typ r.bName ls v with
  | some _ => wfMember cfg ex
  | none => true

def wfSame (cfg : Cfg) (r : RSt) (g : Grp) (ls : Labels) (v : Nat) (st : Int) (ex : List String) : Bool :=
  match classify r.typ r.bName ls v with
  | some _ => wfMember cfg ex && (!cfg.keep || stOf cfg st = g.st)
  | none => stOf cfg st = g.st

/-- Well-formedness of one entry in the reference state `r`:
    * a group that ends here converts (no Convert/Validate failure: C36-F3),
    * no exponential histogram arrives while a group is open (C36-F2),
    * collated series obey `wfMember` (C36-F1, C36-F4),
    * series handed on while a group is open (kept classic series, series of the same name and labels that
      are not classic series) have the group's start timestamp. -/
def wfStep (cfg : Cfg) (r : RSt) : Entry → Bool
  | .series _ ls v _ st ex =>
    match r.mode with
    | .idle => wfFresh cfg r ls v ex
    | .inhibit n k => sameAs r.typ n k ls || wfFresh cfg r ls v ex
    | .group g =>
      if sameAs r.typ g.name g.key ls then wfSame cfg r g ls v st ex
      else g.conv.isSome && wfFresh cfg r ls v ex
  | .hist .. => match r.mode with | .group _ => false | _ => true
  | .err => true
  | _ => r.mode.closes

def wfGo (cfg : Cfg) : RSt → List Entry → Bool
  | r, [] => r.mode.closes
  | _, .err :: _ => true
  | r, e :: rest => wfStep cfg r e && wfGo cfg (refStep cfg r e).2 rest

/-- Well-formed inner entry streams (for the repaired `Histogram()`, see F23). -/
def WF (cfg : Cfg) (es : List Entry) : Prop := cfg.fixed = true ∧ wfGo cfg {} es = true

instance (cfg : Cfg) (es : List Entry) : Decidable (WF cfg es) := by unfold WF; infer_instance

/-- what a consumer can tell apart: start timestamps only with `parseST` (cf. `showOut`) -/
def Out.norm (cfg : Cfg) : Out → Out
  | .series b ls v ts st ex => .series b ls v ts (stOf cfg st) ex
  | .hist b ls ts st ex h => .hist b ls ts (stOf cfg st) ex h
  | .nhcb b ls ts st ex c => .nhcb b ls ts (stOf cfg st) ex c
  | o => o

def Out.isNhcb : Out → Bool
  | .nhcb .. => true
  | _ => false

end Prom.Nhcb
