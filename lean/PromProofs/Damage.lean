import PromModel.Tsdb.Damage
import PromProofs.WalRoundtrip
/-
  Helper lemmas for C04: the reader step only looks at the bytes it consumes (`rstep_local`), hence reading
  a truncated stream returns a prefix of what reading the whole stream returns (`rloop_take_prefix`); the
  reader loop with offsets agrees with the plain one; a whole page of zeros is skipped; the records kept by
  `Repair` are a prefix of the records of the damaged file.
-/
namespace Prom.Damage
open Prom.Wal

/-! ### Locality of one reader step -/

/-- What a successful step does, independently of what follows the consumed bytes `c`. -/
def StepLocal (ps : Nat) (crc : Crc) (st : RState) (s : Bytes) : Prop :=
  match rstep ps crc st s with
  | .done _ => True
  | .cont st' rest => ∃ c, c ≠ [] ∧ s = c ++ rest ∧ st'.total = st.total + c.length ∧
      ∀ X, rstep ps crc st (c ++ X) = .cont st' X
  | .emit rec st' rest => ∃ c, c ≠ [] ∧ s = c ++ rest ∧ st'.total = st.total + c.length ∧
      ∀ X, rstep ps crc st (c ++ X) = .emit rec st' X

theorem take_append_of_le {α} (l X : List α) (k : Nat) (h : k ≤ l.length) :
    (l.take k ++ X).take k = l.take k := by
  rw [List.take_append_of_le_length (by simp [List.length_take]; omega)]
  rw [List.take_take]; simp

theorem drop_append_of_le {α} (l X : List α) (k : Nat) (h : k ≤ l.length) :
    (l.take k ++ X).drop k = X := by
  have hl : (l.take k).length = k := by simp [List.length_take]; omega
  rw [List.drop_append_of_le_length (by omega)]
  rw [List.drop_of_length_le (by omega)]; simp

theorem list_ge6 {α} (l : List α) (h : ¬ l.length < 6) :
    ∃ a b c d e f r, l = a :: b :: c :: d :: e :: f :: r := by
  match l, h with
  | a :: b :: c :: d :: e :: f :: r, _ => exact ⟨a, b, c, d, e, f, r, rfl⟩
  | [], h => simp at h
  | [_], h => simp at h
  | [_, _], h => simp at h
  | [_, _, _], h => simp at h
  | [_, _, _, _], h => simp at h
  | [_, _, _, _, _], h => simp at h

theorem rstep_local (ps : Nat) (crc : Crc) (st : RState) (s : Bytes) : StepLocal ps crc st s := by
  unfold StepLocal
  cases s with
  | nil => simp [rstep]
  | cons h0 s1 =>
    by_cases hpt : (h0 &&& recTypeMask) = recPageTerm
    · -- page terminator
      by_cases hk : ps - (st.total + 1) % ps = ps
      · have e : ∀ Y : Bytes, rstep ps crc st (h0 :: Y) =
            .cont { st with total := st.total + 1, typ := h0 &&& recTypeMask } Y := by
          intro Y; simp [rstep, hpt, hk]
        rw [e s1]
        exact ⟨[h0], by simp, by simp, by simp, fun X => by simpa using e X⟩
      · by_cases h0l : s1.length = 0
        · simp [rstep, hpt, hk, h0l]
        · by_cases hlt : s1.length < ps - (st.total + 1) % ps
          · simp [rstep, hpt, hk, h0l, hlt]
          · by_cases hany : (s1.take (ps - (st.total + 1) % ps)).any (· ≠ 0)
            · simp only [rstep, hpt, hk, h0l, hlt, hany, if_true, if_false]
            · have hkpos : 0 < ps - (st.total + 1) % ps := by
                rcases Nat.eq_zero_or_pos ps with h | h
                · subst h; simp at hk
                · have := Nat.mod_lt (st.total + 1) h; omega
              have hle : ps - (st.total + 1) % ps ≤ s1.length := by omega
              have e : ∀ Y : Bytes, rstep ps crc st (h0 :: (s1.take (ps - (st.total + 1) % ps) ++ Y)) =
                  .cont { st with total := st.total + 1 + (ps - (st.total + 1) % ps), typ := h0 &&& recTypeMask } Y := by
                intro Y
                have hlen : (s1.take (ps - (st.total + 1) % ps) ++ Y).length =
                    ps - (st.total + 1) % ps + Y.length := by simp [List.length_take]; omega
                have h1 : ¬ ((s1.take (ps - (st.total + 1) % ps) ++ Y).length = 0) := by omega
                have h2 : ¬ ((s1.take (ps - (st.total + 1) % ps) ++ Y).length < ps - (st.total + 1) % ps) := by omega
                simp only [rstep, hpt, hk, h1, h2, if_true, if_false, take_append_of_le _ _ _ hle,
                  drop_append_of_le _ _ _ hle, hany]
                simp
              have hs : h0 :: s1 = h0 :: (s1.take (ps - (st.total + 1) % ps) ++ s1.drop (ps - (st.total + 1) % ps)) := by
                rw [List.take_append_drop]
              have e1 := e (s1.drop (ps - (st.total + 1) % ps))
              rw [← hs] at e1
              rw [e1]
              exact ⟨h0 :: s1.take (ps - (st.total + 1) % ps), by simp, by simpa using hs,
                by simp [List.length_take]; omega, fun X => by simpa using e X⟩
    · -- data fragment
      by_cases h0l : s1.length = 0
      · simp [rstep, hpt, h0l]
      · by_cases h6 : s1.length < 6
        · simp [rstep, hpt, h0l, h6]
        · obtain ⟨l1, l0, c3, c2, c1, c0, s2, rfl⟩ := list_ge6 s1 h6
          have hl : ¬ ((l1 :: l0 :: c3 :: c2 :: c1 :: c0 :: s2).length = 0) := by simp
          have hl6 : ¬ ((l1 :: l0 :: c3 :: c2 :: c1 :: c0 :: s2).length < 6) := by simp
          by_cases hsz : rd16 l1 l0 > ps - hdrSize
          · simp only [rstep, hpt, hl, hl6, hsz, if_true, if_false]
          · by_cases he : rd16 l1 l0 > 0 ∧ s2.length = 0
            · simp only [rstep, hpt, hl, hl6, hsz, he, if_true, if_false, and_self]
            · by_cases hds : s2.length < rd16 l1 l0
              · simp only [rstep, hpt, hl, hl6, hsz, he, hds, if_true, if_false]
              · by_cases hcrc' : ¬ be32 (crc (s2.take (rd16 l1 l0))) = [c3, c2, c1, c0]
                · simp only [rstep, hpt, hl, hl6, hsz, he, hds, hcrc', ne_eq, not_false_eq_true, if_true, if_false]
                · have hcrc : be32 (crc (s2.take (rd16 l1 l0))) = [c3, c2, c1, c0] := Classical.not_not.mp hcrc'
                  have hle : rd16 l1 l0 ≤ s2.length := by omega
                  -- the step on the consumed bytes followed by anything
                  have key : ∀ Y : Bytes,
                      rstep ps crc st (h0 :: l1 :: l0 :: c3 :: c2 :: c1 :: c0 :: (s2.take (rd16 l1 l0) ++ Y)) =
                      (match validateRecord (h0 &&& recTypeMask) st.i with
                        | some e => StepR.done (.err e (st.total + 1 + 6 + rd16 l1 l0))
                        | none =>
                          if (h0 &&& recTypeMask) = recLast ∨ (h0 &&& recTypeMask) = recFull then
                            if h0 &&& snappyMask = snappyMask ∨ h0 &&& zstdMask = zstdMask then
                              StepR.done (.err .compressed (st.total + 1 + 6 + rd16 l1 l0))
                            else StepR.emit (st.buf ++ s2.take (rd16 l1 l0))
                              ⟨st.total + 1 + 6 + rd16 l1 l0, 0, [], h0 &&& recTypeMask⟩ Y
                          else StepR.cont ⟨st.total + 1 + 6 + rd16 l1 l0, st.i + 1,
                            st.buf ++ s2.take (rd16 l1 l0), h0 &&& recTypeMask⟩ Y) := by
                    intro Y
                    have hlen : (s2.take (rd16 l1 l0) ++ Y).length = rd16 l1 l0 + Y.length := by
                      simp [List.length_take]; omega
                    have g1 : ¬ ((l1 :: l0 :: c3 :: c2 :: c1 :: c0 :: (s2.take (rd16 l1 l0) ++ Y)).length = 0) := by simp
                    have g2 : ¬ ((l1 :: l0 :: c3 :: c2 :: c1 :: c0 :: (s2.take (rd16 l1 l0) ++ Y)).length < 6) := by simp
                    have g3 : ¬ (rd16 l1 l0 > 0 ∧ (s2.take (rd16 l1 l0) ++ Y).length = 0) := by omega
                    have g4 : ¬ ((s2.take (rd16 l1 l0) ++ Y).length < rd16 l1 l0) := by omega
                    simp only [rstep, hpt, g1, g2, hsz, g3, g4, if_false, take_append_of_le _ _ _ hle,
                      drop_append_of_le _ _ _ hle, hcrc, ne_eq, not_true_eq_false]
                    cases validateRecord (h0 &&& recTypeMask) st.i <;> rfl
                  have hs : h0 :: l1 :: l0 :: c3 :: c2 :: c1 :: c0 :: s2 =
                      h0 :: l1 :: l0 :: c3 :: c2 :: c1 :: c0 :: (s2.take (rd16 l1 l0) ++ s2.drop (rd16 l1 l0)) := by
                    rw [List.take_append_drop]
                  have k1 := key (s2.drop (rd16 l1 l0))
                  rw [← hs] at k1
                  rw [k1]
                  cases hv : validateRecord (h0 &&& recTypeMask) st.i with
                  | some e => simp
                  | none =>
                    by_cases hfin : (h0 &&& recTypeMask) = recLast ∨ (h0 &&& recTypeMask) = recFull
                    · by_cases hcomp : h0 &&& snappyMask = snappyMask ∨ h0 &&& zstdMask = zstdMask
                      · simp [hfin, hcomp]
                      · simp only [hfin, hcomp, if_true, if_false]
                        refine ⟨h0 :: l1 :: l0 :: c3 :: c2 :: c1 :: c0 :: s2.take (rd16 l1 l0), by simp,
                          by simpa using hs, by simp [List.length_take]; omega, fun X => ?_⟩
                        have := key X
                        simp only [hv, hfin, hcomp, if_true, if_false] at this
                        simpa using this
                    · simp only [hfin, if_false]
                      refine ⟨h0 :: l1 :: l0 :: c3 :: c2 :: c1 :: c0 :: s2.take (rd16 l1 l0), by simp,
                        by simpa using hs, by simp [List.length_take]; omega, fun X => ?_⟩
                      have := key X
                      simp only [hv, hfin, if_false] at this
                      simpa using this


/-! ### Truncation: a prefix of the stream gives a prefix of the records -/

theorem rloop_done {ps : Nat} {crc : Crc} {st : RState} {s : Bytes} {status : Status}
    (h : rstep ps crc st s = .done status) : rloop ps crc st s = ([], status) := by
  rw [rloop]; simp [h]

/-- The plain `Reader` on the first `n` bytes of any stream returns a prefix of what it returns on the
    whole stream (for every reader state, every checksum function, well-formed stream or not). -/
theorem rloop_take_prefix (ps : Nat) (crc : Crc) :
    ∀ (m : Nat) (s : Bytes), s.length ≤ m → ∀ (st : RState) (n : Nat),
      (rloop ps crc st (s.take n)).1 <+: (rloop ps crc st s).1 := by
  intro m
  induction m with
  | zero =>
    intro s hs st n
    have : s = [] := List.eq_nil_of_length_eq_zero (by omega)
    subst this; simp
  | succ m ih =>
    intro s hs st n
    have hloc := rstep_local ps crc st (s.take n)
    unfold StepLocal at hloc
    have hsplit : s = s.take n ++ s.drop n := (List.take_append_drop n s).symm
    cases hr : rstep ps crc st (s.take n) with
    | done status => rw [rloop_done hr]; exact List.nil_prefix
    | cont st' rest =>
      rw [hr] at hloc
      obtain ⟨c, hc, hcs, htot, hX⟩ := hloc
      have hclen : 0 < c.length := List.length_pos_iff.mpr hc
      have hfull : rstep ps crc st s = .cont st' (rest ++ s.drop n) := by
        have := hX (rest ++ s.drop n)
        rwa [← List.append_assoc, ← hcs, ← hsplit] at this
      have hl1 : rest.length < (s.take n).length := by rw [hcs]; simp; omega
      have hl2 : (rest ++ s.drop n).length < s.length := by
        have : s.length = (s.take n).length + (s.drop n).length := by rw [← List.length_append, ← hsplit]
        rw [List.length_append]; omega
      rw [rloop_of_cont hr hl1, rloop_of_cont hfull hl2]
      have := ih (rest ++ s.drop n) (by omega) st' rest.length
      rwa [List.take_left' rfl] at this
    | emit rec st' rest =>
      rw [hr] at hloc
      obtain ⟨c, hc, hcs, htot, hX⟩ := hloc
      have hclen : 0 < c.length := List.length_pos_iff.mpr hc
      have hfull : rstep ps crc st s = .emit rec st' (rest ++ s.drop n) := by
        have := hX (rest ++ s.drop n)
        rwa [← List.append_assoc, ← hcs, ← hsplit] at this
      have hl1 : rest.length < (s.take n).length := by rw [hcs]; simp; omega
      have hl2 : (rest ++ s.drop n).length < s.length := by
        have : s.length = (s.take n).length + (s.drop n).length := by rw [← List.length_append, ← hsplit]
        rw [List.length_append]; omega
      rw [rloop_of_emit hr hl1, rloop_of_emit hfull hl2]
      have := ih (rest ++ s.drop n) (by omega) st' rest.length
      rw [List.take_left' rfl] at this
      exact List.cons_prefix_cons.mpr ⟨rfl, this⟩

/-! ### Truncation followed by zero padding (the `segmentBufReader` of `Head.Init`) -/

/-- Reading nothing but zeros never returns a record. -/
theorem rloop_zeros_nil (ps : Nat) (crc : Crc) : ∀ (k : Nat) (st : RState), (rloop ps crc st (zeros k)).1 = [] := by
  intro k
  induction k using Nat.strongRecOn with
  | _ k ih =>
    intro st
    cases k with
    | zero => simp [zeros, rloop_nil]
    | succ k =>
      have hz : (0 : UInt8) &&& recTypeMask = recPageTerm := by decide
      have hs : zeros (k + 1) = (0 : UInt8) :: zeros k := by simp [zeros, List.replicate_succ]
      cases hr : rstep ps crc st (zeros (k + 1)) with
      | done status => rw [rloop_done hr]
      | emit rec st' rest =>
        exfalso
        rw [hs] at hr
        simp only [rstep, hz, if_true] at hr
        split at hr <;> try split at hr
        all_goals (try split at hr)
        all_goals (try split at hr)
        all_goals simp at hr
      | cont st' rest =>
        have hloc := rstep_local ps crc st (zeros (k + 1))
        unfold StepLocal at hloc
        rw [hr] at hloc
        obtain ⟨c, hc, hcs, _, _⟩ := hloc
        have hclen : 0 < c.length := List.length_pos_iff.mpr hc
        have hlen : (zeros (k + 1)).length = c.length + rest.length := by rw [hcs]; simp
        have hrest : rest = zeros rest.length := by
          have : rest = (zeros (k + 1)).drop c.length := by rw [hcs]; simp
          rw [this]; simp [zeros]
        have hl : rest.length < (zeros (k + 1)).length := by omega
        rw [rloop_of_cont hr hl, hrest]
        exact ih rest.length (by simp [zeros] at hlen; omega) st'

/-- The reader of `Head.Init` on a file cut at `n` bytes and zero padded: a prefix of what the whole stream
    gives, followed by at most one extra record (the fragment straddling the cut, completed by zeros). -/
theorem rloop_take_pad (ps : Nat) (crc : Crc) :
    ∀ (m : Nat) (s : Bytes), s.length ≤ m → ∀ (st : RState) (n k : Nat), n ≤ s.length →
      ∃ pre extra, (rloop ps crc st (s.take n ++ zeros k)).1 = pre ++ extra ∧
        pre <+: (rloop ps crc st s).1 ∧ extra.length ≤ 1 := by
  intro m
  induction m with
  | zero =>
    intro s hs st n k hn
    have : s = [] := List.eq_nil_of_length_eq_zero (by omega)
    subst this
    exact ⟨[], [], by simp [rloop_zeros_nil], List.nil_prefix, by simp⟩
  | succ m ih =>
    intro s hs st n k hn
    have hloc := rstep_local ps crc st (s.take n ++ zeros k)
    unfold StepLocal at hloc
    have htl : (s.take n).length = n := by simp [List.length_take]; omega
    cases hr : rstep ps crc st (s.take n ++ zeros k) with
    | done status => exact ⟨[], [], by rw [rloop_done hr]; rfl, List.nil_prefix, by simp⟩
    | cont st' rest =>
      rw [hr] at hloc
      obtain ⟨c, hc, hcs, htot, hX⟩ := hloc
      have hclen : 0 < c.length := List.length_pos_iff.mpr hc
      have hl1 : rest.length < (s.take n ++ zeros k).length := by rw [hcs]; simp; omega
      rw [rloop_of_cont hr hl1]
      by_cases hcn : c.length ≤ n
      · -- the step lies inside the real bytes: the same step on the whole stream
        have hc1 : c = s.take c.length := by
          have h1 : (c ++ rest).take c.length = c := List.take_left' rfl
          rw [← hcs, List.take_append_of_le_length (by omega), List.take_take, Nat.min_eq_left hcn] at h1
          exact h1.symm
        have hcd : c ++ s.drop c.length = s := by
          have := List.take_append_drop c.length s
          rwa [← hc1] at this
        have hrest : rest = (s.drop c.length).take (n - c.length) ++ zeros k := by
          have := congrArg (List.drop c.length) hcs
          rw [List.drop_left' rfl, List.drop_append_of_le_length (by omega), List.drop_take] at this
          exact this.symm
        have hfull : rstep ps crc st s = .cont st' (s.drop c.length) := by
          have := hX (s.drop c.length)
          rwa [hcd] at this
        have hl2 : (s.drop c.length).length < s.length := by simp; omega
        rw [rloop_of_cont hfull hl2, hrest]
        exact ih (s.drop c.length) (by simp; omega) st' (n - c.length) k (by simp; omega)
      · -- the step straddles the cut: only zeros remain
        have hrest : rest = zeros rest.length := by
          have h1 : (c ++ rest).drop c.length = rest := List.drop_left' rfl
          obtain ⟨j, hj⟩ : ∃ j, c.length = (s.take n).length + j := ⟨c.length - n, by omega⟩
          rw [← hcs, hj, List.drop_append] at h1
          rw [← h1]; simp [zeros]
        exact ⟨[], [], by rw [hrest, rloop_zeros_nil]; rfl, List.nil_prefix, by simp⟩
    | emit rec st' rest =>
      rw [hr] at hloc
      obtain ⟨c, hc, hcs, htot, hX⟩ := hloc
      have hclen : 0 < c.length := List.length_pos_iff.mpr hc
      have hl1 : rest.length < (s.take n ++ zeros k).length := by rw [hcs]; simp; omega
      rw [rloop_of_emit hr hl1]
      by_cases hcn : c.length ≤ n
      · have hc1 : c = s.take c.length := by
          have h1 : (c ++ rest).take c.length = c := List.take_left' rfl
          rw [← hcs, List.take_append_of_le_length (by omega), List.take_take, Nat.min_eq_left hcn] at h1
          exact h1.symm
        have hcd : c ++ s.drop c.length = s := by
          have := List.take_append_drop c.length s
          rwa [← hc1] at this
        have hrest : rest = (s.drop c.length).take (n - c.length) ++ zeros k := by
          have := congrArg (List.drop c.length) hcs
          rw [List.drop_left' rfl, List.drop_append_of_le_length (by omega), List.drop_take] at this
          exact this.symm
        have hfull : rstep ps crc st s = .emit rec st' (s.drop c.length) := by
          have := hX (s.drop c.length)
          rwa [hcd] at this
        have hl2 : (s.drop c.length).length < s.length := by simp; omega
        rw [rloop_of_emit hfull hl2, hrest]
        obtain ⟨pre, extra, e, hp, hx⟩ := ih (s.drop c.length) (by simp; omega) st' (n - c.length) k (by simp; omega)
        exact ⟨rec :: pre, extra, by simp [e], List.cons_prefix_cons.mpr ⟨rfl, hp⟩, hx⟩
      · have hrest : rest = zeros rest.length := by
          have h1 : (c ++ rest).drop c.length = rest := List.drop_left' rfl
          obtain ⟨j, hj⟩ : ∃ j, c.length = (s.take n).length + j := ⟨c.length - n, by omega⟩
          rw [← hcs, hj, List.drop_append] at h1
          rw [← h1]; simp [zeros]
        exact ⟨[], [rec], by rw [hrest, rloop_zeros_nil]; rfl, List.nil_prefix, by simp⟩

/-! ### The reader loop with offsets -/

theorem rloopE_fst (ps : Nat) (crc : Crc) :
    ∀ (m : Nat) (s : Bytes), s.length ≤ m → ∀ (st : RState),
      (rloopE ps crc st s).1.map Prod.fst = (rloop ps crc st s).1 ∧ (rloopE ps crc st s).2 = (rloop ps crc st s).2 := by
  intro m
  induction m with
  | zero =>
    intro s hs st
    have : s = [] := List.eq_nil_of_length_eq_zero (by omega)
    subst this
    rw [rloopE, rloop]; simp [rstep]
  | succ m ih =>
    intro s hs st
    rw [rloopE, rloop]
    cases hr : rstep ps crc st s with
    | done status => simp
    | cont st' rest =>
      by_cases hl : rest.length < s.length
      · simp only [hl, if_true]; exact ih rest (by omega) st'
      · simp [hl]
    | emit rec st' rest =>
      by_cases hl : rest.length < s.length
      · simp only [hl, if_true]
        have := ih rest (by omega) st'
        simp [this.1, this.2]
      · simp [hl]

theorem rloopE_done {ps : Nat} {crc : Crc} {st : RState} {s : Bytes} {status : Status}
    (h : rstep ps crc st s = .done status) : rloopE ps crc st s = ([], status) := by
  rw [rloopE]; simp [h]

theorem rloopE_of_cont {ps : Nat} {crc : Crc} {st st' : RState} {s rest : Bytes}
    (h : rstep ps crc st s = .cont st' rest) (hl : rest.length < s.length) :
    rloopE ps crc st s = rloopE ps crc st' rest := by
  rw [rloopE]; simp [h, hl]

theorem rloopE_of_emit {ps : Nat} {crc : Crc} {st st' : RState} {s rest rec : Bytes}
    (h : rstep ps crc st s = .emit rec st' rest) (hl : rest.length < s.length) :
    rloopE ps crc st s = ((rec, st'.total) :: (rloopE ps crc st' rest).1, (rloopE ps crc st' rest).2) := by
  rw [rloopE]; simp [h, hl]

/-- `Reader.Offset()` after a record never exceeds the bytes available. -/
theorem rloopE_off_le (ps : Nat) (crc : Crc) :
    ∀ (m : Nat) (s : Bytes), s.length ≤ m → ∀ (st : RState),
      ∀ p ∈ (rloopE ps crc st s).1, p.2 ≤ st.total + s.length := by
  intro m
  induction m with
  | zero =>
    intro s hs st p hp
    have : s = [] := List.eq_nil_of_length_eq_zero (by omega)
    subst this
    rw [rloopE] at hp; simp [rstep] at hp
  | succ m ih =>
    intro s hs st p hp
    have hloc := rstep_local ps crc st s
    unfold StepLocal at hloc
    cases hr : rstep ps crc st s with
    | done status => rw [rloopE_done hr] at hp; simp at hp
    | cont st' rest =>
      rw [hr] at hloc
      obtain ⟨c, hc, hcs, htot, _⟩ := hloc
      have hclen : 0 < c.length := List.length_pos_iff.mpr hc
      have hlen : s.length = c.length + rest.length := by rw [hcs]; simp
      rw [rloopE_of_cont hr (by omega)] at hp
      have := ih rest (by omega) st' p hp
      omega
    | emit rec st' rest =>
      rw [hr] at hloc
      obtain ⟨c, hc, hcs, htot, _⟩ := hloc
      have hclen : 0 < c.length := List.length_pos_iff.mpr hc
      have hlen : s.length = c.length + rest.length := by rw [hcs]; simp
      rw [rloopE_of_emit hr (by omega)] at hp
      simp only [List.mem_cons] at hp
      rcases hp with hp | hp
      · subst hp; simp only; omega
      · have := ih rest (by omega) st' p hp
        omega

/-- Truncation, with offsets: the records (and their end offsets) read from a prefix of the stream are a
    prefix of those read from the whole stream. -/
theorem rloopE_take_prefix (ps : Nat) (crc : Crc) :
    ∀ (m : Nat) (s : Bytes), s.length ≤ m → ∀ (st : RState) (n : Nat),
      (rloopE ps crc st (s.take n)).1 <+: (rloopE ps crc st s).1 := by
  intro m
  induction m with
  | zero =>
    intro s hs st n
    have : s = [] := List.eq_nil_of_length_eq_zero (by omega)
    subst this; simp
  | succ m ih =>
    intro s hs st n
    have hloc := rstep_local ps crc st (s.take n)
    unfold StepLocal at hloc
    have hsplit : s = s.take n ++ s.drop n := (List.take_append_drop n s).symm
    cases hr : rstep ps crc st (s.take n) with
    | done status => rw [rloopE_done hr]; exact List.nil_prefix
    | cont st' rest =>
      rw [hr] at hloc
      obtain ⟨c, hc, hcs, _, hX⟩ := hloc
      have hclen : 0 < c.length := List.length_pos_iff.mpr hc
      have hfull : rstep ps crc st s = .cont st' (rest ++ s.drop n) := by
        have := hX (rest ++ s.drop n)
        rwa [← List.append_assoc, ← hcs, ← hsplit] at this
      have hl1 : rest.length < (s.take n).length := by rw [hcs]; simp; omega
      have hl2 : (rest ++ s.drop n).length < s.length := by
        have : s.length = (s.take n).length + (s.drop n).length := by rw [← List.length_append, ← hsplit]
        rw [List.length_append]; omega
      rw [rloopE_of_cont hr hl1, rloopE_of_cont hfull hl2]
      have := ih (rest ++ s.drop n) (by omega) st' rest.length
      rwa [List.take_left' rfl] at this
    | emit rec st' rest =>
      rw [hr] at hloc
      obtain ⟨c, hc, hcs, _, hX⟩ := hloc
      have hclen : 0 < c.length := List.length_pos_iff.mpr hc
      have hfull : rstep ps crc st s = .emit rec st' (rest ++ s.drop n) := by
        have := hX (rest ++ s.drop n)
        rwa [← List.append_assoc, ← hcs, ← hsplit] at this
      have hl1 : rest.length < (s.take n).length := by rw [hcs]; simp; omega
      have hl2 : (rest ++ s.drop n).length < s.length := by
        have : s.length = (s.take n).length + (s.drop n).length := by rw [← List.length_append, ← hsplit]
        rw [List.length_append]; omega
      rw [rloopE_of_emit hr hl1, rloopE_of_emit hfull hl2]
      have := ih (rest ++ s.drop n) (by omega) st' rest.length
      rw [List.take_left' rfl] at this
      exact List.cons_prefix_cons.mpr ⟨rfl, this⟩

theorem takeWhile_append_all {α} (p : α → Bool) : ∀ (l1 l2 : List α), (∀ a ∈ l1, p a = true) →
    (l1 ++ l2).takeWhile p = l1 ++ l2.takeWhile p := by
  intro l1
  induction l1 with
  | nil => intro l2 _; rfl
  | cons a l1 ih =>
    intro l2 h
    have ha := h a (List.mem_cons_self ..)
    simp only [List.cons_append, List.takeWhile_cons, ha, if_true]
    rw [ih l2 (fun b hb => h b (List.mem_cons_of_mem _ hb))]

/-- **Repair keeps everything that lies before the corruption**: if the file starts with bytes `good` that
    read (on their own) as the records `out`, and the corruption offset is beyond them, all of `out` is
    re-inserted, in order, before anything else. -/
theorem keptRecs_keeps_good (ps : Nat) (crc : Crc) (good junk : Bytes) (out : List Bytes) (off : Nat)
    (hgood : (rloop ps crc RState.init good).1 = out) (hoff : good.length < off) :
    out <+: keptRecs ps crc (good ++ junk) off := by
  have hpre := rloopE_take_prefix ps crc (good ++ junk).length (good ++ junk) (Nat.le_refl _) RState.init good.length
  rw [List.take_left' rfl] at hpre
  obtain ⟨t, ht⟩ := hpre
  have hall : ∀ a ∈ (rloopE ps crc RState.init good).1, decide (a.2 < off) = true := by
    intro a ha
    have := rloopE_off_le ps crc good.length good (Nat.le_refl _) RState.init a ha
    simp only [RState.init] at this
    simp; omega
  unfold keptRecs
  rw [← ht, takeWhile_append_all _ _ _ hall, List.map_append,
    (rloopE_fst ps crc good.length good (Nat.le_refl _) RState.init).1, hgood]
  exact List.prefix_append _ _

/-- The records `Repair` keeps are a prefix of what the plain reader returns on the damaged file. -/
theorem keptRecs_prefix (ps : Nat) (crc : Crc) (seg : Bytes) (off : Nat) :
    keptRecs ps crc seg off <+: (rloop ps crc RState.init seg).1 := by
  unfold keptRecs
  rw [← (rloopE_fst ps crc seg.length seg (Nat.le_refl _) RState.init).1]
  obtain ⟨t, ht⟩ := List.takeWhile_prefix (fun p : Bytes × Nat => decide (p.2 < off))
    (l := (rloopE ps crc RState.init seg).1)
  exact ⟨t.map Prod.fst, by rw [← List.map_append, ht]⟩


/-! ### One damaged byte inside a checksummed payload -/

theorem be32_inj (a b : UInt32) (h : be32 a = be32 b) : a = b := by
  simp only [be32, List.cons.injEq, and_true] at h
  obtain ⟨h3, h2, h1, h0⟩ := h
  have e3 := congrArg UInt8.toNat h3
  have e2 := congrArg UInt8.toNat h2
  have e1 := congrArg UInt8.toNat h1
  have e0 := congrArg UInt8.toNat h0
  simp [UInt32.toNat_toUInt8, UInt32.toNat_shiftRight, Nat.shiftRight_eq_div_pow] at e3 e2 e1 e0
  apply UInt32.toNat_inj.mp
  have ha := a.toNat_lt
  have hb := b.toNat_lt
  omega

/-- A fragment whose payload `d` was replaced by `d'` on disk; the header (type, length, checksum of the
    original payload) is intact. -/
def damagedFrame (crc : Crc) (typ : UInt8) (d d' : Bytes) : Bytes :=
  typ :: (be16 d.length ++ be32 (crc d) ++ d')

/-- The reader stops at such a fragment with a checksum error as soon as the checksums differ. -/
theorem rstep_damaged (ps : Nat) (crc : Crc) (st : RState) (typ : UInt8) (d d' rest : Bytes)
    (hty : DataTyp typ) (hlen : d.length ≤ ps - 7) (h16 : d.length < 65536)
    (hl : d'.length = d.length) (hne : crc d' ≠ crc d) :
    rstep ps crc st (damagedFrame crc typ d d' ++ rest) = .done (.err .crc (st.total + 7 + d.length)) := by
  have hmask : typ &&& recTypeMask = typ := by
    rcases hty with h | h | h | h <;> subst h <;> decide
  have hne0 : typ ≠ recPageTerm := by
    rcases hty with h | h | h | h <;> subst h <;> decide
  have hrd := rd16_be16 d.length h16
  have hcrc : be32 (crc d') ≠ be32 (crc d) := fun h => hne (be32_inj _ _ h)
  simp only [damagedFrame, be16, be32, List.cons_append, List.nil_append, rstep, hmask, hne0, if_false]
  simp only [hrd, hdrSize, List.length_cons, List.length_append]
  have h1 : ¬ (d'.length + rest.length + 1 + 1 + 1 + 1 + 1 + 1 = 0) := by omega
  have h2 : ¬ (d'.length + rest.length + 1 + 1 + 1 + 1 + 1 + 1 < 6) := by omega
  have h3 : ¬ (d.length > ps - 7) := by omega
  have h4 : ¬ (d.length > 0 ∧ d'.length + rest.length = 0) := by omega
  have h5 : ¬ (d'.length + rest.length < d.length) := by omega
  have ht : List.take d.length (d' ++ rest) = d' := by rw [← hl]; exact List.take_left' rfl
  simp only [be32] at hcrc
  simp only [h1, h2, h3, h4, h5, if_false, ht, ne_eq, hcrc, not_false_eq_true, if_true]

/-! ### A whole page of zeros, and the state of the log after `Repair` -/

theorem rstep_zero_page (ps : Nat) (crc : Crc) (st : RState) (rest : Bytes) (h8 : 8 ≤ ps)
    (ha : st.total % ps = 0) :
    rstep ps crc st (zeros ps ++ rest) = .cont { st with total := st.total + ps, typ := recPageTerm } rest := by
  obtain ⟨n, hn⟩ : ∃ n, ps = n + 1 := ⟨ps - 1, by omega⟩
  have hz : (0 : UInt8) &&& recTypeMask = recPageTerm := by decide
  have hm : (st.total + 1) % ps = 1 := mod_add_lt ha (by omega)
  have hzs : zeros ps = (0 : UInt8) :: List.replicate n 0 := by simp [zeros, hn, List.replicate_succ]
  rw [hzs]
  simp only [List.cons_append, rstep, hz, if_true]
  have hk : ps - 1 = n := by omega
  have hne : ¬ (n = ps) := by omega
  simp only [hm, hk, hne, if_false, List.length_append, List.length_replicate]
  have h2 : ¬ (n + rest.length = 0) := by omega
  have h3 : ¬ (n + rest.length < n) := by omega
  have htake : List.take n (List.replicate n (0 : UInt8) ++ rest) = List.replicate n 0 :=
    List.take_left' (by simp)
  have hdrop : List.drop n (List.replicate n (0 : UInt8) ++ rest) = rest :=
    List.drop_left' (by simp)
  simp [h2, h3, htake, hdrop, List.any_replicate]
  have hn0 : ¬ (n = 0 ∧ rest = []) := by omega
  simp only [hn0, if_false]
  congr 2; omega

theorem Reads.zeroPage {ps : Nat} (crc : Crc) (h8 : 8 ≤ ps) : Reads ps crc 0 (zeros ps) 0 [] := by
  intro t ty rest ht hty
  have hz := rstep_zero_page ps crc ⟨t, 0, [], ty⟩ rest h8 ht
  refine ⟨recPageTerm, ⟨by decide, by decide⟩, ?_, ?_⟩
  · simp only [Wal.zeros, List.length_replicate]; exact mod_add_eq ht (by omega)
  · rw [rloop_of_cont hz (by simp [Wal.zeros]; omega)]
    simp [prep, Wal.zeros]

/-- `flushPage(true)` on a complete chunk gives a complete page-aligned chunk. -/
theorem Reads.forcePad {ps : Nat} {crc : Crc} (h8 : 8 ≤ ps) {cur : Bytes} {a : Nat} {rs : List Bytes}
    (ha : a + 7 ≤ ps) (h : Reads ps crc 0 cur a rs) : Reads ps crc 0 (forcePad ps cur) 0 rs := by
  have hmod : cur.length % ps = a := h.end_mod
  unfold Damage.forcePad
  rw [hmod]
  by_cases hz : a > 0
  · simpa using Reads.append h (Reads.zeros crc hz (by omega))
  · have : a = 0 := by omega
    subst this
    simpa using Reads.append h (Reads.zeroPage crc h8)

/-- The writer state right after `Repair`: older segments, the rewritten segment(s), an empty active one. -/
def afterRepair (ps pps : Nat) (crc : Crc) (older : List Bytes) (kept : List Bytes) : WState :=
  ⟨older ++ rewrite ps pps crc kept, []⟩

theorem Inv.afterRepair {ps : Nat} {crc : Crc} (pps : Nat) (h8 : 8 ≤ ps) (hmax : ps ≤ 65542)
    (older : List (Bytes × List Bytes)) (holder : ∀ p ∈ older, Reads ps crc 0 p.1 0 p.2)
    (kept : List Bytes) :
    Inv ps crc (Damage.afterRepair ps pps crc (older.map Prod.fst) kept)
      ((older.map Prod.snd).flatten ++ kept) := by
  have hinv := Inv.logBatch pps h8 hmax kept (Inv.init ps crc h8)
  simp only [List.nil_append] at hinv
  obtain ⟨sr, rsCur, a, hdone, hsr, ha, hcur, hrecs⟩ := hinv
  refine ⟨older ++ sr ++ [(forcePad ps (kept.foldl (logRec ps pps crc) WState.init).cur, rsCur)], [], 0,
    ?_, ?_, by omega, Reads.nil ps crc 0, ?_⟩
  · simp only [Damage.afterRepair, rewrite, Wal.logBatch] at *
    simp [hdone]
  · intro p hp
    rcases List.mem_append.mp hp with hp | hp
    · rcases List.mem_append.mp hp with hp | hp
      · exact holder p hp
      · exact hsr p hp
    · simp only [List.mem_singleton] at hp
      subst hp
      exact Reads.forcePad h8 ha hcur
  · simp [← hrecs, List.append_assoc]

end Prom.Damage
