import PromProofs.QuantileList
/-
  Helper lemmas for C32, part 3: the loop of `HistogramFraction` for the interval (-Inf, +Inf).
-/
namespace Prom.Quantile
open FOps

theorem XR.le_ninf (x : XR) (h : x ≠ .nan) : XR.le .ninf x = true := by
  cases x <;> simp_all [XR.le, XR.lt, XR.beq]
theorem XR.le_pinf (x : XR) (h : x ≠ .pinf) : XR.le .pinf x = false := by
  cases x <;> simp_all [XR.le, XR.lt, XR.beq]
theorem XR.lt_pinf (x : XR) : XR.lt .pinf x = false := by
  cases x <;> simp [XR.lt]

/-- lower bound of a bucket is a number or -Inf -/
def LowerOk (b : NBucket XR) : Prop := b.lower ≠ .nan ∧ b.lower ≠ .pinf

theorem hfLoop_total_step (fb : XR → XR → XR → XR) (h : NHist XR) :
    ∀ (bs : List (NBucket XR)) (st : FrSt XR), (∀ b ∈ bs, LowerOk b) →
      st.lowerSet = true → st.lowerRank = .fin 0 → st.upperSet = false →
      (hfLoop fb h .ninf .pinf st bs).lowerSet = true ∧ (hfLoop fb h .ninf .pinf st bs).lowerRank = .fin 0 ∧
      (hfLoop fb h .ninf .pinf st bs).upperSet = false := by
  intro bs
  induction bs with
  | nil => intro st _ h1 h2 h3; simp [hfLoop, h1, h2, h3]
  | cons b bs ih =>
    intro st hb h1 h2 h3
    have hbs : ∀ x ∈ bs, LowerOk x := fun x hx => hb x (List.mem_cons_of_mem _ hx)
    obtain ⟨hl1, hl2⟩ := hb b (List.mem_cons_self ..)
    unfold hfLoop
    extract_lets isZeroB b' interp st1 st2 st3 st4
    have hb' : b'.lower ≠ .pinf := by
      simp only [b']
      split
      · split
        · simp
        · split <;> simp [hl2]
      · exact hl2
    have e1 : st1 = st := by simp [st1, h1]
    have e2 : st2 = st := by simp [st2, e1, h3, XR.le_pinf _ hb']
    have e3 : st3 = st := by simp [st3, e2, h1]
    have e4 : st4 = st := by simp [st4, e3, h3, XR.lt_pinf]
    simp only [e2, e4, h1, h3, Bool.and_false, Bool.false_eq_true, if_false]
    exact ih _ hbs rfl h2 rfl


/-- first iteration: the lower bound -Inf is "hit" at the first bucket with rank 0 -/
theorem hfLoop_total_first (fb : XR → XR → XR → XR) (h : NHist XR) (b : NBucket XR) (bs : List (NBucket XR))
    (hb : ∀ x ∈ b :: bs, LowerOk x) :
    let r := hfLoop fb h .ninf .pinf ⟨.fin 0, .fin 0, .fin 0, false, false⟩ (b :: bs)
    r.lowerSet = true ∧ r.lowerRank = .fin 0 ∧ r.upperSet = false := by
  have hbs : ∀ x ∈ bs, LowerOk x := fun x hx => hb x (List.mem_cons_of_mem _ hx)
  obtain ⟨hl1, hl2⟩ := hb b (List.mem_cons_self ..)
  intro r
  simp only [r]
  unfold hfLoop
  extract_lets isZeroB b' interp st1 st2 st3 st4
  have hb' : b'.lower ≠ .pinf ∧ b'.lower ≠ .nan := by
    simp only [b']
    split
    · split
      · simp
      · split <;> simp [hl1, hl2]
    · exact ⟨hl2, hl1⟩
  have e1 : st1 = ⟨.fin 0, .fin 0, .fin 0, true, false⟩ := by simp [st1, XR.le_ninf _ hb'.2]
  have e2 : st2 = ⟨.fin 0, .fin 0, .fin 0, true, false⟩ := by simp [st2, e1, XR.le_pinf _ hb'.1]
  have e3 : st3 = ⟨.fin 0, .fin 0, .fin 0, true, false⟩ := by simp [st3, e2]
  have e4 : st4 = ⟨.fin 0, .fin 0, .fin 0, true, false⟩ := by simp [st4, e3, XR.lt_pinf]
  simp only [e2, e4, Bool.and_false, Bool.false_eq_true, if_false]
  exact hfLoop_total_step fb h bs _ hbs rfl rfl rfl

/-- `histogram_fraction(-Inf, +Inf, h) = 1` for a histogram with at least one bucket, a finite positive
    Count and a Sum that is not NaN — whatever the buckets contain and whatever the interpolant `fb` is. -/
theorem fraction_total_one_aux (fb : XR → XR → XR → XR) (h : NHist XR) (N : Rat) (hN : h.count = .fin N) (hpos : 0 < N)
    (hsum : h.sum ≠ .nan) (hne : h.fwd ≠ []) (hb : ∀ x ∈ h.fwd, LowerOk x) :
    histogramFraction fb .ninf .pinf h = .fin 1 := by
  cases hf : h.fwd with
  | nil => exact absurd hf hne
  | cons b bs =>
    have key := hfLoop_total_first fb h b bs (by rw [← hf]; exact hb)
    simp only at key
    obtain ⟨k1, k2, k3⟩ := key
    have hs : XR.isNaN h.sum = false := by cases hh : h.sum <;> simp_all [XR.isNaN]
    have hN0 : N ≠ 0 := by grind
    have hlt : ¬ N < 0 := by grind
    simp [histogramFraction, hN, hf, k1, k2, k3, hs, XR.isNaN, XR.le, XR.lt, XR.beq, hN0, hlt, XR.div_fin _ _ hN0]
    have : N - 0 = N := by grind
    rw [this, Rat.div_def]; exact Rat.mul_inv_cancel N hN0

end Prom.Quantile
