import PromProofs.ExemplarsBase
/-
  Acceptance order: the ring read from `nextIndex` around is `k` free slots followed by the retained
  exemplars in the order they were accepted (`RingOrd`); `add` writes at `nextIndex`.
-/
namespace Prom.Exemplars

/-- Ring-order invariant with explicit witnesses. -/
def RingOrdW (r : Ring) (k : Nat) (acc : List (Nat × Ex)) : Prop :=
  (r.nextIndex < r.exs.length ∨ (r.exs.length = 0 ∧ r.nextIndex = 0)) ∧
  rot r = List.replicate k none ++ acc.map some

def RingOrd (r : Ring) : Prop := ∃ k acc, RingOrdW r k acc

theorem filterMap_id_replicate_none {α} (k : Nat) : (List.replicate k (none : Option α)).filterMap id = [] := by
  induction k with
  | zero => rfl
  | succ k ih => simp [List.replicate_succ]

theorem filterMap_id_map_some {α} (l : List α) : (l.map some).filterMap id = l := by
  induction l with
  | nil => rfl
  | cons a l ih => simp

theorem RingOrdW.absAcc {r : Ring} {k acc} (h : RingOrdW r k acc) : absAcc r = acc := by
  simp [Prom.Exemplars.absAcc, h.2, List.filterMap_append]

theorem rot_length (r : Ring) (h : r.nextIndex ≤ r.exs.length) : (rot r).length = r.exs.length := by
  simp [rot, contents]; omega

theorem RingOrdW.len {r : Ring} {k acc} (h : RingOrdW r k acc) : k + acc.length = r.exs.length := by
  have h1 := congrArg List.length h.2
  rw [rot_length] at h1
  · simp at h1; omega
  · rcases h.1 with h | h <;> omega

/-- Writing `x` at `nextIndex` and advancing rotates the view by one. -/
theorem rot_write' {α} (a b : List α) (y x : α) :
    ((a ++ y :: b).set a.length x).drop ((a.length + 1) % (a ++ y :: b).length)
      ++ ((a ++ y :: b).set a.length x).take ((a.length + 1) % (a ++ y :: b).length)
      = ((a ++ y :: b).drop a.length ++ (a ++ y :: b).take a.length).tail ++ [x] := by
  have hset : (a ++ y :: b).set a.length x = a ++ x :: b := by simp
  rw [hset]
  cases b with
  | nil => simp
  | cons z b =>
    have : (a.length + 1) % (a ++ y :: z :: b).length = a.length + 1 := by
      apply Nat.mod_eq_of_lt; simp
    rw [this]
    have e1 : a ++ x :: z :: b = (a ++ [x]) ++ (z :: b) := by simp
    have hl : (a ++ [x]).length = a.length + 1 := by simp
    rw [e1, ← hl, List.drop_left, List.take_left]
    simp

theorem rot_write {α} (c : List α) (ni : Nat) (x : α) (h : ni < c.length) :
    (c.set ni x).drop ((ni + 1) % c.length) ++ (c.set ni x).take ((ni + 1) % c.length)
      = (c.drop ni ++ c.take ni).tail ++ [x] := by
  have hc : c = c.take ni ++ c[ni] :: c.drop (ni + 1) := by
    rw [← List.drop_eq_getElem_cons h, List.take_append_drop]
  have hl : (c.take ni).length = ni := by simp; omega
  have := rot_write' (c.take ni) (c.drop (ni + 1)) c[ni] x
  rw [← hc, hl] at this
  exact this

theorem modify_modify_const {α} (l : List α) (i : Nat) (f g : α → α) (c : α) (h : ∀ a, g (f a) = c) :
    (l.modify i f).modify i g = l.modify i (fun _ => c) := by
  apply List.ext_getElem?; intro j
  simp only [List.getElem?_modify]
  cases l[j]? with
  | none => rfl
  | some a => by_cases hij : i = j <;> simp [hij, h]

theorem add_not_stored (r : Ring) (s : Nat) (e : Ex) (h : (add r s e).2 ≠ .stored) : (add r s e).1 = r := by
  revert h
  simp only [add]
  split
  · intro _; rfl
  · split
    · intro _; rfl
    · intro _; rfl
    · split
      · intro _; rfl
      · intro h; exact absurd rfl h

theorem add_stored_eq (r : Ring) (s : Nat) (e : Ex) (h : (add r s e).2 = .stored) :
    r.exs.length ≠ 0 ∧
    (add r s e).1 = store r s e (r.index s).isSome (oooCheck r (r.index s) e).1 (oooCheck r (r.index s) e).2 := by
  revert h
  simp only [add]
  split
  · intro h; cases h
  · rename_i hlen
    split
    · intro h; cases h
    · intro h; cases h
    · split
      · intro h; cases h
      · intro _; exact ⟨hlen, rfl⟩

theorem evict_slots (r : Ring) (s : Nat) (e : Ex) (b o : Bool) (ins : Nat) :
    slots (evict r s e b o ins).1 = (slots r).modify r.nextIndex (fun p => (p.1, none)) ∧
    (evict r s e b o ins).1.exs.length = r.exs.length ∧
    (evict r s e b o ins).1.nextIndex = r.nextIndex ∧
    (evict r s e b o ins).1.window = r.window := by
  have h1 := removeEx_slots r r.nextIndex
  have h2 := removeEx_length r r.nextIndex
  have h3 := removeEx_nextIndex r r.nextIndex
  have h4 := removeEx_window r r.nextIndex
  simp only [evict]
  split
  · rename_i href
    simp only [removeEx, href] at h1
    exact ⟨h1, rfl, rfl, rfl⟩
  · split
    · split <;> simp [h1, h2, h3, h4]
    · split <;> simp [h1, h2, h3, h4]

theorem store_data (r : Ring) (s : Nat) (e : Ex) (b o : Bool) (ins : Nat) :
    (store r s e b o ins).exs.length = r.exs.length ∧ (store r s e b o ins).window = r.window ∧
    (store r s e b o ins).nextIndex = (r.nextIndex + 1) % r.exs.length ∧
    slots (store r s e b o ins) = (slots r).modify r.nextIndex (fun _ => (e, some s)) := by
  have hev := evict_slots (if b = true then r else r.setIndex s (some ⟨some 0, some 0⟩)) s e b o ins
  have h0 : slots (if b = true then r else r.setIndex s (some ⟨some 0, some 0⟩)) = slots r := by split <;> simp
  have h0l : (if b = true then r else r.setIndex s (some ⟨some 0, some 0⟩)).exs.length = r.exs.length := by split <;> simp
  have h0n : (if b = true then r else r.setIndex s (some ⟨some 0, some 0⟩)).nextIndex = r.nextIndex := by split <;> simp
  have h0w : (if b = true then r else r.setIndex s (some ⟨some 0, some 0⟩)).window = r.window := by split <;> simp
  rw [h0, h0l, h0n, h0w] at hev
  obtain ⟨e1, e2, e3, e4⟩ := hev
  simp only [store, link_length, link_window, length_setRef, length_setEx,
          window_setRef, window_setEx, e2, e4]
  refine ⟨trivial, trivial, trivial, ?_⟩
  change slots (link _ s e _ _) = _
  rw [link_slots, slots_setRef, slots_setEx, e1]
  rw [modify_modify_const _ _ _ _ (e, some s) (by intro a; rfl)]
  rw [modify_modify_const _ _ _ _ (e, some s) (by intro a; rfl)]

theorem map_modify_const {α β} (l : List α) (i : Nat) (c : α) (f : α → β) :
    (l.modify i (fun _ => c)).map f = (l.map f).set i (f c) := by
  apply List.ext_getElem?; intro j
  simp only [List.getElem?_map, List.getElem?_modify, List.getElem?_set, List.length_map]
  by_cases hij : i = j
  · subst hij
    by_cases hl : i < l.length
    · simp [hl]
    · simp [hl]
  · simp [hij]

theorem lastN_all {α} (n : Nat) (xs : List α) (h : xs.length ≤ n) : lastN n xs = xs := by
  simp [lastN, Nat.sub_eq_zero_of_le h]

/-- A stored `add` writes the slot at `nextIndex` and advances: free slots are used first, then the
    oldest accepted exemplar is the one overwritten. -/
theorem add_ringOrd (r : Ring) (s : Nat) (e : Ex) (k : Nat) (acc : List (Nat × Ex))
    (h : RingOrdW r k acc) (hst : (add r s e).2 = .stored) :
    RingOrdW (add r s e).1 (k - 1) (lastN r.exs.length (acc ++ [(s, e)])) := by
  obtain ⟨hlen, heq⟩ := add_stored_eq r s e hst
  rw [heq]
  obtain ⟨d1, _, d3, d4⟩ := store_data r s e (r.index s).isSome (oooCheck r (r.index s) e).1 (oooCheck r (r.index s) e).2
  have hni : r.nextIndex < r.exs.length := by rcases h.1 with h1 | h1 <;> omega
  have hk := h.len
  refine ⟨?_, ?_⟩
  · left; rw [d3, d1]; exact Nat.mod_lt _ (by omega)
  · have hc : contents (store r s e (r.index s).isSome (oooCheck r (r.index s) e).1 (oooCheck r (r.index s) e).2)
        = (contents r).set r.nextIndex (some (s, e)) := by
      rw [contents_eq_slots, d4, map_modify_const, ← contents_eq_slots]; rfl
    have hcl : (contents r).length = r.exs.length := by simp [contents]
    unfold rot
    rw [hc, d3, ← hcl, rot_write (contents r) r.nextIndex (some (s, e)) (by omega)]
    have hrot : (contents r).drop r.nextIndex ++ (contents r).take r.nextIndex = rot r := rfl
    rw [hrot, h.2]
    cases k with
    | zero =>
      cases acc with
      | nil => simp at hk; omega
      | cons a t =>
        simp at hk
        have : lastN (contents r).length (a :: t ++ [(s, e)]) = t ++ [(s, e)] := by
          simp [lastN, hcl, ← hk]
        rw [this]; simp
    | succ k' =>
      rw [lastN_all]
      · simp [List.replicate_succ]
      · simp; omega
end Prom.Exemplars
