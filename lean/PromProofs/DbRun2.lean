import PromProofs.DbTombs
/-
  C01 refinement: histories with deletions under DECIDABLE side conditions only (the coverage
  hypothesis `CoverHyp` of `DbRun.runOk` is discharged by the tombstone invariant `TInv`).
-/
namespace Prom.Db
open Prom.Intervals

/-- Boolean form of `resubmits` (finding F28). -/
def resubmitsB (d : Db) (i : Nat) (t : Int) : Bool :=
  match (d.getSeries i).phys.getLast? with
  | some l => decide (l.t = t) && !visible (d.getSeries i).tombs l
  | none => false

theorem resubmitsB_iff (d : Db) (i : Nat) (t : Int) : resubmitsB d i t = true ↔ resubmits d i t := by
  unfold resubmitsB resubmits
  cases h : (d.getSeries i).phys.getLast? with
  | none => simp
  | some l => simp

/-- `Good` together with the tombstone invariant. -/
structure Good2 (d : Db) (r : Ref) : Prop where
  good : Good d r
  tinv : TInv d

theorem good2_init (cfg : Cfg) (h0 : cfg.oooWin = 0) (h1 : 0 < cfg.chunkRange) : Good2 { cfg := cfg } {} :=
  ⟨good_init cfg h0 h1, tinv_init cfg⟩

/-- One step other than `reopen` preserves `Good2` under the decidable side conditions: no F28
    re-submission at `app`; `del`/`compact` with no appender open. -/
theorem step_preserves2 {d : Db} {r : Ref} (hG : Good2 d r) (op : Op) (hnr : op ≠ .reopen)
    (hok : match op with
      | .app s t _ => (MinI64 ≤ t ∧ t < MaxI64) ∧ ¬ resubmits d s t
      | .del _ _ _ => d.app = none
      | .compact => d.app = none
      | _ => True) :
    ∃ r', Ref.step r op (d.step op).2 = some r' ∧ Good2 (d.step op).1 r' := by
  have hT := hG.tinv
  have hG := hG.good
  cases op with
  | begin => exact ⟨_, rfl, begin_preserves hG, begin_tinv hT⟩
  | app s t v => exact ⟨_, rfl, append_preserves hG s t v hok.1 hok.2, append_tinv hT s t v hok.1.1⟩
  | commit => exact ⟨_, rfl, commit_preserves hG, commit_tinv hT⟩
  | rollback => exact ⟨_, rfl, rollback_preserves hG, rollback_tinv hT⟩
  | del a b sel =>
    have h := delete_tinv_and_preserves hG.inv hG.sim hT a b sel
    obtain ⟨e1, _, _, _, e5⟩ := delete_scalars d a b sel
    refine ⟨_, Ref.step_del r a b sel _, ⟨h.1, LastOk.of_no_pending ?_, h.2.1, ?_, ?_⟩, h.2.2⟩
    · show pendingOf (d.delete a b sel) = []
      unfold pendingOf; rw [e5, hok]
    · show (d.delete a b sel).cfg.oooWin = 0
      rw [e1]; exact hG.ooo
    · show 0 < (d.delete a b sel).cfg.chunkRange
      rw [e1]; exact hG.cr
  | compact => exact ⟨_, rfl, (compact_preserves hG hok).1, compact_tinv hG hT hok⟩
  | cleantomb => exact ⟨_, rfl, cleantomb_preserves hG, cleantomb_tinv hT⟩
  | reopen => exact absurd rfl hnr
  | q a b =>
    refine ⟨r, ?_, hG, hT⟩
    simp only [Db.step, Ref.step, query_matches hG.inv hG.sim a b, if_true]
  | win => exact ⟨_, rfl, hG, hT⟩

end Prom.Db
