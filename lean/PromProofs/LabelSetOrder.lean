import PromModel.Labels.LabelSet
/-
  Helper lemmas for C39: the byte order on strings is a strict total order; insertion sort.
-/
namespace Prom.Labels

theorem sbytes_inj {a b : String} (h : sbytes a = sbytes b) : a = b := by
  unfold sbytes at h
  have h1 : a.toUTF8.data = b.toUTF8.data := Array.toList_inj.mp h
  have h2 : a.toUTF8 = b.toUTF8 := ByteArray.ext h1
  exact String.toByteArray_inj.mp h2

theorem slt_iff {a b : String} : slt a b = true ↔ sbytes a < sbytes b := by
  simp [slt]

theorem slt_irrefl (a : String) : slt a a = false := by
  have := List.lt_irrefl (sbytes a)
  simp [slt, this]

theorem slt_trans {a b c : String} (h1 : slt a b = true) (h2 : slt b c = true) : slt a c = true := by
  rw [slt_iff] at *
  exact List.lt_trans h1 h2

theorem slt_asymm {a b : String} (h : slt a b = true) : slt b a = false := by
  rw [slt_iff] at h
  have := List.lt_asymm h
  simp [slt, this]

theorem slt_total {a b : String} (h : a ≠ b) : slt a b = true ∨ slt b a = true := by
  by_cases h1 : sbytes a < sbytes b
  · left; exact slt_iff.mpr h1
  · by_cases h2 : sbytes b < sbytes a
    · right; exact slt_iff.mpr h2
    · exfalso
      apply h
      apply sbytes_inj
      exact List.le_antisymm (List.not_lt.mp h2) (List.not_lt.mp h1)

theorem slt_ne {a b : String} (h : slt a b = true) : a ≠ b := by
  intro e; subst e; simp [slt_irrefl] at h

end Prom.Labels
