import PromModel.Promql.RateFns
/-
  Helper lemmas for C30 (core Lean only).
-/
namespace Prom.RateFns

theorem divNonneg {a b : Rat} (h : 0 ≤ a) (h2 : 0 ≤ b) : 0 ≤ a / b := by
  by_cases hb : b = 0
  · subst hb; simp [Rat.div_def]
  · have : 0 < b := by grind
    rw [Rat.div_def]; exact Rat.mul_nonneg h (Rat.le_of_lt (Rat.inv_pos.mpr this))

theorem rangeSeconds_exact (m : Int) : rangeSeconds .exact m = (m : Rat) / 1000 := by
  have h := Int.mul_ediv_add_emod m 1000
  have h2 : (m : Rat) = ((1000 * (m / 1000) + m % 1000 : Int) : Rat) := by rw [h]
  simp only [rangeSeconds, Arith.add, Arith.div, Arith.ofInt, Arith.exact, id]
  rw [h2]; push_cast; grind

theorem pairReset_eq (p c : Sample) : pairReset p c = Doc.isReset p c := rfl

/-- Telescoping: "last − first + Σ prev at resets" is the sum of the per-step increases. -/
theorem correctionLoop_exact (p : Sample) (rest : List Sample) (acc : Rat) :
    correctionLoop .exact (p :: rest) acc
      = acc + (Doc.rawIncrease (p :: rest) - (((p :: rest).getLast (by simp)).v - p.v)) := by
  induction rest generalizing p acc with
  | nil => simp [correctionLoop, Doc.rawIncrease]; grind
  | cons c r ih =>
    rw [correctionLoop, ih]
    simp only [Doc.rawIncrease, Doc.stepIncrease, pairReset_eq, Arith.add, Arith.exact, id,
      List.getLast_cons_cons]
    split <;> grind

theorem correctionLoop_raw (first : Sample) (rest : List Sample) :
    correctionLoop .exact (first :: rest) (((first :: rest).getLast (by simp)).v - first.v)
      = Doc.rawIncrease (first :: rest) := by
  rw [correctionLoop_exact]; grind

open Doc in
section
theorem exact_rnd (x : Rat) : Arith.exact.rnd x = x := rfl
theorem exact_c11 : Arith.exact.c11 = 11 / 10 := rfl

theorem finish_eq (isRate : Bool) (result dS S dE R : Rat) :
    result * (if isRate = true then (if S ≠ 0 then (S + dS + dE) / S else 1) / R
              else (if S ≠ 0 then (S + dS + dE) / S else 1))
      = (if isRate = true then (if S ≠ 0 then result * ((S + dS + dE) / S) else result) / R
         else (if S ≠ 0 then result * ((S + dS + dE) / S) else result)) := by
  cases isRate <;> by_cases h : S = 0 <;> simp [h] <;> grind

theorem extrapolated_eq_doc (isCounter isRate : Bool) (rs re rm : Int) (w : List Sample) :
    extrapolatedRate .exact isCounter isRate rs re rm w
      = ((Doc.pieces isCounter rs re w).map Doc.Pieces.increase).map
          (fun x => if isRate then x / ((rm : Rat) / 1000) else x) := by
  cases w with
  | nil => rfl
  | cons first rest =>
    cases isCounter
    · simp only [extrapolatedRate, Doc.pieces, Doc.piecesC, rangeSeconds_exact, Doc.rawDelta,
        Doc.limitExtrapolation, Arith.add, Arith.sub, Arith.mul, Arith.div, Arith.ofInt, exact_rnd, exact_c11,
        Bool.false_eq_true, false_and, if_false]
      generalize (first :: rest).getLast _ = last
      generalize (rest.length : Int) = n
      split
      · rfl
      · simp only [Option.map, Doc.Pieces.increase]
        rw [finish_eq]; congr
    · simp only [extrapolatedRate, Doc.pieces, Doc.piecesC, rangeSeconds_exact,
        Doc.limitExtrapolation, Arith.add, Arith.sub, Arith.mul, Arith.div, Arith.ofInt, exact_rnd, exact_c11,
        true_and, if_true, correctionLoop_raw]
      generalize (first :: rest).getLast _ = last
      generalize (rest.length : Int) = n
      generalize Doc.rawIncrease (first :: rest) = raw
      split
      · simp only [Option.map, Doc.Pieces.increase]
        rw [finish_eq]; congr
      · split
        · rfl
        · simp only [Option.map, Doc.Pieces.increase]
          rw [finish_eq]
          by_cases hc : raw > 0 ∧ first.v ≥ 0
          · simp only [hc, and_self, if_true]; congr
          · simp only [hc, if_false, Rat.lt_irrefl]; congr
end

end Prom.RateFns

namespace Prom.RateFns

/-- Hypotheses on a window handed over by the matrix selector: strictly increasing timestamps,
    all inside the left-open, right-closed range. -/
structure InWindow (rs re : Int) (w : List Sample) : Prop where
  sorted : w.Pairwise (fun a b => a.t < b.t)
  lo : ∀ s ∈ w, rs < s.t
  hi : ∀ s ∈ w, s.t ≤ re

theorem first_le_last (first : Sample) (rest : List Sample)
    (h : (first :: rest).Pairwise (fun a b => a.t < b.t)) :
    first.t ≤ ((first :: rest).getLast (by simp)).t := by
  cases rest with
  | nil => simp
  | cons c r =>
    have hm : (first :: c :: r).getLast (by simp) ∈ c :: r := by
      rw [List.getLast_cons_cons]; exact List.getLast_mem _
    have := (List.pairwise_cons.mp h).1 _ hm
    omega

theorem rawIncrease_nonneg (w : List Sample) (h : ∀ s ∈ w, 0 ≤ s.v) : 0 ≤ Doc.rawIncrease w := by
  induction w with
  | nil => simp [Doc.rawIncrease]
  | cons p rest ih =>
    cases rest with
    | nil => simp [Doc.rawIncrease]
    | cons c r =>
      have ih' := ih (fun s hs => h s (List.mem_cons_of_mem _ hs))
      have hc : 0 ≤ c.v := h c (by simp)
      simp only [Doc.rawIncrease, Doc.stepIncrease]
      by_cases hr : Doc.isReset p c = true
      · rw [if_pos hr]; grind
      · rw [if_neg hr]
        simp only [Doc.isReset, Bool.or_eq_true, decide_eq_true_eq, not_or] at hr
        grind

theorem castDiv_nonneg {a : Int} (h : 0 ≤ a) : (0 : Rat) ≤ (a : Rat) / 1000 :=
  divNonneg (Rat.intCast_nonneg.mpr h) (by decide)

theorem limit_nonneg {c avg d : Rat} (ha : 0 ≤ avg) (hd : 0 ≤ d) : 0 ≤ Doc.limitExtrapolation c avg d := by
  unfold Doc.limitExtrapolation; split
  · exact divNonneg ha (by decide)
  · exact hd

theorem limit_le {avg d : Rat} (ha : 0 ≤ avg) : Doc.limitExtrapolation (11 / 10) avg d ≤ avg * (11 / 10) := by
  unfold Doc.limitExtrapolation; split <;> grind

open Doc in
section
/-- average sample spacing in seconds -/
def avgSpacing (first last : Sample) (n : Int) : Rat :=
  if n > 0 then ((last.t - first.t : Int) : Rat) / 1000 / (n : Rat) else 0

theorem pieces_facts (isCounter : Bool) (rs re : Int) (first : Sample) (rest : List Sample)
    (hw : InWindow rs re (first :: rest)) (p : Doc.Pieces)
    (hp : Doc.pieces isCounter rs re (first :: rest) = some p) :
    0 ≤ p.sampled ∧ 0 ≤ p.extStart ∧ 0 ≤ p.extEnd ∧
    p.extStart ≤ avgSpacing first ((first :: rest).getLast (by simp)) rest.length * (11 / 10) ∧
    p.extEnd ≤ avgSpacing first ((first :: rest).getLast (by simp)) rest.length * (11 / 10) := by
  have hfl := first_le_last first rest hw.sorted
  have hlo := hw.lo first (by simp)
  have hhi := hw.hi _ (List.getLast_mem (l := first :: rest) (by simp))
  revert hp
  simp only [Doc.pieces, Doc.piecesC, avgSpacing]
  generalize (first :: rest).getLast _ = last at hfl hhi ⊢
  generalize (rest.length : Int) = n
  have hS : (0 : Rat) ≤ ((last.t - first.t : Int) : Rat) / 1000 := castDiv_nonneg (by omega)
  have hdS : (0 : Rat) ≤ ((first.t - rs : Int) : Rat) / 1000 := castDiv_nonneg (by omega)
  have hdE : (0 : Rat) ≤ ((re - last.t : Int) : Rat) / 1000 := castDiv_nonneg (by omega)
  generalize ((last.t - first.t : Int) : Rat) / 1000 = S at hS ⊢
  generalize ((first.t - rs : Int) : Rat) / 1000 = dS at hdS ⊢
  generalize ((re - last.t : Int) : Rat) / 1000 = dE at hdE ⊢
  have havg : 0 ≤ (if n > 0 then S / (n : Rat) else 0) := by
    split
    · exact divNonneg hS (Rat.intCast_nonneg.mpr (by omega))
    · exact Rat.le_refl
  generalize (if n > 0 then S / (n : Rat) else 0) = avg at havg ⊢
  have hE0 := limit_nonneg (c := 11 / 10) havg hdE
  have hE1 := limit_le (d := dE) havg
  have hS0 := limit_nonneg (c := 11 / 10) havg hdS
  have hS1 := limit_le (d := dS) havg
  split
  · rename_i hsc
    intro hp; injection hp with hp; subst hp
    have : (0 : Rat) ≤ ((last.t - first.st : Int) : Rat) / 1000 := castDiv_nonneg (by omega)
    refine ⟨this, Rat.le_refl, hE0, ?_, hE1⟩
    exact Rat.mul_nonneg havg (by grind)
  · split
    · intro hp; cases hp
    · intro hp; injection hp with hp; subst hp
      refine ⟨hS, ?_, hE0, ?_, hE1⟩
      all_goals
        generalize (if isCounter = true then rawIncrease (first :: rest) else rawDelta (first :: rest)) = raw
        generalize limitExtrapolation (11 / 10) avg dS = ext at hS0 hS1
        dsimp only
      · by_cases hc : isCounter = true ∧ raw > 0 ∧ first.v ≥ 0
        · rw [if_pos hc]
          by_cases hlt : S * (first.v / raw) < ext
          · rw [if_pos hlt]; exact Rat.mul_nonneg hS (divNonneg hc.2.2 (Rat.le_of_lt hc.2.1))
          · rw [if_neg hlt]; exact hS0
        · rw [if_neg hc]; exact hS0
      · by_cases hc : isCounter = true ∧ raw > 0 ∧ first.v ≥ 0
        · rw [if_pos hc]
          by_cases hlt : S * (first.v / raw) < ext
          · rw [if_pos hlt]; exact Rat.le_trans (Rat.le_of_lt hlt) hS1
          · rw [if_neg hlt]; exact hS1
        · rw [if_neg hc]; exact hS1

theorem pieces_raw_nonneg (rs re : Int) (w : List Sample) (hv : ∀ s ∈ w, 0 ≤ s.v) (p : Doc.Pieces)
    (hp : Doc.pieces true rs re w = some p) : 0 ≤ p.raw := by
  cases w with
  | nil => cases hp
  | cons first rest =>
    have hr := rawIncrease_nonneg (first :: rest) hv
    have hf : 0 ≤ first.v := hv first (by simp)
    revert hp
    simp only [Doc.pieces, Doc.piecesC, if_true]
    split
    · intro hp; injection hp with hp; subst hp; exact Rat.add_nonneg hr hf
    · split
      · intro hp; cases hp
      · intro hp; injection hp with hp; subst hp; exact hr

theorem increase_nonneg (p : Doc.Pieces) (h0 : 0 ≤ p.raw) (h1 : 0 ≤ p.sampled) (h2 : 0 ≤ p.extStart)
    (h3 : 0 ≤ p.extEnd) : 0 ≤ p.increase := by
  unfold Doc.Pieces.increase
  split
  · exact Rat.mul_nonneg h0 (divNonneg (Rat.add_nonneg (Rat.add_nonneg h1 h2) h3) h1)
  · exact h0
end

end Prom.RateFns
