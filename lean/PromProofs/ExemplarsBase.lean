import PromModel.Tsdb.Exemplars
/-
  Basic facts about the primitive updates of the exemplar ring model (`modN`, `setIndex`, …) and the
  effect of `removeEx` / `link` / `add` on the data part of the ring (`slots`: exemplar and `ref`
  of every slot), which is all the acceptance-order abstraction `absAcc` depends on.
-/
namespace Prom.Exemplars

/-- exemplar and owner of every slot (the links are dropped). -/
def slots (r : Ring) : List (Ex × Option Nat) := r.exs.map fun e => (e.ex, e.ref)

def slotOf (p : Ex × Option Nat) : Option (Nat × Ex) := p.2.map fun s => (s, p.1)

theorem contents_eq_slots (r : Ring) : contents r = (slots r).map slotOf := by
  simp [contents, slots, slotOf, Function.comp_def]

@[simp] theorem length_modN (r : Ring) (i : Nat) (f : Entry → Entry) :
    (r.modN i f).exs.length = r.exs.length := by simp [Ring.modN]

@[simp] theorem nextIndex_modN (r : Ring) (i : Nat) (f : Entry → Entry) :
    (r.modN i f).nextIndex = r.nextIndex := rfl
@[simp] theorem index_modN (r : Ring) (i : Nat) (f : Entry → Entry) :
    (r.modN i f).index = r.index := rfl
@[simp] theorem window_modN (r : Ring) (i : Nat) (f : Entry → Entry) :
    (r.modN i f).window = r.window := rfl

theorem getN_modN (r : Ring) (i j : Nat) (f : Entry → Entry) :
    (r.modN i f).getN j = if j = i ∧ i < r.exs.length then f (r.getN j) else r.getN j := by
  simp only [Ring.getN, Ring.modN, List.getD_eq_getElem?_getD, List.getElem?_modify]
  by_cases hj : j < r.exs.length
  · simp [List.getElem?_eq_getElem hj]; grind
  · simp [List.getElem?_eq_none (Nat.le_of_not_lt hj)]; grind

theorem slots_modN (r : Ring) (i : Nat) (f : Entry → Entry) (g : Ex × Option Nat → Ex × Option Nat)
    (h : ∀ e : Entry, ((f e).ex, (f e).ref) = g (e.ex, e.ref)) :
    slots (r.modN i f) = (slots r).modify i g := by
  apply List.ext_getElem?; intro j
  simp only [slots, Ring.modN, List.getElem?_map, List.getElem?_modify]
  cases r.exs[j]? with
  | none => simp
  | some e => by_cases hij : i = j <;> simp [hij, h]

theorem modify_id' {α} (l : List α) (i : Nat) : l.modify i (fun p => p) = l := by
  apply List.ext_getElem?; intro j
  simp [List.getElem?_modify]

@[simp] theorem slots_setNext (r : Ring) (i : Nat) (v : Option Nat) : slots (r.setNext i v) = slots r := by
  rw [Ring.setNext, slots_modN r i _ (fun p => p) (by intro e; rfl), modify_id']
@[simp] theorem slots_setPrev (r : Ring) (i : Nat) (v : Option Nat) : slots (r.setPrev i v) = slots r := by
  rw [Ring.setPrev, slots_modN r i _ (fun p => p) (by intro e; rfl), modify_id']
theorem slots_setRef (r : Ring) (i : Nat) (v : Option Nat) :
    slots (r.setRef i v) = (slots r).modify i (fun p => (p.1, v)) := by
  rw [Ring.setRef, slots_modN r i _ (fun p => (p.1, v)) (by intro e; rfl)]
theorem slots_setEx (r : Ring) (i : Nat) (v : Ex) :
    slots (r.setEx i v) = (slots r).modify i (fun p => (v, p.2)) := by
  rw [Ring.setEx, slots_modN r i _ (fun p => (v, p.2)) (by intro e; rfl)]
@[simp] theorem slots_setIndex (r : Ring) (s : Nat) (v : Option IdxEntry) : slots (r.setIndex s v) = slots r := rfl
@[simp] theorem slots_modIndex (r : Ring) (s : Nat) (f : IdxEntry → IdxEntry) : slots (r.modIndex s f) = slots r := rfl

@[simp] theorem length_setNext (r : Ring) (i : Nat) (v : Option Nat) : (r.setNext i v).exs.length = r.exs.length := by simp [Ring.setNext]
@[simp] theorem length_setPrev (r : Ring) (i : Nat) (v : Option Nat) : (r.setPrev i v).exs.length = r.exs.length := by simp [Ring.setPrev]
@[simp] theorem length_setRef (r : Ring) (i : Nat) (v : Option Nat) : (r.setRef i v).exs.length = r.exs.length := by simp [Ring.setRef]
@[simp] theorem length_setEx (r : Ring) (i : Nat) (v : Ex) : (r.setEx i v).exs.length = r.exs.length := by simp [Ring.setEx]
@[simp] theorem length_setIndex (r : Ring) (s : Nat) (v : Option IdxEntry) : (r.setIndex s v).exs.length = r.exs.length := rfl
@[simp] theorem length_modIndex (r : Ring) (s : Nat) (f : IdxEntry → IdxEntry) : (r.modIndex s f).exs.length = r.exs.length := rfl

@[simp] theorem nextIndex_setNext (r : Ring) (i : Nat) (v : Option Nat) : (r.setNext i v).nextIndex = r.nextIndex := rfl
@[simp] theorem nextIndex_setPrev (r : Ring) (i : Nat) (v : Option Nat) : (r.setPrev i v).nextIndex = r.nextIndex := rfl
@[simp] theorem nextIndex_setRef (r : Ring) (i : Nat) (v : Option Nat) : (r.setRef i v).nextIndex = r.nextIndex := rfl
@[simp] theorem nextIndex_setEx (r : Ring) (i : Nat) (v : Ex) : (r.setEx i v).nextIndex = r.nextIndex := rfl
@[simp] theorem nextIndex_setIndex (r : Ring) (s : Nat) (v : Option IdxEntry) : (r.setIndex s v).nextIndex = r.nextIndex := rfl
@[simp] theorem nextIndex_modIndex (r : Ring) (s : Nat) (f : IdxEntry → IdxEntry) : (r.modIndex s f).nextIndex = r.nextIndex := rfl

@[simp] theorem window_setNext (r : Ring) (i : Nat) (v : Option Nat) : (r.setNext i v).window = r.window := rfl
@[simp] theorem window_setPrev (r : Ring) (i : Nat) (v : Option Nat) : (r.setPrev i v).window = r.window := rfl
@[simp] theorem window_setRef (r : Ring) (i : Nat) (v : Option Nat) : (r.setRef i v).window = r.window := rfl
@[simp] theorem window_setEx (r : Ring) (i : Nat) (v : Ex) : (r.setEx i v).window = r.window := rfl
@[simp] theorem window_setIndex (r : Ring) (s : Nat) (v : Option IdxEntry) : (r.setIndex s v).window = r.window := rfl
@[simp] theorem window_modIndex (r : Ring) (s : Nat) (f : IdxEntry → IdxEntry) : (r.modIndex s f).window = r.window := rfl

/-- The part of the state the acceptance-order abstraction sees. -/
def data (r : Ring) : List (Ex × Option Nat) × Nat × Int := (slots r, r.nextIndex, r.window)

theorem slots_getElem? (r : Ring) (j : Nat) :
    (slots r)[j]? = (r.exs[j]?).map fun e => (e.ex, e.ref) := by simp [slots]

/-- `removeExemplar` clears the owner of the slot and touches no other exemplar/owner. -/
theorem removeEx_slots (r : Ring) (i : Nat) :
    slots (removeEx r i).1 = (slots r).modify i (fun p => (p.1, none)) := by
  unfold removeEx
  cases href : (r.getN i).ref with
  | none =>
    simp only [href]
    apply List.ext_getElem?; intro j
    simp only [List.getElem?_modify, slots_getElem?]
    cases hj : r.exs[j]? with
    | none => simp
    | some e =>
      simp
      intro hij; subst hij
      have : r.getN i = e := by simp [Ring.getN, List.getD_eq_getElem?_getD, hj]
      rw [this] at href; simp [href]
  | some s =>
    simp only [href]
    rw [slots_setRef]
    cases (r.getN i).prev <;> cases (r.getN i).next <;> simp

theorem removeEx_length (r : Ring) (i : Nat) : (removeEx r i).1.exs.length = r.exs.length := by
  simp only [removeEx]
  split
  · rfl
  · cases (r.getN i).prev <;> cases (r.getN i).next <;> simp

theorem removeEx_nextIndex (r : Ring) (i : Nat) : (removeEx r i).1.nextIndex = r.nextIndex := by
  simp only [removeEx]
  split
  · rfl
  · cases (r.getN i).prev <;> cases (r.getN i).next <;> simp

theorem removeEx_window (r : Ring) (i : Nat) : (removeEx r i).1.window = r.window := by
  simp only [removeEx]
  split
  · rfl
  · cases (r.getN i).prev <;> cases (r.getN i).next <;> simp

theorem link_slots (r : Ring) (s : Nat) (e : Ex) (b : Bool) (ins : Nat) :
    slots (link r s e b ins) = slots r := by
  unfold link
  simp only
  split
  · simp
  · split
    · cases ((r.index s).getD ⟨some 0, some 0⟩).newest <;> simp
    · split
      · cases ((r.index s).getD ⟨some 0, some 0⟩).oldest <;> simp
      · cases (r.getN ins).next <;> simp

theorem link_length (r : Ring) (s : Nat) (e : Ex) (b : Bool) (ins : Nat) :
    (link r s e b ins).exs.length = r.exs.length := by
  unfold link
  simp only
  split
  · simp
  · split
    · cases ((r.index s).getD ⟨some 0, some 0⟩).newest <;> simp
    · split
      · cases ((r.index s).getD ⟨some 0, some 0⟩).oldest <;> simp
      · cases (r.getN ins).next <;> simp

theorem link_nextIndex (r : Ring) (s : Nat) (e : Ex) (b : Bool) (ins : Nat) :
    (link r s e b ins).nextIndex = r.nextIndex := by
  unfold link
  simp only
  split
  · simp
  · split
    · cases ((r.index s).getD ⟨some 0, some 0⟩).newest <;> simp
    · split
      · cases ((r.index s).getD ⟨some 0, some 0⟩).oldest <;> simp
      · cases (r.getN ins).next <;> simp

theorem link_window (r : Ring) (s : Nat) (e : Ex) (b : Bool) (ins : Nat) :
    (link r s e b ins).window = r.window := by
  unfold link
  simp only
  split
  · simp
  · split
    · cases ((r.index s).getD ⟨some 0, some 0⟩).newest <;> simp
    · split
      · cases ((r.index s).getD ⟨some 0, some 0⟩).oldest <;> simp
      · cases (r.getN ins).next <;> simp

end Prom.Exemplars
