import PromModel.Promql.Parser
/-
  Property C26, parser layer: the precedence-climbing core of the model parser (`parseExpr` /
  `parseBinLoop` / `parseOperand`) reads a token list that is laid out like the printer's output of a
  tree back into that tree.

  `PT o e ts lv fb n`: the token list `ts` is the rendering of the (pre-`checkAST`) tree `e`;
  `lv` = the highest `minPrec` at which `parseExpr` still returns the whole of `e`; `fb` = "follow bound":
  an operator that follows `e` must have precedence `< fb`, otherwise it would be absorbed into `e`'s
  right spine (`-a ^ b`, `a ^ b ^ c`); `n` = fuel that suffices.  Atoms (literals, selectors with their
  postfix modifiers, calls, aggregations) enter through `AtomParses`.
-/
namespace Prom.Promql

theorem parseExpr_succ_some (o : Opts) (F mp : Nat) (toks : List Tok) (a : Expr) (r : List Tok)
    (h : parseOperand o F toks = some (a, r)) :
    parseExpr o (F + 1) mp toks = parseBinLoop o F mp a r := by
  simp [parseExpr, h]

theorem parseBinLoop_op_some (o : Opts) (F mp : Nat) (lhs : Expr) (op : BinOp) (t : Bytes) (rest r1 r2 : List Tok)
    (b : Bool) (vm : VM) (rhs : Expr) (h : mp ≤ op.prec)
    (h1 : parseBinModifier o rest = some ((b, vm), r1))
    (h2 : parseExpr o F (if op.rightAssoc then op.prec else op.prec + 1) r1 = some (rhs, r2)) :
    parseBinLoop o (F + 1) mp lhs (.op op t :: rest) = parseBinLoop o F mp (.bin op b (some vm) lhs rhs) r2 := by
  have : ¬ op.prec < mp := by omega
  simp [parseBinLoop, this, h1, h2]

/-- what may follow a complete expression: end of input, `)`, `,`, or an operator of precedence `< fb` -/
def Follow (fb : Nat) : List Tok → Prop
  | [] => True
  | .rparen :: _ => True
  | .comma :: _ => True
  | .op o _ :: _ => o.prec < fb
  | _ => False

theorem Follow.mono {a b : Nat} (h : a ≤ b) : ∀ {R : List Tok}, Follow a R → Follow b R
  | [], _ => trivial
  | .rparen :: _, _ => trivial
  | .comma :: _, _ => trivial
  | .op o _ :: _, hf => Nat.lt_of_lt_of_le hf h
  | .lparen :: _, hf | .lbrace :: _, hf | .rbrace :: _, hf | .lbracket :: _, hf | .rbracket :: _, hf
  | .colon :: _, hf | .eql :: _, hf | .at :: _, hf | .eqlRegex :: _, hf | .neqRegex :: _, hf
  | .number _ :: _, hf | .duration _ :: _, hf | .string _ :: _, hf | .ident _ :: _, hf
  | .metricIdent _ :: _, hf | .kw _ _ :: _, hf => hf.elim

theorem parseBinLoop_stop (o : Opts) (F mp : Nat) (lhs : Expr) (R : List Tok) (h : Follow mp R) :
    parseBinLoop o (F + 1) mp lhs R = some (lhs, R) := by
  unfold parseBinLoop
  split
  · rename_i op t rest
    simp [Follow] at h
    simp [h]
  · rfl

theorem parsePostfix_stop (o : Opts) (f fb : Nat) (e : Expr) (R : List Tok) (h : Follow fb R) :
    parsePostfix o (f + 1) e R = some (e, R) := by
  unfold parsePostfix
  split <;> simp_all [Follow]

/-- the first token cannot be mistaken for a binary-operator modifier (`bool`, `on`, …) -/
def StartOK : List Tok → Prop
  | [] => False
  | .kw k _ :: _ => k ≠ .bool ∧ k ≠ .on ∧ k ≠ .ignoring ∧ k ≠ .groupLeft ∧ k ≠ .groupRight ∧ k ≠ .fill ∧
      k ≠ .fillLeft ∧ k ≠ .fillRight
  | _ :: _ => True

/-- `ts` is read by `parseOperand` as the primary `a` (with its postfix modifiers), given fuel `n`. -/
def AtomParses (o : Opts) (a : Expr) (ts : List Tok) (n : Nat) : Prop :=
  ∀ F R, n ≤ F → Follow 7 R → parseOperand o F (ts ++ R) = some (a, R)

/-- `mods` is read by `parseBinModifier` as `(b, vm)` whatever operand follows. -/
def ModParses (o : Opts) (mods : List Tok) (b : Bool) (vm : VM) : Prop :=
  ∀ rest, StartOK rest → parseBinModifier o (mods ++ rest) = some ((b, vm), rest)

def Expr.isNum : Expr → Bool
  | .num .. => true
  | _ => false

inductive PT (o : Opts) : Expr → List Tok → Nat → Nat → Nat → Prop
  | atom {a ts n} : AtomParses o a ts n → StartOK ts → PT o a ts 7 7 (n + 1)
  | negnum {w d ts n t} : AtomParses o (.num w d) ts n → 1 ≤ n →
      PT o (.num (negateNum w) d) (.op .sub t :: ts) 7 6 (n + 3)
  | paren {e ts lv fb n} : PT o e ts lv fb n → PT o (.paren e) (.lparen :: (ts ++ [.rparen])) 7 7 (n + 4)
  | un {e ts lv fb n} (neg : Bool) (t : Bytes) : PT o e ts lv fb n → 6 ≤ lv → e.isNum = false →
      PT o (.un neg e) (.op (if neg then .sub else .add) t :: ts) 7 (min 6 fb) (n + 3)
  | bin {l r tl tr lvl fbl nl lvr fbr nr} (op : BinOp) (t : Bytes) (mods : List Tok) (b : Bool) (vm : VM) :
      PT o l tl lvl fbl nl → PT o r tr lvr fbr nr → op.prec ≤ lvl → op.prec < fbl →
      (if op.rightAssoc then op.prec else op.prec + 1) ≤ lvr → ModParses o mods b vm →
      PT o (.bin op b (some vm) l r) (tl ++ .op op t :: (mods ++ tr)) op.prec
        (min (if op.rightAssoc then op.prec else op.prec + 1) fbr) (nl + nr + 2)

theorem PT.startOK {o : Opts} {e : Expr} {ts : List Tok} {lv fb n : Nat} (h : PT o e ts lv fb n) : StartOK ts := by
  induction h with
  | atom _ h => exact h
  | negnum => trivial
  | paren => trivial
  | un => trivial
  | @bin l r tl tr lvl fbl nl lvr fbr nr op t mods b vm hl _ _ _ _ _ ihl _ =>
    cases tl with
    | nil => exact ihl.elim
    | cons x xs => cases x <;> first | trivial | exact ihl

theorem PT.need_pos {o : Opts} {e : Expr} {ts : List Tok} {lv fb n : Nat} (h : PT o e ts lv fb n) : 1 ≤ n := by
  cases h <;> omega

/-- The precedence-climbing lemma. -/
theorem PT.parse {o : Opts} {e : Expr} {ts : List Tok} {lv fb n : Nat} (h : PT o e ts lv fb n) :
    ∀ (F mp : Nat) (R : List Tok), mp ≤ lv → n ≤ F → Follow fb R →
      ∃ F', F ≤ F' + n ∧ parseExpr o F mp (ts ++ R) = parseBinLoop o F' mp e R := by
  induction h with
  | @atom a ts n ha _ =>
    intro F mp R _ hF hR
    obtain ⟨F0, rfl⟩ : ∃ F0, F = F0 + 1 := ⟨F - 1, by omega⟩
    exact ⟨F0, by omega, parseExpr_succ_some o F0 mp _ a R (ha F0 R (by omega) hR)⟩
  | @negnum w d ts n t ha hn =>
    intro F mp R _ hF hR
    obtain ⟨F0, rfl⟩ : ∃ F0, F = F0 + 3 := ⟨F - 3, by omega⟩
    refine ⟨F0 + 2, by omega, ?_⟩
    have h1 : parseExpr o (F0 + 1) 6 (ts ++ R) = some (.num w d, R) := by
      rw [parseExpr_succ_some o F0 6 _ _ R (ha F0 R (by omega) (Follow.mono (by omega) hR))]
      obtain ⟨F1, rfl⟩ : ∃ F1, F0 = F1 + 1 := ⟨F0 - 1, by omega⟩
      exact parseBinLoop_stop o F1 6 _ R hR
    apply parseExpr_succ_some
    show parseOperand o (F0 + 1 + 1) (Tok.op BinOp.sub t :: (ts ++ R)) = _
    simp [parseOperand, h1]
  | @paren e ts lv fb n _ ih =>
    intro F mp R _ hF hR
    obtain ⟨F0, rfl⟩ : ∃ F0, F = F0 + 3 := ⟨F - 3, by omega⟩
    refine ⟨F0 + 2, by omega, ?_⟩
    obtain ⟨F', hF', hp⟩ := ih F0 0 (.rparen :: R) (Nat.zero_le _) (by omega) trivial
    obtain ⟨F1, rfl⟩ : ∃ F1, F' = F1 + 1 := ⟨F' - 1, by omega⟩
    rw [parseBinLoop_stop o F1 0 e _ (show Follow 0 (.rparen :: R) from trivial)] at hp
    apply parseExpr_succ_some
    show parseOperand o (F0 + 1 + 1) (Tok.lparen :: (ts ++ [Tok.rparen]) ++ R) = _
    simp [parseOperand, parsePrimary, hp, expect, parsePostfix_stop o _ 7 _ R hR]
  | @un e ts lv fb n neg t _ hlv hnum ih =>
    intro F mp R _ hF hR
    obtain ⟨F0, rfl⟩ : ∃ F0, F = F0 + 3 := ⟨F - 3, by omega⟩
    refine ⟨F0 + 2, by omega, ?_⟩
    have hR' : Follow fb R := Follow.mono (Nat.min_le_right _ _) hR
    obtain ⟨F', hF', hp⟩ := ih (F0 + 1) 6 R hlv (by omega) hR'
    obtain ⟨F1, rfl⟩ : ∃ F1, F' = F1 + 1 := ⟨F' - 1, by omega⟩
    rw [parseBinLoop_stop o F1 6 e _ (Follow.mono (Nat.min_le_left _ _) hR)] at hp
    apply parseExpr_succ_some
    cases neg with
    | true =>
      show parseOperand o (F0 + 1 + 1) (Tok.op BinOp.sub t :: (ts ++ R)) = _
      cases e <;> simp_all [parseOperand, Expr.isNum]
    | false =>
      show parseOperand o (F0 + 1 + 1) (Tok.op BinOp.add t :: (ts ++ R)) = _
      cases e <;> simp_all [parseOperand, Expr.isNum]
  | @bin l r tl tr lvl fbl nl lvr fbr nr op t mods b vm hl hr h1 h2 h3 hm ihl ihr =>
    intro F mp R hmp hF hR
    have hnl := hl.need_pos
    have hnr := hr.need_pos
    obtain ⟨F1, hF1, hp1⟩ := ihl F mp (.op op t :: (mods ++ tr ++ R)) (Nat.le_trans hmp h1) (by omega)
      (show Follow fbl (.op op t :: _) from h2)
    obtain ⟨F1', rfl⟩ : ∃ F1', F1 = F1' + 1 := ⟨F1 - 1, by omega⟩
    have hR2 : Follow fbr R := Follow.mono (Nat.min_le_right _ _) hR
    obtain ⟨F2, hF2, hp2⟩ := ihr F1' (if op.rightAssoc then op.prec else op.prec + 1) R h3 (by omega) hR2
    obtain ⟨F2', rfl⟩ : ∃ F2', F2 = F2' + 1 := ⟨F2 - 1, by omega⟩
    rw [parseBinLoop_stop o F2' _ r _ (Follow.mono (Nat.min_le_left _ _) hR)] at hp2
    refine ⟨F1', by omega, ?_⟩
    have hm' := hm (tr ++ R) (by
      have := hr.startOK
      cases tr with
      | nil => exact this.elim
      | cons x xs => cases x <;> first | trivial | exact this)
    rw [show tl ++ Tok.op op t :: (mods ++ tr) ++ R = tl ++ Tok.op op t :: (mods ++ tr ++ R) by simp, hp1]
    rw [show mods ++ tr ++ R = mods ++ (tr ++ R) by simp]
    exact parseBinLoop_op_some o F1' mp l op t _ _ R b vm r hmp hm' hp2

/-- whole input: with fuel `n + 1` the token list of `e` parses to `e` with nothing left. -/
theorem PT.parse_top {o : Opts} {e : Expr} {ts : List Tok} {lv fb n : Nat} (h : PT o e ts lv fb n) (F : Nat)
    (hF : n + 1 ≤ F) : parseExpr o F 0 ts = some (e, []) := by
  obtain ⟨F', hF', hp⟩ := h.parse F 0 [] (Nat.zero_le _) (by omega) trivial
  obtain ⟨F1, rfl⟩ : ∃ F1, F' = F1 + 1 := ⟨F' - 1, by omega⟩
  rw [List.append_nil] at hp
  rw [hp, parseBinLoop_stop o F1 0 e [] trivial]

end Prom.Promql
