import PromModel.Notifier.SendLoop
/-
  Invariants of the send-loop transition system (`Prom.SendLoop.step`), used by `PromProps/C46.lean`.
-/
namespace Prom.SendLoop

def lastN (n : Nat) (l : List α) : List α := l.drop (l.length - n)

/-- Generic: a step-preserved predicate holds after every schedule. -/
theorem run_inv (c : Cfg) (P : Loop → Prop)
    (hstep : ∀ s a s' e, P s → step c s a = some (s', e) → P s') :
    ∀ (tr : List Act) (s s' : Loop), P s → run c s tr = some s' → P s' := by
  intro tr
  induction tr with
  | nil => intro s s' hp h; simp [run] at h; subst h; exact hp
  | cons a rest ih =>
    intro s s' hp h
    unfold run at h
    cases hs : step c s a with
    | none => simp [hs] at h
    | some r =>
      obtain ⟨s1, e⟩ := r
      simp only [hs] at h
      exact ih s1 s' (hstep s a s1 e hp hs) h

/-- Batch parked by the loop goroutine / by the drain. -/
def Pc.batch : Pc → List Nat | .sending b => b | _ => []
def DPc.batch : DPc → List Nat | .dsending b => b | _ => []

theorem addQueue_length (cap : Nat) (q as : List Nat) (_hq : q.length ≤ cap) :
    (addQueue cap q as).1.length ≤ cap ∧
    (addQueue cap q as).1.length + ((addQueue cap q as).2.1 + (addQueue cap q as).2.2) = q.length + as.length := by
  simp only [addQueue, List.length_append, List.length_drop]
  omega

/-- **Drop-oldest**: after `add`, the queue is the newest `min(cap, |queue| + |batch|)` alerts of
    `queue ++ batch`, in order. -/
theorem addQueue_eq_lastN (cap : Nat) (q as : List Nat) :
    (addQueue cap q as).1 = lastN (min cap (q.length + as.length)) (q ++ as) := by
  simp only [addQueue, lastN, List.length_append, List.length_drop]
  by_cases h : as.length ≤ cap
  · have h1 : as.length - cap = 0 := by omega
    simp only [h1, List.drop_zero, Nat.sub_zero]
    have : q.length + as.length - min cap (q.length + as.length) = q.length + as.length - cap := by omega
    rw [this, List.drop_append]
    have h2 : q.length + as.length - cap - q.length = 0 := by omega
    simp [h2]
  · have h1 : q.length + (as.length - (as.length - cap)) - cap = q.length := by omega
    have h3 : q.length + as.length - min cap (q.length + as.length) = q.length + (as.length - cap) := by omega
    rw [h1, h3, List.drop_append]
    simp

structure Inv (c : Cfg) (s : Loop) : Prop where
  acc : s.nIn = s.nSent + s.nOverflow + s.nFailed + s.queue.length + s.inflight
  qcap : s.queue.length ≤ c.cap
  sizes : ∀ n ∈ s.batchSizes, n ≤ c.maxBatch
  flsize : s.pc.batch.length ≤ c.maxBatch ∧ s.dpc.batch.length ≤ c.maxBatch
  sub : (s.taken ++ s.queue).Sublist s.sentIn
  stopNone : s.dpc = .none ↔ s.stopped = false
  stopDropped : s.stopped = false → s.nStopDropped = 0
  nodrain : c.drain = false → s.dpc = .none ∨ s.dpc = .done
  recvLen : s.received.length + s.inflight ≤ s.taken.length

theorem inv_init (c : Cfg) : Inv c {} := by
  constructor <;> simp [Loop.inflight, Pc.batch, DPc.batch]

theorem inflight_eq (s : Loop) : s.inflight = s.pc.batch.length + s.dpc.batch.length := by
  unfold Loop.inflight Pc.batch DPc.batch
  cases s.pc <;> cases s.dpc <;> simp


theorem outcome_fields (s : Loop) (b : List Nat) (v : Verdict) :
    let r := (s.outcome b v).1
    r.queue = s.queue ∧ r.taken = s.taken ∧ r.sentIn = s.sentIn ∧ r.stopped = s.stopped ∧ r.pc = s.pc ∧
    r.dpc = s.dpc ∧ r.nIn = s.nIn ∧ r.nOverflow = s.nOverflow ∧ r.nStopDropped = s.nStopDropped ∧ r.flag = s.flag ∧
    r.nSent + r.nFailed = s.nSent + s.nFailed + b.length ∧
    (r.batchSizes = s.batchSizes ∨ r.batchSizes = s.batchSizes ++ [b.length]) ∧
    (r.received = s.received ∨ r.received = s.received ++ b) ∧ r.received.length ≤ s.received.length + b.length := by
  cases v <;> simp [Loop.outcome] <;> omega

theorem step_inv (c : Cfg) (s : Loop) (a : Act) (s' : Loop) (e : List Eff)
    (h : Inv c s) (hs : step c s a = some (s', e)) : Inv c s' := by
  have hfl := inflight_eq s
  obtain ⟨acc, qcap, sizes, flsize, sub, stopNone, stopDropped, nodrain, recvLen⟩ := h
  cases a with
  | add as =>
    simp only [step] at hs
    split at hs
    · simp at hs
    · split at hs
      · simp at hs; obtain ⟨rfl, _⟩ := hs
        exact ⟨acc, qcap, sizes, flsize, sub, stopNone, stopDropped, nodrain, recvLen⟩
      · simp only [Option.some.injEq, Prod.mk.injEq] at hs
        obtain ⟨rfl, _⟩ := hs
        have hl := addQueue_length c.cap s.queue as qcap
        refine ⟨?_, hl.1, sizes, flsize, ?_, stopNone, stopDropped, nodrain, recvLen⟩
        · simp only [Loop.inflight] at acc ⊢
          omega
        · simp only [addQueue]
          have h1 : ((s.taken ++ List.drop (s.queue.length + (List.drop (as.length - c.cap) as).length - c.cap) s.queue)
              ++ List.drop (as.length - c.cap) as).Sublist (s.sentIn ++ as) :=
            List.Sublist.append
              (List.Sublist.trans (List.Sublist.append (List.Sublist.refl _) (List.drop_sublist _ _)) sub)
              (List.drop_sublist _ _)
          simpa [List.append_assoc] using h1
  | wake =>
    simp only [step] at hs
    split at hs
    · rename_i hc
      simp only [Option.some.injEq, Prod.mk.injEq] at hs
      obtain ⟨rfl, _⟩ := hs
      refine ⟨?_, qcap, sizes, ?_, sub, stopNone, stopDropped, nodrain, ?_⟩
      · simp only [Loop.inflight, hc.1] at acc ⊢; exact acc
      · simp only [Pc.batch]; exact ⟨by simp, flsize.2⟩
      · simp only [Loop.inflight, hc.1] at recvLen ⊢; exact recvLen
    · simp at hs
  | exit =>
    simp only [step] at hs
    split at hs
    · rename_i hc
      simp only [Option.some.injEq, Prod.mk.injEq] at hs
      obtain ⟨rfl, _⟩ := hs
      refine ⟨?_, qcap, sizes, ?_, sub, stopNone, stopDropped, nodrain, ?_⟩
      · simp only [Loop.inflight, hc.1] at acc ⊢; exact acc
      · simp only [Pc.batch]; exact ⟨by simp, flsize.2⟩
      · simp only [Loop.inflight, hc.1] at recvLen ⊢; exact recvLen
    · simp at hs
  | take =>
    simp only [step] at hs
    split at hs
    · rename_i hc
      have hlen : (s.queue.take c.maxBatch).length + (s.queue.drop c.maxBatch).length = s.queue.length := by
        simp only [List.length_take, List.length_drop]; omega
      have hsub : (s.taken ++ List.take c.maxBatch s.queue ++ List.drop c.maxBatch s.queue).Sublist s.sentIn := by
        rw [List.append_assoc, List.take_append_drop]; exact sub
      have hq' : (s.queue.drop c.maxBatch).length ≤ c.cap := by simp only [List.length_drop]; omega
      have hb : (s.queue.take c.maxBatch).length ≤ c.maxBatch := by simp only [List.length_take]; omega
      split at hs
      · rename_i hempty
        simp only [Option.some.injEq, Prod.mk.injEq] at hs
        obtain ⟨rfl, _⟩ := hs
        have hb0 : (s.queue.take c.maxBatch).length = 0 := by simpa using hempty
        refine ⟨?_, hq', sizes, ?_, hsub, stopNone, stopDropped, nodrain, ?_⟩
        · simp only [Loop.inflight, hc] at acc ⊢; omega
        · simp only [Pc.batch]; exact ⟨by simp, flsize.2⟩
        · simp only [Loop.inflight, hc, List.length_append] at recvLen ⊢; omega
      · simp only [Option.some.injEq, Prod.mk.injEq] at hs
        obtain ⟨rfl, _⟩ := hs
        refine ⟨?_, hq', sizes, ?_, hsub, stopNone, stopDropped, nodrain, ?_⟩
        · simp only [Loop.inflight, hc] at acc ⊢; omega
        · simp only [Pc.batch]; exact ⟨hb, flsize.2⟩
        · simp only [Loop.inflight, hc, List.length_append] at recvLen ⊢; omega
    · simp at hs
  | result v =>
    simp only [step] at hs
    split at hs
    · rename_i b hc
      simp only [Option.some.injEq, Prod.mk.injEq] at hs
      obtain ⟨rfl, _⟩ := hs
      have ho := outcome_fields s b v
      simp only at ho
      obtain ⟨h1, h2, h3, h4, h5, h6, h7, h8, h9, h10, h11, h12, h13, h14⟩ := ho
      have hbl : b.length ≤ c.maxBatch := by have := flsize.1; simpa [hc, Pc.batch] using this
      refine ⟨?_, ?_, ?_, ?_, ?_, ?_, ?_, ?_, ?_⟩
      · simp only [Loop.inflight, hc, h1, h6, h7, h8] at acc ⊢; omega
      · simp only [h1]; exact qcap
      · intro n hn
        rcases h12 with h | h
        · simp only [h] at hn; exact sizes n hn
        · simp only [h, List.mem_append, List.mem_singleton] at hn
          rcases hn with hn | hn
          · exact sizes n hn
          · omega
      · simp only [Pc.batch, h6]; exact ⟨by simp, flsize.2⟩
      · simp only [h1, h2, h3]; exact sub
      · simp only [h6, h4]; exact stopNone
      · simp only [h4, h9]; exact stopDropped
      · simp only [h6]; exact nodrain
      · simp only [Loop.inflight, hc, h2, h6] at recvLen ⊢; omega
    · simp at hs
  | post =>
    simp only [step] at hs
    split at hs
    · rename_i hc
      simp only [Option.some.injEq, Prod.mk.injEq] at hs
      obtain ⟨rfl, _⟩ := hs
      refine ⟨?_, qcap, sizes, ?_, sub, stopNone, stopDropped, nodrain, ?_⟩
      · simp only [Loop.inflight, hc] at acc ⊢; exact acc
      · simp only [Pc.batch]; exact ⟨by simp, flsize.2⟩
      · simp only [Loop.inflight, hc] at recvLen ⊢; exact recvLen
    · simp at hs
  | stop =>
    simp only [step] at hs
    split at hs
    · simp at hs
    · rename_i hmid
      split at hs
      · simp at hs; obtain ⟨rfl, _⟩ := hs
        exact ⟨acc, qcap, sizes, flsize, sub, stopNone, stopDropped, nodrain, recvLen⟩
      · rename_i hst
        have hnone : s.dpc = .none := stopNone.mpr (by simpa using hst)
        split at hs
        · rename_i hd
          simp only [Option.some.injEq, Prod.mk.injEq] at hs
          obtain ⟨rfl, _⟩ := hs
          refine ⟨?_, qcap, sizes, ?_, sub, by simp, by simp, by simp [hd], ?_⟩
          · simp only [Loop.inflight, hnone] at acc ⊢; exact acc
          · simp only [DPc.batch]; exact ⟨flsize.1, by simp⟩
          · simp only [Loop.inflight, hnone] at recvLen ⊢; exact recvLen
        · simp only [Option.some.injEq, Prod.mk.injEq] at hs
          obtain ⟨rfl, _⟩ := hs
          refine ⟨?_, qcap, sizes, ?_, sub, by simp, by simp, by simp, ?_⟩
          · simp only [Loop.inflight, hnone] at acc ⊢; exact acc
          · simp only [DPc.batch]; exact ⟨flsize.1, by simp⟩
          · simp only [Loop.inflight, hnone] at recvLen ⊢; exact recvLen
  | dtake =>
    simp only [step] at hs
    split at hs
    · rename_i hc
      have hstop : s.stopped = true := by
        cases hb : s.stopped with
        | true => rfl
        | false => have := stopNone.mpr hb; simp [hc] at this
      have hdr : c.drain = true := by
        cases hb : c.drain with
        | true => rfl
        | false => rcases nodrain hb with h | h <;> simp [hc] at h
      split at hs
      · simp only [Option.some.injEq, Prod.mk.injEq] at hs
        obtain ⟨rfl, _⟩ := hs
        refine ⟨?_, qcap, sizes, ?_, sub, by simp [hstop], by simp [hstop], by simp [hdr], ?_⟩
        · simp only [Loop.inflight, hc] at acc ⊢; exact acc
        · simp only [DPc.batch]; exact ⟨flsize.1, by simp⟩
        · simp only [Loop.inflight, hc] at recvLen ⊢; exact recvLen
      · have hlen : (s.queue.take c.maxBatch).length + (s.queue.drop c.maxBatch).length = s.queue.length := by
          simp only [List.length_take, List.length_drop]; omega
        have hsub : (s.taken ++ List.take c.maxBatch s.queue ++ List.drop c.maxBatch s.queue).Sublist s.sentIn := by
          rw [List.append_assoc, List.take_append_drop]; exact sub
        have hq' : (s.queue.drop c.maxBatch).length ≤ c.cap := by simp only [List.length_drop]; omega
        have hb : (s.queue.take c.maxBatch).length ≤ c.maxBatch := by simp only [List.length_take]; omega
        split at hs
        · rename_i hempty
          simp only [Option.some.injEq, Prod.mk.injEq] at hs
          obtain ⟨rfl, _⟩ := hs
          have hb0 : (s.queue.take c.maxBatch).length = 0 := by simpa using hempty
          refine ⟨?_, hq', sizes, flsize, hsub, stopNone, stopDropped, nodrain, ?_⟩
          · simp only [Loop.inflight, hc] at acc ⊢; omega
          · simp only [Loop.inflight, hc, List.length_append] at recvLen ⊢; omega
        · simp only [Option.some.injEq, Prod.mk.injEq] at hs
          obtain ⟨rfl, _⟩ := hs
          refine ⟨?_, hq', sizes, ?_, hsub, by simp [hstop], by simp [hstop], by simp [hdr], ?_⟩
          · simp only [Loop.inflight, hc] at acc ⊢; omega
          · simp only [DPc.batch]; exact ⟨flsize.1, hb⟩
          · simp only [Loop.inflight, hc, List.length_append] at recvLen ⊢; omega
    · simp at hs
  | dresult v =>
    simp only [step] at hs
    split at hs
    · rename_i b hc
      have hstop : s.stopped = true := by
        cases hb : s.stopped with
        | true => rfl
        | false => have := stopNone.mpr hb; simp [hc] at this
      have hdr : c.drain = true := by
        cases hb : c.drain with
        | true => rfl
        | false => rcases nodrain hb with h | h <;> simp [hc] at h
      simp only [Option.some.injEq, Prod.mk.injEq] at hs
      obtain ⟨rfl, _⟩ := hs
      have ho := outcome_fields s b v
      simp only at ho
      obtain ⟨h1, h2, h3, h4, h5, h6, h7, h8, h9, h10, h11, h12, h13, h14⟩ := ho
      have hbl : b.length ≤ c.maxBatch := by have := flsize.2; simpa [hc, DPc.batch] using this
      refine ⟨?_, ?_, ?_, ?_, ?_, ?_, ?_, ?_, ?_⟩
      · simp only [Loop.inflight, hc, h1, h5, h7, h8] at acc ⊢; omega
      · simp only [h1]; exact qcap
      · intro n hn
        rcases h12 with h | h
        · simp only [h] at hn; exact sizes n hn
        · simp only [h, List.mem_append, List.mem_singleton] at hn
          rcases hn with hn | hn
          · exact sizes n hn
          · omega
      · simp only [DPc.batch, h5]; exact ⟨flsize.1, by simp⟩
      · simp only [h1, h2, h3]; exact sub
      · simp [h4, hstop]
      · simp [h4, hstop]
      · simp [hdr]
      · simp only [Loop.inflight, hc, h2, h5] at recvLen ⊢; omega
    · simp at hs

theorem run_Inv (c : Cfg) (tr : List Act) (s s' : Loop) (h : Inv c s) (hr : run c s tr = some s') : Inv c s' :=
  run_inv c (Inv c) (fun s a s' e hp hs => step_inv c s a s' e hp hs) tr s s' h hr


/-! ### Order of what the Alertmanager receives, when the loop goroutine and the drain never have
    requests in flight at the same time -/

def RecInv (s : Loop) : Prop :=
  s.overlap = false ∧ (s.received ++ (s.pc.batch ++ s.dpc.batch)).Sublist s.taken

theorem not_overlap_batches (s : Loop) (h : s.overlap = false) :
    (∀ b, s.pc ≠ .sending b) ∨ (∀ b, s.dpc ≠ .dsending b) := by
  unfold Loop.overlap at h
  cases hp : s.pc <;> cases hd : s.dpc <;> simp [hp, hd] at h ⊢

theorem outcome_received (s : Loop) (b : List Nat) (v : Verdict) :
    (s.outcome b v).1.received.Sublist (s.received ++ b) ∧ (s.outcome b v).1.taken = s.taken ∧
    (s.outcome b v).1.pc = s.pc ∧ (s.outcome b v).1.dpc = s.dpc := by
  cases v <;> simp [Loop.outcome]

theorem step_recInv (c : Cfg) (s : Loop) (a : Act) (s' : Loop) (e : List Eff)
    (h : RecInv s) (hs : step c s a = some (s', e)) (hno : s'.overlap = false) : RecInv s' := by
  obtain ⟨hov, hsub⟩ := h
  refine ⟨hno, ?_⟩
  cases a with
  | add as =>
    simp only [step] at hs
    split at hs
    · simp at hs
    · split at hs
      · simp at hs; obtain ⟨rfl, _⟩ := hs; exact hsub
      · simp only [Option.some.injEq, Prod.mk.injEq] at hs
        obtain ⟨rfl, _⟩ := hs; exact hsub
  | wake =>
    simp only [step] at hs
    split at hs
    · rename_i hc
      simp only [Option.some.injEq, Prod.mk.injEq] at hs
      obtain ⟨rfl, _⟩ := hs
      simpa [Pc.batch, hc.1] using hsub
    · simp at hs
  | exit =>
    simp only [step] at hs
    split at hs
    · rename_i hc
      simp only [Option.some.injEq, Prod.mk.injEq] at hs
      obtain ⟨rfl, _⟩ := hs
      simpa [Pc.batch, hc.1] using hsub
    · simp at hs
  | post =>
    simp only [step] at hs
    split at hs
    · rename_i hc
      simp only [Option.some.injEq, Prod.mk.injEq] at hs
      obtain ⟨rfl, _⟩ := hs
      simpa [Pc.batch, hc] using hsub
    · simp at hs
  | take =>
    simp only [step] at hs
    split at hs
    · rename_i hc
      simp only [hc, Pc.batch, List.nil_append] at hsub
      split at hs
      · rename_i hempty
        simp only [Option.some.injEq, Prod.mk.injEq] at hs
        obtain ⟨rfl, _⟩ := hs
        have hb0 : s.queue.take c.maxBatch = [] := by simpa using hempty
        simpa [Pc.batch, hb0] using hsub
      · simp only [Option.some.injEq, Prod.mk.injEq] at hs
        obtain ⟨rfl, _⟩ := hs
        have hd : s.dpc.batch = [] := by
          rcases not_overlap_batches _ hno with h | h
          · exact absurd rfl (h _)
          · unfold DPc.batch; cases hdp : s.dpc <;> simp
            exact absurd hdp (h _)
        simp only [Pc.batch, hd, List.append_nil] at hsub ⊢
        exact List.Sublist.append hsub (List.Sublist.refl _)
    · simp at hs
  | result v =>
    simp only [step] at hs
    split at hs
    · rename_i b hc
      simp only [Option.some.injEq, Prod.mk.injEq] at hs
      obtain ⟨rfl, _⟩ := hs
      obtain ⟨h1, h2, h3, h4⟩ := outcome_received s b v
      have hd : s.dpc.batch = [] := by
        rcases not_overlap_batches _ hov with h | h
        · exact absurd hc (h _)
        · unfold DPc.batch; cases hdp : s.dpc <;> simp
          exact absurd hdp (h _)
      simp only [hc, Pc.batch, hd, List.append_nil] at hsub
      simp only [Pc.batch, h4, hd, h2, List.append_nil]
      exact List.Sublist.trans h1 hsub
    · simp at hs
  | stop =>
    simp only [step] at hs
    split at hs
    · simp at hs
    · rename_i hmid
      have hdb : s.dpc.batch = [] := by
        unfold DPc.batch; cases hdp : s.dpc <;> simp
        simp [Loop.midStop, hdp] at hmid
      split at hs
      · simp at hs; obtain ⟨rfl, _⟩ := hs; exact hsub
      · split at hs <;>
        · simp only [Option.some.injEq, Prod.mk.injEq] at hs
          obtain ⟨rfl, _⟩ := hs
          rw [hdb] at hsub
          simpa [DPc.batch] using hsub
  | dtake =>
    simp only [step] at hs
    split at hs
    · rename_i hc
      simp only [hc, DPc.batch, List.append_nil] at hsub
      split at hs
      · simp only [Option.some.injEq, Prod.mk.injEq] at hs
        obtain ⟨rfl, _⟩ := hs
        simpa [DPc.batch] using hsub
      · split at hs
        · rename_i hempty
          simp only [Option.some.injEq, Prod.mk.injEq] at hs
          obtain ⟨rfl, _⟩ := hs
          have hb0 : s.queue.take c.maxBatch = [] := by simpa using hempty
          simpa [DPc.batch, hc, hb0] using hsub
        · simp only [Option.some.injEq, Prod.mk.injEq] at hs
          obtain ⟨rfl, _⟩ := hs
          have hp : s.pc.batch = [] := by
            rcases not_overlap_batches _ hno with h | h
            · unfold Pc.batch; cases hpp : s.pc <;> simp
              exact absurd hpp (h _)
            · exact absurd rfl (h _)
          simp only [hp, List.append_nil] at hsub
          simp only [DPc.batch, hp, List.nil_append]
          exact List.Sublist.append hsub (List.Sublist.refl _)
    · simp at hs
  | dresult v =>
    simp only [step] at hs
    split at hs
    · rename_i b hc
      simp only [Option.some.injEq, Prod.mk.injEq] at hs
      obtain ⟨rfl, _⟩ := hs
      obtain ⟨h1, h2, h3, h4⟩ := outcome_received s b v
      have hp : s.pc.batch = [] := by
        rcases not_overlap_batches _ hov with h | h
        · unfold Pc.batch; cases hpp : s.pc <;> simp
          exact absurd hpp (h _)
        · exact absurd hc (h _)
      simp only [hc, DPc.batch, hp, List.nil_append] at hsub
      simp only [DPc.batch, h3, hp, h2, List.append_nil]
      exact List.Sublist.trans h1 hsub
    · simp at hs

theorem runNoOverlap_recInv (c : Cfg) : ∀ (tr : List Act) (s s' : Loop),
    RecInv s → runNoOverlap c s tr = some s' → RecInv s' ∧ run c s tr = some s' := by
  intro tr
  induction tr with
  | nil => intro s s' hp h; simp [runNoOverlap] at h; subst h; exact ⟨hp, by simp [run]⟩
  | cons a rest ih =>
    intro s s' hp h
    unfold runNoOverlap at h
    cases hs : step c s a with
    | none => simp [hs] at h
    | some r =>
      obtain ⟨s1, e⟩ := r
      simp only [hs] at h
      by_cases ho : s1.overlap = true
      · simp [ho] at h
      · simp only [ho] at h
        have ho' : s1.overlap = false := by simpa using ho
        obtain ⟨h1, h2⟩ := ih s1 s' (step_recInv c s a s1 e hp hs ho') h
        exact ⟨h1, by simp [run, hs, h2]⟩


/-! ### After `stop` -/

/-- Once stopped: nothing is added any more (`taken ++ queue` is constant) and a finished drain has
    emptied the queue for good. -/
def StopInv (c : Cfg) (T : List Nat) (I : List Nat) (s : Loop) : Prop :=
  s.stopped = true ∧ s.dpc ≠ .none ∧ s.taken ++ s.queue = T ∧ s.sentIn = I ∧
  (c.drain = true → s.dpc = .done → s.queue = [])

theorem outcome_stop (s : Loop) (b : List Nat) (v : Verdict) :
    (s.outcome b v).1.queue = s.queue ∧ (s.outcome b v).1.taken = s.taken ∧
    (s.outcome b v).1.stopped = s.stopped ∧ (s.outcome b v).1.dpc = s.dpc ∧ (s.outcome b v).1.sentIn = s.sentIn := by
  cases v <;> simp [Loop.outcome]

theorem step_stopInv (c : Cfg) (T I : List Nat) (s : Loop) (a : Act) (s' : Loop) (e : List Eff)
    (h : StopInv c T I s) (hs : step c s a = some (s', e)) : StopInv c T I s' := by
  obtain ⟨hst, hd, hT, hI, hq⟩ := h
  cases a with
  | add as =>
    simp only [step] at hs
    split at hs
    · simp at hs
    · simp [hst] at hs; obtain ⟨rfl, _⟩ := hs; exact ⟨hst, hd, hT, hI, hq⟩
  | wake =>
    simp only [step] at hs
    split at hs
    · simp only [Option.some.injEq, Prod.mk.injEq] at hs; obtain ⟨rfl, _⟩ := hs; exact ⟨hst, hd, hT, hI, hq⟩
    · simp at hs
  | exit =>
    simp only [step] at hs
    split at hs
    · simp only [Option.some.injEq, Prod.mk.injEq] at hs; obtain ⟨rfl, _⟩ := hs; exact ⟨hst, hd, hT, hI, hq⟩
    · simp at hs
  | post =>
    simp only [step] at hs
    split at hs
    · simp only [Option.some.injEq, Prod.mk.injEq] at hs; obtain ⟨rfl, _⟩ := hs; exact ⟨hst, hd, hT, hI, hq⟩
    · simp at hs
  | take =>
    simp only [step] at hs
    split at hs
    · have hT' : s.taken ++ List.take c.maxBatch s.queue ++ List.drop c.maxBatch s.queue = T := by
        rw [List.append_assoc, List.take_append_drop]; exact hT
      have hq' : c.drain = true → s.dpc = .done → List.drop c.maxBatch s.queue = [] := by
        intro h1 h2; rw [hq h1 h2]; simp
      split at hs <;>
      · simp only [Option.some.injEq, Prod.mk.injEq] at hs; obtain ⟨rfl, _⟩ := hs
        exact ⟨hst, hd, hT', hI, hq'⟩
    · simp at hs
  | result v =>
    simp only [step] at hs
    split at hs
    · rename_i b hc
      simp only [Option.some.injEq, Prod.mk.injEq] at hs; obtain ⟨rfl, _⟩ := hs
      obtain ⟨h1, h2, h3, h4, h5⟩ := outcome_stop s b v
      refine ⟨by simpa [h3] using hst, by simpa [h4] using hd, by simpa [h1, h2] using hT, by simpa [h5] using hI, ?_⟩
      simpa [h1, h4] using hq
    · simp at hs
  | stop =>
    simp only [step] at hs
    split at hs
    · simp at hs
    · simp [hst] at hs; obtain ⟨rfl, _⟩ := hs; exact ⟨hst, hd, hT, hI, hq⟩
  | dtake =>
    simp only [step] at hs
    split at hs
    · rename_i hc
      split at hs
      · rename_i hempty
        simp only [Option.some.injEq, Prod.mk.injEq] at hs; obtain ⟨rfl, _⟩ := hs
        exact ⟨hst, by simp, hT, hI, fun _ _ => by simpa using hempty⟩
      · have hT' : s.taken ++ List.take c.maxBatch s.queue ++ List.drop c.maxBatch s.queue = T := by
          rw [List.append_assoc, List.take_append_drop]; exact hT
        split at hs
        · simp only [Option.some.injEq, Prod.mk.injEq] at hs; obtain ⟨rfl, _⟩ := hs
          exact ⟨hst, hd, hT', hI, fun _ h2 => by simp [hc] at h2⟩
        · simp only [Option.some.injEq, Prod.mk.injEq] at hs; obtain ⟨rfl, _⟩ := hs
          exact ⟨hst, by simp, hT', hI, fun _ h2 => by simp at h2⟩
    · simp at hs
  | dresult v =>
    simp only [step] at hs
    split at hs
    · rename_i b hc
      simp only [Option.some.injEq, Prod.mk.injEq] at hs; obtain ⟨rfl, _⟩ := hs
      obtain ⟨h1, h2, h3, h4, h5⟩ := outcome_stop s b v
      exact ⟨by simpa [h3] using hst, by simp, by simpa [h1, h2] using hT, by simpa [h5] using hI, fun _ h => by simp at h⟩
    · simp at hs

/-! ### The batch in flight is private to its sender -/

/-- No action other than the loop goroutine's own `result` changes the batch the loop goroutine has in
    flight — in particular no `add` (whatever it appends or drops), no `stop` and no drain step. -/
theorem step_sending_stable (c : Cfg) (s s' : Loop) (a : Act) (e : List Eff) (b : List Nat)
    (hpc : s.pc = .sending b) (ha : ∀ v, a ≠ .result v) (h : step c s a = some (s', e)) :
    s'.pc = .sending b := by
  cases a with
  | add as =>
    simp only [step] at h
    split at h
    · simp at h
    · split at h
      · simp at h; obtain ⟨rfl, _⟩ := h; exact hpc
      · simp only [Option.some.injEq, Prod.mk.injEq] at h; obtain ⟨rfl, _⟩ := h; exact hpc
  | wake => simp [step, hpc] at h
  | exit => simp [step, hpc] at h
  | take => simp [step, hpc] at h
  | post => simp [step, hpc] at h
  | result v => exact absurd rfl (ha v)
  | stop =>
    simp only [step] at h
    split at h
    · simp at h
    · split at h
      · simp at h; obtain ⟨rfl, _⟩ := h; exact hpc
      · split at h <;>
        · simp only [Option.some.injEq, Prod.mk.injEq] at h; obtain ⟨rfl, _⟩ := h; exact hpc
  | dtake =>
    simp only [step] at h
    split at h
    · split at h
      · simp only [Option.some.injEq, Prod.mk.injEq] at h; obtain ⟨rfl, _⟩ := h; exact hpc
      · split at h <;>
        · simp only [Option.some.injEq, Prod.mk.injEq] at h; obtain ⟨rfl, _⟩ := h; exact hpc
    · simp at h
  | dresult v =>
    simp only [step] at h
    split at h
    · rename_i b' _
      simp only [Option.some.injEq, Prod.mk.injEq] at h; obtain ⟨rfl, _⟩ := h
      have := (outcome_received s b' v).2.2.1
      simpa [this] using hpc
    · simp at h

theorem run_sending_stable (c : Cfg) (b : List Nat) : ∀ (tr : List Act) (s s' : Loop),
    s.pc = .sending b → (∀ v, Act.result v ∉ tr) → run c s tr = some s' → s'.pc = .sending b := by
  intro tr
  induction tr with
  | nil => intro s s' hpc _ h; simp [run] at h; subst h; exact hpc
  | cons a rest ih =>
    intro s s' hpc hno h
    unfold run at h
    cases hs : step c s a with
    | none => simp [hs] at h
    | some r =>
      obtain ⟨s1, e⟩ := r
      simp only [hs] at h
      have ha : ∀ v, a ≠ .result v := fun v hv => hno v (by simp [hv])
      exact ih s1 s' (step_sending_stable c s s1 a e b hpc ha hs) (fun v hv => hno v (by simp [hv])) h

/-- The same for the batch the draining caller of `stop` has in flight (only its own `dresult` ends it). -/
theorem step_dsending_stable (c : Cfg) (s s' : Loop) (a : Act) (e : List Eff) (b : List Nat)
    (hpc : s.dpc = .dsending b) (ha : ∀ v, a ≠ .dresult v) (h : step c s a = some (s', e)) :
    s'.dpc = .dsending b := by
  have hmid : s.midStop = true := by simp [Loop.midStop, hpc]
  cases a with
  | add as => simp [step, hmid] at h
  | stop => simp [step, hmid] at h
  | dtake => simp [step, hpc] at h
  | dresult v => exact absurd rfl (ha v)
  | wake =>
    simp only [step] at h
    split at h
    · simp only [Option.some.injEq, Prod.mk.injEq] at h; obtain ⟨rfl, _⟩ := h; exact hpc
    · simp at h
  | exit =>
    simp only [step] at h
    split at h
    · simp only [Option.some.injEq, Prod.mk.injEq] at h; obtain ⟨rfl, _⟩ := h; exact hpc
    · simp at h
  | post =>
    simp only [step] at h
    split at h
    · simp only [Option.some.injEq, Prod.mk.injEq] at h; obtain ⟨rfl, _⟩ := h; exact hpc
    · simp at h
  | take =>
    simp only [step] at h
    split at h
    · split at h <;>
      · simp only [Option.some.injEq, Prod.mk.injEq] at h; obtain ⟨rfl, _⟩ := h; exact hpc
    · simp at h
  | result v =>
    simp only [step] at h
    split at h
    · rename_i b' _
      simp only [Option.some.injEq, Prod.mk.injEq] at h; obtain ⟨rfl, _⟩ := h
      have := (outcome_received s b' v).2.2.2
      simpa [this] using hpc
    · simp at h

theorem run_dsending_stable (c : Cfg) (b : List Nat) : ∀ (tr : List Act) (s s' : Loop),
    s.dpc = .dsending b → (∀ v, Act.dresult v ∉ tr) → run c s tr = some s' → s'.dpc = .dsending b := by
  intro tr
  induction tr with
  | nil => intro s s' hpc _ h; simp [run] at h; subst h; exact hpc
  | cons a rest ih =>
    intro s s' hpc hno h
    unfold run at h
    cases hs : step c s a with
    | none => simp [hs] at h
    | some r =>
      obtain ⟨s1, e⟩ := r
      simp only [hs] at h
      have ha : ∀ v, a ≠ .dresult v := fun v hv => hno v (by simp [hv])
      exact ih s1 s' (step_dsending_stable c s s1 a e b hpc ha hs) (fun v hv => hno v (by simp [hv])) h

/-- What a request for batch `b` answered with `v` makes observable. -/
def outcomeEffs (b : List Nat) : Verdict → List Eff
  | .ok => [.rx b 200, .sent b.length]
  | .fail => [.rx b 500, .errors b.length, .dropped b.length]
  | .err => [.errors b.length, .dropped b.length]

/-- What of batch `b` reaches the Alertmanager under verdict `v`. -/
def deliveredOf (b : List Nat) : Verdict → List Nat
  | .err => []
  | _ => b

theorem outcome_effs (s : Loop) (b : List Nat) (v : Verdict) :
    (s.outcome b v).2 = outcomeEffs b v ∧ (s.outcome b v).1.received = s.received ++ deliveredOf b v := by
  cases v <;> simp [Loop.outcome, outcomeEffs, deliveredOf]

end Prom.SendLoop
