import PromProofs.Expo
import PromProofs.ApiJson
/-
  C35 helper lemmas: lexing and parsing one encoded sample line of the text format (legacy metric name, no
  label set, optional non-negative timestamp), and error classes of the text-format parser.
-/
namespace Prom.Expo

open Prom.Api.Json (kw natDec digits digitByte isDigitB ofDigits isNaNBits digits_lt digits_ne_nil digitByte_props ofDigits_digits writeInt64_ofNat)

/-- `scanWhile` over a run of accepted bytes followed by a rejected one, in a state that does not swallow NULs -/
theorem scanWhile_span (st : Nat) (p : UInt8 → Bool) (hst : skipNul st = false) (c : UInt8) (r : Bytes) (hc : p c = false) :
    ∀ (xs : Bytes), (∀ x ∈ xs, p x = true) → ∀ fuel, xs.length + 1 ≤ fuel →
      scanWhile st p fuel (xs ++ c :: r) = (xs, c :: r) := by
  intro xs
  induction xs with
  | nil =>
    intro _ fuel hf
    obtain ⟨f, rfl⟩ : ∃ f, fuel = f + 1 := ⟨fuel - 1, by simp at hf; omega⟩
    simp [scanWhile, hc]
  | cons x xs ih =>
    intro hx fuel hf
    obtain ⟨f, rfl⟩ : ∃ f, fuel = f + 1 := ⟨fuel - 1, by simp at hf; omega⟩
    have hx0 : p x = true := hx x (by simp)
    have ih' := ih (fun y hy => hx y (by simp [hy])) f (by simp at hf; omega)
    simp [scanWhile, hx0, adv, hst, ih']

theorem isMStart_ne (c : UInt8) (h : isMStart c = true) : c ≠ 35 ∧ c ≠ 10 ∧ c ≠ 32 ∧ c ≠ 9 ∧ c ≠ 0 ∧ c ≠ 123 ∧ isMChar c = true := by
  refine ⟨?_, ?_, ?_, ?_, ?_, ?_, ?_⟩
  all_goals first
    | (intro e; subst e; revert h; decide)
    | (simp [isMChar, h])

/-- lexing a legacy metric name at the start of a line -/
theorem textLex_mname (c0 : UInt8) (n' rest : Bytes) (h0 : isMStart c0 = true) (hn : ∀ x ∈ n', isMChar x = true)
    (d : UInt8) (hd : isMChar d = false) :
    textLex sInit (c0 :: n' ++ d :: rest) = ⟨.mname, c0 :: n', sValue, d :: rest⟩ := by
  obtain ⟨h35, _, _, _, _, _, hm⟩ := isMStart_ne c0 h0
  have hs := scanWhile_span sInit isMChar (by decide) d rest hd (c0 :: n')
    (by intro x hx
        cases List.mem_cons.mp hx with
        | inl e => rw [e]; exact hm
        | inr e => exact hn x e)
  simp only [List.cons_append, sInit] at hs
  simp only [textLex, cur, sInit, List.cons_append, List.isEmpty_cons, List.headD_cons]
  rw [hs _ (by simp)]
  simp [h35, h0]

theorem isValChar_props (c : UInt8) (h : isValChar c = true) : isWs c = false ∧ c ≠ 123 ∧ c ≠ 10 ∧ c ≠ 0 := by
  simp [isValChar] at h
  exact ⟨h.1.2, h.2, h.1.1.2, h.1.1.1⟩

theorem tTok_mname (c0 : UInt8) (n' rest : Bytes) (h0 : isMStart c0 = true) (hn : ∀ x ∈ n', isMChar x = true)
    (d : UInt8) (hd : isMChar d = false) :
    tTok sInit (c0 :: n' ++ d :: rest) = ⟨.mname, [], c0 :: n', sValue, d :: rest⟩ := by
  have h := textLex_mname c0 n' rest h0 hn d hd
  simp only [List.cons_append] at h
  simp [tTok, tNext, h]

/-- the value token after one space -/
theorem tTok_value (v0 : UInt8) (vt' rest : Bytes) (hv0 : isValChar v0 = true) (hv : ∀ x ∈ vt', isValChar x = true) :
    tTok sValue (32 :: v0 :: vt' ++ 10 :: rest) = ⟨.value, [32], v0 :: vt', sTimestamp, 10 :: rest⟩ := by
  obtain ⟨hws, h123, h10, h0⟩ := isValChar_props v0 hv0
  have hs1 := scanWhile_span sValue isWs (by decide) v0 (vt' ++ 10 :: rest) hws [32] (by simp [isWs])
  have hs2 := scanWhile_span sValue isValChar (by decide) 10 rest (by decide) (v0 :: vt')
    (by intro x hx
        cases List.mem_cons.mp hx with
        | inl e => rw [e]; exact hv0
        | inr e => exact hv x e)
  simp only [List.cons_append, List.nil_append, List.singleton_append, sValue] at hs1 hs2
  have e1 : textLex sValue (32 :: v0 :: (vt' ++ 10 :: rest)) = ⟨.whitespace, [32], sValue, v0 :: (vt' ++ 10 :: rest)⟩ := by
    simp [textLex, textLexFrom, cur, sValue, sInit, sComment, sMeta1, sMeta2, sLabels, sLValue, isWs]
    rw [hs1 _ (by simp)]
    simp
  have e2 : textLex sValue (v0 :: (vt' ++ 10 :: rest)) = ⟨.value, v0 :: vt', sTimestamp, 10 :: rest⟩ := by
    simp [textLex, textLexFrom, cur, sValue, sInit, sComment, sMeta1, sMeta2, sLabels, sLValue, hws, h123, hv0, sTimestamp]
    rw [hs2 _ (by simp)]
    simp
  simp only [List.cons_append]
  simp [tTok, tNext, e1, e2]

theorem tTok_linebreak (rest : Bytes) : tTok sTimestamp (10 :: rest) = ⟨.linebreak, [], [10], sInit, rest⟩ := by
  simp [tTok, tNext, textLex, textLexFrom, cur, adv, skipNul, sTimestamp, sInit, sComment, sMeta1, sMeta2, sLabels, sLValue, sValue]

/-- `Next` on one sample line `name SP value LF` (legacy name, no label set, no timestamp) -/
theorem tNextEntry_plain_line (p : TP) (fuel : Nat) (c0 : UInt8) (n' : Bytes) (v0 : UInt8) (vt' rest : Bytes)
    (h0 : isMStart c0 = true) (hn : ∀ x ∈ n', isMChar x = true)
    (hv0 : isValChar v0 = true) (hv : ∀ x ∈ vt', isValChar x = true)
    (v : Nat) (hpf : parseFloat (v0 :: vt') = some v)
    (hl : p.lst = sInit) (hr : p.rest = c0 :: n' ++ 32 :: v0 :: vt' ++ 10 :: rest) :
    tNextEntry (fuel + 1) p =
      .ok (some (.series (c0 :: n') (buildLabels p.tu p.mtype [] (c0 :: n') []) (if isNaNBits v then canonNaN else v) none none 0,
                 { p with lst := sInit, rest := rest })) := by
  have t1 := tTok_mname c0 n' (v0 :: vt' ++ 10 :: rest) h0 hn 32 (by decide)
  have t2 := tTok_value v0 vt' rest hv0 hv
  have t3 := tTok_linebreak rest
  simp only [List.cons_append, List.append_assoc] at t1 t2 hr
  unfold tNextEntry
  simp only [hl, hr, t1, t2]
  simp [tParseSuffix, hpf, t3]

theorem isDigitB_props (c : UInt8) (h : isDigitB c = true) : isWs c = false ∧ c ≠ 10 ∧ c ≠ 45 := by
  refine ⟨?_, ?_, ?_⟩
  · cases hw : isWs c with
    | false => rfl
    | true =>
      simp [isWs] at hw
      rcases hw with e | e <;> (subst e; revert h; decide)
  · intro e; subst e; revert h; decide
  · intro e; subst e; revert h; decide

theorem tTok_timestamp (d0 : UInt8) (ds' rest : Bytes) (hd0 : isDigitB d0 = true) (hd : ∀ x ∈ ds', isDigitB x = true) :
    tTok sTimestamp (32 :: d0 :: ds' ++ 10 :: rest) = ⟨.timestamp, [32], d0 :: ds', sTimestamp, 10 :: rest⟩ := by
  obtain ⟨hws, h10, _⟩ := isDigitB_props d0 hd0
  have hs1 := scanWhile_span sTimestamp isWs (by decide) d0 (ds' ++ 10 :: rest) hws [32] (by simp [isWs])
  have hs2 := scanWhile_span sTimestamp isDigitB (by decide) 10 rest (by decide) (d0 :: ds')
    (by intro x hx
        cases List.mem_cons.mp hx with
        | inl e => rw [e]; exact hd0
        | inr e => exact hd x e)
  simp only [List.cons_append, List.nil_append, sTimestamp] at hs1 hs2
  have e1 : textLex sTimestamp (32 :: d0 :: (ds' ++ 10 :: rest)) = ⟨.whitespace, [32], sTimestamp, d0 :: (ds' ++ 10 :: rest)⟩ := by
    simp [textLex, textLexFrom, cur, sTimestamp, sValue, sInit, sComment, sMeta1, sMeta2, sLabels, sLValue, isWs]
    rw [hs1 _ (by simp)]
    simp
  have e2 : textLex sTimestamp (d0 :: (ds' ++ 10 :: rest)) = ⟨.timestamp, d0 :: ds', sTimestamp, 10 :: rest⟩ := by
    simp [textLex, textLexFrom, cur, sTimestamp, sValue, sInit, sComment, sMeta1, sMeta2, sLabels, sLValue, hws, h10, hd0]
    rw [hs2 _ (by simp)]
    simp
  simp only [List.cons_append]
  simp [tTok, tNext, e1, e2]

/-- the value token after one space, followed by any byte that cannot continue it -/
theorem tTok_value' (v0 : UInt8) (vt' rest : Bytes) (d : UInt8) (hd : isValChar d = false)
    (hv0 : isValChar v0 = true) (hv : ∀ x ∈ vt', isValChar x = true) :
    tTok sValue (32 :: v0 :: vt' ++ d :: rest) = ⟨.value, [32], v0 :: vt', sTimestamp, d :: rest⟩ := by
  obtain ⟨hws, h123, h10, h0⟩ := isValChar_props v0 hv0
  have hs1 := scanWhile_span sValue isWs (by decide) v0 (vt' ++ d :: rest) hws [32] (by simp [isWs])
  have hs2 := scanWhile_span sValue isValChar (by decide) d rest hd (v0 :: vt')
    (by intro x hx
        cases List.mem_cons.mp hx with
        | inl e => rw [e]; exact hv0
        | inr e => exact hv x e)
  simp only [List.cons_append, List.nil_append, sValue] at hs1 hs2
  have e1 : textLex sValue (32 :: v0 :: (vt' ++ d :: rest)) = ⟨.whitespace, [32], sValue, v0 :: (vt' ++ d :: rest)⟩ := by
    simp [textLex, textLexFrom, cur, sValue, sInit, sComment, sMeta1, sMeta2, sLabels, sLValue, isWs]
    rw [hs1 _ (by simp)]
    simp
  have e2 : textLex sValue (v0 :: (vt' ++ d :: rest)) = ⟨.value, v0 :: vt', sTimestamp, d :: rest⟩ := by
    simp [textLex, textLexFrom, cur, sValue, sInit, sComment, sMeta1, sMeta2, sLabels, sLValue, hws, h123, hv0, sTimestamp]
    rw [hs2 _ (by simp)]
    simp
  simp only [List.cons_append]
  simp [tTok, tNext, e1, e2]

theorem natDec_cons (t : Nat) : ∃ d0 ds', natDec t = d0 :: ds' ∧ isDigitB d0 = true ∧ (∀ x ∈ ds', isDigitB x = true) ∧
    ofDigits ((d0 :: ds').map (fun c => c.toNat - 48)) = t ∧ d0 ≠ 45 := by
  have hne := digits_ne_nil t
  have hlt := digits_lt t
  have hof := ofDigits_digits t
  unfold natDec
  cases hdg : digits t with
  | nil => exact absurd hdg hne
  | cons x xs =>
    rw [hdg] at hlt hof
    have hx := digitByte_props x (hlt x (by simp))
    refine ⟨digitByte x, xs.map digitByte, by simp, hx.1, ?_, ?_, ?_⟩
    · intro y hy
      obtain ⟨z, hz, rfl⟩ := List.mem_map.mp hy
      exact (digitByte_props z (hlt z (by simp [hz]))).1
    · have : (digitByte x :: xs.map digitByte).map (fun c => c.toNat - 48) = x :: xs := by
        simp only [List.map_cons, List.map_map, hx.2]
        congr 1
        conv => rhs; rw [← List.map_id xs]
        apply List.map_congr_left
        intro z hz
        simp [(digitByte_props z (hlt z (by simp [hz]))).2]
      rw [this]; exact hof
    · exact (isDigitB_props _ hx.1).2.2

/-- `Next` on `name SP value SP timestamp LF` (legacy name, no label set, non-negative timestamp) -/
theorem tNextEntry_ts_line (p : TP) (fuel : Nat) (c0 : UInt8) (n' : Bytes) (v0 : UInt8) (vt' rest : Bytes)
    (h0 : isMStart c0 = true) (hn : ∀ x ∈ n', isMChar x = true)
    (hv0 : isValChar v0 = true) (hv : ∀ x ∈ vt', isValChar x = true)
    (v : Nat) (hpf : parseFloat (v0 :: vt') = some v) (t : Nat) (ht : t ≤ maxI64)
    (hl : p.lst = sInit) (hr : p.rest = c0 :: n' ++ 32 :: v0 :: vt' ++ 32 :: natDec t ++ 10 :: rest) :
    tNextEntry (fuel + 1) p =
      .ok (some (.series (c0 :: n') (buildLabels p.tu p.mtype [] (c0 :: n') []) (if isNaNBits v then canonNaN else v) (some (t : Int)) none 0,
                 { p with lst := sInit, rest := rest })) := by
  obtain ⟨d0, ds', hnd, hd0, hds, hof, h45⟩ := natDec_cons t
  rw [hnd] at hr
  have t1 := tTok_mname c0 n' (v0 :: vt' ++ 32 :: d0 :: ds' ++ 10 :: rest) h0 hn 32 (by decide)
  have t2 := tTok_value' v0 vt' (d0 :: ds' ++ 10 :: rest) 32 (by decide) hv0 hv
  have t3 := tTok_timestamp d0 ds' rest hd0 hds
  have t4 := tTok_linebreak rest
  simp only [List.cons_append, List.append_assoc] at t1 t2 t3 hr
  simp only [List.map_cons] at hof
  unfold tNextEntry
  simp only [hl, hr, t1, t2]
  have ht' : ¬ maxI64 < t := by omega
  simp [tParseSuffix, hpf, t3, t4, h45, hof, ht']


end Prom.Expo
