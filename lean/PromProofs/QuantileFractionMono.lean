import PromProofs.QuantileNativeMono
/-
  Helper lemmas for C32, part 7: `HistogramFraction` of a consistent native histogram.  The loop is
  factored into one step per bucket (`hfStepCore`, same text as the model), each bound is shown to be
  ranked by an independent walk (`rankW`), and the rank function is monotone with values in [0, Count].
-/
namespace Prom.Quantile
open FOps

/-! ### the loop, one step at a time (generic) -/

/-- the bucket as `HistogramFraction` uses it (zero bucket cut at 0) -/
def hfB {α : Type} [FOps α] (h : NHist α) (b0 : NBucket α) : NBucket α :=
  if le b0.lower zero && le zero b0.upper then
    (if h.nNeg = 0 && h.nPos > 0 then { b0 with lower := zero }
     else if h.nPos = 0 && h.nNeg > 0 then { b0 with upper := zero } else b0)
  else b0

def hfInterp {α : Type} [FOps α] (fb : α → α → α → α) (h : NHist α) (b0 : NBucket α) (rank : α) (v : α) : α :=
  if h.custom || (le b0.lower zero && le zero b0.upper) then
    (if beq (hfB h b0).lower ninf then (hfB h b0).count
     else add rank (mul (hfB h b0).count (fractionBelow fb (hfB h b0) v true)))
  else add rank (mul (hfB h b0).count (fractionBelow fb (hfB h b0) v false))

def hfSt2 {α : Type} [FOps α] (b : NBucket α) (lower upper : α) (st : FrSt α) : FrSt α :=
  let st1 := if !st.lowerSet && le lower b.lower then { st with lowerRank := st.rank, lowerSet := true } else st
  if !st1.upperSet && le upper b.lower then { st1 with upperRank := st1.rank, upperSet := true } else st1

def hfSt4 {α : Type} [FOps α] (b : NBucket α) (interp : α → α) (lower upper : α) (st2 : FrSt α) : FrSt α :=
  let st3 := if !st2.lowerSet && lt b.lower lower && lt lower b.upper then { st2 with lowerRank := interp lower, lowerSet := true } else st2
  if !st3.upperSet && lt b.lower upper && lt upper b.upper then { st3 with upperRank := interp upper, upperSet := true } else st3

def hfStepCore {α : Type} [FOps α] (b : NBucket α) (interp : α → α) (lower upper : α) (st : FrSt α) : FrSt α × Bool :=
  if (hfSt2 b lower upper st).lowerSet && (hfSt2 b lower upper st).upperSet then (hfSt2 b lower upper st, true)
  else if (hfSt4 b interp lower upper (hfSt2 b lower upper st)).lowerSet && (hfSt4 b interp lower upper (hfSt2 b lower upper st)).upperSet then
    (hfSt4 b interp lower upper (hfSt2 b lower upper st), true)
  else ({ hfSt4 b interp lower upper (hfSt2 b lower upper st) with
          rank := add (hfSt4 b interp lower upper (hfSt2 b lower upper st)).rank b.count }, false)

theorem hfLoop_cons {α : Type} [FOps α] (fb : α → α → α → α) (h : NHist α) (lower upper : α) (st : FrSt α)
    (b0 : NBucket α) (bs : List (NBucket α)) :
    hfLoop fb h lower upper st (b0 :: bs) =
      match hfStepCore (hfB h b0) (hfInterp fb h b0 st.rank) lower upper st with
      | (s, true) => s
      | (s, false) => hfLoop fb h lower upper s bs := by
  have e : hfLoop fb h lower upper st (b0 :: bs) =
      if (hfSt2 (hfB h b0) lower upper st).lowerSet && (hfSt2 (hfB h b0) lower upper st).upperSet then hfSt2 (hfB h b0) lower upper st
      else if (hfSt4 (hfB h b0) (hfInterp fb h b0 st.rank) lower upper (hfSt2 (hfB h b0) lower upper st)).lowerSet &&
          (hfSt4 (hfB h b0) (hfInterp fb h b0 st.rank) lower upper (hfSt2 (hfB h b0) lower upper st)).upperSet then
        hfSt4 (hfB h b0) (hfInterp fb h b0 st.rank) lower upper (hfSt2 (hfB h b0) lower upper st)
      else hfLoop fb h lower upper
        { hfSt4 (hfB h b0) (hfInterp fb h b0 st.rank) lower upper (hfSt2 (hfB h b0) lower upper st) with
          rank := add (hfSt4 (hfB h b0) (hfInterp fb h b0 st.rank) lower upper (hfSt2 (hfB h b0) lower upper st)).rank (hfB h b0).count } bs := rfl
  rw [e]
  unfold hfStepCore
  split
  · rfl
  · split <;> rfl

/-- what one bound gets at one bucket: rank at its lower edge, interpolated inside, nothing above -/
def stepOpt {α : Type} [FOps α] (b : NBucket α) (interp : α → α) (v rank : α) : Option α :=
  if le v b.lower then some rank else if lt b.lower v && lt v b.upper then some (interp v) else none

theorem hfStepCore_eval {α : Type} [FOps α] (b : NBucket α) (interp : α → α) (lo up rank lr ur : α) (ls us : Bool) :
    hfStepCore b interp lo up ⟨rank, lr, ur, ls, us⟩ =
      (⟨if ((if ls then some lr else stepOpt b interp lo rank).isSome && (if us then some ur else stepOpt b interp up rank).isSome)
          then rank else add rank b.count,
        (if ls then some lr else stepOpt b interp lo rank).getD lr,
        (if us then some ur else stepOpt b interp up rank).getD ur,
        (if ls then some lr else stepOpt b interp lo rank).isSome,
        (if us then some ur else stepOpt b interp up rank).isSome⟩,
       (if ls then some lr else stepOpt b interp lo rank).isSome && (if us then some ur else stepOpt b interp up rank).isSome) := by
  unfold hfStepCore hfSt4 hfSt2 stepOpt
  generalize le lo b.lower = p1
  generalize le up b.lower = q1
  generalize (lt b.lower lo) = p2
  generalize (lt lo b.upper) = p3
  generalize (lt b.lower up) = q2
  generalize (lt up b.upper) = q3
  cases ls <;> cases us <;> cases p1 <;> cases q1 <;> cases p2 <;> cases p3 <;> cases q2 <;> cases q3 <;> rfl

def loOpt {α : Type} (st : FrSt α) : Option α := if st.lowerSet then some st.lowerRank else none
def upOpt {α : Type} (st : FrSt α) : Option α := if st.upperSet then some st.upperRank else none

theorem loOpt_mk {α : Type} (r lr ur : α) (ls us : Bool) : loOpt (⟨r, lr, ur, ls, us⟩ : FrSt α) = if ls then some lr else none := rfl
theorem upOpt_mk {α : Type} (r lr ur : α) (ls us : Bool) : upOpt (⟨r, lr, ur, ls, us⟩ : FrSt α) = if us then some ur else none := rfl

/-- the walk of ONE bound through the buckets, at the level of the model's operations -/
def walkOpt {α : Type} [FOps α] (fb : α → α → α → α) (h : NHist α) (v : α) : α → List (NBucket α) → Option α
  | _, [] => none
  | rank, b0 :: bs =>
    match stepOpt (hfB h b0) (hfInterp fb h b0 rank) v rank with
    | some x => some x
    | none => walkOpt fb h v (add rank (hfB h b0).count) bs

/-- The two bounds of `HistogramFraction` are ranked independently of each other: the loop state at exit
    holds, for each bound, what a separate walk for that bound alone finds. -/
theorem hfLoop_split {α : Type} [FOps α] (fb : α → α → α → α) (h : NHist α) (lo up : α) :
    ∀ (bs : List (NBucket α)) (rank lr ur : α) (ls us : Bool),
      loOpt (hfLoop fb h lo up ⟨rank, lr, ur, ls, us⟩ bs) = (if ls then some lr else walkOpt fb h lo rank bs) ∧
      upOpt (hfLoop fb h lo up ⟨rank, lr, ur, ls, us⟩ bs) = (if us then some ur else walkOpt fb h up rank bs) := by
  intro bs
  induction bs with
  | nil =>
    intro rank lr ur ls us
    cases ls <;> cases us <;> simp [hfLoop, loOpt_mk, upOpt_mk, walkOpt]
  | cons b0 bs ih =>
    intro rank lr ur ls us
    rw [hfLoop_cons, hfStepCore_eval]
    simp only [walkOpt]
    generalize stepOpt (hfB h b0) (hfInterp fb h b0 rank) lo rank = sl
    generalize stepOpt (hfB h b0) (hfInterp fb h b0 rank) up rank = su
    cases ls <;> cases us <;> cases sl <;> cases su <;>
      simp [loOpt_mk, upOpt_mk, ih]

/-! ### rational view -/

/-- bounds of the bucket as `HistogramFraction` uses them -/
def aLo (h : NHist XR) (b : RB) : Rat :=
  if decide (b.l ≤ 0) && decide (0 ≤ b.u) && (h.nNeg = 0 && h.nPos > 0) then 0 else b.l
def aHi (h : NHist XR) (b : RB) : Rat :=
  if decide (b.l ≤ 0) && decide (0 ≤ b.u) && !(h.nNeg = 0 && h.nPos > 0) && (h.nPos = 0 && h.nNeg > 0) then 0 else b.u

theorem a_bounds (h : NHist XR) (b : RB) (hb : b.l ≤ b.u) : b.l ≤ aLo h b ∧ aLo h b ≤ aHi h b ∧ aHi h b ≤ b.u := by
  unfold aLo aHi
  generalize (decide (h.nNeg = 0) && decide (h.nPos > 0)) = A
  generalize (decide (h.nPos = 0) && decide (h.nNeg > 0)) = B
  by_cases c2 : b.l ≤ 0 <;> by_cases c3 : 0 ≤ b.u <;> cases A <;> cases B <;> simp [c2, c3] <;> grind

theorem a_nonzero (h : NHist XR) (b : RB) (hz : (decide (b.l ≤ 0) && decide (0 ≤ b.u)) = false) :
    aLo h b = b.l ∧ aHi h b = b.u := by
  unfold aLo aHi
  simp [hz]

theorem hfB_eval (h : NHist XR) (b : RB) : hfB h b.toN = ⟨.fin (aLo h b), .fin (aHi h b), .fin b.c⟩ := by
  unfold hfB aLo aHi
  generalize (decide (h.nNeg = 0) && decide (h.nPos > 0)) = A
  generalize (decide (h.nPos = 0) && decide (h.nNeg > 0)) = B
  by_cases c2 : b.l ≤ 0 <;> by_cases c3 : 0 ≤ b.u <;> cases A <;> cases B <;> simp [c2, c3, RB.toN]

/-- in-bucket fraction below `v` (linear for custom and zero buckets, `fb` otherwise) -/
def inB (fb : XR → XR → XR → XR) (h : NHist XR) (b : RB) (v : Rat) : Rat :=
  if h.custom || (decide (b.l ≤ 0) && decide (0 ≤ b.u)) then (v - aLo h b) / (aHi h b - aLo h b)
  else ratOf (fb (.fin b.l) (.fin b.u) (.fin v))

theorem hfInterp_eval (fb : XR → XR → XR → XR) (h : NHist XR) (b : RB) (a v : Rat)
    (h1 : aLo h b < v) (h2 : v < aHi h b) (hfin : ∃ f, fb (.fin b.l) (.fin b.u) (.fin v) = .fin f) :
    hfInterp fb h b.toN (.fin a) (.fin v) = .fin (a + b.c * inB fb h b v) := by
  unfold hfInterp inB
  rw [hfB_eval]
  have hne : aHi h b - aLo h b ≠ 0 := by grind
  by_cases lin : (h.custom || (decide (b.l ≤ 0) && decide (0 ≤ b.u))) = true
  · have : (h.custom || (FOps.le b.toN.lower FOps.zero && FOps.le FOps.zero b.toN.upper)) = true := by
      simpa [RB.toN] using lin
    rw [if_pos this, if_pos lin]
    simp [fractionBelow, XR.beq, XR.div_fin _ _ hne]
  · have : ¬ (h.custom || (FOps.le b.toN.lower FOps.zero && FOps.le FOps.zero b.toN.upper)) = true := by
      simpa [RB.toN] using lin
    rw [if_neg this, if_neg lin]
    have hz : (decide (b.l ≤ 0) && decide (0 ≤ b.u)) = false := by
      cases hh : (decide (b.l ≤ 0) && decide (0 ≤ b.u))
      · rfl
      · simp [hh] at lin
    obtain ⟨e1, e2⟩ := a_nonzero h b hz
    obtain ⟨f, hf⟩ := hfin
    simp [fractionBelow, e1, e2, hf, ratOf]

/-- the walk of one bound, on rationals: the cumulative count at `v` (`none`: `v` lies above all buckets) -/
def rankW (fb : XR → XR → XR → XR) (h : NHist XR) (v : Rat) : Rat → List RB → Option Rat
  | _, [] => none
  | a, b :: bs =>
    if v ≤ aLo h b then some a
    else if v < aHi h b then some (a + b.c * inB fb h b v)
    else rankW fb h v (a + b.c) bs

theorem walkOpt_eval (fb : XR → XR → XR → XR) (h : NHist XR) (v : Rat) :
    ∀ (L : List RB) (a : Rat), (∀ b ∈ L, b.l ≤ b.u) →
      (∀ b ∈ L, b.l < v → v < b.u → ∃ f, fb (.fin b.l) (.fin b.u) (.fin v) = .fin f) →
      walkOpt fb h (.fin v) (.fin a) (L.map RB.toN) = (rankW fb h v a L).map XR.fin := by
  intro L
  induction L with
  | nil => intro a _ _; simp [walkOpt, rankW]
  | cons b bs ih =>
    intro a ok FB
    have hb := ok b (by simp)
    obtain ⟨b1, b2, b3⟩ := a_bounds h b hb
    simp only [List.map_cons, walkOpt, rankW]
    rw [hfB_eval]
    simp only [stepOpt, fops_le, fops_lt, XR.le_fin, XR.lt_fin]
    by_cases c1 : v ≤ aLo h b
    · simp [c1]
    · have c1' : aLo h b < v := by grind
      by_cases c2 : v < aHi h b
      · have := hfInterp_eval fb h b a v c1' c2 (FB b (by simp) (by grind) (by grind))
        simp [c1, c1', c2, this]
      · simp only [c1, c2, decide_false, Bool.and_false, Bool.false_eq_true, if_false, fops_add, XR.add_fin]
        exact ih (a + b.c) (fun x hx => ok x (by simp [hx])) (fun x hx => FB x (by simp [hx]))

theorem inB_mono (fb : XR → XR → XR → XR) (h : NHist XR)
    (FBm : ∀ l u v1 v2 : Rat, l < v1 → v1 ≤ v2 → v2 < u → ∃ f1 f2, fb (.fin l) (.fin u) (.fin v1) = .fin f1 ∧
        fb (.fin l) (.fin u) (.fin v2) = .fin f2 ∧ 0 ≤ f1 ∧ f1 ≤ f2 ∧ f2 ≤ 1)
    (b : RB) (v1 v2 : Rat) (h1 : aLo h b < v1) (h12 : v1 ≤ v2) (h2 : v2 < aHi h b) :
    0 ≤ inB fb h b v1 ∧ inB fb h b v1 ≤ inB fb h b v2 ∧ inB fb h b v2 ≤ 1 := by
  unfold inB
  split
  · have hw : 0 < aHi h b - aLo h b := by grind
    exact ⟨rat_div_nonneg (by grind) hw, rat_div_mono (by grind) hw, rat_div_le_one (by grind) hw⟩
  · rename_i lin
    have hz : (decide (b.l ≤ 0) && decide (0 ≤ b.u)) = false := by
      cases hh : (decide (b.l ≤ 0) && decide (0 ≤ b.u))
      · rfl
      · simp [hh] at lin
    obtain ⟨e1, e2⟩ := a_nonzero h b hz
    obtain ⟨f1, f2, hf1, hf2, p1, p2, p3⟩ := FBm b.l b.u v1 v2 (by grind) h12 (by grind)
    simp only [hf1, hf2, ratOf]
    exact ⟨p1, p2, p3⟩

/-- cumulative count at `v`, total (= everything when `v` is above all buckets) -/
def rankT (fb : XR → XR → XR → XR) (h : NHist XR) (v a : Rat) (L : List RB) : Rat :=
  (rankW fb h v a L).getD (a + total L)

theorem mul_unit_bounds {c i : Rat} (hc : 0 ≤ c) (h0 : 0 ≤ i) (h1 : i ≤ 1) : 0 ≤ c * i ∧ c * i ≤ c := by
  have := Rat.mul_le_mul_of_nonneg_left h1 hc
  exact ⟨Rat.mul_nonneg hc h0, by grind⟩

/-- the rank function is monotone in `v` and stays within `[a, a + total]` -/
theorem rankT_mono (fb : XR → XR → XR → XR) (h : NHist XR)
    (FBm : ∀ l u v1 v2 : Rat, l < v1 → v1 ≤ v2 → v2 < u → ∃ f1 f2, fb (.fin l) (.fin u) (.fin v1) = .fin f1 ∧
        fb (.fin l) (.fin u) (.fin v2) = .fin f2 ∧ 0 ≤ f1 ∧ f1 ≤ f2 ∧ f2 ≤ 1)
    (v1 v2 : Rat) (h12 : v1 ≤ v2) :
    ∀ (L : List RB) (a : Rat), (∀ b ∈ L, b.l ≤ b.u ∧ 0 ≤ b.c) →
      a ≤ rankT fb h v1 a L ∧ rankT fb h v1 a L ≤ rankT fb h v2 a L ∧ rankT fb h v2 a L ≤ a + total L := by
  intro L
  induction L with
  | nil => intro a _; simp only [rankT, rankW, Option.getD_none, total]; grind
  | cons b bs ih =>
    intro a ok
    obtain ⟨hb, hc⟩ := ok b (by simp)
    have okbs : ∀ x ∈ bs, x.l ≤ x.u ∧ 0 ≤ x.c := fun x hx => ok x (by simp [hx])
    have tb := total_nonneg bs (fun x hx => (okbs x hx).2)
    obtain ⟨b1, b2, b3⟩ := a_bounds h b hb
    obtain ⟨i1, i2, i3⟩ := ih (a + b.c) okbs
    have rec1 : ∀ v, ¬ v ≤ aLo h b → ¬ v < aHi h b → rankT fb h v a (b :: bs) = rankT fb h v (a + b.c) bs := by
      intro v c1 c2
      simp only [rankT, rankW, c1, c2, if_false, total]
      congr 1; grind
    have in1 : ∀ v, ¬ v ≤ aLo h b → v < aHi h b → rankT fb h v a (b :: bs) = a + b.c * inB fb h b v := by
      intro v c1 c2
      simp [rankT, rankW, c1, c2]
    have lo1 : ∀ v, v ≤ aLo h b → rankT fb h v a (b :: bs) = a := by
      intro v c1
      simp [rankT, rankW, c1]
    simp only [total]
    by_cases c2 : v2 ≤ aLo h b
    · rw [lo1 v1 (by grind), lo1 v2 c2]; grind
    · by_cases c1 : v1 ≤ aLo h b
      · rw [lo1 v1 c1]
        by_cases d2 : v2 < aHi h b
        · rw [in1 v2 c2 d2]
          obtain ⟨p1, _, p3⟩ := inB_mono fb h FBm b v2 v2 (by grind) Rat.le_refl d2
          obtain ⟨m1, m2⟩ := mul_unit_bounds hc p1 p3
          grind
        · rw [rec1 v2 c2 d2]
          obtain ⟨j1, j2, j3⟩ := ih (a + b.c) okbs
          grind
      · by_cases d1 : v1 < aHi h b
        · rw [in1 v1 c1 d1]
          obtain ⟨p1, _, p3⟩ := inB_mono fb h FBm b v1 v1 (by grind) Rat.le_refl d1
          obtain ⟨m1, m2⟩ := mul_unit_bounds hc p1 p3
          by_cases d2 : v2 < aHi h b
          · rw [in1 v2 c2 d2]
            obtain ⟨q1, q2, q3⟩ := inB_mono fb h FBm b v1 v2 (by grind) h12 d2
            obtain ⟨n1, n2⟩ := mul_unit_bounds hc (by grind : 0 ≤ inB fb h b v2) q3
            have := Rat.mul_le_mul_of_nonneg_left q2 hc
            grind
          · rw [rec1 v2 c2 d2]
            grind
        · rw [rec1 v1 c1 d1, rec1 v2 c2 (by grind)]
          grind

theorem final_rank (st : FrSt XR) (N : Rat) (o : Option Rat) (e : loOpt st = o.map XR.fin) (hle : ∀ x, o = some x → x ≤ N) :
    (if !st.lowerSet || XR.lt (.fin N) st.lowerRank then XR.fin N else st.lowerRank) = .fin (o.getD N) := by
  unfold loOpt at e
  cases o with
  | none =>
    have : st.lowerSet = false := by
      cases hh : st.lowerSet
      · rfl
      · simp [hh] at e
    simp [this]
  | some x =>
    have hx := hle x rfl
    have h1 : st.lowerSet = true := by
      cases hh : st.lowerSet
      · simp [hh] at e
      · rfl
    have h2 : st.lowerRank = .fin x := by simpa [h1] using e
    have : ¬ N < x := by grind
    simp [h1, h2, this]

theorem final_rank_up (st : FrSt XR) (N : Rat) (o : Option Rat) (e : upOpt st = o.map XR.fin) (hle : ∀ x, o = some x → x ≤ N) :
    (if !st.upperSet || XR.lt (.fin N) st.upperRank then XR.fin N else st.upperRank) = .fin (o.getD N) := by
  unfold upOpt at e
  cases o with
  | none =>
    have : st.upperSet = false := by
      cases hh : st.upperSet
      · rfl
      · simp [hh] at e
    simp [this]
  | some x =>
    have hx := hle x rfl
    have h1 : st.upperSet = true := by
      cases hh : st.upperSet
      · simp [hh] at e
      · rfl
    have h2 : st.upperRank = .fin x := by simpa [h1] using e
    have : ¬ N < x := by grind
    simp [h1, h2, this]

/-- `HistogramFraction(lo, up, h)` of a consistent histogram is `(rank(up) - rank(lo)) / Count` -/
theorem hf_val (fb : XR → XR → XR → XR) {h : NHist XR} {L : List RB} {N : Rat} (R : RHist h L N)
    (FBm : ∀ l u v1 v2 : Rat, l < v1 → v1 ≤ v2 → v2 < u → ∃ f1 f2, fb (.fin l) (.fin u) (.fin v1) = .fin f1 ∧
        fb (.fin l) (.fin u) (.fin v2) = .fin f2 ∧ 0 ≤ f1 ∧ f1 ≤ f2 ∧ f2 ≤ 1)
    (lo up : Rat) (hlu : lo ≤ up) :
    histogramFraction fb (.fin lo) (.fin up) h = .fin ((rankT fb h up 0 L - rankT fb h lo 0 L) / N) := by
  have hcount : (if XR.isNaN h.sum = true then sumCounts (XR.fin 0) h.fwd else XR.fin N) = XR.fin N := by
    split
    · rw [R.fwd, sumCounts_map, R.tot]; congr 1; grind
    · rfl
  have hN0 : N ≠ 0 := by have := R.pos; grind
  have okl : ∀ b ∈ L, b.l ≤ b.u := fun b hb => (R.ok b hb).1
  have FB : ∀ v, ∀ b ∈ L, b.l < v → v < b.u → ∃ f, fb (.fin b.l) (.fin b.u) (.fin v) = .fin f := by
    intro v b _ h1 h2
    obtain ⟨f, _, hf, _⟩ := FBm b.l b.u v v h1 Rat.le_refl h2
    exact ⟨f, hf⟩
  unfold histogramFraction
  simp only [fops_beq, fops_zero, R.count, XR.beq_fin, hN0, decide_false, fops_isNaN, XR.isNaN_fin, Bool.or_false,
    Bool.false_eq_true, if_false, fops_le, XR.le_fin, hcount]
  by_cases heq : up ≤ lo
  · have : lo = up := by grind
    subst this
    have : rankT fb h lo 0 L - rankT fb h lo 0 L = 0 := by grind
    simp [this, Rat.div_def]
  · simp only [heq, decide_false, Bool.false_eq_true, if_false]
    obtain ⟨s1, s2⟩ := hfLoop_split fb h (.fin lo) (.fin up) h.fwd (.fin 0) (.fin 0) (.fin 0) false false
    simp only [Bool.false_eq_true, if_false, R.fwd] at s1 s2
    rw [walkOpt_eval fb h lo L 0 okl (FB lo)] at s1
    rw [walkOpt_eval fb h up L 0 okl (FB up)] at s2
    have ht : (0 : Rat) + total L = N := by rw [R.tot]; grind
    have b1 : ∀ x, rankW fb h lo 0 L = some x → x ≤ N := by
      intro x hx
      have := (rankT_mono fb h FBm lo lo Rat.le_refl L 0 R.ok).2.2
      simp only [rankT, hx, Option.getD_some] at this
      grind
    have b2 : ∀ x, rankW fb h up 0 L = some x → x ≤ N := by
      intro x hx
      have := (rankT_mono fb h FBm up up Rat.le_refl L 0 R.ok).2.2
      simp only [rankT, hx, Option.getD_some] at this
      grind
    have f1 := final_rank _ N _ s1 b1
    have f2 := final_rank_up _ N _ s2 b2
    simp only [R.fwd, fops_lt] at f1 f2 ⊢
    rw [f1, f2]
    simp only [fops_div, fops_sub, XR.sub_fin, XR.div_fin _ _ hN0, rankT, ht]

/-- fraction ∈ [0,1] and monotone under interval nesting -/
theorem fraction_core (fb : XR → XR → XR → XR) {h : NHist XR} {L : List RB} {N : Rat} (R : RHist h L N)
    (FBm : ∀ l u v1 v2 : Rat, l < v1 → v1 ≤ v2 → v2 < u → ∃ f1 f2, fb (.fin l) (.fin u) (.fin v1) = .fin f1 ∧
        fb (.fin l) (.fin u) (.fin v2) = .fin f2 ∧ 0 ≤ f1 ∧ f1 ≤ f2 ∧ f2 ≤ 1)
    (lo1 up1 lo2 up2 : Rat) (h1 : lo2 ≤ lo1) (h2 : lo1 ≤ up1) (h3 : up1 ≤ up2) :
    ∃ f1 f2, histogramFraction fb (.fin lo1) (.fin up1) h = .fin f1 ∧ histogramFraction fb (.fin lo2) (.fin up2) h = .fin f2 ∧
      0 ≤ f1 ∧ f1 ≤ f2 ∧ f2 ≤ 1 := by
  refine ⟨_, _, hf_val fb R FBm lo1 up1 h2, hf_val fb R FBm lo2 up2 (by grind), ?_, ?_, ?_⟩
  · have := (rankT_mono fb h FBm lo1 up1 h2 L 0 R.ok).2.1
    exact rat_div_nonneg (by grind) R.pos
  · have a := (rankT_mono fb h FBm up1 up2 h3 L 0 R.ok).2.1
    have b := (rankT_mono fb h FBm lo2 lo1 h1 L 0 R.ok).2.1
    exact rat_div_mono (by grind) R.pos
  · have a := (rankT_mono fb h FBm up2 up2 Rat.le_refl L 0 R.ok).2.2
    have b := (rankT_mono fb h FBm lo2 lo2 Rat.le_refl L 0 R.ok).1
    have := R.tot
    exact rat_div_le_one (by grind) R.pos

end Prom.Quantile
