import PromProofs.DbRun2
import PromProofs.DbReplayLemmas
/-
  C01 refinement, restart: the WAL invariant.

  `rep c wal` is the head the WAL replay builds with cutoff `c` (`Db.reopen` uses `c = maxBlk blocks`).
  `Rel c d h`: how the replayed head `h` relates to the live state `d` — it holds every live physical
  sample at or above the cutoff, every other replayed sample is older than `d.minValid` and hidden by a
  replayed tombstone, and live samples are visible in `h` iff they are visible in `d`.
  The invariant carried along a history is `Rel c d (rep c d.wal)` for EVERY cutoff `c ≥ maxBlk d.blocks`
  (compaction raises the cutoff; `CleanTombstones` may lower it — finding F30 — which is excluded by a
  side condition).
-/
namespace Prom.Db
open Prom.Intervals

/-- The replayed head for cutoff `c` (only its `series` matter). -/
def rep (c : Int) (wal : List Rec) : Db := (reFold c { cfg := ⟨0, 0⟩ } wal).1

/-- Window facts not contained in `Inv`. -/
structure XInv (d : Db) : Prop where
  x1 : d.minValid ≤ d.minT
  x2 : d.maxT = MinI64 → d.minValid = MinI64
  x3 : MinI64 ≤ d.maxT
  blkMaxt : maxBlk d.blocks ≤ d.minValid
  appMV : ∀ a, d.app = some a → a.init = false → d.minValid ≤ a.minValid

structure Rel (c : Int) (d h : Db) : Prop where
  rinv : RInv c h
  sub : ∀ i x, x ∈ (d.getSeries i).phys → c ≤ x.t → x ∈ (h.getSeries i).phys
  sup : ∀ i x, x ∈ (h.getSeries i).phys →
    x ∈ (d.getSeries i).phys ∨ (x.t < d.minValid ∧ visible (h.getSeries i).tombs x = false)
  vis : ∀ i x, x ∈ (d.getSeries i).phys → c ≤ x.t →
    visible (h.getSeries i).tombs x = visible (d.getSeries i).tombs x
  tombHi : ∀ i iv, iv ∈ (h.getSeries i).tombs → ∀ l, (h.getSeries i).phys.getLast? = some l → iv.maxt ≤ l.t
  tombsOk : ∀ i, TombsOk (h.getSeries i).tombs
  phys64 : ∀ i x, x ∈ (h.getSeries i).phys → MinI64 ≤ x.t ∧ x.t < MaxI64

/-- The WAL invariant. -/
def WalInv (d : Db) : Prop := ∀ c, maxBlk d.blocks ≤ c → Rel c d (rep c d.wal)

/-- Everything carried along a history with restarts. -/
structure WGood (d : Db) (r : Ref) : Prop where
  good : Good d r
  tinv : TInv d
  xinv : XInv d
  wal : WalInv d

theorem Rel.congr {c : Int} {d d' h : Db} (hR : Rel c d h) (hs : d'.series = d.series)
    (hm : d'.minValid = d.minValid) : Rel c d' h := by
  have hg : ∀ i, d'.getSeries i = d.getSeries i := fun i => getSeries_congr hs i
  refine ⟨hR.rinv, ?_, ?_, ?_, hR.tombHi, hR.tombsOk, hR.phys64⟩
  · intro i x hx; rw [hg] at hx; exact hR.sub i x hx
  · intro i x hx; rw [hg, hm]; exact hR.sup i x hx
  · intro i x hx; rw [hg] at hx ⊢; exact hR.vis i x hx

end Prom.Db
