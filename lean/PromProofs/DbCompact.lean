import PromProofs.DbOps
/-
  C01 refinement: head compaction (`DB.Compact`) moves the visible samples below the block boundary
  into a new block and drops them from the head; no visible sample changes.
-/
namespace Prom.Db
open Prom.Intervals

theorem lt_rangeFor (t w : Int) (hw : 0 < w) : t < rangeForTimestamp t w := by
  unfold rangeForTimestamp
  have h1 := Int.tmod_def t w
  have h2 := Int.tmod_lt_of_pos t hw
  have : t.tdiv w * w = w * t.tdiv w := Int.mul_comm _ _
  omega

def cMaxt (d : Db) : Int := rangeForTimestamp d.minT d.cfg.chunkRange

def cBser (d : Db) : List BSeries := d.series.filterMap fun s =>
  let xs := s.phys.filter fun x => d.minT ≤ x.t ∧ x.t ≤ cMaxt d - 1 ∧ visible s.tombs x
  if xs.isEmpty then none else some ⟨s.idx, xs, []⟩

def cBlocks (d : Db) : List Block :=
  if (cBser d).isEmpty then d.blocks else d.blocks ++ [⟨d.minT, cMaxt d, cBser d⟩]

def cSeries (d : Db) : List HSeries := d.series.filterMap fun s =>
  let xs := s.phys.filter fun x => x.t ≥ cMaxt d
  if xs.isEmpty then none else some { s with phys := xs, tombs := s.tombs.filter fun iv => iv.maxt ≥ cMaxt d }

def actualMint (ss : List HSeries) : Int :=
  ss.foldl (fun m s => match s.phys.head? with | some f => min m f.t | none => m) MaxI64

def adjust (d3 : Db) : Db :=
  if actualMint d3.series > d3.minT then
    if actualMint d3.series < d3.appendableMinValid then
      { d3 with minT := actualMint d3.series, minValid := actualMint d3.series }
    else { d3 with minT := d3.appendableMinValid, minValid := d3.appendableMinValid }
  else d3


def trunc (d1 : Db) (maxt : Int) : Db :=
  if d1.minT ≥ maxt then d1 else
  adjust { d1 with minT := maxt, minValid := maxt, maxT := if d1.maxT < maxt then maxt else d1.maxT,
                   series := d1.series.filterMap fun s =>
                     let xs := s.phys.filter fun x => x.t ≥ maxt
                     if xs.isEmpty then none else some { s with phys := xs, tombs := s.tombs.filter fun iv => iv.maxt ≥ maxt } }

theorem compactHeadOnce_eq0 (d : Db) :
    d.compactHeadOnce = trunc (if (cBser d).isEmpty then d else { d with blocks := d.blocks ++ [⟨d.minT, cMaxt d, cBser d⟩] }) (cMaxt d) := rfl

theorem compactHeadOnce_eq (d : Db) (h : d.minT < cMaxt d) :
    d.compactHeadOnce = adjust { d with blocks := cBlocks d, series := cSeries d, minT := cMaxt d, minValid := cMaxt d, maxT := if d.maxT < cMaxt d then cMaxt d else d.maxT } := by
  have h' : ¬ d.minT ≥ cMaxt d := by omega
  rw [compactHeadOnce_eq0]
  unfold cBlocks
  by_cases hb : (cBser d).isEmpty
  · simp only [hb, if_true]
    unfold trunc
    rw [if_neg h']
    rfl
  · simp only [hb]
    unfold trunc
    simp only [Bool.false_eq_true, if_false]
    rw [if_neg h']
    rfl

theorem actualMint_fold_le : ∀ (ss : List HSeries) (m : Int),
    ss.foldl (fun m s => match s.phys.head? with | some f => min m f.t | none => m) m ≤ m ∧
    ∀ s ∈ ss, ∀ f0, s.phys.head? = some f0 →
      ss.foldl (fun m s => match s.phys.head? with | some f => min m f.t | none => m) m ≤ f0.t
  | [], m => by simp
  | s :: ss, m => by
    simp only [List.foldl_cons]
    have ih := actualMint_fold_le ss (match s.phys.head? with | some f => min m f.t | none => m)
    constructor
    · have := ih.1
      cases h : s.phys.head? with
      | none => simp only [h] at this ⊢; exact this
      | some f => simp only [h] at this ⊢; omega
    · intro u hu f0 hf0
      rw [List.mem_cons] at hu
      rcases hu with rfl | hu
      · have := ih.1
        simp only [hf0] at this ⊢; omega
      · exact ih.2 u hu f0 hf0

theorem actualMint_le {ss : List HSeries} (hinc : ∀ s ∈ ss, SInc s.phys) :
    ∀ s ∈ ss, ∀ x ∈ s.phys, actualMint ss ≤ x.t := by
  intro s hs x hx
  cases hf : s.phys.head? with
  | none => have : s.phys = [] := by simpa using hf
            rw [this] at hx; simp at hx
  | some f0 =>
    have h1 := (actualMint_fold_le ss MaxI64).2 s hs f0 hf
    have h2 := (hinc s hs).head_le hf x hx
    unfold actualMint; omega

theorem adjust_spec (d3 : Db) (hinc : ∀ s ∈ d3.series, SInc s.phys) (hv : d3.minValid = d3.minT) :
    ∃ mT mV, adjust d3 = { d3 with minT := mT, minValid := mV } ∧ d3.minT ≤ mT ∧ d3.minValid ≤ mV ∧
      (∀ s ∈ d3.series, ∀ x ∈ s.phys, d3.minT ≤ x.t → mT ≤ x.t) := by
  unfold adjust
  split
  · rename_i h1
    split
    · rename_i h2
      refine ⟨_, _, rfl, by omega, by omega, ?_⟩
      intro s hs x hx _
      exact actualMint_le hinc s hs x hx
    · rename_i h2
      refine ⟨_, _, rfl, ?_, ?_, ?_⟩
      · simp only [Db.appendableMinValid]; omega
      · simp only [Db.appendableMinValid]; omega
      · intro s hs x hx _
        have := actualMint_le hinc s hs x hx
        omega
  · exact ⟨d3.minT, d3.minValid, rfl, by omega, by omega, fun s hs x hx h => h⟩

theorem mem_cSeries {d : Db} {s' : HSeries} :
    s' ∈ cSeries d ↔ ∃ s ∈ d.series, (s.phys.filter fun x => x.t ≥ cMaxt d) ≠ [] ∧
      s' = { s with phys := s.phys.filter fun x => x.t ≥ cMaxt d,
                    tombs := s.tombs.filter fun iv => iv.maxt ≥ cMaxt d } := by
  unfold cSeries
  rw [List.mem_filterMap]
  constructor
  · rintro ⟨s, hs, h⟩
    refine ⟨s, hs, ?_⟩
    simp only at h
    split at h
    · simp at h
    · rename_i hne
      simp only [Option.some.injEq] at h
      exact ⟨by simpa using hne, h.symm⟩
  · rintro ⟨s, hs, hne, rfl⟩
    refine ⟨s, hs, ?_⟩
    simp only
    rw [if_neg (by simpa using hne)]

theorem mem_cBser {d : Db} {bs : BSeries} :
    bs ∈ cBser d ↔ ∃ s ∈ d.series,
      (s.phys.filter fun x => d.minT ≤ x.t ∧ x.t ≤ cMaxt d - 1 ∧ visible s.tombs x) ≠ [] ∧
      bs = ⟨s.idx, s.phys.filter fun x => d.minT ≤ x.t ∧ x.t ≤ cMaxt d - 1 ∧ visible s.tombs x, []⟩ := by
  unfold cBser
  rw [List.mem_filterMap]
  constructor
  · rintro ⟨s, hs, h⟩
    refine ⟨s, hs, ?_⟩
    simp only at h
    split at h
    · simp at h
    · rename_i hne
      simp only [Option.some.injEq] at h
      exact ⟨by simpa using hne, h.symm⟩
  · rintro ⟨s, hs, hne, rfl⟩
    refine ⟨s, hs, ?_⟩
    simp only
    rw [if_neg (by simpa using hne)]

theorem mem_cBlocks {d : Db} {b : Block} :
    b ∈ cBlocks d ↔ b ∈ d.blocks ∨ (cBser d ≠ [] ∧ b = ⟨d.minT, cMaxt d, cBser d⟩) := by
  unfold cBlocks
  split
  · rename_i h
    have : cBser d = [] := by simpa using h
    simp [this]
  · rename_i h
    have : cBser d ≠ [] := by simpa using h
    simp [this]

theorem visible_filter_tombs {tombs : Intervals} {x : Smp} {m : Int} (hx : m ≤ x.t) :
    visible (tombs.filter fun iv => iv.maxt ≥ m) x = visible tombs x := by
  have : coversB (tombs.filter fun iv => iv.maxt ≥ m) x.t = coversB tombs x.t := by
    unfold coversB
    induction tombs with
    | nil => rfl
    | cons iv ivs ih =>
      simp only [List.filter_cons]
      by_cases h2 : iv.maxt ≥ m
      · simp only [h2, decide_true, if_true, List.any_cons, ih]
      · have : ¬ (iv.mint ≤ x.t ∧ x.t ≤ iv.maxt) := by omega
        simp only [h2, decide_false, Bool.false_eq_true, if_false, List.any_cons, this, Bool.false_or, ih]
  simp only [visible, this]

theorem visible_nil (x : Smp) : visible [] x = true := rfl


/-- (c) One head compaction preserves the refinement relation (no appender open). -/
theorem compactHeadOnce_preserves {d : Db} {r : Ref} (hG : Good d r) (happ : d.app = none) :
    Good d.compactHeadOnce r ∧ d.compactHeadOnce.app = none := by
  have hI := hG.inv
  have hS := hG.sim
  have hlt : d.minT < cMaxt d := lt_rangeFor d.minT d.cfg.chunkRange hG.cr
  rw [compactHeadOnce_eq d hlt]
  have hincC : ∀ s' ∈ cSeries d, SInc s'.phys := by
    intro s' hs'
    obtain ⟨s, hs, _, rfl⟩ := mem_cSeries.1 hs'
    exact (hI.physInc s hs).filter _
  obtain ⟨mT, mV, he, h1, h2, h3⟩ := adjust_spec
    { d with blocks := cBlocks d, series := cSeries d, minT := cMaxt d, minValid := cMaxt d,
             maxT := if d.maxT < cMaxt d then cMaxt d else d.maxT } hincC rfl
  rw [he]
  simp only at h1 h2 h3
  refine ⟨⟨⟨?_, ?_⟩, ?_, ⟨hS.sinc, ?_, ?_⟩, hG.ooo, hG.cr⟩, happ⟩
  · -- InvS
    refine
      { idxNodup := ?_, physInc := hincC, physNe := ?_, physLo := ?_, physHi := ?_, physMax := ?_,
        tombHi := ?_, blkInc := ?_, blkRange := ?_, blkLtMinT := ?_, blkLtMinValid := ?_,
        blkLtMaxT := ?_, blkMax := ?_ }
    · show (cSeries d).Pairwise _
      unfold cSeries
      rw [List.pairwise_filterMap]
      apply hI.idxNodup.imp
      intro a b hab a' ha' b' hb'
      simp only at ha' hb'
      split at ha' <;> split at hb' <;> simp only [Option.some.injEq, reduceCtorEq] at ha' hb'
      subst ha' hb'; exact hab
    · intro s' hs'
      obtain ⟨s, hs, hne, rfl⟩ := mem_cSeries.1 hs'
      exact hne
    · intro s' hs' x hx
      apply h3 s' hs' x hx
      obtain ⟨s, hs, hne, rfl⟩ := mem_cSeries.1 hs'
      simp only [List.mem_filter, decide_eq_true_eq] at hx
      exact hx.2
    · intro s' hs' x hx
      obtain ⟨s, hs, hne, rfl⟩ := mem_cSeries.1 hs'
      simp only [List.mem_filter, decide_eq_true_eq] at hx
      have := hI.physHi s hs x hx.1
      simp only; split <;> omega
    · intro s' hs' x hx
      obtain ⟨s, hs, hne, rfl⟩ := mem_cSeries.1 hs'
      simp only [List.mem_filter, decide_eq_true_eq] at hx
      exact hI.physMax s hs x hx.1
    · intro s' hs' iv hiv l hl
      obtain ⟨s, hs, hne, rfl⟩ := mem_cSeries.1 hs'
      simp only at hiv hl
      have hlm := getLast?_mem hl
      simp only [List.mem_filter, decide_eq_true_eq] at hlm hiv
      cases hlo : s.phys.getLast? with
      | none => have : s.phys = [] := by simpa using hlo
                rw [this] at hlm; simp at hlm
      | some lo =>
        have h4 := hI.tombHi s hs iv hiv.1 lo hlo
        have h5 := (hI.physInc s hs).le_getLast hlo l hlm.1
        have hlom : lo ∈ s.phys.filter fun x => x.t ≥ cMaxt d := by
          simp only [List.mem_filter, decide_eq_true_eq]
          exact ⟨getLast?_mem hlo, by omega⟩
        have h6 := ((hI.physInc s hs).filter _).le_getLast hl lo hlom
        omega
    · intro b hb s hs
      rcases mem_cBlocks.1 hb with hb | ⟨_, rfl⟩
      · exact hI.blkInc b hb s hs
      · obtain ⟨u, hu, _, rfl⟩ := mem_cBser.1 hs
        exact (hI.physInc u hu).filter _
    · intro b hb s hs x hx
      rcases mem_cBlocks.1 hb with hb | ⟨_, rfl⟩
      · exact hI.blkRange b hb s hs x hx
      · obtain ⟨u, hu, _, rfl⟩ := mem_cBser.1 hs
        simp only [List.mem_filter, decide_eq_true_eq] at hx
        simp only; omega
    · intro b hb s hs x hx
      show x.t < mT
      rcases mem_cBlocks.1 hb with hb | ⟨_, rfl⟩
      · have := hI.blkLtMinT b hb s hs x hx
        simp only at this; omega
      · obtain ⟨u, hu, _, rfl⟩ := mem_cBser.1 hs
        simp only [List.mem_filter, decide_eq_true_eq] at hx
        omega
    · intro b hb s hs x hx
      show x.t < mV
      rcases mem_cBlocks.1 hb with hb | ⟨_, rfl⟩
      · have := hI.blkLtMinT b hb s hs x hx
        simp only at this; omega
      · obtain ⟨u, hu, _, rfl⟩ := mem_cBser.1 hs
        simp only [List.mem_filter, decide_eq_true_eq] at hx
        omega
    · intro b hb s hs x hx
      show x.t < (if d.maxT < cMaxt d then cMaxt d else d.maxT)
      rcases mem_cBlocks.1 hb with hb | ⟨_, rfl⟩
      · have := hI.blkLtMaxT b hb s hs x hx
        simp only at this; split <;> omega
      · obtain ⟨u, hu, _, rfl⟩ := mem_cBser.1 hs
        simp only [List.mem_filter, decide_eq_true_eq] at hx
        split <;> omega
    · intro b hb s hs x hx
      rcases mem_cBlocks.1 hb with hb | ⟨_, rfl⟩
      · exact hI.blkMax b hb s hs x hx
      · obtain ⟨u, hu, _, rfl⟩ := mem_cBser.1 hs
        simp only [List.mem_filter, decide_eq_true_eq] at hx
        exact hI.physMax u hu x hx.1
  · intro a ha
    simp only [happ] at ha
    exact absurd ha (by simp)
  · -- LastOk (no appender is open)
    exact LastOk.of_no_pending (by simp only [pendingOf, happ])
  · -- membership
    intro i x
    rw [← hS.mem i x]
    unfold Db.mem
    simp only
    constructor
    · rintro (⟨s', hs', hi, hx, hv⟩ | ⟨b, hb, s', hs', hi, hx, hv⟩)
      · obtain ⟨s, hs, hne, rfl⟩ := mem_cSeries.1 hs'
        simp only [List.mem_filter, decide_eq_true_eq] at hx
        simp only at hi hv
        rw [visible_filter_tombs hx.2] at hv
        exact Or.inl ⟨s, hs, hi, hx.1, hv⟩
      · rcases mem_cBlocks.1 hb with hb | ⟨_, rfl⟩
        · exact Or.inr ⟨b, hb, s', hs', hi, hx, hv⟩
        · obtain ⟨u, hu, _, rfl⟩ := mem_cBser.1 hs'
          simp only [List.mem_filter, decide_eq_true_eq] at hx
          exact Or.inl ⟨u, hu, hi, hx.1, hx.2.2.2⟩
    · rintro (⟨s, hs, hi, hx, hv⟩ | ⟨b, hb, s', hs', hi, hx, hv⟩)
      · by_cases hge : x.t ≥ cMaxt d
        · left
          have hxf : x ∈ s.phys.filter fun x => x.t ≥ cMaxt d := by
            simp only [List.mem_filter, decide_eq_true_eq]; exact ⟨hx, hge⟩
          refine ⟨_, mem_cSeries.2 ⟨s, hs, List.ne_nil_of_mem hxf, rfl⟩, hi, hxf, ?_⟩
          simp only
          rw [visible_filter_tombs hge]; exact hv
        · right
          have hlo := hI.physLo s hs x hx
          have hxf : x ∈ s.phys.filter fun x => d.minT ≤ x.t ∧ x.t ≤ cMaxt d - 1 ∧ visible s.tombs x := by
            simp only [List.mem_filter, decide_eq_true_eq]
            exact ⟨hx, hlo, by omega, hv⟩
          have hbs : (⟨s.idx, s.phys.filter fun x => d.minT ≤ x.t ∧ x.t ≤ cMaxt d - 1 ∧ visible s.tombs x, []⟩ : BSeries) ∈ cBser d :=
            mem_cBser.2 ⟨s, hs, List.ne_nil_of_mem hxf, rfl⟩
          exact ⟨_, mem_cBlocks.2 (Or.inr ⟨List.ne_nil_of_mem hbs, rfl⟩), _, hbs, hi, hxf, visible_nil x⟩
      · exact Or.inr ⟨b, mem_cBlocks.2 (Or.inl hb), s', hs', hi, hx, hv⟩
  · have := hS.app
    rw [happ] at this
    simp only [happ]
    exact this

end Prom.Db
