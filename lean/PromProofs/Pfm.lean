import PromProofs.Postings
/-
  Helper lemmas for C16: the index-reader leaves and `PostingsForMatchers`.
-/
set_option linter.unusedSimpArgs false
set_option linter.unusedVariables false
set_option linter.unusedSectionVars false
namespace Prom.Postings

/-- Well-formed index: refs positive and strictly increasing, label names/values non-empty, and `lvs`
    enumerates exactly the values in use. -/
structure WFix (ix : Index) : Prop where
  sorted : Sorted ix.all
  pos : ∀ s ∈ ix.series, 0 < s.ref
  nonEmpty : ∀ s ∈ ix.series, ∀ kv ∈ s.labels, kv.1 ≠ "" ∧ kv.2 ≠ ""
  lvs_mem : ∀ n v, v ∈ ix.lvs n ↔ ∃ s ∈ ix.series, s.labels.lookup n = some v

/-- Well-formed matcher: what C17 establishes for real regex matchers. -/
structure WFm (m : Matcher) : Prop where
  nameNe : m.name ≠ ""
  star : (m.type = .re ∨ m.type = .nre) → m.value = ".*" → ∀ s, m.pred s = true
  plus : (m.type = .re ∨ m.type = .nre) → m.value = ".+" → ∀ s, m.pred s = (s != "")
  emptyRe : (m.type = .re ∨ m.type = .nre) → m.value = "" → ∀ s, m.pred s = (s == "")
  setM : (m.type = .re ∨ m.type = .nre) → m.setMatches ≠ [] → ∀ s, m.pred s = m.setMatches.contains s

/-- The specification: series `s` satisfies every matcher, an absent label reading as `""`. -/
def sat (ms : List Matcher) (s : Series) : Bool := ms.all fun m => m.matches (s.get m.name)

theorem sorted_ext : ∀ {a b : Postings}, Sorted a → Sorted b → (∀ y, y ∈ a ↔ y ∈ b) → a = b
  | [], b, _, _, h => by
    symm; apply List.eq_nil_iff_forall_not_mem.mpr; intro y hy; exact absurd ((h y).mpr hy) (by simp)
  | x :: a, [], _, _, h => absurd ((h x).mp (by simp)) (by simp)
  | x :: a, z :: b, ha, hb, h => by
    have hxz : x = z := by
      have h1 := (h x).mp (by simp)
      have h2 := (h z).mpr (by simp)
      rcases List.mem_cons.mp h1 with e | h1
      · exact e
      · rcases List.mem_cons.mp h2 with e | h2
        · exact e.symm
        · have := sorted_head_lt hb x h1; have := sorted_head_lt ha z h2; omega
    subst hxz
    congr 1
    apply sorted_ext (sorted_tail ha) (sorted_tail hb)
    intro y
    constructor
    · intro hy
      have := sorted_head_lt ha y hy
      rcases List.mem_cons.mp ((h y).mp (List.mem_cons_of_mem _ hy)) with e | h'
      · omega
      · exact h'
    · intro hy
      have := sorted_head_lt hb y hy
      rcases List.mem_cons.mp ((h y).mpr (List.mem_cons_of_mem _ hy)) with e | h'
      · omega
      · exact h'

theorem lookup_mem {n v : String} : ∀ {l : List (String × String)}, l.lookup n = some v → (n, v) ∈ l
  | [], h => by simp [List.lookup] at h
  | (k, w) :: t, h => by
    by_cases hk : n = k
    · subst hk; simp [List.lookup_cons] at h; simp [h]
    · have : (n == k) = false := by simpa using hk
      rw [List.lookup_cons, this] at h
      exact List.mem_cons_of_mem _ (lookup_mem h)

theorem pairwise_ref_inj : ∀ {l : List Series}, l.Pairwise (fun a b => a.ref < b.ref) →
    ∀ {s s' : Series}, s ∈ l → s' ∈ l → s.ref = s'.ref → s = s'
  | [], _, _, _, hs, _, _ => by simp at hs
  | a :: t, hp, s, s', hs, hs', h => by
    have hlt := (List.pairwise_cons.mp hp).1
    rcases List.mem_cons.mp hs with e1 | h1
    · rcases List.mem_cons.mp hs' with e2 | h2
      · rw [e1, e2]
      · have := hlt s' h2; rw [← e1] at this; omega
    · rcases List.mem_cons.mp hs' with e2 | h2
      · have := hlt s h1; rw [← e2] at this; omega
      · exact pairwise_ref_inj (List.pairwise_cons.mp hp).2 h1 h2 h

section
variable {ix : Index} (wf : WFix ix)
include wf

theorem ref_inj {s s' : Series} (hs : s ∈ ix.series) (hs' : s' ∈ ix.series) (h : s.ref = s'.ref) : s = s' := by
  have hp : ix.series.Pairwise (fun a b => a.ref < b.ref) := by
    have := wf.sorted; unfold Sorted Index.all at this; exact List.pairwise_map.mp this
  exact pairwise_ref_inj hp hs hs' h


omit wf in
theorem get_of_lookup {s : Series} {n v : String} (h : s.labels.lookup n = some v) : s.get n = v := by
  simp [Series.get, h]

omit wf in
theorem lookup_of_get_ne {s : Series} {n : String} (h : s.get n ≠ "") : s.labels.lookup n = some (s.get n) := by
  unfold Series.get at *
  cases h' : s.labels.lookup n <;> simp_all

theorem has_iff {s : Series} (hs : s ∈ ix.series) (n : String) (P : String → Prop) :
    (∃ v, s.labels.lookup n = some v ∧ P v) ↔ s.get n ≠ "" ∧ P (s.get n) := by
  constructor
  · rintro ⟨v, hv, hp⟩
    have hne : v ≠ "" := (wf.nonEmpty s hs _ (lookup_mem hv)).2
    rw [get_of_lookup hv]; exact ⟨hne, hp⟩
  · rintro ⟨hne, hp⟩
    exact ⟨_, lookup_of_get_ne hne, hp⟩

theorem postings1_sub (name v : String) : (ix.postings1 name v).Sublist ix.all := by
  unfold Index.postings1 Index.all
  split
  · exact List.Sublist.refl _
  · exact List.Sublist.map _ List.filter_sublist

theorem sorted_postings1 (name v : String) : Sorted (ix.postings1 name v) :=
  List.Pairwise.sublist (postings1_sub wf name v) wf.sorted

theorem pos_postings1 (name v : String) : ∀ y ∈ ix.postings1 name v, 0 < y := by
  intro y hy
  have : y ∈ ix.all := (postings1_sub wf name v).subset hy
  rcases List.mem_map.mp this with ⟨s, hs, rfl⟩
  exact wf.pos s hs

theorem mem_postings1 {name : String} (hn : name ≠ "") (v : String) (y : Nat) :
    y ∈ ix.postings1 name v ↔ ∃ s ∈ ix.series, s.ref = y ∧ s.labels.lookup name = some v := by
  simp only [Index.postings1, hn, false_and, if_false, List.mem_map, List.mem_filter, beq_iff_eq]
  constructor
  · rintro ⟨s, ⟨hs, hl⟩, rfl⟩; exact ⟨s, hs, rfl, hl⟩
  · rintro ⟨s, hs, rfl, hl⟩; exact ⟨s, ⟨hs, hl⟩, rfl⟩

/-- merging the existing per-value lists of a name -/
theorem mergeLeaves_spec (name : String) (vals : List String) :
    Sorted (merge ((vals.map (ix.postings1 name)).filter (fun p => !p.isEmpty))) ∧
    ∀ y, y ∈ merge ((vals.map (ix.postings1 name)).filter (fun p => !p.isEmpty)) ↔
      ∃ v ∈ vals, y ∈ ix.postings1 name v := by
  have hs : ∀ p ∈ (vals.map (ix.postings1 name)).filter (fun p => !p.isEmpty), Sorted p := by
    intro p hp
    rcases List.mem_map.mp (List.mem_filter.mp hp).1 with ⟨v, _, rfl⟩
    exact sorted_postings1 wf name v
  have hpos : ∀ p ∈ (vals.map (ix.postings1 name)).filter (fun p => !p.isEmpty), ∀ y ∈ p, 0 < y := by
    intro p hp
    rcases List.mem_map.mp (List.mem_filter.mp hp).1 with ⟨v, _, rfl⟩
    exact pos_postings1 wf name v
  obtain ⟨h1, h2⟩ := merge_spec' hs hpos
  refine ⟨h1, fun y => ?_⟩
  rw [h2]
  constructor
  · rintro ⟨p, hp, hy⟩
    rcases List.mem_map.mp (List.mem_filter.mp hp).1 with ⟨v, hv, rfl⟩
    exact ⟨v, hv, hy⟩
  · rintro ⟨v, hv, hy⟩
    refine ⟨_, List.mem_filter.mpr ⟨List.mem_map_of_mem hv, ?_⟩, hy⟩
    cases h : ix.postings1 name v with
    | nil => rw [h] at hy; cases hy
    | cons a t => simp

theorem sorted_postings (name : String) (vals : List String) : Sorted (ix.postings name vals) :=
  (mergeLeaves_spec wf name vals).1

theorem mem_postings {name : String} (hn : name ≠ "") (vals : List String) (y : Nat) :
    y ∈ ix.postings name vals ↔ ∃ s ∈ ix.series, s.ref = y ∧ s.get name ≠ "" ∧ s.get name ∈ vals := by
  unfold Index.postings
  rw [(mergeLeaves_spec wf name vals).2]
  constructor
  · rintro ⟨v, hv, hy⟩
    rcases (mem_postings1 wf hn v y).mp hy with ⟨s, hs, rfl, hl⟩
    have := (has_iff wf hs name (fun w => w ∈ vals)).mp ⟨v, hl, hv⟩
    exact ⟨s, hs, rfl, this⟩
  · rintro ⟨s, hs, rfl, h⟩
    rcases (has_iff wf hs name (fun w => w ∈ vals)).mpr h with ⟨v, hl, hv⟩
    exact ⟨v, hv, (mem_postings1 wf hn v _).mpr ⟨s, hs, rfl, hl⟩⟩

theorem sorted_pflm (name : String) (f : String → Bool) : Sorted (ix.postingsForLabelMatching name f) := by
  unfold Index.postingsForLabelMatching
  simp only
  split
  · exact List.Pairwise.nil
  · exact (mergeLeaves_spec wf name _).1

theorem mem_pflm {name : String} (hn : name ≠ "") (f : String → Bool) (y : Nat) :
    y ∈ ix.postingsForLabelMatching name f ↔
      ∃ s ∈ ix.series, s.ref = y ∧ s.get name ≠ "" ∧ f (s.get name) = true := by
  have key : (∃ v ∈ (ix.lvs name).filter f, y ∈ ix.postings1 name v) ↔
      ∃ s ∈ ix.series, s.ref = y ∧ s.get name ≠ "" ∧ f (s.get name) = true := by
    constructor
    · rintro ⟨v, hv, hy⟩
      rcases (mem_postings1 wf hn v y).mp hy with ⟨s, hs, rfl, hl⟩
      have := (has_iff wf hs name (fun w => f w = true)).mp ⟨v, hl, (List.mem_filter.mp hv).2⟩
      exact ⟨s, hs, rfl, this⟩
    · rintro ⟨s, hs, rfl, h⟩
      rcases (has_iff wf hs name (fun w => f w = true)).mpr h with ⟨v, hl, hv⟩
      exact ⟨v, List.mem_filter.mpr ⟨(wf.lvs_mem name v).mpr ⟨s, hs, hl⟩, hv⟩,
        (mem_postings1 wf hn v _).mpr ⟨s, hs, rfl, hl⟩⟩
  unfold Index.postingsForLabelMatching
  simp only
  split
  · rename_i he
    have he' : (ix.lvs name).filter f = [] := List.isEmpty_iff.mp he
    rw [← key, he']; simp
  · rw [(mergeLeaves_spec wf name _).2]; exact key

theorem sorted_pfalv (name : String) : Sorted (ix.postingsForAllLabelValues name) :=
  (mergeLeaves_spec wf name _).1

theorem mem_pfalv {name : String} (hn : name ≠ "") (y : Nat) :
    y ∈ ix.postingsForAllLabelValues name ↔ ∃ s ∈ ix.series, s.ref = y ∧ s.get name ≠ "" := by
  unfold Index.postingsForAllLabelValues
  rw [(mergeLeaves_spec wf name _).2]
  constructor
  · rintro ⟨v, hv, hy⟩
    rcases (mem_postings1 wf hn v y).mp hy with ⟨s, hs, rfl, hl⟩
    exact ⟨s, hs, rfl, ((has_iff wf hs name (fun _ => True)).mp ⟨v, hl, trivial⟩).1⟩
  · rintro ⟨s, hs, rfl, h⟩
    rcases (has_iff wf hs name (fun _ => True)).mpr ⟨h, trivial⟩ with ⟨v, hl, _⟩
    exact ⟨v, (wf.lvs_mem name v).mpr ⟨s, hs, hl⟩, (mem_postings1 wf hn v _).mpr ⟨s, hs, rfl, hl⟩⟩

theorem sorted_allPostings : Sorted (ix.postings "" [""]) := sorted_postings wf "" [""]

theorem mem_allPostings (y : Nat) : y ∈ ix.postings "" [""] ↔ ∃ s ∈ ix.series, s.ref = y := by
  unfold Index.postings
  rw [(mergeLeaves_spec wf "" [""]).2]
  simp [Index.postings1, Index.all]


/-! ### per-matcher postings -/

omit wf in
theorem inverse_matches (m : Matcher) (v : String) : m.inverse.matches v = !m.matches v := by
  cases hm : m.type <;> simp [Matcher.inverse, Matcher.matches, MatchType.inv, hm, bne]

omit wf in
theorem wfm_inverse {m : Matcher} (h : WFm m) : WFm m.inverse := by
  have ht : (m.inverse.type = .re ∨ m.inverse.type = .nre) → (m.type = .re ∨ m.type = .nre) := by
    cases hm : m.type <;> simp [Matcher.inverse, MatchType.inv, hm]
  exact ⟨h.nameNe, fun a b => h.star (ht a) b, fun a b => h.plus (ht a) b, fun a b => h.emptyRe (ht a) b,
    fun a b => h.setM (ht a) b⟩

/-- what an entry of `its` must be for matcher `m` -/
def ItsInv (ix : Index) (m : Matcher) (I : Postings) : Prop :=
  Sorted I ∧ ∀ y, y ∈ I ↔ ∃ s ∈ ix.series, s.ref = y ∧ s.get m.name ≠ "" ∧ m.matches (s.get m.name) = true

/-- what an entry of `notIts` must be for matcher `m` -/
def NotInv (ix : Index) (m : Matcher) (N : Postings) : Prop :=
  Sorted N ∧ ∀ y, y ∈ N ↔ ∃ s ∈ ix.series, s.ref = y ∧ m.matches (s.get m.name) = false

theorem postingsForMatcher_spec {m : Matcher} (wm : WFm m) : ItsInv ix m (postingsForMatcher ix m) := by
  unfold postingsForMatcher
  split
  · rename_i h
    have ht : m.type = .eq := by simpa using h
    refine ⟨sorted_postings wf _ _, fun y => ?_⟩
    rw [mem_postings wf wm.nameNe]
    simp [Matcher.matches, ht]
  · split
    · rename_i h
      have ht : m.type = .re := by simpa using h.1
      have hsm : m.setMatches ≠ [] := by
        intro e; have := h.2; simp [e] at this
      refine ⟨sorted_postings wf _ _, fun y => ?_⟩
      rw [mem_postings wf wm.nameNe]
      simp [Matcher.matches, ht, wm.setM (Or.inl ht) hsm]
    · exact ⟨sorted_pflm wf _ _, fun y => mem_pflm wf wm.nameNe _ y⟩

theorem inversePostingsForMatcher_spec {m : Matcher} (wm : WFm m) :
    Sorted (inversePostingsForMatcher ix m) ∧ ∀ y, y ∈ inversePostingsForMatcher ix m ↔
      ∃ s ∈ ix.series, s.ref = y ∧ s.get m.name ≠ "" ∧ m.matches (s.get m.name) = false := by
  unfold inversePostingsForMatcher
  split
  · rename_i h
    have ht : m.type = .nre := by simpa using h.1
    have hsm : m.setMatches ≠ [] := by
      intro e; have := h.2; simp [e] at this
    refine ⟨sorted_postings wf _ _, fun y => ?_⟩
    rw [mem_postings wf wm.nameNe]
    simp [Matcher.matches, ht, wm.setM (Or.inr ht) hsm]
  · split
    · rename_i h
      have ht : m.type = .ne := by simpa using h
      refine ⟨sorted_postings wf _ _, fun y => ?_⟩
      rw [mem_postings wf wm.nameNe]
      simp [Matcher.matches, ht]
    · split
      · rename_i h
        have hv : m.value = "" := by simpa using h.1
        have ht : m.type = .re ∨ m.type = .eq := by simpa using h.2
        refine ⟨sorted_pfalv wf _, fun y => ?_⟩
        rw [mem_pfalv wf wm.nameNe]
        have hmm : ∀ v : String, v ≠ "" → m.matches v = false := by
          intro v hne
          rcases ht with ht | ht
          · simp [Matcher.matches, ht, wm.emptyRe (Or.inl ht) hv, hne]
          · simp [Matcher.matches, ht, hv, hne]
        constructor
        · rintro ⟨s, hs, rfl, hne⟩; exact ⟨s, hs, rfl, hne, hmm _ hne⟩
        · rintro ⟨s, hs, rfl, hne, _⟩; exact ⟨s, hs, rfl, hne⟩
      · refine ⟨sorted_pflm wf _ _, fun y => ?_⟩
        rw [mem_pflm wf wm.nameNe]
        simp

/-! ### one loop iteration -/

def Guard (must : String → Bool) (m : Matcher) : Prop := must m.name = true ∨ m.matches "" = false

def StepSpec (ix : Index) (must : String → Bool) (m : Matcher) : Step → Prop
  | .err => False
  | .skip => ∀ v, m.matches v = true
  | .empty => Guard must m ∧ ∀ s ∈ ix.series, s.get m.name ≠ "" → m.matches (s.get m.name) = false
  | .its I => Guard must m ∧ ItsInv ix m I
  | .nots N => m.matches "" = true ∧ NotInv ix m N

omit wf in
theorem orEmpty_spec {must : String → Bool} {m : Matcher} {I : Postings} (hg : Guard must m)
    (hi : ItsInv ix m I) : StepSpec ix must m (orEmpty I) := by
  unfold orEmpty
  split
  · rename_i he
    have he' : I = [] := List.isEmpty_iff.mp he
    refine ⟨hg, fun s hs hne => ?_⟩
    cases hmm : m.matches (s.get m.name) with
    | false => rfl
    | true =>
      have : s.ref ∈ I := (hi.2 _).mpr ⟨s, hs, rfl, hne, hmm⟩
      rw [he'] at this; cases this
  · exact ⟨hg, hi⟩

theorem pfmStep_spec {must : String → Bool} {m : Matcher} (wm : WFm m)
    (hmust : must m.name = false → m.matches "" = true) : StepSpec ix must m (pfmStep ix must m) := by
  unfold pfmStep
  split
  · rename_i h; exact absurd (by simpa using h.1) wm.nameNe
  split
  · rename_i h
    have ht : m.type = .re := by simpa using h.1
    have hv : m.value = ".*" := by simpa using h.2
    intro v; simp [Matcher.matches, ht, wm.star (Or.inl ht) hv]
  split
  · rename_i h
    have ht : m.type = .nre := by simpa using h.1
    have hv : m.value = ".*" := by simpa using h.2
    have hm : ∀ v, m.matches v = false := by intro v; simp [Matcher.matches, ht, wm.star (Or.inr ht) hv]
    exact ⟨Or.inr (hm _), fun s _ _ => hm _⟩
  split
  · rename_i h
    have ht : m.type = .re := by simpa using h.1
    have hv : m.value = ".+" := by simpa using h.2
    have hm : ∀ v, m.matches v = (v != "") := by intro v; simp [Matcher.matches, ht, wm.plus (Or.inl ht) hv]
    apply orEmpty_spec (Or.inr (by simp [hm]))
    refine ⟨sorted_pfalv wf _, fun y => ?_⟩
    rw [mem_pfalv wf wm.nameNe]
    simp [hm]
  split
  · rename_i h
    have ht : m.type = .nre := by simpa using h.1
    have hv : m.value = ".+" := by simpa using h.2
    have hm : ∀ v, m.matches v = (v == "") := by
      intro v; simp [Matcher.matches, ht, wm.plus (Or.inr ht) hv, bne]
    refine ⟨by simp [hm], sorted_pfalv wf _, fun y => ?_⟩
    rw [mem_pfalv wf wm.nameNe]
    simp [hm]
  split
  · rename_i hms
    simp only
    split
    · rename_i h
      have hme : m.matches "" = true := h.2
      obtain ⟨h1, h2⟩ := postingsForMatcher_spec wf (wfm_inverse wm)
      have hn : (Matcher.inverse m).name = m.name := rfl
      simp only [inverse_matches, hn] at h2
      refine ⟨hme, h1, fun y => ?_⟩
      rw [h2]
      constructor
      · rintro ⟨s, hs, rfl, _, hm⟩; exact ⟨s, hs, rfl, by simpa using hm⟩
      · rintro ⟨s, hs, rfl, hm⟩
        refine ⟨s, hs, rfl, ?_, by simp [hm]⟩
        intro e; rw [e, hme] at hm; cases hm
    · split
      · obtain ⟨h1, h2⟩ := inversePostingsForMatcher_spec wf (wfm_inverse wm)
        apply orEmpty_spec (Or.inl hms)
        refine ⟨h1, fun y => ?_⟩
        rw [h2]
        have hn : (Matcher.inverse m).name = m.name := rfl
        simp only [inverse_matches, hn]
        constructor
        · rintro ⟨s, hs, rfl, hne, hm⟩; exact ⟨s, hs, rfl, hne, by simpa using hm⟩
        · rintro ⟨s, hs, rfl, hne, hm⟩; exact ⟨s, hs, rfl, hne, by simp [hm]⟩
      · exact orEmpty_spec (Or.inl hms) (postingsForMatcher_spec wf wm)
  · rename_i hms
    have hme : m.matches "" = true := hmust (by simpa using hms)
    obtain ⟨h1, h2⟩ := inversePostingsForMatcher_spec wf wm
    refine ⟨hme, h1, fun y => ?_⟩
    rw [h2]
    constructor
    · rintro ⟨s, hs, rfl, _, hm⟩; exact ⟨s, hs, rfl, hm⟩
    · rintro ⟨s, hs, rfl, hm⟩
      refine ⟨s, hs, rfl, ?_, hm⟩
      intro e; rw [e, hme] at hm; cases hm


/-! ### the matcher loop -/

structure LoopSpec (ix : Index) (must : String → Bool) (L : List Matcher) (its nots : List Postings) : Prop where
  its_inv : ∀ I ∈ its, ∃ m ∈ L, Guard must m ∧ ItsInv ix m I
  nots_inv : ∀ N ∈ nots, ∃ m ∈ L, NotInv ix m N
  covered : ∀ m ∈ L, (∃ I ∈ its, ItsInv ix m I) ∨ (∃ N ∈ nots, NotInv ix m N) ∨ (∀ v, m.matches v = true)
  nonempty : ∀ m ∈ L, m.matches "" = false → its ≠ []

def AccSpec (ix : Index) (must : String → Bool) (L : List Matcher) : Acc → Prop
  | .err => False
  | .empty => ∃ m ∈ L, Guard must m ∧ ∀ s ∈ ix.series, s.get m.name ≠ "" → m.matches (s.get m.name) = false
  | .go its nots => LoopSpec ix must L its nots

omit wf in
theorem accSpec_mono {must : String → Bool} {m : Matcher} {L : List Matcher} {a : Acc}
    (hne : ∀ i n, a ≠ .go i n) (h : AccSpec ix must L a) : AccSpec ix must (m :: L) a := by
  cases a with
  | err => exact h
  | empty => obtain ⟨m', hm', r⟩ := h; exact ⟨m', List.mem_cons_of_mem _ hm', r⟩
  | go i n => exact absurd rfl (hne i n)

theorem pfmLoop_spec {must : String → Bool} : ∀ (L : List Matcher),
    (∀ m ∈ L, WFm m ∧ (must m.name = false → m.matches "" = true)) → AccSpec ix must L (pfmLoop ix must L)
  | [], _ => by
    simp only [pfmLoop, AccSpec]
    exact ⟨by simp, by simp, by simp, by simp⟩
  | m :: rest, hL => by
    have hm := hL m (by simp)
    have hstep := pfmStep_spec wf (must := must) hm.1 hm.2
    have ih := pfmLoop_spec rest (fun m' h' => hL m' (List.mem_cons_of_mem _ h'))
    simp only [pfmLoop]
    cases hst : pfmStep ix must m with
    | err => rw [hst] at hstep; exact hstep.elim
    | empty =>
      rw [hst] at hstep
      exact ⟨m, by simp, hstep⟩
    | skip =>
      rw [hst] at hstep
      simp only
      cases hr : pfmLoop ix must rest with
      | err => rw [hr] at ih; exact ih.elim
      | empty => rw [hr] at ih; exact accSpec_mono (by simp) ih
      | go its nots =>
        rw [hr] at ih
        refine ⟨?_, ?_, ?_, ?_⟩
        · intro I hI; obtain ⟨m', h1, h2⟩ := ih.its_inv I hI; exact ⟨m', List.mem_cons_of_mem _ h1, h2⟩
        · intro N hN; obtain ⟨m', h1, h2⟩ := ih.nots_inv N hN; exact ⟨m', List.mem_cons_of_mem _ h1, h2⟩
        · intro m' hm'
          rcases List.mem_cons.mp hm' with rfl | h'
          · exact Or.inr (Or.inr hstep)
          · exact ih.covered m' h'
        · intro m' hm' he
          rcases List.mem_cons.mp hm' with rfl | h'
          · rw [hstep ""] at he; cases he
          · exact ih.nonempty m' h' he
    | its I =>
      rw [hst] at hstep
      simp only
      cases hr : pfmLoop ix must rest with
      | err => rw [hr] at ih; exact ih.elim
      | empty => rw [hr] at ih; exact accSpec_mono (by simp) ih
      | go its nots =>
        rw [hr] at ih
        refine ⟨?_, ?_, ?_, ?_⟩
        · intro J hJ
          rcases List.mem_cons.mp hJ with rfl | hJ
          · exact ⟨m, by simp, hstep⟩
          · obtain ⟨m', h1, h2⟩ := ih.its_inv J hJ; exact ⟨m', List.mem_cons_of_mem _ h1, h2⟩
        · intro N hN; obtain ⟨m', h1, h2⟩ := ih.nots_inv N hN; exact ⟨m', List.mem_cons_of_mem _ h1, h2⟩
        · intro m' hm'
          rcases List.mem_cons.mp hm' with rfl | h'
          · exact Or.inl ⟨I, by simp, hstep.2⟩
          · rcases ih.covered m' h' with ⟨J, hJ, h⟩ | h
            · exact Or.inl ⟨J, List.mem_cons_of_mem _ hJ, h⟩
            · exact Or.inr h
        · intro _ _ _; simp
    | nots N =>
      rw [hst] at hstep
      simp only
      cases hr : pfmLoop ix must rest with
      | err => rw [hr] at ih; exact ih.elim
      | empty => rw [hr] at ih; exact accSpec_mono (by simp) ih
      | go its nots =>
        rw [hr] at ih
        refine ⟨?_, ?_, ?_, ?_⟩
        · intro I hI; obtain ⟨m', h1, h2⟩ := ih.its_inv I hI; exact ⟨m', List.mem_cons_of_mem _ h1, h2⟩
        · intro J hJ
          rcases List.mem_cons.mp hJ with rfl | hJ
          · exact ⟨m, by simp, hstep.2⟩
          · obtain ⟨m', h1, h2⟩ := ih.nots_inv J hJ; exact ⟨m', List.mem_cons_of_mem _ h1, h2⟩
        · intro m' hm'
          rcases List.mem_cons.mp hm' with rfl | h'
          · exact Or.inr (Or.inl ⟨N, by simp, hstep.2⟩)
          · rcases ih.covered m' h' with h | ⟨J, hJ, h⟩ | h
            · exact Or.inl h
            · exact Or.inr (Or.inl ⟨J, List.mem_cons_of_mem _ hJ, h⟩)
            · exact Or.inr (Or.inr h)
        · intro m' hm' he
          rcases List.mem_cons.mp hm' with rfl | h'
          · rw [hstep.1] at he; cases he
          · exact ih.nonempty m' h' he

/-! ### assembling `PostingsForMatchers` -/

omit wf in
theorem foldl_without_spec : ∀ (nots : List Postings) (base : Postings), Sorted base →
    (∀ N ∈ nots, Sorted N) →
    Sorted (nots.foldl without base) ∧ ∀ y, y ∈ nots.foldl without base ↔ y ∈ base ∧ ∀ N ∈ nots, y ∉ N
  | [], base, hb, _ => by simp [hb]
  | N :: rest, base, hb, hn => by
    have hN := hn N (by simp)
    obtain ⟨h1, h2⟩ := foldl_without_spec rest (without base N) (sorted_without hb)
      (fun M hM => hn M (List.mem_cons_of_mem _ hM))
    simp only [List.foldl_cons]
    refine ⟨h1, fun y => ?_⟩
    rw [h2, mem_without hb hN]
    simp only [List.mem_cons, forall_eq_or_imp]
    constructor
    · rintro ⟨⟨a, b⟩, c⟩; exact ⟨a, b, c⟩
    · rintro ⟨a, b, c⟩; exact ⟨⟨a, b⟩, c⟩

omit wf in
theorem mem_sortMatchers (ms : List Matcher) (m : Matcher) : m ∈ sortMatchers ms ↔ m ∈ ms := by
  unfold sortMatchers
  simp only [List.mem_append, List.mem_filter]
  constructor
  · rintro (h | h) <;> exact h.1
  · intro h
    by_cases hs : isSubtracting ms m = true
    · exact Or.inr ⟨h, hs⟩
    · exact Or.inl ⟨h, by simpa using hs⟩

omit wf in
theorem must_spec {ms : List Matcher} {n : String} :
    labelMustBeSet ms n = true ↔ ∃ m ∈ ms, m.name = n ∧ m.matches "" = false := by
  simp [labelMustBeSet]

omit wf in
theorem sat_iff {ms : List Matcher} {s : Series} :
    sat ms s = true ↔ ∀ m ∈ ms, m.matches (s.get m.name) = true := by
  simp [sat]

omit wf in
/-- a satisfying series has every label that some matcher forces to be non-empty -/
theorem sat_guard {ms : List Matcher} {s : Series} (hs : sat ms s = true) {m : Matcher} (hm : m ∈ ms)
    (hg : Guard (labelMustBeSet ms) m) : s.get m.name ≠ "" := by
  have hall := sat_iff.mp hs
  intro e
  rcases hg with hg | hg
  · obtain ⟨m', hm', hn, he⟩ := must_spec.mp hg
    have := hall m' hm'
    rw [hn, e, he] at this; cases this
  · have := hall m hm
    rw [e, hg] at this; cases this

theorem pfm_mem {ms : List Matcher} (hne : ms ≠ []) (hms : ∀ m ∈ ms, WFm m) :
    ∃ p, postingsForMatchers ix ms = .ok p ∧ Sorted p ∧
      ∀ y, y ∈ p ↔ ∃ s ∈ ix.series, s.ref = y ∧ sat ms s = true := by
  have hbody : ∃ p, postingsForMatchers.body ix ms = .ok p ∧ Sorted p ∧
      ∀ y, y ∈ p ↔ ∃ s ∈ ix.series, s.ref = y ∧ sat ms s = true := by
    have hL : ∀ m ∈ sortMatchers ms, WFm m ∧ (labelMustBeSet ms m.name = false → m.matches "" = true) := by
      intro m hm
      have hm' := (mem_sortMatchers ms m).mp hm
      refine ⟨hms m hm', fun hf => ?_⟩
      cases he : m.matches "" with
      | true => rfl
      | false =>
        have : labelMustBeSet ms m.name = true := must_spec.mpr ⟨m, hm', rfl, he⟩
        rw [this] at hf; cases hf
    have hloop := pfmLoop_spec wf (must := labelMustBeSet ms) (sortMatchers ms) hL
    unfold postingsForMatchers.body
    simp only
    cases hr : pfmLoop ix (labelMustBeSet ms) (sortMatchers ms) with
    | err => rw [hr] at hloop; exact hloop.elim
    | empty =>
      rw [hr] at hloop
      obtain ⟨m, hm, hg, hno⟩ := hloop
      have hm' := (mem_sortMatchers ms m).mp hm
      refine ⟨[], rfl, List.Pairwise.nil, fun y => ?_⟩
      constructor
      · intro h; cases h
      · rintro ⟨s, hs, _, hsat⟩
        have hne' := sat_guard hsat hm' hg
        have := hno s hs hne'
        rw [sat_iff.mp hsat m hm'] at this; cases this
    | go its nots =>
      rw [hr] at hloop
      -- the list handed to Intersect
      generalize hits0 : (if (ms.any (isSubtracting ms) = true ∧ (!ms.any fun m => !isSubtracting ms m) = true)
        then [ix.postings "" [""]] else ([] : List Postings)) = its0
      have hits0_cases : its0 = [ix.postings "" [""]] ∨ (its0 = [] ∧ ∃ m ∈ ms, isSubtracting ms m = false) := by
        rw [← hits0]
        split
        · exact Or.inl rfl
        · rename_i hc
          refine Or.inr ⟨rfl, ?_⟩
          by_cases hint : ∃ m ∈ ms, isSubtracting ms m = false
          · exact hint
          · exfalso; apply hc
            have hall : ∀ m ∈ ms, isSubtracting ms m = true := by
              intro m hm
              cases h : isSubtracting ms m with
              | true => rfl
              | false => exact absurd ⟨m, hm, h⟩ hint
            obtain ⟨m0, hm0⟩ := List.exists_mem_of_ne_nil ms hne
            constructor
            · exact List.any_eq_true.mpr ⟨m0, hm0, hall m0 hm0⟩
            · simp only [Bool.not_eq_true', List.any_eq_false]
              intro m hm; simp [hall m hm]
      have hall_sorted : ∀ J ∈ its0 ++ its, Sorted J := by
        intro J hJ
        rcases List.mem_append.mp hJ with h | h
        · rcases hits0_cases with e | ⟨e, _⟩
          · rw [e] at h; rw [List.mem_singleton.mp h]; exact sorted_allPostings wf
          · rw [e] at h; cases h
        · obtain ⟨m, _, _, hi⟩ := hloop.its_inv J h; exact hi.1
      have hnonempty : its0 ++ its ≠ [] := by
        rcases hits0_cases with e | ⟨_, m, hm, hsub⟩
        · rw [e]; simp
        · have hmust : labelMustBeSet ms m.name = true := by
            unfold isSubtracting at hsub
            cases h : labelMustBeSet ms m.name with
            | true => rfl
            | false => simp [h] at hsub
          obtain ⟨m', hm', _, he⟩ := must_spec.mp hmust
          have := hloop.nonempty m' ((mem_sortMatchers ms m').mpr hm') he
          intro e; exact this (List.append_eq_nil_iff.mp e).2
      have hnots_sorted : ∀ N ∈ nots, Sorted N := by
        intro N hN; obtain ⟨m, _, hi⟩ := hloop.nots_inv N hN; exact hi.1
      obtain ⟨hs1, hs2⟩ := foldl_without_spec nots _ (sorted_intersect hall_sorted) hnots_sorted
      refine ⟨_, rfl, hs1, fun y => ?_⟩
      rw [hs2, mem_intersect hnonempty hall_sorted]
      constructor
      · rintro ⟨hin, hout⟩
        -- y is the ref of a series
        have hex : ∃ s ∈ ix.series, s.ref = y := by
          obtain ⟨J, hJ⟩ := List.exists_mem_of_ne_nil _ hnonempty
          have hyJ := hin J hJ
          rcases List.mem_append.mp hJ with h | h
          · rcases hits0_cases with e | ⟨e, _⟩
            · rw [e] at h; rw [List.mem_singleton.mp h] at hyJ; exact (mem_allPostings wf y).mp hyJ
            · rw [e] at h; cases h
          · obtain ⟨m, _, _, hi⟩ := hloop.its_inv J h
            obtain ⟨s, hs, hr, _⟩ := (hi.2 y).mp hyJ
            exact ⟨s, hs, hr⟩
        obtain ⟨s, hs, rfl⟩ := hex
        refine ⟨s, hs, rfl, sat_iff.mpr fun m hm => ?_⟩
        rcases hloop.covered m ((mem_sortMatchers ms m).mpr hm) with ⟨I, hI, hi⟩ | ⟨N, hN, hn⟩ | h
        · obtain ⟨s', hs', hr, _, hmm⟩ := (hi.2 _).mp (hin I (List.mem_append_right _ hI))
          rw [ref_inj wf hs' hs hr] at hmm; exact hmm
        · cases hmm : m.matches (s.get m.name) with
          | true => rfl
          | false => exact absurd ((hn.2 _).mpr ⟨s, hs, rfl, hmm⟩) (hout N hN)
        · exact h _
      · rintro ⟨s, hs, rfl, hsat⟩
        have hall := sat_iff.mp hsat
        constructor
        · intro J hJ
          rcases List.mem_append.mp hJ with h | h
          · rcases hits0_cases with e | ⟨e, _⟩
            · rw [e] at h; rw [List.mem_singleton.mp h]; exact (mem_allPostings wf _).mpr ⟨s, hs, rfl⟩
            · rw [e] at h; cases h
          · obtain ⟨m, hm, hg, hi⟩ := hloop.its_inv J h
            have hm' := (mem_sortMatchers ms m).mp hm
            exact (hi.2 _).mpr ⟨s, hs, rfl, sat_guard hsat hm' hg, hall m hm'⟩
        · intro N hN hyN
          obtain ⟨m, hm, hn⟩ := hloop.nots_inv N hN
          have hm' := (mem_sortMatchers ms m).mp hm
          obtain ⟨s', hs', hr, hmm⟩ := (hn.2 _).mp hyN
          rw [ref_inj wf hs' hs hr, hall m hm'] at hmm; cases hmm
  unfold postingsForMatchers
  split
  · rename_i m
    split
    · rename_i h
      exact absurd (by simpa using h.1) (hms m (by simp)).nameNe
    · exact hbody
  · exact hbody

end
end Prom.Postings
