import PromProofs.QuantileList
/-
  Helper lemmas for C32, part 5: `HistogramQuantile` on native histograms at the level of the bucket
  iterators.  A consistent histogram is lifted to a list of rational buckets `RB`; the iterator loop
  `hqWalk` is characterised by the decomposition `L = pre ++ b :: rem` it stops at; the rest of the
  function (`hqTail`, definitionally the tail of `histogramQuantile`) is evaluated to `hqOut`.
-/
namespace Prom.Quantile
open FOps

structure RB where
  l : Rat
  u : Rat
  c : Rat

def RB.toN (b : RB) : NBucket XR := ⟨.fin b.l, .fin b.u, .fin b.c⟩

def total : List RB → Rat
  | [] => 0
  | b :: bs => b.c + total bs

theorem total_append (xs ys : List RB) : total (xs ++ ys) = total xs + total ys := by
  induction xs with
  | nil => simp only [List.nil_append, total]; grind
  | cons x xs ih => simp only [List.cons_append, total, ih]; grind

theorem total_reverse (xs : List RB) : total xs.reverse = total xs := by
  induction xs with
  | nil => rfl
  | cons x xs ih => simp only [List.reverse_cons, total_append, total, ih]; grind

theorem total_nonneg (xs : List RB) (h : ∀ b ∈ xs, 0 ≤ b.c) : 0 ≤ total xs := by
  induction xs with
  | nil => exact Rat.le_refl
  | cons x xs ih =>
    have := h x (by simp)
    have := ih (fun b hb => h b (by simp [hb]))
    simp only [total]; grind

theorem sumCounts_map (L : List RB) : ∀ a : Rat, sumCounts (.fin a) (L.map RB.toN) = .fin (a + total L) := by
  induction L with
  | nil => intro a; simp only [List.map_nil, sumCounts, total]; congr 1; grind
  | cons x xs ih =>
    intro a
    simp only [List.map_cons, sumCounts, RB.toN, fops_add, XR.add_fin, total]
    have := ih (a + x.c)
    rw [this]
    congr 1; grind

theorem lift_buckets : ∀ (fwd : List (NBucket XR)),
    (∀ b ∈ fwd, ∃ l u c, b.lower = .fin l ∧ b.upper = .fin u ∧ b.count = .fin c ∧ l ≤ u ∧ 0 ≤ c) →
    ∃ L : List RB, fwd = L.map RB.toN ∧ ∀ b ∈ L, b.l ≤ b.u ∧ 0 ≤ b.c := by
  intro fwd
  induction fwd with
  | nil => intro _; exact ⟨[], rfl, by simp⟩
  | cons x xs ih =>
    intro h
    obtain ⟨L, e, hL⟩ := ih (fun b hb => h b (by simp [hb]))
    obtain ⟨l, u, c, h1, h2, h3, h4, h5⟩ := h x (by simp)
    refine ⟨⟨l, u, c⟩ :: L, ?_, ?_⟩
    · cases x
      simp only at h1 h2 h3
      simp [RB.toN, h1, h2, h3, e]
    · intro b hb
      rcases List.mem_cons.mp hb with rfl | hb
      · exact ⟨h4, h5⟩
      · exact hL b hb

/-- The iterator loop of `HistogramQuantile` on rational buckets with counts ≥ 0, started with
    cumulative count `a`: it stops at the first non-empty bucket `b` whose cumulative count reaches the
    rank. -/
theorem hqWalk_spec (ρ : Rat) : ∀ (L : List RB) (a : Rat) (b0 : NBucket XR), (∀ b ∈ L, 0 ≤ b.c) →
    ρ ≤ a + total L → 0 < total L →
    ∃ pre b rem, L = pre ++ b :: rem ∧
      hqWalk (.fin ρ) b0 (.fin a) (L.map RB.toN) = (b.toN, .fin (a + total pre + b.c), rem.map RB.toN) ∧
      0 < b.c ∧ ρ ≤ a + total pre + b.c ∧ (a + total pre < ρ ∨ total pre = 0) := by
  intro L
  induction L with
  | nil => intro a b0 _ _ h; simp [total] at h
  | cons x xs ih =>
    intro a b0 hc hρ ht
    have hx : 0 ≤ x.c := hc x (by simp)
    have hxs : ∀ b ∈ xs, 0 ≤ b.c := fun b hb => hc b (by simp [hb])
    simp only [total] at hρ ht
    by_cases hz : x.c = 0
    · obtain ⟨pre, b, rem, e, hw, h1, h2, h3⟩ := ih a x.toN hxs (by grind) (by grind)
      have ht : total (x :: pre) = total pre := by simp only [total]; grind
      refine ⟨x :: pre, b, rem, by simp [e], ?_, h1, by rw [ht]; exact h2, by rw [ht]; exact h3⟩
      rw [ht, ← hw]
      simp [hqWalk, RB.toN, hz]
    · have hpos : 0 < x.c := by grind
      by_cases hstop : ρ ≤ a + x.c
      · refine ⟨[], x, xs, rfl, ?_, hpos, by simp only [total]; grind, Or.inr rfl⟩
        have e : a + total [] + x.c = a + x.c := by simp only [total]; grind
        rw [e]
        simp [hqWalk, RB.toN, hz, hstop]
      · obtain ⟨pre, b, rem, e, hw, h1, h2, h3⟩ := ih (a + x.c) x.toN hxs (by grind) (by grind)
        have ht : a + total (x :: pre) = a + x.c + total pre := by simp only [total]; grind
        refine ⟨x :: pre, b, rem, by simp [e], ?_, h1, by rw [ht]; exact h2, ?_⟩
        · rw [ht, ← hw]
          simp [hqWalk, RB.toN, hz, hstop]
        · left
          rw [ht]
          have := total_nonneg pre (fun b hb => hxs b (by rw [e]; simp [hb]))
          rcases h3 with h3 | h3
          · exact h3
          · grind

/-! ### the tail of `histogramQuantile` -/

/-- the bound adjustments of `HistogramQuantile`; `none` = fall through, `some v` = early return -/
def hqAdj {α : Type} [FOps α] (h : NHist α) (bucket : NBucket α) : NBucket α × Option α :=
      if !h.custom && lt bucket.lower zero && lt zero bucket.upper then
        if h.nNeg = 0 && h.nPos > 0 then ({ bucket with lower := zero }, none)
        else if h.nPos = 0 && h.nNeg > 0 then ({ bucket with upper := zero }, none)
        else (bucket, none)
      else if h.custom then
        if beq bucket.lower ninf then
          (if le bucket.upper zero then (bucket, some bucket.upper) else ({ bucket with lower := zero }, none))
        else if beq bucket.upper pinf then (bucket, some bucket.lower)
        else (bucket, none)
      else (bucket, none)

/-- `hqFinish` of the model after the bound adjustments (same text) -/
def hqFin {α : Type} [FOps α] (fixed : Bool) (h : NHist α) (fwdDir : Bool) (rank count : α) (remaining : List (NBucket α))
    (adj : NBucket α × Option α) : HQRes α :=
    match adj with
    | (_, some v) => .val v
    | (bucket, none) =>
      let count := if lt h.count count then h.count else count
      if lt count rank then (if isNaN h.sum then .val nan else .val bucket.upper)
      else
        let rank := if fwdDir then sub rank (sub count bucket.count) else sub count rank
        let bucket :=
          if !fixed && isNaN h.sum then (match remaining.getLast? with | some l => l | none => bucket) else bucket
        let fraction := div rank bucket.count
        if h.custom || (le bucket.lower zero && le zero bucket.upper) then
          .val (add bucket.lower (mul (sub bucket.upper bucket.lower) fraction))
        else .expo bucket.lower bucket.upper fraction

theorem hqFinish_eq {α : Type} [FOps α] (fixed : Bool) (h : NHist α) (fwdDir : Bool) (rank : α) (bucket : NBucket α)
    (count : α) (remaining : List (NBucket α)) :
    hqFinish fixed h fwdDir rank bucket count remaining = hqFin fixed h fwdDir rank count remaining (hqAdj h bucket) := rfl

/-- `histogramQuantileWith` after the iterator loop -/
def hqTail {α : Type} [FOps α] (fixed : Bool) (h : NHist α) (fwdDir : Bool) (rank : α)
    (w : NBucket α × α × List (NBucket α)) : HQRes α :=
  hqFin fixed h fwdDir rank w.2.1 w.2.2 (hqAdj h w.1)

theorem histogramQuantile_eq {α : Type} [FOps α] (fixed : Bool) (q : α) (h : NHist α) :
    histogramQuantileWith fixed q h =
      if lt q zero then .val ninf
      else if lt one q then .val pinf
      else if beq h.count zero || isNaN q then .val nan
      else
        let fwdDir := isNaN h.sum || lt q half
        let rank := if fwdDir then mul q h.count else mul (sub one q) h.count
        hqTail fixed h fwdDir rank (hqWalk rank ⟨zero, zero, zero⟩ zero (if fwdDir then h.fwd else h.rev)) := rfl

/-- lower / upper bound of the bucket as `HistogramQuantile` uses it (zero bucket of a histogram without
    negative resp. positive buckets is cut at 0) -/
def adjLo (h : NHist XR) (b : RB) : Rat :=
  if !h.custom && decide (b.l < 0) && decide (0 < b.u) && (h.nNeg = 0 && h.nPos > 0) then 0 else b.l
def adjHi (h : NHist XR) (b : RB) : Rat :=
  if !h.custom && decide (b.l < 0) && decide (0 < b.u) && !(h.nNeg = 0 && h.nPos > 0) && (h.nPos = 0 && h.nNeg > 0) then 0 else b.u

/-- the result for rank bucket `b` and in-bucket fraction `f` -/
def hqOut (h : NHist XR) (b : RB) (f : Rat) : HQRes XR :=
  if h.custom || (decide (adjLo h b ≤ 0) && decide (0 ≤ adjHi h b)) then
    .val (.fin (adjLo h b + (adjHi h b - adjLo h b) * f))
  else .expo (.fin (adjLo h b)) (.fin (adjHi h b)) (.fin f)

theorem adj_bounds (h : NHist XR) (b : RB) (hb : b.l ≤ b.u) :
    b.l ≤ adjLo h b ∧ adjLo h b ≤ adjHi h b ∧ adjHi h b ≤ b.u := by
  unfold adjLo adjHi
  generalize (decide (h.nNeg = 0) && decide (h.nPos > 0)) = A
  generalize (decide (h.nPos = 0) && decide (h.nNeg > 0)) = B
  by_cases c2 : b.l < 0 <;> by_cases c3 : 0 < b.u <;>
    cases h.custom <;> cases A <;> cases B <;> simp [c2, c3] <;> grind

theorem hqAdj_eval (h : NHist XR) (b : RB) :
    hqAdj h b.toN = (⟨.fin (adjLo h b), .fin (adjHi h b), .fin b.c⟩, none) := by
  unfold hqAdj adjLo adjHi
  generalize (decide (h.nNeg = 0) && decide (h.nPos > 0)) = A
  generalize (decide (h.nPos = 0) && decide (h.nNeg > 0)) = B
  by_cases c2 : b.l < 0 <;> by_cases c3 : 0 < b.u <;>
    cases h.custom <;> cases A <;> cases B <;> simp [c2, c3, RB.toN, XR.beq]

theorem hqFin_eval (fixed : Bool) (h : NHist XR) (hs : fixed = true ∨ h.sum ≠ .nan) (N : Rat) (hN : h.count = .fin N) (fwdDir : Bool)
    (ρ cnt lo hi c : Rat) (rem : List (NBucket XR)) (hc : 0 < c) (h1 : cnt ≤ N) (h2 : ρ ≤ cnt) :
    hqFin fixed h fwdDir (.fin ρ) (.fin cnt) rem (⟨.fin lo, .fin hi, .fin c⟩, none) =
      if h.custom || (decide (lo ≤ 0) && decide (0 ≤ hi)) then
        .val (.fin (lo + (hi - lo) * ((if fwdDir then ρ - (cnt - c) else cnt - ρ) / c)))
      else .expo (.fin lo) (.fin hi) (.fin ((if fwdDir then ρ - (cnt - c) else cnt - ρ) / c)) := by
  have hs' : (!fixed && XR.isNaN h.sum) = false := by
    rcases hs with hs | hs
    · simp [hs]
    · cases hh : h.sum <;> simp_all [XR.isNaN]
  have hne : c ≠ 0 := by grind
  have n1 : ¬ N < cnt := by grind
  have n2 : ¬ cnt < ρ := by grind
  unfold hqFin
  cases fwdDir <;> simp [hN, hs', n1, n2, XR.div_fin _ _ hne]

theorem hqTail_eval (fixed : Bool) (h : NHist XR) (hs : fixed = true ∨ h.sum ≠ .nan) (N : Rat) (hN : h.count = .fin N) (fwdDir : Bool)
    (ρ cnt : Rat) (b : RB) (rem : List (NBucket XR)) (hc : 0 < b.c) (h1 : cnt ≤ N) (h2 : ρ ≤ cnt) :
    hqTail fixed h fwdDir (.fin ρ) (b.toN, .fin cnt, rem) =
      hqOut h b ((if fwdDir then ρ - (cnt - b.c) else cnt - ρ) / b.c) := by
  unfold hqTail hqOut
  simp only [hqAdj_eval]
  exact hqFin_eval fixed h hs N hN fwdDir ρ cnt _ _ _ rem hc h1 h2

end Prom.Quantile
