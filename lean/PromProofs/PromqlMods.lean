import PromProofs.PromqlLex
import PromProofs.PromqlParse
import PromProofs.PromqlFrag
/-
  Property C26: the modifiers of a binary operator (`bool`, `on (…)`, `ignoring (…)`, `group_left (…)`,
  `group_right (…)`) as printed by `BinaryExpr.getMatchingStr` (`matchingText`) are lexed (`modToks_lex`)
  and parsed (`modToks_parses`) back to the same VectorMatching (`rawVM`).
-/
namespace Prom.Promql

/-! ### definitions -/

/-- a label name the printer writes bare and the lexer/parser read back inside a grouping list
    (excludes inf/nan/without — known finding C26-F4 — and the fill keywords) -/
def GoodLabel (l : Bytes) : Prop :=
  isLegacyLabelName l = true ∧ isFillWord l = false ∧ maybeLabelOf (wordTok l) = some l

/-- `, l2, l3, … )` as tokens -/
def labelTail : List Bytes → List Tok
  | [] => [.rparen]
  | l :: ls => .comma :: wordTok l :: labelTail ls

/-- `l1, l2, … )` as tokens -/
def labelBody : List Bytes → List Tok
  | [] => [.rparen]
  | l :: ls => wordTok l :: labelTail ls

/-- `( l1, l2, … )` as tokens -/
def labelListToks (ls : List Bytes) : List Tok := .lparen :: labelBody ls

/-- the tokens of `matchingText vm` (vm without fill modifiers) -/
def matchToks (vm : Option VM) : List Tok :=
  match vm with
  | none => []
  | some m =>
    let grouped := m.card == 1 || m.card == 2
    (if !m.labels.isEmpty || m.on || grouped then
       [.kw (if m.on then .on else .ignoring) (if m.on then bs "on" else bs "ignoring")] ++ labelListToks m.labels
     else []) ++
    (if grouped then
       [.kw (if m.card == 1 then .groupLeft else .groupRight) (if m.card == 1 then bs "group_left" else bs "group_right")] ++
         labelListToks m.incl
     else [])

/-- the tokens of ` bool` + `matchingText vm` (vm without fill modifiers) -/
def modToks (b : Bool) (vm : Option VM) : List Tok :=
  (if b then [.kw .bool (bs "bool")] else []) ++ matchToks vm

def VMGood : Option VM → Prop
  | none => True
  | some m => m.fillL = none ∧ m.fillR = none ∧ (∀ l ∈ m.labels, GoodLabel l) ∧ (∀ l ∈ m.incl, GoodLabel l) ∧
      (m.card = 0 ∨ m.card = 1 ∨ m.card = 2 ∨ m.card = 3) ∧ ((m.card = 0 ∨ m.card = 3) → m.incl = [])

/-- `labelListToks` is the comma-interspersed list of the label words between parentheses. -/
theorem labelTail_eq (l : Bytes) (ls : List Bytes) :
    wordTok l :: labelTail ls =
      (((l :: ls).map fun l => [wordTok l]).intersperse [.comma]).flatten ++ [.rparen] := by
  induction ls generalizing l with
  | nil => rfl
  | cons l' ls ih =>
    have := ih l'
    simp only [List.map_cons] at this
    simp [labelTail, this]

theorem labelListToks_eq (ls : List Bytes) :
    labelListToks ls = .lparen :: ((ls.map fun l => [wordTok l]).intersperse [.comma]).flatten ++ [.rparen] := by
  cases ls with
  | nil => rfl
  | cons l ls => simp only [labelListToks, labelBody, labelTail_eq, List.cons_append]

/-! ### parser side: grouping lists -/

theorem pgl_step_rparen (fuel : Nat) (acc : List Bytes) (t : Tok) (l : Bytes) (rest : List Tok)
    (h : maybeLabelOf t = some l) :
    parseGroupingList (fuel + 1) acc (t :: .rparen :: rest) = some ((l :: acc).reverse, rest) := by
  cases t <;> first
    | (simp [maybeLabelOf] at h; done)
    | simp [parseGroupingList, h]

theorem pgl_step_comma (fuel : Nat) (acc : List Bytes) (t t' : Tok) (l l' : Bytes) (rest : List Tok)
    (h : maybeLabelOf t = some l) (h' : maybeLabelOf t' = some l') :
    parseGroupingList (fuel + 1) acc (t :: .comma :: t' :: rest) = parseGroupingList fuel (l :: acc) (t' :: rest) := by
  cases t <;> first
    | (simp [maybeLabelOf] at h; done)
    | (cases t' <;> first
        | (simp [maybeLabelOf] at h'; done)
        | simp [parseGroupingList, h])

theorem pgl_tail (ls : List Bytes) : ∀ (acc : List Bytes) (l : Bytes) (rest : List Tok) (fuel : Nat),
    (∀ x ∈ l :: ls, maybeLabelOf (wordTok x) = some x) → ls.length + 1 ≤ fuel →
    parseGroupingList fuel acc (wordTok l :: (labelTail ls ++ rest)) = some (acc.reverse ++ l :: ls, rest) := by
  induction ls with
  | nil =>
    intro acc l rest fuel h hf
    obtain ⟨f, rfl⟩ : ∃ f, fuel = f + 1 := ⟨fuel - 1, by omega⟩
    show parseGroupingList (f + 1) acc (wordTok l :: .rparen :: rest) = _
    rw [pgl_step_rparen f acc _ l rest (h l (by simp))]
    simp
  | cons l' ls ih =>
    intro acc l rest fuel h hf
    obtain ⟨f, rfl⟩ : ∃ f, fuel = f + 1 := ⟨fuel - 1, by omega⟩
    show parseGroupingList (f + 1) acc (wordTok l :: .comma :: wordTok l' :: (labelTail ls ++ rest)) = _
    rw [pgl_step_comma f acc _ _ l l' _ (h l (by simp)) (h l' (by simp))]
    rw [ih (l :: acc) l' rest f (fun x hx => h x (by simp [List.mem_cons.mp hx])) (by simpa using hf)]
    simp

theorem labelTail_length (ls : List Bytes) : ls.length ≤ (labelTail ls).length := by
  induction ls with
  | nil => simp
  | cons l ls ih => simp only [labelTail, List.length_cons]; omega

theorem parseGroupingLabels_cons (t : Tok) (l : Bytes) (r : List Tok) (h : maybeLabelOf t = some l) :
    parseGroupingLabels (.lparen :: t :: r) = parseGroupingList ((t :: r).length + 1) [] (t :: r) := by
  cases t <;> first
    | (simp [maybeLabelOf] at h; done)
    | simp [parseGroupingLabels]

theorem parseGroupingLabels_good (ls : List Bytes) (rest : List Tok)
    (h : ∀ x ∈ ls, maybeLabelOf (wordTok x) = some x) :
    parseGroupingLabels (labelListToks ls ++ rest) = some (ls, rest) := by
  cases ls with
  | nil => rfl
  | cons l ls =>
    show parseGroupingLabels (.lparen :: wordTok l :: (labelTail ls ++ rest)) = _
    rw [parseGroupingLabels_cons _ l _ (h l (by simp)), pgl_tail ls [] l rest _ h
      (by have := labelTail_length ls; simp only [List.length_cons, List.length_append]; omega)]
    rfl

/-! ### parser side: `parseBinModifier` in stages -/

/-- the `fill*` stage and the final flag check of `parseBinModifier` -/
def pbmFill (o : Opts) (b : Bool) (vm2 : VM) (r2 : List Tok) : Option ((Bool × VM) × List Tok) := do
  let (vm3, r3) ← (match r2 with
    | .kw .fill _ :: r => do
      let (v, r') ← fillValue r
      pure ({ vm2 with fillL := some v, fillR := some v }, r')
    | .kw .fillLeft _ :: r => do
      let (v, r') ← fillValue r
      match r' with
      | .kw .fillRight _ :: r'' => do
        let (w, r''') ← fillValue r''
        pure ({ vm2 with fillL := some v, fillR := some w }, r''')
      | _ => pure ({ vm2 with fillL := some v }, r')
    | .kw .fillRight _ :: r => do
      let (v, r') ← fillValue r
      match r' with
      | .kw .fillLeft _ :: r'' => do
        let (w, r''') ← fillValue r''
        pure ({ vm2 with fillL := some w, fillR := some v }, r''')
      | _ => pure ({ vm2 with fillR := some v }, r')
    | _ => pure (vm2, r2) : Option (VM × List Tok))
  if !o.fill && (vm3.fillL.isSome || vm3.fillR.isSome) then none
  else pure ((b, vm3), r3)

/-- the `group_left` / `group_right` stage -/
def pbmGroup (o : Opts) (b : Bool) (hasOn : Bool) (vm1 : VM) (r1 : List Tok) : Option ((Bool × VM) × List Tok) := do
  let (vm2, r2) ← (if hasOn then
      (match r1 with
       | .kw .groupLeft _ :: .lparen :: r => do
         let (ls, r') ← parseGroupingLabels (.lparen :: r)
         pure ({ vm1 with card := 1, incl := ls }, r')
       | .kw .groupLeft _ :: r => pure ({ vm1 with card := 1 }, r)
       | .kw .groupRight _ :: .lparen :: r => do
         let (ls, r') ← parseGroupingLabels (.lparen :: r)
         pure ({ vm1 with card := 2, incl := ls }, r')
       | .kw .groupRight _ :: r => pure ({ vm1 with card := 2 }, r)
       | _ => pure (vm1, r1))
    else pure (vm1, r1) : Option (VM × List Tok))
  pbmFill o b vm2 r2

/-- the `on` / `ignoring` stage -/
def pbmOn (o : Opts) (b : Bool) (r0 : List Tok) : Option ((Bool × VM) × List Tok) := do
  let vm0 : VM := ⟨0, false, [], [], none, none⟩
  let (vm1, r1) ← (match r0 with
    | .kw .on _ :: r => do
      let (ls, r') ← parseGroupingLabels r
      pure ({ vm0 with on := true, labels := ls }, r')
    | .kw .ignoring _ :: r => do
      let (ls, r') ← parseGroupingLabels r
      pure ({ vm0 with labels := ls }, r')
    | _ => pure (vm0, r0) : Option (VM × List Tok))
  let hasOn := match r0 with | .kw .on _ :: _ => true | .kw .ignoring _ :: _ => true | _ => false
  pbmGroup o b hasOn vm1 r1

theorem pbm_bool (o : Opts) (t : Bytes) (r : List Tok) :
    parseBinModifier o (.kw .bool t :: r) = pbmOn o true r := rfl

theorem pbm_nobool (o : Opts) (toks : List Tok) (h : ∀ t r, toks ≠ .kw .bool t :: r) :
    parseBinModifier o toks = pbmOn o false toks := by
  unfold parseBinModifier
  split
  rename_i x b r0 heq
  have e : (b, r0) = (false, toks) := by
    rw [← heq]
    split
    · rename_i t r
      exact absurd rfl (h t r)
    · rfl
  cases e
  rfl

theorem pbmFill_stop (o : Opts) (b : Bool) (vm2 : VM) (rest : List Tok) (h : StartOK rest)
    (hl : vm2.fillL = none) (hr : vm2.fillR = none) : pbmFill o b vm2 rest = some ((b, vm2), rest) := by
  unfold pbmFill
  split
  · exact absurd rfl h.2.2.2.2.2.1
  · exact absurd rfl h.2.2.2.2.2.2.1
  · exact absurd rfl h.2.2.2.2.2.2.2
  · simp [hl, hr]

theorem pbmGroup_stop (o : Opts) (b hasOn : Bool) (vm1 : VM) (rest : List Tok) (h : StartOK rest)
    (hl : vm1.fillL = none) (hr : vm1.fillR = none) : pbmGroup o b hasOn vm1 rest = some ((b, vm1), rest) := by
  unfold pbmGroup
  cases hasOn
  · simp [pbmFill_stop o b vm1 rest h hl hr]
  · simp only [if_true]
    split
    · exact absurd rfl h.2.2.2.1
    · exact absurd rfl h.2.2.2.1
    · exact absurd rfl h.2.2.2.2.1
    · exact absurd rfl h.2.2.2.2.1
    · simp [pbmFill_stop o b vm1 rest h hl hr]

theorem pbmOn_stop (o : Opts) (b : Bool) (rest : List Tok) (h : StartOK rest) :
    pbmOn o b rest = some ((b, vm0), rest) := by
  unfold pbmOn
  split
  · exact absurd rfl h.2.1
  · exact absurd rfl h.2.2.1
  · simp [pbmGroup_stop o b false ⟨0, false, [], [], none, none⟩ rest h rfl rfl, vm0]

theorem pbmGroup_left (o : Opts) (b : Bool) (vm1 : VM) (t : Bytes) (incl : List Bytes) (rest : List Tok)
    (h : StartOK rest) (hi : ∀ x ∈ incl, maybeLabelOf (wordTok x) = some x)
    (hl : vm1.fillL = none) (hr : vm1.fillR = none) :
    pbmGroup o b true vm1 (.kw .groupLeft t :: (labelListToks incl ++ rest)) =
      some ((b, { vm1 with card := 1, incl := incl }), rest) := by
  have := parseGroupingLabels_good incl rest hi
  simp only [labelListToks, List.cons_append] at this ⊢
  simp [pbmGroup, this, pbmFill_stop o b _ rest h, hl, hr]

theorem pbmGroup_right (o : Opts) (b : Bool) (vm1 : VM) (t : Bytes) (incl : List Bytes) (rest : List Tok)
    (h : StartOK rest) (hi : ∀ x ∈ incl, maybeLabelOf (wordTok x) = some x)
    (hl : vm1.fillL = none) (hr : vm1.fillR = none) :
    pbmGroup o b true vm1 (.kw .groupRight t :: (labelListToks incl ++ rest)) =
      some ((b, { vm1 with card := 2, incl := incl }), rest) := by
  have := parseGroupingLabels_good incl rest hi
  simp only [labelListToks, List.cons_append] at this ⊢
  simp [pbmGroup, this, pbmFill_stop o b _ rest h, hl, hr]

theorem pbmOn_on (o : Opts) (b : Bool) (t : Bytes) (ls : List Bytes) (r : List Tok)
    (hi : ∀ x ∈ ls, maybeLabelOf (wordTok x) = some x) :
    pbmOn o b (.kw .on t :: (labelListToks ls ++ r)) = pbmGroup o b true ⟨0, true, ls, [], none, none⟩ r := by
  simp [pbmOn, parseGroupingLabels_good ls r hi]

theorem pbmOn_ignoring (o : Opts) (b : Bool) (t : Bytes) (ls : List Bytes) (r : List Tok)
    (hi : ∀ x ∈ ls, maybeLabelOf (wordTok x) = some x) :
    pbmOn o b (.kw .ignoring t :: (labelListToks ls ++ r)) = pbmGroup o b true ⟨0, false, ls, [], none, none⟩ r := by
  simp [pbmOn, parseGroupingLabels_good ls r hi]

theorem pbmOn_any (o : Opts) (b on : Bool) (ls : List Bytes) (r : List Tok)
    (hi : ∀ x ∈ ls, maybeLabelOf (wordTok x) = some x) :
    pbmOn o b (.kw (if on then .on else .ignoring) (if on then bs "on" else bs "ignoring") :: (labelListToks ls ++ r)) =
      pbmGroup o b true ⟨0, on, ls, [], none, none⟩ r := by
  cases on
  · exact pbmOn_ignoring o b _ ls r hi
  · exact pbmOn_on o b _ ls r hi

/-- the printed matching of a VectorMatching that is not grouped (card 0 or 3) -/
theorem matchToks_pbmOn_flat (o : Opts) (b : Bool) (card : Nat) (on : Bool) (labels incl : List Bytes)
    (hc : card = 0 ∨ card = 3) (hL : ∀ x ∈ labels, maybeLabelOf (wordTok x) = some x)
    (rest : List Tok) (hr : StartOK rest) :
    pbmOn o b (matchToks (some ⟨card, on, labels, incl, none, none⟩) ++ rest) =
      some ((b, ⟨0, on, labels, [], none, none⟩), rest) := by
  have hg : (card == 1 || card == 2) = false := by rcases hc with rfl | rfl <;> rfl
  by_cases c : (!labels.isEmpty || on) = true
  · have e : matchToks (some ⟨card, on, labels, incl, none, none⟩) ++ rest =
        .kw (if on then .on else .ignoring) (if on then bs "on" else bs "ignoring") :: (labelListToks labels ++ rest) := by
      simp only [matchToks, hg, Bool.or_false, c, if_true, Bool.false_eq_true, if_false, List.append_nil,
        List.cons_append, List.nil_append]
    rw [e, pbmOn_any o b on labels rest hL, pbmGroup_stop o b true _ rest hr rfl rfl]
  · have e : matchToks (some ⟨card, on, labels, incl, none, none⟩) ++ rest = rest := by
      simp only [matchToks, hg, Bool.or_false, c, if_false, Bool.false_eq_true, List.append_nil, List.nil_append]
    have hon : on = false := by cases on <;> simp_all
    have hl : labels = [] := by cases labels <;> simp_all
    subst hon hl
    rw [e, pbmOn_stop o b rest hr]
    rfl

/-- the printed matching of a grouped VectorMatching (card 1 or 2) -/
theorem matchToks_pbmOn_grouped (o : Opts) (b : Bool) (card : Nat) (on : Bool) (labels incl : List Bytes)
    (hc : card = 1 ∨ card = 2) (hL : ∀ x ∈ labels, maybeLabelOf (wordTok x) = some x)
    (hI : ∀ x ∈ incl, maybeLabelOf (wordTok x) = some x) (rest : List Tok) (hr : StartOK rest) :
    pbmOn o b (matchToks (some ⟨card, on, labels, incl, none, none⟩) ++ rest) =
      some ((b, ⟨card, on, labels, incl, none, none⟩), rest) := by
  rcases hc with rfl | rfl
  · have e : matchToks (some ⟨1, on, labels, incl, none, none⟩) ++ rest =
        .kw (if on then .on else .ignoring) (if on then bs "on" else bs "ignoring") ::
          (labelListToks labels ++ (.kw .groupLeft (bs "group_left") :: (labelListToks incl ++ rest))) := by
      simp [matchToks]
    rw [e, pbmOn_any o b on labels _ hL, pbmGroup_left o b _ _ incl rest hr hI rfl rfl]
  · have e : matchToks (some ⟨2, on, labels, incl, none, none⟩) ++ rest =
        .kw (if on then .on else .ignoring) (if on then bs "on" else bs "ignoring") ::
          (labelListToks labels ++ (.kw .groupRight (bs "group_right") :: (labelListToks incl ++ rest))) := by
      simp [matchToks]
    rw [e, pbmOn_any o b on labels _ hL, pbmGroup_right o b _ _ incl rest hr hI rfl rfl]

theorem matchToks_pbmOn (o : Opts) (b : Bool) (vm : Option VM) (h : VMGood vm) (rest : List Tok) (hr : StartOK rest) :
    pbmOn o b (matchToks vm ++ rest) = some ((b, rawVM vm), rest) := by
  cases vm with
  | none => exact pbmOn_stop o b rest hr
  | some m =>
    obtain ⟨card, on, labels, incl, fl, fr⟩ := m
    obtain ⟨hfl, hfr, hL, hI, hc, _⟩ := h
    simp only at hfl hfr hL hI hc
    subst hfl hfr
    have hL' : ∀ x ∈ labels, maybeLabelOf (wordTok x) = some x := fun x hx => (hL x hx).2.2
    have hI' : ∀ x ∈ incl, maybeLabelOf (wordTok x) = some x := fun x hx => (hI x hx).2.2
    rcases hc with rfl | rfl | rfl | rfl
    · exact matchToks_pbmOn_flat o b 0 on labels incl (Or.inl rfl) hL' rest hr
    · exact matchToks_pbmOn_grouped o b 1 on labels incl (Or.inl rfl) hL' hI' rest hr
    · exact matchToks_pbmOn_grouped o b 2 on labels incl (Or.inr rfl) hL' hI' rest hr
    · exact matchToks_pbmOn_flat o b 3 on labels incl (Or.inr rfl) hL' rest hr

/-- the printed matching never starts with `bool` -/
theorem matchToks_nobool (vm : Option VM) (rest : List Tok) (hr : StartOK rest) (t : Bytes) (r : List Tok) :
    matchToks vm ++ rest ≠ .kw .bool t :: r := by
  have h0 : rest ≠ .kw .bool t :: r := fun e => by subst e; exact hr.1 rfl
  cases vm with
  | none => exact h0
  | some m =>
    simp only [matchToks]
    split
    · cases m.on <;> simp
    · split
      · rename_i c1 c2
        exact absurd (by simp [c2]) c1
      · simpa using h0

/-- parser side -/
theorem modToks_parses (o : Opts) (b : Bool) (vm : Option VM) (h : VMGood vm) :
    ModParses o (modToks b vm) b (rawVM vm) := by
  intro rest hr
  cases b with
  | true =>
    show parseBinModifier o (.kw .bool (bs "bool") :: (matchToks vm ++ rest)) = _
    rw [pbm_bool, matchToks_pbmOn o true vm h rest hr]
  | false =>
    show parseBinModifier o ([] ++ matchToks vm ++ rest) = _
    rw [List.nil_append, pbm_nobool o _ (matchToks_nobool vm rest hr), matchToks_pbmOn o false vm h rest hr]

/-! ### lexer side: byte facts -/

theorem bs_sp_bool : bs " bool" = 32 :: bs "bool" := by with_unfolding_all rfl
theorem bs_sp : bs " " = [32] := by with_unfolding_all rfl
theorem bs_sp_lp : bs " (" = [32, 40] := by with_unfolding_all rfl
theorem bs_rp : bs ")" = [41] := by with_unfolding_all rfl
theorem bs_comma_sp : bs ", " = [44, 32] := by with_unfolding_all rfl
theorem bs_group (c : Bool) :
    bs " group_" ++ (if c then bs "left" else bs "right") = 32 :: (if c then bs "group_left" else bs "group_right") := by
  cases c <;> with_unfolding_all rfl

theorem wordTok_bool : wordTok (bs "bool") = .kw .bool (bs "bool") := by with_unfolding_all rfl
theorem isWordB_bool : isWordB (bs "bool") = true := by with_unfolding_all rfl
theorem isFillWord_bool : isFillWord (bs "bool") = false := by with_unfolding_all rfl

theorem wordTok_on (c : Bool) : wordTok (if c then bs "on" else bs "ignoring") =
    .kw (if c then .on else .ignoring) (if c then bs "on" else bs "ignoring") := by
  cases c <;> with_unfolding_all rfl
theorem isWordB_on (c : Bool) : isWordB (if c then bs "on" else bs "ignoring") = true := by
  cases c <;> with_unfolding_all rfl
theorem isFillWord_on (c : Bool) : isFillWord (if c then bs "on" else bs "ignoring") = false := by
  cases c <;> with_unfolding_all rfl

theorem wordTok_group (c : Bool) : wordTok (if c then bs "group_left" else bs "group_right") =
    .kw (if c then .groupLeft else .groupRight) (if c then bs "group_left" else bs "group_right") := by
  cases c <;> with_unfolding_all rfl
theorem isWordB_group (c : Bool) : isWordB (if c then bs "group_left" else bs "group_right") = true := by
  cases c <;> with_unfolding_all rfl
theorem isFillWord_group (c : Bool) : isFillWord (if c then bs "group_left" else bs "group_right") = false := by
  cases c <;> with_unfolding_all rfl

theorem GoodLabel.isWord {l : Bytes} (h : GoodLabel l) : isWordB l = true := by
  obtain ⟨h1, _, _⟩ := h
  cases l with
  | nil => simp [isLegacyLabelName] at h1
  | cons c tl =>
    simp only [isLegacyLabelName, Bool.and_eq_true] at h1
    simp only [isWordB, Bool.and_eq_true, List.all_cons]
    refine ⟨by simp [h1.1], by simp [isAlnumB, h1.1], ?_⟩
    exact List.all_eq_true.mpr fun x hx => by simp [List.all_eq_true.mp h1.2 x hx]

theorem word_noSpace (w rest : Bytes) (hw : isWordB w = true) : noSpaceB (w ++ rest).head? := by
  cases w with
  | nil => simp [isWordB] at hw
  | cons c tl =>
    simp only [isWordB, Bool.and_eq_true] at hw
    intro x hx
    simp only [List.cons_append, List.head?_cons, Option.some.injEq] at hx
    subst hx
    exact (word_head_chain c hw.1).2.2.1

/-! ### lexer side: the text of a grouping list -/

/-- `, l2, l3, … )` as text -/
def labelTailText : List Bytes → Bytes
  | [] => [41]
  | l :: ls => 44 :: 32 :: (l ++ labelTailText ls)

/-- `l1, l2, … )` as text -/
def labelBodyText : List Bytes → Bytes
  | [] => [41]
  | l :: ls => l ++ labelTailText ls

theorem intercalate_tail (l : Bytes) (ls : List Bytes) :
    ([44, 32] : Bytes).intercalate (l :: ls) ++ [41] = l ++ labelTailText ls := by
  induction ls generalizing l with
  | nil => simp [List.intercalate, labelTailText]
  | cons l' ls ih =>
    rw [List.intercalate_cons_cons, List.append_assoc, ih l']
    simp [labelTailText]

theorem writeLabels_good (ls : List Bytes) (h : ∀ l ∈ ls, GoodLabel l) :
    writeLabels ls ++ bs ")" = labelBodyText ls := by
  have e : (ls.map fun s => if isLegacyLabelName s then s else quote s) = ls := by
    rw [List.map_congr_left (g := id) (fun s hs => by simp [(h s hs).1]), List.map_id]
  rw [writeLabels, e, bs_comma_sp, bs_rp]
  cases ls with
  | nil => simp [List.intercalate, labelBodyText]
  | cons l ls => exact intercalate_tail l ls

theorem labelTailText_head (ls : List Bytes) (rest : Bytes) :
    ∃ c, (labelTailText ls ++ rest).head? = some c ∧ (c = 41 ∨ c = 44) := by
  cases ls with
  | nil => exact ⟨41, rfl, Or.inl rfl⟩
  | cons l ls => exact ⟨44, rfl, Or.inr rfl⟩

theorem labelTailText_noWord (ls : List Bytes) (rest : Bytes) : noWordB (labelTailText ls ++ rest).head? := by
  obtain ⟨c, hc, h⟩ := labelTailText_head ls rest
  intro x hx
  rw [hc] at hx
  cases hx
  rcases h with rfl | rfl <;> rfl

/-! ### lexer side: segments -/

theorem seg_labelTail (d : Int) (g : Bool) (hd : 0 ≤ d) (ls : List Bytes) (h : ∀ l ∈ ls, GoodLabel l) :
    LexSeg (stS (d + 1) g) (labelTailText ls) (labelTail ls) (stS d g) anyB := by
  induction ls with
  | nil => exact seg_rparen d g hd
  | cons l ls ih =>
    have hl := h l (by simp)
    have ih' := ih fun x hx => h x (by simp [hx])
    have s3 := LexSeg.append (seg_word (d + 1) g l hl.isWord hl.2.1) ih'
      (fun rest _ => labelTailText_noWord ls rest)
    have s2 := LexSeg.append (seg_space_S (d + 1) g) s3 (fun rest _ => by
      rw [List.append_assoc]; exact word_noSpace l _ hl.isWord)
    exact LexSeg.append (seg_comma (d + 1) g) s2 (fun _ _ => trivial)

theorem seg_labelBody (d : Int) (g : Bool) (hd : 0 ≤ d) (ls : List Bytes) (h : ∀ l ∈ ls, GoodLabel l) :
    LexSeg (stS (d + 1) g) (labelBodyText ls) (labelBody ls) (stS d g) anyB := by
  cases ls with
  | nil => exact seg_rparen d g hd
  | cons l ls =>
    have hl := h l (by simp)
    exact LexSeg.append (seg_word (d + 1) g l hl.isWord hl.2.1)
      (seg_labelTail d g hd ls fun x hx => h x (by simp [hx])) (fun rest _ => labelTailText_noWord ls rest)

/-- ` (l1, l2, …)` -/
theorem seg_labelList (d : Int) (g : Bool) (hd : 0 ≤ d) (ls : List Bytes) (h : ∀ l ∈ ls, GoodLabel l) :
    LexSeg (stS d g) (32 :: 40 :: labelBodyText ls) (labelListToks ls) (stS d g) anyB := by
  have s2 := LexSeg.append (seg_lparen d g) (seg_labelBody d g hd ls h) (fun _ _ => trivial)
  exact LexSeg.append (seg_space_S d g) s2 (fun rest _ x hx => by cases hx; rfl)

/-- ` word` -/
theorem seg_sp_word (d : Int) (g : Bool) (w : Bytes) (hw : isWordB w = true) (hf : isFillWord w = false) :
    LexSeg (stS d g) (32 :: w) [wordTok w] (stS d g) noWordB :=
  LexSeg.append (seg_space_S d g) (seg_word d g w hw hf) (fun rest _ => word_noSpace w rest hw)

/-- ` word (l1, l2, …)` -/
theorem seg_word_list (d : Int) (g : Bool) (hd : 0 ≤ d) (w : Bytes) (hw : isWordB w = true) (hf : isFillWord w = false)
    (ls : List Bytes) (h : ∀ l ∈ ls, GoodLabel l) :
    LexSeg (stS d g) (32 :: w ++ 32 :: 40 :: labelBodyText ls) (wordTok w :: labelListToks ls) (stS d g) anyB :=
  LexSeg.append (seg_sp_word d g w hw hf) (seg_labelList d g hd ls h) (fun rest _ x hx => by cases hx; rfl)

/-! ### lexer side: assembling `matchingText` -/

/-- the delimiter condition after the modifiers: the printer always writes a space -/
abbrev okSp : Option UInt8 → Prop := fun x => x = some 32

/-- empty, or starting with a space -/
def SpStart (s : Bytes) : Prop := s = [] ∨ ∃ tl, s = 32 :: tl

theorem seg_append_sp {st st1 st2 : LexState} {s1 s2 : Bytes} {t1 t2 : List Tok}
    (h1 : LexSeg st s1 t1 st1 okSp) (h2 : LexSeg st1 s2 t2 st2 okSp) (hs : SpStart s2) :
    LexSeg st (s1 ++ s2) (t1 ++ t2) st2 okSp :=
  LexSeg.append h1 h2 fun rest hr => by
    rcases hs with rfl | ⟨tl, rfl⟩
    · exact hr
    · rfl

theorem seg_ite (c : Bool) {st : LexState} {s : Bytes} {ts : List Tok} (h : LexSeg st s ts st okSp) :
    LexSeg st (if c then s else []) (if c then ts else []) st okSp := by
  cases c
  · exact LexSeg.nil st okSp
  · exact h

theorem SpStart_ite (c : Bool) (tl : Bytes) : SpStart (if c then 32 :: tl else []) := by
  cases c
  · exact Or.inl rfl
  · exact Or.inr ⟨tl, rfl⟩

theorem SpStart.append {s1 s2 : Bytes} (h1 : SpStart s1) (h2 : SpStart s2) : SpStart (s1 ++ s2) := by
  rcases h1 with rfl | ⟨tl, rfl⟩
  · exact h2
  · exact Or.inr ⟨tl ++ s2, rfl⟩

/-- `matchingText` of a VectorMatching without fill modifiers, in the shape of the segment lemmas -/
theorem matchingText_good (m : VM) (hfl : m.fillL = none) (hfr : m.fillR = none)
    (hL : ∀ l ∈ m.labels, GoodLabel l) (hI : ∀ l ∈ m.incl, GoodLabel l) :
    matchingText (some m) =
      (if !m.labels.isEmpty || m.on || (m.card == 1 || m.card == 2) then
         32 :: (if m.on then bs "on" else bs "ignoring") ++ 32 :: 40 :: labelBodyText m.labels else []) ++
      (if (m.card == 1 || m.card == 2) then
         32 :: (if m.card == 1 then bs "group_left" else bs "group_right") ++ 32 :: 40 :: labelBodyText m.incl else []) := by
  have e1 : bs " " ++ (if m.on then bs "on" else bs "ignoring") ++ bs " (" ++ writeLabels m.labels ++ bs ")" =
      32 :: (if m.on then bs "on" else bs "ignoring") ++ 32 :: 40 :: labelBodyText m.labels := by
    rw [List.append_assoc _ _ (bs ")"), writeLabels_good _ hL, bs_sp, bs_sp_lp]
    simp
  have e2 : bs " group_" ++ (if m.card == 1 then bs "left" else bs "right") ++ bs " (" ++ writeLabels m.incl ++ bs ")" =
      32 :: (if m.card == 1 then bs "group_left" else bs "group_right") ++ 32 :: 40 :: labelBodyText m.incl := by
    rw [List.append_assoc _ _ (bs ")"), writeLabels_good _ hI, bs_group, bs_sp_lp]
    simp
  simp only [matchingText, fillText, hfl, hfr, e1, e2, List.append_nil]

theorem seg_matching (d : Int) (g : Bool) (hd : 0 ≤ d) (vm : Option VM) (h : VMGood vm) :
    LexSeg (stS d g) (matchingText vm) (matchToks vm) (stS d g) okSp ∧ SpStart (matchingText vm) := by
  cases vm with
  | none => exact ⟨LexSeg.nil _ _, Or.inl rfl⟩
  | some m =>
    obtain ⟨hfl, hfr, hL, hI, _, _⟩ := h
    rw [matchingText_good m hfl hfr hL hI]
    have s1 : LexSeg (stS d g) (32 :: (if m.on then bs "on" else bs "ignoring") ++ 32 :: 40 :: labelBodyText m.labels)
        ([.kw (if m.on then .on else .ignoring) (if m.on then bs "on" else bs "ignoring")] ++ labelListToks m.labels)
        (stS d g) okSp := by
      have := seg_word_list d g hd _ (isWordB_on m.on) (isFillWord_on m.on) m.labels hL
      rw [wordTok_on] at this
      exact this.weaken fun _ _ => trivial
    have s2 : LexSeg (stS d g)
        (32 :: (if m.card == 1 then bs "group_left" else bs "group_right") ++ 32 :: 40 :: labelBodyText m.incl)
        ([.kw (if m.card == 1 then .groupLeft else .groupRight)
            (if m.card == 1 then bs "group_left" else bs "group_right")] ++ labelListToks m.incl)
        (stS d g) okSp := by
      have := seg_word_list d g hd _ (isWordB_group (m.card == 1)) (isFillWord_group (m.card == 1)) m.incl hI
      rw [wordTok_group] at this
      exact this.weaken fun _ _ => trivial
    exact ⟨seg_append_sp (seg_ite _ s1) (seg_ite _ s2) (SpStart_ite _ _),
      (SpStart_ite _ _).append (SpStart_ite _ _)⟩

/-- lexer side: the printed modifiers lex to `modToks`; the printer always writes a space after them -/
theorem modToks_lex (d : Int) (g : Bool) (hd : 0 ≤ d) (b : Bool) (vm : Option VM) (h : VMGood vm) :
    LexSeg (stS d g) ((if b then bs " bool" else []) ++ matchingText vm) (modToks b vm) (stS d g)
      (fun x => x = some 32) := by
  obtain ⟨sm, hs⟩ := seg_matching d g hd vm h
  have sb : LexSeg (stS d g) (32 :: bs "bool") [.kw .bool (bs "bool")] (stS d g) okSp := by
    have := seg_sp_word d g _ isWordB_bool isFillWord_bool
    rw [wordTok_bool] at this
    exact this.weaken fun x hx c hc => by
      rw [hx] at hc
      cases hc
      rfl
  rw [bs_sp_bool]
  exact seg_append_sp (seg_ite b sb) sm hs

end Prom.Promql
