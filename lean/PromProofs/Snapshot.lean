import PromModel.Tsdb.Snapshot
import PromProofs.ReadOnlyMain
/-
  Helper lemmas for C23: the WAL replay is a fold, so replaying the records behind the snapshot
  position from a head that equals the replay of the records before it gives the full replay; a
  failed snapshot load differs from the plain open only in the start scalars of the head window.
-/
namespace Prom.Db
open Prom.Intervals

/-- The series evolve independently of the running minimum / maximum. -/
def SameSeries (x y : Db × Int × Int) : Prop := x.1.series = y.1.series

theorem replayStep_sameSeries (mv : Int) (x y : Db × Int × Int) (r : Rec) (h : SameSeries x y) :
    SameSeries (replayStep mv x r) (replayStep mv y r) := by
  obtain ⟨h1, lo1, hi1⟩ := x
  obtain ⟨h2, lo2, hi2⟩ := y
  have hs : h1.series = h2.series := h
  cases r with
  | samples xs =>
    simp only [replayStep]
    apply foldl_rel SameSeries
    · intro a b p hab
      obtain ⟨a1, alo, ahi⟩ := a
      obtain ⟨b1, blo, bhi⟩ := b
      have e : a1.series = b1.series := hab
      simp only []
      split
      · exact e
      · rw [getSeries_congr a1 b1 e]
        exact setSeries_series_congr _ _ _ e
    · exact hs
  | stones xs =>
    simp only [replayStep]
    show (List.foldl _ h1 xs).series = (List.foldl _ h2 xs).series
    apply foldl_rel (fun (a b : Db) => a.series = b.series)
    · intro a b p e
      split
      · exact e
      · rw [e]
        split
        · rw [getSeries_congr a b e]; exact setSeries_series_congr _ _ _ e
        · exact e
    · exact hs

theorem fold_sameSeries (mv : Int) (recs : List Rec) (x y : Db × Int × Int) (h : SameSeries x y) :
    SameSeries (recs.foldl (replayStep mv) x) (recs.foldl (replayStep mv) y) :=
  foldl_rel SameSeries _ _ recs (fun a b r hab => replayStep_sameSeries mv a b r hab) x y h

/-- `initHeadFrom` in terms of the result of its fold. -/
theorem initHeadFrom_spec (base : Db) (mv lo0 hi0 : Int) (recs : List Rec) :
    ∃ h lo hi, recs.foldl (replayStep mv) (base, lo0, hi0) = (h, lo, hi) ∧
      (initHeadFrom base mv lo0 hi0 recs).series = h.series.filter (fun s => !s.phys.isEmpty) ∧
      (initHeadFrom base mv lo0 hi0 recs).blocks = h.blocks ∧
      (initHeadFrom base mv lo0 hi0 recs).minT = finMinT h.minT h.minValid lo := by
  unfold initHeadFrom
  generalize recs.foldl (replayStep mv) (base, lo0, hi0) = r
  obtain ⟨h, lo, hi⟩ := r
  refine ⟨h, lo, hi, rfl, ?_, ?_, ?_⟩
  · simp only []; (repeat' split) <;> rfl
  · simp only []; (repeat' split) <;> rfl
  · simp only [finMinT]; (repeat' split) <;> first | rfl | omega

theorem tailFilter_none (idx : List Nat) (recs : List Rec) : recs.map (tailFilter none idx) = recs := by
  induction recs with
  | nil => rfl
  | cons r rs ih =>
    rw [List.map_cons, ih]
    cases r <;> rfl

theorem physLoHi_le (phys : List Smp) : ∀ (acc : Int × Int),
    (physLoHi acc phys).1 ≤ acc.1 ∧ ∀ x ∈ phys, (physLoHi acc phys).1 ≤ x.t := by
  unfold physLoHi
  induction phys with
  | nil => intro acc; exact ⟨Int.le_refl _, fun x hx => absurd hx List.not_mem_nil⟩
  | cons y ys ih =>
    intro acc
    rw [List.foldl_cons]
    obtain ⟨h1, h2⟩ := ih (min acc.1 y.t, max acc.2 y.t)
    simp only at h1
    refine ⟨by omega, ?_⟩
    intro x hx
    rcases List.mem_cons.mp hx with rfl | hx
    · omega
    · exact h2 x hx

/-- The running minimum over the series of a snapshot-loaded head is below every loaded sample. -/
theorem seriesLo_le (ser : List HSeries) : ∀ (acc : Int × Int),
    (ser.foldl (fun acc h => physLoHi acc h.phys) acc).1 ≤ acc.1 ∧
    ∀ s ∈ ser, ∀ x ∈ s.phys, (ser.foldl (fun acc h => physLoHi acc h.phys) acc).1 ≤ x.t := by
  induction ser with
  | nil => intro acc; exact ⟨Int.le_refl _, fun s hs => absurd hs List.not_mem_nil⟩
  | cons y ys ih =>
    intro acc
    rw [List.foldl_cons]
    obtain ⟨h1, h2⟩ := ih (physLoHi acc y.phys)
    obtain ⟨g1, g2⟩ := physLoHi_le y.phys acc
    refine ⟨by omega, ?_⟩
    intro s hs x hx
    rcases List.mem_cons.mp hs with rfl | hs
    · have := g2 x hx; omega
    · exact h2 s hs x hx

theorem query_app_none (h : Db) (a b : Int) : ({ h with app := none } : Db).query a b = h.query a b := rfl

/-! ### A failed snapshot load -/

theorem failedLoad_series (d : Db) : (reopenAfterFailedLoad d).series = d.reopen.series := by
  rw [Db.reopen_eq_initHead]
  unfold reopenAfterFailedLoad
  exact initHead_series_congr _ _ _ (by rw [rwBase_series]) (by rw [rwBase_wal])

theorem failedLoad_blocks (d : Db) : (reopenAfterFailedLoad d).blocks = d.reopen.blocks := by
  rw [Db.reopen_eq_initHead, initHead_blocks _ _ (rwBase_series d), rwBase_blocks]
  exact initHead_blocks _ _ rfl

theorem failedLoad_query (d : Db) (a b : Int) : (reopenAfterFailedLoad d).query a b = d.reopen.query a b := by
  apply query_eq_of_series_eq
  · exact failedLoad_series d
  · exact failedLoad_blocks d
  · exact initHead_samples_ge_minT _ _ rfl (Int.le_refl _)
  · rw [Db.reopen_eq_initHead]
    exact initHead_samples_ge_minT _ _ (rwBase_series d) (by rw [rwBase_minValid]; exact Int.le_refl _)

/-! ### The snapshot path -/

/-- The replay of the first `n` WAL records (what the head held when record `n` was about to be
    logged, had it been built by replay). -/
def prefixRun (d : Db) (n : Nat) : Db × Int × Int :=
  (d.wal.take n).foldl (replayStep d.rwCut) (d.rwBase, MaxI64, MinI64)

theorem prefixRun_runInv (d : Db) (n : Nat) : RunInv d.rwBase d.rwCut (prefixRun d n) := by
  unfold prefixRun
  apply foldl_inv (RunInv d.rwBase d.rwCut)
  · intro a x h; exact replayStep_runInv _ _ a x h
  · refine ⟨Frame.refl _, ?_⟩
    intro s h; rw [rwBase_series] at h; simp at h

theorem fullRun_eq (d : Db) (n : Nat) :
    d.wal.foldl (replayStep d.rwCut) (d.rwBase, MaxI64, MinI64) =
      (d.wal.drop n).foldl (replayStep d.rwCut) (prefixRun d n) := by
  unfold prefixRun
  rw [← List.foldl_append, List.take_append_drop]

theorem frame_withSeries (b : Db) (ser : List HSeries) : Frame { b with series := ser } b :=
  ⟨rfl, rfl, rfl, rfl, rfl, rfl⟩

/-- Series and blocks of the snapshot path (repaired replay, `mm0 = none`) under the hypothesis that
    the snapshot-loaded head is the replay of the WAL prefix. -/
theorem loadSnapshot_spec (d : Db) (mm : List (Nat × List Smp)) (s : Snap)
    (hpre : (prefixRun d s.pos).1.series = s.headSeries mm d.rwCut) :
    (loadSnapshot none d mm s).series = d.reopen.series ∧
    (loadSnapshot none d mm s).blocks = d.reopen.blocks ∧
    ∀ h ∈ (loadSnapshot none d mm s).series, ∀ x ∈ h.phys, (loadSnapshot none d mm s).minT ≤ x.t := by
  have hP := prefixRun_runInv d s.pos
  unfold loadSnapshot
  simp only [tailFilter_none]
  generalize hser : s.headSeries mm d.rwCut = ser at *
  generalize hlh : ser.foldl (fun acc h => physLoHi acc h.phys) (MaxI64, MinI64) = lh
  obtain ⟨h1, lo1, hi1, e1, s1, b1, m1⟩ :=
    initHeadFrom_spec { d.rwBase with series := ser } d.rwCut lh.1 lh.2 (d.wal.drop s.pos)
  rw [Db.reopen_eq_initHead]
  obtain ⟨h2, lo2, hi2, e2, s2, b2, _⟩ := initHead_spec d.rwBase d.rwCut
  rw [rwBase_wal, fullRun_eq d s.pos] at e2
  -- same series along the tail
  have hss : SameSeries ((d.wal.drop s.pos).foldl (replayStep d.rwCut) ({ d.rwBase with series := ser }, lh.1, lh.2))
      ((d.wal.drop s.pos).foldl (replayStep d.rwCut) (prefixRun d s.pos)) :=
    fold_sameSeries _ _ _ _ hpre.symm
  rw [e1, e2] at hss
  have hser12 : h1.series = h2.series := hss
  -- frames and bounds along the tail, snapshot side
  have hinv1 : RunInv { d.rwBase with series := ser } d.rwCut (h1, lo1, hi1) := by
    rw [← e1]
    apply foldl_inv (RunInv { d.rwBase with series := ser } d.rwCut)
    · intro a x h; exact replayStep_runInv _ _ a x h
    · refine ⟨Frame.refl _, ?_⟩
      intro t ht p hp
      have hlo := (seriesLo_le ser (MaxI64, MinI64)).2 t ht p hp
      rw [hlh] at hlo
      have hmv := hP.2 t (by rw [hpre]; exact ht) p hp
      exact ⟨hlo, hmv.2⟩
  have hinv2 : RunInv d.rwBase d.rwCut (h2, lo2, hi2) := by
    rw [← e2]
    apply foldl_inv (RunInv d.rwBase d.rwCut)
    · intro a x h; exact replayStep_runInv _ _ a x h
    · exact hP
  refine ⟨?_, ?_, ?_⟩
  · rw [s1, s2, hser12]
  · rw [b1, b2, hinv1.1.2.2.2.1, hinv2.1.2.2.2.1]
  · intro t ht x hx
    rw [s1] at ht
    have := hinv1.2 t (List.mem_filter.mp ht).1 x hx
    simp only at this
    rw [m1, hinv1.1.1, hinv1.1.2.2.1]
    have hv : d.rwBase.minValid = d.rwCut := rwBase_minValid d
    show finMinT d.rwBase.minT d.rwBase.minValid lo1 ≤ x.t
    unfold finMinT
    simp only []
    split <;> split <;> omega

end Prom.Db
