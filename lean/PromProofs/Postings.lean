import PromModel.Tsdb.Postings
/-
  Helper lemmas for C16: sorted-list facts and the specifications of the postings combinators.
-/
set_option linter.unusedSimpArgs false
set_option linter.unusedVariables false
namespace Prom.Postings

/-- strictly increasing -/
abbrev Sorted (p : Postings) : Prop := p.Pairwise (· < ·)

theorem sorted_tail {a : Nat} {t : Postings} (h : Sorted (a :: t)) : Sorted t :=
  (List.pairwise_cons.mp h).2

theorem sorted_head_lt {a : Nat} {t : Postings} (h : Sorted (a :: t)) : ∀ y ∈ t, a < y :=
  (List.pairwise_cons.mp h).1

theorem dropWhile_lt_eq_filter (x : Nat) : ∀ {q : Postings}, Sorted q →
    q.dropWhile (· < x) = q.filter (fun y => decide (x ≤ y))
  | [], _ => rfl
  | a :: t, h => by
    by_cases hax : a < x
    · have : ¬ x ≤ a := by omega
      simp [List.dropWhile_cons, List.filter_cons, hax, this, dropWhile_lt_eq_filter x (sorted_tail h)]
    · have hxa : x ≤ a := by omega
      have hall : ∀ y ∈ t, x ≤ y := fun y hy => by have := sorted_head_lt h y hy; omega
      have : t.filter (fun y => decide (x ≤ y)) = t := List.filter_eq_self.mpr (by simpa using hall)
      simp [List.dropWhile_cons, List.filter_cons, hax, hxa, this]

theorem takeWhile_lt_eq_filter (x : Nat) : ∀ {q : Postings}, Sorted q →
    q.takeWhile (· < x) = q.filter (fun y => decide (y < x))
  | [], _ => rfl
  | a :: t, h => by
    by_cases hax : a < x
    · simp [List.takeWhile_cons, List.filter_cons, hax, takeWhile_lt_eq_filter x (sorted_tail h)]
    · have hall : ∀ y ∈ t, ¬ y < x := fun y hy => by have := sorted_head_lt h y hy; omega
      have : t.filter (fun y => decide (y < x)) = [] := List.filter_eq_nil_iff.mpr (by simpa using hall)
      simp [List.takeWhile_cons, List.filter_cons, hax, this]

theorem dropWhile_le_eq_filter (x : Nat) : ∀ {q : Postings}, Sorted q →
    q.dropWhile (· ≤ x) = q.filter (fun y => decide (x < y))
  | [], _ => rfl
  | a :: t, h => by
    by_cases hax : a ≤ x
    · have : ¬ x < a := by omega
      simp [List.dropWhile_cons, List.filter_cons, hax, this, dropWhile_le_eq_filter x (sorted_tail h)]
    · have hxa : x < a := by omega
      have hall : ∀ y ∈ t, x < y := fun y hy => by have := sorted_head_lt h y hy; omega
      have : t.filter (fun y => decide (x < y)) = t := List.filter_eq_self.mpr (by simpa using hall)
      simp [List.dropWhile_cons, List.filter_cons, hax, hxa, this]

theorem sorted_filter {q : Postings} (f : Nat → Bool) (h : Sorted q) : Sorted (q.filter f) :=
  List.Pairwise.sublist List.filter_sublist h

theorem mem_seek {x y : Nat} {q : Postings} (h : Sorted q) : y ∈ seek x q ↔ y ∈ q ∧ x ≤ y := by
  simp [seek, dropWhile_lt_eq_filter x h]

theorem sorted_seek {x : Nat} {q : Postings} (h : Sorted q) : Sorted (seek x q) := by
  rw [seek, dropWhile_lt_eq_filter x h]; exact sorted_filter _ h

theorem head_of_min {x : Nat} : ∀ {l : Postings}, Sorted l → x ∈ l → (∀ y ∈ l, x ≤ y) → l.head? = some x
  | a :: t, h, hx, hmin => by
    rcases List.mem_cons.mp hx with rfl | hxt
    · rfl
    · have := sorted_head_lt h x hxt
      have := hmin a (List.mem_cons_self ..)
      omega

theorem head_seek_iff {x : Nat} {q : Postings} (h : Sorted q) : (seek x q).head? = some x ↔ x ∈ q := by
  constructor
  · intro hh
    have : x ∈ seek x q := List.mem_of_head? hh
    exact ((mem_seek h).mp this).1
  · intro hx
    exact head_of_min (sorted_seek h) ((mem_seek h).mpr ⟨hx, Nat.le_refl _⟩) (fun y hy => ((mem_seek h).mp hy).2)


/-! ### intersect -/

theorem intersectGo_sublist : ∀ (p : Postings) (others : List Postings), (intersectGo p others).Sublist p
  | [], _ => by simp [intersectGo]
  | x :: p0, others => by
    simp only [intersectGo]
    split
    · exact (intersectGo_sublist p0 _).cons_cons x
    · exact (intersectGo_sublist p0 _).cons x

theorem all_head_seek_iff {x : Nat} {others : List Postings} (ho : ∀ q ∈ others, Sorted q) :
    ((others.map (seek x)).all (fun q => q.head? == some x)) = true ↔ ∀ q ∈ others, x ∈ q := by
  simp only [List.all_map, List.all_eq_true, Function.comp, beq_iff_eq]
  constructor
  · intro h q hq; exact (head_seek_iff (ho q hq)).mp (h q hq)
  · intro h q hq; exact (head_seek_iff (ho q hq)).mpr (h q hq)

theorem mem_intersectGo : ∀ {p : Postings} {others : List Postings}, Sorted p → (∀ q ∈ others, Sorted q) →
    ∀ y, y ∈ intersectGo p others ↔ y ∈ p ∧ ∀ q ∈ others, y ∈ q
  | [], _, _, _, y => by simp [intersectGo]
  | x :: p0, others, hp, ho, y => by
    have ho' : ∀ q ∈ others.map (seek x), Sorted q := by
      intro q hq; rcases List.mem_map.mp hq with ⟨q0, hq0, rfl⟩; exact sorted_seek (ho q0 hq0)
    have ih := mem_intersectGo (sorted_tail hp) ho' y
    have hmem : (∀ q ∈ others.map (seek x), y ∈ q) ↔ ∀ q ∈ others, y ∈ q ∧ x ≤ y := by
      constructor
      · intro h q hq; exact (mem_seek (ho q hq)).mp (h _ (List.mem_map_of_mem hq))
      · intro h q hq; rcases List.mem_map.mp hq with ⟨q0, hq0, rfl⟩; exact (mem_seek (ho q0 hq0)).mpr (h q0 hq0)
    have hlt : ∀ z ∈ p0, x < z := sorted_head_lt hp
    simp only [intersectGo]
    split
    · rename_i hall
      have hall' := (all_head_seek_iff ho).mp hall
      rw [List.mem_cons, ih, hmem, List.mem_cons]
      constructor
      · rintro (rfl | ⟨hy, h⟩)
        · exact ⟨Or.inl rfl, hall'⟩
        · exact ⟨Or.inr hy, fun q hq => (h q hq).1⟩
      · rintro ⟨rfl | hy, h⟩
        · exact Or.inl rfl
        · exact Or.inr ⟨hy, fun q hq => ⟨h q hq, Nat.le_of_lt (hlt y hy)⟩⟩
    · rename_i hall
      have hall' : ¬ ∀ q ∈ others, x ∈ q := fun h => hall ((all_head_seek_iff ho).mpr h)
      rw [ih, hmem, List.mem_cons]
      constructor
      · rintro ⟨hy, h⟩; exact ⟨Or.inr hy, fun q hq => (h q hq).1⟩
      · rintro ⟨rfl | hy, h⟩
        · exact absurd h hall'
        · exact ⟨hy, fun q hq => ⟨h q hq, Nat.le_of_lt (hlt y hy)⟩⟩

theorem mem_intersect {its : List Postings} (hne : its ≠ []) (hs : ∀ p ∈ its, Sorted p) (y : Nat) :
    y ∈ intersect its ↔ ∀ p ∈ its, y ∈ p := by
  match its, hne with
  | [p], _ => simp [intersect]
  | p :: q :: rest, _ =>
    simp only [intersect]
    split
    · rename_i hany
      rcases List.any_eq_true.mp hany with ⟨e, he, hee⟩
      have : e = [] := List.isEmpty_iff.mp hee
      subst this
      constructor
      · intro h; cases h
      · intro h; exact absurd (h [] he) (by simp)
    · rw [mem_intersectGo (hs p (by simp)) (fun r hr => hs r (List.mem_cons_of_mem _ hr))]
      simp

theorem sorted_intersect {its : List Postings} (hs : ∀ p ∈ its, Sorted p) : Sorted (intersect its) := by
  match its with
  | [] => simp [intersect]
  | [p] => simpa [intersect] using hs p (by simp)
  | p :: q :: rest =>
    simp only [intersect]
    split
    · simp
    · exact List.Pairwise.sublist (intersectGo_sublist _ _) (hs p (by simp))

/-! ### without -/

theorem withoutGo_sublist : ∀ (f r : Postings), (withoutGo f r).Sublist f
  | [], _ => by simp [withoutGo]
  | x :: f, r => by
    simp only [withoutGo]
    split
    · exact (withoutGo_sublist f _).cons x
    · exact (withoutGo_sublist f _).cons_cons x

theorem mem_withoutGo : ∀ {f r : Postings}, Sorted f → Sorted r → ∀ y, y ∈ withoutGo f r ↔ y ∈ f ∧ y ∉ r
  | [], _, _, _, y => by simp [withoutGo]
  | x :: f, r, hf, hr, y => by
    have ih := mem_withoutGo (sorted_tail hf) (sorted_seek (x := x) hr) y
    have hlt : ∀ z ∈ f, x < z := sorted_head_lt hf
    have hseek : y ∈ seek x r ↔ y ∈ r ∧ x ≤ y := mem_seek hr
    simp only [withoutGo]
    split
    · rename_i hh
      have hx : x ∈ r := (head_seek_iff hr).mp (by simpa using hh)
      rw [ih, hseek, List.mem_cons]
      constructor
      · rintro ⟨hy, hn⟩; exact ⟨Or.inr hy, fun hyr => hn ⟨hyr, Nat.le_of_lt (hlt y hy)⟩⟩
      · rintro ⟨rfl | hy, hn⟩
        · exact absurd hx hn
        · exact ⟨hy, fun h => hn h.1⟩
    · rename_i hh
      have hx : x ∉ r := fun h => hh (by simpa using (head_seek_iff hr).mpr h)
      rw [List.mem_cons, ih, hseek, List.mem_cons]
      constructor
      · rintro (rfl | ⟨hy, hn⟩)
        · exact ⟨Or.inl rfl, hx⟩
        · exact ⟨Or.inr hy, fun hyr => hn ⟨hyr, Nat.le_of_lt (hlt y hy)⟩⟩
      · rintro ⟨rfl | hy, hn⟩
        · exact Or.inl rfl
        · exact Or.inr ⟨hy, fun h => hn h.1⟩

theorem mem_without {f r : Postings} (hf : Sorted f) (hr : Sorted r) (y : Nat) :
    y ∈ without f r ↔ y ∈ f ∧ y ∉ r := by
  unfold without
  split
  · rename_i h; have : f = [] := List.isEmpty_iff.mp h; subst this; simp
  · split
    · rename_i h; have : r = [] := List.isEmpty_iff.mp h; subst this; simp
    · exact mem_withoutGo hf hr y

theorem without_sublist (f r : Postings) : (without f r).Sublist f := by
  unfold without
  split
  · simp
  · split
    · exact List.Sublist.refl _
    · exact withoutGo_sublist f r

theorem sorted_without {f r : Postings} (hf : Sorted f) : Sorted (without f r) :=
  List.Pairwise.sublist (without_sublist f r) hf

/-! ### merge -/

theorem merge2_spec : ∀ {p q : Postings}, Sorted p → Sorted q →
    Sorted (merge2 p q) ∧ ∀ y, y ∈ merge2 p q ↔ y ∈ p ∨ y ∈ q
  | [], q, _, hq => by simp [merge2, hq]
  | x :: p, q, hp, hq => by
    have hq' : Sorted (q.dropWhile (· ≤ x)) := by
      rw [dropWhile_le_eq_filter x hq]; exact sorted_filter _ hq
    obtain ⟨ihs, ihm⟩ := merge2_spec (sorted_tail hp) hq'
    have hlt : ∀ z ∈ p, x < z := sorted_head_lt hp
    have hmemd : ∀ y, y ∈ q.dropWhile (· ≤ x) ↔ y ∈ q ∧ x < y := by
      intro y; simp [dropWhile_le_eq_filter x hq]
    have hmemt : ∀ y, y ∈ q.takeWhile (· < x) ↔ y ∈ q ∧ y < x := by
      intro y; simp [takeWhile_lt_eq_filter x hq]
    simp only [merge2]
    constructor
    · unfold Sorted; rw [List.pairwise_append]
      refine ⟨?_, ?_, ?_⟩
      · rw [takeWhile_lt_eq_filter x hq]; exact sorted_filter _ hq
      · rw [List.pairwise_cons]
        refine ⟨?_, ihs⟩
        intro z hz
        rcases (ihm z).mp hz with h | h
        · exact hlt z h
        · exact ((hmemd z).mp h).2
      · intro a ha b hb
        have ha' := ((hmemt a).mp ha).2
        rcases List.mem_cons.mp hb with rfl | hb
        · exact ha'
        · rcases (ihm b).mp hb with h | h
          · have := hlt b h; omega
          · have := ((hmemd b).mp h).2; omega
    · intro y
      rw [List.mem_append, List.mem_cons, ihm, hmemt, hmemd, List.mem_cons]
      constructor
      · rintro (⟨h, _⟩ | rfl | h | ⟨h, _⟩)
        · exact Or.inr h
        · exact Or.inl (Or.inl rfl)
        · exact Or.inl (Or.inr h)
        · exact Or.inr h
      · rintro ((rfl | h) | h)
        · exact Or.inr (Or.inl rfl)
        · exact Or.inr (Or.inr (Or.inl h))
        · rcases Nat.lt_trichotomy y x with h1 | h1 | h1
          · exact Or.inl ⟨h, h1⟩
          · exact Or.inr (Or.inl h1)
          · exact Or.inr (Or.inr (Or.inr ⟨h, h1⟩))

theorem mergeAll_spec : ∀ {its : List Postings}, (∀ p ∈ its, Sorted p) →
    Sorted (mergeAll its) ∧ ∀ y, y ∈ mergeAll its ↔ ∃ p ∈ its, y ∈ p
  | [], _ => by simp [mergeAll]
  | p :: rest, hs => by
    obtain ⟨ihs, ihm⟩ := mergeAll_spec (its := rest) (fun q hq => hs q (List.mem_cons_of_mem _ hq))
    have := merge2_spec (hs p (by simp)) ihs
    simp only [mergeAll, List.foldr_cons] at *
    refine ⟨this.1, fun y => ?_⟩
    rw [this.2, ihm]; simp

theorem dropWhile_zero_of_pos {l : Postings} (h : ∀ y ∈ l, 0 < y) : l.dropWhile (· == 0) = l := by
  cases l with
  | nil => rfl
  | cons a t =>
    have : a ≠ 0 := by have := h a (by simp); omega
    simp [List.dropWhile_cons, this]

theorem merge_spec' {its : List Postings} (hs : ∀ p ∈ its, Sorted p) (hpos : ∀ p ∈ its, ∀ y ∈ p, 0 < y) :
    Sorted (merge its) ∧ ∀ y, y ∈ merge its ↔ ∃ p ∈ its, y ∈ p := by
  match its with
  | [] => simp [merge]
  | [p] => simpa [merge] using hs p (by simp)
  | p :: q :: rest =>
    obtain ⟨h1, h2⟩ := mergeAll_spec hs
    have hp : ∀ y ∈ mergeAll (p :: q :: rest), 0 < y := by
      intro y hy; rcases (h2 y).mp hy with ⟨r, hr, hyr⟩; exact hpos r hr y hyr
    simp only [merge]
    rw [dropWhile_zero_of_pos hp]
    exact ⟨h1, h2⟩

end Prom.Postings
