import PromProofs.DbTxn
/-
  C01 refinement, the heart: `Db.commit` (re-check + memSeries.append per batch element) against
  `Ref.commit` (a sample is stored iff strictly newer than the newest stored sample of its series).
-/
namespace Prom.Db
open Prom.Intervals

/-- Invariant of the commit loop (`d0` = state before the loop, `a` = the appender). -/
structure FI (d0 : Db) (d : Db) (lo hi : Int) (r : Ref) (rem : List (Nat × Smp)) : Prop where
  blocks : d.blocks = d0.blocks
  cfg : d.cfg = d0.cfg
  minT : d.minT = d0.minT
  maxT : d.maxT = d0.maxT
  minValid : d.minValid = d0.minValid
  idxNodup : d.series.Pairwise (fun s s' => s.idx ≠ s'.idx)
  physInc : ∀ s ∈ d.series, SInc s.phys
  physNe : ∀ s ∈ d.series, s.phys ≠ []
  physMax : ∀ s ∈ d.series, ∀ x ∈ s.phys, x.t < MaxI64
  tombHi : ∀ s ∈ d.series, ∀ iv ∈ s.tombs, ∀ l, s.phys.getLast? = some l → iv.maxt ≤ l.t
  lastOk : ∀ s ∈ d.series, ∀ l, s.phys.getLast? = some l →
    visible s.tombs l = true ∨ ∀ p ∈ rem, p.1 = s.idx → l.t < p.2.t
  physBound : ∀ s ∈ d.series, ∀ x ∈ s.phys, (lo ≤ x.t ∨ d0.minT ≤ x.t) ∧ (x.t ≤ hi ∨ x.t ≤ d0.maxT)
  blkLo : d0.blkAll (fun x => x.t < lo)
  sinc : ∀ i, SInc (r.get i)
  mem : ∀ i x, d.mem i x ↔ x ∈ r.get i

theorem getLast?_append_one {α} (xs : List α) (x : α) : (xs ++ [x]).getLast? = some x := by simp

theorem commitStep_FI {d0 : Db} {a : App} (how : d0.cfg.oooWin = 0)
    (hblk : d0.blkAll (fun x => x.t < a.minValid))
    {d : Db} {lo hi : Int} {r : Ref} (p : Nat × Smp) {ps : List (Nat × Smp)} (h : FI d0 d lo hi r (p :: ps))
    (hp : a.minValid ≤ p.2.t ∧ p.2.t < MaxI64) :
    FI d0 (commitStep a (d, lo, hi) p).1 (commitStep a (d, lo, hi) p).2.1
      (commitStep a (d, lo, hi) p).2.2 (refStep r p) ps := by
  obtain ⟨i, x⟩ := p
  simp only at hp
  have how' : d.cfg.oooWin = 0 := by rw [h.cfg]; exact how
  -- facts about the current series of `i`
  have hsP : ∀ z ∈ (d.getSeries i).phys, d.getSeries i ∈ d.series := by
    intro z hz
    rcases getSeries_cases d i with hc | hc
    · exact hc.1
    · rw [hc.2] at hz; simp at hz
  by_cases hcase : ∀ l, (d.getSeries i).phys.getLast? = some l → l.t < x.t
  · -- stored
    have hco := commitOne_stored (d.getSeries i) x a hp.1 hcase
    have hstep : commitStep a (d, lo, hi) (i, x) =
        (d.setSeries { d.getSeries i with phys := (d.getSeries i).phys ++ [x] }, min lo x.t, max hi x.t) := by
      simp only [commitStep, how', hco, if_true]
    rw [hstep]
    simp only
    -- every reference sample of `i` is older than `x`
    have hV : ∀ z ∈ r.get i, z.t < x.t := by
      intro z hz
      rcases (h.mem i z).2 hz with ⟨u, hu, hui, hzu, _⟩ | ⟨b, hb, u, hu, _, hzu, _⟩
      · have hu' : d.getSeries i = u := by rw [← hui]; exact getSeries_of_mem h.idxNodup hu
        rw [← hu'] at hzu
        cases hl : (d.getSeries i).phys.getLast? with
        | none => have : (d.getSeries i).phys = [] := by simpa using hl
                  rw [this] at hzu; simp at hzu
        | some l =>
          have h1 := (h.physInc _ (hsP z hzu)).le_getLast hl z hzu
          have h2 := hcase l hl
          omega
      · have := hblk b (h.blocks ▸ hb) u hu z hzu
        simp only at this; omega
    have href : refStep r (i, x) = r.set i (r.get i ++ [x]) := by
      simp only [refStep]
      cases hl : (r.get i).getLast? with
      | none => have : r.get i = [] := by simpa using hl
                simp [this]
      | some l =>
        have := hV l (getLast?_mem hl)
        have h2 : ¬ l.t ≥ x.t := by omega
        simp [h2]
    rw [href]
    -- the tombstones of the series end before `x`
    have htomb : ∀ iv ∈ (d.getSeries i).tombs, iv.maxt < x.t := by
      intro iv hiv
      rcases getSeries_cases d i with hc | hc
      · cases hl : (d.getSeries i).phys.getLast? with
        | none => have : (d.getSeries i).phys = [] := by simpa using hl
                  exact absurd this (h.physNe _ hc.1)
        | some l =>
          have := h.tombHi _ hc.1 iv hiv l hl
          have := hcase l hl
          omega
      · rw [hc.2] at hiv; simp at hiv
    have hvis : visible (d.getSeries i).tombs x = true := visible_of_maxt_lt htomb
    have hphysOld : ∀ z ∈ (d.getSeries i).phys, z.t < x.t := by
      intro z hz
      cases hl : (d.getSeries i).phys.getLast? with
      | none => have : (d.getSeries i).phys = [] := by simpa using hl
                rw [this] at hz; simp at hz
      | some l =>
        have h1 := (h.physInc _ (hsP z hz)).le_getLast hl z hz
        have h2 := hcase l hl
        omega
    have hsincOld : SInc (d.getSeries i).phys := by
      rcases getSeries_cases d i with hc | hc
      · exact h.physInc _ hc.1
      · rw [hc.2]; simp [SInc]
    refine
      { blocks := by simp [h.blocks], cfg := by simp [h.cfg], minT := by simp [h.minT],
        maxT := by simp [h.maxT], minValid := by simp [h.minValid],
        idxNodup := nodup_setSeries h.idxNodup _,
        physInc := ?_, physNe := ?_, physMax := ?_, tombHi := ?_, lastOk := ?_, physBound := ?_,
        blkLo := ?_, sinc := ?_, mem := ?_ }
    · intro s hs
      rw [mem_setSeries] at hs
      rcases hs with rfl | hs
      · exact hsincOld.append_one hphysOld
      · exact h.physInc s hs.1
    · intro s hs
      rw [mem_setSeries] at hs
      rcases hs with rfl | hs
      · simp
      · exact h.physNe s hs.1
    · intro s hs z hz
      rw [mem_setSeries] at hs
      rcases hs with rfl | hs
      · simp only [List.mem_append, List.mem_singleton] at hz
        rcases hz with hz | rfl
        · exact h.physMax _ (hsP z hz) z hz
        · exact hp.2
      · exact h.physMax s hs.1 z hz
    · intro s hs iv hiv l hl
      rw [mem_setSeries] at hs
      rcases hs with rfl | hs
      · simp only [getLast?_append_one, Option.some.injEq] at hl
        subst hl
        have := htomb iv hiv; omega
      · exact h.tombHi s hs.1 iv hiv l hl
    · intro s hs l hl
      rw [mem_setSeries] at hs
      rcases hs with rfl | hs
      · simp only [getLast?_append_one, Option.some.injEq] at hl
        subst hl; exact Or.inl hvis
      · exact (h.lastOk s hs.1 l hl).imp id (fun h' q hq => h' q (by simp [hq]))
    · intro s hs z hz
      rw [mem_setSeries] at hs
      rcases hs with rfl | hs
      · simp only [List.mem_append, List.mem_singleton] at hz
        rcases hz with hz | rfl
        · have := h.physBound _ (hsP z hz) z hz; omega
        · omega
      · have := h.physBound s hs.1 z hz; omega
    · intro b hb s hs z hz
      have h1 := h.blkLo b hb s hs z hz
      have h2 := hblk b hb s hs z hz
      simp only at h1 h2 ⊢; omega
    · intro j
      rw [Ref.get_set]
      split
      · exact (h.sinc i).append_one hV
      · exact h.sinc j
    · intro j z
      rw [mem_setSeries_append h.idxNodup h.physNe i x hvis, Ref.get_set, h.mem j z]
      split
      · rename_i hji; subst hji; simp
      · rename_i hji; simp [hji]
  · -- not stored
    have ⟨l, hl, hle⟩ : ∃ l, (d.getSeries i).phys.getLast? = some l ∧ x.t ≤ l.t := by
      apply Classical.byContradiction
      intro hn
      apply hcase
      intro l hl
      apply Classical.byContradiction
      intro hh
      exact hn ⟨l, hl, by omega⟩
    have hco := commitOne_skipped (d.getSeries i) x a d.cfg.oooWin l hl hle
    have hstep : commitStep a (d, lo, hi) (i, x) = (d, lo, hi) := by
      simp only [commitStep, hco]; rfl
    rw [hstep]
    have hlm : l ∈ (d.getSeries i).phys := getLast?_mem hl
    have hs := hsP l hlm
    have hlv : visible (d.getSeries i).tombs l = true := by
      rcases h.lastOk _ hs l hl with hv | hn
      · exact hv
      · have := hn (i, x) (by simp) (getSeries_idx d i).symm
        simp only at this; omega
    have hmem : d.mem i l := Or.inl ⟨_, hs, getSeries_idx d i, hlm, hlv⟩
    have hlr := (h.mem i l).1 hmem
    have href : refStep r (i, x) = r := by
      simp only [refStep]
      cases hl' : (r.get i).getLast? with
      | none => have : r.get i = [] := by simpa using hl'
                rw [this] at hlr; simp at hlr
      | some l' =>
        have := (h.sinc i).le_getLast hl' l hlr
        have h2 : l'.t ≥ x.t := by omega
        simp [h2]
    rw [href]
    exact { h with lastOk := fun s hs l hl => (h.lastOk s hs l hl).imp id (fun h' q hq => h' q (by simp [hq])) }

theorem commitFold_FI {d0 : Db} {a : App} (how : d0.cfg.oooWin = 0)
    (hblk : d0.blkAll (fun x => x.t < a.minValid)) :
    ∀ (ps : List (Nat × Smp)) (d : Db) (lo hi : Int) (r : Ref), FI d0 d lo hi r ps →
      (∀ p ∈ ps, a.minValid ≤ p.2.t ∧ p.2.t < MaxI64) →
      FI d0 (ps.foldl (commitStep a) (d, lo, hi)).1 (ps.foldl (commitStep a) (d, lo, hi)).2.1
        (ps.foldl (commitStep a) (d, lo, hi)).2.2 (ps.foldl refStep r) []
  | [], d, lo, hi, r, h, _ => h
  | p :: ps, d, lo, hi, r, h, hp => by
    simp only [List.foldl_cons]
    have := commitStep_FI how hblk p h (hp p (by simp))
    exact commitFold_FI how hblk ps _ _ _ _ this (fun q hq => hp q (by simp [hq]))

end Prom.Db
