import PromModel.Promql.Lexical
/-
  C26, durations: `model.ParseDuration (model.Duration.String d) = d` for every non-negative
  whole-millisecond duration that fits an int64 nanosecond count (`duration_roundtrip`).
-/
namespace Prom.Promql

/-! ### digits -/

theorem isDigitB_digit (d : Nat) (h : d < 10) : isDigitB (UInt8.ofNat (48 + d)) = true := by
  have : ∀ d : Fin 10, isDigitB (UInt8.ofNat (48 + d.val)) = true := by decide
  exact this ⟨d, h⟩

theorem digit_toNat (d : Nat) (h : d < 10) : (UInt8.ofNat (48 + d)).toNat - 48 = d := by
  have : ∀ d : Fin 10, (UInt8.ofNat (48 + d.val)).toNat - 48 = d.val := by decide
  exact this ⟨d, h⟩

theorem natDigitsAux_acc (fuel n : Nat) (acc : Bytes) :
    natDigitsAux fuel n acc = natDigitsAux fuel n [] ++ acc := by
  induction fuel generalizing n acc with
  | zero => simp [natDigitsAux]
  | succ fuel ih =>
    unfold natDigitsAux
    split
    · simp
    · rw [ih (n / 10) (_ :: acc), ih (n / 10) [_]]; simp

theorem digitsVal_snoc (xs : Bytes) (d : UInt8) :
    digitsVal (xs ++ [d]) = digitsVal xs * 10 + (d.toNat - 48) := by
  simp [digitsVal, List.foldl_append]

theorem digitsVal_natDigitsAux (fuel n : Nat) (h : n < fuel) :
    digitsVal (natDigitsAux fuel n []) = n := by
  induction fuel generalizing n with
  | zero => omega
  | succ fuel ih =>
    unfold natDigitsAux
    split
    · rename_i h10
      simp [digitsVal]; omega
    · rw [natDigitsAux_acc, digitsVal_snoc, ih (n / 10) (by omega),
        digit_toNat (n % 10) (by omega)]
      omega

theorem digitsVal_natDigits (n : Nat) : digitsVal (natDigits n) = n :=
  digitsVal_natDigitsAux (n + 1) n (by omega)

theorem natDigitsAux_all (fuel n : Nat) (acc : Bytes) (h : acc.all isDigitB = true) :
    (natDigitsAux fuel n acc).all isDigitB = true := by
  induction fuel generalizing n acc with
  | zero => simpa [natDigitsAux] using h
  | succ fuel ih =>
    unfold natDigitsAux
    split
    · rename_i h10
      simp only [List.all_cons, isDigitB_digit n h10, h, Bool.and_self]
    · apply ih
      simp only [List.all_cons, isDigitB_digit (n % 10) (by omega), h, Bool.and_self]

theorem natDigits_all (n : Nat) : (natDigits n).all isDigitB = true :=
  natDigitsAux_all _ _ _ (by simp)

theorem natDigits_ne_nil (n : Nat) : natDigits n ≠ [] := by
  unfold natDigits natDigitsAux
  split
  · simp
  · rw [natDigitsAux_acc]; simp


/-! ### takeWhile / dropWhile on digit runs -/

/-- The text is empty or starts with a digit. -/
def DigitStart (t : Bytes) : Prop := ∀ c t', t = c :: t' → isDigitB c = true

theorem takeWhile_app {p : UInt8 → Bool} (ds rest : Bytes) (h : ds.all p = true)
    (hr : ∀ c t', rest = c :: t' → p c = false) :
    (ds ++ rest).takeWhile p = ds ∧ (ds ++ rest).dropWhile p = rest := by
  induction ds with
  | nil =>
    cases rest with
    | nil => simp
    | cons c t => simp [hr c t rfl]
  | cons d ds ih =>
    simp only [List.all_cons, Bool.and_eq_true] at h
    simp [h.1, ih h.2]

/-! ### one iteration of the parse loop -/

theorem parseDurLoop_nil (fuel dur lp : Nat) : parseDurLoop fuel [] dur lp = some dur := by
  cases fuel <;> simp [parseDurLoop]

theorem parseDurLoop_step (fuel v : Nat) (u rest : Bytes) (dur lp pos mult : Nat)
    (hu : unitInfo u = some (pos, mult)) (hne : u ≠ [])
    (hnd : u.all (fun c => !isDigitB c) = true) (hrest : DigitStart rest)
    (hlp : lp < pos) (hv : v < 2 ^ 64) (hv2 : v ≤ 2 ^ 63 / mult)
    (hd : dur + v * mult ≤ 2 ^ 63 - 1) :
    parseDurLoop (fuel + 1) (natDigits v ++ (u ++ rest)) dur lp
      = parseDurLoop fuel rest (dur + v * mult) pos := by
  have hall := natDigits_all v
  have hval := digitsVal_natDigits v
  have hu0 : ∀ c t', u ++ rest = c :: t' → isDigitB c = false := by
    intro c t' h
    cases u with
    | nil => exact absurd rfl hne
    | cons a u' =>
      simp only [List.cons_append, List.cons.injEq] at h
      simp only [List.all_cons, Bool.and_eq_true, Bool.not_eq_true'] at hnd
      rw [← h.1]; exact hnd.1
  have hr0 : ∀ c t', rest = c :: t' → (fun c => !isDigitB c) c = false := by
    intro c t' h; simp [hrest c t' h]
  have h1 := takeWhile_app (natDigits v) (u ++ rest) hall hu0
  have h2 := takeWhile_app u rest hnd hr0
  cases hct : natDigits v with
  | nil => exact absurd hct (natDigits_ne_nil v)
  | cons c t =>
    rw [hct] at h1 hall hval
    simp only [List.all_cons, Bool.and_eq_true] at hall
    simp only [List.cons_append] at h1 ⊢
    conv => lhs; unfold parseDurLoop
    simp only [h1.1, h1.2, h2.1, h2.2, hval, hall.1, hu]
    have hne' : u.isEmpty = false := by cases u <;> simp_all
    simp [hne', Nat.not_le.mpr hlp, Nat.not_lt.mpr hv2, Nat.not_lt.mpr hd, Nat.not_le.mpr hv]

/-! ### the printer as a fold over unit steps -/

abbrev Step := Bytes × Nat × Bool

def runSteps (L : List Step) (st : Nat × Bytes) : Nat × Bytes :=
  L.foldl (fun st x => durStep x.1 x.2.1 x.2.2 st) st

def stepsL : List Step :=
  [(bs "y", msYear, true), (bs "w", msWeek, true), (bs "d", msDay, false), (bs "h", msHour, false),
   (bs "m", msMinute, false), (bs "s", 1000, false), (bs "ms", 1, false)]

theorem fmtDurationMs_eq (ms : Nat) :
    fmtDurationMs ms = if ms = 0 then bs "0s" else (runSteps stepsL (ms, [])).2 := rfl

theorem runSteps_cons (x : Step) (L : List Step) (st : Nat × Bytes) :
    runSteps (x :: L) st = runSteps L (durStep x.1 x.2.1 x.2.2 st) := rfl

theorem durStep_acc (u : Bytes) (m : Nat) (e : Bool) (r : Nat) (acc : Bytes) :
    durStep u m e (r, acc) = ((durStep u m e (r, [])).1, acc ++ (durStep u m e (r, [])).2) := by
  unfold durStep
  split
  · simp
  · split <;> simp

theorem runSteps_acc (L : List Step) (r : Nat) (acc : Bytes) :
    runSteps L (r, acc) = ((runSteps L (r, [])).1, acc ++ (runSteps L (r, [])).2) := by
  induction L generalizing r acc with
  | nil => simp [runSteps]
  | cons x L ih =>
    rw [runSteps_cons, runSteps_cons, durStep_acc, ih, ih _ (durStep _ _ _ (r, [])).2]
    simp

/-- A step either leaves the state alone or emits `v ++ unit` for some `v > 0` with `v * m ≤ r`. -/
theorem durStep_cases (u : Bytes) (m : Nat) (e : Bool) (r : Nat) :
    durStep u m e (r, []) = (r, []) ∨
    ∃ v, 0 < v ∧ v * m ≤ r ∧ durStep u m e (r, []) = (r - v * m, natDigits v ++ u) := by
  unfold durStep
  split
  · exact Or.inl rfl
  · split
    · rename_i h
      exact Or.inr ⟨r / m, h, Nat.div_mul_le_self r m, by simp⟩
    · exact Or.inl rfl

/-- The first component after a cons step, in the two cases. -/
theorem runSteps_cons_cases (u : Bytes) (m : Nat) (e : Bool) (L : List Step) (r : Nat) :
    runSteps ((u, m, e) :: L) (r, []) = runSteps L (r, []) ∨
    ∃ v, 0 < v ∧ v * m ≤ r ∧
      runSteps ((u, m, e) :: L) (r, []) =
        ((runSteps L (r - v * m, [])).1, natDigits v ++ (u ++ (runSteps L (r - v * m, [])).2)) := by
  rcases durStep_cases u m e r with h | ⟨v, hv, hle, h⟩
  · left; rw [runSteps_cons]; simp only []; rw [h]
  · right
    refine ⟨v, hv, hle, ?_⟩
    rw [runSteps_cons]; simp only []; rw [h, runSteps_acc]; simp

theorem runSteps_fst_le (L : List Step) (r : Nat) : (runSteps L (r, [])).1 ≤ r := by
  induction L generalizing r with
  | nil => simp [runSteps]
  | cons x L ih =>
    obtain ⟨u, m, e⟩ := x
    rcases runSteps_cons_cases u m e L r with h | ⟨v, _, _, h⟩
    · rw [h]; exact ih r
    · rw [h]; exact Nat.le_trans (ih _) (Nat.sub_le _ _)

theorem digitStart_natDigits_append (v : Nat) (t : Bytes) : DigitStart (natDigits v ++ t) := by
  intro c t' h
  have hall := natDigits_all v
  cases hct : natDigits v with
  | nil => exact absurd hct (natDigits_ne_nil v)
  | cons d ds =>
    rw [hct] at h hall
    simp only [List.cons_append, List.cons.injEq] at h
    simp only [List.all_cons, Bool.and_eq_true] at hall
    rw [← h.1]; exact hall.1

theorem digitStart_runSteps (L : List Step) (r : Nat) : DigitStart (runSteps L (r, [])).2 := by
  induction L generalizing r with
  | nil => intro c t' h; simp [runSteps] at h
  | cons x L ih =>
    obtain ⟨u, m, e⟩ := x
    rcases runSteps_cons_cases u m e L r with h | ⟨v, _, _, h⟩
    · rw [h]; exact ih r
    · rw [h]; exact digitStart_natDigits_append v _

/-- Either nothing was printed (and nothing consumed) or at least two bytes were. -/
theorem runSteps_text_cases (L : List Step) (hL : ∀ x ∈ L, x.1 ≠ []) (r : Nat) :
    ((runSteps L (r, [])).2 = [] ∧ (runSteps L (r, [])).1 = r) ∨
      2 ≤ (runSteps L (r, [])).2.length := by
  induction L generalizing r with
  | nil => left; simp [runSteps]
  | cons x L ih =>
    obtain ⟨u, m, e⟩ := x
    rcases runSteps_cons_cases u m e L r with h | ⟨v, _, _, h⟩
    · rw [h]; exact ih (fun x hx => hL x (List.mem_cons_of_mem _ hx)) r
    · right
      rw [h]
      have h1 := natDigits_ne_nil v
      have h2 : u ≠ [] := hL (u, m, e) (List.mem_cons_self ..)
      have := List.length_pos_iff.mpr h1
      have := List.length_pos_iff.mpr h2
      simp only [List.length_append]
      omega


/-! ### the parser on printed steps -/

/-- Every step's unit is known to the parser with the matching nanosecond multiplier, and the
    unit positions increase strictly from `lp`. -/
def GoodSteps : Nat → List Step → Prop
  | _, [] => True
  | lp, (u, m, _) :: L =>
    ∃ pos, unitInfo u = some (pos, m * 1000000) ∧ lp < pos ∧ u ≠ [] ∧
      u.all (fun c => !isDigitB c) = true ∧ 0 < m ∧ GoodSteps pos L

theorem GoodSteps.mono {lp lp' : Nat} (h : lp' ≤ lp) : ∀ {L : List Step}, GoodSteps lp L → GoodSteps lp' L
  | [], _ => trivial
  | (_, _, _) :: _, ⟨pos, h1, h2, h3⟩ => ⟨pos, h1, Nat.lt_of_le_of_lt h h2, h3⟩

theorem parseDurLoop_runSteps (L : List Step) :
    ∀ (r dur lp fuel : Nat), GoodSteps lp L → dur + r * 1000000 ≤ 2 ^ 63 - 1 →
      (runSteps L (r, [])).2.length ≤ fuel →
      parseDurLoop fuel (runSteps L (r, [])).2 dur lp
        = some (dur + (r - (runSteps L (r, [])).1) * 1000000) := by
  induction L with
  | nil => intro r dur lp fuel _ _ _; simp [runSteps, parseDurLoop_nil]
  | cons x L ih =>
    intro r dur lp fuel hg hd hf
    obtain ⟨u, m, e⟩ := x
    obtain ⟨pos, hu, hlp, hne, hnd, hm, hg'⟩ := hg
    rcases runSteps_cons_cases u m e L r with h | ⟨v, hv, hle, h⟩
    · rw [h] at hf ⊢
      exact ih r dur lp fuel (hg'.mono (Nat.le_of_lt hlp)) hd hf
    · rw [h] at hf ⊢
      simp only [List.length_append] at hf
      have hl1 := List.length_pos_iff.mpr (natDigits_ne_nil v)
      have hl2 := List.length_pos_iff.mpr hne
      obtain ⟨fuel', rfl⟩ : ∃ f, fuel = f + 1 := ⟨fuel - 1, by omega⟩
      have hvm : v ≤ v * m := Nat.le_mul_of_pos_right v hm
      have hassoc : v * (m * 1000000) = v * m * 1000000 := (Nat.mul_assoc ..).symm
      have hr' := runSteps_fst_le L (r - v * m)
      rw [parseDurLoop_step fuel' v u _ dur lp pos (m * 1000000) hu hne hnd
        (digitStart_runSteps L _) hlp (by omega)
        ((Nat.le_div_iff_mul_le (by omega)).mpr (by omega)) (by omega)]
      rw [ih (r - v * m) _ pos fuel' hg' (by omega) (by omega)]
      congr 1
      omega


/-! ### the concrete unit table -/

theorem bs_ms : bs "ms" = [109, 115] := by
  have h : "ms".toByteArray = ⟨#[109, 115]⟩ := by rfl
  simp [bs, String.toUTF8, h, ByteArray.toList, ByteArray.toList.loop, ByteArray.size, ByteArray.get!]
theorem bs_s : bs "s" = [115] := by
  have h : "s".toByteArray = ⟨#[115]⟩ := by rfl
  simp [bs, String.toUTF8, h, ByteArray.toList, ByteArray.toList.loop, ByteArray.size, ByteArray.get!]
theorem bs_m : bs "m" = [109] := by
  have h : "m".toByteArray = ⟨#[109]⟩ := by rfl
  simp [bs, String.toUTF8, h, ByteArray.toList, ByteArray.toList.loop, ByteArray.size, ByteArray.get!]
theorem bs_h : bs "h" = [104] := by
  have h : "h".toByteArray = ⟨#[104]⟩ := by rfl
  simp [bs, String.toUTF8, h, ByteArray.toList, ByteArray.toList.loop, ByteArray.size, ByteArray.get!]
theorem bs_d : bs "d" = [100] := by
  have h : "d".toByteArray = ⟨#[100]⟩ := by rfl
  simp [bs, String.toUTF8, h, ByteArray.toList, ByteArray.toList.loop, ByteArray.size, ByteArray.get!]
theorem bs_w : bs "w" = [119] := by
  have h : "w".toByteArray = ⟨#[119]⟩ := by rfl
  simp [bs, String.toUTF8, h, ByteArray.toList, ByteArray.toList.loop, ByteArray.size, ByteArray.get!]
theorem bs_y : bs "y" = [121] := by
  have h : "y".toByteArray = ⟨#[121]⟩ := by rfl
  simp [bs, String.toUTF8, h, ByteArray.toList, ByteArray.toList.loop, ByteArray.size, ByteArray.get!]
theorem bs_0 : bs "0" = [48] := by
  have h : "0".toByteArray = ⟨#[48]⟩ := by rfl
  simp [bs, String.toUTF8, h, ByteArray.toList, ByteArray.toList.loop, ByteArray.size, ByteArray.get!]
theorem bs_0s : bs "0s" = [48, 115] := by
  have h : "0s".toByteArray = ⟨#[48, 115]⟩ := by rfl
  simp [bs, String.toUTF8, h, ByteArray.toList, ByteArray.toList.loop, ByteArray.size, ByteArray.get!]

theorem unitInfo_table :
    unitInfo [121] = some (1, msYear * 1000000) ∧ unitInfo [119] = some (2, msWeek * 1000000) ∧
    unitInfo [100] = some (3, msDay * 1000000) ∧ unitInfo [104] = some (4, msHour * 1000000) ∧
    unitInfo [109] = some (5, msMinute * 1000000) ∧ unitInfo [115] = some (6, 1000 * 1000000) ∧
    unitInfo [109, 115] = some (7, 1 * 1000000) := by
  simp only [unitInfo, bs_ms, bs_s, bs_m, bs_h, bs_d, bs_w, bs_y]
  decide

theorem stepsL_eq : stepsL =
    [([121], msYear, true), ([119], msWeek, true), ([100], msDay, false), ([104], msHour, false),
     ([109], msMinute, false), ([115], 1000, false), ([109, 115], 1, false)] := by
  simp only [stepsL, bs_ms, bs_s, bs_m, bs_h, bs_d, bs_w, bs_y]

theorem goodSteps_stepsL : GoodSteps 0 stepsL := by
  obtain ⟨hy, hw, hd, hh, hm, hs, hms⟩ := unitInfo_table
  rw [stepsL_eq]
  exact ⟨1, hy, by decide, by decide, by decide, by decide,
    2, hw, by decide, by decide, by decide, by decide,
    3, hd, by decide, by decide, by decide, by decide,
    4, hh, by decide, by decide, by decide, by decide,
    5, hm, by decide, by decide, by decide, by decide,
    6, hs, by decide, by decide, by decide, by decide,
    7, hms, by decide, by decide, by decide, by decide, trivial⟩

theorem stepsL_units_ne_nil : ∀ x ∈ stepsL, x.1 ≠ [] := by
  rw [stepsL_eq]; decide

theorem durStep_one_fst (u : Bytes) (st : Nat × Bytes) : (durStep u 1 false st).1 = 0 := by
  simp only [durStep, Bool.false_and, Bool.false_eq_true, if_false, Nat.div_one, Nat.mul_one,
    Nat.sub_self]
  split
  · rfl
  · omega

theorem runSteps_stepsL_fst (r : Nat) : (runSteps stepsL (r, [])).1 = 0 := by
  have : stepsL = stepsL.dropLast ++ [(bs "ms", 1, false)] := rfl
  rw [this, runSteps, List.foldl_append]
  exact durStep_one_fst _ _

/-! ### round trip -/

theorem duration_roundtrip (ms : Nat) (h : ms * 1000000 ≤ 2 ^ 63 - 1) :
    parseDuration (fmtDurationMs ms) = some (ms * 1000000) := by
  rw [fmtDurationMs_eq]
  split
  · subst ms
    have h0 : natDigits 0 = [48] := rfl
    have := parseDurLoop_step 1 0 [115] [] 0 0 6 (1000 * 1000000) unitInfo_table.2.2.2.2.2.1
      (by decide) (by decide) (by intro c t h; cases h) (by decide) (by decide) (by decide) (by decide)
    rw [h0] at this
    simp only [parseDuration, bs_0s, bs_0]
    simpa [parseDurLoop_nil] using this
  · rename_i hms
    have hfst := runSteps_stepsL_fst ms
    have hmain := parseDurLoop_runSteps stepsL ms 0 0 _ goodSteps_stepsL (by omega) (Nat.le_refl _)
    rw [hfst] at hmain
    unfold parseDuration
    rcases runSteps_text_cases stepsL stepsL_units_ne_nil ms with ⟨_, h2⟩ | h2
    · omega
    · rw [bs_0]
      have hne1 : (runSteps stepsL (ms, [])).2 ≠ [48] := by
        intro hc; rw [hc] at h2; simp at h2
      have hne2 : (runSteps stepsL (ms, [])).2.isEmpty = false := by
        cases hc : (runSteps stepsL (ms, [])).2 with
        | nil => rw [hc] at h2; simp at h2
        | cons _ _ => rfl
      rw [if_neg hne1, hne2, hmain]
      simp

end Prom.Promql
