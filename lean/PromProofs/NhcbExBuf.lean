import PromModel.Ingest.Nhcb
/-
  The reused exemplar buffer of `NHCBParser` (`tempExemplars`/`tempExemplarCount`): as long as every
  collation ends in a successful conversion, the first `count` slots hold exactly the exemplars stored
  since the last reset, in order (helper lemmas for PromProps/C36.lean).
-/
namespace Prom.Nhcb

/-- `len` is `count` or one ahead (a free slot handed out by `nextExemplarPtr`), inside the backing array. -/
def ExBuf.Inv (b : ExBuf) : Prop := (b.len = b.count ∨ b.len = b.count + 1) ∧ b.len ≤ b.buf.length

/-- The exemplar overwrites a reused slot completely (no stale timestamp can survive, cf. C36-F4). -/
def NoMerge (p : Bool) (e : String) : Prop := ∀ old, mergeEx p old e = e

theorem noMerge_of_not_partial (e : String) : NoMerge false e := by
  intro old; simp [mergeEx]

/-- decidable sufficient condition: the exemplar carries a timestamp -/
def exHasTs (e : String) : Bool :=
  match e.splitOn "/" with
  | [_, _, t] => t ≠ "-"
  | _ => true

theorem noMerge_of_hasTs (p : Bool) (e : String) (h : exHasTs e = true) : NoMerge p e := by
  intro old
  unfold mergeEx
  cases p
  · simp
  · simp only [Bool.not_true, Bool.false_eq_true, ↓reduceIte]
    unfold exHasTs at h
    split
    · rename_i l v t _ _ ot he ho
      rw [he] at h
      simp at h
      simp [h]
    · rfl

theorem ExBuf.nextPtr_spec (b : ExBuf) (h : b.Inv) :
    b.nextPtr.len = b.count + 1 ∧ b.nextPtr.count = b.count ∧ b.nextPtr.len ≤ b.nextPtr.buf.length ∧
      b.nextPtr.buf.take b.count = b.buf.take b.count := by
  obtain ⟨h1, h2⟩ := h
  unfold ExBuf.nextPtr
  by_cases hc : b.count + 1 = b.len
  · simp [hc, h2]
  · have hl : b.len = b.count := by omega
    simp only [hc, ↓reduceIte]
    by_cases hf : b.len = b.buf.length
    · simp only [hf, ↓reduceIte]
      refine ⟨by omega, trivial, ?_, ?_⟩
      · simp only [List.length_set, List.length_append, List.length_replicate]
        split <;> omega
      · rw [List.take_set_of_le (by omega)]
        rw [List.take_append_of_le_length (by omega)]
    · simp only [hf, ↓reduceIte]
      refine ⟨by omega, trivial, by omega, trivial⟩

theorem ExBuf.store_spec (p : Bool) (ex : List String) (b : ExBuf) (h : b.Inv) (hm : ∀ e ∈ ex, NoMerge p e) :
    (b.store p ex).len = (b.store p ex).count + 1 ∧ (b.store p ex).len ≤ (b.store p ex).buf.length ∧
      (b.store p ex).buf.take (b.store p ex).count = b.buf.take b.count ++ ex := by
  induction ex generalizing b with
  | nil =>
    obtain ⟨a1, a2, a3, a4⟩ := b.nextPtr_spec h
    simp only [ExBuf.store, List.append_nil]
    rw [a2]
    exact ⟨a1, a3, a4⟩
  | cons e es ih =>
    obtain ⟨a1, a2, a3, a4⟩ := b.nextPtr_spec h
    simp only [ExBuf.store]
    have hme : NoMerge p e := hm e (by simp)
    rw [hme]
    let b2 : ExBuf := { b.nextPtr with buf := b.nextPtr.buf.set (b.nextPtr.len - 1) e, count := b.nextPtr.count + 1 }
    have hb2 : b2.Inv := by
      refine ⟨Or.inl ?_, ?_⟩
      · show b.nextPtr.len = b.nextPtr.count + 1
        omega
      · show b.nextPtr.len ≤ (b.nextPtr.buf.set (b.nextPtr.len - 1) e).length
        simpa using a3
    obtain ⟨i1, i2, i3⟩ := ih b2 hb2 (fun x hx => hm x (by simp [hx]))
    refine ⟨i1, i2, ?_⟩
    rw [i3]
    show (b.nextPtr.buf.set (b.nextPtr.len - 1) e).take (b.nextPtr.count + 1) ++ es = _
    rw [a1, a2, Nat.add_sub_cancel]
    have hlt : b.count < b.nextPtr.buf.length := by omega
    rw [List.take_add_one, List.take_set_of_le (Nat.le_refl _), a4]
    simp [hlt]
