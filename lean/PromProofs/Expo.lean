import PromModel.Ingest.OpenMetrics
/-
  Helper lemmas for C35: escaping, the quoted-string scanner on encoder output, error classes of the
  text-format parser.
-/
namespace Prom.Expo

theorem unescHelp_escHelp (s : Bytes) : unescHelp (escHelp s) = s := by
  induction s with
  | nil => rfl
  | cons c r ih =>
    by_cases h1 : c = 92
    · subst h1; simp [escHelp, unescHelp, ih]
    · by_cases h2 : c = 10
      · subst h2; simp [escHelp, unescHelp, ih]
      · simp only [escHelp, h1, h2, if_false, List.singleton_append]
        rw [unescHelp.eq_def]
        split <;> simp_all

theorem unescQuoted_escQuoted (s : Bytes) : unescQuoted (escQuoted s) = s := by
  induction s with
  | nil => rfl
  | cons c r ih =>
    by_cases h1 : c = 92
    · subst h1; simp [escQuoted, unescQuoted, ih]
    · by_cases h2 : c = 10
      · subst h2; simp [escQuoted, unescQuoted, ih]
      · by_cases h3 : c = 34
        · subst h3; simp [escQuoted, unescQuoted, ih]
        · simp only [escQuoted, h1, h2, h3, if_false, List.singleton_append]
          rw [unescQuoted.eq_def]
          split <;> simp_all

/-- no NUL byte -/
def NoNul (v : Bytes) : Prop := ∀ c ∈ v, c ≠ 0

theorem adv_cons (st : Nat) (c : UInt8) (r : Bytes) (h : r.head? ≠ some 0) : adv st (c :: r) = ([c], r) := by
  unfold adv
  cases r with
  | nil => simp
  | cons d r' =>
    have hd : d ≠ 0 := by simpa using h
    by_cases hs : skipNul st = true <;> simp [hs, hd]

theorem escQuoted_length_le (v : Bytes) : v.length ≤ (escQuoted v).length := by
  induction v with
  | nil => simp [escQuoted]
  | cons c r ih =>
    simp only [escQuoted, List.length_append, List.length_cons]
    split <;> (try split) <;> (try split) <;> simp <;> omega

theorem head_esc_ne_zero (v rest : Bytes) (hv : NoNul v) :
    (escQuoted v ++ 34 :: rest).head? ≠ some 0 := by
  cases v with
  | nil => simp [escQuoted]
  | cons c r =>
    have hc : c ≠ 0 := hv c (by simp)
    simp only [escQuoted]
    split
    · simp
    · split
      · simp
      · split
        · simp
        · simpa using hc

/-- the scanner accepts the escaped text up to the closing quote, whatever follows -/
theorem scanQuotedBody_esc (st : Nat) (nl : Bool) (v rest : Bytes) (hv : NoNul v) (hr : rest.head? ≠ some 0) :
    ∀ fuel, v.length + 1 ≤ fuel →
      scanQuotedBody st nl fuel (escQuoted v ++ 34 :: rest) = (true, escQuoted v ++ [34], rest) := by
  induction v with
  | nil =>
    intro fuel hf
    obtain ⟨f, rfl⟩ : ∃ f, fuel = f + 1 := ⟨fuel - 1, by simp at hf; omega⟩
    simp [escQuoted, scanQuotedBody, adv_cons st 34 rest hr]
  | cons c r ih =>
    intro fuel hf
    obtain ⟨f, rfl⟩ : ∃ f, fuel = f + 1 := ⟨fuel - 1, by simp at hf; omega⟩
    have hc : c ≠ 0 := hv c (by simp)
    have hr' : NoNul r := fun x hx => hv x (by simp [hx])
    have hf' : r.length + 1 ≤ f := by simp at hf; omega
    have hh := head_esc_ne_zero r rest hr'
    have ih' := ih hr' f hf'
    by_cases h1 : c = 92
    · subst h1
      have e : escQuoted (92 :: r) ++ 34 :: rest = 92 :: 92 :: (escQuoted r ++ 34 :: rest) := by simp [escQuoted]
      rw [e]
      simp [scanQuotedBody, adv_cons st 92 (92 :: (escQuoted r ++ 34 :: rest)) (by simp),
        adv_cons st 92 (escQuoted r ++ 34 :: rest) hh, ih', escQuoted]
    · by_cases h2 : c = 10
      · subst h2
        have e : escQuoted (10 :: r) ++ 34 :: rest = 92 :: 110 :: (escQuoted r ++ 34 :: rest) := by simp [escQuoted]
        rw [e]
        simp [scanQuotedBody, adv_cons st 92 (110 :: (escQuoted r ++ 34 :: rest)) (by simp),
          adv_cons st 110 (escQuoted r ++ 34 :: rest) hh, ih', escQuoted]
      · by_cases h3 : c = 34
        · subst h3
          have e : escQuoted (34 :: r) ++ 34 :: rest = 92 :: 34 :: (escQuoted r ++ 34 :: rest) := by simp [escQuoted]
          rw [e]
          simp [scanQuotedBody, adv_cons st 92 (34 :: (escQuoted r ++ 34 :: rest)) (by simp),
            adv_cons st 34 (escQuoted r ++ 34 :: rest) hh, ih', escQuoted]
        · have e : escQuoted (c :: r) ++ 34 :: rest = c :: (escQuoted r ++ 34 :: rest) := by simp [escQuoted, h1, h2, h3]
          rw [e]
          simp [scanQuotedBody, h1, h2, h3, hc, adv_cons st c (escQuoted r ++ 34 :: rest) hh, ih', escQuoted]

theorem scanQuoted_esc (st : Nat) (nl : Bool) (v rest : Bytes) (hv : NoNul v) (hr : rest.head? ≠ some 0) :
    scanQuoted st nl (34 :: (escQuoted v ++ 34 :: rest)) = (true, 34 :: (escQuoted v ++ [34]), rest) := by
  unfold scanQuoted
  rw [adv_cons st 34 _ (head_esc_ne_zero v rest hv)]
  simp only
  rw [scanQuotedBody_esc st nl v rest hv hr]
  · simp
  · have := escQuoted_length_le v
    simp only [List.length_cons, List.length_append]
    omega

theorem inner_quoted (x : Bytes) : inner (34 :: (x ++ [34])) = x := by
  simp [inner]

end Prom.Expo
