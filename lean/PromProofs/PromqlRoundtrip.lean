import PromProofs.PromqlAtoms
import PromProofs.PromqlSel
import PromProofs.PromqlMods
import PromProofs.PromqlCheck
/-
  Property C26: the print/parse round trip on a fragment of PromQL, assembled from the lexer layer
  (`PromqlLex*`: the printed text lexes to `etoks e`), the parser layer (`PromqlParse`: precedence
  climbing reads `etoks e` back as `raw e`) and `checkAST` (`PromqlCheck`: `check (raw e) = norm e`).
-/
namespace Prom.Promql
open F64Q

/-! ### the first token of a selector -/

theorem wordTok_kw {w : Bytes} {k : Kw} {t : Bytes} (h : wordTok w = .kw k t) : keywordOf (lowerBs w) w = some (.kw k t) := by
  unfold wordTok at h
  cases hk : keywordOf (lowerBs w) w with
  | none => rw [hk] at h; simp only [] at h; split at h <;> cases h
  | some t' => rw [hk] at h; simp only [] at h; rw [h]

theorem nameTok_startOK {name : Bytes} (h : NameOK name) (tl : List Tok) : StartOK (wordTok name :: tl) := by
  obtain ⟨_, hf, hm⟩ := h
  cases hk : wordTok name with
  | kw k t =>
    rw [hk] at hm
    have hfill : ¬ (k = .fill ∨ k = .fillLeft ∨ k = .fillRight) := by
      intro hk'
      have := keywordOf_kw_fill _ _ k t (wordTok_kw hk) hk'
      simp [isFillWord] at hf
      rcases this with h | h | h <;> simp [h] at hf
    show k ≠ .bool ∧ k ≠ .on ∧ k ≠ .ignoring ∧ k ≠ .groupLeft ∧ k ≠ .groupRight ∧ k ≠ .fill ∧ k ≠ .fillLeft ∧ k ≠ .fillRight
    cases k <;> simp_all [metricIdentOf]
  | _ => trivial

theorem selCoreToks_startOK {name : Bytes} {ms : List Matcher} (h : SelOK name ms) : StartOK (selCoreToks name ms) := by
  unfold selCoreToks
  cases hn : name with
  | nil =>
    have hany := h.1.2 hn
    have hne : ms ≠ [] := by intro h0; simp [h0] at hany
    have : sortMs (keptMs [] ms) ≠ [] := by
      rw [Sel.keptMs_nil]; exact Sel.sortMs_ne_nil hne
    cases hs : sortMs (keptMs [] ms) with
    | nil => exact absurd hs this
    | cons a b => simp [bracedToks]; trivial
  | cons c tl =>
    have := nameTok_startOK (h.2.1 (by simp [hn])) (bracedToks (sortMs (keptMs name ms)))
    rw [hn] at this
    simpa using this

/-! ### attributes of a tree in the fragment -/

/-- highest `minPrec` at which `parseExpr` returns the whole expression -/
def lv : Expr → Nat
  | .bin op _ _ _ _ => op.prec
  | _ => 7

/-- an operator following the printed expression must have precedence `< fb` -/
def fb : Expr → Nat
  | .num v _ => if numNeg v then 6 else 7
  | .un _ e => min 6 (fb e)
  | .bin op _ _ _ r => min (if op.rightAssoc then op.prec else op.prec + 1) (fb r)
  | _ => 7

/-- the tokens of the printed text -/
def etoks : Expr → List Tok
  | .num v _ => numToks v
  | .str s => [.string (quote s)]
  | .vs name ms _ _ _ _ => selCoreToks name ms
  | .paren e => .lparen :: (etoks e ++ [.rparen])
  | .un neg e => .op (if neg then .sub else .add) (if neg then [45] else [43]) :: etoks e
  | .bin op b vm l r => etoks l ++ .op op op.text :: (modToks b vm ++ etoks r)
  | _ => []

/-- The fragment: number and string literals, vector selectors with matchers (no offset / @ / range),
    parentheses, unary signs and binary operators with `bool`, `on`/`ignoring`, `group_left`/`group_right`,
    laid out so that the printer's parenthesis-free rendering is unambiguous (precedence side conditions:
    exactly the shapes `parseExpr` produces). -/
inductive Frag : Expr → Prop
  | num {v : F64} : NumRT v → Frag (.num v false)
  | str {s : Bytes} : hasRC s = false → Frag (.str s)
  | vs {name : Bytes} {ms : List Matcher} : SelOK name ms → Frag (.vs name ms 0 .nil .none .none)
  | paren {e : Expr} : Frag e → Frag (.paren e)
  | un {e : Expr} (neg : Bool) : Frag e → 6 ≤ lv e → e.isNum = false → Frag (.un neg e)
  | bin {l r : Expr} (op : BinOp) (b : Bool) (vm : Option VM) : Frag l → Frag r → op.prec ≤ lv l → op.prec < fb l →
      (if op.rightAssoc then op.prec else op.prec + 1) ≤ lv r → VMGood vm → Frag (.bin op b vm l r)

/-! ### lexer side -/

theorem isWordB_firstNS {w : Bytes} (h : isWordB w = true) : FirstNS w := by
  cases w with
  | nil => simp [isWordB] at h
  | cons c tl =>
    simp only [isWordB, Bool.and_eq_true] at h
    exact ⟨c, tl, rfl, (word_head_chain c h.1).2.2.1⟩

theorem FirstNS.append {s : Bytes} (h : FirstNS s) (t : Bytes) : FirstNS (s ++ t) := by
  obtain ⟨c, tl, rfl, hc⟩ := h
  exact ⟨c, tl ++ t, rfl, hc⟩

theorem selCore_firstNS {name : Bytes} {ms : List Matcher} (h : SelOK name ms) : FirstNS (selectorCoreText name ms) := by
  cases hn : name with
  | nil =>
    subst hn
    have hany := h.1.2 rfl
    have hk : keptMs [] ms = ms := by
      unfold keptMs
      apply List.filter_eq_self.mpr
      intro m _
      cases hv : m.value <;> simp
    have hne : ms ≠ [] := by intro h0; simp [h0] at hany
    have : (sortStrings ((keptMs [] ms).map Matcher.text)).isEmpty = false := by
      rw [sortStrings_map_text, hk]
      have := (sortMs_perm ms).length_eq
      cases hs : sortMs ms with
      | nil => rw [hs] at this; cases ms <;> simp_all
      | cons a b => simp
    unfold selectorCoreText
    simp only [keptMs] at this
    simp only [this, List.nil_append]
    exact ⟨123, _, rfl, rfl⟩
  | cons c tl =>
    have hw := (h.2.1 (by simp [hn])).1
    rw [hn] at hw
    unfold selectorCoreText
    exact (isWordB_firstNS hw).append _

theorem Frag.firstNS {e : Expr} (h : Frag e) : FirstNS (e.print true) := by
  induction h with
  | @num v hv =>
    obtain ⟨h1, h2, _⟩ := hv
    show FirstNS (numText true v false)
    rw [h1]
    cases numNeg v with
    | true => exact ⟨45, _, rfl, rfl⟩
    | false => simpa using isNumBody_firstNS h2
  | str _ => exact ⟨34, _, rfl, rfl⟩
  | @vs name ms hs =>
    have := selCore_firstNS hs
    simpa [Expr.print, atText, extText, offsetText, Expr.isNil] using this
  | @paren e _ _ => exact ⟨40, e.print true ++ [41], by simp [Expr.print], rfl⟩
  | @un e neg _ _ _ _ =>
    cases neg
    · exact ⟨43, e.print true, by simp [Expr.print], rfl⟩
    · exact ⟨45, e.print true, by simp [Expr.print], rfl⟩
  | @bin l r op b vm _ _ _ _ _ _ ihl _ =>
    have := ihl.append ([32] ++ op.text ++ (if b then bs " bool" else []) ++ matchingText vm ++ [32] ++ r.print true)
    simpa [Expr.print] using this

theorem bs_space1 : bs " " = [32] := by with_unfolding_all rfl

theorem matchingText_head (vm : Option VM) : matchingText vm = [] ∨ ∃ tl, matchingText vm = 32 :: tl := by
  cases vm with
  | none => exact Or.inl rfl
  | some m =>
    unfold matchingText
    simp only []
    by_cases c1 : (!m.labels.isEmpty || m.on || (m.card == 1 || m.card == 2)) = true
    · right
      rw [if_pos c1, bs_space1]
      exact ⟨_, by simp only [List.cons_append, List.nil_append, List.append_assoc]; rfl⟩
    · have c2 : (m.card == 1 || m.card == 2) = false := by
        cases h : (m.card == 1 || m.card == 2) <;> simp_all
      rw [if_neg c1, c2]
      simp only [Bool.false_eq_true, if_false, List.nil_append]
      unfold fillText
      cases m.fillL <;> cases m.fillR
      · exact Or.inl rfl
      · exact Or.inr ⟨_, by rw [show bs " fill_right (" = 32 :: bs "fill_right (" from by with_unfolding_all rfl]; rfl⟩
      · exact Or.inr ⟨_, by rw [show bs " fill_left (" = 32 :: bs "fill_left (" from by with_unfolding_all rfl]; rfl⟩
      · simp only []
        split
        · exact Or.inr ⟨_, by rw [show bs " fill (" = 32 :: bs "fill (" from by with_unfolding_all rfl]; rfl⟩
        · exact Or.inr ⟨_, by rw [show bs " fill_left (" = 32 :: bs "fill_left (" from by with_unfolding_all rfl]; rfl⟩

theorem modText_head (b : Bool) (vm : Option VM) (rest : Bytes) (hr : rest.head? = some 32) :
    (((if b then bs " bool" else []) ++ matchingText vm) ++ rest).head? = some 32 := by
  cases b with
  | true => rw [if_pos rfl, show bs " bool" = 32 :: bs "bool" from by with_unfolding_all rfl]; rfl
  | false =>
    simp only [Bool.false_eq_true, if_false, List.nil_append]
    rcases matchingText_head vm with h | ⟨tl, h⟩
    · rw [h]; exact hr
    · rw [h]; rfl

theorem okEnd_space (rest : Bytes) : okEnd (32 :: rest).head? := Or.inr (Or.inl rfl)

/-- every binary operator's text, followed by a space, lexes to the operator token -/
theorem op_lex (d : Int) (g : Bool) (op : BinOp) :
    LexSeg (stS d g) op.text [.op op op.text] (stS d g) (fun x => x = some 32) := by
  cases op
  case add =>
    rw [show BinOp.text .add = [43] from by with_unfolding_all rfl]
    exact (seg_op1 d g .add 43 (by simp)).weaken fun _ _ => trivial
  case sub =>
    rw [show BinOp.text .sub = [45] from by with_unfolding_all rfl]
    exact (seg_op1 d g .sub 45 (by simp)).weaken fun _ _ => trivial
  case mul =>
    rw [show BinOp.text .mul = [42] from by with_unfolding_all rfl]
    exact (seg_op1 d g .mul 42 (by simp)).weaken fun _ _ => trivial
  case div =>
    rw [show BinOp.text .div = [47] from by with_unfolding_all rfl]
    exact (seg_op1 d g .div 47 (by simp)).weaken fun _ _ => trivial
  case mod =>
    rw [show BinOp.text .mod = [37] from by with_unfolding_all rfl]
    exact (seg_op1 d g .mod 37 (by simp)).weaken fun _ _ => trivial
  case pow =>
    rw [show BinOp.text .pow = [94] from by with_unfolding_all rfl]
    exact (seg_op1 d g .pow 94 (by simp)).weaken fun _ _ => trivial
  case eqlc =>
    rw [show BinOp.text .eqlc = [61, 61] from by with_unfolding_all rfl]
    exact (seg_op2 d g .eqlc 61 61 (by simp)).weaken fun _ _ => trivial
  case neq =>
    rw [show BinOp.text .neq = [33, 61] from by with_unfolding_all rfl]
    exact (seg_op2 d g .neq 33 61 (by simp)).weaken fun _ _ => trivial
  case lte =>
    rw [show BinOp.text .lte = [60, 61] from by with_unfolding_all rfl]
    exact (seg_op2 d g .lte 60 61 (by simp)).weaken fun _ _ => trivial
  case gte =>
    rw [show BinOp.text .gte = [62, 61] from by with_unfolding_all rfl]
    exact (seg_op2 d g .gte 62 61 (by simp)).weaken fun _ _ => trivial
  case trimUpper =>
    rw [show BinOp.text .trimUpper = [60, 47] from by with_unfolding_all rfl]
    exact (seg_op2 d g .trimUpper 60 47 (by simp)).weaken fun _ _ => trivial
  case trimLower =>
    rw [show BinOp.text .trimLower = [62, 47] from by with_unfolding_all rfl]
    exact (seg_op2 d g .trimLower 62 47 (by simp)).weaken fun _ _ => trivial
  case lss =>
    rw [show BinOp.text .lss = [60] from by with_unfolding_all rfl]
    exact (seg_lss d g).weaken fun x hx => by subst hx; exact ⟨by decide, by decide⟩
  case gtr =>
    rw [show BinOp.text .gtr = [62] from by with_unfolding_all rfl]
    exact (seg_gtr d g).weaken fun x hx => by subst hx; exact ⟨by decide, by decide⟩
  case atan2 =>
    have := seg_word d g (bs "atan2") (by with_unfolding_all rfl) (by with_unfolding_all rfl)
    rw [show wordTok (bs "atan2") = .op .atan2 (bs "atan2") by with_unfolding_all rfl] at this
    exact this.weaken fun x hx => by subst hx; intro c hc; cases hc; decide
  case land =>
    have := seg_word d g (bs "and") (by with_unfolding_all rfl) (by with_unfolding_all rfl)
    rw [show wordTok (bs "and") = .op .land (bs "and") by with_unfolding_all rfl] at this
    exact this.weaken fun x hx => by subst hx; intro c hc; cases hc; decide
  case lor =>
    have := seg_word d g (bs "or") (by with_unfolding_all rfl) (by with_unfolding_all rfl)
    rw [show wordTok (bs "or") = .op .lor (bs "or") by with_unfolding_all rfl] at this
    exact this.weaken fun x hx => by subst hx; intro c hc; cases hc; decide
  case lunless =>
    have := seg_word d g (bs "unless") (by with_unfolding_all rfl) (by with_unfolding_all rfl)
    rw [show wordTok (bs "unless") = .op .lunless (bs "unless") by with_unfolding_all rfl] at this
    exact this.weaken fun x hx => by subst hx; intro c hc; cases hc; decide

theorem op_text_firstNS (op : BinOp) : FirstNS op.text := by
  cases op <;> exact ⟨_, _, by with_unfolding_all rfl, by decide⟩

/-- Lexer side of the round trip: the printed text of a fragment tree lexes to `etoks`. -/
theorem Frag.lex {e : Expr} (h : Frag e) : ∀ (d : Int) (g : Bool), 0 ≤ d →
    LexSeg (stS d g) (e.print true) (etoks e) (stS d g) okEnd := by
  induction h with
  | @num v hv => intro d g _; exact num_lex d g v hv
  | @str s hs => intro d g _; exact str_lex d g s hs
  | @vs name ms hs =>
    intro d g _
    have := selCore_lex d g name ms hs
    have hp : (Expr.vs name ms 0 .nil .none .none).print true = selectorCoreText name ms := by
      simp [Expr.print, atText, extText, offsetText, Expr.isNil]
    rw [hp]
    exact this.weaken fun x hx => okEnd_noWord hx
  | @paren e _ ih =>
    intro d g hd
    have h1 := seg_lparen d g
    have h2 := ih (d + 1) g (by omega)
    have h3 := (seg_rparen d g hd).weaken (ok' := okEnd) fun _ _ => trivial
    have := (h1.append h2 fun _ _ => trivial).append h3 fun rest _ => Or.inr (Or.inr (Or.inl rfl))
    simpa [Expr.print, etoks] using this
  | @un e neg _ _ _ ih =>
    intro d g hd
    have h2 := ih d g hd
    cases neg with
    | true =>
      have := (seg_op1 d g .sub 45 (by simp)).append h2 fun _ _ => trivial
      simpa [Expr.print, etoks] using this
    | false =>
      have := (seg_op1 d g .add 43 (by simp)).append h2 fun _ _ => trivial
      simpa [Expr.print, etoks] using this
  | @bin l r op b vm hl hr _ _ _ hvm ihl ihr =>
    intro d g hd
    have s1 := ihl d g hd
    have s2 := seg_space_S d g
    have s3 := op_lex d g op
    have s4 := modToks_lex d g hd b vm hvm
    have s5 := seg_space_S d g
    have s6 := ihr d g hd
    have a1 := s1.append s2 (fun rest _ => okEnd_space rest)
    have a2 := a1.append s3 (fun rest _ => (op_text_firstNS op).noSpace rest)
    have a3 := a2.append s4 (fun rest hr => modText_head b vm rest hr)
    have a4 := a3.append s5 (fun rest _ => rfl)
    have a5 := a4.append s6 (fun rest _ => hr.firstNS.noSpace rest)
    have hp : (Expr.bin op b vm l r).print true =
        l.print true ++ [32] ++ op.text ++ ((if b then bs " bool" else []) ++ matchingText vm) ++ [32] ++ r.print true := by
      simp [Expr.print]
    rw [hp]
    have ht : etoks (.bin op b vm l r) = etoks l ++ [] ++ [.op op op.text] ++ modToks b vm ++ [] ++ etoks r := by
      simp [etoks]
    rw [ht]
    exact a5

/-! ### parser side -/

theorem parseOperand_of_primary (o : Opts) (f : Nat) (toks : List Tok) (p : Expr) (r : List Tok)
    (h : parsePrimary o (f + 1) toks = some (p, r)) :
    parseOperand o (f + 2) toks = parsePostfix o (2 * r.length + 4) p r := by
  show parseOperand o (f + 1 + 1) toks = _
  unfold parseOperand
  split
  · simp [parsePrimary, isCallHead, metricIdentOf] at h
  · simp [parsePrimary, isCallHead, metricIdentOf] at h
  · simp [h]

theorem follow7_selFollow {R : List Tok} (h : Follow 7 R) : SelFollow R := by
  cases R with
  | nil => trivial
  | cons t tl => cases t <;> first | trivial | exact h.elim

theorem vs_atom (o : Opts) {name : Bytes} {ms : List Matcher} (h : SelOK name ms) :
    AtomParses o (.vs name (normMs name ms) 0 .nil .none .none) (selCoreToks name ms) 2 := by
  intro F R hF hR
  obtain ⟨f, rfl⟩ : ∃ f, F = f + 2 := ⟨F - 2, by omega⟩
  rw [parseOperand_of_primary o f _ _ R (selCore_parses o name ms h f R (follow7_selFollow hR))]
  exact parsePostfix_stop o _ 7 _ R hR

theorem raw_isNum (e : Expr) : (raw e).isNum = e.isNum := by
  cases e <;> rfl

/-- Parser side of the round trip: `etoks e` is a precedence-correct token rendering of `raw e`. -/
theorem Frag.pt (o : Opts) {e : Expr} (h : Frag e) :
    ∃ n, n ≤ 4 * (etoks e).length + 1 ∧ PT o (raw e) (etoks e) (lv e) (fb e) n := by
  induction h with
  | @num v hv => exact num_PT o v hv
  | @str s _ => exact ⟨3, by simp [etoks], PT.atom (string_atom o s) trivial⟩
  | @vs name ms hs =>
    refine ⟨3, ?_, PT.atom (vs_atom o hs) (selCoreToks_startOK hs)⟩
    have := selCoreToks_startOK hs
    show 3 ≤ 4 * (selCoreToks name ms).length + 1
    cases hl : selCoreToks name ms with
    | nil => rw [hl] at this; exact this.elim
    | cons a b => simp; omega
  | @paren e _ ih =>
    obtain ⟨n, hn, hp⟩ := ih
    exact ⟨n + 4, by simp [etoks]; omega, PT.paren hp⟩
  | @un e neg _ hlv hnum ih =>
    obtain ⟨n, hn, hp⟩ := ih
    refine ⟨n + 3, by simp [etoks]; omega, ?_⟩
    exact PT.un neg _ hp hlv (by rw [raw_isNum]; exact hnum)
  | @bin l r op b vm _ _ h1 h2 h3 hvm ihl ihr =>
    obtain ⟨nl, hnl, hpl⟩ := ihl
    obtain ⟨nr, hnr, hpr⟩ := ihr
    refine ⟨nl + nr + 2, by simp [etoks]; omega, ?_⟩
    exact PT.bin op op.text (modToks b vm) b (rawVM vm) hpl hpr h1 h2 h3 (modToks_parses o b vm hvm)

/-- `lex` of the printed text -/
theorem Frag.lex_top {e : Expr} (h : Frag e) : Prom.Promql.lex (e.print true) = some (etoks e) :=
  lex_of_seg (h.lex 0 false (Int.le_refl 0)) (Or.inl rfl) rfl rfl rfl rfl

/-- The round trip on the fragment: the printed text parses to the tree with the matchers of every
    selector in printed order. -/
theorem Frag.roundtrip (o : Opts) {e : Expr} (h : Frag e) (hw : WT e) : parse o (e.print true) = some (norm e) := by
  obtain ⟨n, hn, hp⟩ := h.pt o
  unfold parse
  rw [h.lex_top]
  simp only [Option.bind_eq_bind, Option.bind_some]
  rw [hp.parse_top (4 * (etoks e).length + 8) (by omega)]
  simp [check_raw hw]

/-! ### equality up to the order of matchers -/

/-- the two trees differ at most in the order of the matchers inside selectors -/
inductive MEq : Expr → Expr → Prop
  | refl (e : Expr) : MEq e e
  | vs {name : Bytes} {ms' ms : List Matcher} {off : Int} {offe : Expr} {atm : AtMod} {ext : Ext} :
      ms'.Perm ms → MEq (.vs name ms' off offe atm ext) (.vs name ms off offe atm ext)
  | paren {a b : Expr} : MEq a b → MEq (.paren a) (.paren b)
  | un {a b : Expr} (neg : Bool) : MEq a b → MEq (.un neg a) (.un neg b)
  | bin {a b c d : Expr} (op : BinOp) (bl : Bool) (vm : Option VM) : MEq a b → MEq c d →
      MEq (.bin op bl vm a c) (.bin op bl vm b d)

theorem normMs_perm {name : Bytes} {ms : List Matcher} (h : SelWT name ms) : (normMs name ms).Perm ms := by
  unfold normMs
  cases hn : name with
  | nil =>
    simp only [List.isEmpty_nil, if_true]
    rw [keptMs_nil]
    exact sortMs_perm ms
  | cons c tl =>
    obtain ⟨ms0, rfl, h0⟩ := h.1 (by simp [hn])
    rw [← hn, keptMs_name (by simp [hn]) h0]
    have : name.isEmpty = false := by simp [hn]
    simp only [this, Bool.false_eq_true, if_false]
    exact (sortMs_perm ms0).append_right _

theorem Frag.norm_meq {e : Expr} (h : Frag e) : MEq (norm e) e := by
  induction h with
  | num _ => exact MEq.refl _
  | str _ => exact MEq.refl _
  | vs hs => exact MEq.vs (normMs_perm hs.1)
  | paren _ ih => exact MEq.paren ih
  | un neg _ _ _ ih => exact MEq.un neg ih
  | bin op b vm _ _ _ _ _ _ ihl ihr => exact MEq.bin op b vm ihl ihr

end Prom.Promql
