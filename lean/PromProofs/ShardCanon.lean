import PromProofs.ShardSelect
import PromModel.Suites.ShardSuite
/-
  Helper lemmas for C18: the stable insertion sort is insensitive to the order of its input when no two
  distinct elements compare equal; hence the canonical form of a generated label set (and its hash) does
  not depend on the order in which the labels were supplied.
-/
open Prom.StableHash Std

namespace Prom.StableHash
section
variable {α : Type} (cmp : α → α → Ordering)

theorem perm_insertBy (a : α) (l : List α) : (insertBy cmp a l).Perm (a :: l) := by
  induction l with
  | nil => simp [insertBy]
  | cons b bs ih =>
    simp only [insertBy]
    split
    · exact (List.Perm.cons b ih).trans (List.Perm.swap a b bs)
    · exact List.Perm.refl _

theorem perm_sortBy (l : List α) : (sortBy cmp l).Perm l := by
  induction l with
  | nil => exact List.Perm.refl _
  | cons a as ih => exact (perm_insertBy cmp a _).trans (List.Perm.cons a ih)

variable [TransCmp cmp]

/-- sorting is insensitive to the input order when no two distinct elements compare equal -/
theorem sortBy_perm_eq (l₁ l₂ : List α) (hp : l₁.Perm l₂)
    (hd : ∀ a ∈ l₁, ∀ b ∈ l₁, cmp a b = .eq → a = b) : sortBy cmp l₁ = sortBy cmp l₂ := by
  have h12 : (sortBy cmp l₁).Perm (sortBy cmp l₂) :=
    (perm_sortBy cmp l₁).trans (hp.trans (perm_sortBy cmp l₂).symm)
  refine List.Perm.eq_of_pairwise ?_ (sorted_sortBy cmp l₁) (sorted_sortBy cmp l₂) h12
  intro a b ha hb hab hba
  have ha' : a ∈ l₁ := (perm_sortBy cmp l₁).mem_iff.mp ha
  have hb' : b ∈ l₁ := hp.mem_iff.mpr ((perm_sortBy cmp l₂).mem_iff.mp hb)
  apply hd a ha' b hb'
  have : cmp b a = .gt ↔ cmp a b = .lt := OrientedCmp.gt_iff_lt
  cases h : cmp a b
  · exact absurd (this.mpr h) hba
  · rfl
  · exact absurd h hab
end
end Prom.StableHash

namespace Prom.StableHash
open Prom.Shard

instance : TransCmp cmpName where
  eq_swap := OrientedCmp.eq_swap (cmp := cmpBytes)
  isLE_trans := TransCmp.isLE_trans (cmp := cmpBytes)

/-- no two distinct labels share a name -/
def DistinctNames (ls : Labels) : Prop := ∀ a ∈ ls, ∀ b ∈ ls, a.name = b.name → a = b

theorem canon_perm (via : Via) (ls₁ ls₂ : Labels) (hp : ls₁.Perm ls₂) (hd : DistinctNames ls₁) :
    canon via ls₁ = canon via ls₂ := by
  unfold canon
  by_cases hv : via = .bld
  · simp only [hv, if_true]
    apply sortBy_perm_eq _ _ _ (hp.filter _)
    intro a ha b hb hab
    exact hd a (List.mem_filter.mp ha).1 b (List.mem_filter.mp hb).1 (LawfulEqCmp.eq_of_compare (cmp := cmpBytes) hab)
  · simp only [hv, if_false]
    apply sortBy_perm_eq _ _ _ hp
    intro a ha b hb hab
    exact hd a ha b hb (LawfulEqCmp.eq_of_compare (cmp := cmpBytes) hab)

end Prom.StableHash
