import PromModel.Tsdb.Damage
/-
  C04 helper lemmas: the replay over decoded records (`aOpen`) only ever holds series created by a series
  record of the WAL and samples carried by a samples record with the series' reference.
-/

namespace Prom.Damage

/-- Invariant of the replay: every series was created by a series record seen so far, and every sample it
    holds was carried, under the series' own ref, by a samples record seen so far. -/
def AInv (ser seen : List ARec) (h : AHead) : Prop :=
  ∀ s ∈ h.series, ARec.series s.ref s.lbl ∈ ser ∧
    ∀ x ∈ s.ino ++ s.ooo, ∃ xs, ARec.samples xs ∈ seen ∧ (s.ref, x.1, x.2) ∈ xs

theorem AInv.mono {ser seen seen' : List ARec} {h : AHead} (hi : AInv ser seen h) (hs : ∀ r ∈ seen, r ∈ seen') :
    AInv ser seen' h := by
  intro s hsm
  obtain ⟨h1, h2⟩ := hi s hsm
  refine ⟨h1, fun x hx => ?_⟩
  obtain ⟨xs, hx1, hx2⟩ := h2 x hx
  exact ⟨xs, hs _ hx1, hx2⟩

theorem byRef_mem {h : AHead} {ref : Nat} {s : ASeries} (hb : h.byRef ref = some s) : s ∈ h.series ∧ s.ref = ref := by
  unfold AHead.byRef at hb
  exact ⟨List.mem_of_find?_eq_some hb, by simpa using List.find?_some hb⟩

theorem AInv.update {ser seen : List ARec} {h : AHead} {s : ASeries} (hi : AInv ser seen h)
    (hs : ARec.series s.ref s.lbl ∈ ser ∧ ∀ x ∈ s.ino ++ s.ooo, ∃ xs, ARec.samples xs ∈ seen ∧ (s.ref, x.1, x.2) ∈ xs) :
    AInv ser seen (h.update s) := by
  intro s' hs'
  simp only [AHead.update, List.mem_map] at hs'
  obtain ⟨x, hx, rfl⟩ := hs'
  by_cases he : x.ref = s.ref
  · simp only [he, if_true]; exact hs
  · simp only [he, if_false]; exact hi x hx

theorem appendIno_mem (s : ASeries) (t : Int) (v : Nat) :
    (appendIno s t v).ref = s.ref ∧ (appendIno s t v).lbl = s.lbl ∧
    ∀ x ∈ (appendIno s t v).ino ++ (appendIno s t v).ooo, x ∈ s.ino ++ s.ooo ∨ x = (t, v) := by
  unfold appendIno
  split
  · split
    · refine ⟨rfl, rfl, fun x hx => ?_⟩
      simp only [List.mem_append, List.mem_singleton] at hx ⊢
      rcases hx with (h | h) | h
      · exact Or.inl (Or.inl h)
      · exact Or.inr h
      · exact Or.inl (Or.inr h)
    · exact ⟨rfl, rfl, fun x hx => Or.inl hx⟩
  · refine ⟨rfl, rfl, fun x hx => ?_⟩
    simp only [List.mem_append, List.mem_singleton] at hx ⊢
    rcases hx with h | h
    · exact Or.inr h
    · exact Or.inl (Or.inr h)

theorem insertOoo_mem (s : ASeries) (t : Int) (v : Nat) :
    (insertOoo s t v).ref = s.ref ∧ (insertOoo s t v).lbl = s.lbl ∧
    ∀ x ∈ (insertOoo s t v).ino ++ (insertOoo s t v).ooo, x ∈ s.ino ++ s.ooo ∨ x = (t, v) := by
  unfold insertOoo
  split
  · exact ⟨rfl, rfl, fun x hx => Or.inl hx⟩
  · refine ⟨rfl, rfl, fun x hx => ?_⟩
    simp only [List.mem_append, List.mem_singleton] at hx ⊢
    rcases hx with h | h | h
    · exact Or.inl (Or.inl h)
    · exact Or.inl (Or.inr h)
    · exact Or.inr h

/-- One samples record, applied sample by sample with `f` = `appendIno` or `insertOoo`. -/
theorem AInv.samples {ser seen : List ARec} (f : ASeries → Int → Nat → ASeries)
    (hf : ∀ s t v, (f s t v).ref = s.ref ∧ (f s t v).lbl = s.lbl ∧
      ∀ x ∈ (f s t v).ino ++ (f s t v).ooo, x ∈ s.ino ++ s.ooo ∨ x = (t, v))
    (all : List (Nat × Int × Nat)) (hall : ARec.samples all ∈ seen) :
    ∀ (xs : List (Nat × Int × Nat)), (∀ x ∈ xs, x ∈ all) → ∀ (h : AHead), AInv ser seen h →
      AInv ser seen (xs.foldl (fun h (x : Nat × Int × Nat) =>
        match h.byRef x.1 with
        | some s => h.update (f s x.2.1 x.2.2)
        | none => h) h) := by
  intro xs
  induction xs with
  | nil => intro _ h hi; exact hi
  | cons x xs ih =>
    intro hsub h hi
    simp only [List.foldl_cons]
    apply ih (fun y hy => hsub y (List.mem_cons_of_mem _ hy))
    cases hb : h.byRef x.1 with
    | none => exact hi
    | some s =>
      obtain ⟨hsm, hsr⟩ := byRef_mem hb
      obtain ⟨h1, h2⟩ := hi s hsm
      obtain ⟨g1, g2, g3⟩ := hf s x.2.1 x.2.2
      apply hi.update
      rw [g1, g2]
      refine ⟨h1, fun y hy => ?_⟩
      rcases g3 y hy with hy | hy
      · exact h2 y hy
      · refine ⟨all, hall, ?_⟩
        have := hsub x (List.mem_cons_self ..)
        rw [hy, hsr]; exact this

theorem AInv.replayWal {ser seen : List ARec} {h : AHead} (hi : AInv ser seen h) (r : ARec)
    (hr1 : r ∈ ser) (hr2 : r ∈ seen) : AInv ser seen (replayWal h r) := by
  cases r with
  | series ref lbl =>
    simp only [Damage.replayWal]
    split
    · exact fun s hs => hi s hs
    · intro s hs
      simp only [List.mem_append, List.mem_singleton] at hs
      rcases hs with hs | hs
      · exact hi s hs
      · subst hs; exact ⟨hr1, by simp⟩
  | samples xs =>
    exact AInv.samples appendIno appendIno_mem xs hr2 xs (fun _ h => h) h hi

theorem AInv.replayWbl {ser seen : List ARec} {h : AHead} (hi : AInv ser seen h) (r : ARec)
    (hr2 : r ∈ seen) : AInv ser seen (replayWbl h r) := by
  cases r with
  | series ref lbl => exact hi
  | samples xs =>
    exact AInv.samples insertOoo insertOoo_mem xs hr2 xs (fun _ h => h) h hi

theorem AInv.foldWal {ser seen : List ARec} : ∀ (recs : List ARec) (h : AHead),
    (∀ r ∈ recs, r ∈ ser ∧ r ∈ seen) → AInv ser seen h → AInv ser seen (recs.foldl Damage.replayWal h) := by
  intro recs
  induction recs with
  | nil => intro h _ hi; exact hi
  | cons r rs ih =>
    intro h hs hi
    exact ih _ (fun x hx => hs x (List.mem_cons_of_mem _ hx))
      (hi.replayWal r (hs r (List.mem_cons_self ..)).1 (hs r (List.mem_cons_self ..)).2)

theorem AInv.foldWbl {ser seen : List ARec} : ∀ (recs : List ARec) (h : AHead),
    (∀ r ∈ recs, r ∈ seen) → AInv ser seen h → AInv ser seen (recs.foldl Damage.replayWbl h) := by
  intro recs
  induction recs with
  | nil => intro h _ hi; exact hi
  | cons r rs ih =>
    intro h hs hi
    exact ih _ (fun x hx => hs x (List.mem_cons_of_mem _ hx)) (hi.replayWbl r (hs r (List.mem_cons_self ..)))

theorem cutLog_subset (log : List (List ARec)) (c : Cut) : ∀ r ∈ (cutLog log c).flatten, r ∈ log.flatten := by
  intro r hr
  cases c with
  | none => exact hr
  | some p =>
    obtain ⟨k, i⟩ := p
    simp only [cutLog, List.flatten_append, List.mem_append, List.flatten_cons, List.flatten_nil,
      List.append_nil] at hr
    rcases hr with hr | hr
    · obtain ⟨seg, hseg, hm⟩ := List.mem_flatten.mp hr
      exact List.mem_flatten.mpr ⟨seg, List.mem_of_mem_take hseg, hm⟩
    · have hm := List.mem_of_mem_take hr
      by_cases hk : k < log.length
      · have : log.getD k [] = log[k] := by simp [List.getD, hk]
        rw [this] at hm
        exact List.mem_flatten.mpr ⟨log[k], List.getElem_mem hk, hm⟩
      · have : log.getD k [] = [] := by
          have h0 : log[k]? = none := List.getElem?_eq_none (by omega)
          simp [List.getD, h0]
        rw [this] at hm; simp at hm

theorem AInv.empty (ser seen : List ARec) : AInv ser seen {} := by
  intro s hs; simp at hs

/-- After `aOpen` (any damage positions), every series comes from a series record of the WAL and every
    sample from a samples record (WAL or WBL) carrying the series' ref. -/
theorem aOpen_inv (l : ALogs) (walCut wblCut : Cut) :
    AInv l.wal.flatten (l.wal.flatten ++ l.wbl.flatten) (aOpen l walCut wblCut).1 := by
  have hwal : AInv l.wal.flatten (l.wal.flatten ++ l.wbl.flatten)
      ((cutLog l.wal walCut).flatten.foldl Damage.replayWal {}) :=
    AInv.foldWal _ _ (fun r hr => ⟨cutLog_subset _ _ r hr, List.mem_append_left _ (cutLog_subset _ _ r hr)⟩)
      (AInv.empty _ _)
  unfold aOpen
  cases walCut with
  | some c => exact hwal
  | none =>
    exact AInv.foldWbl _ _ (fun r hr => List.mem_append_right _ (cutLog_subset _ _ r hr)) hwal

end Prom.Damage
