import PromProofs.QueueShardsInv
/-
  C40 helper: conservation of samples. Every sample ever enqueued (`fed`) is at any time in exactly the
  places the model knows about — the endpoint's log, a live shard's pipeline, the batches dropped with a
  non-recoverable error, or what a hard shutdown discarded — and nothing is in those places that was not fed.
-/
namespace Prom.QueueShards

structure InvB' (n : Nat) (sh : Nat → Shard) (rc fed lu lh : List Sample) : Prop where
  complete : ∀ x, x ∈ fed → x ∈ rc ∨ x ∈ lu ∨ x ∈ lh ∨ ∃ i, i < n ∧ x ∈ (sh i).pipe
  recv_fed : ∀ x, x ∈ rc → x ∈ fed
  pipe_fed : ∀ i, i < n → ∀ x, x ∈ (sh i).pipe → x ∈ fed
  lostU_fed : ∀ x, x ∈ lu → x ∈ fed
  lostH_fed : ∀ x, x ∈ lh → x ∈ fed

def InvB (s : St) : Prop := InvB' s.n s.shards s.received s.fed s.lostUnrec s.lostHard

theorem invB_step {n : Nat} {sh : Nat → Shard} {rc fed lu lh : List Sample} (h : InvB' n sh rc fed lu lh)
    (i : Nat) (hi : i < n) (sh' : Shard) {rc' fed' lu' lh' : List Sample}
    (hsub_fed : ∀ x, x ∈ fed → x ∈ fed') (hsub_rc : ∀ x, x ∈ rc → x ∈ rc')
    (hsub_lu : ∀ x, x ∈ lu → x ∈ lu') (hsub_lh : ∀ x, x ∈ lh → x ∈ lh')
    (hnew : ∀ x, x ∈ fed' → x ∈ fed ∨ x ∈ sh'.pipe)
    (hold : ∀ x, x ∈ (sh i).pipe → x ∈ sh'.pipe ∨ x ∈ rc' ∨ x ∈ lu' ∨ x ∈ lh')
    (hrc : ∀ x, x ∈ rc' → x ∈ rc ∨ x ∈ (sh i).pipe)
    (hlu : ∀ x, x ∈ lu' → x ∈ lu ∨ x ∈ (sh i).pipe)
    (hlh : ∀ x, x ∈ lh' → x ∈ lh ∨ x ∈ (sh i).pipe)
    (hpipe : ∀ x, x ∈ sh'.pipe → x ∈ (sh i).pipe ∨ x ∈ fed') :
    InvB' n (upd sh i sh') rc' fed' lu' lh' := by
  refine ⟨?_, ?_, ?_, ?_, ?_⟩
  · intro x hx
    rcases hnew x hx with hx | hx
    · rcases h.complete x hx with h1 | h1 | h1 | ⟨j, hj, h1⟩
      · exact Or.inl (hsub_rc x h1)
      · exact Or.inr (Or.inl (hsub_lu x h1))
      · exact Or.inr (Or.inr (Or.inl (hsub_lh x h1)))
      · by_cases hji : j = i
        · subst hji
          rcases hold x h1 with h2 | h2 | h2 | h2
          · exact Or.inr (Or.inr (Or.inr ⟨j, hj, by simpa using h2⟩))
          · exact Or.inl h2
          · exact Or.inr (Or.inl h2)
          · exact Or.inr (Or.inr (Or.inl h2))
        · exact Or.inr (Or.inr (Or.inr ⟨j, hj, by rw [upd_other _ _ _ _ hji]; exact h1⟩))
    · exact Or.inr (Or.inr (Or.inr ⟨i, hi, by simpa using hx⟩))
  · intro x hx
    rcases hrc x hx with h1 | h1
    · exact hsub_fed x (h.recv_fed x h1)
    · exact hsub_fed x (h.pipe_fed i hi x h1)
  · intro j hj x hx
    by_cases hji : j = i
    · subst hji
      simp only [upd_same] at hx
      rcases hpipe x hx with h1 | h1
      · exact hsub_fed x (h.pipe_fed j hj x h1)
      · exact h1
    · rw [upd_other _ _ _ _ hji] at hx
      exact hsub_fed x (h.pipe_fed j hj x hx)
  · intro x hx
    rcases hlu x hx with h1 | h1
    · exact hsub_fed x (h.lostU_fed x h1)
    · exact hsub_fed x (h.pipe_fed i hi x h1)
  · intro x hx
    rcases hlh x hx with h1 | h1
    · exact hsub_fed x (h.lostH_fed x h1)
    · exact hsub_fed x (h.pipe_fed i hi x h1)

/-- Same pipeline, nothing else changes. -/
theorem invB_same_pipe {n : Nat} {sh : Nat → Shard} {rc fed lu lh : List Sample} (h : InvB' n sh rc fed lu lh)
    (i : Nat) (hi : i < n) (sh' : Shard) (hp : sh'.pipe = (sh i).pipe) :
    InvB' n (upd sh i sh') rc fed lu lh :=
  invB_step h i hi sh' (fun _ h => h) (fun _ h => h) (fun _ h => h) (fun _ h => h)
    (fun _ h => Or.inl h) (fun x hx => Or.inl (hp ▸ hx)) (fun _ h => Or.inl h) (fun _ h => Or.inl h)
    (fun _ h => Or.inl h) (fun x hx => Or.inl (hp ▸ hx))

theorem invB_init (mss cc n : Nat) : InvB (init mss cc n) := by
  refine ⟨?_, ?_, ?_, ?_, ?_⟩ <;> simp [init, freshShards, Shard.pipe, Shard.rest]

theorem step_invB (s : St) (a : Act) (hA : InvA s) (h : InvB s) (hen : enabled s a = true) : InvB (apply s a) := by
  unfold InvB at *
  cases a with
  | storeSeries ref keep => cases keep <;> exact h
  | seriesReset refs => exact h
  | append ref id old =>
    simp only [apply]
    split
    · exact h
    · split
      · split <;> exact h
      · rename_i hold hk
        have hk' : s.kept.contains ref = true := by simpa using hk
        have hold' : old = false := by simpa using hold
        simp only [enabled, St.admits, Bool.and_eq_true, Bool.or_eq_true, decide_eq_true_eq,
          Bool.not_eq_eq_eq_not, Bool.not_true] at hen
        obtain ⟨_, hen⟩ := hen
        rcases hen with hen | ⟨⟨hn, _⟩, _⟩
        · rw [hold', hk'] at hen; exact absurd hen (by decide)
        · have hlt : ref % s.n < s.n := Nat.mod_lt _ hn
          refine invB_step h _ hlt _ ?_ (fun _ h => h) (fun _ h => h) (fun _ h => h) ?_ ?_
            (fun _ h => Or.inl h) (fun _ h => Or.inl h) (fun _ h => Or.inl h) ?_
          · intro x hx; exact List.mem_cons_of_mem _ hx
          · intro x hx
            rw [push_pipe]
            rcases List.mem_cons.mp hx with h1 | h1
            · right; simp [h1]
            · left; exact h1
          · intro x hx; left; rw [push_pipe]; exact List.mem_append_left _ hx
          · intro x hx
            rw [push_pipe] at hx
            rcases List.mem_append.mp hx with h1 | h1
            · left; exact h1
            · right; simp at h1; simp [h1]
  | recv i =>
    simp only [enabled, Bool.and_eq_true, decide_eq_true_eq, Bool.not_eq_true', List.isEmpty_iff] at hen
    obtain ⟨⟨⟨hi, _⟩, hin⟩, _⟩ := hen
    simp only [apply]
    split
    · rename_i b rest hch
      exact invB_same_pipe h i hi _ (by simp [Shard.pipe, Shard.rest, hch, hin])
    · exact h
  | timer i =>
    simp only [enabled, Bool.and_eq_true, decide_eq_true_eq, Bool.not_eq_true', List.isEmpty_iff] at hen
    obtain ⟨⟨hi, _⟩, hin⟩ := hen
    simp only [apply]
    split
    · rename_i b rest hch
      exact invB_same_pipe h i hi _ (by simp [Shard.pipe, Shard.rest, hch, hin])
    · rename_i hch
      exact invB_same_pipe h i hi _ (by simp [Shard.pipe, Shard.rest, hch, hin])
  | sendOk i =>
    simp only [enabled, Bool.and_eq_true, decide_eq_true_eq, Bool.not_eq_true'] at hen
    obtain ⟨⟨⟨hi, _⟩, _⟩, _⟩ := hen
    simp only [apply]
    refine invB_step h i hi _ (fun _ h => h) ?_ (fun _ h => h) (fun _ h => h) (fun _ h => Or.inl h) ?_ ?_
      (fun _ h => Or.inl h) (fun _ h => Or.inl h) ?_
    · intro x hx; exact List.mem_append_right _ hx
    · intro x hx
      simp only [Shard.pipe, List.mem_append] at hx
      rcases hx with h1 | h1
      · right; left; simp [h1]
      · left; simp only [Shard.pipe, List.nil_append]; exact h1
    · intro x hx
      simp only [List.mem_append, List.mem_reverse] at hx
      rcases hx with h1 | h1
      · right; simp [Shard.pipe, h1]
      · left; exact h1
    · intro x hx
      left
      simp only [Shard.pipe, Shard.rest, List.nil_append] at hx
      simp only [Shard.pipe, Shard.rest]
      exact List.mem_append_right _ hx
  | sendRecov i reached =>
    simp only [enabled, Bool.and_eq_true, decide_eq_true_eq, Bool.not_eq_true'] at hen
    obtain ⟨⟨⟨hi, _⟩, _⟩, _⟩ := hen
    simp only [apply]
    cases reached with
    | false => exact h
    | true =>
      simp only [if_true]
      refine invB_step h i hi _ (fun _ h => h) ?_ (fun _ h => h) (fun _ h => h) (fun _ h => Or.inl h) ?_ ?_
        (fun _ h => Or.inl h) (fun _ h => Or.inl h) ?_
      · intro x hx; exact List.mem_append_right _ hx
      · intro x hx; left; exact hx
      · intro x hx
        simp only [List.mem_append, List.mem_reverse] at hx
        rcases hx with h1 | h1
        · right; simp [Shard.pipe, h1]
        · left; exact h1
      · intro x hx; left; exact hx
  | sendUnrecov i =>
    simp only [enabled, Bool.and_eq_true, decide_eq_true_eq, Bool.not_eq_true'] at hen
    obtain ⟨⟨⟨hi, _⟩, _⟩, _⟩ := hen
    simp only [apply]
    refine invB_step h i hi _ (fun _ h => h) (fun _ h => h) ?_ (fun _ h => h) (fun _ h => Or.inl h) ?_
      (fun _ h => Or.inl h) ?_ (fun _ h => Or.inl h) ?_
    · intro x hx; exact List.mem_append_right _ hx
    · intro x hx
      simp only [Shard.pipe, List.mem_append] at hx
      rcases hx with h1 | h1
      · right; right; left; simp [h1]
      · left; simp only [Shard.pipe, List.nil_append]; exact h1
    · intro x hx
      simp only [List.mem_append] at hx
      rcases hx with h1 | h1
      · right; simp [Shard.pipe, h1]
      · left; exact h1
    · intro x hx
      left
      simp only [Shard.pipe, Shard.rest, List.nil_append] at hx
      simp only [Shard.pipe, Shard.rest]
      exact List.mem_append_right _ hx
  | softStop => exact h
  | flush i =>
    simp only [enabled, Bool.and_eq_true, decide_eq_true_eq, Bool.not_eq_true'] at hen
    obtain ⟨⟨⟨⟨hi, _⟩, _⟩, _⟩, _⟩ := hen
    simp only [apply]
    refine invB_same_pipe h i hi _ ?_
    by_cases hp : (s.shards i).part = []
    · simp [Shard.pipe, Shard.rest, hp]
    · simp [Shard.pipe, Shard.rest, hp]
  | exit i =>
    simp only [enabled, Bool.and_eq_true, decide_eq_true_eq, Bool.not_eq_true'] at hen
    obtain ⟨⟨⟨⟨hi, _⟩, _⟩, _⟩, _⟩ := hen
    simp only [apply]
    exact invB_same_pipe h i hi _ rfl
  | hardStop => exact h
  | hardExit i =>
    simp only [enabled, Bool.and_eq_true, decide_eq_true_eq, Bool.not_eq_true'] at hen
    obtain ⟨⟨hi, _⟩, _⟩ := hen
    simp only [apply]
    refine invB_step h i hi _ (fun _ h => h) (fun _ h => h) (fun _ h => h) ?_ (fun _ h => Or.inl h) ?_
      (fun _ h => Or.inl h) (fun _ h => Or.inl h) ?_ ?_
    · intro x hx; exact List.mem_append_right _ hx
    · intro x hx; right; right; right; exact List.mem_append_left _ hx
    · intro x hx
      rcases List.mem_append.mp hx with h1 | h1
      · right; exact h1
      · left; exact h1
    · intro x hx; simp [Shard.pipe, Shard.rest] at hx
  | start n =>
    simp only [enabled, Bool.and_eq_true, decide_eq_true_eq] at hen
    have hall : ∀ i, i < s.n → (s.shards i).pipe = [] := by
      intro i hi
      have h0 : live s.shards s.n = 0 := by rw [← hA.run_eq]; exact hen.2
      exact hA.ex_empty i hi (live_zero _ _ h0 i hi)
    simp only [apply]
    refine ⟨?_, h.recv_fed, ?_, h.lostU_fed, h.lostH_fed⟩
    · intro x hx
      rcases h.complete x hx with h1 | h1 | h1 | ⟨j, hj, h1⟩
      · exact Or.inl h1
      · exact Or.inr (Or.inl h1)
      · exact Or.inr (Or.inr (Or.inl h1))
      · rw [hall j hj] at h1; cases h1
    · intro j _ x hx; simp [freshShards, Shard.pipe, Shard.rest] at hx

/-- Who gets into `fed`: only an `append` of a sample that is not too old, for a ref currently kept. -/
theorem fed_step (s : St) (a : Act) (x : Sample) (hx : x ∈ (apply s a).fed) :
    x ∈ s.fed ∨ (a = .append x.ref x.id false ∧ x.ref ∈ s.kept) := by
  cases a with
  | append ref id old =>
    simp only [apply] at hx
    split at hx
    · exact Or.inl hx
    · split at hx
      · split at hx <;> exact Or.inl hx
      · rename_i hold hk
        rcases List.mem_cons.mp hx with h1 | h1
        · right
          have hk' : ref ∈ s.kept := by simpa using hk
          have hold' : old = false := by simpa using hold
          subst h1; subst hold'
          exact ⟨rfl, hk'⟩
        · exact Or.inl h1
  | storeSeries ref keep => cases keep <;> exact Or.inl hx
  | seriesReset refs => exact Or.inl hx
  | recv i => simp only [apply] at hx; split at hx <;> exact Or.inl hx
  | timer i => simp only [apply] at hx; split at hx <;> exact Or.inl hx
  | sendOk i => exact Or.inl hx
  | sendRecov i reached => exact Or.inl hx
  | sendUnrecov i => exact Or.inl hx
  | softStop => exact Or.inl hx
  | flush i => exact Or.inl hx
  | exit i => exact Or.inl hx
  | hardStop => exact Or.inl hx
  | hardExit i => exact Or.inl hx
  | start n => exact Or.inl hx

/-- Who gets into `kept`: only a `storeSeries … keep`. -/
theorem kept_step (s : St) (a : Act) (r : Nat) (hr : r ∈ (apply s a).kept) :
    r ∈ s.kept ∨ a = .storeSeries r true := by
  cases a with
  | storeSeries ref keep =>
    cases keep with
    | false => exact Or.inl hr
    | true =>
      have : r ∈ ref :: s.kept := hr
      rcases List.mem_cons.mp this with h1 | h1
      · right; rw [h1]
      · exact Or.inl h1
  | seriesReset refs =>
    have : r ∈ s.kept.filter (!refs.contains ·) := hr
    exact Or.inl (List.mem_filter.mp this).1
  | append ref id old =>
    simp only [apply] at hr
    split at hr
    · exact Or.inl hr
    · split at hr
      · split at hr <;> exact Or.inl hr
      · exact Or.inl hr
  | recv i => simp only [apply] at hr; split at hr <;> exact Or.inl hr
  | timer i => simp only [apply] at hr; split at hr <;> exact Or.inl hr
  | sendOk i => exact Or.inl hr
  | sendRecov i reached => exact Or.inl hr
  | sendUnrecov i => exact Or.inl hr
  | softStop => exact Or.inl hr
  | flush i => exact Or.inl hr
  | exit i => exact Or.inl hr
  | hardStop => exact Or.inl hr
  | hardExit i => exact Or.inl hr
  | start n => exact Or.inl hr

end Prom.QueueShards
