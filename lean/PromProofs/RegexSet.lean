import PromProofs.RegexDeriv
/-
  Helper lemmas for C17: `findSetMatchesInternal` (`fsm`) returning a case-sensitive set enumerates exactly
  the language of the expression (behind the base string it was given).
-/
namespace Prom.Regex

theorem litB_false_iff (rs : List Nat) (b e : Bool) (t : Str) : M (litB false rs) b e t ↔ t = rs := by
  induction rs generalizing b e t with
  | nil => simp [litB, M_eps]
  | cons r rs ih =>
    cases rs with
    | nil =>
      simp only [litB, M_chr, Pred.test]
      constructor
      · rintro ⟨c, h1, h2⟩
        simp only [Bool.false_eq_true, if_false, beq_iff_eq] at h2
        subst h2; exact h1
      · intro h; exact ⟨r, h, by simp⟩
    | cons r2 rs2 =>
      simp only [litB, M_cat, M_chr, Pred.test]
      constructor
      · rintro ⟨s1, s2, hs, ⟨c, h1, h2⟩, h3⟩
        simp only [Bool.false_eq_true, if_false, beq_iff_eq] at h2
        have := (ih _ _ _).mp h3
        subst h2; subst h1; subst this; exact hs
      · intro h
        refine ⟨[r], r2 :: rs2, by simp [h], ⟨r, rfl, by simp⟩, (ih _ _ _).mpr rfl⟩

theorem mem_expandClass (c : Nat) : ∀ ranges : List Nat, c ∈ expandClass ranges ↔ inRanges c ranges = true
  | [] => by simp [expandClass, inRanges]
  | [_] => by simp [expandClass, inRanges]
  | lo :: hi :: rest => by
    simp only [expandClass, inRanges, List.mem_append, List.mem_map, List.mem_range, Bool.or_eq_true,
      Bool.and_eq_true, decide_eq_true_eq, mem_expandClass c rest]
    constructor
    · rintro (⟨a, h1, h2⟩ | h)
      · left; omega
      · right; exact h
    · rintro (⟨h1, h2⟩ | h)
      · left; exact ⟨c - lo, by omega, by omega⟩
      · right; exact h

theorem concatStep_spec (f : Str → Option (List Str × Bool)) :
    ∀ (bs acc : List Str) (exp : Option Bool) (out : List Str) (exp' : Option Bool),
      concatStep f bs acc exp = some (out, exp') →
      (∀ e0, exp = some e0 → exp' = some e0) ∧
      (∀ x, x ∈ out ↔ x ∈ acc ∨ ∃ b ∈ bs, ∃ m e1, f b = some (m, e1) ∧ x ∈ m) ∧
      (∀ b ∈ bs, ∃ m e1, f b = some (m, e1) ∧ exp' = some e1)
  | [], acc, exp, out, exp', h => by
    simp only [concatStep, Option.some.injEq, Prod.mk.injEq] at h
    obtain ⟨rfl, rfl⟩ := h
    simp
  | b :: bs, acc, exp, out, exp', h => by
    simp only [concatStep] at h
    cases hf : f b with
    | none => simp [hf] at h
    | some p =>
      obtain ⟨m, cs⟩ := p
      simp only [hf] at h
      generalize hE : exp.getD cs = E at h
      by_cases hlen : acc.length + m.length > maxSetMatches
      · rw [if_pos hlen] at h; exact absurd h (by simp)
      · by_cases hne : (E != cs) = true
        · rw [if_neg hlen, if_pos hne] at h; exact absurd h (by simp)
        · rw [if_neg hlen, if_neg hne] at h
          have hEc : E = cs := by simpa using hne
          subst hEc
          have ih := concatStep_spec f bs (acc ++ m) _ out exp' h
          obtain ⟨ih1, ih2, ih3⟩ := ih
          have hexp' : exp' = some E := ih1 _ rfl
          refine ⟨?_, ?_, ?_⟩
          · intro e0 he0
            subst he0
            simp only [Option.getD_some] at hE
            subst hE
            exact ih1 _ rfl
          · intro x
            rw [ih2 x]
            simp only [List.mem_append, List.mem_cons, exists_eq_or_imp, hf, Option.some.injEq, Prod.mk.injEq]
            constructor
            · rintro ((h | h) | h)
              · exact Or.inl h
              · exact Or.inr (Or.inl ⟨m, E, ⟨rfl, rfl⟩, h⟩)
              · exact Or.inr (Or.inr h)
            · rintro (h | ⟨m', e1, ⟨rfl, rfl⟩, h⟩ | h)
              · exact Or.inl (Or.inl h)
              · exact Or.inl (Or.inr h)
              · exact Or.inr h
          · intro b' hb'
            rcases List.mem_cons.mp hb' with rfl | hb'
            · exact ⟨m, E, hf, hexp'⟩
            · exact ih3 b' hb'

/-- the language does not depend on the begin/end flags (no `\A` / `\z` inside) -/
def FlagIndep (x : BRe) : Prop := ∀ b e b' e' t, M x b e t → M x b' e' t

theorem FlagIndep.cat {x y} (hx : FlagIndep x) (hy : FlagIndep y) : FlagIndep (.cat x y) := by
  intro b e b' e' t h
  obtain ⟨t1, t2, rfl, h1, h2⟩ := M_cat.mp h
  exact M_cat.mpr ⟨t1, t2, rfl, hx _ _ _ _ _ h1, hy _ _ _ _ _ h2⟩

theorem FlagIndep.alt {x y} (hx : FlagIndep x) (hy : FlagIndep y) : FlagIndep (.alt x y) := by
  intro b e b' e' t h
  rcases M_alt.mp h with h | h
  · exact M_alt.mpr (Or.inl (hx _ _ _ _ _ h))
  · exact M_alt.mpr (Or.inr (hy _ _ _ _ _ h))

theorem FlagIndep.eps : FlagIndep .eps := by
  intro b e b' e' t h; exact M_eps.mpr (M_eps.mp h)

theorem FlagIndep.fail : FlagIndep .fail := by
  intro b e b' e' t h; exact (M_fail.mp h).elim

theorem FlagIndep.chr (p : Pred) : FlagIndep (.chr p) := by
  intro b e b' e' t h; exact M_chr.mpr (M_chr.mp h)

theorem FlagIndep.litFalse (rs : List Nat) : FlagIndep (litB false rs) := by
  intro b e b' e' t h; exact (litB_false_iff _ _ _ _).mpr ((litB_false_iff _ _ _ _).mp h)

mutual
theorem fsm_spec (fixed : Bool) : ∀ (r : Re) (base : Str) (vs : List Str),
    fsm fixed r base = some (vs, true) →
    vs ≠ [] ∧ FlagIndep (toBin r) ∧
    ∀ (b e : Bool) (x : Str), x ∈ vs ↔ ∃ t, x = base ++ t ∧ M (toBin r) b e t
  | .lit fold rs, base, vs, h => by
    simp only [fsm, Option.some.injEq, Prod.mk.injEq, Bool.not_eq_true'] at h
    obtain ⟨rfl, rfl⟩ := h
    refine ⟨by simp, by simpa [toBin] using FlagIndep.litFalse rs, ?_⟩
    intro b e x
    simp [toBin, litB_false_iff]
  | .empty fold, base, vs, h => by
    simp only [fsm] at h
    split at h
    · exact absurd h (by simp)
    · simp only [Option.some.injEq, Prod.mk.injEq] at h
      obtain ⟨rfl, _⟩ := h
      refine ⟨by simp, by simpa [toBin] using FlagIndep.eps, ?_⟩
      intro b e x
      simp [toBin, M_eps]
  | .alt subs, base, vs, h => by
    simp only [fsm] at h
    obtain ⟨_, h1, h2, h3⟩ := fsmAlt_spec fixed subs base [] none vs h
    refine ⟨h1, by simpa [toBin] using h2, ?_⟩
    intro b e x
    simpa [toBin] using h3 b e x
  | .cap r, base, vs, h => by
    simp only [fsm] at h
    simpa [toBin] using fsm_spec fixed r base vs h
  | .cat subs, base, vs, h => by
    cases subs with
    | nil => simp [fsm] at h
    | cons s0 rest =>
      simp only [fsm] at h
      obtain ⟨_, h1, h2, h3⟩ := fsmCat_spec fixed (s0 :: rest) [base] none vs (by simp) h
      refine ⟨h1, by simpa [toBin] using h2, ?_⟩
      intro b e x
      simpa [toBin] using h3 b e x
  | .cls fold ranges, base, vs, h => by
    simp only [fsm] at h
    split at h
    · exact absurd h (by simp)
    · split at h
      · exact absurd h (by simp)
      · split at h
        · exact absurd h (by simp)
        · next hne =>
          simp only [Option.some.injEq, Prod.mk.injEq] at h
          obtain ⟨rfl, _⟩ := h
          refine ⟨by simpa using hne, by simpa [toBin] using FlagIndep.chr _, ?_⟩
          intro b e x
          simp only [toBin, M_chr, Pred.test, List.mem_map, mem_expandClass]
          constructor
          · rintro ⟨c, hc, rfl⟩; exact ⟨[c], rfl, c, rfl, hc⟩
          · rintro ⟨t, rfl, c, rfl, hc⟩; exact ⟨c, hc, rfl⟩
  | .any, _, _, h => by simp [fsm] at h
  | .anyNotNL, _, _, h => by simp [fsm] at h
  | .noMatch, _, _, h => by simp [fsm] at h
  | .bot, _, _, h => by simp [fsm] at h
  | .eot, _, _, h => by simp [fsm] at h
  | .star _, _, _, h => by simp [fsm] at h
  | .plus _, _, _, h => by simp [fsm] at h
  | .quest _, _, _, h => by simp [fsm] at h
  | .rep _ _ _, _, _, h => by simp [fsm] at h
theorem fsmAlt_spec (fixed : Bool) : ∀ (subs : List Re) (base : Str) (acc : List Str) (exp : Option Bool)
    (vs : List Str), fsmAlt fixed subs base acc exp = some (vs, true) →
    (∀ e0, exp = some e0 → e0 = true) ∧ vs ≠ [] ∧ FlagIndep (toBinAlt subs) ∧
    ∀ (b e : Bool) (x : Str), x ∈ vs ↔ x ∈ acc ∨ ∃ t, x = base ++ t ∧ M (toBinAlt subs) b e t
  | [], base, acc, exp, vs, h => by
    simp only [fsmAlt] at h
    split at h
    · exact absurd h (by simp)
    · next hne =>
      simp only [Option.some.injEq, Prod.mk.injEq] at h
      obtain ⟨rfl, h2⟩ := h
      refine ⟨?_, by simpa using hne, by simpa [toBinAlt] using FlagIndep.fail, ?_⟩
      · intro e0 he0; subst he0; simpa using h2
      · intro b e x; simp [toBinAlt, M_fail]
  | sub :: rest, base, acc, exp, vs, h => by
    simp only [fsmAlt] at h
    cases hf : fsm fixed sub base with
    | none => simp [hf] at h
    | some p =>
      obtain ⟨found, cs⟩ := p
      simp only [hf] at h
      generalize hE : exp.getD cs = E at h
      by_cases hlen : acc.length + found.length > maxSetMatches
      · rw [if_pos hlen] at h; exact absurd h (by simp)
      · by_cases hne : (E != cs) = true
        · rw [if_neg hlen, if_pos hne] at h; exact absurd h (by simp)
        · rw [if_neg hlen, if_neg hne] at h
          have hEc : E = cs := by simpa using hne
          subst hEc
          obtain ⟨ih1, ihne, ihfi, ih2⟩ := fsmAlt_spec fixed rest base (acc ++ found) _ vs h
          have hexp : E = true := ih1 _ rfl
          subst hexp
          obtain ⟨_, hfi, hs⟩ := fsm_spec fixed sub base found hf
          refine ⟨?_, ihne, by simpa [toBinAlt] using FlagIndep.alt hfi ihfi, ?_⟩
          · intro e0 he0; subst he0; simpa using hE.symm
          · intro b e x
            rw [ih2 b e x]
            simp only [List.mem_append, toBinAlt, M_alt, hs b e x]
            constructor
            · rintro ((h | ⟨t, h1, h2⟩) | ⟨t, h1, h2⟩)
              · exact Or.inl h
              · exact Or.inr ⟨t, h1, Or.inl h2⟩
              · exact Or.inr ⟨t, h1, Or.inr h2⟩
            · rintro (h | ⟨t, h1, h2 | h2⟩)
              · exact Or.inl (Or.inl h)
              · exact Or.inl (Or.inr ⟨t, h1, h2⟩)
              · exact Or.inr ⟨t, h1, h2⟩
theorem fsmCat_spec (fixed : Bool) : ∀ (subs : List Re) (cur : List Str) (exp : Option Bool) (vs : List Str),
    cur ≠ [] → fsmCat fixed subs cur exp = some (vs, true) →
    (∀ e0, exp = some e0 → e0 = true) ∧ vs ≠ [] ∧ FlagIndep (toBinCat subs) ∧
    ∀ (b e : Bool) (x : Str), x ∈ vs ↔ ∃ c ∈ cur, ∃ t, x = c ++ t ∧ M (toBinCat subs) b e t
  | [], cur, exp, vs, hcur, h => by
    simp only [fsmCat, Option.some.injEq, Prod.mk.injEq] at h
    obtain ⟨rfl, h2⟩ := h
    refine ⟨?_, hcur, by simpa [toBinCat] using FlagIndep.eps, ?_⟩
    · intro e0 he0; subst he0; simpa using h2
    · intro b e x; simp [toBinCat, M_eps]
  | sub :: rest, cur, exp, vs, hcur, h => by
    simp only [fsmCat] at h
    cases hc : concatStep (fun b => fsm fixed sub b) cur [] exp with
    | none => simp [hc] at h
    | some p =>
      obtain ⟨new, exp'⟩ := p
      simp only [hc] at h
      obtain ⟨c1, c2, c3⟩ := concatStep_spec _ _ _ _ _ _ hc
      -- the first base
      obtain ⟨c0, hc0⟩ := List.exists_mem_of_ne_nil cur hcur
      obtain ⟨m0, e0, hm0, he0⟩ := c3 c0 hc0
      -- `new` is not empty once we know m0 is not empty; first get exp' = some true from the tail
      have hnew_of : ∀ m, fsm fixed sub c0 = some (m, true) → new ≠ [] := by
        intro m hm
        obtain ⟨hmne, _, _⟩ := fsm_spec fixed sub c0 m hm
        obtain ⟨y, hy⟩ := List.exists_mem_of_ne_nil m hmne
        intro hnil
        have : y ∈ new := (c2 y).mpr (Or.inr ⟨c0, hc0, m, true, hm, hy⟩)
        simp [hnil] at this
      -- case split on e0 to get non-emptiness before the recursive call
      cases e0 with
      | false =>
        -- then exp' = some false and the final sensitivity would be false: contradiction via the tail
        exfalso
        by_cases hn : new = []
        · subst hn
          -- tail on an empty list still threads exp' through: result sensitivity = false
          have : ∀ (subs : List Re) (vs : List Str), fsmCat fixed subs [] (some false) = some (vs, true) → False := by
            intro subs
            induction subs with
            | nil => intro vs h; simp [fsmCat] at h
            | cons s ss ih => intro vs h; simp only [fsmCat, concatStep] at h; exact ih vs h
          rw [he0] at h
          exact this rest vs h
        · obtain ⟨ih1, _⟩ := fsmCat_spec fixed rest new exp' vs hn h
          have := ih1 false he0
          simp at this
      | true =>
        have hnew : new ≠ [] := hnew_of m0 hm0
        obtain ⟨ih1, ihne, ihfi, ih2⟩ := fsmCat_spec fixed rest new exp' vs hnew h
        have hsub : ∀ c ∈ cur, ∃ m, fsm fixed sub c = some (m, true) := by
          intro c hcm
          obtain ⟨m, e1, hm, he1⟩ := c3 c hcm
          have : e1 = true := ih1 e1 he1
          subst this
          exact ⟨m, hm⟩
        obtain ⟨_, hfi0, _⟩ := fsm_spec fixed sub c0 m0 hm0
        refine ⟨?_, ihne, by simpa [toBinCat] using FlagIndep.cat hfi0 ihfi, ?_⟩
        · intro e0 he0'; exact ih1 e0 (c1 e0 he0')
        · intro b e x
          constructor
          · intro hx
            obtain ⟨c', hc', t2, rfl, ht2⟩ := (ih2 b e x).mp hx
            rcases (c2 c').mp hc' with h0 | ⟨c, hcm, m, e1, hm, hc'm⟩
            · simp at h0
            · obtain ⟨m', hm'⟩ := hsub c hcm
              rw [hm'] at hm
              simp only [Option.some.injEq, Prod.mk.injEq] at hm
              obtain ⟨rfl, rfl⟩ := hm
              obtain ⟨_, _, hs⟩ := fsm_spec fixed sub c _ hm'
              obtain ⟨t1, rfl, ht1⟩ := (hs b (e && t2.isEmpty) c').mp hc'm
              refine ⟨c, hcm, t1 ++ t2, by simp, ?_⟩
              simp only [toBinCat, M_cat]
              exact ⟨t1, t2, rfl, ht1, ihfi _ _ _ _ _ ht2⟩
          · rintro ⟨c, hcm, t, rfl, ht⟩
            simp only [toBinCat, M_cat] at ht
            obtain ⟨t1, t2, rfl, ht1, ht2⟩ := ht
            obtain ⟨m, hm⟩ := hsub c hcm
            obtain ⟨_, _, hs⟩ := fsm_spec fixed sub c m hm
            have hc'm : c ++ t1 ∈ m := (hs b (e && t2.isEmpty) (c ++ t1)).mpr ⟨t1, rfl, ht1⟩
            have hnew' : c ++ t1 ∈ new := (c2 _).mpr (Or.inr ⟨c, hcm, m, true, hm, hc'm⟩)
            exact (ih2 (b && t1.isEmpty) e _).mpr ⟨c ++ t1, hnew', t2, by simp, ht2⟩
end

end Prom.Regex
