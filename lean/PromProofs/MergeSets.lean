import PromModel.Tsdb.Merge
import PromProofs.GoHeap
import PromProofs.Merge
import PromProofs.MergeTotal
/-
  C19: `genericMergeSeriesSet` — the heap of label-sorted series sets emits every label set of the
  inputs exactly once, in strictly increasing `labels.Compare` order, each time together with all
  series carrying that label set.
-/
namespace Prom.Merge
open Prom.GoHeap

/-! ## `labels.Compare` is a strict total order -/

def Llt (a b : Labels) : Prop := Labels.compare a b = .lt

theorem str_tri (a b : String) : a < b ∨ a = b ∨ b < a := by
  by_cases h1 : a < b
  · exact Or.inl h1
  · by_cases h2 : b < a
    · exact Or.inr (Or.inr h2)
    · exact Or.inr (Or.inl (String.le_antisymm (String.not_lt.1 h2) (String.not_lt.1 h1)))

theorem cmp_cons_lt (n1 v1 n2 v2 : String) (r1 r2 : Labels) :
    Llt ((n1, v1) :: r1) ((n2, v2) :: r2) ↔
      n1 < n2 ∨ (n1 = n2 ∧ (v1 < v2 ∨ (v1 = v2 ∧ Llt r1 r2))) := by
  unfold Llt
  simp only [Labels.compare]
  rcases str_tri n1 n2 with h | h | h
  · simp [h]
  · subst h
    simp only [String.lt_irrefl, if_false, true_and, false_or]
    rcases str_tri v1 v2 with h | h | h
    · simp [h]
    · subst h; simp [String.lt_irrefl]
    · have h' := String.lt_asymm h
      have hne : v1 ≠ v2 := fun e => by subst e; exact String.lt_irrefl _ h
      simp [h, h', hne]
  · have h' := String.lt_asymm h
    have hne : n1 ≠ n2 := fun e => by subst e; exact String.lt_irrefl _ h
    simp [h, h', hne]

theorem Llt_irrefl : ∀ a : Labels, ¬ Llt a a
  | [] => by simp [Llt, Labels.compare]
  | (n, v) :: r => by
    rw [cmp_cons_lt]
    have := Llt_irrefl r
    simp [String.lt_irrefl, this]

theorem Llt_trans : ∀ {a b c : Labels}, Llt a b → Llt b c → Llt a c
  | [], [], _, h, _ => by simp [Llt, Labels.compare] at h
  | [], _ :: _, [], _, h => by simp [Llt, Labels.compare] at h
  | [], _ :: _, _ :: _, _, _ => by simp [Llt, Labels.compare]
  | _ :: _, [], _, h, _ => by simp [Llt, Labels.compare] at h
  | _ :: _, _ :: _, [], _, h => by simp [Llt, Labels.compare] at h
  | (n1, v1) :: r1, (n2, v2) :: r2, (n3, v3) :: r3, h1, h2 => by
    rw [cmp_cons_lt] at h1 h2 ⊢
    rcases h1 with h1 | ⟨rfl, h1⟩
    · rcases h2 with h2 | ⟨rfl, _⟩
      · exact Or.inl (String.lt_trans h1 h2)
      · exact Or.inl h1
    · rcases h2 with h2 | ⟨rfl, h2⟩
      · exact Or.inl h2
      · refine Or.inr ⟨rfl, ?_⟩
        rcases h1 with h1 | ⟨rfl, h1⟩
        · rcases h2 with h2 | ⟨rfl, _⟩
          · exact Or.inl (String.lt_trans h1 h2)
          · exact Or.inl h1
        · rcases h2 with h2 | ⟨rfl, h2⟩
          · exact Or.inl h2
          · exact Or.inr ⟨rfl, Llt_trans h1 h2⟩

theorem Llt_tri : ∀ a b : Labels, Llt a b ∨ a = b ∨ Llt b a
  | [], [] => Or.inr (Or.inl rfl)
  | [], _ :: _ => Or.inl (by simp [Llt, Labels.compare])
  | _ :: _, [] => Or.inr (Or.inr (by simp [Llt, Labels.compare]))
  | (n1, v1) :: r1, (n2, v2) :: r2 => by
    rw [cmp_cons_lt, cmp_cons_lt]
    rcases str_tri n1 n2 with h | rfl | h
    · exact Or.inl (Or.inl h)
    · rcases str_tri v1 v2 with h | rfl | h
      · exact Or.inl (Or.inr ⟨rfl, Or.inl h⟩)
      · rcases Llt_tri r1 r2 with h | rfl | h
        · exact Or.inl (Or.inr ⟨rfl, Or.inr ⟨rfl, h⟩⟩)
        · exact Or.inr (Or.inl rfl)
        · exact Or.inr (Or.inr (Or.inr ⟨rfl, Or.inr ⟨rfl, h⟩⟩))
      · exact Or.inr (Or.inr (Or.inr ⟨rfl, Or.inl h⟩))
    · exact Or.inr (Or.inr (Or.inl h))

theorem Llt_asymm {a b : Labels} (h : Llt a b) : ¬ Llt b a := fun h' => Llt_irrefl a (Llt_trans h h')

/-- `a ≤ b` (not `b < a`) and `b < c` give `a < c` -/
theorem Llt_of_not_lt_of_lt {a b c : Labels} (h1 : ¬ Llt b a) (h2 : Llt b c) : Llt a c := by
  rcases Llt_tri a b with h | rfl | h
  · exact Llt_trans h h2
  · exact h2
  · exact (h1 h).elim

section
variable {σ : Type} (lab : σ → Labels)

theorem ltSet_iff (a b : SetIt σ) : ltSet lab a b = true ↔ Llt (a.labels lab) (b.labels lab) := by
  simp [ltSet, Llt]

theorem ltSet_false_iff (a b : SetIt σ) : ltSet lab a b = false ↔ ¬ Llt (a.labels lab) (b.labels lab) := by
  rw [← ltSet_iff]; simp

theorem sw_ltSet : StrictWeak (ltSet lab) where
  asymm a b h := by
    rw [ltSet_iff] at h; rw [ltSet_false_iff]; exact Llt_asymm h
  trans a b c h1 h2 := by
    rw [ltSet_false_iff] at *
    intro h3
    rcases Llt_tri (b.labels lab) (a.labels lab) with h | h | h
    · exact h1 h
    · rw [h] at h2; exact h2 h3
    · exact h2 (Llt_trans h3 h)

end

theorem Llt_of_lt_of_not_lt {a b c : Labels} (h1 : Llt a b) (h2 : ¬ Llt c b) : Llt a c := by
  rcases Llt_tri a c with h | rfl | h
  · exact h
  · exact (h2 h1).elim
  · exact (h2 (Llt_trans h h1)).elim

/-! ## the heap of series sets -/

section
variable {σ : Type} (lab : σ → Labels)

def SetIt.live (s : SetIt σ) : List σ := s.cur.toList ++ s.rest

def SetIt.WF (s : SetIt σ) : Prop := s.live.Pairwise (fun a b => Llt (lab a) (lab b))

/-- everything the heap members still hold (current series included) -/
def heapL (h : Array (SetIt σ)) : List σ := h.toList.flatMap SetIt.live

/-- series not yet handed out -/
def pendS (st : MState σ) : List σ := st.current.flatMap (·.rest) ++ heapL st.h

def curElems (st : MState σ) : List σ := st.current.filterMap (·.cur)

theorem heapL_perm {a b : Array (SetIt σ)} (hp : a.Perm b) : (heapL a).Perm (heapL b) :=
  List.Perm.flatMap_right _ (Array.perm_iff_toList_perm.1 hp)

theorem heapL_push (h : Array (SetIt σ)) (x : SetIt σ) :
    (heapL (push (ltSet lab) h x)).Perm (heapL h ++ x.live) := by
  have := heapL_perm (perm_push (ltSet lab) h x)
  simpa [heapL] using this

theorem flatMap_live_perm (l : List (SetIt σ)) :
    (l.flatMap SetIt.live).Perm (l.filterMap (·.cur) ++ l.flatMap (·.rest)) := by
  induction l with
  | nil => simp
  | cons x l ih =>
    simp only [List.flatMap_cons, SetIt.live]
    have h1 : (x.cur.toList ++ x.rest ++ List.flatMap SetIt.live l).Perm
        (x.cur.toList ++ x.rest ++ (List.filterMap (·.cur) l ++ List.flatMap (·.rest) l)) :=
      List.Perm.append_left _ ih
    refine h1.trans ?_
    have h2 : (List.filterMap (·.cur) (x :: l)) = x.cur.toList ++ List.filterMap (·.cur) l := by
      cases hx : x.cur <;> simp [List.filterMap_cons, hx]
    rw [h2]
    simp only [List.append_assoc]
    refine List.Perm.append_left _ ?_
    rw [← List.append_assoc, ← List.append_assoc]
    exact List.Perm.append_right _ List.perm_append_comm

structure HOK (h : Array (SetIt σ)) : Prop where
  heap : IsHeap (ltSet lab) h h.size
  mem : ∀ x ∈ h, x.WF lab ∧ ∃ v, x.cur = some v

theorem HOK_empty : HOK lab (#[] : Array (SetIt σ)) := ⟨isHeap_empty _, by simp⟩

theorem HOK_push (h : Array (SetIt σ)) (x : SetIt σ) (hh : HOK lab h) (hx : x.WF lab) (v : σ) (hv : x.cur = some v) :
    HOK lab (push (ltSet lab) h x) := by
  refine ⟨isHeap_push (sw_ltSet lab) h x hh.heap, ?_⟩
  intro y hy
  rcases (mem_heap_push _ _ _ _).1 hy with hy | rfl
  · exact hh.mem y hy
  · exact ⟨hx, v, hv⟩

theorem wf_of (s' : SetIt σ) (x : σ) (r : List σ) (hc : s'.cur = some x) (hr : s'.rest = r)
    (hwf : (x :: r).Pairwise (fun a b => Llt (lab a) (lab b))) : SetIt.WF lab s' := by
  simpa [SetIt.WF, SetIt.live, hc, hr] using hwf

theorem advanceCurrent_spec : ∀ (cur : List (SetIt σ)) (h : Array (SetIt σ)) (dead : List (SetIt σ)),
    HOK lab h → (∀ s ∈ cur, s.WF lab) →
    HOK lab (advanceCurrent lab cur h dead).1 ∧
      (heapL (advanceCurrent lab cur h dead).1).Perm (heapL h ++ cur.flatMap (·.rest)) := by
  intro cur
  induction cur with
  | nil => intro h dead hh _; exact ⟨hh, by simp [advanceCurrent]⟩
  | cons s tl ih =>
    intro h dead hh hc
    have hswf := hc s (by simp)
    have hsr : s.rest.Pairwise (fun a b => Llt (lab a) (lab b)) :=
      List.Pairwise.sublist (List.sublist_append_right _ _) hswf
    unfold advanceCurrent SetIt.next
    cases hr : s.rest with
    | nil =>
      simp only
      obtain ⟨a, b⟩ := ih h ({ s with cur := none, rest := [], done := true } :: dead) hh (fun x hx => hc x (by simp [hx]))
      exact ⟨a, by simpa [hr] using b⟩
    | cons x r =>
      simp only
      have hwf' := wf_of lab { s with cur := some x, rest := r } x r rfl rfl (hr ▸ hsr)
      obtain ⟨a, b⟩ := ih (push (ltSet lab) h { s with cur := some x, rest := r }) dead
        (HOK_push lab h _ hh hwf' x rfl) (fun y hy => hc y (by simp [hy]))
      refine ⟨a, b.trans ?_⟩
      have := heapL_push lab h { s with cur := some x, rest := r }
      refine (List.Perm.append_right _ this).trans ?_
      simp [SetIt.live, hr]

theorem initSets_spec : ∀ (sets : List (SetIt σ)) (h : Array (SetIt σ)) (dead : List (SetIt σ)),
    HOK lab h → (∀ s ∈ sets, s.errEnd = false ∧ s.rest.Pairwise (fun a b => Llt (lab a) (lab b))) →
    ∃ h' d', initSets lab sets h dead = some (h', d') ∧ HOK lab h' ∧
      (heapL h').Perm (heapL h ++ sets.flatMap (·.rest)) := by
  intro sets
  induction sets with
  | nil => intro h dead hh _; exact ⟨h, dead, rfl, hh, by simp⟩
  | cons s tl ih =>
    intro h dead hh hc
    obtain ⟨herr, hsr⟩ := hc s (by simp)
    unfold initSets SetIt.next
    cases hr : s.rest with
    | nil =>
      simp only [SetIt.err, herr, Bool.and_false, Bool.false_eq_true, if_false]
      obtain ⟨h', d', a, b, c⟩ := ih h ({ s with cur := none, rest := [], done := true, errEnd := false } :: dead) hh (fun x hx => hc x (by simp [hx]))
      exact ⟨h', d', a, b, by simpa [hr] using c⟩
    | cons x r =>
      simp only [SetIt.err, herr, Bool.and_false, Bool.false_eq_true, if_false]
      have hwf' := wf_of lab { s with cur := some x, rest := r, errEnd := false } x r rfl rfl (hr ▸ hsr)
      obtain ⟨h', d', a, b, c⟩ := ih (push (ltSet lab) h { s with cur := some x, rest := r, errEnd := false }) dead
        (HOK_push lab h _ hh hwf' x rfl) (fun y hy => hc y (by simp [hy]))
      refine ⟨h', d', a, b, c.trans ?_⟩
      have := heapL_push lab h { s with cur := some x, rest := r, errEnd := false }
      refine (List.Perm.append_right _ this).trans ?_
      simp [SetIt.live, hr]

end

/-! ## one `Next` of the merged set -/

section
variable {σ : Type} (lab : σ → Labels)

theorem labels_of_cur {x : SetIt σ} {v : σ} (h : x.cur = some v) : x.labels lab = lab v := by
  simp [SetIt.labels, h]

theorem popEqual_spec (l : Labels) : ∀ (fuel : Nat) (h : Array (SetIt σ)) (acc : List (SetIt σ)),
    HOK lab h → h.size ≤ fuel → (∀ y ∈ h, ¬ Llt (y.labels lab) l) →
    ∃ popped, (popEqual lab l fuel h acc).2 = acc.reverse ++ popped ∧ HOK lab (popEqual lab l fuel h acc).1 ∧
      h.toList.Perm (popped ++ (popEqual lab l fuel h acc).1.toList) ∧ (∀ x ∈ popped, x.labels lab = l) ∧
      ∀ y ∈ (popEqual lab l fuel h acc).1, Llt l (y.labels lab) := by
  intro fuel
  induction fuel with
  | zero =>
    intro h acc hh hsz _
    have : h = #[] := by apply Array.eq_empty_of_size_eq_zero; omega
    subst this
    exact ⟨[], by simp [popEqual], hh, by simp [popEqual], by simp, by simp [popEqual]⟩
  | succ f ih =>
    intro h acc hh hsz hge
    unfold popEqual
    by_cases h0 : h.size = 0
    · have : h = #[] := Array.eq_empty_of_size_eq_zero h0
      subst this
      exact ⟨[], by simp, hh, by simp, by simp, by simp⟩
    · obtain ⟨x, h', hpop, htop, hheap', hperm, hmem, hmin⟩ := pop_cor2 (sw_ltSet lab) h hh.heap h0
      rw [htop]
      simp only
      have hx : x ∈ h := (hmem x).2 (Or.inl rfl)
      by_cases hl : x.labels lab = l
      · rw [if_pos hl, hpop]
        simp only
        have hh' : HOK lab h' := ⟨hheap', fun y hy => hh.mem y ((hmem y).2 (Or.inr hy))⟩
        have hsz' : h'.size ≤ f := by
          have := hperm.size_eq; simp at this; omega
        obtain ⟨popped, e1, e2, e3, e4, e5⟩ := ih h' (x :: acc) hh' hsz'
          (fun y hy => hge y ((hmem y).2 (Or.inr hy)))
        refine ⟨x :: popped, by rw [e1]; simp, e2, ?_, ?_, e5⟩
        · have hp : h.toList.Perm (h'.toList ++ [x]) := by
            have := (Array.perm_iff_toList_perm.1 hperm).symm
            simpa using this
          refine hp.trans ?_
          refine (List.perm_append_comm).trans ?_
          simpa using e3
        · intro y hy
          rcases List.mem_cons.1 hy with rfl | hy
          · exact hl
          · exact e4 y hy
      · rw [if_neg hl]
        refine ⟨[], by simp, hh, by simp, by simp, ?_⟩
        have hxl : Llt l (x.labels lab) := by
          rcases Llt_tri l (x.labels lab) with h1 | h1 | h1
          · exact h1
          · exact (hl h1.symm).elim
          · exact (hge x hx h1).elim
        intro y hy
        have := hmin y hy
        rw [ltSet_false_iff] at this
        exact Llt_of_lt_of_not_lt hxl this

structure MInv (st : MState σ) : Prop where
  hok : HOK lab st.h
  cwf : ∀ x ∈ st.current, x.WF lab
  sep : ∀ v ∈ curElems st, ∀ p ∈ pendS st, Llt (lab v) (lab p)
  lim : st.limit = 0

def MNextPost (st : MState σ) : MState σ × Bool → Prop
  | (st', true) => MInv lab st' ∧ (∃ l, ∀ v ∈ curElems st', lab v = l) ∧ curElems st' ≠ [] ∧
      (pendS st).Perm (curElems st' ++ pendS st')
  | (_, false) => pendS st = []

theorem mnext_spec (st : MState σ) (hi : MInv lab st) : MNextPost lab st (st.next lab) := by
  unfold MState.next
  have hlim : ¬ (st.limit > 0 ∧ st.merged ≥ st.limit) := by rw [hi.lim]; simp
  rw [if_neg hlim]
  obtain ⟨hok1, hperm1⟩ := advanceCurrent_spec lab st.current st.h st.dead hi.hok hi.cwf
  have hpend : (pendS st).Perm (heapL (advanceCurrent lab st.current st.h st.dead).1) :=
    (List.perm_append_comm).trans hperm1.symm
  cases hadv : advanceCurrent lab st.current st.h st.dead with
  | mk h1 dead1 =>
    rw [hadv] at hok1 hpend
    simp only
    by_cases h0 : h1.size = 0
    · have : h1 = #[] := Array.eq_empty_of_size_eq_zero h0
      subst this
      simp only [List.getElem?_eq_none, Array.size_empty, Nat.le_refl, Array.getElem?_eq_none]
      have : heapL (#[] : Array (SetIt σ)) = [] := by simp [heapL]
      rw [this] at hpend
      exact hpend.eq_nil
    · have hpos : 0 < h1.size := by omega
      have htop : h1[0]? = some h1[0] := by simp [hpos]
      rw [htop]
      simp only
      have hge : ∀ y ∈ h1, ¬ Llt (y.labels lab) (h1[0].labels lab) := by
        intro y hy
        obtain ⟨k, hk, rfl⟩ := Array.getElem_of_mem hy
        have := root_min (sw_ltSet lab) h1 hok1.heap k hk
        rw [ltSet_false_iff] at this
        exact this
      obtain ⟨popped, e1, e2, e3, e4, e5⟩ := popEqual_spec lab (h1[0].labels lab) h1.size h1 [] hok1 (Nat.le_refl _) hge
      cases hpe : popEqual lab (h1[0].labels lab) h1.size h1 [] with
      | mk h' cur =>
        rw [hpe] at e1 e2 e3 e5
        simp only at e1 e2 e3 e5
        simp only [List.reverse_nil, List.nil_append] at e1
        subst e1
        simp only
        have hmemh1 : ∀ x, x ∈ h1 ↔ x ∈ cur ∨ x ∈ h' := by
          intro x
          rw [← Array.mem_toList_iff, e3.mem_iff]; simp
        have hcurv : ∀ x ∈ cur, ∃ v, x.cur = some v ∧ lab v = h1[0].labels lab := by
          intro x hx
          obtain ⟨_, v, hv⟩ := hok1.mem x ((hmemh1 x).2 (Or.inl hx))
          exact ⟨v, hv, by rw [← labels_of_cur lab hv]; exact e4 x hx⟩
        have hcurlab : ∀ v ∈ cur.filterMap (·.cur), lab v = h1[0].labels lab := by
          intro v hv
          obtain ⟨x, hx, hxv⟩ := List.mem_filterMap.1 hv
          obtain ⟨w, hw, hwl⟩ := hcurv x hx
          rw [hxv] at hw; cases hw; exact hwl
        have htopcur : h1[0] ∈ cur := by
          rcases (hmemh1 h1[0]).1 (Array.getElem_mem hpos) with h | h
          · exact h
          · exact (Llt_irrefl _ (e5 _ h)).elim
        refine ⟨⟨e2, fun x hx => (hok1.mem x ((hmemh1 x).2 (Or.inl hx))).1, ?_, hi.lim⟩,
          ⟨h1[0].labels lab, hcurlab⟩, ?_, ?_⟩
        · intro v hv p hp
          have hvl := hcurlab v hv
          simp only [pendS, List.mem_append, List.mem_flatMap] at hp
          rcases hp with ⟨x, hx, hp⟩ | hp
          · obtain ⟨w, hw, hwl⟩ := hcurv x hx
            have hwf := (hok1.mem x ((hmemh1 x).2 (Or.inl hx))).1
            have : (w :: x.rest).Pairwise (fun a b => Llt (lab a) (lab b)) := by
              simpa [SetIt.WF, SetIt.live, hw] using hwf
            rw [hvl, ← hwl]
            exact (List.pairwise_cons.1 this).1 p hp
          · simp only [heapL, List.mem_flatMap, Array.mem_toList_iff] at hp
            obtain ⟨y, hy, hp⟩ := hp
            obtain ⟨hwf, w, hw⟩ := hok1.mem y ((hmemh1 y).2 (Or.inr hy))
            have hlw : Llt (h1[0].labels lab) (lab w) := by rw [← labels_of_cur lab hw]; exact e5 y hy
            have hpw : (w :: y.rest).Pairwise (fun a b => Llt (lab a) (lab b)) := by
              simpa [SetIt.WF, SetIt.live, hw] using hwf
            rw [hvl]
            have hp' : p = w ∨ p ∈ y.rest := by simpa [SetIt.live, hw] using hp
            rcases hp' with rfl | hp'
            · exact hlw
            · exact Llt_trans hlw ((List.pairwise_cons.1 hpw).1 p hp')
        · obtain ⟨v, hv, _⟩ := hcurv _ htopcur
          intro hnil
          have : v ∈ cur.filterMap (·.cur) := List.mem_filterMap.2 ⟨_, htopcur, hv⟩
          have h3 : v ∈ ([] : List σ) := by rw [← hnil]; exact this
          simp at h3
        · refine hpend.trans ?_
          have h2 : (heapL h1).Perm (cur.flatMap SetIt.live ++ heapL h') := by
            have := List.Perm.flatMap_right SetIt.live e3
            simpa [heapL] using this
          refine h2.trans ?_
          refine (List.Perm.append_right _ (flatMap_live_perm cur)).trans ?_
          simp [curElems, pendS, List.append_assoc]

end

/-! ## draining the merged set -/

section
variable {σ : Type} (lab : σ → Labels)

/-- the label set under which a group of series is handed out -/
def grpLabel (ss : List σ) : Labels := (ss.head?.map lab).getD []

theorem grpLabel_of_all {g : List σ} {l : Labels} (hne : g ≠ []) (h : ∀ v ∈ g, lab v = l) : grpLabel lab g = l := by
  cases g with
  | nil => exact (hne rfl).elim
  | cons a r => simp [grpLabel, h a (by simp)]

theorem mdrain_spec : ∀ (fuel : Nat) (st : MState σ) (acc : List (List σ)), MInv lab st → (pendS st).length < fuel →
    ∃ gs, (MSet.drainAux lab fuel (.merged st) acc).1 = acc.reverse ++ gs ∧
      (gs.map (grpLabel lab)).Pairwise Llt ∧
      (∀ g ∈ gs, g ≠ [] ∧ ∀ x ∈ g, lab x = grpLabel lab g ∧ x ∈ pendS st) ∧
      (∀ p ∈ pendS st, ∃ g ∈ gs, p ∈ g) := by
  intro fuel
  induction fuel with
  | zero => intro st acc _ hf; omega
  | succ f ih =>
    intro st acc hi hf
    have hn := mnext_spec lab st hi
    unfold MSet.drainAux MSet.next
    cases hnx : st.next lab with
    | mk st' ok =>
      rw [hnx] at hn
      simp only [hnx]
      cases ok with
      | false =>
        simp only
        have hp : pendS st = [] := hn
        exact ⟨[], by simp, by simp, by simp, by simp [hp]⟩
      | true =>
        simp only
        obtain ⟨hi', ⟨l, hl⟩, hne, hperm⟩ := hn
        have hlen := hperm.length_eq
        have hpos : 0 < (curElems st').length := List.length_pos_iff.2 hne
        rw [List.length_append] at hlen
        obtain ⟨gs, e1, e2, e3, e4⟩ := ih st' (MSet.at (.merged st') :: acc) hi' (by omega)
        have hat : MSet.at (.merged st') = curElems st' := rfl
        rw [hat] at e1
        have hg1 : grpLabel lab (curElems st') = l := grpLabel_of_all lab hne hl
        refine ⟨curElems st' :: gs, by rw [hat, e1]; simp, ?_, ?_, ?_⟩
        · simp only [List.map_cons]
          refine List.pairwise_cons.2 ⟨?_, e2⟩
          intro gl hgl
          obtain ⟨g, hg, rfl⟩ := List.mem_map.1 hgl
          obtain ⟨hgne, hgx⟩ := e3 g hg
          obtain ⟨x, hx⟩ := List.exists_mem_of_ne_nil g hgne
          obtain ⟨v, hv⟩ := List.exists_mem_of_ne_nil _ hne
          rw [hg1, ← (hgx x hx).1, ← hl v hv]
          exact hi'.sep v hv x (hgx x hx).2
        · intro g hg
          rcases List.mem_cons.1 hg with rfl | hg
          · refine ⟨hne, fun x hx => ⟨by rw [hg1]; exact hl x hx, ?_⟩⟩
            exact hperm.mem_iff.2 (List.mem_append_left _ hx)
          · obtain ⟨a, b⟩ := e3 g hg
            exact ⟨a, fun x hx => ⟨(b x hx).1, hperm.mem_iff.2 (List.mem_append_right _ (b x hx).2)⟩⟩
        · intro p hp
          rcases List.mem_append.1 (hperm.mem_iff.1 hp) with h | h
          · exact ⟨_, by simp, h⟩
          · obtain ⟨g, hg, hpg⟩ := e4 p h
            exact ⟨g, List.mem_cons_of_mem _ hg, hpg⟩

theorem sdrain_spec : ∀ (fuel : Nat) (s : SetIt σ) (acc : List (List σ)), s.rest.length < fuel →
    (MSet.drainAux lab fuel (.single s) acc).1 = acc.reverse ++ s.rest.map ([·]) := by
  intro fuel
  induction fuel with
  | zero => intro s acc hf; omega
  | succ f ih =>
    intro s acc hf
    unfold MSet.drainAux MSet.next SetIt.next
    cases hr : s.rest with
    | nil => simp [hr]
    | cons x r =>
      simp only [hr]
      rw [ih _ _ (by simp [hr] at hf ⊢; omega)]
      simp [MSet.at]

theorem new_of_length_ne_one (l : List (SetIt σ)) (limit : Nat) (h : l.length ≠ 1) :
    MSet.new lab l limit = match initSets lab l #[] [] with
      | none => .errOnly
      | some (h, dead) => .merged { h, current := [], dead, limit, merged := 0 } := by
  match l, h with
  | [], _ => rfl
  | [_], h => exact (h rfl).elim
  | _ :: _ :: _, _ => rfl

theorem zip_rest (sets : List (List σ)) :
    (sets.zipIdx.map fun (s, i) => SetIt.ofList i s).map (·.rest) = sets := by
  rw [List.map_map]
  have : ((fun x : SetIt σ => x.rest) ∘ fun (x : List σ × Nat) => SetIt.ofList x.2 x.1) = Prod.fst := by
    funext x; rfl
  rw [this, List.zipIdx_map_fst]

/-- The merged series set over label-sorted inputs: groups come out in strictly increasing label order,
    every group is non-empty and carries one label set, and the groups together hold exactly the input
    series. -/
theorem merge_sets_spec (sets : List (List σ))
    (hs : ∀ s ∈ sets, s.Pairwise fun a b => Llt (lab a) (lab b)) :
    let out := (MSet.drainAux lab (sets.flatten.length + 1)
      (MSet.new lab (sets.zipIdx.map fun (s, i) => SetIt.ofList i s) 0) []).1
    (out.map (grpLabel lab)).Pairwise Llt ∧ (∀ g ∈ out, g ≠ [] ∧ ∀ x ∈ g, lab x = grpLabel lab g) ∧
      ∀ x, (∃ g ∈ out, x ∈ g) ↔ x ∈ sets.flatten := by
  intro out
  by_cases h1 : sets.length = 1
  · obtain ⟨s, rfl⟩ := List.length_eq_one_iff.1 h1
    have hout : out = s.map ([·]) := by
      show (MSet.drainAux lab _ (MSet.single (SetIt.ofList 0 s)) []).1 = _
      rw [sdrain_spec lab _ _ _ (by simp [SetIt.ofList])]
      simp [SetIt.ofList]
    rw [hout]
    refine ⟨?_, ?_, ?_⟩
    · rw [List.map_map]
      have : (grpLabel lab ∘ fun x : σ => [x]) = lab := by funext x; simp [grpLabel]
      rw [this, List.pairwise_map]
      exact hs s (by simp)
    · intro g hg
      obtain ⟨x, _, rfl⟩ := List.mem_map.1 hg
      simp [grpLabel]
    · intro x
      constructor
      · rintro ⟨g, hg, hx⟩
        obtain ⟨a, ha, rfl⟩ := List.mem_map.1 hg
        simp at hx; subst hx; simpa using ha
      · intro hx
        exact ⟨[x], List.mem_map.2 ⟨x, by simpa using hx, rfl⟩, by simp⟩
  · have hrest := zip_rest sets
    have hflat : (sets.zipIdx.map fun (s, i) => SetIt.ofList i s).flatMap (·.rest) = sets.flatten := by
      rw [List.flatMap_def, hrest]
    have hall : ∀ s ∈ (sets.zipIdx.map fun (s, i) => SetIt.ofList i s),
        s.errEnd = false ∧ s.rest.Pairwise (fun a b => Llt (lab a) (lab b)) := by
      intro s hsm
      have hmem : s.rest ∈ sets := by rw [← hrest]; exact List.mem_map_of_mem hsm
      obtain ⟨x, _, rfl⟩ := List.mem_map.1 hsm
      exact ⟨rfl, hs _ hmem⟩
    obtain ⟨h, d, e1, e2, e3⟩ := initSets_spec lab _ #[] [] (HOK_empty lab) hall
    have hlen : (sets.zipIdx.map fun (s, i) => SetIt.ofList i s).length ≠ 1 := by simpa using h1
    have hnew := new_of_length_ne_one lab _ 0 hlen
    rw [e1] at hnew
    simp only at hnew
    have hpend : (pendS ({ h, current := [], dead := d, limit := 0, merged := 0 } : MState σ)).Perm sets.flatten := by
      have : heapL (#[] : Array (SetIt σ)) = [] := by simp [heapL]
      rw [this, hflat] at e3
      simpa [pendS] using e3
    have hinv : MInv lab ({ h, current := [], dead := d, limit := 0, merged := 0 } : MState σ) :=
      ⟨e2, by simp, by simp [curElems], rfl⟩
    obtain ⟨gs, g1, g2, g3, g4⟩ := mdrain_spec lab (sets.flatten.length + 1) _ [] hinv (by rw [hpend.length_eq]; omega)
    have hout : out = gs := by
      show (MSet.drainAux lab _ (MSet.new lab _ 0) []).1 = gs
      rw [hnew, g1]; simp
    rw [hout]
    refine ⟨g2, fun g hg => ⟨(g3 g hg).1, fun x hx => ((g3 g hg).2 x hx).1⟩, ?_⟩
    intro x
    constructor
    · rintro ⟨g, hg, hx⟩
      exact hpend.mem_iff.1 ((g3 g hg).2 x hx).2
    · intro hx
      exact g4 x (hpend.mem_iff.2 hx)

end

end Prom.Merge
