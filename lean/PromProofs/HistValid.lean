import PromProofs.HistChunk
/-
  `Histogram.Validate`-style span validity (no negative offset after the first span) implies the sortedness
  part of `WF`.
-/
namespace Prom.Hist

theorem runIdx_bounds (b : Int) (n : Nat) : ∀ x ∈ runIdx b n, b ≤ x ∧ x < b + n := by
  induction n generalizing b with
  | zero => intro x hx; simp [runIdx] at hx
  | succ n ih =>
    intro x hx
    simp only [runIdx, List.mem_cons] at hx
    rcases hx with rfl | hx
    · omega
    · have := ih (b + 1) x hx; omega

theorem runIdx_sorted (b : Int) (n : Nat) : (runIdx b n).Pairwise (· < ·) := by
  induction n generalizing b with
  | zero => simp [runIdx]
  | succ n ih =>
    simp only [runIdx, List.pairwise_cons]
    exact ⟨fun x hx => by have := (runIdx_bounds (b + 1) n x hx).1; omega, ih (b + 1)⟩

theorem idxsFrom_sorted (cur : Int) (spans : List Span) (h : ∀ s ∈ spans, 0 ≤ s.offset) :
    (idxsFrom cur spans).Pairwise (· < ·) ∧ ∀ x ∈ idxsFrom cur spans, cur ≤ x := by
  induction spans generalizing cur with
  | nil => simp [idxsFrom]
  | cons s r ih =>
    have h0 := h s (by simp)
    obtain ⟨ih1, ih2⟩ := ih (cur + s.offset + (s.length : Int)) (fun s' hs' => h s' (by simp [hs']))
    simp only [idxsFrom]
    refine ⟨List.pairwise_append.2 ⟨runIdx_sorted _ _, ih1, ?_⟩, ?_⟩
    · intro a ha b hb
      have := (runIdx_bounds _ _ a ha).2
      have := ih2 b hb
      omega
    · intro x hx
      rcases List.mem_append.1 hx with hx | hx
      · have := (runIdx_bounds _ _ x hx).1; omega
      · have := ih2 x hx; omega

/-- spans as `Validate` accepts them (only the first offset may be negative) enumerate strictly increasing
    bucket indices; zero-length spans are fine -/
theorem idxs_sorted_of_valid (spans : List Span) (h : ∀ s ∈ spans.tail, 0 ≤ s.offset) :
    (idxs spans).Pairwise (· < ·) := by
  cases spans with
  | nil => simp [idxs, idxsFrom]
  | cons s r =>
    simp only [idxs, idxsFrom]
    obtain ⟨ih1, ih2⟩ := idxsFrom_sorted (0 + s.offset + (s.length : Int)) r (by simpa using h)
    refine List.pairwise_append.2 ⟨runIdx_sorted _ _, ih1, ?_⟩
    intro a ha b hb
    have := (runIdx_bounds _ _ a ha).2
    have := ih2 b hb
    omega

/-- a histogram that passes the span/bucket part of `Validate`, has a non-negative-zero threshold and carries
    custom bounds only with the custom schema is `WF` -/
theorem WF.of_valid (h : Hist) (hp : ∀ s ∈ h.pSpans.tail, 0 ≤ s.offset) (hn : ∀ s ∈ h.nSpans.tail, 0 ≤ s.offset)
    (hpl : h.pB.length = countSpans h.pSpans) (hnl : h.nB.length = countSpans h.nSpans)
    (hz : h.zt ≠ negZero) (hc : ∀ b ∈ h.custom, b ≠ negZero) (hcn : h.schema ≠ customSchema → h.custom = []) : WF h :=
  ⟨by rw [hpl, countSpans_eq], by rw [hnl, countSpans_eq], idxs_sorted_of_valid _ hp, idxs_sorted_of_valid _ hn,
    hz, hc, hcn⟩

end Prom.Hist
