import PromModel.Tsdb.Retention
import PromModel.Tsdb.RetentionSpec
/-
  Helper lemmas for C09 (core Lean only).
-/
namespace Prom.Retention

theorem wrap64_of_I64 {x : Int} (h : I64 x) : wrap64 x = x := by
  unfold I64 two63 at h
  unfold wrap64 two63 two64
  omega

/-! ### the sort -/

theorem insertDesc_perm (b : Blk) (xs : List Blk) : (insertDesc b xs).Perm (b :: xs) := by
  induction xs with
  | nil => exact List.Perm.refl _
  | cons x xs ih =>
    unfold insertDesc
    split
    · exact List.Perm.refl _
    · exact (List.Perm.cons x ih).trans (List.Perm.swap b x xs)

theorem sortDesc_perm (bs : List Blk) : (sortDesc bs).Perm bs := by
  induction bs with
  | nil => exact List.Perm.refl _
  | cons b bs ih =>
    unfold sortDesc
    exact (insertDesc_perm b _).trans (List.Perm.cons b ih)

theorem mem_sortDesc {b : Blk} {bs : List Blk} : b ∈ sortDesc bs ↔ b ∈ bs :=
  (sortDesc_perm bs).mem_iff

theorem length_sortDesc (bs : List Blk) : (sortDesc bs).length = bs.length :=
  (sortDesc_perm bs).length_eq

theorem insertDesc_sorted (b : Blk) (xs : List Blk) (h : SortedDesc xs) : SortedDesc (insertDesc b xs) := by
  induction xs with
  | nil => simp [insertDesc, SortedDesc]
  | cons x xs ih =>
    unfold SortedDesc at h ih ⊢
    rw [List.pairwise_cons] at h
    unfold insertDesc
    split
    · rename_i hle
      rw [List.pairwise_cons]
      refine ⟨?_, List.pairwise_cons.mpr h⟩
      intro y hy
      rcases List.mem_cons.mp hy with rfl | hy
      · exact hle
      · exact Int.le_trans (h.1 y hy) hle
    · rename_i hgt
      rw [List.pairwise_cons]
      refine ⟨?_, ih h.2⟩
      intro y hy
      have := (insertDesc_perm b xs).mem_iff.mp hy
      rcases List.mem_cons.mp this with rfl | hy
      · omega
      · exact h.1 y hy

theorem sortDesc_sorted (bs : List Blk) : SortedDesc (sortDesc bs) := by
  induction bs with
  | nil => simp [sortDesc, SortedDesc]
  | cons b bs ih => unfold sortDesc; exact insertDesc_sorted b _ ih

/-- In a descending list, everything in a suffix is at most as new as everything before it. -/
theorem sorted_take_drop {bs : List Blk} (h : SortedDesc bs) (n : Nat) {k d : Blk}
    (hk : k ∈ bs.take n) (hd : d ∈ bs.drop n) : d.maxt ≤ k.maxt := by
  unfold SortedDesc at h
  rw [← List.take_append_drop n bs, List.pairwise_append] at h
  exact h.2.2 k hk d hd

theorem mem_take_of_not_mem_drop {bs : List Blk} {n : Nat} {k : Blk} (hk : k ∈ bs) (hn : k ∉ bs.drop n) :
    k ∈ bs.take n := by
  rw [← List.take_append_drop n bs] at hk
  rcases List.mem_append.mp hk with h | h
  · exact h
  · exact absurd h hn

/-! ### newestMax -/

theorem foldmax_ge_init (i : Int) (xs : List Blk) : i ≤ xs.foldr (fun x m => max x.maxt m) i := by
  induction xs with
  | nil => simp
  | cons x xs ih => simp only [List.foldr_cons]; omega

theorem foldmax_ge_mem (i : Int) (xs : List Blk) (b : Blk) (hb : b ∈ xs) :
    b.maxt ≤ xs.foldr (fun x m => max x.maxt m) i := by
  induction xs with
  | nil => cases hb
  | cons x xs ih =>
    simp only [List.foldr_cons]
    rcases List.mem_cons.mp hb with rfl | hb
    · omega
    · have := ih hb; omega

theorem foldmax_attained (i : Int) (xs : List Blk) :
    xs.foldr (fun x m => max x.maxt m) i = i ∨ ∃ b ∈ xs, b.maxt = xs.foldr (fun x m => max x.maxt m) i := by
  induction xs with
  | nil => left; rfl
  | cons x xs ih =>
    simp only [List.foldr_cons]
    by_cases hx : List.foldr (fun x m => max x.maxt m) i xs ≤ x.maxt
    · right; exact ⟨x, List.mem_cons_self, by omega⟩
    · rcases ih with h | ⟨w, hw, hwe⟩
      · left; omega
      · right; exact ⟨w, List.mem_cons_of_mem _ hw, by omega⟩

theorem newestMax_cons (b0 : Blk) (rest : List Blk) :
    newestMax (b0 :: rest) = rest.foldr (fun x m => max x.maxt m) b0.maxt := rfl

theorem newestMax_ge (bs : List Blk) (b : Blk) (hb : b ∈ bs) : b.maxt ≤ newestMax bs := by
  cases bs with
  | nil => cases hb
  | cons b0 rest =>
    rw [newestMax_cons]
    rcases List.mem_cons.mp hb with rfl | hb
    · exact foldmax_ge_init _ _
    · exact foldmax_ge_mem _ _ _ hb

theorem newestMax_mem (bs : List Blk) (hne : bs ≠ []) : ∃ b ∈ bs, b.maxt = newestMax bs := by
  cases bs with
  | nil => exact absurd rfl hne
  | cons b0 rest =>
    rw [newestMax_cons]
    rcases foldmax_attained b0.maxt rest with h | ⟨w, hw, hwe⟩
    · exact ⟨b0, List.mem_cons_self, h.symm⟩
    · exact ⟨w, List.mem_cons_of_mem _ hw, hwe⟩

/-- The first element of a descending arrangement of `bs` carries `newestMax bs`. -/
theorem head_maxt_eq_newestMax {bs : List Blk} {b0 : Blk} {rest : List Blk}
    (hp : (b0 :: rest).Perm bs) (hs : SortedDesc (b0 :: rest)) : b0.maxt = newestMax bs := by
  have hne : bs ≠ [] := by
    intro h; subst h; exact absurd hp.length_eq (by simp)
  obtain ⟨w, hw, hwe⟩ := newestMax_mem bs hne
  have h1 : b0.maxt ≤ newestMax bs := newestMax_ge bs b0 (hp.mem_iff.mp List.mem_cons_self)
  have h2 : w.maxt ≤ b0.maxt := by
    rcases List.mem_cons.mp (hp.mem_iff.mpr hw) with rfl | hw'
    · exact Int.le_refl _
    · unfold SortedDesc at hs
      exact (List.pairwise_cons.mp hs).1 w hw'
  omega

/-! ### BeyondTimeRetention -/

theorem timeCut_suffix (R n : Int) (xs : List Blk) : ∃ k, k ≤ xs.length ∧ timeCut R n xs = xs.drop k := by
  induction xs with
  | nil => exact ⟨0, by simp, rfl⟩
  | cons x xs ih =>
    unfold timeCut
    split
    · exact ⟨0, by simp, rfl⟩
    · obtain ⟨k, hk, he⟩ := ih
      exact ⟨k + 1, by simp; omega, by simpa using he⟩

theorem beyondTime_suffix (R : Int) (bs : List Blk) : ∃ k, k ≤ bs.length ∧ beyondTime R bs = bs.drop k := by
  cases bs with
  | nil => exact ⟨0, by simp, rfl⟩
  | cons b0 rest =>
    by_cases hR : R = 0
    · exact ⟨rest.length + 1, by simp, by simp [beyondTime, hR]⟩
    · obtain ⟨k, hk, he⟩ := timeCut_suffix R b0.maxt rest
      exact ⟨k + 1, by simp; omega, by simp [beyondTime, hR, he]⟩

theorem mem_timeCut (R n : Int) (xs : List Blk) (hs : SortedDesc xs) (hr : ∀ x ∈ xs, I64 (n - x.maxt)) (b : Blk) :
    b ∈ timeCut R n xs ↔ b ∈ xs ∧ n - b.maxt ≥ R := by
  induction xs with
  | nil => simp [timeCut]
  | cons x xs ih =>
    unfold SortedDesc at hs ih
    have hs' := List.pairwise_cons.mp hs
    have hx : wrap64 (n - x.maxt) = n - x.maxt := wrap64_of_I64 (hr x List.mem_cons_self)
    unfold timeCut
    rw [hx]
    split
    · rename_i hge
      constructor
      · intro hb
        refine ⟨hb, ?_⟩
        rcases List.mem_cons.mp hb with rfl | hb
        · exact hge
        · have := hs'.1 b hb; omega
      · exact fun h => h.1
    · rename_i hlt
      rw [ih hs'.2 (fun y hy => hr y (List.mem_cons_of_mem _ hy))]
      constructor
      · exact fun h => ⟨List.mem_cons_of_mem _ h.1, h.2⟩
      · intro h
        rcases List.mem_cons.mp h.1 with rfl | hb
        · exact absurd h.2 hlt
        · exact ⟨hb, h.2⟩

/-! ### BeyondSizeRetention -/

@[simp] theorem sumSizes_nil : sumSizes [] = 0 := rfl
@[simp] theorem sumSizes_cons (b : Blk) (bs : List Blk) : sumSizes (b :: bs) = b.size + sumSizes bs := rfl

theorem sumSizes_nonneg (bs : List Blk) (h : ∀ b ∈ bs, 0 ≤ b.size) : 0 ≤ sumSizes bs := by
  induction bs with
  | nil => simp
  | cons b bs ih =>
    have := ih (fun x hx => h x (List.mem_cons_of_mem _ hx))
    have := h b List.mem_cons_self
    simp; omega

theorem sumSizes_take_le (bs : List Blk) (h : ∀ b ∈ bs, 0 ≤ b.size) (j : Nat) :
    sumSizes (bs.take j) ≤ sumSizes bs := by
  induction bs generalizing j with
  | nil => simp
  | cons b bs ih =>
    cases j with
    | zero =>
      have := sumSizes_nonneg (b :: bs) h
      simpa using this
    | succ j =>
      have := ih (fun x hx => h x (List.mem_cons_of_mem _ hx)) j
      simp; omega

theorem sizeCut_suffix (limit acc : Int) (xs : List Blk) : ∃ k, k ≤ xs.length ∧ sizeCut limit acc xs = xs.drop k := by
  induction xs generalizing acc with
  | nil => exact ⟨0, by simp, rfl⟩
  | cons x xs ih =>
    unfold sizeCut
    simp only
    split
    · exact ⟨0, by simp, rfl⟩
    · obtain ⟨k, hk, he⟩ := ih (wrap64 (acc + x.size))
      exact ⟨k + 1, by simp; omega, by simpa using he⟩

theorem beyondSize_suffix (s : Settings) (bs : List Blk) : ∃ k, k ≤ bs.length ∧ beyondSize s bs = bs.drop k := by
  unfold beyondSize
  split
  · exact ⟨bs.length, by simp, by simp⟩
  · exact sizeCut_suffix _ _ _

/-- The cut position of the size loop: the kept prefix is the longest one whose cumulative size
    (starting from `acc`) stays within the limit. -/
theorem sizeCut_exact (limit acc : Int) (xs : List Blk) (hacc : 0 ≤ acc) (hnn : ∀ b ∈ xs, 0 ≤ b.size)
    (hov : acc + sumSizes xs < two63) :
    ∃ k, k ≤ xs.length ∧ sizeCut limit acc xs = xs.drop k ∧
      ∀ j, 1 ≤ j → j ≤ xs.length → (acc + sumSizes (xs.take j) ≤ limit ↔ j ≤ k) := by
  induction xs generalizing acc with
  | nil => exact ⟨0, by simp, rfl, by intro j h1 h2; simp at h2; omega⟩
  | cons x xs ih =>
    have hx0 : 0 ≤ x.size := hnn x List.mem_cons_self
    have hnn' : ∀ b ∈ xs, 0 ≤ b.size := fun b hb => hnn b (List.mem_cons_of_mem _ hb)
    have hs0 : 0 ≤ sumSizes xs := sumSizes_nonneg xs hnn'
    simp only [sumSizes_cons] at hov
    have hw : wrap64 (acc + x.size) = acc + x.size := by
      apply wrap64_of_I64; unfold I64 two63; unfold two63 at hov; omega
    unfold sizeCut
    simp only [hw]
    split
    · rename_i hgt
      refine ⟨0, by simp, rfl, ?_⟩
      intro j h1 _
      obtain ⟨j', rfl⟩ : ∃ j', j = j' + 1 := ⟨j - 1, by omega⟩
      have : 0 ≤ sumSizes (xs.take j') := sumSizes_nonneg _ (fun b hb => hnn' b (List.mem_of_mem_take hb))
      simp; omega
    · rename_i hle
      obtain ⟨k, hk, he, hj⟩ := ih (acc + x.size) (by omega) hnn' (by omega)
      refine ⟨k + 1, by simp; omega, by simpa using he, ?_⟩
      intro j h1 h2
      obtain ⟨j', rfl⟩ : ∃ j', j = j' + 1 := ⟨j - 1, by omega⟩
      cases j' with
      | zero => simp; omega
      | succ j'' =>
        have := hj (j'' + 1) (by omega) (by simp at h2; omega)
        simp only [List.take_succ_cons, sumSizes_cons]
        rw [show acc + (x.size + sumSizes (List.take (j'' + 1) xs)) = acc + x.size + sumSizes (List.take (j'' + 1) xs) by omega]
        rw [this]; omega

end Prom.Retention
