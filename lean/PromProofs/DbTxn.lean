import PromProofs.DbQuery
/-
  C01 refinement, transactions: begin / append / commit / rollback preserve `Inv`, `LastVis`, `Sim`.
-/
namespace Prom.Db
open Prom.Intervals

/-! ### getSeries / setSeries -/

theorem getSeries_cases (d : Db) (i : Nat) :
    (d.getSeries i ∈ d.series ∧ (d.getSeries i).idx = i) ∨
    ((∀ s ∈ d.series, s.idx ≠ i) ∧ d.getSeries i = ⟨i, [], []⟩) := by
  unfold Db.getSeries
  cases h : d.series.find? (fun s => decide (s.idx = i)) with
  | none =>
    right
    rw [List.find?_eq_none] at h
    exact ⟨fun s hs => by simpa using h s hs, rfl⟩
  | some s =>
    left
    have h1 := List.mem_of_find?_eq_some h
    have h2 := List.find?_some h
    exact ⟨h1, by simpa using h2⟩

theorem getSeries_idx (d : Db) (i : Nat) : (d.getSeries i).idx = i := by
  rcases getSeries_cases d i with h | h
  · exact h.2
  · rw [h.2]

theorem eq_of_idx_eq {l : List HSeries} (h : l.Pairwise (fun s s' => s.idx ≠ s'.idx))
    {s u : HSeries} (hs : s ∈ l) (hu : u ∈ l) (e : s.idx = u.idx) : s = u := by
  induction l with
  | nil => simp at hs
  | cons a as ih =>
    rw [List.pairwise_cons] at h
    rw [List.mem_cons] at hs hu
    rcases hs with hs | hs <;> rcases hu with hu | hu
    · rw [hs, hu]
    · subst hs; exact absurd e (h.1 u hu)
    · subst hu; exact absurd e.symm (h.1 s hs)
    · exact ih h.2 hs hu

theorem getSeries_of_mem {d : Db} (h : d.series.Pairwise (fun s s' => s.idx ≠ s'.idx))
    {s : HSeries} (hs : s ∈ d.series) : d.getSeries s.idx = s := by
  rcases getSeries_cases d s.idx with h1 | h1
  · exact eq_of_idx_eq h h1.1 hs h1.2
  · exact absurd rfl (h1.1 s hs)

theorem mem_setSeries (d : Db) (s t : HSeries) :
    t ∈ (d.setSeries s).series ↔ t = s ∨ (t ∈ d.series ∧ t.idx ≠ s.idx) := by
  unfold Db.setSeries
  split
  · rename_i hany
    simp only [List.any_eq_true, decide_eq_true_eq] at hany
    obtain ⟨u0, hu0, hu0i⟩ := hany
    simp only [List.mem_map]
    constructor
    · rintro ⟨u, hu, rfl⟩
      split
      · left; rfl
      · right; exact ⟨hu, by assumption⟩
    · rintro (rfl | ⟨ht, hne⟩)
      · exact ⟨u0, hu0, by simp [hu0i]⟩
      · exact ⟨t, ht, by simp [hne]⟩
  · rename_i hany
    simp only [List.any_eq_true, decide_eq_true_eq, not_exists, not_and] at hany
    simp only [List.mem_append, List.mem_singleton]
    constructor
    · rintro (h | h)
      · right; exact ⟨h, hany t h⟩
      · left; exact h
    · rintro (h | h)
      · right; exact h
      · left; exact h.1

theorem nodup_setSeries {d : Db} (h : d.series.Pairwise (fun s s' => s.idx ≠ s'.idx)) (s : HSeries) :
    (d.setSeries s).series.Pairwise (fun s s' => s.idx ≠ s'.idx) := by
  unfold Db.setSeries
  split
  · simp only
    rw [List.pairwise_map]
    apply h.imp
    intro a b hab
    split <;> split <;> simp_all
  · rename_i hany
    simp only [List.any_eq_true, decide_eq_true_eq, not_exists, not_and] at hany
    simp only
    rw [List.pairwise_append]
    refine ⟨h, by simp, ?_⟩
    intro a ha b hb
    simp at hb; subst hb; exact hany a ha

@[simp] theorem setSeries_blocks (d : Db) (s : HSeries) : (d.setSeries s).blocks = d.blocks := by
  unfold Db.setSeries; split <;> rfl
@[simp] theorem setSeries_minT (d : Db) (s : HSeries) : (d.setSeries s).minT = d.minT := by
  unfold Db.setSeries; split <;> rfl
@[simp] theorem setSeries_maxT (d : Db) (s : HSeries) : (d.setSeries s).maxT = d.maxT := by
  unfold Db.setSeries; split <;> rfl
@[simp] theorem setSeries_minValid (d : Db) (s : HSeries) : (d.setSeries s).minValid = d.minValid := by
  unfold Db.setSeries; split <;> rfl
@[simp] theorem setSeries_cfg (d : Db) (s : HSeries) : (d.setSeries s).cfg = d.cfg := by
  unfold Db.setSeries; split <;> rfl
@[simp] theorem setSeries_app (d : Db) (s : HSeries) : (d.setSeries s).app = d.app := by
  unfold Db.setSeries; split <;> rfl
@[simp] theorem setSeries_wal (d : Db) (s : HSeries) : (d.setSeries s).wal = d.wal := by
  unfold Db.setSeries; split <;> rfl

/-! ### Ref.get / Ref.set -/

theorem Ref.get_set (r : Ref) (i j : Nat) (xs : List Smp) :
    (r.set i xs).get j = if j = i then xs else r.get j := by
  unfold Ref.set Ref.get
  split
  · rename_i hany
    simp only
    have : ∀ (l : List (Nat × List Smp)), l.any (fun p => decide (p.1 = i)) = true ∨ j ≠ i →
        ((l.map fun p => if p.1 = i then (i, xs) else p).find? (fun p => decide (p.1 = j))).map (·.2)
          = if j = i then some xs else (l.find? (fun p => decide (p.1 = j))).map (·.2) := by
      intro l
      induction l with
      | nil => intro h; rcases h with h | h <;> simp_all
      | cons p ps ih =>
        intro h
        simp only [List.map_cons, List.find?_cons]
        by_cases hpi : p.1 = i
        · by_cases hji : j = i
          · simp [hpi, hji]
          · have : ¬ i = j := fun e => hji e.symm
            simp only [hpi, if_true, this, decide_false, hji, if_false]
            have := ih (Or.inr hji)
            simp only [hji, if_false] at this
            exact this
        · by_cases hpj : p.1 = j
          · have hji : j ≠ i := by rw [← hpj]; exact hpi
            simp [hpi, hpj, hji]
          · simp only [hpi, if_false, hpj, decide_false]
            apply ih
            rcases h with h | h
            · left; simpa [hpi] using h
            · right; exact h
    rw [this r.store (Or.inl hany)]
    split <;> rfl
  · rename_i hany
    simp only [List.any_eq_true, decide_eq_true_eq, not_exists, not_and] at hany
    simp only [List.find?_append]
    by_cases hji : j = i
    · subst hji
      have : r.store.find? (fun p => decide (p.1 = j)) = none := by
        rw [List.find?_eq_none]; intro p hp; simpa using hany p hp
      simp [this]
    · have : ¬ i = j := fun e => hji e.symm
      simp [hji, this]

@[simp] theorem Ref.set_pending (r : Ref) (i : Nat) (xs : List Smp) : (r.set i xs).pending = r.pending := by
  unfold Ref.set; split <;> rfl
@[simp] theorem Ref.set_open (r : Ref) (i : Nat) (xs : List Smp) : (r.set i xs).open_ = r.open_ := by
  unfold Ref.set; split <;> rfl

/-! ### commit -/

def commitStep (a : App) (acc : Db × Int × Int) (p : Nat × Smp) : Db × Int × Int :=
  let (s', stored) := commitOne (acc.1.getSeries p.1) p.2 a acc.1.cfg.oooWin
  if stored then (acc.1.setSeries s', min acc.2.1 p.2.t, max acc.2.2 p.2.t) else acc

def refStep (r : Ref) (p : Nat × Smp) : Ref :=
  match (r.get p.1).getLast? with
  | some l => if l.t ≥ p.2.t then r else r.set p.1 (r.get p.1 ++ [p.2])
  | none => r.set p.1 [p.2]

theorem Ref.commit_eq (r : Ref) : r.commit = { r.pending.foldl refStep r with pending := [], open_ := false } := rfl

theorem Db.commit_some (d : Db) (a : App) (h : d.app = some a) (hb : a.batch ≠ []) :
    d.commit =
      (let acc := a.batch.foldl (commitStep a) ({ d with wal := d.wal ++ [Rec.samples a.batch] }, MaxI64, MinI64)
       ({ acc.1 with minT := if acc.2.1 < acc.1.minT then acc.2.1 else acc.1.minT,
                     maxT := if acc.2.2 > acc.1.maxT then acc.2.2 else acc.1.maxT, app := none }, .ok ())) := by
  unfold Db.commit
  rw [h]
  have : a.batch.isEmpty = false := by cases hh : a.batch <;> simp_all
  simp only [this]
  rfl

theorem commitOne_stored (s : HSeries) (x : Smp) (a : App) (hge : a.minValid ≤ x.t)
    (hl : ∀ l, s.phys.getLast? = some l → l.t < x.t) :
    commitOne s x a 0 = ({ s with phys := s.phys ++ [x] }, true) := by
  unfold commitOne appendable
  cases h : s.phys.getLast? with
  | none =>
    have : s.phys = [] := by simpa using h
    simp [hge, this]
  | some l =>
    have := hl l h
    have h1 : x.t > l.t := by omega
    have h2 : ¬ l.t ≥ x.t := by omega
    simp [hge, h1, h2]

theorem commitOne_skipped (s : HSeries) (x : Smp) (a : App) (ow : Int) (l : Smp)
    (hl : s.phys.getLast? = some l) (hle : x.t ≤ l.t) :
    commitOne s x a ow = (s, false) := by
  unfold commitOne
  split
  · rw [hl]; simp [hle]
  · rfl

theorem visible_of_maxt_lt {tombs : Intervals} {x : Smp} (h : ∀ iv ∈ tombs, iv.maxt < x.t) :
    visible tombs x = true := by
  simp only [visible, coversB, Bool.not_eq_true', List.any_eq_false, decide_eq_true_eq]
  intro iv hiv hc
  have := h iv hiv; omega

/-- Membership after appending one sample to series `i`. -/
theorem mem_setSeries_append {d : Db} (hn : d.series.Pairwise (fun s s' => s.idx ≠ s'.idx))
    (hne : ∀ u ∈ d.series, u.phys ≠ []) (i : Nat) (x : Smp)
    (hv : visible (d.getSeries i).tombs x = true) (j : Nat) (z : Smp) :
    (d.setSeries { d.getSeries i with phys := (d.getSeries i).phys ++ [x] }).mem j z ↔
      d.mem j z ∨ (j = i ∧ z = x) := by
  have hidx := getSeries_idx d i
  unfold Db.mem
  simp only [setSeries_blocks]
  constructor
  · rintro (⟨t, ht, hti, hz, hvz⟩ | hb)
    · rw [mem_setSeries] at ht
      rcases ht with rfl | ⟨ht, hne'⟩
      · simp only at hti hz hvz
        rw [hidx] at hti
        rw [List.mem_append] at hz
        rcases hz with hz | hz
        · left; left
          rcases getSeries_cases d i with hc | hc
          · exact ⟨_, hc.1, hti ▸ hc.2, hz, hvz⟩
          · rw [hc.2] at hz; simp at hz
        · right; simp at hz; exact ⟨hti.symm, hz⟩
      · left; left; exact ⟨t, ht, hti, hz, hvz⟩
    · left; right; exact hb
  · rintro ((⟨u, hu, hui, hz, hvz⟩ | hb) | ⟨rfl, rfl⟩)
    · left
      by_cases e : u.idx = i
      · have hu' : d.getSeries i = u := by rw [← e]; exact getSeries_of_mem hn hu
        refine ⟨_, (mem_setSeries _ _ _).2 (Or.inl rfl), ?_, ?_, ?_⟩
        · simp only; rw [hidx, ← hui, e]
        · simp only; rw [hu']; simp [hz]
        · simp only; rw [hu']; exact hvz
      · refine ⟨u, ?_, hui, hz, hvz⟩
        rw [mem_setSeries]; right
        exact ⟨hu, by simp only; rw [hidx]; exact e⟩
    · right; exact hb
    · left
      refine ⟨_, (mem_setSeries _ _ _).2 (Or.inl rfl), ?_, ?_, ?_⟩
      · simp only; exact hidx
      · simp
      · exact hv

end Prom.Db
