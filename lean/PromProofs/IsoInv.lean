import PromProofs.IsoSeries
/-
  C05 helper lemmas: the global invariant of the isolation transition system and its preservation by
  every action.
-/
namespace Prom.Iso

/-- `b` is a safe trimming bound in `σ`: every id below `b` belongs to a finished append and is visible
    to every open reader, and will be to every future one. -/
def Safe (σ : St) (b : Nat) : Prop :=
  (∀ kr ∈ σ.readers, b ≤ kr.2.lw) ∧ (∀ i ∈ σ.opens.map (·.id), b ≤ i) ∧ b ≤ σ.last

theorem Safe.mono {σ : St} {b c : Nat} (h : Safe σ b) (hc : c ≤ b) : Safe σ c :=
  ⟨fun kr hk => Nat.le_trans hc (h.1 kr hk), fun a ha => Nat.le_trans hc (h.2.1 a ha), Nat.le_trans hc h.2.2⟩

structure ReaderOK (σ : St) (r : Reader) : Prop where
  lw_le_max : r.lw ≤ r.max
  max_le : r.max ≤ σ.last
  inc_ge : ∀ x ∈ r.incomplete, r.lw ≤ x
  opens_ge : ∀ i ∈ σ.opens.map (·.id), r.lw ≤ i
  opens_inc : ∀ i ∈ σ.opens.map (·.id), i ≤ r.max → i ∈ r.incomplete

/-- Ids below a reader's low watermark pass its visibility test. -/
theorem ReaderOK.vis_below {σ : St} {r : Reader} (h : ReaderOK σ r) {x : Nat} (hx : x < r.lw) : r.vis x = true := by
  unfold Reader.vis
  have h1 := h.lw_le_max
  simp only [Bool.and_eq_true, decide_eq_true_eq, Bool.not_eq_eq_eq_not, Bool.not_true]
  refine ⟨by omega, ?_⟩
  cases hc : r.incomplete.contains x with
  | false => rfl
  | true =>
    have := h.inc_ge x (by simpa using hc)
    omega

structure Inv (σ : St) : Prop where
  opens_sorted : (σ.opens.map (·.id)).Pairwise (· < ·)
  opens_le : ∀ i ∈ σ.opens.map (·.id), 1 ≤ i ∧ i ≤ σ.last
  cb_safe : ∀ c ∈ σ.opens.map (·.cleanupBelow), Safe σ c
  readers_ok : ∀ kr ∈ σ.readers, ReaderOK σ kr.2
  readers_sorted : σ.readers.Pairwise (fun x y => x.2.lw ≤ y.2.lw)
  series_wf : ∀ s, s < σ.series.length → (σ.ser s).WF
  untracked_safe : ∀ s, s < σ.series.length → ∀ x ∈ (σ.ser s).untracked, Safe σ (x.id + 1)
  ids_le : ∀ s, s < σ.series.length → ∀ x ∈ (σ.ser s).samples, x.id ≤ σ.last

/-! ### state accessors -/

theorem ser_setSer_same (σ : St) (s : Nat) (x : Series) (h : s < σ.series.length) : (σ.setSer s x).ser s = x := by
  simp [St.setSer, St.ser, List.getD_eq_getElem?_getD, h]

theorem ser_setSer_ne (σ : St) (s s' : Nat) (x : Series) (h : s ≠ s') : (σ.setSer s x).ser s' = σ.ser s' := by
  simp [St.setSer, St.ser, List.getD_eq_getElem?_getD, List.getElem?_set_ne h]

theorem setSer_length (σ : St) (s : Nat) (x : Series) : (σ.setSer s x).series.length = σ.series.length := by
  simp [St.setSer]

theorem app?_some {σ : St} {id : Nat} {a : App} (h : σ.app? id = some a) : a ∈ σ.opens ∧ a.id = id := by
  unfold St.app? at h
  exact ⟨List.mem_of_find?_eq_some h, by simpa using List.find?_some h⟩

theorem reader?_some {σ : St} {key : Nat} {r : Reader} (h : σ.reader? key = some r) : (key, r) ∈ σ.readers := by
  unfold St.reader? at h
  simp only [Option.map_eq_some_iff] at h
  obtain ⟨kr, hk, rfl⟩ := h
  have h1 := List.mem_of_find?_eq_some hk
  have h2 : kr.1 = key := by simpa using List.find?_some hk
  rw [← h2]; exact h1

/-! ### the low watermark is a safe bound -/

theorem lowWatermark_safe {σ : St} (h : Inv σ) : Safe σ σ.lowWatermark := by
  unfold St.lowWatermark
  match hr : σ.readers with
  | (k, r) :: rest =>
    have hs := h.readers_sorted
    have hok := h.readers_ok (k, r) (by rw [hr]; simp)
    rw [hr] at hs
    refine ⟨?_, ?_, ?_⟩
    · intro kr hk
      rw [hr] at hk
      rcases List.mem_cons.mp hk with hk | hk
      · subst hk; exact Nat.le_refl _
      · exact (List.pairwise_cons.mp hs).1 kr hk
    · exact hok.opens_ge
    · exact Nat.le_trans hok.lw_le_max hok.max_le
  | [] =>
    match ho : σ.opens with
    | a :: rest =>
      have hs := h.opens_sorted
      rw [ho] at hs
      simp only [List.map_cons] at hs
      refine ⟨by simp [hr], ?_, ?_⟩
      · intro b hb
        rw [ho] at hb
        simp only [List.map_cons] at hb
        rcases List.mem_cons.mp hb with hb | hb
        · subst hb; exact Nat.le_refl _
        · exact Nat.le_of_lt ((List.pairwise_cons.mp hs).1 b hb)
      · exact (h.opens_le a.id (by rw [ho]; simp)).2
    | [] => exact ⟨by simp [hr], by simp [ho], Nat.le_refl _⟩

/-! ### transfer lemmas -/

theorem Safe.transfer {σ σ' : St} {b : Nat} (hr : σ'.readers = σ.readers)
    (ho : σ'.opens.map (·.id) = σ.opens.map (·.id)) (hl : σ'.last = σ.last) (h : Safe σ b) : Safe σ' b := by
  unfold Safe at *
  rw [hr, ho, hl]; exact h

/-- Closing appenders/readers only removes constraints. -/
theorem Safe.weaken {σ σ' : St} {b : Nat} (hr : σ'.readers.Sublist σ.readers)
    (ho : σ'.opens.Sublist σ.opens) (hl : σ.last ≤ σ'.last) (h : Safe σ b) : Safe σ' b := by
  refine ⟨fun kr hk => h.1 kr (hr.subset hk), fun i hi => h.2.1 i ((ho.map _).subset hi), Nat.le_trans h.2.2 hl⟩

theorem Inv.setSer {σ : St} (h : Inv σ) (k : Nat) (x : Series) (hk : k < σ.series.length) (hwf : x.WF)
    (hun : ∀ y ∈ x.untracked, Safe σ (y.id + 1)) (hid : ∀ y ∈ x.samples, y.id ≤ σ.last) : Inv (σ.setSer k x) := by
  have tr : ∀ b, Safe σ b → Safe (σ.setSer k x) b := fun b hb => Safe.transfer rfl rfl rfl hb
  refine ⟨h.opens_sorted, h.opens_le, fun c hc => tr _ (h.cb_safe c hc), ?_, h.readers_sorted, ?_, ?_, ?_⟩
  · intro kr hkr
    have := h.readers_ok kr hkr
    exact ⟨this.lw_le_max, this.max_le, this.inc_ge, this.opens_ge, this.opens_inc⟩
  · intro s hs
    rw [setSer_length] at hs
    by_cases e : k = s
    · subst e; rw [ser_setSer_same _ _ _ hk]; exact hwf
    · rw [ser_setSer_ne _ _ _ _ e]; exact h.series_wf s hs
  · intro s hs
    rw [setSer_length] at hs
    by_cases e : k = s
    · subst e; rw [ser_setSer_same _ _ _ hk]; exact fun y hy => tr _ (hun y hy)
    · rw [ser_setSer_ne _ _ _ _ e]; exact fun y hy => tr _ (h.untracked_safe s hs y hy)
  · intro s hs
    rw [setSer_length] at hs
    by_cases e : k = s
    · subst e; rw [ser_setSer_same _ _ _ hk]; exact hid
    · rw [ser_setSer_ne _ _ _ _ e]; exact h.ids_le s hs

theorem Inv.updOpens {σ : St} (h : Inv σ) (opens' : List App)
    (hid : opens'.map (·.id) = σ.opens.map (·.id))
    (hcb : opens'.map (·.cleanupBelow) = σ.opens.map (·.cleanupBelow)) : Inv { σ with opens := opens' } := by
  have tr : ∀ b, Safe σ b → Safe { σ with opens := opens' } b := fun b hb => Safe.transfer (σ := σ) (σ' := { σ with opens := opens' }) rfl hid rfl hb
  refine ⟨by simpa [hid] using h.opens_sorted, by simpa [hid] using h.opens_le, ?_, ?_, h.readers_sorted, h.series_wf,
    fun s hs y hy => tr _ (h.untracked_safe s hs y hy), h.ids_le⟩
  · intro c hc
    simp only [hcb] at hc
    exact tr _ (h.cb_safe c hc)
  · intro kr hkr
    have := h.readers_ok kr hkr
    exact ⟨this.lw_le_max, this.max_le, this.inc_ge, by simpa [hid] using this.opens_ge, by simpa [hid] using this.opens_inc⟩

theorem Inv.weaken {σ : St} (h : Inv σ) (opens' : List App) (readers' : List (Nat × Reader))
    (ho : opens'.Sublist σ.opens) (hr : readers'.Sublist σ.readers) :
    Inv { σ with opens := opens', readers := readers' } := by
  have tr : ∀ b, Safe σ b → Safe { σ with opens := opens', readers := readers' } b :=
    fun b hb => Safe.weaken hr ho (Nat.le_refl _) hb
  refine ⟨h.opens_sorted.sublist (ho.map _), fun i hi => h.opens_le i ((ho.map _).subset hi),
    fun c hc => tr _ (h.cb_safe c ((ho.map _).subset hc)), ?_, h.readers_sorted.sublist hr, h.series_wf,
    fun s hs y hy => tr _ (h.untracked_safe s hs y hy), h.ids_le⟩
  intro kr hkr
  have := h.readers_ok kr (hr.subset hkr)
  exact ⟨this.lw_le_max, this.max_le, this.inc_ge, fun i hi => this.opens_ge i ((ho.map _).subset hi),
    fun i hi => this.opens_inc i ((ho.map _).subset hi)⟩

/-! ### preservation -/

theorem inv_init (n : Nat) : Inv (init n) := by
  refine ⟨by simp [init], by simp [init], by simp [init], by simp [init], by simp [init], ?_, ?_, ?_⟩
  all_goals
    intro s hs
    have : (init n).ser s = {} := by
      simp only [init, St.ser, List.length_replicate] at *
      simp [List.getD_eq_getElem?_getD, List.getElem?_replicate, hs]
    rw [this]
  · exact ⟨TxRing.wf_empty, rfl, Nat.le_refl _, rfl⟩
  · intro x hx; simp [Series.untracked] at hx
  · intro x hx; simp at hx

theorem Series.cleanup_inv {σ : St} (x : Series) (b : Nat) (hwf : x.WF) (hb : Safe σ b)
    (hun : ∀ y ∈ x.untracked, Safe σ (y.id + 1)) (hid : ∀ y ∈ x.samples, y.id ≤ σ.last) :
    (x.cleanup b).WF ∧ (∀ y ∈ (x.cleanup b).untracked, Safe σ (y.id + 1)) ∧ (∀ y ∈ (x.cleanup b).samples, y.id ≤ σ.last) := by
  refine ⟨x.cleanup_wf b hwf, ?_, hid⟩
  intro y hy
  rcases x.cleanup_untracked b hwf y hy with h | h
  · exact hun y h
  · exact hb.mono (by omega)

theorem inv_step {σ σ' : St} {act : Act} (h : Inv σ) (hs : step σ act = some σ') : Inv σ' := by
  cases act with
  | cut s =>
    simp only [step] at hs
    split at hs
    · rename_i hlt
      cases hs
      exact h.setSer s _ hlt ((σ.ser s).cut_wf (h.series_wf s hlt)) (h.untracked_safe s hlt) (h.ids_le s hlt)
    · cases hs
  | mmap s =>
    simp only [step] at hs
    split at hs
    · rename_i hlt
      cases hs
      refine h.setSer s _ hlt ((σ.ser s).mmap_wf (h.series_wf s hlt)) ?_ ?_
      · have : (σ.ser s).mmapChunks.untracked = (σ.ser s).untracked := by
          unfold Series.mmapChunks; split <;> rfl
        rw [this]; exact h.untracked_safe s hlt
      · have : (σ.ser s).mmapChunks.samples = (σ.ser s).samples := by
          unfold Series.mmapChunks; split <;> rfl
        rw [this]; exact h.ids_le s hlt
    · cases hs
  | cleanup id s =>
    simp only [step] at hs
    split at hs
    · cases hs
    · rename_i a ha
      split at hs
      · rename_i hlt
        cases hs
        have hcb := h.cb_safe a.cleanupBelow (List.mem_map_of_mem (app?_some ha).1)
        obtain ⟨h1, h2, h3⟩ := Series.cleanup_inv (σ := σ) (σ.ser s) a.cleanupBelow (h.series_wf s hlt) hcb
          (h.untracked_safe s hlt) (h.ids_le s hlt)
        exact h.setSer s _ hlt h1 h2 h3
      · cases hs
  | commitNext id =>
    simp only [step] at hs
    split at hs
    · cases hs
    · rename_i a ha
      split at hs
      · cases hs
      · rename_i p rest hp
        split at hs
        · rename_i hlt
          cases hs
          have hmem := (app?_some ha).1
          have haid := (app?_some ha).2
          have hcb := h.cb_safe a.cleanupBelow (List.mem_map_of_mem hmem)
          have hidle := h.opens_le a.id (List.mem_map_of_mem hmem)
          rw [haid] at hidle
          -- the series after the (possible) append
          have hser1 : ∀ ser1 : Series, ser1 = (if (σ.ser p.s).inOrder p.t then (σ.ser p.s).append ⟨p.t, p.v, id⟩ else σ.ser p.s) →
              ser1.WF ∧ (∀ y ∈ ser1.untracked, Safe σ (y.id + 1)) ∧ (∀ y ∈ ser1.samples, y.id ≤ σ.last) := by
            intro ser1 he
            split at he
            · subst he
              refine ⟨(σ.ser p.s).append_wf _ (h.series_wf _ hlt) hidle.1, ?_, ?_⟩
              · rw [(σ.ser p.s).append_untracked ⟨p.t, p.v, id⟩ (h.series_wf _ hlt) hidle.1]; exact h.untracked_safe _ hlt
              · intro y hy
                have : y ∈ (σ.ser p.s).samples ++ [⟨p.t, p.v, id⟩] := hy
                rcases List.mem_append.mp this with hy | hy
                · exact h.ids_le _ hlt y hy
                · simp at hy; subst hy; exact hidle.2
            · subst he; exact ⟨h.series_wf _ hlt, h.untracked_safe _ hlt, h.ids_le _ hlt⟩
          obtain ⟨w1, w2, w3⟩ := hser1 _ rfl
          obtain ⟨h1, h2, h3⟩ := Series.cleanup_inv (σ := σ) _ a.cleanupBelow w1 hcb w2 w3
          have hI := h.setSer p.s _ hlt h1 h2 h3
          refine hI.updOpens _ ?_ ?_
          · show List.map (fun a : App => a.id) (σ.opens.map _) = List.map (fun a : App => a.id) σ.opens
            rw [List.map_map]; apply List.map_congr_left; intro b _; simp only [Function.comp]; split <;> rfl
          · show List.map (fun a : App => a.cleanupBelow) (σ.opens.map _) = List.map (fun a : App => a.cleanupBelow) σ.opens
            rw [List.map_map]; apply List.map_congr_left; intro b _; simp only [Function.comp]; split <;> rfl
        · cases hs
  | closeAppend id =>
    simp only [step] at hs
    split at hs
    · cases hs
    · cases hs
      exact h.weaken _ _ List.filter_sublist (List.Sublist.refl _)
  | closeReader key =>
    simp only [step] at hs
    split at hs
    · cases hs
      exact h.weaken _ _ (List.Sublist.refl _) List.filter_sublist
    · cases hs
  | newAppender pending =>
    simp only [step] at hs
    cases hs
    have hlw := lowWatermark_safe h
    -- ids of the open list after the insertion
    have hids : ∀ c, List.map (·.id) (σ.opens ++ [(⟨σ.last + 1, c, pending⟩ : App)]) = σ.opens.map (·.id) ++ [σ.last + 1] := by
      intro c; simp
    have trS : ∀ b c, Safe σ b → Safe { σ with last := σ.last + 1, opens := σ.opens ++ [(⟨σ.last + 1, c, pending⟩ : App)] } b := by
      intro b c hb
      refine ⟨hb.1, ?_, Nat.le_succ_of_le hb.2.2⟩
      intro i hi
      simp only [hids, List.mem_append, List.mem_singleton] at hi
      rcases hi with hi | hi
      · exact hb.2.1 i hi
      · have := hb.2.2; omega
    -- the bound handed to the new appender
    have hnew : Safe { σ with last := σ.last + 1, opens := σ.opens ++ [(⟨σ.last + 1,
        (St.lowWatermark { σ with last := σ.last + 1, opens := σ.opens ++ [(⟨σ.last + 1, 0, pending⟩ : App)] }), pending⟩ : App)] }
        (St.lowWatermark { σ with last := σ.last + 1, opens := σ.opens ++ [(⟨σ.last + 1, 0, pending⟩ : App)] }) := by
      unfold St.lowWatermark
      match hr : σ.readers with
      | (k, r) :: rest =>
        simp only [hr]
        have := trS r.lw (St.lowWatermark { σ with last := σ.last + 1, opens := σ.opens ++ [(⟨σ.last + 1, 0, pending⟩ : App)] })
          (by have := hlw; unfold St.lowWatermark at this; simpa [hr] using this)
        simpa [St.lowWatermark, hr] using this
      | [] =>
        match ho : σ.opens with
        | a :: rest =>
          simp only [hr, ho, List.cons_append]
          have := trS a.id (St.lowWatermark { σ with last := σ.last + 1, opens := σ.opens ++ [(⟨σ.last + 1, 0, pending⟩ : App)] })
            (by have := hlw; unfold St.lowWatermark at this; simpa [hr, ho] using this)
          simpa [St.lowWatermark, hr, ho] using this
        | [] =>
          simp only [hr, ho, List.nil_append]
          refine ⟨by simp [hr], by simp, Nat.le_refl _⟩
    refine ⟨?_, ?_, ?_, ?_, h.readers_sorted, h.series_wf, fun s hs y hy => trS _ _ (h.untracked_safe s hs y hy),
      fun s hs y hy => Nat.le_succ_of_le (h.ids_le s hs y hy)⟩
    · show (List.map (·.id) (σ.opens ++ [_])).Pairwise (· < ·)
      rw [hids, List.pairwise_append]
      refine ⟨h.opens_sorted, by simp, ?_⟩
      intro i hi j hj
      simp only [List.mem_singleton] at hj; subst hj
      have := (h.opens_le i hi).2; omega
    · intro i hi
      have hi' : i ∈ List.map (·.id) (σ.opens ++ [_]) := hi
      simp only [hids, List.mem_append, List.mem_singleton] at hi'
      rcases hi' with hi' | hi'
      · have := h.opens_le i hi'; exact ⟨this.1, Nat.le_succ_of_le this.2⟩
      · subst hi'; exact ⟨by omega, Nat.le_refl _⟩
    · intro c hc
      have hc' : c ∈ List.map (·.cleanupBelow) (σ.opens ++ [_]) := hc
      simp only [List.map_append, List.map_cons, List.map_nil, List.mem_append, List.mem_singleton] at hc'
      rcases hc' with hc' | hc'
      · exact trS _ _ (h.cb_safe c hc')
      · subst hc'; exact hnew
    · intro kr hkr
      have ok := h.readers_ok kr hkr
      refine ⟨ok.lw_le_max, Nat.le_succ_of_le ok.max_le, ok.inc_ge, ?_, ?_⟩
      · intro i hi
        have hi' : i ∈ List.map (·.id) (σ.opens ++ [_]) := hi
        simp only [hids, List.mem_append, List.mem_singleton] at hi'
        rcases hi' with hi' | hi'
        · exact ok.opens_ge i hi'
        · have := ok.lw_le_max; have := ok.max_le; omega
      · intro i hi hle
        have hi' : i ∈ List.map (·.id) (σ.opens ++ [_]) := hi
        simp only [hids, List.mem_append, List.mem_singleton] at hi'
        rcases hi' with hi' | hi'
        · exact ok.opens_inc i hi' hle
        · have := ok.max_le; omega
  | newReader key =>
    simp only [step] at hs
    split at hs
    · cases hs
    · cases hs
      have hlw := lowWatermark_safe h
      -- the new reader's watermark: first open appender or the last id
      have hfirst : ∀ w, w = (match σ.opens with | a :: _ => a.id | [] => σ.last) →
          (∀ i ∈ σ.opens.map (·.id), w ≤ i) ∧ w ≤ σ.last ∧ (∀ b, (∀ i ∈ σ.opens.map (·.id), b ≤ i) → b ≤ σ.last → b ≤ w) := by
        intro w hw
        match ho : σ.opens with
        | a :: rest =>
          rw [ho] at hw; simp only at hw; subst hw
          have hsrt := h.opens_sorted
          rw [ho] at hsrt; simp only [List.map_cons] at hsrt
          refine ⟨?_, (h.opens_le a.id (by rw [ho]; simp)).2, fun b hb _ => hb a.id (by simp)⟩
          intro i hi
          simp only [List.map_cons] at hi
          rcases List.mem_cons.mp hi with hi | hi
          · subst hi; exact Nat.le_refl _
          · exact Nat.le_of_lt ((List.pairwise_cons.mp hsrt).1 i hi)
        | [] =>
          rw [ho] at hw; simp only at hw; subst hw
          exact ⟨by simp, Nat.le_refl _, fun b _ hb => hb⟩
      obtain ⟨f1, f2, f3⟩ := hfirst _ rfl
      have trS : ∀ b, Safe σ b → Safe { σ with readers := σ.readers ++ [(key, (⟨σ.last, (match σ.opens with | a :: _ => a.id | [] => σ.last), σ.opens.map (·.id)⟩ : Reader))] } b := by
        intro b hb
        refine ⟨?_, hb.2.1, hb.2.2⟩
        intro kr hkr
        rcases List.mem_append.mp hkr with hkr | hkr
        · exact hb.1 kr hkr
        · simp only [List.mem_singleton] at hkr; subst hkr; exact f3 b hb.2.1 hb.2.2
      refine ⟨h.opens_sorted, h.opens_le, fun c hc => trS _ (h.cb_safe c hc), ?_, ?_, h.series_wf,
        fun s hs y hy => trS _ (h.untracked_safe s hs y hy), h.ids_le⟩
      · intro kr hkr
        rcases List.mem_append.mp hkr with hkr | hkr
        · have ok := h.readers_ok kr hkr
          exact ⟨ok.lw_le_max, ok.max_le, ok.inc_ge, ok.opens_ge, ok.opens_inc⟩
        · simp only [List.mem_singleton] at hkr; subst hkr
          exact ⟨f2, Nat.le_refl _, f1, f1, fun i hi _ => hi⟩
      · rw [List.pairwise_append]
        refine ⟨h.readers_sorted, by simp, ?_⟩
        intro x hx y hy
        simp only [List.mem_singleton] at hy; subst hy
        -- an older reader's watermark is below every open appender id and the last id
        have okx := h.readers_ok x hx
        exact f3 x.2.lw okx.opens_ge (Nat.le_trans okx.lw_le_max okx.max_le)

end Prom.Iso
