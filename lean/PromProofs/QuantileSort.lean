import PromProofs.QuantileList
/-
  Helper lemmas for C32, part 4: the prefix of `BucketQuantile` — `slices.SortFunc` (transcribed as the
  stable insertion sort `sortB`) and `coalesceBuckets` — establishes the shape `UbShape` that the
  theorems about the tail (`bqTail`) assume, for every bucket list whose bounds are numbers or +Inf.
-/
namespace Prom.Quantile
open FOps

/-- an upper bound that is a number or +Inf (what `le` label values other than NaN and -Inf parse to) -/
def UbOk (x : XR) : Prop := x = .pinf ∨ ∃ r, x = .fin r

theorem UbOk.lt_asymm {a b : XR} (ha : UbOk a) (hb : UbOk b) (h : XR.lt a b = true) : XR.lt b a = false := by
  rcases ha with rfl | ⟨x, rfl⟩ <;> rcases hb with rfl | ⟨y, rfl⟩ <;> simp [XR.lt] at h ⊢
  grind

/-- `a ≤ b ≤ c → a ≤ c`, written with the negated comparisons the sort uses -/
theorem UbOk.nlt_trans {a b c : XR} (ha : UbOk a) (hb : UbOk b) (hc : UbOk c)
    (h1 : XR.lt b a = false) (h2 : XR.lt c b = false) : XR.lt c a = false := by
  rcases ha with rfl | ⟨x, rfl⟩ <;> rcases hb with rfl | ⟨y, rfl⟩ <;> rcases hc with rfl | ⟨z, rfl⟩ <;>
    simp [XR.lt] at h1 h2 ⊢
  grind

theorem UbOk.lt_of_nlt_of_ne {a b : XR} (ha : UbOk a) (hb : UbOk b)
    (h1 : XR.lt b a = false) (h2 : XR.beq b a = false) : XR.lt a b = true := by
  rcases ha with rfl | ⟨x, rfl⟩ <;> rcases hb with rfl | ⟨y, rfl⟩ <;> simp [XR.lt, XR.beq] at h1 h2 ⊢
  grind

/-- `a < b ≤ c → a < c` -/
theorem UbOk.lt_of_lt_of_nlt {a b c : XR} (ha : UbOk a) (hb : UbOk b) (hc : UbOk c)
    (h1 : XR.lt a b = true) (h2 : XR.lt c b = false) : XR.lt a c = true := by
  rcases ha with rfl | ⟨x, rfl⟩ <;> rcases hb with rfl | ⟨y, rfl⟩ <;> rcases hc with rfl | ⟨z, rfl⟩ <;>
    simp [XR.lt] at h1 h2 ⊢
  grind

theorem UbOk.beq_eq {a b : XR} (ha : UbOk a) (hb : UbOk b) : XR.beq a b = true ↔ a = b := by
  rcases ha with rfl | ⟨x, rfl⟩ <;> rcases hb with rfl | ⟨y, rfl⟩ <;> simp [XR.beq]

/-- bounds non-decreasing (no element is smaller than an earlier one) -/
def SortedUb (l : List (Bucket XR)) : Prop := l.Pairwise (fun a b => XR.lt b.ub a.ub = false)
/-- bounds strictly increasing -/
def StrictUb (l : List (Bucket XR)) : Prop := l.Pairwise (fun a b => XR.lt a.ub b.ub = true)
def AllUbOk (l : List (Bucket XR)) : Prop := ∀ b ∈ l, UbOk b.ub

theorem mem_insertB {α : Type} [FOps α] (b y : Bucket α) : ∀ xs : List (Bucket α), y ∈ insertB b xs ↔ y = b ∨ y ∈ xs := by
  intro xs
  induction xs with
  | nil => simp [insertB]
  | cons x xs ih =>
    simp only [insertB]
    split
    · simp only [List.mem_cons, ih]
      constructor
      · rintro (h | h | h)
        · exact Or.inr (Or.inl h)
        · exact Or.inl h
        · exact Or.inr (Or.inr h)
      · rintro (h | h | h)
        · exact Or.inr (Or.inl h)
        · exact Or.inl h
        · exact Or.inr (Or.inr h)
    · simp [List.mem_cons]

theorem mem_sortB {α : Type} [FOps α] (y : Bucket α) : ∀ bs : List (Bucket α), y ∈ sortB bs ↔ y ∈ bs := by
  intro bs
  induction bs with
  | nil => simp [sortB]
  | cons b bs ih => simp [sortB, mem_insertB, ih]

theorem length_insertB {α : Type} [FOps α] (b : Bucket α) : ∀ xs : List (Bucket α), (insertB b xs).length = xs.length + 1 := by
  intro xs
  induction xs with
  | nil => simp [insertB]
  | cons x xs ih =>
    simp only [insertB]
    split <;> simp [ih]

theorem length_sortB {α : Type} [FOps α] : ∀ bs : List (Bucket α), (sortB bs).length = bs.length := by
  intro bs
  induction bs with
  | nil => simp [sortB]
  | cons b bs ih => simp [sortB, length_insertB, ih]

theorem insertB_sorted (b : Bucket XR) (hb : UbOk b.ub) :
    ∀ xs : List (Bucket XR), AllUbOk xs → SortedUb xs → SortedUb (insertB b xs) := by
  intro xs
  induction xs with
  | nil => intro _ _; simp [insertB, SortedUb]
  | cons x xs ih =>
    intro hok S
    have hx : UbOk x.ub := hok x (List.mem_cons_self ..)
    have hxs : AllUbOk xs := fun y hy => hok y (List.mem_cons_of_mem _ hy)
    obtain ⟨S1, S2⟩ := List.pairwise_cons.mp S
    simp only [insertB, fops_lt]
    split
    · rename_i hlt
      apply List.pairwise_cons.mpr
      refine ⟨?_, ih hxs S2⟩
      intro y hy
      rcases (mem_insertB b y xs).mp hy with rfl | hy
      · exact UbOk.lt_asymm hx hb hlt
      · exact S1 y hy
    · rename_i hlt
      have hlt' : XR.lt x.ub b.ub = false := by simpa using hlt
      apply List.pairwise_cons.mpr
      refine ⟨?_, S⟩
      intro y hy
      rcases List.mem_cons.mp hy with rfl | hy
      · exact hlt'
      · exact UbOk.nlt_trans hb hx (hxs y hy) hlt' (S1 y hy)

theorem sortB_sorted : ∀ bs : List (Bucket XR), AllUbOk bs → SortedUb (sortB bs) := by
  intro bs
  induction bs with
  | nil => intro _; simp [sortB, SortedUb]
  | cons b bs ih =>
    intro hok
    have hbs : AllUbOk bs := fun y hy => hok y (List.mem_cons_of_mem _ hy)
    exact insertB_sorted b (hok b (List.mem_cons_self ..)) _ (fun y hy => hbs y ((mem_sortB y bs).mp hy)) (ih hbs)

/-! ### `coalesceBuckets` -/

/-- every bound of the coalesced list is a bound of the input -/
theorem coalesce_ub_mem {α : Type} [FOps α] : ∀ (rest : List (Bucket α)) (last : Bucket α) (y : Bucket α),
    y ∈ coalesce last rest → ∃ z ∈ last :: rest, y.ub = z.ub := by
  intro rest
  induction rest with
  | nil => intro last y hy; simp [coalesce] at hy; exact ⟨last, by simp, by rw [hy]⟩
  | cons b bs ih =>
    intro last y hy
    simp only [coalesce] at hy
    split at hy
    · obtain ⟨z, hz, e⟩ := ih _ y hy
      rcases List.mem_cons.mp hz with rfl | hz
      · exact ⟨last, by simp, e⟩
      · exact ⟨z, by simp [hz], e⟩
    · rcases List.mem_cons.mp hy with rfl | hy
      · exact ⟨y, by simp, rfl⟩
      · obtain ⟨z, hz, e⟩ := ih _ y hy
        exact ⟨z, List.mem_cons_of_mem _ hz, e⟩

/-- every bound of the input survives coalescing -/
theorem coalesce_ub_mem' : ∀ (rest : List (Bucket XR)) (last : Bucket XR), AllUbOk (last :: rest) →
    ∀ z ∈ last :: rest, ∃ y ∈ coalesce last rest, y.ub = z.ub := by
  intro rest
  induction rest with
  | nil => intro last _ z hz; simp at hz; subst hz; exact ⟨z, by simp [coalesce], rfl⟩
  | cons b bs ih =>
    intro last hok z hz
    have hl : UbOk last.ub := hok last (by simp)
    have hb : UbOk b.ub := hok b (by simp)
    simp only [coalesce, fops_beq]
    split
    · rename_i e
      have e' : b.ub = last.ub := (UbOk.beq_eq hb hl).mp e
      have hok' : AllUbOk ({ last with count := FOps.add last.count b.count } :: bs) := by
        intro y hy
        rcases List.mem_cons.mp hy with rfl | hy
        · exact hl
        · exact hok y (by simp [hy])
      rcases List.mem_cons.mp hz with rfl | hz
      · obtain ⟨y, hy, e2⟩ := ih _ hok' _ (List.mem_cons_self ..)
        exact ⟨y, hy, e2⟩
      · rcases List.mem_cons.mp hz with rfl | hz
        · obtain ⟨y, hy, e2⟩ := ih _ hok' _ (List.mem_cons_self ..)
          exact ⟨y, hy, by rw [e2, e']⟩
        · exact ih _ hok' z (List.mem_cons_of_mem _ hz)
    · have hok' : AllUbOk (b :: bs) := fun y hy => hok y (List.mem_cons_of_mem _ hy)
      rcases List.mem_cons.mp hz with rfl | hz
      · exact ⟨z, by simp, rfl⟩
      · obtain ⟨y, hy, e2⟩ := ih b hok' z hz
        exact ⟨y, List.mem_cons_of_mem _ hy, e2⟩

/-- coalescing a sorted list leaves strictly increasing bounds -/
theorem coalesce_strict : ∀ (rest : List (Bucket XR)) (last : Bucket XR), AllUbOk (last :: rest) →
    SortedUb (last :: rest) → StrictUb (coalesce last rest) := by
  intro rest
  induction rest with
  | nil => intro last _ _; simp [coalesce, StrictUb]
  | cons b bs ih =>
    intro last hok S
    have hl : UbOk last.ub := hok last (by simp)
    have hb : UbOk b.ub := hok b (by simp)
    obtain ⟨S1, S2⟩ := List.pairwise_cons.mp S
    obtain ⟨S3, S4⟩ := List.pairwise_cons.mp S2
    simp only [coalesce, fops_beq]
    split
    · apply ih
      · intro y hy
        rcases List.mem_cons.mp hy with rfl | hy
        · exact hl
        · exact hok y (by simp [hy])
      · apply List.pairwise_cons.mpr
        exact ⟨fun y hy => S1 y (List.mem_cons_of_mem _ hy), S4⟩
    · rename_i e
      have e' : XR.beq b.ub last.ub = false := by simpa using e
      have hok' : AllUbOk (b :: bs) := fun y hy => hok y (List.mem_cons_of_mem _ hy)
      have hlb : XR.lt last.ub b.ub = true := UbOk.lt_of_nlt_of_ne hl hb (S1 b (by simp)) e'
      apply List.pairwise_cons.mpr
      refine ⟨?_, ih b hok' S2⟩
      intro y hy
      obtain ⟨z, hz, ez⟩ := coalesce_ub_mem bs b y hy
      rw [ez]
      rcases List.mem_cons.mp hz with rfl | hz
      · exact hlb
      · exact UbOk.lt_of_lt_of_nlt hl hb (hok' z (List.mem_cons_of_mem _ hz)) hlb (S3 z hz)

theorem coalesce_nonneg : ∀ (rest : List (Bucket XR)) (last : Bucket XR), NonnegC (last :: rest) →
    NonnegC (coalesce last rest) := by
  intro rest
  induction rest with
  | nil => intro last h; simpa [coalesce] using h
  | cons b bs ih =>
    intro last h
    simp only [coalesce]
    split
    · apply ih
      intro y hy
      rcases List.mem_cons.mp hy with rfl | hy
      · obtain ⟨c1, h1, p1⟩ := h last (by simp)
        obtain ⟨c2, h2, p2⟩ := h b (by simp)
        exact ⟨c1 + c2, by simp [h1, h2], by grind⟩
      · exact h y (by simp [hy])
    · intro y hy
      rcases List.mem_cons.mp hy with rfl | hy
      · exact h y (by simp)
      · exact ih b (fun z hz => h z (List.mem_cons_of_mem _ hz)) y hy

theorem ubAt_lt {α : Type} [FOps α] (cs : List (Bucket α)) (i : Nat) (hi : i < cs.length) : ubAt cs i = cs[i].ub := by
  simp [ubAt, List.getElem?_eq_getElem hi]

/-- strictly increasing bounds that are numbers or +Inf: all but the last are numbers -/
theorem strict_ubShape (cs : List (Bucket XR)) (hok : AllUbOk cs) (S : StrictUb cs) : UbShape cs := by
  have P := List.pairwise_iff_getElem.mp S
  have hfin : ∀ i, (h : i + 1 < cs.length) → ∃ x, cs[i].ub = .fin x := by
    intro i hi
    have hlt := P i (i + 1) (by omega) hi (by omega)
    rcases hok cs[i] (List.getElem_mem ..) with e | ⟨x, e⟩
    · rw [e] at hlt
      cases h2 : cs[i + 1].ub <;> simp [h2, XR.lt] at hlt
    · exact ⟨x, e⟩
  refine ⟨?_, ?_⟩
  · intro i hi
    rw [ubAt_lt cs i (by omega)]
    exact hfin i hi
  · intro i j hij hj
    rw [ubAt_lt cs i (by omega), ubAt_lt cs j (by omega)]
    by_cases e : i = j
    · subst e; exact Rat.le_refl
    · have hlt := P i j (by omega) (by omega) (by omega)
      obtain ⟨x, hx⟩ := hfin i (by omega)
      obtain ⟨y, hy⟩ := hfin j hj
      rw [hx, hy] at hlt ⊢
      simp only [XR.lt_fin, decide_eq_true_eq] at hlt
      simp only [ratOf]
      exact Rat.le_of_lt hlt

/-- the list `BucketQuantile` works on after `slices.SortFunc` and `coalesceBuckets` -/
def sortCoalesce {α : Type} [FOps α] (buckets : List (Bucket α)) : List (Bucket α) :=
  match sortB buckets with
  | [] => []
  | first :: rest => coalesce first rest

/-- What sort + coalesce establish, for ANY input whose bounds are numbers or +Inf: strictly increasing
    bounds (duplicates merged), the same set of bounds, counts still finite and ≥ 0, and the shape
    `UbShape` assumed by the theorems about `bqTail`. -/
theorem sortCoalesce_spec (buckets : List (Bucket XR)) (hok : AllUbOk buckets) (C : NonnegC buckets) :
    StrictUb (sortCoalesce buckets) ∧ AllUbOk (sortCoalesce buckets) ∧
    (∀ x : XR, (∃ c ∈ sortCoalesce buckets, c.ub = x) ↔ (∃ b ∈ buckets, b.ub = x)) ∧
    NonnegC (sortCoalesce buckets) ∧ UbShape (sortCoalesce buckets) := by
  have hS := sortB_sorted buckets hok
  have hokS : AllUbOk (sortB buckets) := fun y hy => hok y ((mem_sortB y buckets).mp hy)
  have hCS : NonnegC (sortB buckets) := fun y hy => C y ((mem_sortB y buckets).mp hy)
  have hmem := fun y => mem_sortB y buckets
  unfold sortCoalesce
  generalize sortB buckets = s at hS hokS hCS hmem
  cases s with
  | nil =>
    refine ⟨by simp [StrictUb], by simp [AllUbOk], ?_, by simp [NonnegC], ⟨by simp, by simp⟩⟩
    intro x
    constructor
    · rintro ⟨c, hc, _⟩; simp at hc
    · rintro ⟨b, hb, _⟩; exact absurd ((hmem b).mpr hb) (by simp)
  | cons first rest =>
    have hstrict := coalesce_strict rest first hokS hS
    have hok2 : AllUbOk (coalesce first rest) := by
      intro y hy
      obtain ⟨z, hz, e⟩ := coalesce_ub_mem rest first y hy
      rw [e]; exact hokS z hz
    refine ⟨hstrict, hok2, ?_, coalesce_nonneg rest first hCS, strict_ubShape _ hok2 hstrict⟩
    intro x
    constructor
    · rintro ⟨c, hc, rfl⟩
      obtain ⟨z, hz, e⟩ := coalesce_ub_mem rest first c hc
      exact ⟨z, (hmem z).mp hz, e.symm⟩
    · rintro ⟨b, hb, rfl⟩
      exact coalesce_ub_mem' rest first hokS b ((hmem b).mpr hb)

/-- `BucketQuantile` on a non-empty bucket list and a quantile in [0,1] never fails; it is either NaN
    for every such quantile (largest bound is not +Inf) or the tail function applied to the
    sorted/coalesced list. -/
theorem bucketQuantileWith_decomp (almost : XR → XR → Bool) (buckets : List (Bucket XR)) (hne : buckets ≠ []) :
    (∀ q : Rat, 0 ≤ q → q ≤ 1 → bucketQuantileWith almost (.fin q) buckets = .ok ⟨.nan, zeroInfo⟩) ∨
    (∀ q : Rat, 0 ≤ q → q ≤ 1 →
      bucketQuantileWith almost (.fin q) buckets = .ok (bqTail almost (.fin q) (sortCoalesce buckets))) := by
  have hlen := length_sortB buckets
  unfold sortCoalesce
  cases hs : sortB buckets with
  | nil =>
    rw [hs] at hlen
    have : buckets.length ≠ 0 := by
      intro h; exact hne (List.length_eq_zero_iff.mp h)
    simp at hlen; omega
  | cons first rest =>
    by_cases hinf : XR.beq (ubAt (first :: rest) ((first :: rest).length - 1)) .pinf = true
    · right
      intro q h0 h1
      have a : ¬ q < 0 := by grind
      have b : ¬ 1 < q := by grind
      simp only [bucketQuantileWith, fops_isNaN, XR.isNaN, fops_lt, fops_zero, fops_one, XR.lt_fin, a, b, hs,
        fops_beq, fops_pinf, hinf]
      simp
    · left
      intro q h0 h1
      have a : ¬ q < 0 := by grind
      have b : ¬ 1 < q := by grind
      simp only [bucketQuantileWith, fops_isNaN, XR.isNaN, fops_lt, fops_zero, fops_one, XR.lt_fin, a, b, hs,
        fops_beq, fops_pinf, hinf]
      simp

/-- in a sorted list that contains the bound +Inf, the last bound is +Inf -/
theorem sorted_last_pinf (s : List (Bucket XR)) (hok : AllUbOk s) (S : SortedUb s)
    (hinf : ∃ b ∈ s, b.ub = .pinf) : ubAt s (s.length - 1) = .pinf := by
  obtain ⟨b, hb, e⟩ := hinf
  obtain ⟨i, hi, rfl⟩ := List.getElem_of_mem hb
  rw [ubAt_lt s (s.length - 1) (by omega)]
  by_cases hil : i = s.length - 1
  · subst hil; exact e
  · have P := List.pairwise_iff_getElem.mp S i (s.length - 1) hi (by omega) (by omega)
    rw [e] at P
    rcases hok s[s.length - 1] (List.getElem_mem ..) with h | ⟨r, h⟩
    · exact h
    · rw [h] at P; simp [XR.lt] at P

/-- when some bound is +Inf (and none is NaN or -Inf) `BucketQuantile` is the tail function on the
    sorted/coalesced list -/
theorem bucketQuantileWith_tail (almost : XR → XR → Bool) (buckets : List (Bucket XR)) (hok : AllUbOk buckets)
    (hinf : ∃ b ∈ buckets, b.ub = .pinf) (q : Rat) (h0 : 0 ≤ q) (h1 : q ≤ 1) :
    bucketQuantileWith almost (.fin q) buckets = .ok (bqTail almost (.fin q) (sortCoalesce buckets)) := by
  have hS := sortB_sorted buckets hok
  have hokS : AllUbOk (sortB buckets) := fun y hy => hok y ((mem_sortB y buckets).mp hy)
  have hinfS : ∃ b ∈ sortB buckets, b.ub = .pinf := by
    obtain ⟨b, hb, e⟩ := hinf
    exact ⟨b, (mem_sortB b buckets).mpr hb, e⟩
  have hlast := sorted_last_pinf _ hokS hS hinfS
  unfold sortCoalesce
  cases hs : sortB buckets with
  | nil => rw [hs] at hinfS; obtain ⟨b, hb, _⟩ := hinfS; simp at hb
  | cons first rest =>
    rw [hs] at hlast
    have a : ¬ q < 0 := by grind
    have b : ¬ 1 < q := by grind
    simp only [bucketQuantileWith, fops_isNaN, XR.isNaN, fops_lt, fops_zero, fops_one, XR.lt_fin, a, b, hs,
      fops_beq, fops_pinf, hlast]
    simp [XR.beq]

/-- the fix-up never changes the first bucket -/
theorem cOf_zero (almost : XR → XR → Bool) (cs : List (Bucket XR)) : cOf almost cs 0 = ratOf (cntAt cs 0) := by
  cases cs with
  | nil => rfl
  | cons b bs => simp [cOf, ensureMonotonic]

/-! ### counts: duplicates are merged by summing -/

/-- sum of the counts of the buckets whose bound is `x` -/
def cntFor (x : XR) : List (Bucket XR) → Rat
  | [] => 0
  | b :: bs => (if b.ub = x then ratOf b.count else 0) + cntFor x bs

theorem cntFor_insertB (x : XR) (b : Bucket XR) : ∀ xs : List (Bucket XR), cntFor x (insertB b xs) = cntFor x (b :: xs) := by
  intro xs
  induction xs with
  | nil => rfl
  | cons y ys ih =>
    simp only [insertB]
    split
    · simp only [cntFor, ih]; grind
    · rfl

theorem cntFor_sortB (x : XR) : ∀ bs : List (Bucket XR), cntFor x (sortB bs) = cntFor x bs := by
  intro bs
  induction bs with
  | nil => rfl
  | cons b bs ih => simp only [sortB, cntFor_insertB, cntFor, ih]

theorem cntFor_absent (x : XR) : ∀ l : List (Bucket XR), (∀ z ∈ l, z.ub ≠ x) → cntFor x l = 0 := by
  intro l
  induction l with
  | nil => intro _; rfl
  | cons b bs ih =>
    intro h
    have hb : ¬ b.ub = x := h b (by simp)
    simp only [cntFor, hb, if_false, ih (fun z hz => h z (by simp [hz]))]
    grind

theorem XR.lt_ne {a b : XR} (h : XR.lt a b = true) : a ≠ b := by
  intro e; subst e
  cases a <;> simp [XR.lt] at h

theorem sorted_head_lt (last b : Bucket XR) (bs : List (Bucket XR)) (hok : AllUbOk (last :: b :: bs))
    (S : SortedUb (last :: b :: bs)) (e : XR.beq b.ub last.ub = false) : ∀ z ∈ b :: bs, XR.lt last.ub z.ub = true := by
  have hl : UbOk last.ub := hok last (by simp)
  have hb : UbOk b.ub := hok b (by simp)
  obtain ⟨S1, S2⟩ := List.pairwise_cons.mp S
  obtain ⟨S3, _⟩ := List.pairwise_cons.mp S2
  have hlb : XR.lt last.ub b.ub = true := UbOk.lt_of_nlt_of_ne hl hb (S1 b (by simp)) e
  intro z hz
  rcases List.mem_cons.mp hz with rfl | hz
  · exact hlb
  · exact UbOk.lt_of_lt_of_nlt hl hb (hok z (by simp [hz])) hlb (S3 z hz)

/-- every coalesced bucket carries the sum of the counts of the input buckets with its bound -/
theorem coalesce_counts : ∀ (rest : List (Bucket XR)) (last : Bucket XR), AllUbOk (last :: rest) →
    SortedUb (last :: rest) → FinC (last :: rest) →
    ∀ y ∈ coalesce last rest, y.count = .fin (cntFor y.ub (last :: rest)) := by
  intro rest
  induction rest with
  | nil =>
    intro last _ _ F y hy
    simp [coalesce] at hy
    subst hy
    obtain ⟨c, hc⟩ := F y (by simp)
    simp only [cntFor, if_true, hc, ratOf]
    congr 1; grind
  | cons b bs ih =>
    intro last hok S F y hy
    have hl : UbOk last.ub := hok last (by simp)
    have hb : UbOk b.ub := hok b (by simp)
    obtain ⟨c1, hc1⟩ := F last (by simp)
    obtain ⟨c2, hc2⟩ := F b (by simp)
    obtain ⟨S1, S2⟩ := List.pairwise_cons.mp S
    obtain ⟨_, S4⟩ := List.pairwise_cons.mp S2
    simp only [coalesce, fops_beq] at hy
    split at hy
    · rename_i e
      have e' : b.ub = last.ub := (UbOk.beq_eq hb hl).mp e
      have := ih { last with count := FOps.add last.count b.count }
        (by
          intro z hz
          rcases List.mem_cons.mp hz with rfl | hz
          · exact hl
          · exact hok z (by simp [hz]))
        (by
          apply List.pairwise_cons.mpr
          exact ⟨fun z hz => S1 z (List.mem_cons_of_mem _ hz), S4⟩)
        (by
          intro z hz
          rcases List.mem_cons.mp hz with rfl | hz
          · exact ⟨c1 + c2, by simp [hc1, hc2]⟩
          · exact F z (by simp [hz]))
        y hy
      rw [this]
      congr 1
      simp only [cntFor, hc1, hc2, fops_add, XR.add_fin, ratOf, e']
      split <;> grind
    · rename_i e
      have e' : XR.beq b.ub last.ub = false := by simpa using e
      have hlt := sorted_head_lt last b bs hok S e'
      rcases List.mem_cons.mp hy with rfl | hy
      · have h0 : cntFor y.ub (b :: bs) = 0 :=
          cntFor_absent _ _ (fun z hz => (XR.lt_ne (hlt z hz)).symm)
        simp only [cntFor] at h0 ⊢
        simp only [if_true, hc1, ratOf]
        congr 1; grind
      · have hy2 := ih b (fun z hz => hok z (List.mem_cons_of_mem _ hz)) S2
          (fun z hz => F z (List.mem_cons_of_mem _ hz)) y hy
        obtain ⟨z, hz, ez⟩ := coalesce_ub_mem bs b y hy
        have hne : ¬ last.ub = y.ub := by rw [ez]; exact XR.lt_ne (hlt z hz)
        rw [hy2]
        congr 1
        simp only [cntFor, hne, if_false]
        grind

/-- "sorted by upper bound, duplicates merged by summing counts": every bucket of `sortCoalesce buckets`
    carries the sum of the counts of all input buckets with the same bound -/
theorem sortCoalesce_counts (buckets : List (Bucket XR)) (hok : AllUbOk buckets) (F : FinC buckets) :
    ∀ c ∈ sortCoalesce buckets, c.count = .fin (cntFor c.ub buckets) := by
  have hS := sortB_sorted buckets hok
  have hokS : AllUbOk (sortB buckets) := fun y hy => hok y ((mem_sortB y buckets).mp hy)
  have hFS : FinC (sortB buckets) := fun y hy => F y ((mem_sortB y buckets).mp hy)
  have hcnt := fun x => cntFor_sortB x buckets
  unfold sortCoalesce
  generalize sortB buckets = s at hS hokS hFS hcnt
  cases s with
  | nil => intro c hc; simp at hc
  | cons first rest =>
    intro c hc
    rw [coalesce_counts rest first hokS hS hFS c hc, hcnt]

end Prom.Quantile
