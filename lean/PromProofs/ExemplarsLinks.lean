import PromProofs.ExemplarsBase
/-
  The per-series doubly linked lists of the exemplar ring: definition of the well-formedness
  invariant (`LinksWF`).
-/
namespace Prom.Exemplars

/-- `c` (slot numbers, oldest first) is linked through `prev`/`next`, the first element having
    `prev = p` and the last `next = none`. -/
def LinkedFrom (r : Ring) : Option Nat → List Nat → Prop
  | _, [] => True
  | p, [a] => (r.getN a).prev = p ∧ (r.getN a).next = none
  | p, a :: b :: t => (r.getN a).prev = p ∧ (r.getN a).next = some b ∧ LinkedFrom r (some a) (b :: t)

/-- `c` is the list of series `s`: acyclic (`nodup`), covering exactly the occupied slots of the
    series, doubly linked, time non-decreasing, and delimited by the series' index entry (which exists
    iff the series has a slot). -/
structure ChainOK (r : Ring) (s : Nat) (c : List Nat) : Prop where
  nodup : c.Nodup
  covers : ∀ i, i ∈ c ↔ i < r.exs.length ∧ (r.getN i).ref = some s
  linked : LinkedFrom r none c
  sorted : (c.map fun i => (r.getN i).ex.ts).Pairwise (· ≤ ·)
  index : r.index s = if c = [] then none else some ⟨c.head?, c.getLast?⟩

def LinksWF (r : Ring) : Prop := ∃ ch : Nat → List Nat, ∀ s, ChainOK r s (ch s)

theorem linksWF_new (c w : Int) : LinksWF (Ring.new c w) := by
  refine ⟨fun _ => [], fun s => ⟨List.nodup_nil, ?_, trivial, by simp, by simp [Ring.new]⟩⟩
  intro i
  simp only [List.not_mem_nil, false_iff, not_and]
  intro hi
  simp [Ring.new, Ring.getN, List.getD_eq_getElem?_getD] at hi ⊢
  simp [hi, Entry.zero]

end Prom.Exemplars
