import PromModel.Api.Json
/-
  Helper lemmas for C51 (API JSON codec): decimal digits, the text written by MarshalTimestamp and its
  parse, jsoniter string escaping and its inverse, prefix-parser composition.
-/
namespace Prom.Api.Json

theorem digitsF_succ (f n : Nat) :
    digitsF (f + 1) n = if n < 10 then [n] else digitsF f (n / 10) ++ [n % 10] := rfl

theorem ofDigits_snoc (xs : List Nat) (d : Nat) : ofDigits (xs ++ [d]) = ofDigits xs * 10 + d := by
  simp [ofDigits, List.foldl_append]

theorem digitsF_spec : ∀ f n, n < f →
    ofDigits (digitsF f n) = n ∧ (∀ d ∈ digitsF f n, d < 10) ∧ digitsF f n ≠ [] := by
  intro f
  induction f with
  | zero => intro n h; omega
  | succ f ih =>
    intro n h
    rw [digitsF_succ]
    by_cases h10 : n < 10
    · simp [h10, ofDigits]
    · have := ih (n / 10) (by omega)
      obtain ⟨h1, h2, _⟩ := this
      simp only [h10, if_false]
      refine ⟨?_, ?_, by simp⟩
      · rw [ofDigits_snoc, h1]; omega
      · intro d hd
        rcases List.mem_append.mp hd with hd | hd
        · exact h2 d hd
        · simp at hd; omega

theorem digitsF_fuel : ∀ f g n, n < f → n < g → digitsF f n = digitsF g n := by
  intro f
  induction f with
  | zero => intro g n h; omega
  | succ f ih =>
    intro g n hf hg
    cases g with
    | zero => omega
    | succ g =>
      rw [digitsF_succ, digitsF_succ]
      by_cases h10 : n < 10
      · simp [h10]
      · simp only [h10, if_false]
        rw [ih g (n / 10) (by omega) (by omega)]

theorem digits_unfold (n : Nat) : digits n = if n < 10 then [n] else digits (n / 10) ++ [n % 10] := by
  unfold digits
  rw [digitsF_succ]
  by_cases h10 : n < 10
  · simp [h10]
  · simp only [h10, if_false]
    rw [digitsF_fuel n (n / 10 + 1) (n / 10) (by omega) (by omega)]

theorem ofDigits_digits (n : Nat) : ofDigits (digits n) = n := (digitsF_spec (n + 1) n (by omega)).1
theorem digits_lt (n : Nat) : ∀ d ∈ digits n, d < 10 := (digitsF_spec (n + 1) n (by omega)).2.1
theorem digits_ne_nil (n : Nat) : digits n ≠ [] := (digitsF_spec (n + 1) n (by omega)).2.2

/-- `rest` does not continue a digit run -/
def ndh : Bytes → Bool
  | [] => true
  | b :: _ => !isDigitB b

theorem digitByte_props : ∀ d, d < 10 → isDigitB (digitByte d) = true ∧ (digitByte d).toNat - 48 = d := by
  decide

theorem spanDigits_map (ds : List Nat) (rest : Bytes) (h : ∀ d ∈ ds, d < 10) (hr : ndh rest = true) :
    spanDigits (ds.map digitByte ++ rest) = (ds, rest) := by
  induction ds with
  | nil =>
    cases rest with
    | nil => rfl
    | cons b r => simp [ndh] at hr; simp [spanDigits, hr]
  | cons d ds ih =>
    have hd := digitByte_props d (h d (by simp))
    have := ih (fun x hx => h x (by simp [hx]))
    simp [spanDigits, hd.1, hd.2, this]


def padDigits (fr : Nat) : List Nat := (if fr < 100 then [0] else []) ++ (if fr < 10 then [0] else [])

/-- the text `MarshalTimestamp` writes for a non-negative timestamp `n` -/
def tsTextNat (n : Nat) : Bytes :=
  natDec (n / 1000) ++
    (if n % 1000 ≠ 0 then 46 :: (padDigits (n % 1000) ++ digits (n % 1000)).map digitByte else [])

theorem writeInt64_ofNat (m : Nat) : writeInt64 (m : Int) = natDec m := by
  unfold writeInt64
  have : ¬ ((m : Int) < 0) := by omega
  simp [this]

theorem marshalTimestamp_ofNat (n : Nat) : marshalTimestamp (n : Int) = tsTextNat n := by
  unfold marshalTimestamp tsTextNat padDigits
  have h0 : ¬ ((n : Int) < 0) := by omega
  have hq : Int.tdiv (n : Int) 1000 = ((n / 1000 : Nat) : Int) := rfl
  have hr : Int.tmod (n : Int) 1000 = ((n % 1000 : Nat) : Int) := rfl
  simp only [h0, if_false, hq, hr, writeInt64_ofNat]
  by_cases hf : n % 1000 = 0
  · simp [hf]
  · have hf' : ((n % 1000 : Nat) : Int) ≠ 0 := by omega
    simp only [hf', hf, ne_eq, not_false_eq_true, if_true]
    have e100 : ((n : Int) % 1000 < 100) ↔ (n % 1000 < 100) := by omega
    have e10 : ((n : Int) % 1000 < 10) ↔ (n % 1000 < 10) := by omega
    by_cases h100 : n % 1000 < 100 <;> by_cases h10 : n % 1000 < 10 <;>
      simp [h100, h10, natDec, digitByte, e100, e10]

theorem marshalTimestamp_neg (n : Nat) (hpos : 0 < n) (hn : n < 9223372036854775808) :
    marshalTimestamp (-(n : Int)) = 45 :: tsTextNat n := by
  have h0 : (-(n : Int)) < 0 := by omega
  have hw : wrap64 (- -(n : Int)) = (n : Int) := by unfold wrap64; omega
  have h0' : ¬ ((n : Int) < 0) := by omega
  rw [← marshalTimestamp_ofNat]
  unfold marshalTimestamp
  simp only [h0, if_true, hw, h0', if_false]
  simp

/-- `rest` cannot continue a JSON number -/
def tsEnd : Bytes → Bool
  | [] => true
  | b :: _ => !isDigitB b && b != 46

theorem ofDigits_pad (fr : Nat) : ofDigits (padDigits fr ++ digits fr) = fr := by
  have := ofDigits_digits fr
  unfold padDigits
  by_cases h100 : fr < 100 <;> by_cases h10 : fr < 10 <;> simp [h100, h10, ofDigits] at this ⊢ <;> exact this

theorem length_pad (fr : Nat) (_h0 : fr ≠ 0) (h : fr < 1000) : (padDigits fr ++ digits fr).length = 3 := by
  unfold padDigits
  by_cases h10 : fr < 10
  · have : fr < 100 := by omega
    rw [digits_unfold]; simp [h10, this]
  · by_cases h100 : fr < 100
    · rw [digits_unfold, digits_unfold]
      have : fr / 10 < 10 := by omega
      simp [h10, h100, this]
    · rw [digits_unfold, digits_unfold, digits_unfold]
      have h1 : ¬ fr / 10 < 10 := by omega
      have h2 : fr / 10 / 10 < 10 := by omega
      simp [h10, h100, h1, h2]

theorem pad_lt (fr : Nat) : ∀ d ∈ padDigits fr ++ digits fr, d < 10 := by
  intro d hd
  rcases List.mem_append.mp hd with hd | hd
  · unfold padDigits at hd
    by_cases h100 : fr < 100 <;> by_cases h10 : fr < 10 <;> simp [h100, h10] at hd <;> omega
  · exact digits_lt fr d hd

theorem tsEnd_ndh {rest : Bytes} (h : tsEnd rest = true) : ndh rest = true := by
  cases rest with
  | nil => rfl
  | cons b r => simp [tsEnd] at h; simp [ndh, h.1]

theorem pTsAbs_tsTextNat (neg : Bool) (n : Nat) (rest : Bytes) (hr : tsEnd rest = true) :
    pTsAbs neg (tsTextNat n ++ rest) = some (.exact (if neg then -(n : Int) else n), rest) := by
  unfold pTsAbs tsTextNat natDec
  have hne := digits_ne_nil (n / 1000)
  by_cases hf : n % 1000 = 0
  · simp only [hf, ne_eq, not_true_eq_false, if_false, List.append_nil]
    rw [spanDigits_map _ _ (digits_lt _) (tsEnd_ndh hr)]
    cases hd : digits (n / 1000) with
    | nil => exact absurd hd hne
    | cons d ds =>
      have hv : ofDigits (d :: ds) = n / 1000 := by rw [← hd]; exact ofDigits_digits _
      cases rest with
      | nil => simp only [hv]; congr 3; cases neg <;> simp <;> omega
      | cons b r =>
        simp [tsEnd] at hr
        have hb : b ≠ 46 := hr.2
        simp only [hv]
        split
        · rename_i heq; simp at heq; exact absurd heq.1 hb
        · congr 3; cases neg <;> simp <;> omega
  · simp only [hf, ne_eq, not_false_eq_true, if_true]
    rw [List.append_assoc]
    rw [spanDigits_map _ _ (digits_lt _) (by simp [ndh, isDigitB])]
    cases hd : digits (n / 1000) with
    | nil => exact absurd hd hne
    | cons d ds =>
      have hv : ofDigits (d :: ds) = n / 1000 := by rw [← hd]; exact ofDigits_digits _
      simp only [List.cons_append]
      rw [spanDigits_map _ _ (pad_lt _) (tsEnd_ndh hr)]
      have hl := length_pad (n % 1000) hf (Nat.mod_lt _ (by omega))
      have hne2 : padDigits (n % 1000) ++ digits (n % 1000) ≠ [] := by
        intro h; rw [h] at hl; simp at hl
      cases hp : padDigits (n % 1000) ++ digits (n % 1000) with
      | nil => exact absurd hp hne2
      | cons p ps =>
        have hl' : (p :: ps).length = 3 := by rw [← hp]; exact hl
        have hv2 : ofDigits (p :: ps) = n % 1000 := by rw [← hp]; exact ofDigits_pad _
        simp only [hl', hv, hv2, Nat.le_refl, if_true, Nat.sub_self, Nat.pow_zero, Nat.mul_one]
        congr 3; cases neg <;> simp <;> omega


theorem digitByte_ne45 : ∀ d, d < 10 → digitByte d ≠ 45 := by decide

theorem tsTextNat_head (n : Nat) : ∃ d tl, d < 10 ∧ tsTextNat n = digitByte d :: tl := by
  unfold tsTextNat natDec
  cases hd : digits (n / 1000) with
  | nil => exact absurd hd (digits_ne_nil _)
  | cons d ds =>
    refine ⟨d, _, ?_, by simp; rfl⟩
    exact digits_lt (n / 1000) d (by simp [hd])

/-- Decoding what `MarshalTimestamp` wrote gives the timestamp back, in any context that does not
    continue the number. -/
theorem pTs_marshalTimestamp (t : Int) (h1 : MinI64 < t) (h2 : t ≤ MaxI64) (rest : Bytes)
    (hr : tsEnd rest = true) : pTs (marshalTimestamp t ++ rest) = some (.exact t, rest) := by
  unfold MinI64 at h1
  unfold MaxI64 at h2
  by_cases hneg : t < 0
  · obtain ⟨n, hn⟩ : ∃ n : Nat, t = -(n : Int) := ⟨t.natAbs, by omega⟩
    subst hn
    rw [marshalTimestamp_neg n (by omega) (by omega)]
    simp only [pTs, List.cons_append, if_true]
    rw [pTsAbs_tsTextNat true n rest hr]; simp
  · obtain ⟨n, hn⟩ : ∃ n : Nat, t = (n : Int) := ⟨t.toNat, by omega⟩
    subst hn
    rw [marshalTimestamp_ofNat]
    obtain ⟨d, tl, hd, htl⟩ := tsTextNat_head n
    have h45 := digitByte_ne45 d hd
    have : pTs (tsTextNat n ++ rest) = pTsAbs false (tsTextNat n ++ rest) := by
      rw [htl]; simp [pTs, h45]
    rw [this, pTsAbs_tsTextNat false n rest hr]; simp


/-! ### strings -/

theorem unescape_plain (x : UInt8) (xs : Bytes) (h1 : x ≠ 34) (h2 : x ≠ 92) (h3 : ¬ x < 32) :
    unescape (x :: xs) = (unescape xs).map (fun p => (x :: p.1, p.2)) := by
  rw [unescape.eq_def]; simp [h1, h2, h3]
  cases unescape xs <;> simp

theorem unescape_short (c y : UInt8) (xs : Bytes) (h1 : c ≠ 117) (h2 : unescapeChar c = some y) :
    unescape (92 :: c :: xs) = (unescape xs).map (fun p => (y :: p.1, p.2)) := by
  rw [unescape.eq_def]
  simp only [show (92:UInt8) ≠ 34 by decide, if_false, if_true, h1, h2]
  cases unescape xs <;> simp

theorem unescape_u (h1 h2 h3 h4 : UInt8) (a b c d : Nat) (xs : Bytes)
    (e1 : hexValB h1 = some a) (e2 : hexValB h2 = some b) (e3 : hexValB h3 = some c) (e4 : hexValB h4 = some d)
    (hs : ¬ (0xD800 ≤ ((a * 16 + b) * 16 + c) * 16 + d ∧ ((a * 16 + b) * 16 + c) * 16 + d < 0xE000)) :
    unescape (92 :: 117 :: h1 :: h2 :: h3 :: h4 :: xs) =
      (unescape xs).map (fun p => (utf8Enc (((a * 16 + b) * 16 + c) * 16 + d) ++ p.1, p.2)) := by
  rw [unescape.eq_def]; simp [e1, e2, e3, e4]
  cases unescape xs with
  | none => simp
  | some p => simp [hs]

/-- decidable classification of what `escByteJsoniter` emits for a byte -/
def escClass (b : UInt8) : Bool :=
  let e := escByteJsoniter b
  (e == [b] && b != 34 && b != 92 && !(b < 32)) ||
  (match e with
   | [p, c] => p == 92 && c != 117 && unescapeChar c == some b
   | _ => false) ||
  (match e with
   | [p, u, z1, z2, h1, h2] =>
     p == 92 && u == 117 && hexValB z1 == some 0 && hexValB z2 == some 0 &&
     (match hexValB h1, hexValB h2 with
      | some a, some c => utf8Enc (((0 * 16 + 0) * 16 + a) * 16 + c) == [b] && ((0 * 16 + 0) * 16 + a) * 16 + c < 0xD800
      | _, _ => false)
   | _ => false)

theorem escClass_all : ∀ n, n < 256 → escClass n.toUInt8 = true := by decide +kernel

theorem escClass_true (b : UInt8) : escClass b = true := by
  have := escClass_all b.toNat b.toNat_lt
  simpa using this

theorem unescape_escByte (b : UInt8) (xs : Bytes) :
    unescape (escByteJsoniter b ++ xs) = (unescape xs).map (fun p => (b :: p.1, p.2)) := by
  have h := escClass_true b
  unfold escClass at h
  simp only [Bool.or_eq_true] at h
  rcases h with (h | h) | h
  · simp only [Bool.and_eq_true, beq_iff_eq, bne_iff_ne, ne_eq, Bool.not_eq_true', decide_eq_false_iff_not] at h
    obtain ⟨⟨⟨he, h1⟩, h2⟩, h3⟩ := h
    rw [he]; exact unescape_plain b xs h1 h2 h3
  · split at h
    · rename_i p c he
      simp only [Bool.and_eq_true, beq_iff_eq, bne_iff_ne, ne_eq] at h
      obtain ⟨⟨hp, hc⟩, hu⟩ := h
      rw [he, hp]; exact unescape_short c b xs hc hu
    · simp at h
  · split at h
    · rename_i p u z1 z2 h1 h2 he
      simp only [Bool.and_eq_true, beq_iff_eq] at h
      obtain ⟨⟨⟨⟨hp, hu⟩, hz1⟩, hz2⟩, hm⟩ := h
      split at hm
      · rename_i a c e1 e2
        simp only [Bool.and_eq_true, beq_iff_eq, decide_eq_true_eq] at hm
        rw [he, hp, hu]
        have := unescape_u z1 z2 h1 h2 0 0 a c xs hz1 hz2 e1 e2 (by omega)
        simp only [List.cons_append, List.nil_append]
        rw [this, hm.1]
        cases unescape xs <;> simp
      · simp at hm
    · simp at h

/-- `Stream.WriteString` followed by anything decodes to the original bytes and that remainder:
    the escaping jsoniter applies to label names and values is lossless for every byte string. -/
theorem pString_writeString (s rest : Bytes) : pString (writeString s ++ rest) = some (s, rest) := by
  unfold writeString pString
  simp only [List.cons_append, List.nil_append, List.append_assoc]
  induction s with
  | nil => rw [unescape.eq_def]; simp
  | cons b s ih =>
    simp only [List.flatMap_cons, List.append_assoc]
    rw [unescape_escByte, ih]; rfl

end Prom.Api.Json
