import PromProofs.HistIdx
/-
  Pure list lemmas about the index-level specification functions (`mergeU`, `specF`, `weave`, `adjMerge`).
-/
namespace Prom.Hist

/-! ## unfolding equations -/

theorem mergeU_cc (a b : Int) (A B : List Int) :
    mergeU (a :: A) (b :: B) =
      if a = b then a :: mergeU A B else if a < b then a :: mergeU A (b :: B) else b :: mergeU (a :: A) B := by
  rw [mergeU]

theorem mergeU_nil_r (A : List Int) : mergeU A [] = A := by cases A <;> simp [mergeU]
theorem mergeU_nil_l (B : List Int) : mergeU [] B = B := by cases B <;> simp [mergeU]

theorem specF_cc (k : Nat) (a b : Int) (A B : List Int) :
    specF k (a :: A) (b :: B) =
      if a = b then specF (k + 1) A B else if a < b then specF (k + 1) A (b :: B) else (k, b) :: specF k (a :: A) B := by
  rw [specF]

theorem specF_nil_r (k : Nat) (A : List Int) : specF k A [] = [] := by cases A <;> simp [specF]
theorem specF_nil_l (k : Nat) (B : List Int) : specF k [] B = B.map fun b => (k, b) := by cases B <;> simp [specF]

theorem weave_nil_P (i : Nat) (xs : List Int) : weave i xs [] = xs := by cases xs <;> simp [weave]
theorem weave_nil_xs (i : Nat) (p : Nat) (P : List Nat) : weave i [] (p :: P) = 0 :: weave i [] P := by simp [weave]
theorem weave_cc (i : Nat) (x : Int) (xs : List Int) (p : Nat) (P : List Nat) :
    weave i (x :: xs) (p :: P) = if p = i then 0 :: weave i (x :: xs) P else x :: weave (i + 1) xs (p :: P) := by
  rw [weave]

theorem weave_skip (i : Nat) (x : Int) (xs : List Int) (P : List Nat) (h : ∀ p ∈ P, p ≠ i) :
    weave i (x :: xs) P = x :: weave (i + 1) xs P := by
  cases P with
  | nil => simp [weave_nil_P]
  | cons p P => rw [weave_cc]; simp [h p (by simp)]

theorem weave_nil_zeros (i : Nat) (P : List Nat) : weave i [] P = List.replicate P.length 0 := by
  induction P with
  | nil => simp [weave_nil_P]
  | cons p P ih => simp [weave_nil_xs, ih, List.replicate_succ]

/-! ## specF -/

theorem specF_pos_ge (k : Nat) (A B : List Int) : ∀ e ∈ specF k A B, k ≤ e.1 := by
  fun_induction specF k A B <;> intro e he <;> simp_all <;> grind

theorem specF_snd_mem (k : Nat) (A B : List Int) : ∀ e ∈ specF k A B, e.2 ∈ B := by
  fun_induction specF k A B <;> intro e he <;> simp_all <;> grind

theorem mergeU_length (k : Nat) (A B : List Int) : (mergeU A B).length = A.length + (specF k A B).length := by
  fun_induction specF k A B <;> simp_all [mergeU_cc, mergeU_nil_r, mergeU_nil_l] <;> try omega
  rename_i h1 h2 ih; rw [if_neg (by omega)]; simp; omega

/-- no forward unit inserts: the merged layout is `A` -/
theorem mergeU_of_specF_nil (k : Nat) (A B : List Int) (h : specF k A B = []) : mergeU A B = A := by
  fun_induction specF k A B <;> simp_all [mergeU_cc, mergeU_nil_r]

theorem mergeU_comm (A B : List Int) : mergeU A B = mergeU B A := by
  fun_induction mergeU A B
  · rename_i A a B ih; simp [mergeU_cc, ih]
  · rename_i a A b B h1 h2 ih
    rw [mergeU_cc b a]; simp [show ¬ b = a by omega, show ¬ b < a by omega, ih]
  · rename_i a A b B h1 h2 ih
    rw [mergeU_cc b a]; simp [show ¬ b = a by omega, show b < a by omega, ih]
  · simp [mergeU_nil_l]
  · simp [mergeU_nil_r]

/-! ## the zip/filter lemma: weaving zeros in at the unit insert positions does not change the populated buckets -/

theorem zip_weave_filter (q : Int × Int → Bool) (hq : ∀ i, q (i, 0) = false) (k : Nat) (A B : List Int) :
    ∀ (xs : List Int), xs.length = A.length →
      ((mergeU A B).zip (weave k xs ((specF k A B).map (·.1)))).filter q = (A.zip xs).filter q := by
  fun_induction specF k A B with
  | case1 k A a B ih =>
    intro xs hl
    match xs, hl with
    | x :: xs, hl =>
      have hs : ∀ p ∈ (specF (k + 1) A B).map (·.1), p ≠ k := by
        intro p hp; simp only [List.mem_map] at hp; obtain ⟨e, he, rfl⟩ := hp
        have := specF_pos_ge _ _ _ e he; omega
      rw [weave_skip _ _ _ _ hs, mergeU_cc]
      simp only [if_true, List.zip_cons_cons, List.filter_cons]
      rw [ih xs (by simpa using hl)]
  | case2 k a A b B h1 h2 ih =>
    intro xs hl
    match xs, hl with
    | x :: xs, hl =>
      have hs : ∀ p ∈ (specF (k + 1) A (b :: B)).map (·.1), p ≠ k := by
        intro p hp; simp only [List.mem_map] at hp; obtain ⟨e, he, rfl⟩ := hp
        have := specF_pos_ge _ _ _ e he; omega
      rw [weave_skip _ _ _ _ hs, mergeU_cc]
      simp only [h1, h2, if_true, if_false, List.zip_cons_cons, List.filter_cons]
      rw [ih xs (by simpa using hl)]
  | case3 k a A b B h1 h2 ih =>
    intro xs hl
    match xs, hl with
    | x :: xs, hl =>
      rw [mergeU_cc]
      simp only [h1, h2, if_false, List.map_cons, weave_cc, if_true, List.zip_cons_cons]
      rw [List.filter_cons, hq]
      exact ih (x :: xs) hl
  | case4 k a A =>
    intro xs hl
    simp [mergeU_nil_r, weave_nil_P]
  | case5 k B =>
    intro xs hl
    have : xs = [] := by simpa using hl
    subst this
    simp only [mergeU_nil_l, weave_nil_zeros, List.length_map, List.zip_nil_left, List.filter_nil]
    induction B with
    | nil => simp
    | cons b B ih => simp [List.replicate_succ, hq, ih]

/-! ## sortedness -/

theorem mergeU_mem (A B : List Int) : ∀ x ∈ mergeU A B, x ∈ A ∨ x ∈ B := by
  fun_induction mergeU A B <;> intro x hx <;> simp_all <;> grind

theorem mem_mergeU_left (A B : List Int) : ∀ x ∈ A, x ∈ mergeU A B := by
  fun_induction mergeU A B <;> intro x hx <;> simp_all <;> grind

theorem mem_mergeU_right (A B : List Int) : ∀ x ∈ B, x ∈ mergeU A B := by
  fun_induction mergeU A B <;> intro x hx <;> simp_all <;> grind

theorem mem_mergeU_iff (A B : List Int) (x : Int) : x ∈ mergeU A B ↔ x ∈ A ∨ x ∈ B :=
  ⟨mergeU_mem A B x, fun h => h.elim (mem_mergeU_left A B x) (mem_mergeU_right A B x)⟩

theorem mergeU_sorted (A B : List Int) (hA : A.Pairwise (· < ·)) (hB : B.Pairwise (· < ·)) :
    (mergeU A B).Pairwise (· < ·) := by
  fun_induction mergeU A B with
  | case1 A a B ih =>
    rw [List.pairwise_cons] at hA hB ⊢
    refine ⟨?_, ih hA.2 hB.2⟩
    intro x hx; rcases mergeU_mem _ _ x hx with h | h
    · exact hA.1 x h
    · exact hB.1 x h
  | case2 a A b B h1 h2 ih =>
    simp only [List.pairwise_cons] at hA ⊢
    refine ⟨?_, ih hA.2 hB⟩
    intro x hx; rcases mergeU_mem _ _ x hx with h | h
    · exact hA.1 x h
    · simp only [List.pairwise_cons] at hB
      rcases List.mem_cons.1 h with rfl | h
      · exact h2
      · have := hB.1 x h; omega
  | case3 a A b B h1 h2 ih =>
    simp only [List.pairwise_cons] at hB ⊢
    refine ⟨?_, ih hA hB.2⟩
    intro x hx; rcases mergeU_mem _ _ x hx with h | h
    · simp only [List.pairwise_cons] at hA
      rcases List.mem_cons.1 h with rfl | h
      · omega
      · have := hA.1 x h; omega
    · exact hB.1 x h
  | case4 a A => exact hA
  | case5 B => exact hB

/-! ## adjustForInserts enumerates the merged layout -/

theorem adjMerge_nil_r (B : List Int) : adjMerge B [] = B := by cases B <;> simp [adjMerge]
theorem adjMerge_nil_l (I : List Int) : adjMerge [] I = I := by cases I <;> simp [adjMerge]
theorem adjMerge_cc (b i : Int) (B I : List Int) :
    adjMerge (b :: B) (i :: I) = if i < b then i :: adjMerge (b :: B) I else b :: adjMerge B (i :: I) := by
  rw [adjMerge]

theorem adjMerge_head_lt (b : Int) (B I : List Int) (h : ∀ i ∈ I, b < i) :
    adjMerge (b :: B) I = b :: adjMerge B I := by
  cases I with
  | nil => simp [adjMerge_nil_r]
  | cons i I => rw [adjMerge_cc]; have := h i (by simp); simp [show ¬ i < b by omega]

/-- `B` = the histogram's buckets, the backward inserts carry the indices `A \ B` (`specF k B A`):
    `adjustForInserts` enumerates the merged layout. -/
theorem adjMerge_spec (k : Nat) (B A : List Int) (hA : A.Pairwise (· < ·)) (hB : B.Pairwise (· < ·)) :
    adjMerge B ((specF k B A).map (·.2)) = mergeU A B := by
  fun_induction specF k B A with
  | case1 k B b A ih =>
    simp only [List.pairwise_cons] at hA hB
    rw [adjMerge_head_lt, mergeU_cc, ih hA.2 hB.2]; · simp
    intro i hi; simp only [List.mem_map] at hi; obtain ⟨e, he, rfl⟩ := hi
    exact hA.1 _ (specF_snd_mem _ _ _ e he)
  | case2 k b B a A h1 h2 ih =>
    simp only [List.pairwise_cons] at hB
    rw [adjMerge_head_lt, mergeU_cc, ih hA hB.2]
    · simp [show ¬ a = b by omega, show ¬ a < b by omega]
    intro i hi; simp only [List.mem_map] at hi; obtain ⟨e, he, rfl⟩ := hi
    have hm := specF_snd_mem _ _ _ e he
    simp only [List.pairwise_cons] at hA
    rcases List.mem_cons.1 hm with h | h
    · omega
    · have := hA.1 _ h; omega
  | case3 k b B a A h1 h2 ih =>
    simp only [List.pairwise_cons] at hA
    have hab : a < b := by omega
    rw [List.map_cons, adjMerge_cc, mergeU_cc, ih hA.2 hB]
    simp [hab, show ¬ a = b by omega]
  | case4 k b B => simp [adjMerge_nil_r, mergeU_nil_l]
  | case5 k A => simp [adjMerge_nil_l, mergeU_nil_r, Function.comp_def]

end Prom.Hist
