import PromModel.Promql.Lexical
/-
  Property C26, lexical layer: label values and string literals survive the printer's quoting.

  `quote` (= Go `strconv.Quote`) followed by `unquote` (= prometheus `strutil.Unquote`) is the
  identity on ALL byte strings, including invalid UTF-8 (rendered `\xNN`) and non-printable runes
  (rendered `\uXXXX` / `\UXXXXXXXX`).

  Route:
  * `Dec s r w`: the four shapes of a successful `decodeRune`; `decodeRune_ind` is the matching
    case principle, `Dec.encode` / `Dec.decode_take` the UTF-8 round trip on one rune.
  * `hexRun_hexN`: `hexRun?` reads back what `hexN` printed.
  * `ChunkOK c o`: one chunk `c` emitted by `quoteBody` for source bytes `o` is consumed by
    `unquoteChar 34` yielding `o`; it has no raw newline; it either starts with a backslash or is `o`.
  * induction over the fuel for both paths of `unquote`.
-/
namespace Prom.Promql

/-- Shapes of a successful (non-error) decode. -/
inductive Dec : Bytes → Nat → Nat → Prop
  | ascii (b0 : UInt8) (rest : Bytes) : b0.toNat < 0x80 → Dec (b0 :: rest) b0.toNat 1
  | two (b0 b1 : UInt8) (rest : Bytes) : 0xC2 ≤ b0.toNat → b0.toNat < 0xE0 → 0x80 ≤ b1.toNat → b1.toNat < 0xC0 →
      Dec (b0 :: b1 :: rest) ((b0.toNat - 0xC0) * 64 + (b1.toNat - 0x80)) 2
  | three (b0 b1 b2 : UInt8) (rest : Bytes) : 0xE0 ≤ b0.toNat → b0.toNat < 0xF0 →
      0x80 ≤ b1.toNat → b1.toNat < 0xC0 → (b0.toNat = 0xE0 → 0xA0 ≤ b1.toNat) → (b0.toNat = 0xED → b1.toNat < 0xA0) →
      0x80 ≤ b2.toNat → b2.toNat < 0xC0 →
      Dec (b0 :: b1 :: b2 :: rest) ((b0.toNat - 0xE0) * 4096 + (b1.toNat - 0x80) * 64 + (b2.toNat - 0x80)) 3
  | four (b0 b1 b2 b3 : UInt8) (rest : Bytes) : 0xF0 ≤ b0.toNat → b0.toNat < 0xF5 →
      0x80 ≤ b1.toNat → b1.toNat < 0xC0 → (b0.toNat = 0xF0 → 0x90 ≤ b1.toNat) → (b0.toNat = 0xF4 → b1.toNat < 0x90) →
      0x80 ≤ b2.toNat → b2.toNat < 0xC0 → 0x80 ≤ b3.toNat → b3.toNat < 0xC0 →
      Dec (b0 :: b1 :: b2 :: b3 :: rest)
        ((b0.toNat - 0xF0) * 262144 + (b1.toNat - 0x80) * 4096 + (b2.toNat - 0x80) * 64 + (b3.toNat - 0x80)) 4

theorem ite_ind {α : Type} {c : Prop} [Decidable c] {a b : α} (P : α → Prop)
    (h1 : c → P a) (h2 : ¬c → P b) : P (if c then a else b) := by
  split
  · exact h1 ‹_›
  · exact h2 ‹_›

theorem decodeRune_ind (b0 : UInt8) (rest : Bytes) (P : Nat × Nat → Prop) (hbad : P (0xFFFD, 1))
    (hgood : ∀ r w, Dec (b0 :: rest) r w → P (r, w)) : P (decodeRune (b0 :: rest)) := by
  unfold decodeRune
  simp only []
  refine ite_ind P (fun h1 => ?_) (fun h1 => ?_)
  · exact hgood _ _ (Dec.ascii _ _ h1)
  refine ite_ind P (fun h2 => hbad) (fun h2 => ?_)
  refine ite_ind P (fun h3 => ?_) (fun h3 => ?_)
  · rcases rest with _ | ⟨b1, rest⟩
    · exact hbad
    · dsimp only
      refine ite_ind P (fun h => ?_) (fun h => hbad)
      simp at h
      exact hgood _ _ (by apply Dec.two <;> omega)
  refine ite_ind P (fun h4 => ?_) (fun h4 => ?_)
  · rcases rest with _ | ⟨b1, _ | ⟨b2, rest⟩⟩
    · exact hbad
    · exact hbad
    · dsimp only
      refine ite_ind P (fun h => ?_) (fun h => hbad)
      have h' : (b0.toNat = 0xE0 → 0xA0 ≤ b1.toNat) ∧ (b0.toNat = 0xED → b1.toNat < 0xA0) ∧
          0x80 ≤ b1.toNat ∧ b1.toNat < 0xC0 ∧ 0x80 ≤ b2.toNat ∧ b2.toNat < 0xC0 := by
        by_cases e0 : b0.toNat = 0xE0 <;> by_cases ed : b0.toNat = 0xED <;> simp [e0, ed] at h <;> omega
      exact hgood _ _ (by apply Dec.three <;> omega)
  refine ite_ind P (fun h5 => ?_) (fun h5 => hbad)
  · rcases rest with _ | ⟨b1, _ | ⟨b2, _ | ⟨b3, rest⟩⟩⟩
    · exact hbad
    · exact hbad
    · exact hbad
    · dsimp only
      refine ite_ind P (fun h => ?_) (fun h => hbad)
      have h' : (b0.toNat = 0xF0 → 0x90 ≤ b1.toNat) ∧ (b0.toNat = 0xF4 → b1.toNat < 0x90) ∧
          0x80 ≤ b1.toNat ∧ b1.toNat < 0xC0 ∧ 0x80 ≤ b2.toNat ∧ b2.toNat < 0xC0 ∧
          0x80 ≤ b3.toNat ∧ b3.toNat < 0xC0 := by
        by_cases e0 : b0.toNat = 0xF0 <;> by_cases ed : b0.toNat = 0xF4 <;> simp [e0, ed] at h <;> omega
      exact hgood _ _ (by apply Dec.four <;> omega)

theorem ofNat_eq (b : UInt8) (n : Nat) (h : n = b.toNat) : UInt8.ofNat n = b := by
  subst h; simp

theorem enc1 (r : Nat) (h : r < 0x80) : encodeRune r = [UInt8.ofNat r] := by
  have hc : ((0xD800 ≤ r && r < 0xE000) || r > 0x10FFFF) = false := by simp; omega
  simp only [encodeRune, hc, Bool.false_eq_true, if_false]
  rw [if_pos h]

theorem enc2 (r : Nat) (h : 0x80 ≤ r) (h' : r < 0x800) :
    encodeRune r = [UInt8.ofNat (0xC0 + r / 64), UInt8.ofNat (0x80 + r % 64)] := by
  have hc : ((0xD800 ≤ r && r < 0xE000) || r > 0x10FFFF) = false := by simp; omega
  simp only [encodeRune, hc, Bool.false_eq_true, if_false]
  rw [if_neg (by omega), if_pos h']

theorem enc3 (r : Nat) (h : 0x800 ≤ r) (h' : r < 0x10000) (hs : ¬(0xD800 ≤ r ∧ r < 0xE000)) :
    encodeRune r = [UInt8.ofNat (0xE0 + r / 4096), UInt8.ofNat (0x80 + r / 64 % 64), UInt8.ofNat (0x80 + r % 64)] := by
  have hc : ((0xD800 ≤ r && r < 0xE000) || r > 0x10FFFF) = false := by simp; omega
  simp only [encodeRune, hc, Bool.false_eq_true, if_false]
  rw [if_neg (by omega), if_neg (by omega), if_pos h']

theorem enc4 (r : Nat) (h : 0x10000 ≤ r) (h' : r ≤ 0x10FFFF) :
    encodeRune r = [UInt8.ofNat (0xF0 + r / 262144), UInt8.ofNat (0x80 + r / 4096 % 64),
      UInt8.ofNat (0x80 + r / 64 % 64), UInt8.ofNat (0x80 + r % 64)] := by
  have hc : ((0xD800 ≤ r && r < 0xE000) || r > 0x10FFFF) = false := by simp; omega
  simp only [encodeRune, hc, Bool.false_eq_true, if_false]
  rw [if_neg (by omega), if_neg (by omega), if_neg (by omega)]

theorem Dec.encode {s : Bytes} {r w : Nat} (h : Dec s r w) : encodeRune r = s.take w := by
  cases h with
  | ascii b0 rest h => rw [enc1 _ h]; simp
  | two b0 b1 rest h1 h2 h3 h4 =>
    rw [enc2 _ (by omega) (by omega)]
    simp only [List.take_succ_cons, List.take_zero]
    rw [ofNat_eq b0 _ (by omega), ofNat_eq b1 _ (by omega)]
  | three b0 b1 b2 rest h1 h2 h3 h4 h5 h6 h7 h8 =>
    rw [enc3 _ (by omega) (by omega) (by omega)]
    simp only [List.take_succ_cons, List.take_zero]
    rw [ofNat_eq b0 _ (by omega), ofNat_eq b1 _ (by omega), ofNat_eq b2 _ (by omega)]
  | four b0 b1 b2 b3 rest h1 h2 h3 h4 h5 h6 h7 h8 h9 h10 =>
    rw [enc4 _ (by omega) (by omega)]
    simp only [List.take_succ_cons, List.take_zero]
    rw [ofNat_eq b0 _ (by omega), ofNat_eq b1 _ (by omega), ofNat_eq b2 _ (by omega), ofNat_eq b3 _ (by omega)]

theorem Dec.range {s : Bytes} {r w : Nat} (h : Dec s r w) :
    r ≤ 0x10FFFF ∧ ¬(0xD800 ≤ r ∧ r < 0xE000) ∧ 1 ≤ w ∧ w ≤ s.length := by
  cases h <;> simp only [List.length_cons] <;> omega

theorem Dec.ascii_inv {s : Bytes} {r w : Nat} (h : Dec s r w) (hr : r < 0x80) :
    ∃ b0 rest, s = b0 :: rest ∧ b0.toNat = r ∧ w = 1 := by
  cases h with
  | ascii b0 rest h => exact ⟨b0, rest, rfl, rfl, rfl⟩
  | two => omega
  | three => omega
  | four => omega

theorem Dec.high {s : Bytes} {r w : Nat} (h : Dec s r w) (hr : 0x80 ≤ r) :
    ∀ b ∈ s.take w, 0x80 ≤ b.toNat := by
  cases h with
  | ascii b0 rest h => omega
  | two => simp; omega
  | three => simp; omega
  | four => simp; omega

theorem Dec.decode_take {s : Bytes} {r w : Nat} (h : Dec s r w) (t : Bytes) :
    decodeRune (s.take w ++ t) = (r, w) := by
  cases h with
  | ascii b0 rest h => simp [decodeRune, h]
  | two b0 b1 rest h1 h2 h3 h4 =>
    have : ¬ b0.toNat < 0x80 := by omega
    have : ¬ b0.toNat < 0xC2 := by omega
    simp [decodeRune, *]
  | three b0 b1 b2 rest h1 h2 h3 h4 h5 h6 h7 h8 =>
    have : ¬ b0.toNat < 0x80 := by omega
    have : ¬ b0.toNat < 0xC2 := by omega
    have : ¬ b0.toNat < 0xE0 := by omega
    by_cases e0 : b0.toNat = 0xE0 <;> by_cases ed : b0.toNat = 0xED <;> simp [decodeRune, *] <;> omega
  | four b0 b1 b2 b3 rest h1 h2 h3 h4 h5 h6 h7 h8 h9 h10 =>
    have : ¬ b0.toNat < 0x80 := by omega
    have : ¬ b0.toNat < 0xC2 := by omega
    have : ¬ b0.toNat < 0xE0 := by omega
    have : ¬ b0.toNat < 0xF0 := by omega
    by_cases e0 : b0.toNat = 0xF0 <;> by_cases ed : b0.toNat = 0xF4 <;> simp [decodeRune, *] <;> omega

theorem hexVal_hexDigit : ∀ d, d < 16 → hexValB? (hexDigitB d) = some d := by decide

theorem hexDigit_ne : ∀ d, d < 16 → hexDigitB d ≠ 10 := by decide

theorem hexN_succ (n r : Nat) : hexN (n+1) r = hexDigitB (r / 16^n % 16) :: hexN n r := by
  simp [hexN, List.range_succ]

theorem hexRun_hexN : ∀ (n r : Nat) (t : Bytes), hexRun? n (hexN n r ++ t) = some (r % 16^n, t) := by
  intro n
  induction n with
  | zero => intro r t; simp [hexN, hexRun?, Nat.mod_one]
  | succ n ih =>
    intro r t
    have h := hexVal_hexDigit (r / 16^n % 16) (Nat.mod_lt _ (by decide))
    simp [hexN_succ, hexRun?, h, ih, Nat.mod_pow_succ]
    rw [Nat.mul_comm, Nat.add_comm]

theorem hexN_no_nl (n r : Nat) : (10 : UInt8) ∉ hexN n r := by
  intro h
  simp only [hexN, List.mem_map] at h
  obtain ⟨i, _, hi⟩ := h
  exact hexDigit_ne _ (Nat.mod_lt _ (by decide)) hi

/-- What one step of `unquoteChar 34` must do with a chunk `c` that `quoteBody` emitted for the
    source bytes `o`. -/
structure ChunkOK (c o : Bytes) : Prop where
  unq : ∀ t, unquoteChar 34 (c ++ t) = some (o, t)
  esc : (∃ c', c = 92 :: c') ∨ c = o
  nonl : (10 : UInt8) ∉ c

theorem chunk_hex2 (b0 : UInt8) : ChunkOK (92 :: 120 :: hexN 2 b0.toNat) [b0] := by
  refine ⟨fun t => ?_, Or.inl ⟨_, rfl⟩, ?_⟩
  · have hm : b0.toNat % 16 ^ 2 = b0.toNat := Nat.mod_eq_of_lt (by have := b0.toNat_lt; omega)
    simp [unquoteChar, hexRun_hexN, hm]
  · have := hexN_no_nl 2 b0.toNat
    simp [this]

theorem bs_a : bs "\\a" = [92, 97] := by with_unfolding_all rfl
theorem bs_b : bs "\\b" = [92, 98] := by with_unfolding_all rfl
theorem bs_f : bs "\\f" = [92, 102] := by with_unfolding_all rfl
theorem bs_n : bs "\\n" = [92, 110] := by with_unfolding_all rfl
theorem bs_r : bs "\\r" = [92, 114] := by with_unfolding_all rfl
theorem bs_t : bs "\\t" = [92, 116] := by with_unfolding_all rfl
theorem bs_v : bs "\\v" = [92, 118] := by with_unfolding_all rfl

theorem u8_of_toNat (b : UInt8) (n : Nat) (h : b.toNat = n) : b = UInt8.ofNat n := by
  subst h; simp

theorem chunk_ascii (b0 : UInt8) (h : b0.toNat < 0x80) : ChunkOK (escapeRune b0.toNat) [b0] := by
  generalize hr : b0.toNat = r at h
  have hb := u8_of_toNat b0 r hr
  subst hb
  by_cases h1 : r = 34
  · subst h1; exact ⟨fun t => rfl, Or.inl ⟨_, rfl⟩, by decide⟩
  by_cases h2 : r = 92
  · subst h2; exact ⟨fun t => rfl, Or.inl ⟨_, rfl⟩, by decide⟩
  by_cases hp : isPrintRune r = true
  · have e : escapeRune r = [UInt8.ofNat r] := by
      simp [escapeRune, h1, h2, hp, enc1 r h]
    have hp' : 0x20 ≤ r ∧ r < 0x7F := by simpa [isPrintRune, h] using hp
    rw [e]
    refine ⟨fun t => ?_, Or.inr rfl, ?_⟩
    · have a1 : (UInt8.ofNat r == 34) = false := by
        simp [← UInt8.toNat_inj]; omega
      have a2 : ¬ (UInt8.ofNat r ≥ 0x80) := by
        simp [UInt8.le_iff_toNat_le]; omega
      have a3 : (UInt8.ofNat r != 92) = true := by
        simp [← UInt8.toNat_inj]; omega
      simp [unquoteChar, a1, a2, a3]
    · simp [← UInt8.toNat_inj]; omega
  have hp' : r < 0x20 ∨ r = 0x7F := by
    simp [isPrintRune, h] at hp; omega
  by_cases h7 : r = 7
  · subst h7; refine ⟨fun t => ?_, Or.inl ⟨[97], ?_⟩, ?_⟩ <;> simp [escapeRune, isPrintRune, bs_a, unquoteChar]
  by_cases h8 : r = 8
  · subst h8; refine ⟨fun t => ?_, Or.inl ⟨[98], ?_⟩, ?_⟩ <;> simp [escapeRune, isPrintRune, bs_b, unquoteChar]
  by_cases h12 : r = 12
  · subst h12; refine ⟨fun t => ?_, Or.inl ⟨[102], ?_⟩, ?_⟩ <;> simp [escapeRune, isPrintRune, bs_f, unquoteChar]
  by_cases h10 : r = 10
  · subst h10; refine ⟨fun t => ?_, Or.inl ⟨[110], ?_⟩, ?_⟩ <;> simp [escapeRune, isPrintRune, bs_n, unquoteChar]
  by_cases h13 : r = 13
  · subst h13; refine ⟨fun t => ?_, Or.inl ⟨[114], ?_⟩, ?_⟩ <;> simp [escapeRune, isPrintRune, bs_r, unquoteChar]
  by_cases h9 : r = 9
  · subst h9; refine ⟨fun t => ?_, Or.inl ⟨[116], ?_⟩, ?_⟩ <;> simp [escapeRune, isPrintRune, bs_t, unquoteChar]
  by_cases h11 : r = 11
  · subst h11; refine ⟨fun t => ?_, Or.inl ⟨[118], ?_⟩, ?_⟩ <;> simp [escapeRune, isPrintRune, bs_v, unquoteChar]
  have hx : (decide (r < 0x20) || r == 0x7F) = true := by simp; omega
  have e : escapeRune r = 92 :: 120 :: hexN 2 r := by
    simp [escapeRune, h1, h2, hp, h7, h8, h12, h10, h13, h9, h11, hx]
  have hn : (UInt8.ofNat r).toNat = r := by simp; omega
  have := chunk_hex2 (UInt8.ofNat r)
  rw [hn] at this
  rw [e]; exact this

theorem chunk_high {s : Bytes} {r w : Nat} (h : Dec s r w) (hr : 0x80 ≤ r) :
    ChunkOK (escapeRune r) (s.take w) := by
  obtain ⟨hmax, hsur, hw1, hwl⟩ := h.range
  have h1 : (r == 34 || r == 92) = false := by simp; omega
  by_cases hp : isPrintRune r = true
  · have e : escapeRune r = s.take w := by
      simp [escapeRune, h1, hp, h.encode]
    rw [e]
    refine ⟨fun t => ?_, Or.inr rfl, ?_⟩
    · have hd := h.decode_take t
      have hh := h.high hr
      have hlen : (s.take w).length = w := by simp; omega
      cases hs : s.take w with
      | nil => simp [hs] at hlen; omega
      | cons c tl =>
        have hc : 0x80 ≤ c.toNat := hh c (by simp [hs])
        rw [hs] at hd hlen
        have a1 : (c == 34) = false := by
          simp [← UInt8.toNat_inj]; omega
        have a2 : c ≥ 0x80 := by
          simp [UInt8.le_iff_toNat_le]; omega
        have hdrop : List.drop w (c :: (tl ++ t)) = t := by
          have : c :: (tl ++ t) = (c :: tl) ++ t := rfl
          rw [this, ← hlen, List.drop_left]
        simp only [unquoteChar, List.cons_append, a1, a2, Bool.false_eq_true, if_false, if_true]
        simp only [List.cons_append] at hd
        rw [hd]
        simp only [hdrop, h.encode, hs]
    · intro hm
      have := h.high hr _ hm
      simp at this
  · have hx : (decide (r < 0x20) || r == 0x7F) = false := by simp; omega
    have hs' : ((decide (0xD800 ≤ r) && decide (r < 0xE000)) || decide (r > 0x10FFFF)) = false := by simp; omega
    have hne : r ≠ 7 ∧ r ≠ 8 ∧ r ≠ 12 ∧ r ≠ 10 ∧ r ≠ 13 ∧ r ≠ 9 ∧ r ≠ 11 := by omega
    by_cases h4 : r < 0x10000
    · have e : escapeRune r = 92 :: 117 :: hexN 4 r := by
        simp [escapeRune, h1, hp, hx, hs', hne, h4]
      rw [e]
      refine ⟨fun t => ?_, Or.inl ⟨_, rfl⟩, ?_⟩
      · have hm : r % 16 ^ 4 = r := Nat.mod_eq_of_lt (by omega)
        simp [unquoteChar, hexRun_hexN, hm, h.encode]
      · have := hexN_no_nl 4 r
        simp [this]
    · have e : escapeRune r = 92 :: 85 :: hexN 8 r := by
        simp [escapeRune, h1, hp, hx, hs', hne, h4]
      rw [e]
      refine ⟨fun t => ?_, Or.inl ⟨_, rfl⟩, ?_⟩
      · have hm : r % 16 ^ 8 = r := Nat.mod_eq_of_lt (by omega)
        have hle : ¬ (r > 0x10FFFF) := by omega
        simp [unquoteChar, hexRun_hexN, hm, h.encode, hle]
      · have := hexN_no_nl 8 r
        simp [this]

/-- The chunk `quoteBody` emits for the first rune of a non-empty `s`. -/
def chunkOf (b0 : UInt8) (p : Nat × Nat) : Bytes :=
  if p.2 == 1 && p.1 == 0xFFFD then 92 :: 120 :: hexN 2 b0.toNat else escapeRune p.1

theorem quoteBody_step (f : Nat) (b0 : UInt8) (rest : Bytes) :
    quoteBody (f + 1) (b0 :: rest) =
      chunkOf b0 (decodeRune (b0 :: rest)) ++
        quoteBody f ((b0 :: rest).drop (decodeRune (b0 :: rest)).2) := by
  simp only [quoteBody, chunkOf]
  split
  · rename_i h
    simp only [Bool.and_eq_true, beq_iff_eq] at h
    rw [h.1]
  · rfl

theorem chunk_step (b0 : UInt8) (rest : Bytes) :
    ChunkOK (chunkOf b0 (decodeRune (b0 :: rest))) ((b0 :: rest).take (decodeRune (b0 :: rest)).2) ∧
      1 ≤ (decodeRune (b0 :: rest)).2 := by
  refine decodeRune_ind b0 rest
    (fun p => ChunkOK (chunkOf b0 p) ((b0 :: rest).take p.2) ∧ 1 ≤ p.2) ?_ ?_
  · exact ⟨by simpa [chunkOf] using chunk_hex2 b0, by decide⟩
  · intro r w h
    have hne : (w == 1 && r == 0xFFFD) = false := by
      cases h <;> simp <;> omega
    refine ⟨?_, h.range.2.2.1⟩
    simp only [chunkOf, hne, Bool.false_eq_true, if_false]
    by_cases hr : r < 0x80
    · obtain ⟨c0, rest', hs, hc, hw⟩ := h.ascii_inv hr
      cases hs; subst hw; subst hc
      simpa using chunk_ascii b0 hr
    · exact chunk_high h (by omega)

theorem unquoteBody_quoteBody : ∀ (f : Nat) (s : Bytes), s.length ≤ f →
    ∀ f2, (quoteBody f s).length ≤ f2 → unquoteBody 34 f2 (quoteBody f s) = some s := by
  intro f
  induction f with
  | zero =>
    intro s hs f2 _
    have : s = [] := List.eq_nil_of_length_eq_zero (by omega)
    subst this
    cases f2 <;> simp [quoteBody, unquoteBody]
  | succ f ih =>
    intro s hs f2 hf2
    cases s with
    | nil => cases f2 <;> simp [quoteBody, unquoteBody]
    | cons b0 rest =>
      obtain ⟨hc, hw⟩ := chunk_step b0 rest
      rw [quoteBody_step] at hf2 ⊢
      generalize hcd : chunkOf b0 (decodeRune (b0 :: rest)) = c at hc hf2 ⊢
      generalize hwd : (decodeRune (b0 :: rest)).2 = w at hc hw hf2 ⊢
      have hu := hc.unq (quoteBody f ((b0 :: rest).drop w))
      have hcne : c ≠ [] := by
        intro h0; subst h0
        have := hc.unq []
        simp [unquoteChar] at this
      have hclen : 1 ≤ c.length := by
        cases c with
        | nil => exact absurd rfl hcne
        | cons _ _ => simp
      cases f2 with
      | zero => simp only [List.length_append] at hf2; omega
      | succ f2 =>
        have hdl : ((b0 :: rest).drop w).length ≤ f := by
          rw [List.length_drop]; omega
        have hrec := ih ((b0 :: rest).drop w) hdl f2 (by simp only [List.length_append] at hf2; omega)
        cases hcs : c ++ quoteBody f ((b0 :: rest).drop w) with
        | nil => simp at hcs; exact absurd hcs.1 hcne
        | cons x xs =>
          rw [hcs] at hu
          simp only [unquoteBody, hu, hrec, Option.bind_eq_bind, Option.bind_some, Option.pure_def]
          simp only [List.take_append_drop]

theorem quoteBody_no_nl : ∀ (f : Nat) (s : Bytes), (10 : UInt8) ∉ quoteBody f s := by
  intro f
  induction f with
  | zero => intro s; simp [quoteBody]
  | succ f ih =>
    intro s
    cases s with
    | nil => simp [quoteBody]
    | cons b0 rest =>
      rw [quoteBody_step]
      have := (chunk_step b0 rest).1.nonl
      simp [this, ih]

theorem quoteBody_no_esc : ∀ (f : Nat) (s : Bytes), s.length ≤ f →
    (92 : UInt8) ∉ quoteBody f s → quoteBody f s = s := by
  intro f
  induction f with
  | zero =>
    intro s hs _
    have : s = [] := List.eq_nil_of_length_eq_zero (by omega)
    subst this; simp [quoteBody]
  | succ f ih =>
    intro s hs hn
    cases s with
    | nil => simp [quoteBody]
    | cons b0 rest =>
      obtain ⟨hc, hw⟩ := chunk_step b0 rest
      rw [quoteBody_step] at hn ⊢
      simp only [List.mem_append, not_or] at hn
      have hdl : ((b0 :: rest).drop (decodeRune (b0 :: rest)).2).length ≤ f := by
        rw [List.length_drop]; omega
      rw [ih _ hdl hn.2]
      rcases hc.esc with ⟨c', hc'⟩ | hc'
      · rw [hc'] at hn; simp at hn
      · rw [hc', List.take_append_drop]

theorem quote_unquote (s : Bytes) : unquote (quote s) = some s := by
  have hnl := quoteBody_no_nl s.length s
  have hlast : (quoteBody s.length s ++ [34]).getLast? = some 34 := by simp
  have hdrop : (quoteBody s.length s ++ [34]).dropLast = quoteBody s.length s := by simp
  simp only [unquote, quote, hlast, hdrop]
  have hc10 : (quoteBody s.length s).contains 10 = false := by simpa using hnl
  simp only [hc10]
  rw [if_neg (by decide), if_neg (by decide), if_neg (by decide), if_neg (by decide)]
  by_cases hfast : (!(quoteBody s.length s).contains 92 && !(quoteBody s.length s).contains 34) = true
  · have h92 : (92 : UInt8) ∉ quoteBody s.length s := by
      simp only [Bool.and_eq_true, Bool.not_eq_true', List.contains_eq_mem, decide_eq_false_iff_not] at hfast
      exact hfast.1
    rw [if_pos hfast, quoteBody_no_esc s.length s (Nat.le_refl _) h92]
  · rw [if_neg hfast]
    exact unquoteBody_quoteBody s.length s (Nat.le_refl _) _ (Nat.le_refl _)

/-- UTF-8 round trip on one rune: a successful decode re-encodes to exactly the bytes consumed. -/
theorem encodeRune_decodeRune (s : Bytes) (hs : s ≠ []) (hv : decodeRune s ≠ (0xFFFD, 1)) :
    encodeRune (decodeRune s).1 = s.take (decodeRune s).2 := by
  cases s with
  | nil => exact absurd rfl hs
  | cons b0 rest =>
    revert hv
    refine decodeRune_ind b0 rest
      (fun p => p ≠ (0xFFFD, 1) → encodeRune p.1 = (b0 :: rest).take p.2) (fun h => absurd rfl h) ?_
    intro r w h _
    exact h.encode

/-- Corollary kept under the layered name: the ASCII-only instance of `quote_unquote`. -/
theorem quote_unquote_ascii_partial (s : Bytes) (_h : ∀ b ∈ s, b < 0x80) :
    unquote (quote s) = some s := quote_unquote s

/-- The full statement as a `Prop`, and its proof. -/
def quote_unquote_full : Prop := ∀ s : Bytes, unquote (quote s) = some s

theorem quote_unquote_full_holds : quote_unquote_full := quote_unquote

end Prom.Promql
