import PromProofs.DbWalAux
import PromProofs.DbXInv
/-
  C01 refinement, restart: head compaction (`DB.Compact`) and `CleanTombstones` keep the WAL
  invariant `WalInv`.

  One head compaction leaves the WAL alone, so the replayed head is the same; the live head loses the
  samples below the block boundary `cMaxt d`. Those become "replayed but not live" samples, which must
  be older than the new `minValid` (they are: `cMaxt d ≤ minValid'`) and hidden in the replayed head.
  A visible one would have been written to the new block, whose `maxt = cMaxt d` then bounds every
  admissible cutoff from below — but replayed samples are at or above the cutoff.
-/
namespace Prom.Db
open Prom.Intervals

/-- (P) The physical samples of the live head after one head compaction, in function view. -/
theorem compactHeadOnce_mem_phys {d : Db} (hn : d.series.Pairwise (fun s s' => s.idx ≠ s'.idx))
    (hlt : d.minT < cMaxt d) (j : Nat) (x : Smp) :
    x ∈ (d.compactHeadOnce.getSeries j).phys ↔ x ∈ (d.getSeries j).phys ∧ cMaxt d ≤ x.t := by
  rw [compactHeadOnce_getSeries hn hlt j]
  by_cases hf : ((d.getSeries j).phys.filter fun x => x.t ≥ cMaxt d) = []
  · rw [if_pos hf]
    constructor
    · intro h; exact absurd h List.not_mem_nil
    · rintro ⟨h1, h2⟩
      have hm : x ∈ (d.getSeries j).phys.filter fun x => x.t ≥ cMaxt d := by
        simp only [List.mem_filter, decide_eq_true_eq]; exact ⟨h1, h2⟩
      rw [hf] at hm
      exact absurd hm List.not_mem_nil
  · rw [if_neg hf]
    simp only [List.mem_filter, decide_eq_true_eq, ge_iff_le]

/-- (V) Surviving samples keep their visibility. -/
theorem compactHeadOnce_visible {d : Db} (hn : d.series.Pairwise (fun s s' => s.idx ≠ s'.idx))
    (hlt : d.minT < cMaxt d) (j : Nat) (x : Smp) (hx : x ∈ (d.compactHeadOnce.getSeries j).phys) :
    visible (d.compactHeadOnce.getSeries j).tombs x = visible (d.getSeries j).tombs x := by
  have hge := ((compactHeadOnce_mem_phys hn hlt j x).1 hx).2
  rw [compactHeadOnce_getSeries hn hlt j] at hx ⊢
  by_cases hf : ((d.getSeries j).phys.filter fun x => x.t ≥ cMaxt d) = []
  · rw [if_pos hf] at hx
    exact absurd hx List.not_mem_nil
  · rw [if_neg hf]
    exact visible_filter_tombs hge

/-- One head compaction keeps the WAL invariant. -/
theorem compactHeadOnce_walInv {d : Db} {r : Ref} (hG : Good d r) (hX : XInv d) (_happ : d.app = none)
    (hW : WalInv d) : WalInv d.compactHeadOnce := by
  have hlt : d.minT < cMaxt d := lt_rangeFor d.minT d.cfg.chunkRange hG.cr
  have hn := hG.inv.idxNodup
  obtain ⟨hmv1, hmv2, hwal⟩ := compactHeadOnce_minValid_ge hX hG.cr
  intro c hc
  rw [compactHeadOnce_blocks hlt] at hc
  have hc1 : maxBlk d.blocks ≤ c := by
    refine Int.le_trans (maxBlk_mono ?_) hc
    intro b hb
    exact ⟨b, mem_cBlocks.2 (Or.inl hb), rfl⟩
  have hc2 : cBser d ≠ [] → cMaxt d ≤ c := by
    intro hne
    have hm : (⟨d.minT, cMaxt d, cBser d⟩ : Block) ∈ cBlocks d := mem_cBlocks.2 (Or.inr ⟨hne, rfl⟩)
    exact Int.le_trans (le_maxBlk hm) hc
  have R := hW c hc1
  rw [hwal]
  refine ⟨R.rinv, ?_, ?_, ?_, R.tombHi, R.tombsOk, R.phys64⟩
  · intro i x hx hcx
    exact R.sub i x ((compactHeadOnce_mem_phys hn hlt i x).1 hx).1 hcx
  · intro i x hx
    rcases R.sup i x hx with h | ⟨h1, h2⟩
    · by_cases hge : cMaxt d ≤ x.t
      · exact Or.inl ((compactHeadOnce_mem_phys hn hlt i x).2 ⟨h, hge⟩)
      · right
        refine ⟨by omega, ?_⟩
        have hcx := R.rinv.getSeries_ge i x hx
        have hv := R.vis i x h hcx
        cases hvd : visible (d.getSeries i).tombs x with
        | false => rw [hv, hvd]
        | true =>
          exfalso
          rcases getSeries_cases d i with hcs | hcs
          · have hlo := hG.inv.physLo _ hcs.1 x h
            have hxf : x ∈ (d.getSeries i).phys.filter fun x =>
                d.minT ≤ x.t ∧ x.t ≤ cMaxt d - 1 ∧ visible (d.getSeries i).tombs x := by
              simp only [List.mem_filter, decide_eq_true_eq]
              exact ⟨h, hlo, by omega, hvd⟩
            have hbs := mem_cBser.2 ⟨_, hcs.1, List.ne_nil_of_mem hxf, rfl⟩
            have := hc2 (List.ne_nil_of_mem hbs)
            omega
          · rw [hcs.2] at h
            exact absurd h List.not_mem_nil
    · exact Or.inr ⟨by omega, h2⟩
  · intro i x hx hcx
    rw [compactHeadOnce_visible hn hlt i x hx]
    exact R.vis i x ((compactHeadOnce_mem_phys hn hlt i x).1 hx).1 hcx

/-- The compaction loop keeps the WAL invariant. -/
theorem compactGo_walInv {r : Ref} : ∀ (fuel : Nat) (d : Db), Good d r → XInv d → d.app = none →
    WalInv d → WalInv (Db.compact.go fuel d)
  | 0, _, _, _, _, hW => hW
  | fuel + 1, d, hG, hX, happ, hW => by
    unfold Db.compact.go
    split
    · rename_i hc
      have := compactHeadOnce_preserves hG happ
      exact compactGo_walInv fuel _ this.1 (compactHeadOnce_xinv hG.inv hX hG.cr happ hc) this.2
        (compactHeadOnce_walInv hG hX happ hW)
    · exact hW

/-- `DB.Compact` keeps the WAL invariant. -/
theorem compact_walInv {d : Db} {r : Ref} (hG : Good d r) (hX : XInv d) (happ : d.app = none)
    (hW : WalInv d) : WalInv d.compact :=
  compactGo_walInv 64 d hG hX happ hW

/-- `CleanTombstones` keeps the WAL invariant as long as it does not lower the replay cutoff
    (dropping the newest block would — finding F30). -/
theorem cleantomb_walInv {d : Db} (hW : WalInv d)
    (hmv : maxBlk d.blocks ≤ maxBlk d.cleanTombstones.blocks) : WalInv d.cleanTombstones := by
  intro c hc
  exact (hW c (Int.le_trans hmv hc)).congr rfl rfl

end Prom.Db
